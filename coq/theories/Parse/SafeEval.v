(* Parse/SafeEval.v -- C10: model of qkeras/safe_eval.py (GetArg / GetParams) over Coq strings.
   Values carry no evaluation construct: the parser can only build literals. *)
From Coq Require Import String Ascii List Bool ZArith DecimalString DecimalZ DecimalPos Decimal Lia.
Import ListNotations.
Open Scope string_scope.

Inductive value :=
| VInt (z : Z) | VFloat (tok : string) | VBool (b : bool) | VNone
| VStr (s : string) | VList (l : list value).

(* ---------- characters ---------- *)
Definition is_digit (c : ascii) : bool := let n := nat_of_ascii c in (48 <=? n)%nat && (n <=? 57)%nat.
Definition is_space (c : ascii) : bool :=
  let n := nat_of_ascii c in (n =? 32)%nat || (n =? 9)%nat || (n =? 10)%nat || (n =? 13)%nat.
Definition ch (s : string) : ascii := match s with String c _ => c | EmptyString => "000"%char end.

(* ---------- integers: the standard library's decimal printer / parser ---------- *)
Definition print_int (z : Z) : string := NilZero.string_of_int (Z.to_int z).
Definition parse_int (s : string) : option Z := option_map Z.of_int (NilZero.int_of_string s).

(* ---------- float tokens: [+-]? (d+ [. d*] | . d+) ([eE] [+-]? d+)?  and not an integer ---------- *)
Fixpoint all_digits (l : list ascii) : bool :=
  match l with [] => true | c :: r => is_digit c && all_digits r end.
Fixpoint take_digits (l : list ascii) : list ascii * list ascii :=
  match l with
  | c :: r => if is_digit c then let '(d, rest) := take_digits r in (c :: d, rest) else ([], l)
  | [] => ([], [])
  end.
Definition strip_sign (l : list ascii) : list ascii :=
  match l with
  | c :: r => if (Ascii.eqb c "+" || Ascii.eqb c "-")%bool then r else l
  | [] => []
  end.
Definition exp_ok (l : list ascii) : bool :=
  match l with
  | [] => true
  | c :: r => (Ascii.eqb c "e" || Ascii.eqb c "E") &&
              (let d := strip_sign r in negb (match d with [] => true | _ => false end) && all_digits d)
  end.
Definition is_float_tok (s : string) : bool :=
  let l := strip_sign (list_ascii_of_string s) in
  let '(ip, r1) := take_digits l in
  match r1 with
  | c :: r2 =>
    if Ascii.eqb c "." then
      let '(fp, r3) := take_digits r2 in
      negb (match ip, fp with [], [] => true | _, _ => false end) && exp_ok r3
    else negb (match ip with [] => true | _ => false end) && exp_ok r1 &&
         negb (match r1 with [] => true | _ => false end)
  | [] => false        (* digits only: that is an integer, not a float token *)
  end.

(* ---------- string helpers ---------- *)
Fixpoint split_chars (sep : ascii -> bool) (l cur : list ascii) : list (list ascii) :=
  match l with
  | [] => [List.rev cur]
  | c :: r => if sep c then List.rev cur :: split_chars sep r [] else split_chars sep r (c :: cur)
  end.
Definition split_on (sep : ascii) (s : string) : list string :=
  map string_of_list_ascii (split_chars (Ascii.eqb sep) (list_ascii_of_string s) []).
Definition remove_chars (bad : ascii -> bool) (s : string) : string :=
  string_of_list_ascii (filter (fun c => negb (bad c)) (list_ascii_of_string s)).
Definition strip_first_last (s : string) : string :=     (* Str(s) = s[1:-1] *)
  match list_ascii_of_string s with
  | _ :: r => string_of_list_ascii (removelast r)
  | [] => ""
  end.

(* ---------- GetArg (safe_eval.py:31-101) ---------- *)
Definition num (s : string) : value :=
  match parse_int s with
  | Some z => VInt z
  | None => if is_float_tok s then VFloat s else VStr (strip_first_last s)
  end.
Definition is_num (s : string) : bool :=
  match parse_int s with Some _ => true | None => is_float_tok s end.
Definition list_elems (s : string) : list string :=
  split_on " " (remove_chars (fun c => Ascii.eqb c "[" || Ascii.eqb c "]") s).
Definition is_list_of_nums (s : string) : bool :=
  let l := list_elems s in (1 <? length l)%nat && forallb is_num l.
Definition getarg (s : string) : value :=
  if String.eqb s "True" then VBool true
  else if String.eqb s "False" then VBool false
  else if is_num s then num s
  else if String.eqb s "None" then VNone
  else if is_list_of_nums s then VList (map num (list_elems s))
  else VStr (strip_first_last s).

(* ---------- GetParams (104-137): items are [tok] (positional) or [key; tok] (keyword) ---------- *)
Inductive item := IPos (tok : string) | IKw (key tok : string).
Inductive result := Ok (args : list value) (kwargs : list (string * value)) | SyntaxErr.

Fixpoint order_ok (items : list item) (seen_kw : bool) : bool :=
  match items with
  | [] => true
  | IPos _ :: r => if seen_kw then false else order_ok r false
  | IKw _ _ :: r => order_ok r true
  end.
(* the source checks only ADJACENT pairs: a positional item right after a keyword item *)
Fixpoint adjacent_ok (items : list item) : bool :=
  match items with
  | IKw _ _ :: (IPos _ :: _) => false
  | _ :: r => adjacent_ok r
  | [] => true
  end.
Definition get_params (items : list item) : result :=
  if adjacent_ok items then
    Ok (flat_map (fun i => match i with IPos t => [getarg t] | IKw _ _ => [] end) items)
       (flat_map (fun i => match i with IKw k t => [(k, getarg t)] | IPos _ => [] end) items)
  else SyntaxErr.

(* tokenizer of the pyparsing grammar:  "(" [ item ("," item)* ] ")" with
   item = key [^=,)\s]+  optionally "=" value [^,)]* ; leading blanks skipped *)
Fixpoint drop_spaces (l : list ascii) : list ascii :=
  match l with c :: r => if is_space c then drop_spaces r else l | [] => [] end.
Fixpoint take_key (l : list ascii) : list ascii * list ascii :=
  match l with
  | c :: r => if (Ascii.eqb c "=" || Ascii.eqb c "," || Ascii.eqb c ")" || is_space c)%bool then ([], l)
              else let '(k, rest) := take_key r in (c :: k, rest)
  | [] => ([], [])
  end.
Definition item_of (l : list ascii) : option item :=
  let l := drop_spaces l in
  let '(k, rest) := take_key l in
  match k with
  | [] => None
  | _ =>
    match drop_spaces rest with
    | [] => Some (IPos (string_of_list_ascii k))
    | c :: v => if Ascii.eqb c "=" then Some (IKw (string_of_list_ascii k) (string_of_list_ascii (drop_spaces v)))
                else None
    end
  end.
(* s is the text between the parentheses *)
Definition tokenize (inner : string) : option (list item) :=
  match list_ascii_of_string inner with
  | [] => Some []
  | l => let parts := split_chars (Ascii.eqb ",") l [] in
         fold_right (fun p acc => match item_of p, acc with Some i, Some r => Some (i :: r) | _, _ => None end)
                    (Some []) parts
  end.

(* ---------- canonical rendering (for the correspondence runs) ---------- *)
Definition bar : string := "|".
Fixpoint render_value (v : value) : string :=
  match v with
  | VInt z => "I:" ++ print_int z
  | VFloat t => "F:" ++ t
  | VBool b => if b then "B:1" else "B:0"
  | VNone => "N"
  | VStr s => "S:" ++ s
  | VList l => "L:" ++ String.concat ";" (map render_value l)
  end.
Definition render_result (r : result) : string :=
  match r with
  | SyntaxErr => "SyntaxError"
  | Ok a k => String.concat bar (map render_value a ++ map (fun kv => fst kv ++ "=" ++ render_value (snd kv)) k)
  end.
Definition parse_inner (inner : string) : string :=
  match tokenize inner with
  | None => "ParseError"
  | Some items => render_result (get_params items)
  end.

(* =============================== theorems =============================== *)
Lemma to_int_not_nil z : Z.to_int z <> Decimal.Pos Nil /\ Z.to_int z <> Decimal.Neg Nil.
Proof. destruct z as [|p|p]; cbn; split; try discriminate;
  intros E; injection E as E; exact (Unsigned.to_uint_nonnil p E). Qed.

Theorem parse_print_int z : parse_int (print_int z) = Some z.
Proof. unfold parse_int, print_int. destruct (to_int_not_nil z) as [A B].
  rewrite NilZero.isi by assumption. cbn. f_equal. apply DecimalZ.of_to. Qed.

(* an integer literal is read back as that integer *)
Theorem getarg_int z : getarg (print_int z) = VInt z.
Proof. unfold getarg.
  assert (T : String.eqb (print_int z) "True" = false).
  { destruct (String.eqb (print_int z) "True") eqn:E; [|reflexivity]. apply String.eqb_eq in E.
    pose proof (parse_print_int z) as P. rewrite E in P. discriminate. }
  assert (F : String.eqb (print_int z) "False" = false).
  { destruct (String.eqb (print_int z) "False") eqn:E; [|reflexivity]. apply String.eqb_eq in E.
    pose proof (parse_print_int z) as P. rewrite E in P. discriminate. }
  rewrite T, F. unfold is_num, num. rewrite parse_print_int. reflexivity. Qed.

Theorem getarg_bool (b : bool) : getarg (if b then "True" else "False") = VBool b.
Proof. destruct b; reflexivity. Qed.
Theorem getarg_none : getarg "None" = VNone.
Proof. reflexivity. Qed.

(* a float token is kept as that token (its numeric value is Python's float(tok) on both sides) *)
Theorem getarg_float t : is_float_tok t = true -> parse_int t = None ->
  String.eqb t "True" = false -> String.eqb t "False" = false -> getarg t = VFloat t.
Proof. intros F P T1 T2. unfold getarg. rewrite T1, T2. unfold is_num, num. rewrite P, F. reflexivity. Qed.

(* keyword-before-positional is rejected, for every item list *)
Theorem adjacent_kw_then_pos_rejected pre k t p post :
  get_params (pre ++ IKw k t :: IPos p :: post)%list = SyntaxErr.
Proof. unfold get_params.
  assert (A : adjacent_ok (pre ++ IKw k t :: IPos p :: post)%list = false).
  { induction pre as [|i pre IH]; [reflexivity|]. rewrite <- app_comm_cons.
    remember (pre ++ IKw k t :: IPos p :: post)%list as rest eqn:E.
    destruct i as [t0|k0 t0]; cbn [adjacent_ok].
    - destruct rest; exact IH.
    - destruct rest as [|j l]; [destruct pre; discriminate|].
      destruct j; [reflexivity | exact IH]. }
  rewrite A. reflexivity. Qed.

(* any positional item after any keyword item is rejected (not only adjacent ones) *)
Lemma adjacent_ok_order items : adjacent_ok items = true -> forall seen, seen = false -> order_ok items seen = true.
Proof. induction items as [|i r IH]; intros H seen ->; [reflexivity|].
  destruct i as [t|k t]; cbn [order_ok].
  - apply IH; [|reflexivity]. destruct r as [|j r']; [reflexivity|]. cbn [adjacent_ok] in H. exact H.
  - (* after a keyword every following item must be a keyword *)
    clear IH. revert H. revert k t. induction r as [|j r IHr]; intros k t H; [reflexivity|].
    destruct j as [t'|k' t']; cbn [adjacent_ok] in H; [discriminate|].
    cbn [order_ok]. apply (IHr k' t'). exact H. Qed.
Theorem positional_after_keyword_rejected items :
  order_ok items false = false -> get_params items = SyntaxErr.
Proof. intros H. unfold get_params. destruct (adjacent_ok items) eqn:A; [|reflexivity].
  rewrite (adjacent_ok_order items A false eq_refl) in H. discriminate. Qed.

(* arguments are converted one by one, in order: no evaluation, no reordering *)
Theorem positional_only items : (forall i, In i items -> exists t, i = IPos t) ->
  get_params items = Ok (map (fun i => match i with IPos t => getarg t | IKw _ t => getarg t end) items) [].
Proof. intros H. unfold get_params.
  assert (A : adjacent_ok items = true /\
              flat_map (fun i => match i with IPos t => [getarg t] | IKw _ _ => [] end) items =
              map (fun i => match i with IPos t => getarg t | IKw _ t => getarg t end) items /\
              flat_map (fun i => match i with IKw k t => [(k, getarg t)] | IPos _ => [] end) items = []).
  { induction items as [|i r IH]; [repeat split|].
    destruct (H i (or_introl eq_refl)) as [t ->].
    destruct IH as [I1 [I2 I3]]; [intros j Hj; apply H; right; exact Hj|].
    repeat split.
    - cbn [adjacent_ok]. destruct r; exact I1.
    - cbn [flat_map map]. rewrite I2. reflexivity.
    - cbn [flat_map]. rewrite I3. reflexivity. }
  destruct A as [A1 [A2 A3]]. rewrite A1, A2, A3. reflexivity. Qed.

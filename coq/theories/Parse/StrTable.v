(* Parse/StrTable.v -- C10, str(q) direction: the emission table of a __str__ method
   (guard, positional?, printed parameter) and its decidable well-formedness:
   whatever the option values, the positional flags printed are the first n constructor
   parameters in order, keyword flags name constructor parameters. *)
From Coq Require Import String List Bool.
Import ListNotations.
Open Scope string_scope.

Inductive cform := CTrue | CAtom (a : string) | CNot (f : cform) | CAnd (f g : cform) | COr (f g : cform).

Fixpoint atoms (f : cform) : list string :=
  match f with
  | CTrue => [] | CAtom a => [a] | CNot g => atoms g
  | CAnd g h | COr g h => atoms g ++ atoms h
  end.
Fixpoint lookupb (a : string) (v : list (string * bool)) : bool :=
  match v with [] => false | (k, b) :: r => if String.eqb k a then b else lookupb a r end.
Fixpoint evalc (v : list (string * bool)) (f : cform) : bool :=
  match f with
  | CTrue => true | CAtom a => lookupb a v | CNot g => negb (evalc v g)
  | CAnd g h => evalc v g && evalc v h | COr g h => evalc v g || evalc v h
  end.
Fixpoint dedup (l : list string) : list string :=
  match l with [] => [] | x :: r => if existsb (String.eqb x) r then dedup r else x :: dedup r end.
Fixpoint valuations (as_ : list string) : list (list (string * bool)) :=
  match as_ with
  | [] => [[]]
  | a :: r => let vs := valuations r in map (cons (a, true)) vs ++ map (cons (a, false)) vs
  end.

Definition row := (cform * bool * string)%type.       (* guard, positional?, parameter *)
Definition r_guard (r : row) := fst (fst r).
Definition r_pos (r : row) := snd (fst r).
Definition r_param (r : row) := snd r.

Definition table_atoms (t : list row) : list string := dedup (flat_map (fun r => atoms (r_guard r)) t).

(* printed positional rows form a prefix of the positional rows: once one is skipped, none follows *)
Fixpoint prefix_closed_flags (printed : list bool) : bool :=
  match printed with
  | [] => true
  | true :: r => prefix_closed_flags r
  | false :: r => forallb negb r
  end.
Definition prefix_closed (t : list row) : bool :=
  let pos := filter r_pos t in
  forallb (fun v => prefix_closed_flags (map (fun r => evalc v (r_guard r)) pos)) (valuations (table_atoms t)).

(* the i-th positional row prints the i-th constructor parameter *)
Fixpoint is_prefix (a b : list string) : bool :=
  match a, b with
  | [], _ => true
  | x :: a', y :: b' => String.eqb x y && is_prefix a' b'
  | _ :: _, [] => false
  end.
Definition positional_in_order (params : list string) (t : list row) : bool :=
  is_prefix (map r_param (filter r_pos t)) params.
Definition keywords_are_params (params : list string) (t : list row) : bool :=
  forallb (fun r => r_pos r || existsb (String.eqb (r_param r)) params) t.

(* soundness of the decision procedure: for every valuation over the table's atoms *)
Lemma prefix_closed_sound t v : prefix_closed t = true -> In v (valuations (table_atoms t)) ->
  prefix_closed_flags (map (fun r => evalc v (r_guard r)) (filter r_pos t)) = true.
Proof. unfold prefix_closed. intros H Hv. rewrite forallb_forall in H. apply H. exact Hv. Qed.

(* Export/Book.v -- C14: the bookkeeping of model_save_quantized_weights' per-weight loop (utils.py:293-372).
   For every weight of a layer the loop appends one entry to each of four lists -- the stored (software) weight, its sign tensor,
   its scale, its hardware form -- and raises two flags that decide whether `signs` / `scales` go into the returned dictionary.
   The property needs the four lists to stay ALIGNED: entry i of each list describes weight i.  coq/gen/ExportGen.v (regenerated
   from the source on every run) is proved equal to [effect_of] in Link/ExportLink.v. *)
From Coq Require Import List Bool Arith Lia.
Import ListNotations.

Inductive qkind := KNone | KPo2 | KReluPo2 | KAutoPo2 | KFixed | KOtherQ.
Inductive wtag := WRaw | WQuant.                 (* the weight as it was / the quantizer applied once *)
Inductive stag := SEmpty | SSign.                (* [] / sign tensor with entries in {-1, +1} *)
Inductive ctag := CEmpty | CScale.               (* [] / scale * m_i / m *)
Inductive htag := HSame | HLog2 | HInt.          (* the stored weight / round(log2 |w|) / w * m / (m_i * scale) *)

(* what one iteration does: the entry appended to each list (None: nothing appended) and the value ASSIGNED to each flag
   (None: the flag is not touched) *)
Record effect := Eff { e_w : option wtag; e_s : option stag; e_c : option ctag; e_h : option htag;
                       e_sign : option bool; e_scale : option bool }.

Definition effect_of (k : qkind) : effect :=
  match k with
  | KNone => Eff (Some WRaw) (Some SEmpty) (Some CEmpty) (Some HSame) None None
  | KPo2 => Eff (Some WQuant) (Some SSign) (Some CEmpty) (Some HLog2) (Some true) None
  | KReluPo2 => Eff (Some WQuant) (Some SSign) (Some CEmpty) (Some HLog2) None None
  | KAutoPo2 => Eff (Some WQuant) (Some SEmpty) (Some CScale) (Some HInt) None (Some true)
  | KFixed => Eff (Some WQuant) (Some SEmpty) (Some CEmpty) (Some HSame) None None
  | KOtherQ => Eff (Some WQuant) (Some SEmpty) (Some CEmpty) (Some HSame) None None
  end.

Record book := Book { b_w : list wtag; b_s : list stag; b_c : list ctag; b_h : list htag; b_sign : bool; b_scale : bool }.
Definition init : book := Book [] [] [] [] false false.

Definition push {A} (l : list A) (o : option A) : list A := match o with Some x => l ++ [x] | None => l end.
Definition assign (b : bool) (o : option bool) : bool := match o with Some v => v | None => b end.

Section Run.
  Variable eff : qkind -> effect.
  Definition step (b : book) (k : qkind) : book :=
    let e := eff k in
    Book (push (b_w b) (e_w e)) (push (b_s b) (e_s e)) (push (b_c b) (e_c e)) (push (b_h b) (e_h e))
         (assign (b_sign b) (e_sign e)) (assign (b_scale b) (e_scale e)).
  Definition run (ks : list qkind) : book := fold_left step ks init.
End Run.

Definition export_book (ks : list qkind) : book := run effect_of ks.

(* per-kind tags *)
Definition wtag_of k := match k with KNone => WRaw | _ => WQuant end.
Definition stag_of k := match k with KPo2 | KReluPo2 => SSign | _ => SEmpty end.
Definition ctag_of k := match k with KAutoPo2 => CScale | _ => CEmpty end.
Definition htag_of k := match k with KPo2 | KReluPo2 => HLog2 | KAutoPo2 => HInt | _ => HSame end.
Definition is_signed_po2 k := match k with KPo2 => true | _ => false end.
Definition is_auto k := match k with KAutoPo2 => true | _ => false end.

Lemma fold_spec ks : forall b,
  fold_left (step effect_of) ks b =
  Book (b_w b ++ map wtag_of ks) (b_s b ++ map stag_of ks) (b_c b ++ map ctag_of ks) (b_h b ++ map htag_of ks)
       (b_sign b || existsb is_signed_po2 ks) (b_scale b || existsb is_auto ks).
Proof.
  induction ks as [|k ks IH]; intros b.
  - cbn. rewrite !app_nil_r, !orb_false_r. destruct b; reflexivity.
  - cbn [fold_left]. rewrite IH. unfold step. cbn [b_w b_s b_c b_h b_sign b_scale map existsb].
    destruct k; cbn [effect_of e_w e_s e_c e_h e_sign e_scale push assign wtag_of stag_of ctag_of htag_of is_signed_po2 is_auto];
      rewrite <- ?app_assoc; cbn [app]; rewrite ?orb_false_l, ?orb_true_l, ?orb_true_r; try reflexivity;
      destruct (b_sign b), (b_scale b); reflexivity.
Qed.

(* THE alignment theorem: whatever the quantizers of a layer are, entry i of every list describes weight i *)
Theorem export_lists_describe_the_weights_in_order ks :
  b_w (export_book ks) = map wtag_of ks /\ b_s (export_book ks) = map stag_of ks /\
  b_c (export_book ks) = map ctag_of ks /\ b_h (export_book ks) = map htag_of ks.
Proof. unfold export_book, run. rewrite fold_spec. cbn. repeat split. Qed.
Theorem export_lists_aligned ks :
  length (b_w (export_book ks)) = length ks /\ length (b_s (export_book ks)) = length ks /\
  length (b_c (export_book ks)) = length ks /\ length (b_h (export_book ks)) = length ks.
Proof. destruct (export_lists_describe_the_weights_in_order ks) as [A [B [C D]]]. rewrite A, B, C, D, !map_length. repeat split. Qed.
(* the flags are never reset: signs are returned iff SOME weight of the layer is a signed power of two, scales iff some weight has an
   auto power-of-two scale -- whatever comes after it *)
Theorem export_flags ks : b_sign (export_book ks) = existsb is_signed_po2 ks /\ b_scale (export_book ks) = existsb is_auto ks.
Proof. unfold export_book, run. rewrite fold_spec. cbn. split; reflexivity. Qed.
(* position i: an unquantized weight is stored as it was and has no sign / scale entry; a po2 weight has its sign tensor and exponent
   at ITS index; an auto_po2 weight its scale and integer code at its index *)
Theorem export_entry_at ks i k : nth_error ks i = Some k ->
  nth_error (b_w (export_book ks)) i = Some (wtag_of k) /\ nth_error (b_s (export_book ks)) i = Some (stag_of k) /\
  nth_error (b_c (export_book ks)) i = Some (ctag_of k) /\ nth_error (b_h (export_book ks)) i = Some (htag_of k).
Proof. intros H. destruct (export_lists_describe_the_weights_in_order ks) as [A [B [C D]]]. rewrite A, B, C, D.
  repeat split; apply map_nth_error; exact H. Qed.
(* every weight with a quantizer is stored quantized ONCE, a weight without one untouched *)
Theorem export_stores_quantizer_of_previous ks i k : nth_error ks i = Some k ->
  nth_error (b_w (export_book ks)) i = Some (if match k with KNone => true | _ => false end then WRaw else WQuant).
Proof. intros H. destruct (export_entry_at ks i k H) as [A _]. rewrite A. destruct k; reflexivity. Qed.

(* a loop body that skips the sign / scale entries of unquantized weights (the early `continue` of a tidy-up) breaks the alignment *)
Definition effect_skip_unquantized (k : qkind) : effect :=
  match k with KNone => Eff (Some WRaw) None None (Some HSame) None None | _ => effect_of k end.
Theorem skipping_unquantized_entries_misaligns :
  exists ks i, nth_error ks i = Some KPo2 /\ nth_error (b_s (run effect_skip_unquantized ks)) i <> Some SSign.
Proof. exists [KNone; KPo2], 1%nat. split; [reflexivity|]. vm_compute. discriminate. Qed.
(* a flag that is re-assigned for every weight forgets an earlier signed power of two *)
Definition effect_sign_reassigned (k : qkind) : effect :=
  match k with KReluPo2 => Eff (Some WQuant) (Some SSign) (Some CEmpty) (Some HLog2) (Some false) None | _ => effect_of k end.
Theorem reassigning_the_sign_flag_loses_signs :
  exists ks, existsb is_signed_po2 ks = true /\ b_sign (run effect_sign_reassigned ks) = false.
Proof. exists [KPo2; KReluPo2]. split; reflexivity. Qed.

Example book_nonvacuous :
  export_book [KNone; KPo2; KAutoPo2] = Book [WRaw; WQuant; WQuant] [SEmpty; SSign; SEmpty] [CEmpty; CEmpty; CScale] [HSame; HLog2; HInt] true true.
Proof. reflexivity. Qed.

(* rendering for the correspondence run: [has_sign; has_scale; #weights; sign entries (1 = tensor, 0 = []); scale entries; stored weight tags (1 = quantized)] *)
From Coq Require Import ZArith.
Definition render_book (b : book) : list Z :=
  ([if b_sign b then 1 else 0; if b_scale b then 1 else 0; Z.of_nat (length (b_w b))]
   ++ map (fun t => match t with SSign => 1 | SEmpty => 0 end) (b_s b)
   ++ map (fun t => match t with CScale => 1 | CEmpty => 0 end) (b_c b)
   ++ map (fun t => match t with WQuant => 1 | WRaw => 0 end) (b_w b)
   ++ map (fun t => match t with HSame => 0 | HLog2 => 1 | HInt => 2 end) (b_h b))%Z.

(* Export/Export.v -- C14: model_save_quantized_weights (utils.py:223-413) and
   add_bn_fusing_weights (utils.py:152-219).

   A. the export loop on an abstract layer (list of optional tensor quantizers, list of
      weight tensors, a forward function that applies the quantizers itself): what the layer
      holds afterwards, idempotence, prediction invariance -- generic in the tensor type;
   B. the power-of-two hardware tuple (sign, round(log2|w|));
   C. the auto_po2 hardware tuple (integer weight, scale);
   D. the batch-norm fusing terms, as real algebra (Q) and as the float32 evaluation order
      the code uses (for the correspondence runs);
   E. instances of A for the data-independent quantizers of C02 / C03. *)
From Coq Require Import ZArith QArith List Bool Lia Lqa.
From QV Require Import Base.ZQ Base.FL Quant.Fixed Quant.FixedThm Quant.Po2 Quant.Po2Thm Quant.AutoScale Quant.BinTern.
Import ListNotations.

(* ============================ A. the export loop ============================ *)
Section Loop.
  Variable T : Type.                                   (* a weight tensor *)
  Definition quantizer := option (T -> T).             (* `if quantizer:` -- None leaves the weight alone *)
  Definition applyq (q : quantizer) (w : T) : T := match q with Some f => f w | None => w end.

  (* for quantizer, weight in zip(qs, ws): weights.append(quantizer(weight)) ; layer.set_weights(weights) *)
  Fixpoint export (qs : list quantizer) (ws : list T) : list T :=
    match qs, ws with
    | q :: qs', w :: ws' => applyq q w :: export qs' ws'
    | _, _ => []
    end.

  Definition idem (q : quantizer) : Prop := forall w, applyq q (applyq q w) = applyq q w.

  (* every weight the layer holds afterwards is its quantizer applied ONCE to the previous weight *)
  Theorem export_nth qs ws i d : length qs = length ws -> (i < length ws)%nat ->
    nth i (export qs ws) d = applyq (nth i qs None) (nth i ws d).
  Proof. revert ws i. induction qs as [|q qs IH]; intros [|w ws] i L Hi; cbn in *; try lia.
    destruct i as [|i]; [reflexivity|]. apply IH; lia. Qed.

  Theorem export_length qs ws : length qs = length ws -> length (export qs ws) = length ws.
  Proof. revert ws. induction qs as [|q qs IH]; intros [|w ws] L; cbn in *; try lia. rewrite IH; lia. Qed.

  (* a second export changes nothing when every quantizer is idempotent *)
  Theorem export_idempotent qs ws : Forall idem qs -> export qs (export qs ws) = export qs ws.
  Proof. intros H. revert ws. induction H as [|q qs Hq _ IH]; intros [|w ws]; cbn; try reflexivity.
    rewrite Hq, IH. reflexivity. Qed.

  (* a quantized layer computes F(quantized weights, input): it applies the quantizers itself *)
  Variable X Y : Type.
  Definition layer_out (F : list T -> X -> Y) (qs : list quantizer) (ws : list T) (x : X) : Y := F (export qs ws) x.

  Theorem export_keeps_layer_output F qs ws x : Forall idem qs ->
    layer_out F qs (export qs ws) x = layer_out F qs ws x.
  Proof. intros H. unfold layer_out. rewrite export_idempotent by exact H. reflexivity. Qed.
End Loop.
Arguments export {T}. Arguments applyq {T}. Arguments idem {T}. Arguments layer_out {T X Y}.

(* a model: a chain of layers on one value type; prediction = fold of the layer functions *)
Section Model.
  Variable T V : Type.
  Record qlayer := QL { ql_qs : list (quantizer T); ql_ws : list T; ql_F : list T -> V -> V }.
  Definition export_layer (l : qlayer) : qlayer := QL (ql_qs l) (export (ql_qs l) (ql_ws l)) (ql_F l).
  Definition export_model (m : list qlayer) : list qlayer := map export_layer m.
  Definition predict (m : list qlayer) (x : V) : V :=
    fold_left (fun v l => layer_out (ql_F l) (ql_qs l) (ql_ws l) v) m x.
  Definition data_independent (m : list qlayer) : Prop := Forall (fun l => Forall idem (ql_qs l)) m.

  Theorem export_keeps_predictions m x : data_independent m -> predict (export_model m) x = predict m x.
  Proof. intros H. revert x. induction H as [|l m Hl _ IH]; intros x; [reflexivity|].
    unfold predict in *. cbn [export_model map fold_left]. cbn [export_layer ql_F ql_qs ql_ws].
    rewrite (export_keeps_layer_output T V V (ql_F l) (ql_qs l) (ql_ws l) x Hl). apply IH. Qed.

  Theorem second_export_changes_nothing m : data_independent m -> export_model (export_model m) = export_model m.
  Proof. intros H. induction H as [|l m Hl _ IH]; [reflexivity|].
    unfold export_model in *. cbn [map]. rewrite IH. f_equal. unfold export_layer. cbn [ql_qs ql_ws ql_F].
    rewrite export_idempotent by exact Hl. reflexivity. Qed.
End Model.

(* ============================ B. power-of-two tuple ============================ *)
Open Scope Z_scope.
(* sign = np.sign(w); sign += 1 - |sign| ;  hw = np.round(np.log2(|w|)) *)
Definition hw_po2 (w : rat) : Z * Z := (sign1r w, exp_rnd (rabs w)).

Theorem po2_split s e : s = 1 \/ s = -1 -> hw_po2 (po2_val (s, e)) = (s, e).
Proof. intros Hs. destruct (rpow2_pos e) as [N D].
  unfold hw_po2, po2_val. cbn [fst snd]. f_equal.
  - unfold sign1r, rmul, rofZ, rnum, rden in *. cbn [fst snd] in *.
    destruct Hs; subst s; destruct (_ <? 0) eqn:E; lia.
  - assert (A : rabs (rmul (rofZ s) (rpow2 e)) = rpow2 e).
    { unfold rabs, rmul, rofZ, rnum, rden in *. cbn [fst snd] in *.
      rewrite Z.mul_1_l. destruct (rpow2 e) as [n d]. cbn [fst snd] in *. f_equal.
      destruct Hs; subst s; lia. }
    rewrite A. apply exp_rnd_pow2. Qed.

(* every output of quantized_po2 / quantized_relu_po2 is rebuilt exactly by its tuple *)
Theorem po2_tuple_rebuilds_weight c x : po2_val (hw_po2 (po2_val (po2_q c x))) = po2_val (po2_q c x).
Proof. unfold po2_q. rewrite po2_split; [reflexivity|].
  cbn [fst]. unfold sign1r. destruct (_ <? 0); lia. Qed.

Theorem rpo2_tuple_rebuilds_weight c x : po2_val (hw_po2 (po2_val (rpo2_q c x))) = po2_val (rpo2_q c x).
Proof. destruct (rpo2_q c x) as [s e] eqn:E. rewrite po2_split; [reflexivity|].
  unfold rpo2_q in E. destruct (r_slope c); [destruct (negb _)|]; inversion E; lia. Qed.

(* ============================ C. auto_po2 tuple ============================ *)
Open Scope Q_scope.
(* m = 2^unsigned_bits, mi = 2^integer, S = quantizer.scale (what the quantizer exposes);
   the stored weight of code z is  S * mi * z / m   (quantized_bits.__call__, 1409-1423) *)
Definition auto_weight (S m mi : Q) (z : Z) : Q := S * mi * inject_Z z / m.
(* hw_weight = weight * m / (m_i * scale) ; scale = scale * m_i / m *)
Definition hw_auto (S m mi w : Q) : Q * Q := (w * m / (mi * S), S * mi / m).
(* the expression before the repair (hw_weight = weight * m / m_i) *)
Definition hw_auto_unscaled (S m mi w : Q) : Q * Q := (w * m / mi, S * mi / m).

Theorem auto_split_integer S m mi z : ~ S == 0 -> ~ m == 0 -> ~ mi == 0 ->
  fst (hw_auto S m mi (auto_weight S m mi z)) == inject_Z z.
Proof. intros HS Hm Hi. unfold hw_auto, auto_weight. cbn [fst]. field. repeat split; assumption. Qed.

Theorem auto_split_rebuilds S m mi w : ~ S == 0 -> ~ m == 0 -> ~ mi == 0 ->
  let t := hw_auto S m mi w in snd t * fst t == w.
Proof. intros HS Hm Hi. unfold hw_auto. cbn [fst snd]. field. repeat split; assumption. Qed.

(* integers inside the declared bit range: the codes of the auto-scaled quantizer (C05) *)
Theorem auto_split_in_range bits z : (1 <= bits)%Z -> (Z.abs z <= qba_top bits)%Z ->
  (- 2 ^ (bits - 1) < z < 2 ^ (bits - 1))%Z.
Proof. exact (qba_code_width bits z). Qed.

(* before the repair the tuple did not rebuild the weight unless S = 1 *)
Theorem auto_split_unscaled_refuted :
  exists S m mi z, let w := auto_weight S m mi z in let t := hw_auto_unscaled S m mi w in
    ~ snd t * fst t == w /\ ~ fst t == inject_Z z.
Proof. exists (1#2), 32, 2, (-3)%Z. cbn. split; intros H; vm_compute in H; discriminate. Qed.

(* ============================ D. batch-norm fusing ============================ *)
(* inv = gamma * rsqrt(variance + eps) [optionally quantized] ; fused_bias = inv*bias + beta - inv*mean *)
Definition bn_inv (gamma r : Q) : Q := gamma * r.
Definition fused_bias (inv b beta mu : Q) : Q := inv * b + beta - inv * mu.

(* batch norm of (y + bias) = inv * y + fused_bias, for every pre-bias output y *)
Theorem bn_fuse_algebra gamma beta mu r b y :
  gamma * ((y + b) - mu) * r + beta == bn_inv gamma r * y + fused_bias (bn_inv gamma r) b beta mu.
Proof. unfold bn_inv, fused_bias. ring. Qed.
(* with an inverse quantizer the SAME quantized factor multiplies output, bias and mean *)
Theorem bn_fuse_algebra_quantized_inv (qi : Q -> Q) gamma beta mu r b y :
  let inv := qi (bn_inv gamma r) in inv * ((y + b) - mu) + beta == inv * y + fused_bias inv b beta mu.
Proof. cbn. unfold fused_bias. ring. Qed.
Theorem bn_fuse_no_bias inv beta mu : fused_bias inv 0 beta mu == beta - inv * mu.
Proof. unfold fused_bias. ring. Qed.

(* the float32 evaluation order of add_bn_fusing_weights (each numpy / TF op rounds once) *)
Definition bn_inv32 (gamma r : rat) : rat := fmul gamma r.
Definition fused_bias32 (inv b beta mu : rat) : rat := fsub (fadd (fmul inv b) beta) (fmul inv mu).
Open Scope Z_scope.
Definition dec0 (b : Z) : rat := match f32_dec b with Some r => r | None => (0, 1) end.
(* returns 0 when the implementation's (inv, fused_bias) bits are the model's values *)
Definition chk_bn_fuse (gb rb bb betab mub invb fbb : Z) : Z :=
  let inv := bn_inv32 (dec0 gb) (dec0 rb) in
  (if req inv (dec0 invb) then 0 else 1) +
  (if req (fused_bias32 (dec0 invb) (dec0 bb) (dec0 betab) (dec0 mub)) (dec0 fbb) then 0 else 2).

(* tuple checkers for the correspondence runs *)
Definition chk_po2_tuple (wb sb eb : Z) : Z :=
  let w := dec0 wb in let t := hw_po2 w in
  (if req (rofZ (fst t)) (dec0 sb) then 0 else 1) + (if req (rofZ (snd t)) (dec0 eb) then 0 else 2) +
  (if req (po2_val t) w then 0 else 4).
Definition rint (x : rat) : bool := (rnum x mod rden x =? 0).
Definition chk_auto_tuple (bits ub int : Z) (wb Sb hb ob : Z) : Z :=
  let w := dec0 wb in let S := dec0 Sb in let h := dec0 hb in let o := dec0 ob in
  let m := rpow2 ub in let mi := rpow2 int in
  (if req (rdiv (rmul w m) (rmul mi S)) h then 0 else 1) +
  (if req (rdiv (rmul S mi) m) o then 0 else 2) +
  (if rint h then 0 else 4) +
  (if rle (rabs h) (rofZ (qba_top bits)) then 0 else 8) +
  (if req (rmul o h) w then 0 else 16).

(* ============================ E. instances ============================ *)
(* fixed point (alpha None / 1), element-wise on a tensor of rationals with positive denominators *)
Definition wf (t : list rat) : Prop := Forall (fun x => 0 < rden x) t.
Definition qb_tensor (c : qbits) (t : list rat) : list rat := map (qb_val c (1, 1)) t.

Lemma qb_val_den_pos c x : 0 < rden (qb_val c (1, 1) x).
Proof. unfold qb_val. rewrite rmul_one_l. apply rscale_den_pos. unfold rofZ, rden. cbn. lia. Qed.

Theorem qb_tensor_idempotent c t : 0 < qb_ub c -> qb_tensor c (qb_tensor c t) = qb_tensor c t.
Proof. intros H. unfold qb_tensor. rewrite map_map. apply map_ext. intros x.
  (* qb_idempotent needs a positive denominator only for its inner argument's code; the code of
     qb_val's output is taken on a positive denominator by construction *)
  unfold qb_val. rewrite !rmul_one_l.
  set (k := qb_code c (rnum x) (rden x)).
  assert (R : qb_lo c <= k <= qb_hi c) by (apply qb_code_range; lia).
  rewrite (qb_code_reachable c k H R). reflexivity. Qed.

(* power of two, 'rnd' mode, no max_value, codes above the epsilon floor (C03) -- exponent level *)
Theorem po2_code_idempotent mn mx x : mn <= mx -> 0 <= rnum x -> 0 < rden x ->
  let e := clip_po2 LRnd mn mx None x in
  (rlt (rpow2 e) eps32 = false \/ e = mn) -> clip_po2 LRnd mn mx None (rpow2 e) = e.
Proof. exact (po2_rnd_idempotent mn mx x). Qed.

(* a whole fixed-point model: export keeps predictions, a second export changes nothing *)
Theorem fixed_point_model_export (V : Type) (m : list (qlayer (list rat) V)) :
  Forall (fun l => Forall (fun q => q = None \/ exists c, 0 < qb_ub c /\ q = Some (qb_tensor c)) (ql_qs _ _ l)) m ->
  (forall x, predict _ _ (export_model _ _ m) x = predict _ _ m x) /\
  export_model _ _ (export_model _ _ m) = export_model _ _ m.
Proof. intros H.
  assert (D : data_independent _ _ m).
  { unfold data_independent. eapply Forall_impl; [|exact H]. intros l Hl.
    eapply Forall_impl; [|exact Hl]. intros q [->|[c [Hc ->]]]; intros w; cbn; [reflexivity|].
    apply qb_tensor_idempotent; exact Hc. }
  split; [intros x; apply export_keeps_predictions; exact D | apply second_export_changes_nothing; exact D]. Qed.

(* binary / ternary weights with a constant scale 1 (C04 codes): +-1 binary and ternary are idempotent, so they
   are data independent in the sense of section A; the 0/1 binary is NOT (zero counts as positive) -- known finding *)
Definition bin_val (use01 : bool) (x : rat) : rat := rofZ (bcode use01 x).
Definition tern_val (thr x : rat) : rat := rofZ (tcode thr x).
Theorem binary_pm1_idempotent x : bin_val false (bin_val false x) = bin_val false x.
Proof. unfold bin_val, bcode, bsign, rofZ, rnum. cbn [fst]. destruct (fst x <? 0); reflexivity. Qed.
Theorem binary_01_not_idempotent : exists x, bin_val true (bin_val true x) <> bin_val true x.
Proof. exists (-1, 1). vm_compute. discriminate. Qed.
Theorem ternary_idempotent thr x : 0 < rnum thr -> 0 < rden thr -> rnum thr <= rden thr ->
  tern_val thr (tern_val thr x) = tern_val thr x.
Proof. intros Hn Hd Hle. unfold tern_val, tcode, sgn3, rle, rabs, rofZ, rnum, rden in *. cbn [fst snd] in *.
  destruct (fst thr * snd x <=? Z.abs (fst x) * snd thr) eqn:E; cbn [fst snd].
  - destruct (fst x <? 0) eqn:N; [|destruct (0 <? fst x) eqn:P]; cbn [fst snd Z.abs];
      repeat match goal with |- context [if ?b then _ else _] => destruct b eqn:? end; try reflexivity; try lia.
  - repeat match goal with |- context [if ?b then _ else _] => destruct b eqn:? end; try reflexivity; try lia.
Qed.

(* Property C10 -- quantizer strings parse as the equivalent Python call, never
   executing code, and str(q) re-parses to q.  Parser theorems are over the model
   Parse/SafeEval.v; the __str__ tables and the callee list of safe_eval.py are
   regenerated from /repo on every run (QVGen.QMeta). *)
From Coq Require Import String List Bool ZArith.
From QV Require Import Config.QConfig Parse.SafeEval Parse.StrTable.
From QVGen Require Import QMeta.
Import ListNotations.
Open Scope string_scope.

(* ---- literals are read back as themselves ---- *)
Theorem C10_integer_literal : forall z, getarg (print_int z) = VInt z.
Proof. exact getarg_int. Qed.
Print Assumptions C10_integer_literal.
Theorem C10_bool_literal : forall b : bool, getarg (if b then "True" else "False") = VBool b.
Proof. exact getarg_bool. Qed.
Print Assumptions C10_bool_literal.
Theorem C10_none_literal : getarg "None" = VNone.
Proof. exact getarg_none. Qed.
Theorem C10_float_token : forall t, is_float_tok t = true -> parse_int t = None ->
  String.eqb t "True" = false -> String.eqb t "False" = false -> getarg t = VFloat t.
Proof. exact getarg_float. Qed.
Print Assumptions C10_float_token.

(* ---- argument order: positional items are converted one by one, in order; a positional
        item after a keyword item is rejected for EVERY item list ---- *)
Theorem C10_positional_after_keyword_rejected : forall items,
  order_ok items false = false -> get_params items = SyntaxErr.
Proof. exact positional_after_keyword_rejected. Qed.
Print Assumptions C10_positional_after_keyword_rejected.
Theorem C10_positional_arguments_in_order : forall items,
  (forall i, In i items -> exists t, i = IPos t) ->
  get_params items = Ok (map (fun i => match i with IPos t => getarg t | IKw _ t => getarg t end) items) [].
Proof. exact positional_only. Qed.
Print Assumptions C10_positional_arguments_in_order.

(* ---- never executing arbitrary code: every call made anywhere in safe_eval.py (as the
        source is NOW) is on this allow-list; eval / exec / compile / __import__ / getattr are not ---- *)
Definition allowed_callees : list string :=
  ["Bool"; "GetArg"; "GetParams"; "Group"; "IsBool"; "IsListofNums"; "IsNone"; "IsNum"; "ListofNums"; "Num";
   "Optional"; "Regex"; "Str"; "Suppress"; "SyntaxError"; "data.parseString"; "data.parseString(s).asList";
   "delimitedList"; "eval_str.split"; "float"; "int"; "isinstance"; "keras.activations.get"; "len"; "list"; "logging.info";
   "op_dict.get"; "quantizer"; "range"; "s.replace"; "s.replace('[', '').replace"; "s.split"; "str";
   "import::logging"; "import:__future__:absolute_import"; "import:__future__:division"; "import:__future__:print_function";
   "import:pyparsing:delimitedList"; "import:pyparsing:Group"; "import:pyparsing:Optional"; "import:pyparsing:Regex";
   "import:pyparsing:Suppress"; "import:tensorflow:keras"].
Theorem C10_no_code_execution_constructs :
  translation_ok = true /\ forallb (fun c => mem c allowed_callees) gen_safe_eval_callees = true.
Proof. split; vm_compute; reflexivity. Qed.

(* ---- str(q): emission tables generated from the current __str__ methods ---- *)
Definition params_of (c : string) : list string := assoc [] c (map (fun q => (c_name q, c_params q)) gen_classes).

(* positional flags are printed in constructor order, for every class *)
Theorem C10_str_positional_flags_in_constructor_order :
  forallb (fun ct => positional_in_order (params_of (fst ct)) (snd ct)) gen_str_tables = true.
Proof. vm_compute. reflexivity. Qed.

(* whatever the option values, the positional flags printed form a prefix of the constructor
   parameters -- proved for every class except the four recorded findings, whose __str__ can skip a
   positional slot and still print a later one *)
Definition known_slot_findings : list string :=
  ["quantized_relu"; "quantized_tanh"; "quantized_sigmoid"; "quantized_relu_po2"].
Theorem C10_str_positional_prefix_closed_partial :
  forallb (fun ct => prefix_closed (snd ct) || mem (fst ct) known_slot_findings) gen_str_tables = true.
Proof. vm_compute. reflexivity. Qed.

Theorem C10_prefix_closed_decision_is_sound : forall t v, prefix_closed t = true ->
  In v (valuations (table_atoms t)) ->
  prefix_closed_flags (map (fun r => evalc v (r_guard r)) (filter r_pos t)) = true.
Proof. exact prefix_closed_sound. Qed.
Print Assumptions C10_prefix_closed_decision_is_sound.

Example C10_nonvacuous :
  parse_inner "4, 0, 1, alpha='auto', scale=-1.5e-3" = "I:4|I:0|I:1|alpha=S:auto|scale=F:-1.5e-3" /\
  parse_inner "a=1, 2" = "SyntaxError" /\ parse_inner "4,x=[1 2.5 3]" = "I:4|x=L:I:1;F:2.5;I:3".
Proof. vm_compute. repeat split. Qed.

(* Property C16 -- qtools multiplier output types represent every product of
   their operand types.  Statements only; proofs in QTools/MulThm.v.
   A fixed-point type t holds the values code * 2^-(frac_bits t) with
   code_ok t code (two's-complement range of bits - sign magnitude bits). *)
From Coq Require Import ZArith List Bool.
From QV Require Import Base.ZQ Base.FL QTools.Types QTools.Ops QTools.MulThm.
From QVGen Require Import QToolsOps.
From QV Require Import Link.QToolsLink.
Open Scope Z_scope.
Import ListNotations.

Theorem C16_fixed_times_fixed : forall w x out k1 k2,
  0 <= mag_bits w -> 0 <= mag_bits x -> code_ok w k1 -> code_ok x k2 ->
  ~ (q_sgn w = true /\ q_sgn x = true /\ k1 = fix_lo w /\ k2 = fix_lo x) ->
  let o := fixed_mul w x out in
  frac_bits o = frac_bits w + frac_bits x /\ code_ok o (k1 * k2).
Proof. exact fixed_mul_closed. Qed.
Print Assumptions C16_fixed_times_fixed.

Theorem C16_po2_times_fixed_shifter : forall w x out k e (neg : bool),
  q_mode w = 1 -> 0 <= mag_bits x ->
  let mn := fst (get_exp w) in let mx := snd (get_exp w) in
  - mn <= e <= mx -> code_ok x k -> (neg = true -> q_sgn w = true) ->
  ~ (neg = true /\ q_sgn x = true /\ k = fix_lo x /\ e = mx) ->
  let o := shifter w x out in
  frac_bits o = frac_bits x + mn /\ code_ok o ((if neg then -1 else 1) * k * 2 ^ (e + mn)).
Proof. exact shifter_closed_w_po2. Qed.
Print Assumptions C16_po2_times_fixed_shifter.

Theorem C16_ternary_or_binary_weight_times_fixed_mux : forall w x out k t,
  (name_has_binary (q_name w) || name_has_ternary (q_name w)) = true ->
  name_has_po2 (q_name out) = false ->
  0 <= mag_bits x -> code_ok x k -> (t = -1 \/ t = 0 \/ t = 1) ->
  (t = -1 -> q_sgn w = true) -> ~ (t = -1 /\ q_sgn x = true /\ k = fix_lo x) ->
  let o := mux w x out in frac_bits o = frac_bits x /\ code_ok o (t * k).
Proof. exact mux_closed_w_tern_x_fixed. Qed.
Print Assumptions C16_ternary_or_binary_weight_times_fixed_mux.

Theorem C16_fixed_weight_times_ternary_or_binary_mux : forall w x out k t,
  (name_has_binary (q_name w) || name_has_ternary (q_name w)) = false ->
  name_has_po2 (q_name out) = false ->
  0 <= mag_bits w -> code_ok w k -> (t = -1 \/ t = 0 \/ t = 1) ->
  (t = -1 -> q_sgn x = true) -> ~ (t = -1 /\ q_sgn w = true /\ k = fix_lo w) ->
  let o := mux w x out in frac_bits o = frac_bits w /\ code_ok o (k * t).
Proof. exact mux_closed_w_fixed_x_tern. Qed.
Print Assumptions C16_fixed_weight_times_ternary_or_binary_mux.

Theorem C16_binary01_weight_times_fixed_and : forall w x out k t,
  name_is_ternary (q_name out) = false -> name_has_po2 (q_name out) = false ->
  name_is_binary (q_name w) = true -> q_use01 w = Some true ->
  q_bits w = 1 -> q_sgn w = false -> 1 <= q_bits x ->
  code_ok x k -> (t = 0 \/ t = 1) ->
  let o := and_gate w x out in frac_bits o = frac_bits x /\ code_ok o (t * k).
Proof. exact and_closed_w01_x_fixed. Qed.
Print Assumptions C16_binary01_weight_times_fixed_and.

Theorem C16_fixed_weight_times_binary01_and : forall w x out k t,
  name_is_ternary (q_name out) = false -> name_has_po2 (q_name out) = false ->
  name_is_binary (q_name w) = false ->
  q_bits x = 1 -> q_sgn x = false -> 1 <= q_bits w ->
  code_ok w k -> (t = 0 \/ t = 1) ->
  let o := and_gate w x out in frac_bits o = frac_bits w /\ code_ok o (k * t).
Proof. exact and_closed_w_fixed_x01. Qed.
Print Assumptions C16_fixed_weight_times_binary01_and.

Theorem C16_po2_times_po2_exponents_same_sign : forall w x out e1 e2,
  q_sgn w = q_sgn x -> q_maxv w = None -> q_maxv x = None ->
  1 <= q_bits w - b2z (q_sgn w) -> 1 <= q_bits x - b2z (q_sgn x) ->
  - fst (get_exp w) <= e1 <= snd (get_exp w) ->
  - fst (get_exp x) <= e2 <= snd (get_exp x) ->
  let o := adder_mul w x out in
  - fst (get_exp o) <= e1 + e2 <= snd (get_exp o).
Proof. exact adder_mul_exponents_same_sign. Qed.
Print Assumptions C16_po2_times_po2_exponents_same_sign.

(* the full statement fails for two table entries: witnesses (known findings) *)
Theorem C16_po2_signed_times_unsigned_refuted :
  exists w x, q_mode w = 1 /\ q_mode x = 1 /\ mul_bad_pairs w x <> [].
Proof. exact adder_mul_mixed_sign_refuted. Qed.
Print Assumptions C16_po2_signed_times_unsigned_refuted.
(* ... and, of the same sign, when one operand has max_value <= 1 (no exponent sign bit) and the other has one *)
Theorem C16_po2_operand_without_exponent_sign_bit_refuted :
  exists w x, q_mode w = 1 /\ q_mode x = 1 /\ q_sgn w = q_sgn x /\ mul_bad_pairs w x <> [].
Proof. exact adder_mul_no_exponent_sign_bit_refuted. Qed.
Print Assumptions C16_po2_operand_without_exponent_sign_bit_refuted.

Theorem C16_and_gate_01_weight_refuted :
  exists w x, q_mode w = 4 /\ q_mode x = 0 /\ mul_bad_pairs w x <> [].
Proof. exact and_gate_01_weight_refuted. Qed.
Print Assumptions C16_and_gate_01_weight_refuted.

Theorem C16_implementation_kind_table : forall mw mx, 0 <= mw <= 5 -> 0 <= mx <= 5 ->
  fst (mul_table mw mx) = kind_spec mw mx.
Proof. exact impl_kind_table. Qed.
Print Assumptions C16_implementation_kind_table.

Theorem C16_zero_in_fixed_output : forall t, 0 <= mag_bits t -> code_ok t 0.
Proof. exact zero_always_in_fixed_output. Qed.
Print Assumptions C16_zero_in_fixed_output.

Example C16_nonvacuous :
  let w := QT 0 4 0 true false false None NQBits None in
  let x := QT 0 6 2 false false false None NQRelu None in
  let o := snd (make_multiplier w x) in
  render o = [0; 10; 2; 1; 0; 0; -1; 1; 0] /\ mul_bad_pairs w x = [] /\ length (enum_type w) = 16%nat.
Proof. vm_compute. repeat split. Qed.

(* ---- tie to the source (T): the multiplier rules regenerated from multiplier_impl.py / multiplier_factory.py on this run
   are, for all operands, the model the theorems above are about ---- *)
Theorem C16_source_translated : translation_ok = true.
Proof. exact link_translation_ok. Qed.
Print Assumptions C16_source_translated.
Theorem C16_source_multiplier_table : forall mw mx, 0 <= mw <= 5 -> 0 <= mx <= 5 ->
  nth (Z.to_nat mx) (nth (Z.to_nat mw) gen_mul_table []) (IFMul, OFloat) = mul_table mw mx.
Proof. exact link_mul_table. Qed.
Print Assumptions C16_source_multiplier_table.
Theorem C16_source_rules_are_the_model : forall w x out,
  gen_FixedPointMultiplier w x out = fixed_mul w x out /\ gen_Shifter w x out = shifter w x out /\
  gen_Mux w x out = mux w x out /\ gen_AndGate w x out = and_gate w x out /\ gen_XorGate w x out = xor_gate w x out /\
  gen_Adder w x out = adder_mul w x out /\ gen_FloatingPointMultiplier w x out = float_mul w x out.
Proof. intros. repeat split; first [apply link_FixedPointMultiplier | apply link_Shifter | apply link_Mux | apply link_AndGate
                                   | apply link_XorGate | apply link_Adder | apply link_FloatingPointMultiplier]. Qed.
Print Assumptions C16_source_rules_are_the_model.

(* the exponent range of a power-of-two type, as /repo computes it now (get_exp regenerated on this run), is the
   get_exp of the model: min exponent from the exponent bits, max exponent capped by ceil(log2 max_value) *)
Theorem C16_source_get_exp : forall t, gen_get_exp t = get_exp t.
Proof. exact link_get_exp. Qed.
Print Assumptions C16_source_get_exp.

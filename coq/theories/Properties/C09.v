(* Property C09 -- quantizer configuration round trip.  The generic theorems are for
   every class description and ALL option values; the class table QVGen.QMeta is
   regenerated from /repo/qkeras/quantizers.py on every run, so the finite obligations
   below are re-checked against what the code says now. *)
From Coq Require Import String List Bool.
From QV Require Import Config.QConfig.
From QVGen Require Import QMeta.
Import ListNotations.
Open Scope string_scope.

Theorem C09_accepts_own_config : forall (V : Type) params (default : string -> V) keys (o : string -> V),
  forallb (fun k => mem k params) keys = true ->
  exists o', from_config V params default (get_config V keys o) = Some o'.
Proof. exact accepts_own_config. Qed.
Print Assumptions C09_accepts_own_config.

Theorem C09_rejects_unknown_key : forall (V : Type) params (default : string -> V) keys (o : string -> V),
  forallb (fun k => mem k params) keys = false ->
  from_config V params default (get_config V keys o) = None.
Proof. exact rejects_own_config. Qed.
Print Assumptions C09_rejects_unknown_key.

Theorem C09_roundtrip_every_option_value : forall (V : Type) params (default : string -> V) keys o o' p,
  from_config V params default (get_config V keys o) = Some o' ->
  o' p = if mem p keys then o p else default p.
Proof. exact roundtrip. Qed.
Print Assumptions C09_roundtrip_every_option_value.

Theorem C09_roundtrip_same_function : forall (V : Type) params (default : string -> V) keys sem o o',
  from_config V params default (get_config V keys o) = Some o' ->
  (forall p, In p sem -> mem p keys = false -> o p = default p) ->
  forall p, In p sem -> o' p = o p.
Proof. exact roundtrip_semantic. Qed.
Print Assumptions C09_roundtrip_same_function.

(* ---- obligations over the table generated from the current source ---- *)
Theorem C09_translation_ok : translation_ok = true.
Proof. reflexivity. Qed.

Theorem C09_registered_classes : map c_name gen_classes =
  ["quantized_linear"; "quantized_bits"; "bernoulli"; "ternary"; "stochastic_ternary"; "binary";
   "stochastic_binary"; "quantized_relu"; "quantized_ulaw"; "quantized_tanh"; "quantized_sigmoid";
   "quantized_po2"; "quantized_relu_po2"; "quantized_hswish"].
Proof. reflexivity. Qed.

Theorem C09_registry_resolves_class_names : gen_registry_by_class_name = true.
Proof. reflexivity. Qed.

(* every class rebuilds from its own config (keys are constructor parameters) *)
Theorem C09_every_class_accepts_own_config : rejects_covered [] gen_classes = true.
Proof. vm_compute. reflexivity. Qed.

(* every option that changes the function is emitted by get_config *)
Theorem C09_config_complete : gaps_covered [] gen_classes = true.
Proof. vm_compute. reflexivity. Qed.

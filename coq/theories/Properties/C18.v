(* Property C18 -- bit widths reported for a concrete model bound the values it really
   produces.  Statements only; proofs in QTools/LayerMap.v.  Bit widths, integer bits, the
   number of accumulated terms, every operand code and every input in the stated range are
   inside the forall. *)
From Coq Require Import ZArith QArith Qminmax List Bool.
From QV Require Import Base.ZQ Base.FL Quant.Fixed QTools.Types QTools.Ops QTools.LayerMap Quant.Po2 QTools.Po2Bridge.
From QVGen Require Import QToolsOps.
From QV Require Import Link.QToolsLink.
From QVGen Require Import LayerMapGen.
From QV Require Import Link.LayerMapLink.
From QVGen Require EstGen.
From QV Require Link.EstLink.
Import ListNotations.
Open Scope Z_scope.

(* fixed x fixed dense / convolution position without bias: the dot product of representable
   operand codes is a code of the reported accumulator, on the grid frac(w) + frac(x) *)
Theorem C18_preactivation_fits_accumulator_no_bias :
  forall w x kernel_ops kws kxs,
  q_mode w = 0 -> q_mode x = 0 -> 0 <= mag_bits w -> 0 <= mag_bits x -> 1 <= kernel_ops ->
  all_pairs (fun kw kx => code_ok w kw /\ code_ok x kx /\ ~ corner w x kw kx) kws kxs ->
  Z.of_nat (length kws) <= kernel_ops ->
  let acc := layer_acc w x kernel_ops None in
  frac_bits acc = frac_bits w + frac_bits x /\ code_ok acc (dot kws kxs).
Proof. exact dense_preact_fits_no_bias. Qed.
Print Assumptions C18_preactivation_fits_accumulator_no_bias.

(* ... with a fixed-point bias, on the finer of the two grids *)
Theorem C18_preactivation_fits_accumulator_with_bias :
  forall w x b kernel_ops kws kxs kb,
  q_mode w = 0 -> q_mode x = 0 -> q_mode b = 0 ->
  0 <= mag_bits w -> 0 <= mag_bits x -> 0 <= mag_bits b -> 1 <= kernel_ops ->
  all_pairs (fun kw kx => code_ok w kw /\ code_ok x kx /\ ~ corner w x kw kx) kws kxs ->
  Z.of_nat (length kws) <= kernel_ops -> code_ok b kb ->
  let acc := layer_acc w x kernel_ops (Some b) in
  let F := frac_bits acc in
  F = Z.max (frac_bits w + frac_bits x) (frac_bits b) /\
  code_ok acc (dot kws kxs * 2 ^ (F - (frac_bits w + frac_bits x)) + kb * 2 ^ (F - frac_bits b)).
Proof. exact dense_preact_fits_with_bias. Qed.
Print Assumptions C18_preactivation_fits_accumulator_with_bias.

(* ternary / binary (+-1) kernels (mux multiplier) *)
Theorem C18_preactivation_fits_accumulator_ternary_binary_kernel :
  forall w x kernel_ops ts kxs,
  (q_mode w = 2 \/ q_mode w = 3) -> q_mode x = 0 ->
  (name_has_binary (q_name w) || name_has_ternary (q_name w))%bool = true -> q_sgn w = true ->
  0 <= mag_bits x -> 1 <= kernel_ops ->
  all_pairs (fun t kx => (t = -1 \/ t = 0 \/ t = 1) /\ code_ok x kx /\ ~ (t = -1 /\ q_sgn x = true /\ kx = fix_lo x)) ts kxs ->
  Z.of_nat (length ts) <= kernel_ops ->
  let acc := layer_acc w x kernel_ops None in
  frac_bits acc = frac_bits x /\ code_ok acc (dot ts kxs).
Proof. exact tern_preact_fits_no_bias. Qed.
Print Assumptions C18_preactivation_fits_accumulator_ternary_binary_kernel.

(* power-of-two kernels (shifter multiplier): weight = (negative?, exponent) *)
Theorem C18_preactivation_fits_accumulator_po2_kernel :
  forall w x kernel_ops (ws : list (bool * Z)) kxs,
  q_mode w = 1 -> q_mode x = 0 -> 0 <= mag_bits x -> 1 <= kernel_ops ->
  let mn := fst (get_exp w) in let mx := snd (get_exp w) in
  length ws = length kxs ->
  (forall we k, In (we, k) (combine ws kxs) ->
     - mn <= snd we <= mx /\ code_ok x k /\ (fst we = true -> q_sgn w = true) /\
     ~ (fst we = true /\ q_sgn x = true /\ k = fix_lo x /\ snd we = mx)) ->
  Z.of_nat (length ws) <= kernel_ops ->
  let acc := layer_acc w x kernel_ops None in
  frac_bits acc = frac_bits x + mn /\ code_ok acc (po2_dot mn ws kxs).
Proof. exact po2_preact_fits_no_bias. Qed.
Print Assumptions C18_preactivation_fits_accumulator_po2_kernel.

(* the corner excluded above is a genuine overflow of the reported type (known finding) *)
Theorem C18_most_negative_corner_refuted :
  exists w x kernel_ops kws kxs,
    q_mode w = 0 /\ q_mode x = 0 /\ Z.of_nat (length kws) <= kernel_ops /\
    Forall (code_ok w) kws /\ Forall (code_ok x) kxs /\
    ~ code_ok (layer_acc w x kernel_ops None) (dot kws kxs).
Proof. exact preact_corner_refuted. Qed.
Print Assumptions C18_most_negative_corner_refuted.

(* auto power-of-two kernel scale: the scale-adjusted multiplier holds every scaled product *)
Theorem C18_auto_po2_adjusted_type_holds_scaled_products :
  forall m mn mx s k, 0 <= mag_bits m -> mn <= s <= mx -> code_ok m k ->
  let m' := adjust_auto_po2 m mn mx in
  frac_bits m' = frac_bits m - mn /\ code_ok m' (k * 2 ^ (s - mn)).
Proof. exact auto_po2_adjusted_multiplier_holds_scaled_product. Qed.
Print Assumptions C18_auto_po2_adjusted_type_holds_scaled_products.

(* every weight, bias and fixed-point activation fits the quantizer type reported for it: the quantized_bits
   model of C01 emits only codes of the qtools type that convert_qkeras_quantizer produces, on the same grid *)
Theorem C18_quantized_bits_values_fit_reported_type :
  forall (c : Quant.Fixed.qbits) a b, 0 < Quant.Fixed.qb_ub c ->
  frac_bits (qt_of_qbits c) = - Quant.Fixed.qb_se c /\ code_ok (qt_of_qbits c) (Quant.Fixed.qb_code c a b).
Proof. exact qbits_value_fits_reported_type. Qed.
Print Assumptions C18_quantized_bits_values_fit_reported_type.

Theorem C18_quantized_relu_values_fit_reported_type :
  forall (c : Quant.Fixed.qrelu) a b, 0 <= Quant.Fixed.qr_nsb c ->
  (forall s, Quant.Fixed.qr_slope c = Some s -> 0 <= s <= Quant.Fixed.qr_nsb c) ->
  let t := qt_of_qrelu (Quant.Fixed.qr_bits c) (Quant.Fixed.qr_int c) (qr_leaky c) in
  frac_bits t = - Quant.Fixed.qr_se c /\ code_ok t (Quant.Fixed.qr_code c a b).
Proof. exact qrelu_value_fits_reported_type. Qed.
Print Assumptions C18_quantized_relu_values_fit_reported_type.

(* tie to the source (T): the conversion of qkeras quantizers into qtools types, regenerated from quantizer_impl.py on
   this run, is the type these bridge theorems are about; the layer rules of Ops.v are linked by C16 / C17 *)
Theorem C18_source_conversion_is_the_model : forall bits int (kn sym lk : bool),
  translation_ok = true /\
  gen_conv_QuantizedBits bits int kn = qt_of_qbits (Quant.Fixed.QB bits int kn sym) /\
  gen_conv_QuantizedRelu bits int lk = qt_of_qrelu bits int lk.
Proof. intros. split; [exact link_translation_ok|]. split; [apply link_conv_QuantizedBits | apply link_conv_QuantizedRelu]. Qed.
Print Assumptions C18_source_conversion_is_the_model.

(* weight-based estimator: with the bias added once, (n1, n0) bound every output over the input box *)
Theorem C18_estimator_bounds_every_output :
  forall ws xs (b xmin xmax : Q), in_box xmin xmax ws xs ->
  let '(n1, n0) := est_sound ws b xmin xmax in (- n0 <= qdot ws xs + b <= n1)%Q.
Proof. exact est_sound_bounds_output. Qed.
Print Assumptions C18_estimator_bounds_every_output.

(* before the repair (bias scaled by the input bound) it was not a bound: the witness of the fix: commit *)
Theorem C18_estimator_before_repair_refuted :
  exists ws xs (b xmin xmax : Q), in_box xmin xmax ws xs /\
    let '(n1, n0) := est_before_repair ws b xmin xmax in ~ (qdot ws xs + b <= Qmax n1 n0)%Q.
Proof. exact est_before_repair_refuted. Qed.
Print Assumptions C18_estimator_before_repair_refuted.

(* non-vacuity: 4-bit weights x 8-bit inputs, three terms, 6-bit bias *)
Example C18_nonvacuous :
  let w := QT 0 4 0 true false false None NQBits None in
  let x := QT 0 8 2 true false false None NQBits None in
  let b := QT 0 6 1 true false false None NQBits None in
  code_ok (layer_acc w x 3 (Some b)) (dot [7; -7; 3] [127; -128; 5] * 2 ^ 0 + 31 * 2 ^ 4).
Proof. cbn zeta. vm_compute. split; discriminate. Qed.

(* the exponent range of a power-of-two type, as /repo computes it now (get_exp regenerated on this run), is the
   get_exp of the model: min exponent from the exponent bits, max exponent capped by ceil(log2 max_value) *)
Theorem C18_source_get_exp : forall t, gen_get_exp t = get_exp t.
Proof. exact link_get_exp. Qed.
Print Assumptions C18_source_get_exp.

(* ---- bridge C03 -> C18: every value the power-of-two quantizer models can emit is a member of the qtools type reported
   for the quantizer (PowerOfTwo.convert_qkeras_quantizer + get_exp), for all bit widths, max_value, rounding modes, inputs ---- *)
Theorem C18_po2_value_fits_reported_type : forall c x, 2 <= p_bits c -> 0 < rden x ->
  match p_mv c with
  | Some v => 0 < rnum v /\ 0 < rden v /\ po2_min_exp (p_bits c) (p_mv c) <= clog2_rat v
  | None => True
  end ->
  mem_type (qt_of_po2 true (p_bits c) (p_mv c)) (po2_val (po2_q c x)) = true.
Proof. exact po2_value_fits_reported_type. Qed.
Print Assumptions C18_po2_value_fits_reported_type.
Theorem C18_relu_po2_value_fits_reported_type : forall c x, r_slope c = None -> 1 <= r_bits c -> 0 < rden x ->
  match r_mv c with
  | Some v => 0 < rnum v /\ 0 < rden v /\ rpo2_min_exp (r_bits c) (r_mv c) <= clog2_rat v
  | None => True
  end ->
  mem_type (qt_of_po2 false (r_bits c) (r_mv c)) (po2_val (rpo2_q c x)) = true.
Proof. exact relu_po2_value_fits_reported_type. Qed.
Print Assumptions C18_relu_po2_value_fits_reported_type.
(* the same statement was false of the code before fix: dcbc898 (max_value <= 1: no exponent sign bit) *)
Theorem C18_po2_no_sign_bit_before_repair_refuted :
  exists c x, p_bits c = 4 /\ p_mv c = Some (1, 1) /\
    snd (po2_q c x) < - fst (get_exp_before_repair (qt_of_po2 true (p_bits c) (p_mv c))) /\
    - fst (get_exp (qt_of_po2 true (p_bits c) (p_mv c))) <= snd (po2_q c x).
Proof. exact po2_no_sign_bit_before_repair_refuted. Qed.
Print Assumptions C18_po2_no_sign_bit_before_repair_refuted.

(* ---- the dense / convolution branch of generate_layer_data_type_map as /repo has it now (coq/gen/LayerMapGen.v, regenerated on every run) ---- *)
Theorem C18_layermap_translation_ok : layermap_translation_ok = true.
Proof. exact link_layermap_ok. Qed.
Theorem C18_source_layer_map_entry_is_the_model : forall dw ub w x b kops kdw,
  gen_layer_multiplier w x = layer_mul w x /\
  gen_layer_accumulator dw ub w x b kops kdw = layer_acc w x (if dw then kdw else kops) (if ub then Some b else None).
Proof. intros. split; [apply link_layer_multiplier | apply link_layer_accumulator]. Qed.
Print Assumptions C18_source_layer_map_entry_is_the_model.
(* the accumulator THE CODE stores for a bias-free fixed-point layer holds every dot product of representable codes *)
Theorem C18_code_preactivation_fits_stored_accumulator_no_bias :
  forall (dw : bool) w x b kops kdw kws kxs,
  q_mode w = 0 -> q_mode x = 0 -> 0 <= mag_bits w -> 0 <= mag_bits x -> 1 <= (if dw then kdw else kops) ->
  all_pairs (fun kw kx => code_ok w kw /\ code_ok x kx /\ ~ corner w x kw kx) kws kxs ->
  Z.of_nat (length kws) <= (if dw then kdw else kops) ->
  let acc := gen_layer_accumulator dw false w x b kops kdw in
  frac_bits acc = frac_bits w + frac_bits x /\ code_ok acc (dot kws kxs).
Proof. intros dw w x b kops kdw kws kxs Hw Hx Mw Mx Hk Hp Hl. cbv zeta. rewrite link_layer_accumulator.
  apply dense_preact_fits_no_bias; assumption. Qed.
Print Assumptions C18_code_preactivation_fits_stored_accumulator_no_bias.
(* ... and with a fixed-point bias, on the finer of the two grids *)
Theorem C18_code_preactivation_fits_stored_accumulator_with_bias :
  forall (dw : bool) w x b kops kdw kws kxs kb,
  q_mode w = 0 -> q_mode x = 0 -> q_mode b = 0 ->
  0 <= mag_bits w -> 0 <= mag_bits x -> 0 <= mag_bits b -> 1 <= (if dw then kdw else kops) ->
  all_pairs (fun kw kx => code_ok w kw /\ code_ok x kx /\ ~ corner w x kw kx) kws kxs ->
  Z.of_nat (length kws) <= (if dw then kdw else kops) -> code_ok b kb ->
  let acc := gen_layer_accumulator dw true w x b kops kdw in
  let F := frac_bits acc in
  F = Z.max (frac_bits w + frac_bits x) (frac_bits b) /\
  code_ok acc (dot kws kxs * 2 ^ (F - (frac_bits w + frac_bits x)) + kb * 2 ^ (F - frac_bits b)).
Proof. intros dw w x b kops kdw kws kxs kb Hw Hx Hb Mw Mx Mb Hk Hp Hl Hkb. cbv zeta. rewrite link_layer_accumulator.
  apply dense_preact_fits_with_bias; assumption. Qed.
Print Assumptions C18_code_preactivation_fits_stored_accumulator_with_bias.

(* ---- the per-channel bound of analyze_accumulator as /repo has it now (coq/gen/EstGen.v, regenerated on every run) ---- *)
Theorem C18_est_translation_ok : EstGen.est_translation_ok = true.
Proof. exact EstLink.link_est_ok. Qed.
(* for every weight list, bias, input range and every input in that range the channel's output lies between -n0 and n1 OF THE CODE *)
Theorem C18_code_estimator_bounds_every_output : forall ws xs b xmin xmax, in_box xmin xmax ws xs ->
  (- snd (EstGen.gen_est ws b xmin xmax) <= qdot ws xs + b <= fst (EstGen.gen_est ws b xmin xmax))%Q.
Proof. exact EstLink.link_est_bounds_output. Qed.
Print Assumptions C18_code_estimator_bounds_every_output.

(* the auto power-of-two adjustment as /repo has it now: the fused accumulator the code reports for a kernel with an auto_po2 scale is the
   model's, for every option combination, operand types, kernel size and shift range *)
Theorem C18_source_fused_accumulator_is_the_model : forall dw ub w x b kops kdw mn mx,
  gen_adjust_auto_po2 (layer_mul w x) mn mx = adjust_auto_po2 (layer_mul w x) mn mx /\
  gen_fused_accumulator dw ub (gen_adjust_auto_po2 (gen_layer_multiplier w x) mn mx) b kops kdw =
  layer_fused_acc w x (if dw then kdw else kops) (if ub then Some b else None) mn mx.
Proof. intros. split; [apply link_adjust_auto_po2 | apply link_fused_accumulator]. Qed.
Print Assumptions C18_source_fused_accumulator_is_the_model.

(* Property C13 -- saving, cloning or reloading a quantized model preserves its
   predictions.  What a theorem can carry: the configuration round trip of every class
   description (shared with C09, for ALL option values) and the completeness of the
   custom-object table, regenerated from /repo on every run.  Bit-identical predictions
   through Keras (de)serialisation and HDF5 are decided by the correspondence run of the
   same check (translation-validation level for that half, see MANIFEST). *)
From Coq Require Import String List Bool.
From QV Require Import Config.QConfig.
From QVGen Require Import QMeta.
Import ListNotations.
Open Scope string_scope.

Theorem C13_config_roundtrip_every_option_value : forall (V : Type) params (default : string -> V) keys o o' p,
  from_config V params default (get_config V keys o) = Some o' ->
  o' p = if mem p keys then o p else default p.
Proof. exact roundtrip. Qed.
Print Assumptions C13_config_roundtrip_every_option_value.

Theorem C13_translation_ok : translation_ok = true.
Proof. reflexivity. Qed.

(* every registered quantizer is a key of the custom-object table: reloading needs no user objects *)
Theorem C13_every_registered_quantizer_in_custom_object_table :
  forallb (fun c => mem (c_name c) gen_custom_object_table) gen_classes = true.
Proof. vm_compute. reflexivity. Qed.

(* every quantized layer class whose call method is part of the verified data-flow set (C11), the
   activation / normalisation wrappers and the constraint / initializer wrappers are in the table *)
Theorem C13_core_layer_classes_in_custom_object_table :
  forallb (fun c => mem c gen_custom_object_table)
    ["QDense"; "QConv1D"; "QConv2D"; "QConv2DTranspose"; "QDepthwiseConv2D"; "QSeparableConv1D"; "QSeparableConv2D";
     "QScaleShift"; "QAveragePooling2D"; "QGlobalAveragePooling2D"; "QSimpleRNNCell"; "QLSTMCell"; "QGRUCell";
     "QSimpleRNN"; "QLSTM"; "QGRU"; "QBidirectional"; "QActivation"; "QAdaptiveActivation"; "QBatchNormalization";
     "QConv2DBatchnorm"; "QDepthwiseConv2DBatchnorm"; "Clip"; "QInitializer"] = true.
Proof. vm_compute. reflexivity. Qed.

(* every quantizer rebuilds from its own configuration and emits every function-changing option (C09) *)
Theorem C13_quantizer_configs_complete :
  rejects_covered [] gen_classes = true /\ gaps_covered [] gen_classes = true.
Proof. split; vm_compute; reflexivity. Qed.

(* ---- how the quantized LAYER classes serialise their quantizers (coq/gen/LayerMeta.v, regenerated from the eight layer modules on
   every run by tools/translate/layermeta.py) ---- *)
From QVGen Require Import LayerMeta.
Definition suffixb (suf s : string) : bool :=
  let n := String.length suf in let m := String.length s in
  Nat.leb n m && String.eqb (substring (m - n) n s) suf.
Definition lrow := (string * string * bool * list string * list (string * string * string))%type.
Definition l_name (r : lrow) : string := let '(n, _, _, _, _) := r in n.
Definition l_base (r : lrow) : string := let '(_, b, _, _, _) := r in b.
Definition l_qparams (r : lrow) : list string := let '(_, _, _, q, _) := r in q.
Definition l_keys (r : lrow) : list (string * string * string) := let '(_, _, _, _, k) := r in k.
Definition find_class (n : string) : option lrow := find (fun r => String.eqb (l_name r) n) gen_layer_configs.
(* keys of a class and of its quantized base classes (QConv2DBatchnorm -> QConv2D): two levels are enough for the library *)
Definition keys_with_bases (r : lrow) : list string :=
  map (fun k => fst (fst k)) (l_keys r) ++
  match find_class (l_base r) with
  | Some b => map (fun k => fst (fst k)) (l_keys b) ++
              match find_class (l_base b) with Some b2 => map (fun k => fst (fst k)) (l_keys b2) | None => [] end
  | None => []
  end.
Definition quantizer_params_are_keys (r : lrow) : bool :=
  forallb (fun p => negb (suffixb "_quantizer" p) || mem p (keys_with_bases r)) (l_qparams r).
Definition own_attribute (k form attr : string) : bool :=
  negb (String.eqb form "other") && (String.eqb attr k || String.eqb attr (k ++ "_internal")).
Definition quantizer_keys_read_own_attribute (r : lrow) : bool :=
  forallb (fun e => let '(k, form, attr) := e in
                    if suffixb "_quantizer" k || String.eqb k "quantizer" then own_attribute k form attr
                    else if String.eqb k "activation" then
                      (* QAdaptiveActivation stores the NAME of the quantizer class it builds itself; every other class its activation attribute *)
                      own_attribute k form attr || (String.eqb (l_name r) "QAdaptiveActivation" && String.eqb attr "self.quantizer.__class__.__name__")
                    else true) (l_keys r).

Theorem C13_layer_translation_ok : layer_translation_ok = true.
Proof. reflexivity. Qed.
(* every quantizer a layer class takes is serialised by that class (or by the quantized class it extends) *)
Theorem C13_every_layer_quantizer_parameter_is_a_config_key : forallb quantizer_params_are_keys gen_layer_configs = true.
Proof. vm_compute. reflexivity. Qed.
(* ... under its OWN key, from its own attribute: no quantizer is written under another one's name, none as a derived text *)
Theorem C13_every_quantizer_key_reads_its_own_attribute : forallb quantizer_keys_read_own_attribute gen_layer_configs = true.
Proof. vm_compute. reflexivity. Qed.
(* the table covers the layer classes of the library *)
Theorem C13_layer_table_covers_the_library :
  forallb (fun c => match find_class c with Some _ => true | None => false end)
    ["QDense"; "QConv1D"; "QConv2D"; "QConv2DTranspose"; "QDepthwiseConv2D"; "QSeparableConv1D"; "QSeparableConv2D"; "QScaleShift";
     "QAveragePooling2D"; "QGlobalAveragePooling2D"; "QSimpleRNNCell"; "QLSTMCell"; "QGRUCell"; "QSimpleRNN"; "QLSTM"; "QGRU";
     "QActivation"; "QAdaptiveActivation"; "QBatchNormalization"; "QConv2DBatchnorm"; "QDepthwiseConv2DBatchnorm"] = true.
Proof. vm_compute. reflexivity. Qed.

(* Property C13 -- saving, cloning or reloading a quantized model preserves its
   predictions.  What a theorem can carry: the configuration round trip of every class
   description (shared with C09, for ALL option values) and the completeness of the
   custom-object table, regenerated from /repo on every run.  Bit-identical predictions
   through Keras (de)serialisation and HDF5 are decided by the correspondence run of the
   same check (translation-validation level for that half, see MANIFEST). *)
From Coq Require Import String List Bool.
From QV Require Import Config.QConfig.
From QVGen Require Import QMeta.
Import ListNotations.
Open Scope string_scope.

Theorem C13_config_roundtrip_every_option_value : forall (V : Type) params (default : string -> V) keys o o' p,
  from_config V params default (get_config V keys o) = Some o' ->
  o' p = if mem p keys then o p else default p.
Proof. exact roundtrip. Qed.
Print Assumptions C13_config_roundtrip_every_option_value.

Theorem C13_translation_ok : translation_ok = true.
Proof. reflexivity. Qed.

(* every registered quantizer is a key of the custom-object table: reloading needs no user objects *)
Theorem C13_every_registered_quantizer_in_custom_object_table :
  forallb (fun c => mem (c_name c) gen_custom_object_table) gen_classes = true.
Proof. vm_compute. reflexivity. Qed.

(* every quantized layer class whose call method is part of the verified data-flow set (C11), the
   activation / normalisation wrappers and the constraint / initializer wrappers are in the table *)
Theorem C13_core_layer_classes_in_custom_object_table :
  forallb (fun c => mem c gen_custom_object_table)
    ["QDense"; "QConv1D"; "QConv2D"; "QConv2DTranspose"; "QDepthwiseConv2D"; "QSeparableConv1D"; "QSeparableConv2D";
     "QScaleShift"; "QAveragePooling2D"; "QGlobalAveragePooling2D"; "QSimpleRNNCell"; "QLSTMCell"; "QGRUCell";
     "QSimpleRNN"; "QLSTM"; "QGRU"; "QBidirectional"; "QActivation"; "QAdaptiveActivation"; "QBatchNormalization";
     "QConv2DBatchnorm"; "QDepthwiseConv2DBatchnorm"; "Clip"; "QInitializer"] = true.
Proof. vm_compute. reflexivity. Qed.

(* every quantizer rebuilds from its own configuration and emits every function-changing option (C09) *)
Theorem C13_quantizer_configs_complete :
  rejects_covered [] gen_classes = true /\ gaps_covered [] gen_classes = true.
Proof. split; vm_compute; reflexivity. Qed.

(* Property C03 -- power-of-two quantizers emit signed powers of two with
   in-range exponents.  Statements only; proofs in Quant/Po2Thm.v.
   P2le l a b reads 2^l <= |a|/b. *)
From Coq Require Import ZArith List Bool.
From QV Require Import Base.ZQ Base.FL Quant.Po2 Quant.Po2Thm Link.Po2Link.
From QVGen Require Import Po2Gen.
Open Scope Z_scope.

Theorem C03_po2_exponent_in_range : forall c x,
  po2_min_exp (p_bits c) (p_mv c) <= po2_max_exp (p_bits c) (p_mv c) ->
  po2_min_exp (p_bits c) (p_mv c) <= snd (po2_q c x) <= po2_max_exp (p_bits c) (p_mv c).
Proof. exact po2_exponent_in_range. Qed.
Print Assumptions C03_po2_exponent_in_range.

Theorem C03_relu_po2_exponent_in_range : forall c x,
  rpo2_min_exp (r_bits c) (r_mv c) <= rpo2_max_exp (r_bits c) (r_mv c) ->
  rpo2_min_exp (r_bits c) (r_mv c) <= snd (rpo2_q c x) <= rpo2_max_exp (r_bits c) (r_mv c).
Proof. exact rpo2_exponent_in_range. Qed.
Print Assumptions C03_relu_po2_exponent_in_range.

Theorem C03_sign_follows_input : forall c x, fst (po2_q c x) = (if rnum x <? 0 then -1 else 1).
Proof. exact po2_sign_follows_input. Qed.
Print Assumptions C03_sign_follows_input.

Theorem C03_zero_maps_to_smallest_magnitude : forall c, po2_q c (0, 1) = (1, po2_min_exp (p_bits c) (p_mv c)).
Proof. exact po2_zero_maps_to_smallest. Qed.
Print Assumptions C03_zero_maps_to_smallest_magnitude.

Theorem C03_relu_negative_maps_to_smallest : forall c x, r_slope c = None -> rnum x < 0 ->
  rpo2_q c x = (1, rpo2_min_exp (r_bits c) (r_mv c)).
Proof. exact rpo2_negative_no_slope. Qed.
Print Assumptions C03_relu_negative_maps_to_smallest.

Theorem C03_relu_negative_with_slope_is_negative_power : forall c x s,
  r_slope c = Some s -> rnum x < 0 -> fst (rpo2_q c x) = -1.
Proof. exact rpo2_negative_with_slope. Qed.
Print Assumptions C03_relu_negative_with_slope_is_negative_power.

Theorem C03_below_epsilon_floor : forall m mn mx mv x, rlt x eps32 = true -> clip_po2 m mn mx mv x = mn.
Proof. exact po2_below_eps. Qed.
Print Assumptions C03_below_epsilon_floor.

Theorem C03_rnd_exponent_is_log2_nearest : forall mn mx x,
  0 < rnum x -> 0 < rden x -> rlt x eps32 = false ->
  let e := clip_po2 LRnd mn mx None x in
  mn <= exp_rnd x <= mx ->
  P2le (2 * e - 1) (rnum x * rnum x) (rden x * rden x) /\
  ~ P2le (2 * e + 1) (rnum x * rnum x) (rden x * rden x).
Proof. exact po2_rnd_is_log2_nearest. Qed.
Print Assumptions C03_rnd_exponent_is_log2_nearest.

Theorem C03_floor_exponent_is_floor : forall mn mx x,
  0 < rnum x -> 0 < rden x -> rlt x eps32 = false ->
  let e := clip_po2 LFloor mn mx None x in
  mn <= exp_floor x <= mx ->
  P2le e (rnum x) (rden x) /\ ~ P2le (e + 1) (rnum x) (rden x).
Proof. exact po2_floor_is_floor. Qed.
Print Assumptions C03_floor_exponent_is_floor.

Theorem C03_pow2_max_value_never_exceeded : forall m mn mx k x,
  mn <= mx -> mn <= k -> 0 < rden x -> rlt x eps32 = false ->
  clip_po2 m mn mx (Some (rpow2 k)) x <= k.
Proof. exact po2_never_exceeds_pow2_max_value. Qed.
Print Assumptions C03_pow2_max_value_never_exceeded.

Theorem C03_monotone_on_each_sign : forall m mn mx x y, mn <= mx ->
  0 <= rnum x -> 0 < rden x -> 0 < rden y -> rnum x * rden y <= rnum y * rden x ->
  clip_po2 m mn mx None x <= clip_po2 m mn mx None y.
Proof. exact clip_po2_monotone. Qed.
Print Assumptions C03_monotone_on_each_sign.

Theorem C03_rnd_idempotent : forall mn mx x, mn <= mx -> 0 <= rnum x -> 0 < rden x ->
  let e := clip_po2 LRnd mn mx None x in
  (rlt (rpow2 e) eps32 = false \/ e = mn) ->
  clip_po2 LRnd mn mx None (rpow2 e) = e.
Proof. exact po2_rnd_idempotent. Qed.
Print Assumptions C03_rnd_idempotent.

(* refuted parts of the full statement (known findings, replayed by the check) *)
Theorem C03_floor_idempotent_refuted :
  exists c x, p_mode c = LFloor /\ let y := po2_val (po2_q c x) in po2_q c y <> po2_q c x.
Proof. exact po2_floor_idempotent_refuted. Qed.
Print Assumptions C03_floor_idempotent_refuted.

Theorem C03_relu_min_with_slope_refuted :
  exists c x, rlt (po2_val (rpo2_q c x)) (rpo2_min_reported c) = true.
Proof. exact rpo2_min_with_slope_refuted. Qed.
Print Assumptions C03_relu_min_with_slope_refuted.

Theorem C03_value_le_max : forall c x, p_mv c = None ->
  po2_min_exp (p_bits c) None <= po2_max_exp (p_bits c) None ->
  snd (po2_q c x) <= po2_max_exp (p_bits c) None.
Proof. exact po2_value_le_max. Qed.
Print Assumptions C03_value_le_max.

Example C03_nonvacuous :
  let c := P2 4 None LRnd in
  po2_q c (3, 1) = (1, 2) /\ po2_q c (-3, 10) = (-1, -2) /\ po2_q c (1000, 1) = (1, 3) /\
  po2_q c (1, 1000000) = (1, -4) /\ po2_q (P2 4 None LFloor) (3, 1) = (1, 1).
Proof. vm_compute. repeat split. Qed.

(* ---- tie to the source (T): the exponent interval "determined by the bit width and max_value" as the constructors of
   /repo compute it on this run (coq/gen/Po2Gen.v from _need_exponent_sign_bit_check, _get_min_max_exponents,
   quantized_po2.__init__, quantized_relu_po2.__init__) is the interval every theorem above is stated for ---- *)
Theorem C03_source_translated : translation_ok = true.
Proof. exact link_po2_ok. Qed.
Theorem C03_source_po2_interval : forall bits mv,
  gen_po2_exponents bits mv false = (po2_min_exp bits mv, po2_max_exp bits mv).
Proof. exact link_po2_exponents. Qed.
Print Assumptions C03_source_po2_interval.
Theorem C03_source_relu_po2_interval : forall bits mv,
  gen_rpo2_exponents bits mv false = (rpo2_min_exp bits mv, rpo2_max_exp bits mv).
Proof. exact link_rpo2_exponents. Qed.
Print Assumptions C03_source_relu_po2_interval.
(* quadratic_approximation keeps the minimum and lowers the maximum to the largest even exponent of the interval *)
Theorem C03_source_quadratic_interval : forall bits mv,
  let plain := gen_po2_exponents bits mv false in let quad := gen_po2_exponents bits mv true in
  fst quad = fst plain /\ snd quad mod 2 = 0 /\ snd plain - 1 <= snd quad <= snd plain.
Proof. exact link_quadratic. Qed.
Print Assumptions C03_source_quadratic_interval.
Theorem C03_source_quadratic_interval_relu : forall bits mv,
  let plain := gen_rpo2_exponents bits mv false in let quad := gen_rpo2_exponents bits mv true in
  fst quad = fst plain /\ snd quad mod 2 = 0 /\ snd plain - 1 <= snd quad <= snd plain.
Proof. exact link_quadratic_relu. Qed.
Print Assumptions C03_source_quadratic_interval_relu.
Example C03_source_nonvacuous : gen_po2_exponents 4 None false = (-4, 3) /\ gen_po2_exponents 2 (Some (2, 1)) false = (-1, 0) /\
  gen_rpo2_exponents 4 (Some (1, 1)) false = (-16, 15) /\ gen_po2_exponents 4 None true = (-4, 2).
Proof. vm_compute. repeat split. Qed.

(* ---- the rounding step, exactly, given the value the float32 log kernel returned (the oracle) ---- *)
Theorem C03_exponent_from_log_in_range : forall m mn mx l, mn <= mx -> mn <= exp_from_log m mn mx l <= mx.
Proof. exact exp_from_log_in_range. Qed.
Print Assumptions C03_exponent_from_log_in_range.
Theorem C03_rnd_exponent_is_nearest_to_the_returned_log_ties_to_even : forall mn mx l,
  0 < rden l -> mn <= rhe (rnum l) (rden l) <= mx ->
  let e := exp_from_log LRnd mn mx l in
  2 * Z.abs (e * rden l - rnum l) <= rden l /\ (2 * (rnum l mod rden l) = rden l -> Z.even e = true).
Proof. exact exp_from_log_rnd_nearest. Qed.
Print Assumptions C03_rnd_exponent_is_nearest_to_the_returned_log_ties_to_even.
Theorem C03_floor_exponent_is_floor_of_the_returned_log : forall mn mx l, 0 < rden l -> mn <= rnum l / rden l <= mx ->
  let e := exp_from_log LFloor mn mx l in e * rden l <= rnum l < (e + 1) * rden l.
Proof. exact exp_from_log_floor. Qed.
Print Assumptions C03_floor_exponent_is_floor_of_the_returned_log.
Theorem C03_exponent_checker_sound : forall m mn mx lb e, chk_exp_from_log m mn mx lb e = 0 ->
  exists l, f32_dec lb = Some l /\ e = exp_from_log m mn mx l.
Proof. exact chk_exp_from_log_sound. Qed.
Print Assumptions C03_exponent_checker_sound.

(* ---- max() / min() of quantized_po2 as /repo has them now (coq/gen/ReportGen.v, regenerated on every run) ---- *)
From QVGen Require ReportGen.
From QV Require Link.ReportLink.
Theorem C03_code_po2_reporters_are_the_model : forall bits mv mode,
  ReportGen.gen_po2_max mv (po2_max_exp bits mv) = po2_max (P2 bits mv mode) /\
  ReportGen.gen_po2_min mv (po2_max_exp bits mv) = rneg (po2_max (P2 bits mv mode)).
Proof. exact ReportLink.link_po2_reporters. Qed.
Print Assumptions C03_code_po2_reporters_are_the_model.

(* ---- _clip_power_of_two regenerated from the source on every run (coq/gen/Po2CallGen.v): the epsilon test, the max_value clamp,
        the clip to the exponent interval.  With the exact base-2 logarithm (round / floor) it IS clip_po2, on which every theorem
        above is stated; whatever the float logarithm returns, the exponent stays inside the interval (doubled under
        quadratic_approximation). ---- *)
From QV Require Import Link.Po2CallLink.
From QVGen Require Po2CallGen.
Theorem C03_source_clip_translated : Po2CallGen.po2call_translation_ok = true.
Proof. exact link_po2call_ok. Qed.
Print Assumptions C03_source_clip_translated.
Theorem C03_source_clip_power_of_two_is_the_model : forall (floor_mode has_mv : bool) mn mx mv xabs,
  Po2CallGen.gen_clip_po2 exp_rnd exp_floor exp_rnd exp_floor floor_mode false has_mv mn mx mv xabs =
  clip_po2 (if floor_mode then LFloor else LRnd) mn mx (if has_mv then Some mv else None) xabs.
Proof. exact link_clip_po2. Qed.
Print Assumptions C03_source_clip_power_of_two_is_the_model.
Theorem C03_source_exponent_inside_the_interval_for_any_logarithm : forall lgr lgf lgrs lgfs (floor_mode quad has_mv : bool) mn mx mv xabs,
  mn <= mx ->
  exists k, mn <= k <= mx /\ Po2CallGen.gen_clip_po2 lgr lgf lgrs lgfs floor_mode quad has_mv mn mx mv xabs =
                             (if quad then (if rlt xabs eps32 then k else 2 * k) else k).
Proof. exact gen_clip_po2_in_interval. Qed.
Print Assumptions C03_source_exponent_inside_the_interval_for_any_logarithm.
Theorem C03_source_po2_value_is_sign_times_power_of_two : forall e x,
  req (Po2CallGen.gen_po2_xq e x) (po2_val (sign1r x, e)) = true.
Proof. exact link_po2_xq. Qed.
Print Assumptions C03_source_po2_value_is_sign_times_power_of_two.
(* quantized_relu_po2.__call__ from the source: clipf is _clip_power_of_two with this quantizer's fields *)
Theorem C03_source_relu_po2_plain_value_is_the_model : forall bits mvo m slope x, 0 < rden x ->
  let c := RP2 bits mvo m None in
  req (Po2CallGen.gen_rpo2_xq (clip_po2 m (rpo2_min_exp bits mvo) (rpo2_max_exp bits mvo) mvo) false slope x) (po2_val (rpo2_q c x)) = true.
Proof. exact link_rpo2_plain. Qed.
Print Assumptions C03_source_relu_po2_plain_value_is_the_model.
Theorem C03_source_relu_po2_leaky_nonnegative_input : forall bits mvo m s slope x, 0 < rden x -> 0 <= rnum x ->
  let c := RP2 bits mvo m (Some s) in
  req (Po2CallGen.gen_rpo2_xq (clip_po2 m (rpo2_min_exp bits mvo) (rpo2_max_exp bits mvo) mvo) true slope x) (po2_val (rpo2_q c x)) = true.
Proof. exact link_rpo2_leaky_nonneg. Qed.
Print Assumptions C03_source_relu_po2_leaky_nonnegative_input.
Theorem C03_source_relu_po2_leaky_negative_input_is_minus_a_power_of_two : forall clipf slope x, rnum x < 0 -> 0 < rden x ->
  Po2CallGen.gen_rpo2_xq clipf true slope x = rneg (rpow2 (clipf (rmul (rneg x) slope))).
Proof. exact link_rpo2_leaky_negative. Qed.
Print Assumptions C03_source_relu_po2_leaky_negative_input_is_minus_a_power_of_two.

(* Property C07 -- qnoise_factor interpolates exactly between the unquantized
   and the quantized output; the scheduler drives it monotonically from 0 to 1.
   Statements only; proofs in Quant/Noise.v. *)
From Coq Require Import ZArith List Bool.
From QV Require Import Base.ZQ Base.FL Quant.Noise.
From QVGen Require Import SchedGen.
From QV Require Import Link.SchedLink.
Open Scope Z_scope.
Import ListNotations.

(* both return expressions equal surrogate + f * (quantized - surrogate) *)
Theorem C07_ste_expression_interpolates : forall s f q, req (mix_ste s f q) (interp s f q) = true.
Proof. exact mix_ste_is_interp. Qed.
Print Assumptions C07_ste_expression_interpolates.

Theorem C07_non_ste_expression_interpolates : forall s f q, req (mix_nonste s f q) (interp s f q) = true.
Proof. exact mix_nonste_is_interp. Qed.
Print Assumptions C07_non_ste_expression_interpolates.

Theorem C07_factor_zero_is_surrogate : forall s q, req (interp s (0, 1) q) s = true.
Proof. exact interp_zero. Qed.
Print Assumptions C07_factor_zero_is_surrogate.

Theorem C07_factor_one_is_quantized : forall s q, 0 < rden s -> req (interp s (1, 1) q) q = true.
Proof. exact interp_one. Qed.
Print Assumptions C07_factor_one_is_quantized.

(* update API: constructor constant, update before or after build, variable-backed *)
Theorem C07_update_then_build : forall uv s f, stored (build uv (update s f)) = f.
Proof. exact update_then_build. Qed.
Print Assumptions C07_update_then_build.
Theorem C07_build_then_update : forall uv s f, stored (update (build uv s) f) = f.
Proof. exact build_then_update. Qed.
Print Assumptions C07_build_then_update.
Theorem C07_constructor_equals_update : forall uv f0 f,
  stored (build uv (PyFloat f)) = stored (update (build uv (PyFloat f0)) f).
Proof. exact constructor_equals_update. Qed.
Print Assumptions C07_constructor_equals_update.

(* scheduler; pw is np.power(., exponent) on [0,1], an oracle with the four stated properties *)
Section Scheduler.
  Variable pw : rat -> rat.
  Hypothesis pw_den : forall v, 0 < rden v -> 0 < rden (pw v).
  Hypothesis pw_zero : forall v, rnum v = 0 -> rnum (pw v) = 0.
  Hypothesis pw_range : forall v, 0 < rden v -> 0 <= rnum v -> rnum v <= rden v ->
                                 0 <= rnum (pw v) /\ rnum (pw v) <= rden (pw v).
  Hypothesis pw_mono : forall u v, 0 < rden u -> 0 < rden v -> 0 <= rnum u ->
                                  rnum u * rden v <= rnum v * rden u -> rle (pw u) (pw v) = true.
  Variables start finish : Z.
  Hypothesis start_le_finish : start <= finish.

  Theorem C07_zero_before_start : forall freq, freq < start -> calc pw start finish freq = (0, 1).
  Proof. intros. eapply calc_zero_before; eauto. Qed.

  Theorem C07_one_from_finish : forall freq, finish <= freq -> req (calc pw start finish freq) (1, 1) = true.
  Proof. intros. eapply calc_one_from_finish; eauto. Qed.

  Theorem C07_factor_in_unit_interval : forall freq,
    rle (0, 1) (calc pw start finish freq) = true /\ rle (calc pw start finish freq) (1, 1) = true.
  Proof. intros. eapply calc_range; eauto. Qed.

  Theorem C07_factor_monotone_in_step : forall f1 f2, f1 <= f2 ->
    rle (calc pw start finish f1) (calc pw start finish f2) = true.
  Proof. intros. eapply calc_mono; eauto. Qed.

  Variable by_epoch : bool.
  Variables update_freq initial : Z.
  Hypothesis update_freq_pos : 0 < update_freq.

  (* for EVERY sequence of callback hook events *)
  Theorem C07_applied_factor_never_decreases : forall n hs,
    sorted_desc (applied (run pw start finish by_epoch update_freq initial (init n) hs)).
  Proof. intros. eapply applied_never_decreases; eauto. Qed.

  Theorem C07_every_quantizer_holds_latest_factor : forall n hs v,
    In v (factors (run pw start finish by_epoch update_freq initial (init n) hs)) ->
    match applied (run pw start finish by_epoch update_freq initial (init n) hs) with
    | [] => v = (0, 1) | a :: _ => v = a end.
  Proof. intros. eapply all_quantizers_hold_latest; eauto. Qed.

  Theorem C07_no_quantizer_dropped : forall n hs,
    length (factors (run pw start finish by_epoch update_freq initial (init n) hs)) = n.
  Proof. intros. eapply quantizer_count_preserved; eauto. Qed.
End Scheduler.
Print Assumptions C07_applied_factor_never_decreases.
Print Assumptions C07_one_from_finish.
Print Assumptions C07_factor_monotone_in_step.
Print Assumptions C07_every_quantizer_holds_latest_factor.

Theorem C07_get_quantizers_exactly_those_with_knob : forall (Q : Type) (has_knob : Q -> bool) ls q,
  In q (get_quantizers Q has_knob ls) <-> exists l, In l ls /\ In q (layer_qs Q l) /\ has_knob q = true.
Proof. exact get_quantizers_spec. Qed.
Print Assumptions C07_get_quantizers_exactly_those_with_knob.

(* non-vacuity: the integer-power instance satisfies the oracle's hypotheses on a concrete schedule *)
Example C07_nonvacuous :
  let c := calc (fun v => rpow v 3) 2 6 in
  c 1 = (0, 1) /\ req (c 4) (7, 8) = true /\ req (c 6) (1, 1) = true /\ req (c 9) (1, 1) = true /\
  rle (c 3) (c 4) = true.
Proof. vm_compute. repeat split. Qed.

(* ---- tie to the source (T): calculate_qnoise_factor regenerated from qkeras/callbacks.py on this run is the
   function `calc` the scheduler theorems are about, for every schedule, power oracle and step ---- *)
Theorem C07_source_scheduler_is_the_model : forall pw start finish freq,
  translation_ok = true /\ gen_calc pw start finish freq = calc pw start finish freq.
Proof. intros. split; [exact link_sched_ok | apply link_calc]. Qed.
Print Assumptions C07_source_scheduler_is_the_model.

(* the hooks and update_qnoise_factor as /repo has them now, assembled into one transition, are the state machine the history theorems
   above are about -- for every batch / epoch index Keras may pass (the callback counts its own steps) *)
Theorem C07_source_hooks_are_the_state_machine : forall pw start finish by_epoch update_freq initial s h batch epoch,
  gen_step pw start finish by_epoch update_freq initial s h batch epoch = step pw start finish by_epoch update_freq initial s h.
Proof. exact link_step. Qed.
Print Assumptions C07_source_hooks_are_the_state_machine.

(* ---- quantized_linear mixes with plain arithmetic (no stop_gradient): the returned expression, regenerated from the source on
        every run (coq/gen/LinGen.v), IS the interpolation x + f * (xq - x): x at factor 0, xq at factor 1. ---- *)
From QV Require Import Link.LinLink.
From QVGen Require LinGen.
Theorem C07_source_linear_mixture_is_the_interpolation : forall f x xq,
  LinGen.gen_ql_res f x xq = interp x f xq /\
  req (LinGen.gen_ql_res (0, 1) x xq) x = true /\ (0 < rden x -> req (LinGen.gen_ql_res (1, 1) x xq) xq = true).
Proof.
  intros f x xq. split; [reflexivity|]. split.
  - exact (interp_zero x xq).
  - intros H. exact (interp_one x xq H).
Qed.
Print Assumptions C07_source_linear_mixture_is_the_interpolation.

(* Property C06 -- quantizers stay trainable: the forward value is the quantized
   value, the gradient is the gradient of the straight-through surrogate.
   Statements only; proofs in Quant/Grad.v over the expression language of Base/Texp.v. *)
From Coq Require Import ZArith List Bool.
From QV Require Import Base.ZQ Base.FL Base.Texp Quant.Grad Link.RetLink.
From QVGen Require Import RetGen.
Open Scope Z_scope.

(* for EVERY surrogate expression s, factor f and quantized expression q *)
Theorem C06_ste_gradient_is_surrogate_gradient : forall x s f q, req (grad x (ste s f q)) (grad x s) = true.
Proof. exact ste_gradient_is_surrogate_gradient. Qed.
Print Assumptions C06_ste_gradient_is_surrogate_gradient.

Theorem C06_ste_forward_value : forall x s f q,
  req (val x (ste s f q)) (radd (val x s) (rmul f (rsub (val x q) (val x s)))) = true.
Proof. exact ste_value_interpolates. Qed.
Print Assumptions C06_ste_forward_value.

Theorem C06_non_ste_gradient : forall x s f q, req (grad x (non_ste s f q)) (rmul (rsub rone f) (grad x s)) = true.
Proof. exact non_ste_gradient. Qed.
Print Assumptions C06_non_ste_gradient.

Theorem C06_round_through_value : forall x e, 0 < rden (val x e) ->
  req (val x (round_through e)) (rofZ (rround (val x e))) = true.
Proof. exact round_through_value. Qed.
Print Assumptions C06_round_through_value.

Theorem C06_round_through_gradient : forall x e, req (grad x (round_through e)) (grad x e) = true.
Proof. exact round_through_gradient. Qed.
Print Assumptions C06_round_through_gradient.

(* identity surrogate: linear fixed point, power of two, constant-scale binary / ternary *)
Theorem C06_identity_gradient : forall x, grad x sur_identity = rone.
Proof. exact identity_gradient_is_one. Qed.
Print Assumptions C06_identity_gradient.

(* (leaky, optionally bounded) ReLU family *)
Theorem C06_relu_gradient : forall slope top x, 0 < rden x ->
  grad x (sur_relu slope top) =
  match top with
  | Some t => if rle x t then (if 0 <? rnum x then rone else rmul slope rone) else rzero
  | None => if 0 <? rnum x then rone else rmul slope rone
  end.
Proof. exact relu_gradient. Qed.
Print Assumptions C06_relu_gradient.

(* quantized_linear: 1 inside [scale*clip_min, scale*clip_max], 0 outside *)
Theorem C06_linear_gradient : forall qs lo hi shift x, 0 < rnum qs -> 0 < rden qs -> 0 < rden x ->
  req (grad x (lin_expr qs lo hi shift rone))
      (if rle lo (rmul x (rinv qs)) && rle (rmul x (rinv qs)) hi then rone else rzero) = true.
Proof. exact linear_gradient. Qed.
Print Assumptions C06_linear_gradient.

(* unscaled binary / ternary: tanh' (tanh and its derivative are oracles) *)
Theorem C06_unscaled_binary_gradient : forall th th' q x,
  req (grad x (bin_unscaled th th' q)) (rmul (th' x) rone) = true.
Proof. exact bin_unscaled_gradient. Qed.
Print Assumptions C06_unscaled_binary_gradient.

Theorem C06_relu_gradient_not_identically_zero : forall slope, exists x, grad x (sur_relu slope None) = rone.
Proof. exact relu_gradient_nonzero_inside. Qed.
Print Assumptions C06_relu_gradient_not_identically_zero.

Theorem C06_linear_gradient_not_identically_zero :
  exists x, req (grad x (lin_expr (1, 4) (-8, 1) (7, 1) rzero rone)) rone = true.
Proof. exact linear_gradient_nonzero_inside. Qed.
Print Assumptions C06_linear_gradient_not_identically_zero.

Example C06_nonvacuous :
  (* quantized_tanh(4): gradient 1 inside, 0 where the ROUNDED value is clipped (x = 0.9375 rounds to 1.0) *)
  let e := qtanh_expr (8, 1) (-1, 1) (7, 8) in
  req (grad (1, 2) e) rone = true /\ req (grad (15, 16) e) rzero = true /\ req (val (3, 10) e) (1, 4) = true.
Proof. vm_compute. repeat split. Qed.

(* ---- the return expressions of the quantizer classes as /repo has them now (coq/gen/RetGen.v, regenerated on every run):
   s is whatever differentiable surrogate the method built, q whatever quantized value, f the noise factor ---- *)
Theorem C06_ret_translation_ok : ret_translation_ok = true.
Proof. exact link_ret_ok. Qed.
Theorem C06_code_quantized_bits_return : forall x s q f,
  req (grad x (gen_ret_quantized_bits_ste s q f)) (grad x s) = true /\
  req (grad x (gen_ret_quantized_bits_nonste s q f)) (rmul (rsub rone f) (grad x s)) = true.
Proof. intros; split; [apply link_ret_quantized_bits_ste | apply link_ret_quantized_bits_nonste]. Qed.
Print Assumptions C06_code_quantized_bits_return.
Theorem C06_code_quantized_relu_return : forall x s q f,
  req (grad x (gen_ret_quantized_relu_ste s q f)) (grad x s) = true /\
  req (grad x (gen_ret_quantized_relu_nonste s q f)) (rmul (rsub rone f) (grad x s)) = true.
Proof. intros; split; [apply link_ret_quantized_relu_ste | apply link_ret_quantized_relu_nonste]. Qed.
Print Assumptions C06_code_quantized_relu_return.
Theorem C06_code_quantized_po2_return : forall x s q f,
  req (grad x (gen_ret_quantized_po2_ste s q f)) (grad x s) = true /\
  req (grad x (gen_ret_quantized_po2_nonste s q f)) (rmul (rsub rone f) (grad x s)) = true.
Proof. intros; split; [apply link_ret_quantized_po2_ste | apply link_ret_quantized_po2_nonste]. Qed.
Print Assumptions C06_code_quantized_po2_return.
Theorem C06_code_quantized_relu_po2_return : forall x s q f,
  req (grad x (gen_ret_quantized_relu_po2_ste s q f)) (grad x s) = true /\
  req (grad x (gen_ret_quantized_relu_po2_nonste s q f)) (rmul (rsub rone f) (grad x s)) = true.
Proof. intros; split; [apply link_ret_quantized_relu_po2_ste | apply link_ret_quantized_relu_po2_nonste]. Qed.
Print Assumptions C06_code_quantized_relu_po2_return.
Theorem C06_code_binary_ternary_bernoulli_return : forall x s q f,
  req (grad x (gen_ret_binary_plain s q f)) (grad x s) = true /\ req (grad x (gen_ret_ternary_plain s q f)) (grad x s) = true /\
  req (grad x (gen_ret_bernoulli_plain s q f)) (grad x s) = true.
Proof. intros; repeat split; [apply link_ret_binary | apply link_ret_ternary | apply link_ret_bernoulli]. Qed.
Print Assumptions C06_code_binary_ternary_bernoulli_return.
Theorem C06_code_through_helpers_return : forall x s q f,
  req (grad x (gen_ret_sign_through_plain s q f)) (grad x s) = true /\ req (grad x (gen_ret_ceil_through_plain s q f)) (grad x s) = true /\
  req (grad x (gen_ret_floor_through_plain s q f)) (grad x s) = true.
Proof. intros; repeat split; [apply link_ret_sign_through | apply link_ret_ceil_through | apply link_ret_floor_through]. Qed.
Print Assumptions C06_code_through_helpers_return.

(* ---- quantized_relu.__call__ regenerated from the source (coq/gen/ReluCallGen.v): the unquantized surrogate x_u, whose
        gradient is the one the straight-through return passes on.  With is_quantized_clip it is the (leaky) ReLU below
        2^integer - 2^(integer - non-sign bits) -- the largest code of the format, one non-sign bit less when a slope takes the
        sign bit -- and that constant above it, so the gradient is zero exactly in the clipped region. ---- *)
From QV Require Import Quant.Fixed Quant.ReluSrc Link.ReluCallLink.
From QVGen Require ReluCallGen.
Theorem C06_source_relu_translated : ReluCallGen.relucall_translation_ok = true.
Proof. exact link_relucall_ok. Qed.
Print Assumptions C06_source_relu_translated.
Theorem C06_source_relu_surrogate_bound_is_the_largest_code : forall c,
  ReluCallGen.gen_qr_top (qr_bits c) (qr_int c) (leaky_of c) = rsub (rpow2 (qr_int c)) (rpow2 (qr_se c)).
Proof. exact link_qr_top. Qed.
Print Assumptions C06_source_relu_surrogate_bound_is_the_largest_code.
Theorem C06_source_relu_surrogate_is_the_bounded_leaky_relu : forall c has_rub slope rub x,
  ReluCallGen.gen_qr_xu (qr_bits c) (qr_int c) (leaky_of c) true has_rub slope rub x =
  let top := rsub (rpow2 (qr_int c)) (rpow2 (qr_se c)) in if rle x top then lrelu slope x else top.
Proof. exact link_qr_xu_clipped. Qed.
Print Assumptions C06_source_relu_surrogate_is_the_bounded_leaky_relu.
Theorem C06_source_relu_surrogate_without_quantized_clip : forall c slope rub x,
  ReluCallGen.gen_qr_xu (qr_bits c) (qr_int c) (leaky_of c) false true slope rub x = (if rle x rub then lrelu slope x else rub) /\
  ReluCallGen.gen_qr_xu (qr_bits c) (qr_int c) (leaky_of c) false false slope rub x = lrelu slope x.
Proof. exact link_qr_xu_unclipped. Qed.
Print Assumptions C06_source_relu_surrogate_without_quantized_clip.

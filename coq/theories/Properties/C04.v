(* Property C04 -- binary / ternary quantizers emit only {-s,+s}, {0,s} or {-s,0,+s},
   sign-correct, with a least-squares scale.  Statements only; proofs in Quant/BinTern.v. *)
From Coq Require Import ZArith List Bool QArith.
From QV Require Import Base.ZQ Base.FL Quant.Po2 Quant.BinTern.
Open Scope Z_scope. Import ListNotations.

Theorem C04_binary_codes : forall (use01 : bool) x,
  if use01 then bcode use01 x = 0 \/ bcode use01 x = 1 else bcode use01 x = -1 \/ bcode use01 x = 1.
Proof. exact bcode_values. Qed.
Print Assumptions C04_binary_codes.
Theorem C04_binary_sign_follows_input_zero_positive : forall x,
  (rnum x < 0 -> bcode false x = -1) /\ (0 <= rnum x -> bcode false x = 1).
Proof. exact bcode_sign_correct. Qed.
Print Assumptions C04_binary_sign_follows_input_zero_positive.
Theorem C04_binary01_sign : forall x, (rnum x < 0 -> bcode true x = 0) /\ (0 <= rnum x -> bcode true x = 1).
Proof. exact bcode01_sign_correct. Qed.
Print Assumptions C04_binary01_sign.
Theorem C04_ternary_codes : forall thr x, tcode thr x = -1 \/ tcode thr x = 0 \/ tcode thr x = 1.
Proof. exact tcode_values. Qed.
Print Assumptions C04_ternary_codes.
Theorem C04_ternary_zero_exactly_below_threshold : forall thr x, 0 < rnum thr -> 0 < rden thr -> 0 < rden x ->
  (tcode thr x = 0 <-> rle thr (rabs x) = false).
Proof. exact tcode_zero_iff_below_threshold. Qed.
Print Assumptions C04_ternary_zero_exactly_below_threshold.
Theorem C04_ternary_sign : forall thr x, tcode thr x <> 0 -> tcode thr x = sgn3 x.
Proof. exact tcode_sign. Qed.
Print Assumptions C04_ternary_sign.

(* the least-squares scale of a group minimises the squared error over ALL scales, for every group *)
Open Scope Q_scope.
Theorem C04_least_squares_scale_is_optimal : forall (g : list (Q * Q)) (s s' : Q),
  s * sqq g == sxq g -> sse s g <= sse s' g.
Proof. exact ls_scale_is_optimal. Qed.
Print Assumptions C04_least_squares_scale_is_optimal.
Theorem C04_binary_scale_nonnegative : forall xs : list Q, 0 <= sxq (map (fun x => (x, qsign x)) xs).
Proof. exact sxq_sign_nonneg. Qed.
Print Assumptions C04_binary_scale_nonnegative.
Close Scope Q_scope.

(* soundness of the checkers evaluated on the implementation's outputs *)
Theorem C04_element_checker_sound : forall xa y s q, chk_elem xa y s q = 0 -> req y (ste_out xa s q) = true.
Proof. exact chk_elem_sound. Qed.
Print Assumptions C04_element_checker_sound.
Theorem C04_group_checker_sound : forall xs qs s, chk_group_auto xs qs s = 0 ->
  0 <= rnum s /\ close_rel 17 s (ls_scale xs qs) = true.
Proof. exact chk_group_auto_sound. Qed.
Print Assumptions C04_group_checker_sound.

Example C04_nonvacuous :
  bcode false (0, 1) = 1 /\ bcode false (-1, 3) = -1 /\ bcode true (-1, 3) = 0 /\
  tcode (1, 3) (1, 4) = 0 /\ tcode (1, 3) (-1, 2) = -1 /\
  req (ls_scale [(1, 1); (-3, 1)] [1; -1]) (20000000, 10000001) = true.
Proof. vm_compute. repeat split. Qed.

(* ---- the source itself (coq/gen/BinTernGen.v, regenerated from qkeras/quantizers.py on every run) ---- *)
From QV Require Import Quant.BinTernSrc Link.BinTernLink.
From QVGen Require BinTernGen.
Theorem C04_source_translated : BinTernGen.bt_translation_ok = true.
Proof. exact link_bt_ok. Qed.
Print Assumptions C04_source_translated.
(* the arithmetic binary.__call__ performs on sign(x) yields exactly the model's code, for every input *)
Theorem C04_source_binary_code : forall u x, req (BinTernGen.gen_bcode u x) (rofZ (bcode u x)) = true.
Proof. exact gen_bcode_is_bcode. Qed.
Print Assumptions C04_source_binary_code.
Theorem C04_source_ternary_code : forall thr x, req (BinTernGen.gen_tcode thr x) (rofZ (tcode thr x)) = true.
Proof. exact gen_tcode_is_tcode. Qed.
Print Assumptions C04_source_ternary_code.
(* data-dependent ternary scale: each refinement step codes x as zero exactly when |x| <= scale/2 (the tie included, because
   round-half-even sends 1/2 to 0) and with the sign of x otherwise, for every positive scale and every x *)
Theorem C04_source_ternary_auto_step : forall scale x, 0 < rnum scale -> 0 < rden scale -> 0 < rden x ->
  req (BinTernGen.gen_tstep scale x) (rofZ (tstep scale x)) = true.
Proof. exact gen_tstep_is_tstep. Qed.
Print Assumptions C04_source_ternary_auto_step.
Theorem C04_ternary_auto_step_zero_exactly_up_to_half_the_scale : forall scale x, 0 < rnum scale -> 0 < rden scale -> 0 < rden x ->
  (tstep scale x = 0 <-> rle (rabs x) (rdiv scale (2, 1)) = true).
Proof. exact tstep_zero_iff. Qed.
Print Assumptions C04_ternary_auto_step_zero_exactly_up_to_half_the_scale.
Theorem C04_ternary_auto_step_codes : forall scale x,
  (tstep scale x = -1 \/ tstep scale x = 0 \/ tstep scale x = 1) /\ (tstep scale x <> 0 -> tstep scale x = sgn3 x).
Proof. intros scale x. split; [apply tstep_values | apply tstep_sign]. Qed.
Print Assumptions C04_ternary_auto_step_codes.
(* which tensor the straight-through sum is built around, which scale multiplies the code, where the threshold comes from and
   which formula the least-squares helper uses -- per kind of alpha, as the source says now *)
Theorem C04_source_scale_and_surrogate_tables :
  (forall a, BinTernGen.gen_binary_surrogate a = binary_surrogate a) /\ (forall a, BinTernGen.gen_binary_scale a = binary_scale a) /\
  (forall a, BinTernGen.gen_ternary_surrogate a = ternary_surrogate a) /\ (forall a, BinTernGen.gen_ternary_scale a = ternary_scale a) /\
  (forall h, BinTernGen.gen_ternary_thr h = ternary_thr h) /\ (forall a hb, BinTernGen.gen_ls_form a hb = ls_form a hb).
Proof. exact link_bt_tables. Qed.
Print Assumptions C04_source_scale_and_surrogate_tables.
Theorem C04_source_ternary_initial_scale : forall m, BinTernGen.gen_tinit_scale m = tinit_scale m.
Proof. exact link_tinit. Qed.
Print Assumptions C04_source_ternary_initial_scale.

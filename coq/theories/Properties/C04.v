(* Property C04 -- binary / ternary quantizers emit only {-s,+s}, {0,s} or {-s,0,+s},
   sign-correct, with a least-squares scale.  Statements only; proofs in Quant/BinTern.v. *)
From Coq Require Import ZArith List Bool QArith.
From QV Require Import Base.ZQ Base.FL Quant.Po2 Quant.BinTern.
Open Scope Z_scope. Import ListNotations.

Theorem C04_binary_codes : forall (use01 : bool) x,
  if use01 then bcode use01 x = 0 \/ bcode use01 x = 1 else bcode use01 x = -1 \/ bcode use01 x = 1.
Proof. exact bcode_values. Qed.
Print Assumptions C04_binary_codes.
Theorem C04_binary_sign_follows_input_zero_positive : forall x,
  (rnum x < 0 -> bcode false x = -1) /\ (0 <= rnum x -> bcode false x = 1).
Proof. exact bcode_sign_correct. Qed.
Print Assumptions C04_binary_sign_follows_input_zero_positive.
Theorem C04_binary01_sign : forall x, (rnum x < 0 -> bcode true x = 0) /\ (0 <= rnum x -> bcode true x = 1).
Proof. exact bcode01_sign_correct. Qed.
Print Assumptions C04_binary01_sign.
Theorem C04_ternary_codes : forall thr x, tcode thr x = -1 \/ tcode thr x = 0 \/ tcode thr x = 1.
Proof. exact tcode_values. Qed.
Print Assumptions C04_ternary_codes.
Theorem C04_ternary_zero_exactly_below_threshold : forall thr x, 0 < rnum thr -> 0 < rden thr -> 0 < rden x ->
  (tcode thr x = 0 <-> rle thr (rabs x) = false).
Proof. exact tcode_zero_iff_below_threshold. Qed.
Print Assumptions C04_ternary_zero_exactly_below_threshold.
Theorem C04_ternary_sign : forall thr x, tcode thr x <> 0 -> tcode thr x = sgn3 x.
Proof. exact tcode_sign. Qed.
Print Assumptions C04_ternary_sign.

(* the least-squares scale of a group minimises the squared error over ALL scales, for every group *)
Open Scope Q_scope.
Theorem C04_least_squares_scale_is_optimal : forall (g : list (Q * Q)) (s s' : Q),
  s * sqq g == sxq g -> sse s g <= sse s' g.
Proof. exact ls_scale_is_optimal. Qed.
Print Assumptions C04_least_squares_scale_is_optimal.
Theorem C04_binary_scale_nonnegative : forall xs : list Q, 0 <= sxq (map (fun x => (x, qsign x)) xs).
Proof. exact sxq_sign_nonneg. Qed.
Print Assumptions C04_binary_scale_nonnegative.
Close Scope Q_scope.

(* soundness of the checkers evaluated on the implementation's outputs *)
Theorem C04_element_checker_sound : forall xa y s q, chk_elem xa y s q = 0 -> req y (ste_out xa s q) = true.
Proof. exact chk_elem_sound. Qed.
Print Assumptions C04_element_checker_sound.
Theorem C04_group_checker_sound : forall xs qs s, chk_group_auto xs qs s = 0 ->
  0 <= rnum s /\ close_rel 17 s (ls_scale xs qs) = true.
Proof. exact chk_group_auto_sound. Qed.
Print Assumptions C04_group_checker_sound.

Example C04_nonvacuous :
  bcode false (0, 1) = 1 /\ bcode false (-1, 3) = -1 /\ bcode true (-1, 3) = 0 /\
  tcode (1, 3) (1, 4) = 0 /\ tcode (1, 3) (-1, 2) = -1 /\
  req (ls_scale [(1, 1); (-3, 1)] [1; -1]) (20000000, 10000001) = true.
Proof. vm_compute. repeat split. Qed.

(* Property C15 -- batch-norm folding and unfolding preserve the network function at
   inference.  Statements only; proofs in BN/Fold.v.  Every statistic (gamma = 0, tiny
   variance ...), kernel, bias and input position is inside the forall; convolution is
   only assumed homogeneous in the kernel. *)
From Coq Require Import QArith.
From QV Require Import BN.Fold Link.FoldLink.
From QVGen Require Import FoldGen.
Open Scope Q_scope.

Theorem C15_folded_layer_is_conv_then_batchnorm :
  forall (K : Type) (scale : Q -> K -> K) (conv : K -> Q),
  (forall a k, conv (scale a k) == a * conv k) ->
  forall gamma beta mu r b k,
  folded_layer K scale conv gamma beta mu r b k == conv_then_bn K conv gamma beta mu r b k.
Proof. exact fold_equiv_no_quantizers. Qed.
Print Assumptions C15_folded_layer_is_conv_then_batchnorm.

Theorem C15_folded_layer_with_quantizers :
  forall (K : Type) (scale : Q -> K -> K) (conv : K -> Q) gamma beta mu r b k (qk : K -> K) (qb : Q -> Q),
  folded_layer_q K scale conv gamma beta mu r b k qk qb ==
  conv (qk (scale (r * gamma) k)) + qb (r * gamma * (b - mu) + beta).
Proof. exact fold_with_quantizers_spec. Qed.
Print Assumptions C15_folded_layer_with_quantizers.

Theorem C15_unfolding_preserves_the_function :
  forall (K : Type) (scale : Q -> K -> K) (conv : K -> Q) gamma beta mu r b k (qk : K -> K) (qb : Q -> Q),
  conv (qk (folded_kernel K scale gamma r k)) + qb (folded_bias gamma beta mu r b) ==
  folded_layer_q K scale conv gamma beta mu r b k qk qb.
Proof. exact unfold_preserves. Qed.
Print Assumptions C15_unfolding_preserves_the_function.

Theorem C15_folding_factor : forall gamma r s : Q, r * s == 1 -> inv gamma r * s == gamma.
Proof. exact inv_is_gamma_over_sqrt. Qed.
Print Assumptions C15_folding_factor.

(* non-vacuity: scalar kernels with conv k = 3 * k satisfy the homogeneity hypothesis *)
Example C15_nonvacuous :
  folded_layer Q Qmult (fun k => 3 * k) 2 (1#2) (1#3) (1#4) 5 7 == conv_then_bn Q (fun k => 3 * k) 2 (1#2) (1#3) (1#4) 5 7.
Proof. apply fold_equiv_no_quantizers. intros a k. ring. Qed.

(* ---- get_folded_weights as /repo has it now (coq/gen/FoldGen.v, regenerated on every run) ---- *)
Theorem C15_fold_translation_ok :
  fold_translation_ok = true /\ gen_c2d_kernel_is_inv_times_kernel = true /\ gen_dw_kernel_is_inv_times_kernel = true.
Proof. exact link_fold_ok. Qed.
(* for every combination of use_bias / center / scale and every statistic, a convolution with the code's folded kernel plus the code's
   folded bias IS the convolution followed by batch normalisation (absent parameters at their neutral values) *)
Theorem C15_code_conv2d_folded_weights_are_conv_then_batchnorm :
  forall (K : Type) (scale : Q -> K -> K) (conv : K -> Q), (forall a k, conv (scale a k) == a * conv k) ->
  forall ub hb hg gamma beta mu r b k,
  conv (scale (gen_c2d_inv hg gamma r) k) + gen_c2d_bias ub hb hg gamma beta mu r b ==
  conv_then_bn K conv (eff_gamma hg gamma) (eff_beta hb beta) mu r (eff_bias ub b) k.
Proof. intros K scale conv H ub hb hg gamma beta mu r b k.
  rewrite H, link_c2d_inv, link_c2d_bias.
  rewrite <- (fold_equiv_no_quantizers K scale conv H). unfold folded_layer, folded_kernel. rewrite H. reflexivity. Qed.
Print Assumptions C15_code_conv2d_folded_weights_are_conv_then_batchnorm.
Theorem C15_code_depthwise_folded_weights_are_conv_then_batchnorm :
  forall (K : Type) (scale : Q -> K -> K) (conv : K -> Q), (forall a k, conv (scale a k) == a * conv k) ->
  forall ub hb hg gamma beta mu r b k,
  conv (scale (gen_dw_inv hg gamma r) k) + gen_dw_bias ub hb hg gamma beta mu r b ==
  conv_then_bn K conv (eff_gamma hg gamma) (eff_beta hb beta) mu r (eff_bias ub b) k.
Proof. intros K scale conv H ub hb hg gamma beta mu r b k.
  rewrite H, link_dw_inv, link_dw_bias.
  rewrite <- (fold_equiv_no_quantizers K scale conv H). unfold folded_layer, folded_kernel. rewrite H. reflexivity. Qed.
Print Assumptions C15_code_depthwise_folded_weights_are_conv_then_batchnorm.
(* a layer without a convolution bias and without a batch-norm offset still has a folded bias: - mean * gamma * rsqrt(var + eps) *)
Theorem C15_code_folded_bias_without_bias_and_offset : forall hg gamma beta mu r b,
  gen_c2d_bias false false hg gamma beta mu r b == - (mu * inv (eff_gamma hg gamma) r).
Proof. intros [] gamma beta mu r b; unfold gen_c2d_bias, inv, eff_gamma; ring. Qed.
Print Assumptions C15_code_folded_bias_without_bias_and_offset.

(* Property C02 -- fixed-point quantization is the nearest-code projection:
   half-step error inside the range, saturation outside, monotone, idempotent. *)
From Coq Require Import ZArith List Bool.
From QV Require Import Base.ZQ Base.FL Quant.Fixed Quant.FixedThm.
Open Scope Z_scope.

(* rounding used by every fixed-point quantizer: within half a unit, ties allowed,
   and no integer is closer *)
Theorem C02_round_half_unit : forall a b, 0 < b -> 2 * Z.abs (rhe a b * b - a) <= b.
Proof. exact rhe_half. Qed.
Print Assumptions C02_round_half_unit.

Theorem C02_round_is_nearest : forall a b z, 0 < b -> Z.abs (rhe a b * b - a) <= Z.abs (z * b - a).
Proof. exact rhe_nearest_any. Qed.
Print Assumptions C02_round_is_nearest.

Theorem C02_qbits_nearest_inside_range : forall c a b, 0 < b -> 0 < qb_ub c ->
  let k := qb_ub c - qb_int c in
  let n := sc_num a k in let d := sc_den b k in
  qb_lo c * d <= n <= qb_hi c * d ->
  2 * Z.abs (qb_code c a b * d - n) <= d.
Proof. exact qb_nearest. Qed.
Print Assumptions C02_qbits_nearest_inside_range.

Theorem C02_qbits_saturates_outside_range : forall c a b, 0 < b -> 0 < qb_ub c ->
  let k := qb_ub c - qb_int c in
  let n := sc_num a k in let d := sc_den b k in
  (n <= qb_lo c * d -> qb_code c a b = qb_lo c) /\
  (qb_hi c * d <= n -> qb_code c a b = qb_hi c).
Proof. exact qb_saturates. Qed.
Print Assumptions C02_qbits_saturates_outside_range.

Theorem C02_qbits_monotone : forall c a b a' b', 0 < b -> 0 < b' -> a * b' <= a' * b ->
  qb_code c a b <= qb_code c a' b'.
Proof. exact qb_code_mono. Qed.
Print Assumptions C02_qbits_monotone.

Theorem C02_qbits_idempotent : forall c x, 0 < qb_ub c -> 0 < rden x ->
  let y := qb_val c (1, 1) x in qb_val c (1, 1) y = y.
Proof. exact qb_idempotent. Qed.
Print Assumptions C02_qbits_idempotent.

(* legacy quantized_bits with a constant alpha other than 1 is not idempotent
   (alpha multiplies on the way out only) -- witness replayed by the check *)
Theorem C02_qbits_idempotent_alpha_refuted :
  exists c alpha x, let y := qb_val c alpha x in req (qb_val c alpha y) y = false.
Proof. exact qb_idem_alpha_refuted. Qed.
Print Assumptions C02_qbits_idempotent_alpha_refuted.

Theorem C02_qrelu_monotone : forall c a b a' b', 0 < b -> 0 < b' -> a * b' <= a' * b ->
  qr_code c a b <= qr_code c a' b'.
Proof. exact qr_code_mono. Qed.
Print Assumptions C02_qrelu_monotone.

Theorem C02_qrelu_nearest_inside_range : forall c a b, 0 < b -> 0 <= qr_nsb c -> qr_slope c = None ->
  let k := qr_nsb c - qr_int c in
  let n := sc_num a k in let d := sc_den b k in
  0 <= n <= qr_hi c * d ->
  2 * Z.abs (qr_code c a b * d - n) <= d.
Proof. exact qr_nearest. Qed.
Print Assumptions C02_qrelu_nearest_inside_range.

Theorem C02_qrelu_saturates : forall c a b, 0 < b -> 0 <= qr_nsb c -> qr_slope c = None ->
  let k := qr_nsb c - qr_int c in
  let n := sc_num a k in let d := sc_den b k in
  (n <= 0 -> qr_code c a b = 0) /\ (qr_hi c * d <= n -> qr_code c a b = qr_hi c).
Proof. exact qr_saturates. Qed.
Print Assumptions C02_qrelu_saturates.

Theorem C02_qrelu_idempotent : forall c x, 0 <= qr_nsb c -> qr_slope c = None -> qr_rub c = None ->
  0 < rden x -> let y := qr_val c x in qr_val c y = y.
Proof. exact qr_idempotent. Qed.
Print Assumptions C02_qrelu_idempotent.

(* quantized_linear clips before rounding; this is the same function as
   rounding then clipping, hence nearest / saturating / monotone as above *)
Theorem C02_qlinear_clip_then_round_is_round_then_clip : forall lo hi p, lo <= hi -> 0 < rden p ->
  rround (rclip (rofZ lo) (rofZ hi) p) = clip lo hi (rround p).
Proof. exact ql_clip_round_commute. Qed.
Print Assumptions C02_qlinear_clip_then_round_is_round_then_clip.

Example C02_nonvacuous :
  let c := QB 4 1 true false in
  qb_code c 3 8 = 2 (* 0.375/0.25 = 1.5 -> tie to even 2 *) /\
  qb_code c 5 8 = 2 (* 2.5 -> 2 *) /\ qb_code c 7 8 = 4 (* 3.5 -> 4 *).
Proof. vm_compute. repeat split. Qed.

(* ---- quantized_linear with ANY constant positive scale (Quant/LinearThm.v; the multi-bit formats) ---- *)
From QV Require Import Quant.LinearThm.
Theorem C02_qlinear_idempotent_any_positive_scale : forall c alpha x,
  ql_sign c = false -> 0 <= ql_ub c -> 0 < rnum alpha -> 0 < rden alpha -> 0 < rden x ->
  ql_val c alpha (ql_val c alpha x) = ql_val c alpha x.
Proof. exact ql_idempotent. Qed.
Print Assumptions C02_qlinear_idempotent_any_positive_scale.
Theorem C02_qlinear_code_of_a_quantized_value_is_its_code : forall c alpha k,
  0 < rnum alpha -> 0 < rden alpha -> ql_lo c <= k <= ql_hi c ->
  ql_code c alpha (rmul (rofZ k) (rscale alpha (ql_se c))) = k.
Proof. exact ql_code_of_value. Qed.
Print Assumptions C02_qlinear_code_of_a_quantized_value_is_its_code.
Theorem C02_qlinear_monotone : forall c alpha x y,
  0 < rnum alpha -> 0 < rden alpha -> 0 < rden x -> 0 < rden y -> 0 <= ql_ub c ->
  rle x y = true -> ql_code c alpha x <= ql_code c alpha y.
Proof. exact ql_code_monotone. Qed.
Print Assumptions C02_qlinear_monotone.
Theorem C02_qlinear_nearest_inside_range : forall c alpha x, 0 < rnum alpha -> 0 < rden alpha -> 0 < rden x ->
  let p := rdiv x (rscale alpha (ql_se c)) in
  rle (rofZ (ql_lo c)) p = true -> rle p (rofZ (ql_hi c)) = true ->
  2 * Z.abs (ql_code c alpha x * rden p - rnum p) <= rden p.
Proof. exact ql_code_nearest_inside. Qed.
Print Assumptions C02_qlinear_nearest_inside_range.

(* ---- the source itself: the deterministic core of quantized_linear, regenerated from qkeras/quantizers.py on every run
        (coq/gen/LinGen.v).  What get_clip_bounds / _scale_clip_and_round / __call__ compute IS the model the theorems above
        are about, for every multi-bit configuration, every positive constant scale and every input. ---- *)
From QV Require Import Link.LinLink.
From QVGen Require LinGen.
Theorem C02_source_linear_translated : LinGen.lin_translation_ok = true.
Proof. exact link_lin_ok. Qed.
Print Assumptions C02_source_linear_translated.
Theorem C02_source_linear_scaled_clipped_rounded_is_the_code : forall c qs x,
  ql_sign c = false -> 0 <= ql_ub c -> 0 < rnum qs -> 0 < rden qs -> 0 < rden x ->
  req (LinGen.gen_ql_scaled (ql_bits c) (ql_kn c) (ql_sym c) qs x)
      (rofZ (rround (rclip (rofZ (ql_lo c)) (rofZ (ql_hi c)) (rdiv x qs)))) = true.
Proof. exact link_ql_scaled. Qed.
Print Assumptions C02_source_linear_scaled_clipped_rounded_is_the_code.
Theorem C02_source_linear_value_is_the_model : forall c alpha x,
  ql_sign c = false -> 0 <= ql_ub c -> 0 < rnum alpha -> 0 < rden alpha -> 0 < rden x ->
  req (LinGen.gen_ql_xq (ql_bits c) (ql_kn c) (ql_sym c) (rscale alpha (ql_se c)) x) (ql_val c alpha x) = true.
Proof. exact link_ql_xq. Qed.
Print Assumptions C02_source_linear_value_is_the_model.
Theorem C02_source_linear_quantization_scale : forall c alpha,
  LinGen.gen_ql_dts (ql_bits c) (ql_int c) (ql_kn c) = rpow2 (ql_se c) /\
  LinGen.gen_ql_qscale true alpha (rpow2 (ql_se c)) = rmul alpha (rpow2 (ql_se c)) /\
  LinGen.gen_ql_qscale false alpha (rpow2 (ql_se c)) = rpow2 (ql_se c) /\
  req (rmul alpha (rpow2 (ql_se c))) (rscale alpha (ql_se c)) = true.
Proof. intros c alpha. repeat split; [apply link_ql_dts | apply rmul_rpow2]. Qed.
Print Assumptions C02_source_linear_quantization_scale.

(* ---- the legacy quantized_bits.__call__ (data-independent path), regenerated from the source on every run
        (coq/gen/QBitsGen.v): what it computes IS qb_val, for every configuration, scale and input. ---- *)
From QV Require Import Link.QBitsLink.
From QVGen Require QBitsGen.
Theorem C02_source_qbits_translated : QBitsGen.qbits_translation_ok = true.
Proof. exact link_qbits_ok. Qed.
Print Assumptions C02_source_qbits_translated.
Theorem C02_source_qbits_value_is_the_model : forall c alpha x, 0 < rden x -> 0 <= qb_ub c ->
  req (QBitsGen.gen_qb_xq (qb_bits c) (qb_int c) (qb_kn c) (qb_sym c) alpha x) (qb_val c alpha x) = true.
Proof. exact link_qb_xq. Qed.
Print Assumptions C02_source_qbits_value_is_the_model.

(* Property C20 -- AutoQKeras trials respect the search limits and score smaller models higher.
   Statements only; proofs in AutoQ/Search.v, AutoQ/Forgiving.v, AutoQ/Size.v.  The reference
   model (any layer list), the limit dictionary, the quantization configuration, the regex
   match table and the tuner's choice function (= every hyper-parameter assignment) are
   universally quantified. *)
From Coq Require Import String List ZArith Reals QArith Qreals.
From QV Require Import AutoQ.Limits AutoQ.Search AutoQ.Forgiving AutoQ.Size Link.LimitLink.
From QVGen Require Import LimitGen.
From QVGen Require SizeGen RoleGen.
From QV Require Link.SizeLink Link.RoleLink.
Import ListNotations.
Open Scope string_scope.

(* one call of _get_quantizer: the quantizer handed out comes from the configuration of a role that
   uses the slot and obeys the limit slot of the pattern / class the layer resolves to *)
Theorem C20_quantizer_within_limit :
  forall lims cfg rematch (ch : chooser) g head ln cn il q b g',
  groups_ok lims cfg g -> get_quantizer lims cfg rematch ch g head ln cn il = (RSome q b, g') ->
  slot_ok lims cfg (resolved lims rematch ln cn) (field_index (role_field il ln head)) q b /\ groups_ok lims cfg g'.
Proof. exact get_quantizer_within_limit. Qed.
Print Assumptions C20_quantizer_within_limit.

(* every pick made while building ANY trial model obeys its limit *)
Theorem C20_every_pick_of_a_trial_within_limits :
  forall lims cfg rematch (ch : chooser) (ls : list layer) idx n c q b,
  In (n, c, RSome q b) (t_log (select lims cfg rematch ch ls idx)) ->
  exists i, slot_ok lims cfg (resolved lims rematch n c) i q b.
Proof. intros lims cfg rematch ch ls idx. exact (select_picks_within_limits lims cfg rematch ch ls idx). Qed.
Print Assumptions C20_every_pick_of_a_trial_within_limits.

(* per-role form for class-keyed limits: own configuration field, own slot *)
Theorem C20_class_limit_per_role :
  forall lims cfg rematch (ch : chooser) g head ln cn il q b g',
  first_match rematch lims ln = None ->
  get_quantizer lims cfg rematch ch g head ln cn il = (RSome q b, g') ->
  exists slots lm, assoc cn lims = Some slots /\ slot slots (field_index (role_field il ln head)) = Some lm /\
    from_field cfg (role_field il ln head) q b /\ obeys lm q b /\ g' = g.
Proof. exact get_quantizer_class_limit_per_role. Qed.
Print Assumptions C20_class_limit_per_role.

(* the tensor role is read from the suffix appended by quantize_model, whatever the layer is called *)
Theorem C20_role_independent_of_layer_name : forall n : string,
  role_field false n (n ++ "_kernel") = FKernel /\
  role_field false n (n ++ "_bias") = FBias /\
  role_field false n (n ++ "_activation") = FAct /\
  role_field false n (n ++ "_recurrent_activation") = FRecAct /\
  role_field true n (n ++ "_activation") = FLinear /\
  role_field false n (n ++ "_pointwise_kernel") = FKernel /\
  role_field false n (n ++ "_recurrent_kernel") = FKernel.
Proof. exact role_independent_of_layer_name. Qed.
Print Assumptions C20_role_independent_of_layer_name.

(* layers outside the limits stay unquantized *)
Theorem C20_layer_outside_limits_gets_no_quantizer :
  forall lims cfg rematch (ch : chooser) g head ln cn il,
  first_match rematch lims ln = None -> assoc cn lims = None ->
  get_quantizer lims cfg rematch ch g head ln cn il = (RNone, g).
Proof. exact get_quantizer_outside_limits. Qed.
Print Assumptions C20_layer_outside_limits_gets_no_quantizer.

(* only layers at the selected indexes receive an entry *)
Theorem C20_layer_indexes_respected :
  forall lims cfg rematch (ch : chooser) ls ids n e,
  In (n, e) (t_out (select lims cfg rematch ch ls (Some ids))) ->
  exists i l, In (i, l) (enumerate 0 ls) /\ ly_name l = n /\ In i ids.
Proof. exact select_respects_layer_indexes. Qed.
Print Assumptions C20_layer_indexes_respected.

(* layers grouped by a pattern share one choice per slot *)
Theorem C20_group_choice_shared :
  forall lims cfg rematch (ch : chooser) g head ln cn il p q b,
  first_match rematch lims ln = Some p -> assoc p lims <> None ->
  glookup g p (field_index (role_field il ln head)) = Some (q, b) ->
  get_quantizer lims cfg rematch ch g head ln cn il = (RSome q b, g).
Proof. exact get_quantizer_group_shared. Qed.
Print Assumptions C20_group_choice_shared.
Theorem C20_group_choice_recorded :
  forall lims cfg rematch (ch : chooser) g head ln cn il p q b g',
  first_match rematch lims ln = Some p ->
  get_quantizer lims cfg rematch ch g head ln cn il = (RSome q b, g') ->
  glookup g' p (field_index (role_field il ln head)) = Some (q, b).
Proof. exact get_quantizer_group_recorded. Qed.
Print Assumptions C20_group_choice_recorded.

(* forgiving factor over the reals: zero at the reference size, sign, strictly decreasing *)
Open Scope R_scope.
Theorem C20_delta_zero_at_reference :
  forall dp dn rate ref : R, 1 < rate -> 0 < ref -> delta dp dn rate ref ref = 0.
Proof. intros. apply delta_zero_at_reference; assumption. Qed.
Print Assumptions C20_delta_zero_at_reference.
Theorem C20_delta_positive_for_smaller :
  forall dp dn rate ref t : R, 0 < dp -> 1 < rate -> 0 < ref -> 0 < t -> t < ref -> 0 < delta dp dn rate ref t.
Proof. intros. apply delta_positive_for_smaller; assumption. Qed.
Print Assumptions C20_delta_positive_for_smaller.
Theorem C20_delta_negative_for_larger :
  forall dp dn rate ref t : R, 0 < dn -> 1 < rate -> 0 < ref -> ref < t -> delta dp dn rate ref t < 0.
Proof. intros. apply delta_negative_for_larger; assumption. Qed.
Print Assumptions C20_delta_negative_for_larger.
Theorem C20_delta_strictly_decreasing :
  forall dp dn rate ref t1 t2 : R, 0 < dp -> 0 < dn -> 1 < rate -> 0 < ref -> 0 < t1 -> t1 < t2 ->
  delta dp dn rate ref t2 < delta dp dn rate ref t1.
Proof. intros. apply delta_strictly_decreasing; assumption. Qed.
Print Assumptions C20_delta_strictly_decreasing.
Close Scope R_scope.

(* size model: elements times bits; narrower quantizers never give a larger model *)
Open Scope Z_scope.
Theorem C20_size_counts_elements_times_bits :
  forall w ws out a p c, param_size w (SL SQuantized ws out a p c) = wsum (w_ref w) ws.
Proof. exact quantized_param_size_is_elements_times_bits. Qed.
Print Assumptions C20_size_counts_elements_times_bits.
Theorem C20_narrower_weights_smaller_size :
  forall w ws ws' out a p c, ws_le (w_ref w) ws ws' ->
  layer_total w (SL SQuantized ws out a p c) <= layer_total w (SL SQuantized ws' out a p c).
Proof. exact narrower_weights_smaller_layer. Qed.
Print Assumptions C20_narrower_weights_smaller_size.

(* non-vacuity: a two-layer reference, a numeric limit; the tuner picks the second allowed kernel quantizer *)
Example C20_nonvacuous :
  let lims := [("Dense", [LNum 4; LNum 4; LNum 4])] in
  let cfg := [("kernel", [("binary", 1); ("quantized_bits(4,0,1)", 4); ("quantized_bits(8,0,1)", 8)]);
              ("bias", [("quantized_bits(4,0,1)", 4)]); ("activation", [("quantized_relu(4,2)", 4)])]%Z in
  let ch := fun (_ : string) (l : list string) => nth 1 l (hd ""%string l) in
  render_select lims cfg (fun _ _ => false) ch [Ly "d0" "Dense" true AOther; Ly "fl" "Flatten" false ANone] None =
  ["d0={kernel_quantizer:quantized_bits(4,0,1);bias_quantizer:quantized_bits(4,0,1);activation_quantizer:quantized_relu(4,2)}"%string].
Proof. vm_compute. reflexivity. Qed.

(* ---- the per-class limit lists the search really uses: _adjust_limit pads short lists role by role ---- *)
Theorem C20_short_limit_padded_by_role : forall (A : Type) (dflt l : list A) k b a,
  (length dflt = 3 \/ length dflt = 4)%nat -> (length l < 3)%nat ->
  d_kernel dflt = Some k -> d_bias dflt = Some b -> d_act dflt = Some a ->
  pad_limit false dflt l = match l with [] => [k; b; a] | [x] => [x; b; a] | x :: y :: _ => [x; y; a] end.
Proof. intros A. exact (@pad_limit_roles A). Qed.
Print Assumptions C20_short_limit_padded_by_role.
Theorem C20_short_recurrent_limit_padded_by_role : forall (A : Type) (d0 d1 d2 d3 : A) l, (length l < 4)%nat ->
  pad_limit true [d0; d1; d2; d3] l =
    match l with [] => [d0; d1; d2; d3] | [x] => [x; d1; d2; d3] | [x; y] => [x; y; d2; d3] | x :: y :: z :: _ => [x; y; z; d3] end.
Proof. intros A. exact (@pad_limit_roles_seq A). Qed.
Print Assumptions C20_short_recurrent_limit_padded_by_role.
Theorem C20_complete_limit_untouched : forall (A : Type) (seq : bool) (dflt l : list A),
  ((if seq then 4 else 3) <= length l)%nat -> pad_limit seq dflt l = l.
Proof. intros A. exact (@pad_limit_complete A). Qed.
Print Assumptions C20_complete_limit_untouched.
Theorem C20_single_slice_padding_refuted : exists (dflt l : list nat), length dflt = 4%nat /\
  nth_error (pad_slice 3 dflt l) 2 <> d_act dflt /\ nth_error (pad_limit false dflt l) 2 = d_act dflt.
Proof. exact pad_slice_refuted. Qed.
Print Assumptions C20_single_slice_padding_refuted.

(* ---- tie to the source (T): _adjust_limit and the class lists regenerated from autoqkeras_internal.py on this run ---- *)
Theorem C20_source_translated : translation_ok = true.
Proof. exact link_limit_ok. Qed.
Theorem C20_source_adjust_limit_is_pad_limit : forall (A : Type) (seq : bool) (dflt l : list A),
  gen_pad_limit seq dflt l = pad_limit seq dflt l.
Proof. exact link_pad_limit. Qed.
Print Assumptions C20_source_adjust_limit_is_pad_limit.
(* the code as it is now pads a short list of a non-recurrent class role by role *)
Theorem C20_source_short_limit_padded_by_role : forall (A : Type) (dflt l : list A) k b a,
  (length dflt = 3 \/ length dflt = 4)%nat -> (length l < 3)%nat ->
  d_kernel dflt = Some k -> d_bias dflt = Some b -> d_act dflt = Some a ->
  gen_pad_limit false dflt l = match l with [] => [k; b; a] | [x] => [x; b; a] | x :: y :: _ => [x; y; a] end.
Proof. intros. rewrite link_pad_limit. apply pad_limit_roles; assumption. Qed.
Print Assumptions C20_source_short_limit_padded_by_role.
Theorem C20_source_class_lists : gen_registered = registered /\ gen_sequence = sequence_layers.
Proof. split; [exact link_registered | exact link_sequence]. Qed.

(* ---- ForgivingFactorBits._act_size as /repo has it now (coq/gen/SizeGen.v, regenerated on every run) ---- *)
Theorem C20_size_translation_ok : SizeGen.size_translation_ok = true.
Proof. exact SizeLink.link_size_ok. Qed.
(* for every layer kind and every kind of activation object: whenever the code returns a size, it is elements x bits of the quantizer
   applied -- the reference width where none is applied *)
Theorem C20_code_activation_size_is_the_model : forall k a w out r,
  SizeGen.gen_act_size k a (w_in w) (w_out w) (w_ref w) out = Some r -> r = act_size_of k a w out.
Proof. exact SizeLink.link_act_size. Qed.
Print Assumptions C20_code_activation_size_is_the_model.
Theorem C20_code_quantizer_objects_are_sized : forall b w out,
  SizeGen.gen_act_size KQuantized (DQuantObj b) (w_in w) (w_out w) (w_ref w) out = Some (bits_or (w_ref w) b * out)%Z /\
  SizeGen.gen_act_size KActivation (DQuantObj b) (w_in w) (w_out w) (w_ref w) out = Some (bits_or (w_ref w) b * out)%Z /\
  SizeGen.gen_act_size KActivation (DQuantStr b) (w_in w) (w_out w) (w_ref w) out = Some (bits_or (w_ref w) b * out)%Z.
Proof. exact SizeLink.link_quantizer_objects_are_sized. Qed.
Print Assumptions C20_code_quantizer_objects_are_sized.
Theorem C20_code_fused_plain_activation_reference_width : forall w out,
  SizeGen.gen_act_size KQuantized (DFunc NSigmoid) (w_in w) (w_out w) (w_ref w) out = Some (w_ref w * out)%Z /\
  SizeGen.gen_act_size KQuantized (DFunc NOther) (w_in w) (w_out w) (w_ref w) out = Some (w_ref w * out)%Z /\
  SizeGen.gen_act_size KQuantized (DFunc NSoftmax) (w_in w) (w_out w) (w_ref w) out = Some (w_out w * out)%Z.
Proof. exact SizeLink.link_fused_plain_activation_reference_width. Qed.
Print Assumptions C20_code_fused_plain_activation_reference_width.

(* ---- the tensor-role dispatch of _get_quantizer as /repo has it now (coq/gen/RoleGen.v, regenerated on every run) ---- *)
Theorem C20_role_translation_ok : RoleGen.role_translation_ok = true.
Proof. exact RoleLink.link_role_ok. Qed.
Theorem C20_source_role_dispatch_is_the_model : forall il role,
  RoleGen.gen_field_of_role il role = (field_name (field_of_head il role), field_index (field_of_head il role)).
Proof. exact RoleLink.link_field_of_role. Qed.
Print Assumptions C20_source_role_dispatch_is_the_model.
(* consequences for the heads quantize_model builds (name ++ "_" ++ role), about the regenerated code: kernels use slot 0, biases slot 1,
   activations the last slot; pointwise and recurrent kernels resolve to the KERNEL field (the word "kernel" is tested first) *)
Theorem C20_code_role_slots : forall n,
  RoleGen.gen_field_of_role false (role_of n (n ++ "_kernel")) = ("kernel", 0%Z) /\
  RoleGen.gen_field_of_role false (role_of n (n ++ "_bias")) = ("bias", 1%Z) /\
  RoleGen.gen_field_of_role false (role_of n (n ++ "_activation")) = ("activation", (-1)%Z) /\
  RoleGen.gen_field_of_role true (role_of n (n ++ "_activation")) = ("linear", 0%Z) /\
  RoleGen.gen_field_of_role false (role_of n (n ++ "_pointwise_kernel")) = ("kernel", 0%Z) /\
  RoleGen.gen_field_of_role false (role_of n (n ++ "_recurrent_kernel")) = ("kernel", 0%Z).
Proof. intros n. rewrite !role_of_app. repeat split; reflexivity. Qed.
Print Assumptions C20_code_role_slots.

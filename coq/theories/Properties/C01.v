(* Property C01 -- fixed-point quantizers emit only representable codes of the
   declared format.  Statements only; proofs are in Quant/FixedThm.v. *)
From Coq Require Import ZArith List Bool.
From QV Require Import Base.ZQ Base.FL Quant.Fixed Quant.FixedThm Quant.FLExact.
Open Scope Z_scope.

(* quantized_bits: for every configuration and every rational input the integer
   code lies between the smallest and largest code of the format; the value is
   alpha * code * 2^(integer - unsigned bits) by definition of qb_val *)
Theorem C01_qbits_code_in_range : forall c a b, 0 <= qb_ub c -> qb_lo c <= qb_code c a b <= qb_hi c.
Proof. exact qb_code_range. Qed.
Print Assumptions C01_qbits_code_in_range.

Theorem C01_qbits_at_most_2pow_bits_codes : forall c, 0 < qb_ub c -> qb_hi c - qb_lo c + 1 <= 2 ^ qb_bits c.
Proof. exact qb_card. Qed.
Print Assumptions C01_qbits_at_most_2pow_bits_codes.

Theorem C01_qbits_one_bit_is_sign : forall c a b, qb_ub c = 0 -> qb_kn c = true ->
  qb_code c a b = (if a <? 0 then -1 else 1).
Proof. exact qb_onebit. Qed.
Print Assumptions C01_qbits_one_bit_is_sign.

Theorem C01_qbits_value_is_scale_times_code_times_step : forall c alpha x,
  qb_val c alpha x = rmul alpha (rscale (rofZ (qb_code c (rnum x) (rden x))) (qb_se c)).
Proof. exact qb_val_on_grid. Qed.
Print Assumptions C01_qbits_value_is_scale_times_code_times_step.

Theorem C01_qbits_min_max_enclose : forall c x, 0 <= qb_ub c -> 0 < rden x ->
  rle (qb_min c) (qb_val c (1, 1) x) = true /\ rle (qb_val c (1, 1) x) (qb_max c) = true.
Proof. exact qb_minmax_enclose. Qed.
Print Assumptions C01_qbits_min_max_enclose.

(* full statement fails for a constant alpha > 1 (max() ignores alpha): the witness is
   replayed on the implementation by the check (known finding C01-max-ignores-alpha) *)
Theorem C01_qbits_min_max_enclose_alpha_refuted :
  exists c alpha x, 0 <= qb_ub c /\ 0 < rden x /\ rle (qb_val c alpha x) (qb_max c) = false.
Proof. exact qb_minmax_alpha_refuted. Qed.
Print Assumptions C01_qbits_min_max_enclose_alpha_refuted.

Theorem C01_qbits_every_code_reachable : forall c k, 0 < qb_ub c -> qb_lo c <= k <= qb_hi c ->
  let x := rscale (rofZ k) (qb_se c) in qb_code c (rnum x) (rden x) = k.
Proof. exact qb_code_reachable. Qed.
Print Assumptions C01_qbits_every_code_reachable.

Theorem C01_qbits_range_enumerates_exactly : forall bits int k, 2 <= bits ->
  let c := QB bits int true false in
  In k (qb_range_codes bits) <-> (qb_lo c <= k <= qb_hi c).
Proof. exact qb_range_exact. Qed.
Print Assumptions C01_qbits_range_enumerates_exactly.

Theorem C01_qbits_range_length : forall bits, 0 <= bits -> Z.of_nat (length (qb_range_codes bits)) = 2 ^ bits.
Proof. exact qb_range_length. Qed.
Print Assumptions C01_qbits_range_length.

(* quantized_linear *)
Theorem C01_qlinear_code_in_range : forall c alpha x, 0 <= ql_ub c -> 0 < rden alpha -> 0 < rden x ->
  ql_lo c <= ql_code c alpha x <= ql_hi c.
Proof. exact ql_code_range. Qed.
Print Assumptions C01_qlinear_code_in_range.

Theorem C01_qlinear_at_most_2pow_bits_codes : forall c, 1 <= ql_bits c -> 0 <= ql_ub c ->
  ql_hi c - ql_lo c + 1 <= 2 ^ ql_bits c.
Proof. exact ql_card. Qed.
Print Assumptions C01_qlinear_at_most_2pow_bits_codes.

(* quantized_relu, plain and leaky (slope 2^-s with slope * 2^nsb >= 1) *)
Theorem C01_qrelu_code_in_range : forall c a b, 0 <= qr_nsb c ->
  (forall s, qr_slope c = Some s -> 0 <= s <= qr_nsb c) ->
  qr_lo c <= qr_code c a b <= qr_hi c.
Proof. exact qr_code_range. Qed.
Print Assumptions C01_qrelu_code_in_range.

Theorem C01_qrelu_at_most_2pow_bits_codes : forall c, 1 <= qr_bits c -> 0 <= qr_nsb c ->
  (forall s, qr_slope c = Some s -> 0 <= s <= qr_nsb c) ->
  qr_hi c - qr_lo c + 1 <= 2 ^ qr_bits c.
Proof. exact qr_card. Qed.
Print Assumptions C01_qrelu_at_most_2pow_bits_codes.

Theorem C01_qrelu_sign_structure : forall c a b, 0 < b -> 0 <= qr_nsb c ->
  (0 <= a -> 0 <= qr_code c a b) /\ (a <= 0 -> qr_code c a b <= 0).
Proof. exact qr_code_sign. Qed.
Print Assumptions C01_qrelu_sign_structure.

(* tanh / sigmoid variants: for ANY surrogate value p (hard, smooth or real) *)
Theorem C01_qtanh_code_in_range : forall bits sym p, 1 <= bits ->
  qt_lo bits sym <= qt_code bits sym p <= qt_hi bits.
Proof. exact qt_code_range. Qed.
Print Assumptions C01_qtanh_code_in_range.

Theorem C01_qtanh_at_most_2pow_bits_codes : forall bits sym, 1 <= bits ->
  qt_hi bits - qt_lo bits sym + 1 <= 2 ^ bits.
Proof. exact qt_card. Qed.
Print Assumptions C01_qtanh_at_most_2pow_bits_codes.

Theorem C01_qsigmoid_code_in_range : forall bits sym p, 1 <= bits ->
  qs_lo sym <= qs_code bits sym p <= qs_hi bits.
Proof. exact qs_code_range. Qed.
Print Assumptions C01_qsigmoid_code_in_range.

Theorem C01_qsigmoid_at_most_2pow_bits_codes : forall bits sym, 1 <= bits ->
  qs_hi bits - qs_lo sym + 1 <= 2 ^ bits.
Proof. exact qs_card. Qed.
Print Assumptions C01_qsigmoid_at_most_2pow_bits_codes.

Theorem C01_qrelu_sigmoid_code_in_range : forall c p, 0 <= qr_nsb c -> 0 <= qrs_code c p <= qr_hi c.
Proof. exact qrs_code_range. Qed.
Print Assumptions C01_qrelu_sigmoid_code_in_range.

(* non-vacuity: a concrete configuration meets the hypotheses and is not constant *)
Example C01_nonvacuous :
  let c := QB 4 1 true false in
  0 < qb_ub c /\ qb_code c 3 10 = 1 /\ qb_code c (-17) 10 = -7 /\ qb_code c 5 1 = 7 /\ qb_code c (-5) 1 = -8.
Proof. vm_compute. repeat split; discriminate. Qed.

(* ---- the bridge to float32 (Quant/FLExact.v): the rounding function of the float model is the identity on every value
   code * 2^e with |code| < 2^24 in the normal range, so a representable code times its step IS a float32 value and the exact
   rational model can be compared with TensorFlow bit for bit ---- *)
Theorem C01_code_times_step_is_a_float32_value : forall code step_exp, code <> 0 -> Z.abs code < 2 ^ 24 ->
  -126 <= Z.log2 (Z.abs code) + step_exp ->
  req (fl (rscale (rofZ code) step_exp)) (rscale (rofZ code) step_exp) = true.
Proof. exact fixed_point_code_is_a_float32_value. Qed.
Print Assumptions C01_code_times_step_is_a_float32_value.
Theorem C01_qbits_output_is_a_float32_value : forall c a b, 1 <= qb_ub c <= 23 -> -126 <= qb_se c ->
  let v := rscale (rofZ (qb_code c a b)) (qb_se c) in req (fl v) v = true.
Proof. exact qbits_output_is_a_float32_value. Qed.
Print Assumptions C01_qbits_output_is_a_float32_value.
(* beyond 24 significant bits the identity fails: 2^24 + 1 is not a float32 value *)
Theorem C01_float32_bridge_needs_24_bits : req (fl (16777217, 1)) (16777217, 1) = false.
Proof. reflexivity. Qed.

(* ---- max() / min() of quantized_bits as /repo has them now (coq/gen/ReportGen.v, regenerated on every run) ---- *)
From QVGen Require ReportGen.
From QV Require Link.ReportLink.
Theorem C01_report_translation_ok : ReportGen.report_translation_ok = true.
Proof. exact ReportLink.link_report_ok. Qed.
(* the values THE CODE reports enclose every output of the quantizer (scale 1), for every configuration and every input *)
Theorem C01_code_min_max_enclose : forall c x, 0 <= qb_ub c -> 0 < rden x ->
  rle (ReportGen.gen_qbits_min (qb_bits c) (qb_int c) (qb_kn c)) (qb_val c (1, 1) x) = true /\
  rle (qb_val c (1, 1) x) (ReportGen.gen_qbits_max (qb_bits c) (qb_int c) (qb_kn c)) = true.
Proof. intros c x H D. destruct (ReportLink.link_qbits_reporters (qb_bits c) (qb_int c) (qb_kn c) (qb_sym c)) as [A B].
  rewrite A, B. destruct c. apply qb_minmax_enclose; assumption. Qed.
Print Assumptions C01_code_min_max_enclose.

(* ---- the source itself: get_clip_bounds and the reporters of quantized_linear, regenerated from qkeras/quantizers.py on every
        run (coq/gen/LinGen.v): the clip bounds ARE the smallest and largest code of the format, and max() / min() are those
        codes times the quantization scale the quantizer multiplies its codes by. ---- *)
From QV Require Import Link.LinLink.
From QVGen Require LinGen.
Theorem C01_source_linear_translated : LinGen.lin_translation_ok = true.
Proof. exact link_lin_ok. Qed.
Print Assumptions C01_source_linear_translated.
Theorem C01_source_linear_clip_bounds_are_the_extreme_codes : forall c, ql_sign c = false -> 0 <= ql_ub c ->
  LinGen.gen_ql_clip_min (ql_bits c) (ql_kn c) (ql_sym c) = rofZ (ql_lo c) /\
  LinGen.gen_ql_clip_max (ql_bits c) (ql_kn c) (ql_sym c) = rofZ (ql_hi c).
Proof. intros c S U. split; [apply link_ql_clip_min | apply link_ql_clip_max]; assumption. Qed.
Print Assumptions C01_source_linear_clip_bounds_are_the_extreme_codes.
Theorem C01_source_linear_reporters_enclose_with_the_same_scale : forall c qs, ql_sign c = false -> 0 <= ql_ub c ->
  LinGen.gen_ql_max (ql_bits c) (ql_kn c) (ql_sym c) qs = rmul (rofZ (ql_hi c)) qs /\
  LinGen.gen_ql_min (ql_bits c) (ql_kn c) (ql_sym c) qs = rmul (rofZ (ql_lo c)) qs.
Proof. exact link_ql_reporters. Qed.
Print Assumptions C01_source_linear_reporters_enclose_with_the_same_scale.
Theorem C01_source_linear_one_bit_sign_bounds : forall c, ql_sign c = true ->
  LinGen.gen_ql_clip_min (ql_bits c) (ql_kn c) (ql_sym c) = (-1, 2) /\ LinGen.gen_ql_clip_max (ql_bits c) (ql_kn c) (ql_sym c) = (1, 2).
Proof. exact link_ql_sign_bounds. Qed.
Print Assumptions C01_source_linear_one_bit_sign_bounds.

(* ---- the legacy quantized_bits.__call__ (data-independent path), regenerated from the source on every run
        (coq/gen/QBitsGen.v): its value is scale * code * 2^step_exponent for a code of the declared format. ---- *)
From QV Require Import Link.QBitsLink.
From QVGen Require QBitsGen.
Theorem C01_source_qbits_emits_a_code_of_the_format : forall c alpha x, 0 < rden x -> 0 <= qb_ub c ->
  exists code, qb_lo c <= code <= qb_hi c /\
    req (QBitsGen.gen_qb_xq (qb_bits c) (qb_int c) (qb_kn c) (qb_sym c) alpha x) (rmul alpha (rscale (rofZ code) (qb_se c))) = true.
Proof. intros c alpha x Xd U. exists (qb_code c (rnum x) (rden x)). split; [apply qb_code_range; exact U | exact (link_qb_xq c alpha x Xd U)]. Qed.
Print Assumptions C01_source_qbits_emits_a_code_of_the_format.

(* ---- quantized_relu.__call__ (plain ReLU, no sigmoid option) regenerated from the source (coq/gen/ReluCallGen.v): its
        quantized value IS qr_val of the model, for every configuration and every rational input. ---- *)
From QV Require Import Link.ReluCallLink.
From QVGen Require ReluCallGen.
Theorem C01_source_relu_plain_value_is_the_model : forall c (has_rub : bool) slope rub x,
  qr_slope c = None -> 0 <= qr_nsb c -> 0 < rden x -> 0 < rden rub ->
  qr_rub c = (if has_rub then Some rub else None) ->
  req (ReluCallGen.gen_qr_xq (qr_bits c) (qr_int c) false (qr_qclip c) has_rub slope rub x) (qr_val c x) = true.
Proof. exact link_qr_xq_plain. Qed.
Print Assumptions C01_source_relu_plain_value_is_the_model.
(* the leaky form, negative_slope = 2^-s as the rational (1, 2^s): positive and negative part are rounded and clipped separately,
   the sum is the model's code times the step -- for every s up to the number of non-sign bits *)
Theorem C01_source_relu_leaky_value_is_the_model : forall c (has_rub : bool) s rub x,
  qr_slope c = Some s -> 0 <= s <= qr_nsb c -> 0 < rden x -> 0 < rden rub ->
  qr_rub c = (if has_rub then Some rub else None) ->
  req (ReluCallGen.gen_qr_xq (qr_bits c) (qr_int c) true (qr_qclip c) has_rub (1, 2 ^ s) rub x) (qr_val c x) = true.
Proof. exact link_qr_xq_leaky. Qed.
Print Assumptions C01_source_relu_leaky_value_is_the_model.

(* Property C08 -- stochastic rounding: adjacent code, unbiased in training,
   exact at inference.  Statements only; proofs in Quant/Stoch.v.
   The random draw u = un/ud is an explicit argument, so every statement is
   for ALL draws. *)
From Coq Require Import ZArith List Bool.
From QV Require Import Base.ZQ Base.FL Quant.Fixed Quant.Stoch.
Open Scope Z_scope.

Theorem C08_result_is_floor_or_ceil : forall a b un ud, 0 < b ->
  sround a b un ud = a / b \/ sround a b un ud = qceil a b.
Proof. exact sround_adjacent. Qed.
Print Assumptions C08_result_is_floor_or_ceil.

Theorem C08_never_further_than_one_step : forall a b un ud, 0 < b ->
  sround a b un ud * b - b < a /\ a < sround a b un ud * b + b.
Proof. exact sround_brackets. Qed.
Print Assumptions C08_never_further_than_one_step.

Theorem C08_codes_are_fixed_points : forall k b un ud, 0 < b -> sround (k * b) b un ud = k.
Proof. exact sround_fixpoint. Qed.
Print Assumptions C08_codes_are_fixed_points.

(* rounding up happens exactly for the draws u <= frac(x): under the uniform law its
   probability is frac(x) ... *)
Theorem C08_threshold_at_fractional_part : forall a b un ud, 0 < b -> 0 < ud -> a mod b <> 0 ->
  (sround a b un ud = a / b + 1 <-> un * b <= (a mod b) * ud).
Proof. exact sround_threshold. Qed.
Print Assumptions C08_threshold_at_fractional_part.

(* ... and with that probability the expectation is the input *)
Theorem C08_mean_identity : forall a b, 0 < b ->
  let fr := a mod b in (a / b) * (b - fr) + (qceil a b) * fr = a.
Proof. exact sround_mean. Qed.
Print Assumptions C08_mean_identity.

Theorem C08_clipped_result_is_adjacent_code : forall lo hi a b un ud, 0 < b -> lo <= hi ->
  let c := clip lo hi (sround a b un ud) in
  c = clip lo hi (a / b) \/ c = clip lo hi (qceil a b).
Proof. exact sround_clipped_adjacent. Qed.
Print Assumptions C08_clipped_result_is_adjacent_code.

Theorem C08_inference_is_round_to_nearest : forall stoch a b un ud,
  round_through stoch false a b un ud = rhe a b.
Proof. exact inference_is_round_to_nearest. Qed.
Print Assumptions C08_inference_is_round_to_nearest.

Theorem C08_po2_mean_identity : forall p y, 0 < p -> p <= y < 2 * p ->
  let t_num := y - p in p * (p - t_num) + (2 * p) * t_num = y * p.
Proof. exact po2_stoch_mean. Qed.
Print Assumptions C08_po2_mean_identity.

Theorem C08_po2_threshold : forall p y un ud, 0 < p -> 0 < ud -> 0 <= un < ud -> p <= y < 2 * p ->
  (p * ud + p * un <= y * ud <-> un * p <= (y - p) * ud).
Proof. exact po2_stoch_threshold. Qed.
Print Assumptions C08_po2_threshold.

Example C08_nonvacuous :
  sround 12 10 1 10 = 2 /\ sround 12 10 3 10 = 1 /\ sround (-12) 10 7 10 = -1 /\ sround (-12) 10 9 10 = -2 /\
  sround 20 10 0 1 = 2.
Proof. vm_compute. repeat split. Qed.

(* ---- stochastic_round as /repo has it now (coq/gen/StochGen.v, regenerated on every run) ---- *)
From Coq Require Import QArith.
From QVGen Require StochGen.
From QV Require Link.StochLink.
Theorem C08_stoch_translation_ok : StochGen.stoch_translation_ok = true.
Proof. exact StochLink.link_stoch_ok. Qed.
(* at precision 1 the code's function is the integer model for every rational input and every draw ... *)
Theorem C08_code_stochastic_round_is_the_model : forall a p un q,
  (StochGen.gen_stochastic_round (a # p) (un # q) 1 == inject_Z (sround a (Zpos p) un (Zpos q)))%Q.
Proof. exact StochLink.link_stochastic_round. Qed.
Print Assumptions C08_code_stochastic_round_is_the_model.
(* ... hence the code's result is floor or ceil of its input, for every draw *)
Theorem C08_code_result_is_floor_or_ceil : forall a p un q,
  (StochGen.gen_stochastic_round (a # p) (un # q) 1 == inject_Z (a / Zpos p))%Q \/
  (StochGen.gen_stochastic_round (a # p) (un # q) 1 == inject_Z (qceil a (Zpos p)))%Q.
Proof. intros. rewrite StochLink.link_stochastic_round.
  destruct (sround_adjacent a (Zpos p) un (Zpos q)) as [E|E]; [reflexivity| |]; rewrite E; [left|right]; reflexivity. Qed.
Print Assumptions C08_code_result_is_floor_or_ceil.

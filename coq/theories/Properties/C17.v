(* Property C17 -- qtools accumulator and adder types can hold every sum they
   are sized for.  Statements only; proofs in QTools/AccThm.v. *)
From Coq Require Import ZArith List Bool.
From QV Require Import Base.ZQ Base.FL QTools.Types QTools.Ops QTools.MulThm QTools.AccThm.
From QVGen Require Import QToolsOps.
From QV Require Import Link.QToolsLink.
From QVGen Require Import MergeGen.
From QV Require Import Link.MergeLink.
Open Scope Z_scope.
Import ListNotations.

(* for every N >= 1 and every list of at most N (+ bias) multiplier-output codes *)
Theorem C17_accumulator_holds_any_sum : forall kernel_ops use_bias m ks,
  1 <= kernel_ops -> 0 <= mag_bits m ->
  Forall (code_ok m) ks -> Z.of_nat (length ks) <= kernel_ops + b2z use_bias ->
  let a := fixed_acc kernel_ops use_bias m in
  frac_bits a = frac_bits m /\ code_ok a (zsum ks).
Proof. exact fixed_acc_holds_sum. Qed.
Print Assumptions C17_accumulator_holds_any_sum.

Theorem C17_adder_holds_sum_of_two : forall q1 q2 k1 k2,
  0 <= mag_bits q1 -> 0 <= mag_bits q2 -> code_ok q1 k1 -> code_ok q2 k2 ->
  let o := fixed_adder q1 q2 in let f := frac_bits o in
  code_ok o (k1 * 2 ^ (f - frac_bits q1) + k2 * 2 ^ (f - frac_bits q2)).
Proof. exact fixed_adder_holds_sum. Qed.
Print Assumptions C17_adder_holds_sum_of_two.

Theorem C17_adder_fraction_never_coarser : forall q1 q2,
  frac_bits (fixed_adder q1 q2) = Z.max (frac_bits q1) (frac_bits q2).
Proof. exact fixed_adder_frac_finest. Qed.
Print Assumptions C17_adder_fraction_never_coarser.

Theorem C17_adder_integer_range : forall q1 q2,
  q_int (fixed_adder q1 q2) = Z.max (q_int q1) (q_int q2) + 1.
Proof. exact fixed_adder_int_enough. Qed.
Print Assumptions C17_adder_integer_range.

Theorem C17_widening_never_narrows_adder : forall q1 q1' q2,
  q_int q1 <= q_int q1' -> frac_bits q1 <= frac_bits q1' ->
  q_int (fixed_adder q1 q2) <= q_int (fixed_adder q1' q2) /\
  frac_bits (fixed_adder q1 q2) <= frac_bits (fixed_adder q1' q2).
Proof. exact fixed_adder_widening_mono. Qed.
Print Assumptions C17_widening_never_narrows_adder.

Theorem C17_widening_never_narrows_accumulator : forall n n' b m m',
  1 <= n <= n' -> q_int m <= q_int m' -> frac_bits m <= frac_bits m' -> q_sgn m = q_sgn m' ->
  q_int (fixed_acc n b m) <= q_int (fixed_acc n' b m') /\
  frac_bits (fixed_acc n b m) <= frac_bits (fixed_acc n' b m').
Proof. exact fixed_acc_widening_mono. Qed.
Print Assumptions C17_widening_never_narrows_accumulator.

(* power-of-two operands converted to fixed point: every value of the type is covered (full statement since fix: 1f09dc0) *)
Theorem C17_po2_to_fixed_covers : forall t e,
  let mn := fst (get_exp t) in let mx := snd (get_exp t) in
  - mn <= e <= mx ->
  let q := po2_qbits_converter t in
  frac_bits q = mn /\ code_ok q (2 ^ (e + mn)) /\ (q_sgn t = true -> code_ok q (- 2 ^ (e + mn))).
Proof. exact po2_to_qbits_covers. Qed.
Print Assumptions C17_po2_to_fixed_covers.

(* the conversion before the repair missed the top value 2^max_exp (int_bits = max_exp) *)
Theorem C17_po2_to_fixed_top_value_before_repair_refuted :
  exists t, q_mode t = 1 /\
    let q := po2_qbits_converter_before_repair t in
    mem_type t (rpow2 (snd (get_exp t))) = true /\ mem_type q (rpow2 (snd (get_exp t))) = false /\
    mem_type (po2_qbits_converter t) (rpow2 (snd (get_exp t))) = true.
Proof. exact po2_to_qbits_top_value_before_repair_refuted. Qed.
Print Assumptions C17_po2_to_fixed_top_value_before_repair_refuted.

Theorem C17_merge_add_refuted :
  exists a b va vb, mem_type a va = true /\ mem_type b vb = true /\
    mem_type (merge_add [a; b]) (rnorm (radd va vb)) = false.
Proof. exact merge_add_refuted. Qed.
Print Assumptions C17_merge_add_refuted.

Theorem C17_merge_max_refuted :
  exists a b va, mem_type a va = true /\ mem_type (merge_max [a; b]) va = false.
Proof. exact merge_max_refuted. Qed.
Print Assumptions C17_merge_max_refuted.

Theorem C17_merge_of_identical_types : forall a, merge_max [a; a] = a.
Proof. exact merge_max_same. Qed.
Print Assumptions C17_merge_of_identical_types.

Example C17_nonvacuous :
  let m := QT 0 10 2 true false false None NQBits None in
  let a := fixed_acc 27 true m in
  render a = [0; 15; 7; 1; 0; 0; -1; 1; 0] /\ code_ok m (-512) /\ code_ok a (27 * -512) /\ ~ code_ok m (27 * -512).
Proof. vm_compute. repeat split; try discriminate. intros [H _]. apply H. reflexivity. Qed.

(* ---- tie to the source (T): the accumulator / adder rules regenerated from accumulator_impl.py, adder_impl.py and
   adder_factory.py on this run are, for all operands, the model the theorems above are about ---- *)
Theorem C17_source_translated : translation_ok = true.
Proof. exact link_translation_ok. Qed.
Print Assumptions C17_source_translated.
Theorem C17_source_adder_table : forall m1 m2, 0 <= m1 <= 5 -> 0 <= m2 <= 5 ->
  nth (Z.to_nat m2) (nth (Z.to_nat m1) gen_add_table []) AFloat = add_table m1 m2.
Proof. exact link_add_table. Qed.
Print Assumptions C17_source_adder_table.
Theorem C17_source_accumulator_dispatch : forall kernel_ops use_bias m,
  gen_make_accumulator kernel_ops use_bias m = make_accumulator kernel_ops use_bias m.
Proof. exact link_make_accumulator. Qed.
Print Assumptions C17_source_accumulator_dispatch.
Theorem C17_source_rules_are_the_model : forall kernel_ops use_bias m q1 q2,
  gen_FixedPointAccumulator kernel_ops use_bias m = fixed_acc kernel_ops use_bias m /\
  gen_Po2Accumulator kernel_ops use_bias m = po2_acc kernel_ops use_bias m /\
  gen_FloatingPointAccumulator m = float_acc m /\
  gen_po2_to_qbits m = po2_to_qbits m /\ gen_po2_qbits_converter m = po2_qbits_converter m /\
  gen_FixedPointAdder q1 q2 = fixed_adder q1 q2 /\ gen_Po2FixedPointAdder q1 q2 = po2_fixed_adder q1 q2 /\
  gen_Po2Adder q1 q2 = po2_adder q1 q2 /\ gen_FloatingPointAdder q1 q2 = float_adder q1 q2.
Proof. intros. repeat split; first [apply link_FixedPointAccumulator | apply link_Po2Accumulator | apply link_FloatingPointAccumulator
                                   | apply link_po2_to_qbits | apply link_po2_qbits_converter | apply link_FixedPointAdder
                                   | apply link_Po2FixedPointAdder | apply link_Po2Adder | apply link_FloatingPointAdder]. Qed.
Print Assumptions C17_source_rules_are_the_model.

(* the exponent range of a power-of-two type, as /repo computes it now (get_exp regenerated on this run), is the
   get_exp of the model: min exponent from the exponent bits, max exponent capped by ceil(log2 max_value) *)
Theorem C17_source_get_exp : forall t, gen_get_exp t = get_exp t.
Proof. exact link_get_exp. Qed.
Print Assumptions C17_source_get_exp.

(* ---- merge layers as /repo has them now (coq/gen/MergeGen.v, regenerated from merge_factory.py on every run) ---- *)
Theorem C17_source_merge_translation_ok : merge_translation_ok = true.
Proof. exact link_merge_ok. Qed.
Theorem C17_source_merge_add_is_the_model : forall qs, gen_merge_add qs = merge_add qs.
Proof. exact link_merge_add. Qed.
Print Assumptions C17_source_merge_add_is_the_model.
Theorem C17_source_merge_max_is_the_model : forall qs, gen_merge_max qs = merge_max qs.
Proof. exact link_merge_max. Qed.
Print Assumptions C17_source_merge_max_is_the_model.
(* where the merge Add rule IS sound: two fixed-point operands with the same integer bits and signedness get exactly the
   fixed-point adder's type, which holds every sum at the finest fraction -- stated about the regenerated code *)
Theorem C17_code_merge_add_same_int_holds_sum : forall a b ka kb,
  q_fp a = false -> q_fp b = false -> q_po2 a = false -> q_po2 b = false ->
  q_int a = q_int b -> q_sgn a = q_sgn b -> 0 <= q_bits a -> 0 <= q_bits b -> 0 <= q_int a ->
  0 <= mag_bits a -> 0 <= mag_bits b -> code_ok a ka -> code_ok b kb ->
  let o := gen_merge_add [a; b] in
  frac_bits o = Z.max (frac_bits a) (frac_bits b) /\
  code_ok o (ka * 2 ^ (frac_bits o - frac_bits a) + kb * 2 ^ (frac_bits o - frac_bits b)).
Proof. intros. unfold o. rewrite link_merge_add. apply merge_add_same_int_holds_sum; assumption. Qed.
Print Assumptions C17_code_merge_add_same_int_holds_sum.
(* the finding, stated about the regenerated code: with different integer bits the narrower operand's fraction bits are dropped *)
Theorem C17_code_merge_add_refuted :
  exists a b va vb, mem_type a va = true /\ mem_type b vb = true /\
    mem_type (gen_merge_add [a; b]) (rnorm (radd va vb)) = false.
Proof. destruct merge_add_refuted as [a [b [va [vb H]]]]. exists a, b, va, vb. rewrite link_merge_add. exact H. Qed.
Print Assumptions C17_code_merge_add_refuted.
Theorem C17_code_merge_of_identical_types : forall a, gen_merge_max [a; a] = a.
Proof. intros. rewrite link_merge_max. apply merge_max_same. Qed.
Print Assumptions C17_code_merge_of_identical_types.

(* merge Add is sized for two operands whatever their number (known finding C17-merge-add-sized-for-two-operands) -- about the regenerated code *)
Theorem C17_code_merge_add_three_operands_refuted :
  exists a k, code_ok a k /\ frac_bits (gen_merge_add [a; a; a]) = frac_bits a /\ ~ code_ok (gen_merge_add [a; a; a]) (k + k + k).
Proof. destruct merge_add_three_operands_refuted as [a [k H]]. exists a, k. rewrite link_merge_add. exact H. Qed.
Print Assumptions C17_code_merge_add_three_operands_refuted.

(* Property C11 -- quantized layers equal their Keras layer run on pre-quantized
   weights.  QVGen.LayerCalls is regenerated from the `call` methods in /repo on every
   run (symbolic execution, tools/translate/layercalls.py); each obligation says that
   the generated data-flow equals the stock computation on quantized weights for EVERY
   interpretation of the TensorFlow operations, every weight, input and flag setting. *)
From Coq Require Import String List Bool.
From QV Require Import Layers.Dataflow.
From QVGen Require Import LayerCalls.
Import ListNotations.
Open Scope string_scope.

(* the decision procedure is sound: uninterpreted operations, all weights / inputs / flags *)
Theorem C11_equivalence_decision_sound : forall a b, equiv a b = true ->
  forall (T : Type) (input cfg : T) weight quant op1 op2 op3 (v : string -> bool),
    ev T input cfg weight quant op1 op2 op3 v a = ev T input cfg weight quant op1 op2 op3 v b.
Proof. exact equiv_sound. Qed.
Print Assumptions C11_equivalence_decision_sound.

Theorem C11_translation_complete : layer_translation_failures = [].
Proof. reflexivity. Qed.

Theorem C11_QDense_dropin : equiv gen_QDense spec_QDense = true.
Proof. vm_compute. reflexivity. Qed.
Theorem C11_QConv1D_dropin : equiv gen_QConv1D spec_QConv1D = true.
Proof. vm_compute. reflexivity. Qed.
Theorem C11_QConv2D_dropin : equiv gen_QConv2D spec_QConv2D = true.
Proof. vm_compute. reflexivity. Qed.
Theorem C11_QConv2DTranspose_dropin : equiv gen_QConv2DTranspose spec_QConv2DTranspose = true.
Proof. vm_compute. reflexivity. Qed.
Theorem C11_QDepthwiseConv2D_dropin : equiv gen_QDepthwiseConv2D spec_QDepthwiseConv2D = true.
Proof. vm_compute. reflexivity. Qed.
Theorem C11_QSeparableConv2D_dropin : equiv gen_QSeparableConv2D spec_QSeparableConv2D = true.
Proof. vm_compute. reflexivity. Qed.

(* separable 1D: causal padding of the input, then the separable convolution of the expanded tensors *)
Definition spec_QSeparableConv1D : dexp :=
  with_act (with_bias (DOp3 "separable_conv"
     (DIf "self.padding == 'causal'" (DOp1 "array_ops.pad" DIn) DIn) depthwise_q pointwise_q)).
Theorem C11_QSeparableConv1D_dropin : equiv gen_QSeparableConv1D spec_QSeparableConv1D = true.
Proof. vm_compute. reflexivity. Qed.

(* scale-shift: quantized bias + input * quantized weight *)
Definition spec_QScaleShift : dexp :=
  let w := qw "self.weight_quantizer_internal is not None" "weight_quantizer_internal" "weight" in
  let b := qw "self.bias_quantizer_internal is not None" "bias_quantizer_internal" "bias" in
  with_act (DIf "self.use_bias" (DOp2 "add" b (DOp2 "mult" DIn w)) (DOp2 "mult" DIn w)).
Theorem C11_QScaleShift_dropin : equiv gen_QScaleShift spec_QScaleShift = true.
Proof. vm_compute. reflexivity. Qed.

(* average pooling: stock average of (x * area) times the quantized reciprocal of the area;
   with no quantizer: the stock layer *)
Definition spec_QAveragePooling2D : dexp :=
  with_act (DIf "self.average_quantizer"
     (DOp2 "mult" (DOp1 "stock_call" (DOp2 "mult" DIn DCfg)) (DQuant "average_quantizer_internal" DCfg))
     (DOp1 "stock_call" DIn)).
Theorem C11_QAveragePooling2D_dropin : equiv gen_QAveragePooling2D spec_QAveragePooling2D = true.
Proof. vm_compute. reflexivity. Qed.
Definition spec_QGlobalAveragePooling2D : dexp :=
  with_act (DIf "self.average_quantizer"
     (DOp2 "mult" (DOp1 "K.sum" DIn) (DQuant "average_quantizer_internal" DCfg))
     (DOp1 "stock_call" DIn)).
Theorem C11_QGlobalAveragePooling2D_dropin : equiv gen_QGlobalAveragePooling2D spec_QGlobalAveragePooling2D = true.
Proof. vm_compute. reflexivity. Qed.

(* with no quantizers configured the quantized dense layer is the stock layer *)
Theorem C11_no_quantizer_is_stock_dense : forall v,
  resolve (no_quantizers v) spec_QDense = resolve (no_quantizers v) stock_dense.
Proof. exact no_quantizer_is_stock_dense. Qed.
Print Assumptions C11_no_quantizer_is_stock_dense.

(* the quantizers a layer reports are the ones it applies, in weight order *)
Theorem C11_reported_quantizers :
  genq_QDense = ["kernel_quantizer_internal"; "bias_quantizer_internal"] /\
  genq_QConv1D = ["kernel_quantizer_internal"; "bias_quantizer_internal"] /\
  genq_QConv2D = ["kernel_quantizer_internal"; "bias_quantizer_internal"] /\
  genq_QDepthwiseConv2D = ["depthwise_quantizer_internal"; "bias_quantizer_internal"] /\
  genq_QSeparableConv1D = ["depthwise_quantizer_internal"; "pointwise_quantizer_internal"; "bias_quantizer_internal"] /\
  genq_QSeparableConv2D = ["depthwise_quantizer_internal"; "pointwise_quantizer_internal"; "bias_quantizer_internal"].
Proof. repeat split. Qed.

(* quantizers only wrap: erasing every quantizer application gives the same data flow whichever
   quantizers are configured -- all weight-bearing feed-forward layers and the three recurrent cells
   (both implementations, reset_after on/off, dropout branches) *)
Theorem C11_quantizers_only_wrap_feedforward :
  forallb quantizers_only_wrap [gen_QDense; gen_QConv1D; gen_QConv2D; gen_QConv2DTranspose; gen_QDepthwiseConv2D;
                                gen_QSeparableConv1D; gen_QSeparableConv2D; gen_QScaleShift] = true.
Proof. vm_compute. reflexivity. Qed.
Theorem C11_quantizers_only_wrap_QSimpleRNNCell : quantizers_only_wrap gen_QSimpleRNNCell = true.
Proof. vm_compute. reflexivity. Qed.
Theorem C11_quantizers_only_wrap_QLSTMCell : quantizers_only_wrap gen_QLSTMCell = true.
Proof. vm_compute. reflexivity. Qed.
Theorem C11_quantizers_only_wrap_QGRUCell : quantizers_only_wrap gen_QGRUCell = true.
Proof. vm_compute. reflexivity. Qed.

(* erasing quantizers is the identity when every quantizer is the identity function *)
Theorem C11_erase_is_identity_quantizers : forall (T : Type) input cfg weight op1 op2 op3 v e,
  ev T input cfg weight (fun _ x => x) op1 op2 op3 v (erase e) = ev T input cfg weight (fun _ x => x) op1 op2 op3 v e.
Proof. exact erase_ev_no_quant. Qed.
Print Assumptions C11_erase_is_identity_quantizers.

(* every backend convolution is called with the layer's own strides, padding, dilation and data format:
   the keyword arguments the translator found at each backend call site are the golden table of
   Layers/Dataflow.v, and none of the four geometry keywords is missing at any call site *)
Theorem C11_geometry_table : gen_geometry = expected_geometry.
Proof. reflexivity. Qed.
Theorem C11_geometry_complete : geometry_complete gen_geometry = true.
Proof. vm_compute. reflexivity. Qed.

(* ---- the output length of QConv2DTranspose (deconv_output_length, regenerated on every run: coq/gen/DeconvGen.v) ---- *)
From Coq Require Import ZArith Lia.
From QVGen Require Import DeconvGen.
Open Scope Z_scope.
Definition k_eff (k d : Z) : Z := k + (k - 1) * (d - 1).
Theorem C11_deconv_translation_ok : deconv_translation_ok = true.
Proof. reflexivity. Qed.
(* the stock Keras formulas, for every length, kernel, stride and dilation *)
Theorem C11_deconv_length_is_the_keras_formula : forall n k s d op,
  gen_deconv_length PValid None n k s d = n * s + Z.max (k_eff k d - s) 0 /\
  gen_deconv_length PSame None n k s d = n * s /\
  gen_deconv_length PFull None n k s d = n * s - (s + k_eff k d - 2) /\
  gen_deconv_length PValid (Some op) n k s d = (n - 1) * s + k_eff k d + op /\
  gen_deconv_length PSame (Some op) n k s d = (n - 1) * s + k_eff k d - 2 * (k_eff k d / 2) + op /\
  gen_deconv_length PFull (Some op) n k s d = (n - 1) * s + k_eff k d - 2 * (k_eff k d - 1) + op.
Proof. intros. unfold gen_deconv_length, k_eff. repeat split; lia. Qed.
(* valid padding: the output holds every position an input element writes to ((n - 1) * s + k_eff of them) AND a full stride slot
   for every input element (n * s): with a stride larger than the kernel the second bound is the larger one *)
Theorem C11_deconv_valid_length_covers_writes_and_stride_slots : forall n k s d,
  gen_deconv_length PValid None n k s d = Z.max ((n - 1) * s + k_eff k d) (n * s).
Proof. intros. unfold gen_deconv_length, k_eff. lia. Qed.
Theorem C11_deconv_valid_stride_larger_than_kernel : forall n k s d, k_eff k d <= s ->
  gen_deconv_length PValid None n k s d = n * s.
Proof. intros. unfold gen_deconv_length, k_eff in *. lia. Qed.

(* Property C05 -- auto-scaled fixed-point output = in-range integer codes times the
   recorded scale.  The reductions that produce the scale (tf max / mean, float32 log) are
   not modelled; the property is decided on the implementation's own inputs, outputs and
   exposed scale by the checkers of Quant/AutoScale.v, whose soundness is stated here. *)
From Coq Require Import ZArith List Bool.
From QV Require Import Base.ZQ Base.FL Quant.Po2 Quant.BinTern Quant.AutoScale Quant.Shape Quant.Fixed.
Open Scope Z_scope. Import ListNotations.

(* a passing element is the float32 straight-through sum of (exposed scale) * (integer code), |code| <= 2^(bits-1)-1 *)
Theorem C05_output_is_scale_times_in_range_code : forall bits int s x y,
  rnum s <> 0 -> 1 <= bits -> chk_qba_elem bits int s x y = 0 ->
  exists z, Z.abs z <= qba_top bits /\ req y (qba_out bits int s x z) = true.
Proof. exact chk_qba_elem_sound. Qed.
Print Assumptions C05_output_is_scale_times_in_range_code.

Theorem C05_linear_output_is_scale_times_in_range_code : forall lo hi qs x y,
  chk_qla_elem lo hi qs x y = 0 ->
  exists c, lo <= c <= hi /\ req y (fadd x (fsub (fmul (rofZ c) qs) x)) = true.
Proof. exact chk_qla_elem_sound. Qed.
Print Assumptions C05_linear_output_is_scale_times_in_range_code.

Theorem C05_code_fits_declared_width : forall bits z, 1 <= bits -> Z.abs z <= qba_top bits ->
  - 2 ^ (bits - 1) < z < 2 ^ (bits - 1).
Proof. exact qba_code_width. Qed.
Print Assumptions C05_code_fits_declared_width.

(* equivariance in exact arithmetic: |x| / (2 max / levels) is unchanged when x and max are both scaled by c > 0 *)
Theorem C05_auto_codes_scale_invariant : forall a b mx_n mx_d c_n c_d lv,
  0 < b -> 0 < mx_n -> 0 < mx_d -> 0 < c_n -> 0 < c_d -> 0 < lv ->
  a * lv * mx_d * (2 * (b * c_d) * (mx_n * c_n)) = (a * c_n) * lv * (mx_d * c_d) * (2 * b * mx_n).
Proof. exact auto_codes_scale_invariant. Qed.
Print Assumptions C05_auto_codes_scale_invariant.

(* the least-squares refinement used by 'auto_po2' is the optimum of its group (shared with C04) *)
Theorem C05_least_squares_refinement_optimal : forall (g : list (QArith_base.Q * QArith_base.Q)) s s',
  QArith_base.Qeq (QArith_base.Qmult s (sqq g)) (sxq g) -> QArith_base.Qle (sse s g) (sse s' g).
Proof. exact ls_scale_is_optimal. Qed.
Print Assumptions C05_least_squares_refinement_optimal.

Example C05_nonvacuous :
  (* quantized_bits(4,0,1,'auto') on the channel [0.3; -1.4; 0.77] (observed on the implementation):
     exposed scale 1.6, outputs 0.4, -1.4, 0.8 = 1.6 * {2, -7, 4} / 8 *)
  chk_qba_group 1 4 0 None None [1050253722; 3216192307; 1061494456] [1053609165; 3216192307; 1061997773] 1070386381 = [0; 0; 0].
Proof. vm_compute. reflexivity. Qed.

(* ---- the shape helpers behind elements_per_scale (Quant/Shape.v): the scale is computed on the unrolled tensor and comes back in
   the documented shape ---- *)
Theorem C05_roll_back_of_unrolled_shape_is_identity : forall s f a, (a < length s)%nat -> f <> 0 -> (nth a s 0 / f) * f = nth a s 0 ->
  roll_one (unroll_one s f a) a = s.
Proof. exact roll_unroll_one. Qed.
Print Assumptions C05_roll_back_of_unrolled_shape_is_identity.
Theorem C05_roll_back_needs_divisibility : exists s f a, (a < length s)%nat /\ f <> 0 /\ roll_one (unroll_one s f a) a <> s.
Proof. exact roll_unroll_one_refuted. Qed.
Theorem C05_unrolling_keeps_the_number_of_elements : forall s f a, (a < length s)%nat -> (nth a s 0 / f) * f = nth a s 0 ->
  prod (unroll_one s f a) = prod s.
Proof. exact unroll_one_prod. Qed.
Print Assumptions C05_unrolling_keeps_the_number_of_elements.
Theorem C05_unrolled_axes : forall s f a, (a < length s)%nat ->
  nth a (unroll_one s f a) 0 = nth a s 0 / f /\ nth (S a) (unroll_one s f a) 0 = f /\
  (forall i, (i < a)%nat -> nth i (unroll_one s f a) 0 = nth i s 0) /\
  (forall i, (a < i)%nat -> nth (S i) (unroll_one s f a) 0 = nth i s 0).
Proof. exact unroll_one_axes. Qed.
Print Assumptions C05_unrolled_axes.

(* ---- the source itself: quantized_linear with alpha = "auto".  The scale _get_quantization_scale_from_max_data computes
        (coq/gen/LinGen.v, regenerated from qkeras/quantizers.py on every run) covers its whole scale group: every element is
        coded in range and within half a quantization step of its value -- for every multi-bit format, every group maximum and
        every element of the group. ---- *)
From QV Require Import Link.LinLink Link.LinAutoLink.
From QVGen Require LinGen.
Theorem C05_source_auto_scale_covers_the_group : forall c dmax_abs dmax x,
  ql_sign c = false -> 1 <= ql_ub c -> ql_kn c = true -> 0 < rnum dmax_abs -> 0 < rden dmax_abs -> 0 < rden x ->
  rle (rabs x) dmax_abs = true ->
  let s := LinGen.gen_ql_auto_scale (ql_bits c) (ql_kn c) (ql_sym c) dmax_abs dmax in
  let p := rdiv x s in
  0 < rnum s /\ 0 < rden s /\ 0 < rden p /\ 2 * Z.abs (rnum p) <= (ql_hi c - ql_lo c) * rden p.
Proof. exact auto_scale_covers_the_group. Qed.
Print Assumptions C05_source_auto_scale_covers_the_group.
Theorem C05_source_auto_scale_code_in_range_and_within_half_a_step : forall c dmax_abs dmax x,
  ql_sign c = false -> 1 <= ql_ub c -> ql_kn c = true -> 0 < rnum dmax_abs -> 0 < rden dmax_abs -> 0 < rden x ->
  rle (rabs x) dmax_abs = true ->
  let s := LinGen.gen_ql_auto_scale (ql_bits c) (ql_kn c) (ql_sym c) dmax_abs dmax in
  let p := rdiv x s in
  let code := rround (rclip (rofZ (ql_lo c)) (rofZ (ql_hi c)) p) in
  ql_lo c <= code <= ql_hi c /\ 2 * Z.abs (code * rden p - rnum p) <= rden p.
Proof. exact auto_scale_code_within_half_a_step. Qed.
Print Assumptions C05_source_auto_scale_code_in_range_and_within_half_a_step.
Theorem C05_source_auto_scale_unsigned_maps_the_maximum_onto_the_top_code : forall c dmax_abs dmax x,
  ql_sign c = false -> 1 <= ql_ub c -> ql_kn c = false -> 0 < rnum dmax -> 0 < rden dmax -> 0 < rden x ->
  rle x dmax = true ->
  let s := LinGen.gen_ql_auto_scale (ql_bits c) (ql_kn c) (ql_sym c) dmax_abs dmax in
  let p := rdiv x s in
  0 < rnum s /\ 0 < rden s /\ 0 < rden p /\ rnum p <= ql_hi c * rden p.
Proof. exact auto_scale_unsigned_covers. Qed.
Print Assumptions C05_source_auto_scale_unsigned_maps_the_maximum_onto_the_top_code.

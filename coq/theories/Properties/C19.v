(* Property C19 -- qtools operation counts are the true MAC counts and the
   energy totals add up.  Statements only; proofs in QTools/OpCount.v. *)
From Coq Require Import ZArith String List Bool QArith Qround Qminmax Qabs Lia.
From QV Require Import QTools.OpCount QTools.OpCountSyn Link.OpCountLink.
From QVGen Require Import OpCountGen.
From QVGen Require EnergyGen MemGen ExtractGen.
From QV Require QTools.Energy Link.EnergyLink Link.MemLink Link.ExtractLink.
Open Scope Z_scope.
Import ListNotations.

(* ---- get_operation_count as /repo has it now (coq/gen/OpCountGen.v, regenerated on every run) ---- *)
Theorem C19_translation_ok : translation_ok = true.
Proof. exact link_opcount_ok. Qed.
(* the code's count of a (grouped, transposed, batch-norm folded) 2D convolution is the cardinality of its loop nest *)
Theorem C19_code_conv2d_is_loop_nest : forall cls, In cls conv2d_classes ->
  forall b h w ci b' ho wo co kh kw k3 k4 pool g,
  0 <= ho -> 0 <= wo -> 0 <= co -> 0 <= kh -> 0 <= kw -> 0 <= ci -> 0 < g ->
  gen_opcount cls [b; h; w; ci] [b'; ho; wo; co] [kh; kw; k3; k4] pool g =
  Z.of_nat (length (conv2d_nest ho wo co kh kw (ci / g))).
Proof. intros; rewrite link_conv2d by assumption; apply conv2d_count_is_nest; assumption. Qed.
Print Assumptions C19_code_conv2d_is_loop_nest.
Theorem C19_code_conv1d_is_loop_nest : forall cls, In cls ["QConv1D"; "Conv1D"]%string ->
  forall b t ci b' to co k k2 k3 pool g, 0 <= to -> 0 <= co -> 0 <= k -> 0 <= ci ->
  gen_opcount cls [b; t; ci] [b'; to; co] [k; k2; k3] pool g = Z.of_nat (length (conv1d_nest to co k ci)).
Proof. intros; rewrite link_conv1d by assumption; apply conv1d_count_is_nest; assumption. Qed.
Print Assumptions C19_code_conv1d_is_loop_nest.
Theorem C19_code_depthwise_is_loop_nest : forall cls, In cls ["QDepthwiseConv2D"; "DepthwiseConv2D"]%string ->
  forall b h w ci dm b' ho wo kh kw k3 k4 pool g,
  0 <= ho -> 0 <= wo -> 0 <= ci -> 0 <= dm -> 0 <= kh -> 0 <= kw ->
  gen_opcount cls [b; h; w; ci] [b'; ho; wo; ci * dm] [kh; kw; k3; k4] pool g =
  Z.of_nat (length (depthwise_nest ho wo ci dm kh kw)).
Proof. intros; rewrite link_depthwise by assumption; apply depthwise_count_is_nest; assumption. Qed.
Print Assumptions C19_code_depthwise_is_loop_nest.
Theorem C19_code_dense_is_loop_nest : forall cls, In cls ["QDense"; "Dense"]%string ->
  forall ni no w pool g, 0 < ni -> 0 < no ->
  gen_opcount cls [-1; ni] [-1; no] w pool g = Z.of_nat (length (dense_nest ni no)) /\
  gen_opcount cls [-1; 1; 1; ni] [-1; 1; 1; no] w pool g = Z.of_nat (length (dense_nest ni no)).
Proof. intros cls H ni no w pool g Hi Ho; destruct (link_dense cls H ni no w pool g Hi Ho) as [A B];
  rewrite A, B; split; apply dense_count_is_nest; lia. Qed.
Print Assumptions C19_code_dense_is_loop_nest.
Theorem C19_code_pooling_is_loop_nest : forall cls, In cls pool_classes ->
  forall i b' ho wo c ph pw w g, 0 <= ho -> 0 <= wo -> 0 <= c -> 0 <= ph -> 0 <= pw ->
  gen_opcount cls i [b'; ho; wo; c] w (Some [ph; pw]) g = Z.of_nat (length (pool_nest ho wo c ph pw)).
Proof. intros; rewrite link_pool by assumption; apply pool_count_is_nest; assumption. Qed.
Print Assumptions C19_code_pooling_is_loop_nest.
Theorem C19_code_global_pooling_is_loop_nest : forall cls,
  In cls ["GlobalAvgPool2D"; "GlobalAveragePooling2D"; "QGlobalAveragePooling2D"]%string ->
  forall b h w c b' w0 g, 0 <= c -> 0 <= h -> 0 <= w ->
  gen_opcount cls [b; h; w; c] [b'; c] w0 None g = Z.of_nat (length (pool_nest 1 1 c h w)).
Proof. intros; rewrite link_global_pool by assumption; change 1 with (1 * 1) at 1; apply pool_count_is_nest; lia. Qed.
Print Assumptions C19_code_global_pooling_is_loop_nest.
(* element-wise layers (merge, reshape, activation, batch normalisation, up-sampling): one operation per element *)
Theorem C19_code_elementwise : forall cls, In cls elementwise_classes -> forall b dims o w pool g,
  gen_opcount cls (b :: dims) o w pool g = fold_right Z.mul 1 dims.
Proof. exact link_elementwise. Qed.
Print Assumptions C19_code_elementwise.
Theorem C19_code_upsampling : forall cls, In cls ["UpSampling1D"; "UpSampling2D"; "UpSampling3D"]%string ->
  forall i b dims w pool g, gen_opcount cls i (b :: dims) w pool g = fold_right Z.mul 1 dims.
Proof. exact link_upsampling. Qed.
Print Assumptions C19_code_upsampling.

(* output extents: the admissible window positions are exactly [0, extent) *)
Theorem C19_valid_extent_exact : forall n k s d o, 0 < s -> 0 <= o ->
  (o * s + eff_k k d <= n <-> o < out_valid n k s d).
Proof. exact out_valid_exact. Qed.
Print Assumptions C19_valid_extent_exact.
Theorem C19_same_extent_exact : forall n s o, 0 < s -> 0 <= o -> 0 <= n -> (o * s < n <-> o < out_same n s).
Proof. exact out_same_exact. Qed.
Print Assumptions C19_same_extent_exact.

(* the reported count is the number of tuples of the layer's loop nest, for every geometry, group count,
   depth multiplier and number of pooling positions *)
Theorem C19_conv2d_count_is_loop_nest : forall ho wo co kh kw ci g,
  0 <= ho -> 0 <= wo -> 0 <= co -> 0 <= kh -> 0 <= kw -> 0 <= ci -> 0 < g ->
  oc_conv2d ho wo co kh kw ci g = Z.of_nat (length (conv2d_nest ho wo co kh kw (ci / g))).
Proof. exact conv2d_count_is_nest. Qed.
Print Assumptions C19_conv2d_count_is_loop_nest.
Theorem C19_conv1d_count_is_loop_nest : forall to co k ci, 0 <= to -> 0 <= co -> 0 <= k -> 0 <= ci ->
  oc_conv1d to co k ci = Z.of_nat (length (conv1d_nest to co k ci)).
Proof. exact conv1d_count_is_nest. Qed.
Print Assumptions C19_conv1d_count_is_loop_nest.
Theorem C19_dense_count_is_loop_nest : forall ni no, 0 <= ni -> 0 <= no ->
  oc_dense ni no = Z.of_nat (length (dense_nest ni no)).
Proof. exact dense_count_is_nest. Qed.
Print Assumptions C19_dense_count_is_loop_nest.
Theorem C19_depthwise_count_is_loop_nest : forall ho wo ci dm kh kw,
  0 <= ho -> 0 <= wo -> 0 <= ci -> 0 <= dm -> 0 <= kh -> 0 <= kw ->
  oc_depthwise kh kw ho wo (ci * dm) = Z.of_nat (length (depthwise_nest ho wo ci dm kh kw)).
Proof. exact depthwise_count_is_nest. Qed.
Print Assumptions C19_depthwise_count_is_loop_nest.
Theorem C19_pooling_count_is_loop_nest : forall ho wo c ph pw, 0 <= ho -> 0 <= wo -> 0 <= c -> 0 <= ph -> 0 <= pw ->
  oc_pool (ho * wo) c ph pw = Z.of_nat (length (pool_nest ho wo c ph pw)).
Proof. exact pool_count_is_nest. Qed.
Print Assumptions C19_pooling_count_is_loop_nest.

(* the formulas before the three repairs were refuted by these witnesses (fix: commits 69dfa10, 790ab99, d98f7e6) *)
Theorem C19_grouped_conv_old_refuted : exists ho wo co kh kw ci g, 1 < g /\ ci mod g = 0 /\
  oc_conv2d_old ho wo co kh kw ci <> Z.of_nat (length (conv2d_nest ho wo co kh kw (ci / g))).
Proof. exact grouped_conv_count_old_refuted. Qed.
Print Assumptions C19_grouped_conv_old_refuted.
Theorem C19_depthwise_multiplier_old_refuted : exists ho wo ci dm kh kw, 1 < dm /\
  oc_depthwise_old kh kw ho wo ci <> Z.of_nat (length (depthwise_nest ho wo ci dm kh kw)).
Proof. exact depthwise_multiplier_count_old_refuted. Qed.
Print Assumptions C19_depthwise_multiplier_old_refuted.
Theorem C19_pooling_positions_old_refuted : exists ho wo c ph pw, 1 < ho * wo /\
  oc_pool_old c ph pw <> Z.of_nat (length (pool_nest ho wo c ph pw)).
Proof. exact pooling_count_old_refuted. Qed.
Print Assumptions C19_pooling_positions_old_refuted.

(* energy report *)
Open Scope Q_scope.
Theorem C19_energy_entry_nonnegative : forall p c g : Q, 0 <= c -> 0 <= g -> 0 <= g * Qmax p 0 * c.
Proof. exact energy_entry_nonneg. Qed.
Print Assumptions C19_energy_entry_nonnegative.
Theorem C19_total_is_floor_of_sum : forall l : list Q, Forall (fun e => 0 <= e) l ->
  let t := Qfloor (qsum l) in (inject_Z t <= qsum l) /\ (qsum l < inject_Z (t + 1)).
Proof. exact total_is_floor_of_sum. Qed.
Print Assumptions C19_total_is_floor_of_sum.
Theorem C19_total_vs_printed_entries : forall es rs : list Q,
  Forall (fun e => 0 <= e) es -> Forall2 (fun e r => Qabs (r - e) <= 1 # 200) es rs ->
  Qabs (inject_Z (Qfloor (qsum es)) - qsum rs) <= 1 + inject_Z (Z.of_nat (length es)) * (1 # 200).
Proof. exact total_vs_printed_entries. Qed.
Print Assumptions C19_total_vs_printed_entries.
Theorem C19_extract_sum_is_floor_of_selected_entries : forall layers,
  let s := qsum (flat_map (fun '(keys, entry) => select keys entry) layers) in
  inject_Z (extract_sum layers) <= s /\ s < inject_Z (extract_sum layers + 1).
Proof. exact extract_sum_spec. Qed.
Print Assumptions C19_extract_sum_is_floor_of_selected_entries.

Example C19_nonvacuous :
  (out_valid 8 3 2 1 = 3 /\ out_same 8 3 = 3 /\ oc_conv2d 3 3 4 3 3 4 2 = 648 /\
   length (conv2d_nest 3 3 4 3 3 2) = 648%nat)%Z.
Proof. vm_compute. repeat split. Qed.

(* ---- the operation-energy entry of energy_estimate as /repo has it now (coq/gen/EnergyGen.v, regenerated on every run) ---- *)
Theorem C19_energy_translation_ok : EnergyGen.translation_ok = true.
Proof. exact EnergyLink.link_energy_ok. Qed.
(* the per-layer dictionary prints four entries, and the total adds exactly the variables behind those four *)
Theorem C19_code_total_adds_every_entry :
  (EnergyGen.gen_entry_keys = ["inputs"; "outputs"; "parameters"; "op_cost"]%string) /\ (EnergyGen.gen_total_terms = EnergyGen.gen_entry_keys) /\
  (EnergyGen.gen_opcost_key = ["op_cost"]%string) /\ (EnergyGen.gen_total_truncated = true).
Proof. exact EnergyLink.link_energy_entries. Qed.
Print Assumptions C19_code_total_adds_every_entry.
Open Scope Q_scope.
(* the code's op_cost is never negative, for every class name, count, number of inputs and unit costs *)
Theorem C19_code_op_cost_nonnegative : forall gf uop uadd present, (forall k, 0 <= gf k) -> (forall k, 0 <= uop k) -> (forall k, 0 <= uadd k) ->
  forall cls count n, (0 <= count)%Z -> (1 <= n)%Z -> 0 <= EnergyGen.gen_opcost gf uop uadd present cls count n.
Proof. intros. rewrite EnergyLink.link_opcost. apply Energy.op_cost_nonneg; assumption. Qed.
Print Assumptions C19_code_op_cost_nonnegative.
(* a merge layer of n inputs is charged n - 1 two-operand operations per element -- whatever the rank of its inputs *)
Theorem C19_code_merge_cost_counts_inputs : forall gf uop uadd present cls count n, Energy.mem cls Energy.merge_classes = true ->
  EnergyGen.gen_opcost gf uop uadd present cls count n == inject_Z ((n - 1) * count) * (gf "multiplier"%string * uop "multiplier"%string).
Proof. intros. rewrite EnergyLink.link_opcost. apply Energy.merge_cost_is_additions_times_unit; assumption. Qed.
Print Assumptions C19_code_merge_cost_counts_inputs.
Theorem C19_code_merge_cost_one_more_input : forall gf uop uadd present cls count n, Energy.mem cls Energy.merge_classes = true ->
  EnergyGen.gen_opcost gf uop uadd present cls count (n + 1) ==
  EnergyGen.gen_opcost gf uop uadd present cls count n + inject_Z count * (gf "multiplier"%string * uop "multiplier"%string).
Proof. intros. rewrite !EnergyLink.link_opcost. apply Energy.merge_cost_one_more_input; assumption. Qed.
Print Assumptions C19_code_merge_cost_one_more_input.
(* multiply-accumulate layers: one gated multiplication and one accumulator addition per counted operation *)
Theorem C19_code_mac_cost : forall gf uop uadd present cls count n, Energy.mem cls Energy.mac_classes = true ->
  EnergyGen.gen_opcost gf uop uadd present cls count n ==
  inject_Z count * (gf "multiplier"%string * uop "multiplier"%string) + inject_Z count * uadd "accumulator"%string.
Proof. intros. rewrite EnergyLink.link_opcost. apply Energy.mac_cost; assumption. Qed.
Print Assumptions C19_code_mac_cost.
(* pooling layers: one addition at the width of the pooling accumulator the layer map reports (key pool_sum_accumulator) *)
Theorem C19_code_pool_cost : forall gf uop uadd present cls count n, Energy.mem cls Energy.pool_classes = true ->
  EnergyGen.gen_opcost gf uop uadd present cls count n == inject_Z count * uadd "pool_sum_accumulator"%string.
Proof. intros. rewrite EnergyLink.link_opcost. apply Energy.pool_cost; assumption. Qed.
Print Assumptions C19_code_pool_cost.
Theorem C19_code_op_cost_linear_in_count : forall gf uop uadd present cls c1 c2 n,
  EnergyGen.gen_opcost gf uop uadd present cls (c1 + c2) n ==
  EnergyGen.gen_opcost gf uop uadd present cls c1 n + EnergyGen.gen_opcost gf uop uadd present cls c2 n.
Proof. intros. rewrite !EnergyLink.link_opcost. apply Energy.op_cost_linear_in_count. Qed.
Print Assumptions C19_code_op_cost_linear_in_count.
Theorem C19_total_is_sum_of_all_entries : forall l,
  Energy.qsum4 l == fold_right Qplus 0 (concat (map (fun e => let '(a, b, c, d) := e in [a; b; c; d]) l)).
Proof. exact Energy.total_is_sum_of_all_entries. Qed.
Print Assumptions C19_total_is_sum_of_all_entries.

(* ---- the memory entries of energy_estimate as /repo has them now (coq/gen/MemGen.v, regenerated on every run) ---- *)
Theorem C19_mem_translation_ok : MemGen.translation_ok = true.
Proof. exact MemLink.link_mem_ok. Qed.
Theorem C19_code_memory_entries_nonnegative : forall at_io rw mode d sr sw, 0 <= d -> 0 <= sr -> 0 <= sw ->
  0 <= MemGen.gen_mem_read at_io rw mode d sr sw /\ 0 <= MemGen.gen_mem_write at_io rw mode d sr sw.
Proof. intros. rewrite MemLink.link_mem_read, MemLink.link_mem_write. apply Energy.mem_nonneg; assumption. Qed.
Print Assumptions C19_code_memory_entries_nonnegative.
(* hard-wired ("fixed") weights, or any placement that is neither DRAM nor SRAM, cost nothing inside the network *)
Theorem C19_code_other_placement_costs_nothing : forall rw mode a b c,
  String.eqb mode "dram" = false -> String.eqb mode "sram" = false ->
  MemGen.gen_mem_read false rw mode a b c == 0 /\ MemGen.gen_mem_write false rw mode a b c == 0.
Proof. intros rw mode a b c D S. rewrite MemLink.link_mem_read, MemLink.link_mem_write.
  destruct (Energy.mem_other_placement_costs_nothing rw mode a b c D S) as [R W]. rewrite R, W. split; reflexivity. Qed.
Print Assumptions C19_code_other_placement_costs_nothing.
(* at the model's inputs and outputs the placement option does not matter *)
Theorem C19_code_io_ignores_placement : forall rw mode mode' a b c,
  MemGen.gen_mem_read true rw mode a b c == MemGen.gen_mem_read true rw mode' a b c /\
  MemGen.gen_mem_write true rw mode a b c == MemGen.gen_mem_write true rw mode' a b c.
Proof. intros. rewrite !MemLink.link_mem_read, !MemLink.link_mem_write.
  destruct (Energy.mem_io_ignores_placement rw mode mode' a b c) as [R W]. rewrite R, W. split; reflexivity. Qed.
Print Assumptions C19_code_io_ignores_placement.
(* DRAM placement pays the DRAM access with or without rd_wr_on_io; the flag only adds the staging through SRAM *)
Theorem C19_code_dram_pays_dram_access : forall dr dw sr sw,
  MemGen.gen_mem_read false false "dram" dr sr sw == dr /\ MemGen.gen_mem_write false false "dram" dw sr sw == dw /\
  MemGen.gen_mem_read false true "dram" dr sr sw == dr + sw /\ MemGen.gen_mem_write false true "dram" dw sr sw == sr + dw.
Proof. intros. rewrite !MemLink.link_mem_read, !MemLink.link_mem_write. unfold Energy.mem_read, Energy.mem_write, Energy.eff_mode.
  cbn [String.eqb Ascii.eqb Bool.eqb]. repeat split; ring. Qed.
Print Assumptions C19_code_dram_pays_dram_access.
Theorem C19_code_sram_pays_one_access : forall rw dr dw sr sw,
  MemGen.gen_mem_read false rw "sram" dr sr sw == sr /\ MemGen.gen_mem_write false rw "sram" dw sr sw == sw.
Proof. intros. rewrite MemLink.link_mem_read, MemLink.link_mem_write.
  destruct (Energy.mem_sram_pays_one_sram_access rw dr dw sr sw) as [R W]. rewrite R, W. split; reflexivity. Qed.
Print Assumptions C19_code_sram_pays_one_access.

(* ---- which entries a cost setting selects, as /repo has it now (coq/gen/ExtractGen.v, regenerated on every run) ---- *)
Close Scope Q_scope.
Theorem C19_extract_translation_ok : ExtractGen.extract_translation_ok = true.
Proof. exact ExtractLink.link_extract_ok. Qed.
(* an EMPTY class rule selects nothing (it does not fall through to the default rule); a class rule beats the default; without a class
   rule the default rule applies *)
Theorem C19_code_empty_class_rule_selects_nothing : forall setting cls, In (cls, []) setting -> NoDup (map fst setting) ->
  ExtractGen.gen_keys_for setting cls = [].
Proof. intros. rewrite ExtractLink.link_keys_for. apply Energy.empty_class_rule_selects_nothing; assumption. Qed.
Print Assumptions C19_code_empty_class_rule_selects_nothing.
Theorem C19_code_class_rule_beats_default : forall setting cls ks, In (cls, ks) setting -> NoDup (map fst setting) ->
  ExtractGen.gen_keys_for setting cls = ks.
Proof. intros. rewrite ExtractLink.link_keys_for. apply Energy.class_rule_beats_default; assumption. Qed.
Print Assumptions C19_code_class_rule_beats_default.
Theorem C19_code_no_class_rule_uses_default : forall setting cls, ~ In cls (map fst setting) ->
  ExtractGen.gen_keys_for setting cls = Energy.dget setting "default"%string [].
Proof. intros. rewrite ExtractLink.link_keys_for. apply Energy.no_class_rule_uses_default; assumption. Qed.
Print Assumptions C19_code_no_class_rule_uses_default.

(* Property C14 -- exported quantized weights equal the inference weights and rebuild from the
   hardware form.  Statements only; proofs in Export/Export.v.  The tensor type, the layer
   functions, the number of layers and weights, every weight value, scale and batch-norm
   statistic are inside the forall. *)
From Coq Require Import ZArith QArith List.
From QV Require Import Base.ZQ Base.FL Quant.Fixed Quant.Po2 Quant.AutoScale Export.Export Export.Book Link.ExportLink.
From QVGen Require Import ExportGen.
Import ListNotations.

(* every quantized layer holds exactly its quantizer applied once to its previous weights *)
Theorem C14_layer_holds_quantizer_of_previous_weights :
  forall (T : Type) (qs : list (quantizer T)) (ws : list T) (i : nat) (d : T),
  length qs = length ws -> (i < length ws)%nat ->
  nth i (export qs ws) d = applyq (nth i qs None) (nth i ws d).
Proof. exact export_nth. Qed.
Print Assumptions C14_layer_holds_quantizer_of_previous_weights.

(* data-independent (idempotent) quantizers: predictions unchanged, second export changes nothing *)
Theorem C14_export_keeps_predictions :
  forall (T V : Type) (m : list (qlayer T V)) (x : V),
  data_independent T V m -> predict T V (export_model T V m) x = predict T V m x.
Proof. exact export_keeps_predictions. Qed.
Print Assumptions C14_export_keeps_predictions.

Theorem C14_second_export_changes_nothing :
  forall (T V : Type) (m : list (qlayer T V)),
  data_independent T V m -> export_model T V (export_model T V m) = export_model T V m.
Proof. exact second_export_changes_nothing. Qed.
Print Assumptions C14_second_export_changes_nothing.

(* ... instantiated: any chain of layers whose quantizers are fixed-point quantized_bits (C02 model) *)
Theorem C14_fixed_point_models :
  forall (V : Type) (m : list (qlayer (list rat) V)),
  Forall (fun l => Forall (fun q => q = None \/ exists c, (0 < qb_ub c)%Z /\ q = Some (qb_tensor c)) (ql_qs _ _ l)) m ->
  (forall x, predict _ _ (export_model _ _ m) x = predict _ _ m x) /\
  export_model _ _ (export_model _ _ m) = export_model _ _ m.
Proof. exact fixed_point_model_export. Qed.
Print Assumptions C14_fixed_point_models.

(* +-1 binary and ternary weights (constant scale 1) are re-quantized to themselves; the 0/1 binary is not (known finding) *)
Theorem C14_binary_pm1_weights_idempotent : forall x, bin_val false (bin_val false x) = bin_val false x.
Proof. exact binary_pm1_idempotent. Qed.
Print Assumptions C14_binary_pm1_weights_idempotent.
Theorem C14_ternary_weights_idempotent : forall thr x, (0 < rnum thr)%Z -> (0 < rden thr)%Z -> (rnum thr <= rden thr)%Z ->
  tern_val thr (tern_val thr x) = tern_val thr x.
Proof. exact ternary_idempotent. Qed.
Print Assumptions C14_ternary_weights_idempotent.
Theorem C14_binary_01_weights_refuted : exists x, bin_val true (bin_val true x) <> bin_val true x.
Proof. exact binary_01_not_idempotent. Qed.
Print Assumptions C14_binary_01_weights_refuted.

(* power-of-two layers: sign * 2^exponent = stored weight, for every output of the C03 quantizer models *)
Theorem C14_po2_tuple_rebuilds_weight :
  forall c x, po2_val (hw_po2 (po2_val (po2_q c x))) = po2_val (po2_q c x).
Proof. exact po2_tuple_rebuilds_weight. Qed.
Print Assumptions C14_po2_tuple_rebuilds_weight.
Theorem C14_relu_po2_tuple_rebuilds_weight :
  forall c x, po2_val (hw_po2 (po2_val (rpo2_q c x))) = po2_val (rpo2_q c x).
Proof. exact rpo2_tuple_rebuilds_weight. Qed.
Print Assumptions C14_relu_po2_tuple_rebuilds_weight.
Theorem C14_po2_tuple_is_sign_and_exponent :
  forall s e, (s = 1 \/ s = -1)%Z -> hw_po2 (po2_val (s, e)) = (s, e).
Proof. exact po2_split. Qed.
Print Assumptions C14_po2_tuple_is_sign_and_exponent.

(* auto_po2 fixed point: scale * integer weight = stored weight; the integer is the code, inside the bit range *)
Theorem C14_auto_po2_scale_times_integer_is_weight :
  forall S m mi w : Q, ~ S == 0 -> ~ m == 0 -> ~ mi == 0 ->
  let t := hw_auto S m mi w in snd t * fst t == w.
Proof. exact auto_split_rebuilds. Qed.
Print Assumptions C14_auto_po2_scale_times_integer_is_weight.
Theorem C14_auto_po2_integer_weight_is_the_code :
  forall (S m mi : Q) (z : Z), ~ S == 0 -> ~ m == 0 -> ~ mi == 0 ->
  fst (hw_auto S m mi (auto_weight S m mi z)) == inject_Z z.
Proof. exact auto_split_integer. Qed.
Print Assumptions C14_auto_po2_integer_weight_is_the_code.
Theorem C14_auto_po2_integer_in_bit_range :
  forall bits z, (1 <= bits)%Z -> (Z.abs z <= qba_top bits)%Z -> (- 2 ^ (bits - 1) < z < 2 ^ (bits - 1))%Z.
Proof. exact auto_split_in_range. Qed.
Print Assumptions C14_auto_po2_integer_in_bit_range.

(* batch-norm fusing terms: the batch-norm algebra on the (quantized) parameters, for every output y *)
Theorem C14_bn_fusing_terms :
  forall gamma beta mu r b y : Q,
  gamma * ((y + b) - mu) * r + beta == bn_inv gamma r * y + fused_bias (bn_inv gamma r) b beta mu.
Proof. exact bn_fuse_algebra. Qed.
Print Assumptions C14_bn_fusing_terms.
Theorem C14_bn_fusing_terms_quantized_inverse :
  forall (qi : Q -> Q) (gamma beta mu r b y : Q),
  let inv := qi (bn_inv gamma r) in inv * ((y + b) - mu) + beta == inv * y + fused_bias inv b beta mu.
Proof. exact bn_fuse_algebra_quantized_inv. Qed.
Print Assumptions C14_bn_fusing_terms_quantized_inverse.

(* non-vacuity: a two-layer fixed-point chain meets the hypothesis; a concrete auto_po2 tuple *)
Example C14_nonvacuous_chain :
  let q := Some (qb_tensor (QB 4 0 true true)) in
  let m := [QL (list rat) (list rat) [q; None] [[(3, 7); (-5, 4)]; [(1, 3)]] (fun ws x => hd x ws);
            QL (list rat) (list rat) [q] [[(9, 16)]] (fun ws x => x ++ hd [] ws)] in
  predict _ _ (export_model _ _ m) [] = predict _ _ m [] /\ predict _ _ m [] <> [].
Proof. cbn zeta. split; [|vm_compute; discriminate].
  assert (Q4 : forall q, q = Some (qb_tensor (QB 4 0 true true)) ->
               q = None \/ exists c, (0 < qb_ub c)%Z /\ q = Some (qb_tensor c)).
  { intros q ->. right. exists (QB 4 0 true true). split; reflexivity. }
  apply fixed_point_model_export.
  constructor; [|constructor; [|constructor]]; cbn [ql_qs].
  - constructor; [apply Q4; reflexivity|]. constructor; [left; reflexivity | constructor].
  - constructor; [apply Q4; reflexivity | constructor]. Qed.
Example C14_nonvacuous_auto :
  let t := hw_auto (1#2) 32 2 (auto_weight (1#2) 32 2 (-3)) in fst t == -3 /\ snd t == 1#32 /\ snd t * fst t == -(3#32).
Proof. cbn zeta. repeat split; vm_compute; reflexivity. Qed.

(* ---- the bookkeeping of the export loop as /repo has it now (coq/gen/ExportGen.v, regenerated from utils.py on every run) ---- *)
Theorem C14_export_translation_ok : export_translation_ok = true.
Proof. exact link_export_ok. Qed.
(* whatever quantizers a layer has -- any number, any kinds, in any order -- entry i of the stored weights, of `signs`, of `scales`
   and of the hardware weights describes weight i *)
Theorem C14_code_export_lists_describe_the_weights_in_order : forall ks,
  let b := run gen_effect ks in
  b_w b = map wtag_of ks /\ b_s b = map stag_of ks /\ b_c b = map ctag_of ks /\ b_h b = map htag_of ks.
Proof. intros ks. cbv zeta. rewrite link_export_run. apply export_lists_describe_the_weights_in_order. Qed.
Print Assumptions C14_code_export_lists_describe_the_weights_in_order.
Theorem C14_code_export_lists_aligned : forall ks,
  let b := run gen_effect ks in
  length (b_w b) = length ks /\ length (b_s b) = length ks /\ length (b_c b) = length ks /\ length (b_h b) = length ks.
Proof. intros ks. cbv zeta. rewrite link_export_run. apply export_lists_aligned. Qed.
Print Assumptions C14_code_export_lists_aligned.
Theorem C14_code_export_entry_at_its_index : forall ks i k, nth_error ks i = Some k ->
  let b := run gen_effect ks in
  nth_error (b_w b) i = Some (wtag_of k) /\ nth_error (b_s b) i = Some (stag_of k) /\
  nth_error (b_c b) i = Some (ctag_of k) /\ nth_error (b_h b) i = Some (htag_of k).
Proof. intros ks i k H. cbv zeta. rewrite link_export_run. apply export_entry_at. exact H. Qed.
Print Assumptions C14_code_export_entry_at_its_index.
(* signs are returned iff some weight of the layer is a signed power of two, scales iff some weight has an auto power-of-two scale:
   the flags are raised, never reset by a later weight *)
Theorem C14_code_export_flags : forall ks,
  b_sign (run gen_effect ks) = existsb is_signed_po2 ks /\ b_scale (run gen_effect ks) = existsb is_auto ks.
Proof. intros ks. rewrite link_export_run. apply export_flags. Qed.
Print Assumptions C14_code_export_flags.
(* the two slips the statement excludes, refuted on the model: skipping the entries of unquantized weights, re-assigning the flag *)
Theorem C14_skipping_unquantized_entries_refuted :
  exists ks i, nth_error ks i = Some KPo2 /\ nth_error (b_s (run effect_skip_unquantized ks)) i <> Some SSign.
Proof. exact skipping_unquantized_entries_misaligns. Qed.
Theorem C14_reassigning_the_sign_flag_refuted :
  exists ks, existsb is_signed_po2 ks = true /\ b_sign (run effect_sign_reassigned ks) = false.
Proof. exact reassigning_the_sign_flag_loses_signs. Qed.

(* Property C12 -- model_quantize converts exactly what the configuration names and
   nothing else.  Statements only; proofs in Convert/ModelQuantize.v.  All statements are
   for every layer list and every dictionary. *)
From Coq Require Import String List Bool.
From QV Require Import Convert.ModelQuantize Convert.Adaptive Convert.Relu.
From QVGen Require Import ConvertGen.
From QV Require Import Link.ConvertLink.
From QV Require Import Convert.ReluBranch Link.ReluLink.
From QVGen Require Import ReluGen.
Import ListNotations.
Open Scope string_scope.

Theorem C12_topology_and_names_preserved : forall d bits m, map l_name (convert_model d bits m) = map l_name m.
Proof. exact topology_preserved. Qed.
Print Assumptions C12_topology_and_names_preserved.

Theorem C12_unselected_layer_unchanged : forall d bits l, mem (l_cls l) weight_classes = true ->
  lookup d (l_name l) ("Q" ++ l_cls l) "kernel_quantizer" = None -> convert d bits l = l.
Proof. exact unselected_weight_layer_unchanged. Qed.
Print Assumptions C12_unselected_layer_unchanged.

Theorem C12_unknown_class_unchanged : forall d bits l,
  mem (l_cls l) weight_classes = false -> String.eqb (l_cls l) "DepthwiseConv2D" = false ->
  String.eqb (l_cls l) "Activation" = false -> mem (l_cls l) pool_classes = false -> convert d bits l = l.
Proof. exact unknown_class_unchanged. Qed.
Print Assumptions C12_unknown_class_unchanged.

Theorem C12_empty_dictionary_changes_nothing : forall bits m, convert_model [] bits m = m.
Proof. exact empty_dictionary_changes_nothing. Qed.
Print Assumptions C12_empty_dictionary_changes_nothing.

Theorem C12_selected_layer_becomes_quantized_counterpart : forall d bits l kq,
  mem (l_cls l) weight_classes = true ->
  lookup d (l_name l) ("Q" ++ l_cls l) "kernel_quantizer" = Some kq ->
  let l' := convert d bits l in
  l_cls l' = "Q" ++ l_cls l /\ l_name l' = l_name l /\ l_kq l' = Some kq /\
  l_bq l' = (if l_use_bias l then lookup d (l_name l) ("Q" ++ l_cls l) "bias_quantizer" else None).
Proof. exact selected_weight_layer. Qed.
Print Assumptions C12_selected_layer_becomes_quantized_counterpart.

Theorem C12_biasless_layer_gets_no_bias_quantizer : forall d bits l,
  l_use_bias l = false -> l_bq l = None -> l_bq (convert d bits l) = None.
Proof. exact biasless_layer_gets_no_bias_quantizer. Qed.
Print Assumptions C12_biasless_layer_gets_no_bias_quantizer.

Theorem C12_name_entry_beats_class_entry : forall d name cls param e,
  assoc name d = Some e -> lookup d name cls param = assoc param e.
Proof. exact name_entry_beats_class_entry. Qed.
Print Assumptions C12_name_entry_beats_class_entry.

Theorem C12_class_entry_used_without_name_entry : forall d name cls param,
  assoc name d = None -> lookup d name cls param = match assoc cls d with Some e => assoc param e | None => None end.
Proof. exact class_entry_used_without_name_entry. Qed.
Print Assumptions C12_class_entry_used_without_name_entry.

Theorem C12_activation_map : forall bits,
  quantize_activation (Some "relu") bits = Some ("quantized_relu(" ++ bits ++ ")") /\
  quantize_activation (Some "tanh") bits = Some ("quantized_tanh(" ++ bits ++ ")") /\
  quantize_activation (Some "sigmoid") bits = Some ("quantized_sigmoid(" ++ bits ++ ")") /\
  quantize_activation (Some "softmax") bits = Some "softmax" /\
  quantize_activation (Some "linear") bits = Some "linear" /\ quantize_activation None bits = None.
Proof. exact activation_map. Qed.
Print Assumptions C12_activation_map.

Example C12_nonvacuous :
  let d := [("QDense", [("kernel_quantizer", "quantized_bits(4,0,1)"); ("bias_quantizer", "quantized_bits(4)")]);
            ("d2", [("kernel_quantizer", "ternary()")])] in
  map render_layer (convert_model d "6" [L "Dense" "d1" true (Some "relu") None None; L "Dense" "d2" false (Some "softmax") None None;
                                         L "Flatten" "f" false None None None]) =
  ["QDense|d1|quantized_relu(6)|quantized_bits(4,0,1)|quantized_bits(4)"; "QDense|d2|softmax|ternary()|<none>"; "Flatten|f|<none>|<none>|<none>"].
Proof. vm_compute. reflexivity. Qed.

(* ---- tie to the source (T): the dictionary lookup and the activation map regenerated from qkeras/utils.py on this run
   are, for all dictionaries / names / strings, the functions the theorems above are about ---- *)
Theorem C12_source_lookup_is_the_model : forall d name cls param,
  translation_ok = true /\ gen_lookup d name cls param = lookup d name cls param.
Proof. intros. split; [exact link_convert_ok | apply link_lookup]. Qed.
Print Assumptions C12_source_lookup_is_the_model.
Theorem C12_source_activation_map_is_the_model : forall act bits,
  gen_quantize_activation act bits = quantize_activation act bits.
Proof. exact link_quantize_activation. Qed.
Print Assumptions C12_source_activation_map_is_the_model.

(* ---- the Activation branch in full (Convert/Adaptive.v): QActivation and QAdaptiveActivation entries, prefer_qadaptiveactivation ---- *)
(* a dictionary without a QAdaptiveActivation class entry: the default call is exactly the function of the theorems above *)
Theorem C12_full_conversion_is_conservative : forall d bits m, assoc "QAdaptiveActivation" d = None ->
  convert_model_full false d bits m = convert_model d bits m.
Proof. exact convert_model_full_conservative. Qed.
Print Assumptions C12_full_conversion_is_conservative.
Theorem C12_full_topology_preserved : forall prefer d bits m, map l_name (convert_model_full prefer d bits m) = map l_name m.
Proof. exact topology_preserved_full. Qed.
Print Assumptions C12_full_topology_preserved.
(* an Activation layer no entry applies to is left exactly as it was, whatever the preference *)
Theorem C12_activation_unselected_unchanged : forall prefer d bits l,
  find_entry d (l_name l) "QActivation" = None -> find_entry d (l_name l) "QAdaptiveActivation" = None ->
  convert_activation_full prefer d bits l = (l, None).
Proof. exact full_unselected_unchanged. Qed.
Print Assumptions C12_activation_unselected_unchanged.
(* prefer_qadaptiveactivation only matters when both kinds of entry apply to the layer *)
Theorem C12_preference_irrelevant_without_both : forall d bits l,
  find_entry d (l_name l) "QActivation" = None \/ find_entry d (l_name l) "QAdaptiveActivation" = None ->
  convert_activation_full true d bits l = convert_activation_full false d bits l.
Proof. exact preference_irrelevant_without_both. Qed.
Print Assumptions C12_preference_irrelevant_without_both.
(* an adaptive entry is split into the bare quantizer name and its digits (total_bits) *)
Theorem C12_adaptive_entry_split : forall d bits l s, find_entry d (l_name l) "QActivation" = None ->
  find_entry d (l_name l) "QAdaptiveActivation" = Some [("", s)] -> s <> "" ->
  convert_activation_full false d bits l =
    (L "QAdaptiveActivation" (l_name l) (l_use_bias l) (Some (strip_params s)) None None, Some (digits s)).
Proof. exact adaptive_entry_split. Qed.
Print Assumptions C12_adaptive_entry_split.
(* configurations model_quantize rejects (assertion: an adaptive entry with parameters): never without an adaptive entry being found *)
Theorem C12_no_adaptive_no_rejection : forall d m, assoc "QAdaptiveActivation" d = None ->
  (forall l, In l m -> assoc (l_name l) d = None \/ find_entry d (l_name l) "QActivation" <> None) ->
  model_rejected false d m = false.
Proof. exact no_adaptive_no_rejection. Qed.
Print Assumptions C12_no_adaptive_no_rejection.

(* ---- the ReLU-layer branch (Convert/Relu.v): Keras ReLU layers looked up under their name, then under QActivation ---- *)
Theorem C12_relu_branch_is_conservative : forall prefer d bits m, forallb (fun l => negb (String.eqb (l_cls l) "ReLU")) m = true ->
  convert_model_all prefer d bits m = convert_model_full prefer d bits m.
Proof. exact convert_model_all_conservative. Qed.
Print Assumptions C12_relu_branch_is_conservative.
Theorem C12_all_topology_preserved : forall prefer d bits m, map l_name (convert_model_all prefer d bits m) = map l_name m.
Proof. exact topology_preserved_all. Qed.
Print Assumptions C12_all_topology_preserved.
Theorem C12_relu_unselected_unchanged : forall d l, find_entry d (l_name l) "QActivation" = None -> convert_relu d l = l.
Proof. exact relu_unselected_unchanged. Qed.
Print Assumptions C12_relu_unselected_unchanged.
(* which key of a per-activation map applies is decided by the sign of the layer's slope: a map without a "leakyrelu" entry leaves
   every ReLU layer with a positive negative_slope untouched, a map without a "relu" entry every plain one *)
Theorem C12_relu_map_entry_selects_by_slope : forall d l e pos, find_entry d (l_name l) "QActivation" = Some e -> assoc "" e = None ->
  l_act l = Some (relu_key pos) -> nonempty (assoc (relu_key pos) e) = None -> convert_relu d l = l.
Proof. exact relu_map_entry_selects_by_slope. Qed.
Print Assumptions C12_relu_map_entry_selects_by_slope.
Theorem C12_relu_map_entry_converts : forall d l e pos s, find_entry d (l_name l) "QActivation" = Some e -> assoc "" e = None ->
  l_act l = Some (relu_key pos) -> nonempty (assoc (relu_key pos) e) = Some s ->
  convert_relu d l = L "QActivation" (l_name l) (l_use_bias l) (Some s) None None.
Proof. exact relu_map_entry_converts. Qed.
Print Assumptions C12_relu_map_entry_converts.
Theorem C12_relu_string_entry_converts : forall d l e s, find_entry d (l_name l) "QActivation" = Some e -> assoc "" e = Some s -> s <> "" ->
  convert_relu d l = L "QActivation" (l_name l) (l_use_bias l) (Some s) None None.
Proof. exact relu_string_entry_converts. Qed.
Print Assumptions C12_relu_string_entry_converts.
Theorem C12_relu_ignores_adaptive_entries : forall d l e, l_name l <> "QAdaptiveActivation" ->
  assoc (l_name l) d = None -> assoc "QActivation" d = None -> convert_relu (("QAdaptiveActivation", e) :: d) l = l.
Proof. exact relu_ignores_adaptive_entries. Qed.
Print Assumptions C12_relu_ignores_adaptive_entries.

(* ---- the ReLU-layer branch as /repo has it now (coq/gen/ReluGen.v, regenerated on every run by tools/translate/relugen.py) ---- *)
Theorem C12_relu_translation_ok : relu_translation_ok = true.
Proof. exact link_relu_ok. Qed.
(* for every dictionary, every Keras ReLU layer and either sign of its slope the code's outcome is convert_relu *)
Theorem C12_source_relu_branch_is_the_model : forall d l pos, l_act l = Some (relu_key pos) ->
  realise d l pos (gen_relu_branch CReLU pos (classify d l pos)) = Some (convert_relu d l).
Proof. exact link_relu_branch. Qed.
Print Assumptions C12_source_relu_branch_is_the_model.
Theorem C12_source_relu_slope_is_read_from_negative_slope : gen_relu_slope_key CReLU = "negative_slope".
Proof. exact link_relu_slope_key. Qed.
(* the known finding, stated about the regenerated code: a LeakyReLU layer is never converted (the branch raises a KeyError) *)
Theorem C12_source_leakyrelu_never_converted : forall c pos e a, (c = CLeaky3 \/ c = CLeaky2) -> gen_relu_branch c pos e <> OConverted a.
Proof. exact link_leakyrelu_never_converted. Qed.
Print Assumptions C12_source_leakyrelu_never_converted.

(* AutoQ/Forgiving.v -- C20: ForgivingFactor.delta (forgiving_factor.py:40-47) over the real
   numbers (Coq's Reals: the real-number axioms are the only assumptions, see Print Assumptions),
   and an executable sign / order model over Q used by the correspondence runs. *)
From Coq Require Import Reals Lra QArith.
Open Scope R_scope.

(* np.where(trial < reference, delta_p * log(ref/trial)/log(rate), delta_n * log(ref/trial)/log(rate)) *)
Definition delta (dp dn rate ref trial : R) : R :=
  if Rlt_dec trial ref then dp * (ln (ref / trial) / ln rate) else dn * (ln (ref / trial) / ln rate).

Section Delta.
  Variables dp dn rate ref : R.
  Hypothesis Hdp : 0 < dp.
  Hypothesis Hdn : 0 < dn.
  Hypothesis Hrate : 1 < rate.
  Hypothesis Href : 0 < ref.

  Lemma ln_rate_pos : 0 < ln rate.
  Proof. rewrite <- ln_1. apply ln_increasing; lra. Qed.

  Lemma ratio_decreasing t1 t2 : 0 < t1 -> t1 < t2 -> ref / t2 < ref / t1.
  Proof. intros H1 H2. unfold Rdiv. apply Rmult_lt_compat_l; [exact Href|].
    apply Rinv_lt_contravar; [apply Rmult_lt_0_compat; lra | exact H2]. Qed.

  Lemma ratio_pos t : 0 < t -> 0 < ref / t.
  Proof. intros H. unfold Rdiv. apply Rmult_lt_0_compat; [exact Href | apply Rinv_0_lt_compat; exact H]. Qed.

  Definition lg (t : R) : R := ln (ref / t) / ln rate.

  Lemma lg_decreasing t1 t2 : 0 < t1 -> t1 < t2 -> lg t2 < lg t1.
  Proof. intros H1 H2. unfold lg, Rdiv at 1 3. apply Rmult_lt_compat_r; [apply Rinv_0_lt_compat; apply ln_rate_pos|].
    apply ln_increasing; [apply ratio_pos; lra | apply ratio_decreasing; assumption]. Qed.

  Lemma lg_ref : lg ref = 0.
  Proof. unfold lg. replace (ref / ref) with 1 by (field; lra). rewrite ln_1. unfold Rdiv. ring. Qed.

  Lemma lg_pos t : 0 < t -> t < ref -> 0 < lg t.
  Proof. intros H1 H2. rewrite <- lg_ref. apply lg_decreasing; assumption. Qed.
  Lemma lg_neg t : ref < t -> lg t < 0.
  Proof. intros H. rewrite <- lg_ref. apply lg_decreasing; assumption. Qed.

  (* zero when trial and reference sizes coincide *)
  Theorem delta_zero_at_reference : delta dp dn rate ref ref = 0.
  Proof. unfold delta. destruct (Rlt_dec ref ref); [lra|]. fold (lg ref). rewrite lg_ref. ring. Qed.

  (* positive for smaller trials, negative for larger ones *)
  Theorem delta_positive_for_smaller t : 0 < t -> t < ref -> 0 < delta dp dn rate ref t.
  Proof. intros H1 H2. unfold delta. destruct (Rlt_dec t ref); [|lra]. fold (lg t).
    apply Rmult_lt_0_compat; [exact Hdp | apply lg_pos; assumption]. Qed.
  Theorem delta_negative_for_larger t : ref < t -> delta dp dn rate ref t < 0.
  Proof. intros H. unfold delta. destruct (Rlt_dec t ref); [lra|]. fold (lg t).
    pose proof (lg_neg t H). nra. Qed.

  (* strictly decreasing in the trial size, across the whole positive axis (both branches and the switch) *)
  Theorem delta_strictly_decreasing t1 t2 : 0 < t1 -> t1 < t2 -> delta dp dn rate ref t2 < delta dp dn rate ref t1.
  Proof. intros H1 H2. pose proof (lg_decreasing t1 t2 H1 H2) as D.
    unfold delta. fold (lg t1) (lg t2).
    destruct (Rlt_dec t2 ref) as [A|A]; destruct (Rlt_dec t1 ref) as [B|B]; try lra.
    - apply Rmult_lt_compat_l; assumption.
    - (* t1 < ref <= t2 *)
      pose proof (lg_pos t1 H1 B) as P1.
      assert (N2 : lg t2 <= 0).
      { destruct (Req_dec t2 ref) as [E|E]; [rewrite E, lg_ref; lra | apply Rlt_le, lg_neg; lra]. }
      nra.
    - apply Rmult_lt_compat_l; assumption.
  Qed.
End Delta.

(* ---------- executable sign / order model (rational sizes and parameters) ---------- *)
Open Scope Q_scope.
(* sign of delta: +1, 0, -1, for delta_p, delta_n > 0 and rate > 1 *)
Definition delta_sign (ref trial : Q) : Z :=
  match Qcompare trial ref with Lt => 1%Z | Eq => 0%Z | Gt => (-1)%Z end.
(* order of two deltas for the same reference: compare (delta t1) (delta t2) *)
Definition delta_order (t1 t2 : Q) : comparison :=
  match Qcompare t1 t2 with Lt => Gt | Eq => Eq | Gt => Lt end.

From Coq Require Import Qreals.
(* the executable sign model agrees with the real-valued delta *)
Theorem delta_sign_sound (dp dn rate : R) (ref trial : Q) :
  (0 < dp)%R -> (0 < dn)%R -> (1 < rate)%R -> 0 < ref -> 0 < trial ->
  match delta_sign ref trial with
  | 1%Z => (0 < delta dp dn rate (Q2R ref) (Q2R trial))%R
  | 0%Z => delta dp dn rate (Q2R ref) (Q2R trial) = 0%R
  | _ => (delta dp dn rate (Q2R ref) (Q2R trial) < 0)%R
  end.
Proof. intros Hp Hn Hr Href Ht.
  assert (R0 : (0 < Q2R ref)%R) by (replace 0%R with (Q2R 0) by (unfold Q2R; cbn; lra); apply Qlt_Rlt; exact Href).
  assert (T0 : (0 < Q2R trial)%R) by (replace 0%R with (Q2R 0) by (unfold Q2R; cbn; lra); apply Qlt_Rlt; exact Ht).
  unfold delta_sign. destruct (Qcompare trial ref) eqn:C.
  - apply Qeq_alt in C. apply Qeq_eqR in C. rewrite C. apply delta_zero_at_reference; assumption.
  - apply Qlt_alt in C. apply Qlt_Rlt in C. apply delta_positive_for_smaller; assumption.
  - apply Qgt_alt in C. apply Qlt_Rlt in C. apply delta_negative_for_larger; assumption.
Qed.

Theorem delta_order_sound (dp dn rate : R) (ref t1 t2 : Q) :
  (0 < dp)%R -> (0 < dn)%R -> (1 < rate)%R -> 0 < ref -> 0 < t1 -> 0 < t2 ->
  match delta_order t1 t2 with
  | Gt => (delta dp dn rate (Q2R ref) (Q2R t2) < delta dp dn rate (Q2R ref) (Q2R t1))%R
  | Lt => (delta dp dn rate (Q2R ref) (Q2R t1) < delta dp dn rate (Q2R ref) (Q2R t2))%R
  | Eq => delta dp dn rate (Q2R ref) (Q2R t1) = delta dp dn rate (Q2R ref) (Q2R t2)
  end.
Proof. intros Hp Hn Hr Href H1 H2.
  assert (R0 : (0 < Q2R ref)%R) by (replace 0%R with (Q2R 0) by (unfold Q2R; cbn; lra); apply Qlt_Rlt; exact Href).
  assert (A1 : (0 < Q2R t1)%R) by (replace 0%R with (Q2R 0) by (unfold Q2R; cbn; lra); apply Qlt_Rlt; exact H1).
  assert (A2 : (0 < Q2R t2)%R) by (replace 0%R with (Q2R 0) by (unfold Q2R; cbn; lra); apply Qlt_Rlt; exact H2).
  unfold delta_order. destruct (Qcompare t1 t2) eqn:C.
  - apply Qeq_alt in C. apply Qeq_eqR in C. rewrite C. reflexivity.
  - apply Qlt_alt in C. apply Qlt_Rlt in C. apply delta_strictly_decreasing; assumption.
  - apply Qgt_alt in C. apply Qlt_Rlt in C. apply delta_strictly_decreasing; assumption.
Qed.

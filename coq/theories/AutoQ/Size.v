(* AutoQ/Size.v -- C20: ForgivingFactorBits._param_size / _act_size / compute_model_size
   (forgiving_bits.py:40-175) on layer descriptors: each tensor's element count times the
   bits of the quantizer applied to it, the reference width where none is applied. *)
From Coq Require Import ZArith List Bool Lia.
Import ListNotations.
Open Scope Z_scope.

(* activation of a weighted / activation layer as the size model sees it *)
Inductive sact := SNone | SLinear | SSoftmax | SSigmoid | SQuant (bits : option Z) | SPlainNonlinear.
Inductive skind :=
| SInput                                   (* InputLayer *)
| SPlain                                   (* Dense, Conv2D, Conv1D, DepthwiseConv2D *)
| SQuantized                               (* QDense, QConv2D, QConv1D, QDepthwiseConv2D *)
| SActivation                              (* QActivation, Activation *)
| SBatchNorm (center : bool) | SQBatchNorm (center : bool)
| SOther.
Record slayer := SL {
  sl_kind : skind;
  sl_weights : list (Z * option Z);        (* element count, bits of the quantizer applied (None = no quantizer) *)
  sl_out : Z;                              (* elements of the output tensor, batch excluded *)
  sl_act : sact;
  sl_params : bool; sl_acts : bool }.      (* "parameters" / "activations" in the layer's config entry *)

Record widths := W { w_in : Z; w_out : Z; w_ref : Z }.

Definition bits_or (ref : Z) (o : option Z) : Z := match o with Some b => b | None => ref end.
Fixpoint wsum (ref : Z) (ws : list (Z * option Z)) : Z :=
  match ws with [] => 0 | (n, b) :: r => bits_or ref b * n + wsum ref r end.

Definition param_size (w : widths) (l : slayer) : Z :=
  match sl_kind l with
  | SPlain => wsum (w_ref w) (map (fun p => (fst p, None)) (sl_weights l))
  | SQuantized => wsum (w_ref w) (sl_weights l)
  | SBatchNorm c => (* scale slot sized like the last weight; centre like weight [scale?] *)
      match rev (sl_weights l) with [] => 0 | (n, _) :: _ => w_ref w * n + (if c then w_ref w * n else 0) end
  | SQBatchNorm c =>
      match rev (sl_weights l) with [] => 0 | (n, _) :: _ => 6 * n + (if c then 5 * n else 0) end
  | _ => 0
  end.

Definition act_size (w : widths) (l : slayer) : Z :=
  match sl_kind l with
  | SInput => w_in w * sl_out l
  | SPlain => match sl_act l with SNone | SLinear => 0 | _ => w_ref w * sl_out l end
  | SQuantized =>
      match sl_act l with
      | SNone => 0 | SLinear => 0
      | SSoftmax => w_out w * sl_out l
      | SQuant b => bits_or (w_ref w) b * sl_out l
      | _ => w_ref w * sl_out l
      end
  | SActivation =>
      match sl_act l with
      | SLinear => 0
      | SSoftmax | SSigmoid => w_out w * sl_out l
      | SQuant b => bits_or (w_ref w) b * sl_out l
      | _ => w_ref w * sl_out l
      end
  | _ => 0
  end.

Definition layer_total (w : widths) (l : slayer) : Z :=
  (if sl_params l then param_size w l else 0) + (if sl_acts l then act_size w l else 0).
Fixpoint model_size (w : widths) (m : list slayer) : Z :=
  match m with [] => 0 | l :: r => layer_total w l + model_size w r end.

(* ---------- the size counts elements times bits ---------- *)
Theorem quantized_param_size_is_elements_times_bits w ws out a p c :
  param_size w (SL SQuantized ws out a p c) = wsum (w_ref w) ws.
Proof. reflexivity. Qed.
Theorem wsum_cons ref n b r : wsum ref ((n, b) :: r) = bits_or ref b * n + wsum ref r.
Proof. reflexivity. Qed.
Theorem unquantized_tensor_counts_reference_width ref n : wsum ref [(n, None)] = ref * n.
Proof. cbn. lia. Qed.

(* ---------- narrower quantizers never make the model larger ---------- *)
Inductive ws_le (ref : Z) : list (Z * option Z) -> list (Z * option Z) -> Prop :=
| wl_nil : ws_le ref [] []
| wl_cons n b b' r r' : 0 <= n -> bits_or ref b <= bits_or ref b' -> ws_le ref r r' -> ws_le ref ((n, b) :: r) ((n, b') :: r').

Lemma wsum_mono ref a b : ws_le ref a b -> wsum ref a <= wsum ref b.
Proof. intros H. induction H; cbn; [lia|]. nia. Qed.

Theorem narrower_weights_smaller_layer w ws ws' out a p c :
  ws_le (w_ref w) ws ws' ->
  layer_total w (SL SQuantized ws out a p c) <= layer_total w (SL SQuantized ws' out a p c).
Proof. intros H. unfold layer_total. cbn [sl_params sl_acts]. pose proof (wsum_mono _ _ _ H).
  destruct p; destruct c; cbn [param_size sl_kind sl_weights]; unfold act_size; cbn; lia. Qed.

Theorem narrower_activation_smaller_layer w ws out b b' p c : 0 <= out ->
  bits_or (w_ref w) b <= bits_or (w_ref w) b' ->
  layer_total w (SL SQuantized ws out (SQuant b) p c) <= layer_total w (SL SQuantized ws out (SQuant b') p c).
Proof. intros Ho H. unfold layer_total, act_size, param_size. cbn. destruct p; destruct c; nia. Qed.

Lemma model_size_mono w m m' :
  Forall2 (fun l l' => layer_total w l <= layer_total w l') m m' -> model_size w m <= model_size w m'.
Proof. intros H. induction H; cbn; lia. Qed.

(* rendering for the correspondence runs *)
Definition sizes (w : widths) (m : list slayer) : list Z :=
  model_size w m :: flat_map (fun l => [param_size w l; act_size w l]) m.

(* ---- activation descriptors as the CODE sees them (tools/translate/sizegen.py): what kind of Python object layer.activation is ---- *)
Inductive aname := NLinear | NSoftmax | NSigmoid | NOther.
Inductive adesc :=
| DNone                                   (* layer.activation is None *)
| DStr (n : aname)                        (* a plain activation given as a string *)
| DFunc (n : aname)                       (* a function object (has __name__, no bits) *)
| DQuantObj (bits : option Z)             (* a quantizer object (no __name__; bits when it has the attribute) *)
| DQuantStr (bits : option Z).            (* a quantizer given as a string (QActivation only): get_quantizer(text) *)
Inductive lkind := KInput | KPlain | KQuantized | KActivation | KOtherLayer.
Definition skind_of (k : lkind) : skind :=
  match k with KInput => SInput | KPlain => SPlain | KQuantized => SQuantized | KActivation => SActivation | KOtherLayer => SOther end.
Definition sact_of_name (n : aname) : sact :=
  match n with NLinear => SLinear | NSoftmax => SSoftmax | NSigmoid => SSigmoid | NOther => SPlainNonlinear end.
Definition sact_of (a : adesc) : sact :=
  match a with
  | DNone => SNone | DStr n => sact_of_name n | DFunc n => sact_of_name n
  | DQuantObj b => SQuant b | DQuantStr b => SQuant b
  end.
(* the size the model assigns to the output of a layer of kind k whose activation is described by a *)
Definition act_size_of (k : lkind) (a : adesc) (w : widths) (out : Z) : Z :=
  act_size w (SL (skind_of k) [] out (sact_of a) true true).

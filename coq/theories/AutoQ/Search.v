(* AutoQ/Search.v -- C20: AutoQKHyperModel._get_quantizer (autoqkeras_internal.py:199-325)
   and the selection part of quantize_model (327-561, tune_filters = "none") as a pure
   function of: the limit dictionary, the quantization configuration, the reference model's
   layer list, the table of re.match results, and a choice function standing for the tuner.
   Every hyper-parameter assignment reachable through hp.Choice / hp.Fixed is one `chooser`. *)
From Coq Require Import String List Bool ZArith Lia.
Import ListNotations.
Open Scope string_scope.

(* ---------- strings ---------- *)
Fixpoint prefixb (p s : string) : bool :=
  match p, s with
  | EmptyString, _ => true
  | String a p', String b s' => Ascii.eqb a b && prefixb p' s'
  | _, _ => false
  end.
Fixpoint contains (sub s : string) : bool :=      (* Python `sub in s` *)
  prefixb sub s || match s with EmptyString => false | String _ s' => contains sub s' end.

Fixpoint assoc {A} (k : string) (l : list (string * A)) : option A :=
  match l with [] => None | (k', v) :: r => if String.eqb k' k then Some v else assoc k r end.
Definition mem (x : string) (l : list string) : bool := existsb (String.eqb x) l.

(* ---------- configuration ---------- *)
Inductive lim := LNum (z : Z) | LList (l : list string).
Definition limits := list (string * list lim).              (* ordered: pattern / class name -> slots *)
Definition qconfig := list (string * list (string * Z)).    (* field -> quantizer name -> bits *)

Inductive field := FLinear | FKernel | FBias | FPointwise | FRecurrent | FRecAct | FAct.
Definition field_name (f : field) : string :=
  match f with FLinear => "linear" | FKernel => "kernel" | FBias => "bias" | FPointwise => "pointwise_kernel"
             | FRecurrent => "recurrent_kernel" | FRecAct => "recurrent_activation" | FAct => "activation" end.
(* slot in the limit list; -1 = last *)
Definition field_index (f : field) : Z :=
  match f with FLinear => 0 | FKernel => 0 | FBias => 1 | FPointwise => 2 | FRecurrent => 2 | FRecAct => -1 | FAct => -1 end.
(* the if / elif chain on `head` (lines 209-258), in source order *)
Definition field_of_head (is_linear : bool) (head : string) : field :=
  if is_linear then FLinear
  else if contains "kernel" head then FKernel
  else if contains "bias" head then FBias
  else if contains "pointwise_kernel" head then FPointwise
  else if contains "recurrent_kernel" head then FRecurrent
  else if contains "recurrent_activation" head then FRecAct
  else FAct.

(* role = head[len(layer_name):] if head.startswith(layer_name) else head   (since the fix: commit 35de18b) *)
Fixpoint strip_prefix (p s : string) : option string :=
  match p, s with
  | EmptyString, _ => Some s
  | String a p', String b s' => if Ascii.eqb a b then strip_prefix p' s' else None
  | _, _ => None
  end.
Definition role_of (layer_name head : string) : string :=
  match strip_prefix layer_name head with Some r => r | None => head end.
Definition role_field (is_linear : bool) (layer_name head : string) : field :=
  field_of_head is_linear (role_of layer_name head).

Definition slot (l : list lim) (i : Z) : option lim :=
  if (i <? 0)%Z then nth_error (rev l) (Z.to_nat (- i - 1)) else nth_error l (Z.to_nat i).

Lemma strip_prefix_app n r : strip_prefix n (n ++ r) = Some r.
Proof. induction n as [|a n IH]; [reflexivity|]. cbn. rewrite Ascii.eqb_refl. exact IH. Qed.
Lemma role_of_app n r : role_of n (n ++ r) = r.
Proof. unfold role_of. rewrite strip_prefix_app. reflexivity. Qed.

(* the role no longer depends on the layer name: whatever the name contains, the heads built by
   quantize_model (name ++ "_role") resolve to the role's own field *)
Theorem role_independent_of_layer_name (n : string) :
  role_field false n (n ++ "_kernel") = FKernel /\
  role_field false n (n ++ "_bias") = FBias /\
  role_field false n (n ++ "_activation") = FAct /\
  role_field false n (n ++ "_recurrent_activation") = FRecAct /\
  role_field true n (n ++ "_activation") = FLinear /\
  (* as in the source, "kernel" is tested first: the pointwise / recurrent kernels use the kernel field and slot 0 *)
  role_field false n (n ++ "_pointwise_kernel") = FKernel /\
  role_field false n (n ++ "_recurrent_kernel") = FKernel.
Proof. unfold role_field. rewrite !role_of_app. repeat split; reflexivity. Qed.

(* ---------- the tuner ---------- *)
(* hp.Choice(name, values) / hp.Fixed(name, value): any element of the list *)
Definition chooser := string -> list string -> string.
Definition legal (ch : chooser) : Prop := forall n l, l <> [] -> In (ch n l) l.

(* groups: pattern -> slot index -> (quantizer, bits) *)
Definition groups := list (string * Z * (string * Z)).
Fixpoint glookup (g : groups) (name : string) (i : Z) : option (string * Z) :=
  match g with
  | [] => None
  | (n, j, v) :: r => if String.eqb n name && (j =? i)%Z then Some v else glookup r name i
  end.

Inductive res := RNone | RSome (q : string) (bits : Z) | RError.

Section GetQuantizer.
  Variable lims : limits.
  Variable cfg : qconfig.
  Variable rematch : string -> string -> bool.        (* re.match(pattern, layer_name) is not None *)
  Variable ch : chooser.

  Fixpoint first_match (l : limits) (layer_name : string) : option string :=
    match l with
    | [] => None
    | (p, _) :: r => if rematch p layer_name then Some p else first_match r layer_name
    end.

  (* a fresh hp.Choice / hp.Fixed among the quantizers the slot allows; None = the Python code raises *)
  Definition fresh (slots : list lim) (f : field) (hp_name : string) : option (string * Z) :=
    let qd := match assoc (field_name f) cfg with Some d => d | None => [] end in
    match slot slots (field_index f) with
    | None => None                                             (* IndexError *)
    | Some lm =>
      let qdict :=
        match lm with
        | LList names => map (fun k => (k, assoc k qd)) names
        | LNum mx => map (fun kv : string * Z => (fst kv, Some (snd kv))) (filter (fun kv => (snd kv <=? mx)%Z) qd)
        end in
      if existsb (fun kv : string * option Z => match snd kv with None => true | Some _ => false end) qdict then None   (* KeyError *)
      else
        match map fst qdict with
        | [] => None                                           (* hp.Choice of an empty list *)
        | x :: xs =>
          let qn := ch hp_name (x :: xs) in
          match assoc qn qdict with Some (Some b) => Some (qn, b) | _ => None end
        end
    end.

  Definition get_quantizer (g : groups) (head layer_name class_name : string) (is_linear : bool) : res * groups :=
    let f := role_field is_linear layer_name head in
    match first_match lims layer_name with
    | Some p =>
      match assoc p lims with
      | None => (RError, g)                                    (* unreachable: a matched pattern is a key *)
      | Some slots =>
        match glookup g p (field_index f) with
        | Some (q, b) => (RSome q b, g)
        | None =>
          match fresh slots f (p ++ "_" ++ field_name f ++ "_quantizer") with
          | Some (q, b) => (RSome q b, (p, field_index f, (q, b)) :: g)
          | None => (RError, g)
          end
        end
      end
    | None =>
      match assoc class_name lims with
      | None => (RNone, g)
      | Some slots =>
        match fresh slots f (head ++ "_quantizer") with
        | Some (q, b) => (RSome q b, g)
        | None => (RError, g)
        end
      end
    end.

  (* what "within the limit" means for one slot: the quantizer comes from the configuration of a
     field that uses that slot, and obeys the slot (bits <= number, or member of the allowed list) *)
  Definition obeys (lm : lim) (q : string) (b : Z) : Prop :=
    match lm with LNum mx => (b <= mx)%Z | LList names => In q names end.
  Definition from_field (f : field) (q : string) (b : Z) : Prop :=
    exists d, assoc (field_name f) cfg = Some d /\ In (q, b) d.
  Definition slot_ok (name : string) (index : Z) (q : string) (b : Z) : Prop :=
    exists slots lm f, assoc name lims = Some slots /\ slot slots index = Some lm /\
      field_index f = index /\ from_field f q b /\ obeys lm q b.
  Definition groups_ok (g : groups) : Prop :=
    forall n i q b, glookup g n i = Some (q, b) -> slot_ok n i q b.

  Definition resolved (layer_name class_name : string) : string :=
    match first_match lims layer_name with Some p => p | None => class_name end.
End GetQuantizer.

Lemma assoc_In {A} k (l : list (string * A)) v : assoc k l = Some v -> In (k, v) l.
Proof. induction l as [|[k' v'] r IH]; cbn; [discriminate|].
  destruct (String.eqb k' k) eqn:E.
  - intros H. inversion H; subst. apply String.eqb_eq in E. subst. left. reflexivity.
  - intros H. right. apply IH. exact H. Qed.

Lemma in_filtered (d : list (string * Z)) mx q (b : Z) :
  In (q, Some b) (map (fun kv : string * Z => (fst kv, Some (snd kv))) (filter (fun kv => (snd kv <=? mx)%Z) d)) ->
  In (q, b) d /\ (b <= mx)%Z.
Proof. intros H. apply in_map_iff in H. destruct H as [[k v] [E H]]. cbn in E. inversion E; subst.
  apply filter_In in H. destruct H as [H L]. cbn in L. split; [exact H | lia]. Qed.

Lemma in_listed (qd : list (string * Z)) names q (b : Z) :
  In (q, Some b) (map (fun k => (k, assoc k qd)) names) -> In q names /\ In (q, b) qd.
Proof. intros H. apply in_map_iff in H. destruct H as [k [E H]].
  assert (K : k = q) by congruence. subst k.
  assert (A : assoc q qd = Some b) by congruence.
  split; [exact H|]. apply assoc_In. exact A. Qed.

Lemma glookup_cons g n i v n' i' :
  glookup ((n, i, v) :: g) n' i' = if String.eqb n n' && (i =? i')%Z then Some v else glookup g n' i'.
Proof. reflexivity. Qed.

Section GetQuantizerThm.
  Variable lims : limits.
  Variable cfg : qconfig.
  Variable rematch : string -> string -> bool.
  Variable ch : chooser.
  Notation getq := (get_quantizer lims cfg rematch ch).
  Notation ok := (slot_ok lims cfg).

  Lemma fresh_ok slots f h q b : fresh cfg ch slots f h = Some (q, b) ->
    exists lm, slot slots (field_index f) = Some lm /\ from_field cfg f q b /\ obeys lm q b.
  Proof. unfold fresh. intros H.
    destruct (slot slots (field_index f)) as [lm|]; [|discriminate]. cbv zeta in H.
    set (qd := match assoc (field_name f) cfg with Some d => d | None => [] end) in *.
    set (qdict := match lm with
                  | LList names => map (fun k => (k, assoc k qd)) names
                  | LNum mx => map (fun kv : string * Z => (fst kv, Some (snd kv))) (filter (fun kv => (snd kv <=? mx)%Z) qd)
                  end) in *.
    destruct (existsb _ qdict); [discriminate|].
    destruct (map fst qdict) as [|x xs]; [discriminate|].
    destruct (assoc (ch h (x :: xs)) qdict) as [[b0|]|] eqn:AQ; try discriminate.
    inversion H; subst. clear H. apply assoc_In in AQ. exists lm. split; [reflexivity|].
    unfold from_field, qdict, qd in *.
    destruct (assoc (field_name f) cfg) as [d|] eqn:CF.
    - destruct lm; [apply in_filtered in AQ | apply in_listed in AQ]; destruct AQ as [A1 A2].
      + split; [exists d; split; [reflexivity | exact A1] | exact A2].
      + split; [exists d; split; [reflexivity | exact A2] | exact A1].
    - destruct lm; [apply in_filtered in AQ | apply in_listed in AQ]; destruct AQ as [A1 A2]; cbn in *; tauto. Qed.

  (* every quantizer handed out obeys the limit slot of the layer's pattern / class and the tensor
     role's slot index, whatever the tuner chooses; the group table stays consistent *)
  Theorem get_quantizer_within_limit g head ln cn il q b g' :
    groups_ok lims cfg g -> getq g head ln cn il = (RSome q b, g') ->
    ok (resolved lims rematch ln cn) (field_index (role_field il ln head)) q b /\ groups_ok lims cfg g'.
  Proof.
    intros G H. unfold resolved. unfold get_quantizer in H.
    set (f := role_field il ln head) in *.
    destruct (first_match rematch lims ln) as [p|] eqn:F.
    - destruct (assoc p lims) as [slots|] eqn:A; [|inversion H].
      destruct (glookup g p (field_index f)) as [[q0 b0]|] eqn:GL.
      + inversion H; subst. split; [apply G; exact GL | exact G].
      + destruct (fresh cfg ch slots f _) as [[q0 b0]|] eqn:FR; [|inversion H].
        inversion H; subst. clear H. destruct (fresh_ok _ _ _ _ _ FR) as [lm [S [FF O]]].
        assert (OK : ok p (field_index f) q b) by (exists slots, lm, f; repeat split; assumption).
        split; [exact OK|].
        intros n i q1 b1. rewrite glookup_cons.
        destruct (String.eqb p n && (field_index f =? i)%Z) eqn:E.
        * intros E1. inversion E1; subst. apply andb_prop in E. destruct E as [E1' E2].
          apply String.eqb_eq in E1'. apply Z.eqb_eq in E2. subst. exact OK.
        * apply G.
    - destruct (assoc cn lims) as [slots|] eqn:A; [|inversion H].
      destruct (fresh cfg ch slots f _) as [[q0 b0]|] eqn:FR; [|inversion H].
      inversion H; subst. clear H. destruct (fresh_ok _ _ _ _ _ FR) as [lm [S [FF O]]].
      split; [|exact G]. exists slots, lm, f. repeat split; assumption.
  Qed.

  (* a layer that matches no pattern and whose class is not a key of the limits is left alone *)
  Theorem get_quantizer_outside_limits g head ln cn il :
    first_match rematch lims ln = None -> assoc cn lims = None -> getq g head ln cn il = (RNone, g).
  Proof. intros F A. unfold get_quantizer. rewrite F, A. reflexivity. Qed.

  (* layers matched by one pattern share one choice per slot: once the group holds a choice it is returned *)
  Theorem get_quantizer_group_shared g head ln cn il p q b :
    first_match rematch lims ln = Some p -> assoc p lims <> None ->
    glookup g p (field_index (role_field il ln head)) = Some (q, b) ->
    getq g head ln cn il = (RSome q b, g).
  Proof. intros F A GL. unfold get_quantizer. rewrite F.
    destruct (assoc p lims); [|congruence]. rewrite GL. reflexivity. Qed.

  (* ... and a fresh choice for a pattern is recorded, so the next matching layer gets it *)
  Theorem get_quantizer_group_recorded g head ln cn il p q b g' :
    first_match rematch lims ln = Some p ->
    getq g head ln cn il = (RSome q b, g') ->
    glookup g' p (field_index (role_field il ln head)) = Some (q, b).
  Proof. intros F H. unfold get_quantizer in H. rewrite F in H.
    destruct (assoc p lims) as [slots|]; [|inversion H].
    destruct (glookup g p (field_index (role_field il ln head))) as [[q0 b0]|] eqn:GL.
    - inversion H; subst. exact GL.
    - destruct (fresh cfg ch slots _ _) as [[q0 b0]|]; [|inversion H].
      inversion H; subst. rewrite glookup_cons, String.eqb_refl, Z.eqb_refl. reflexivity. Qed.
  (* class-keyed limits (no pattern matches the layer): the quantizer comes from the configuration of the
     role's OWN field and obeys the role's own slot -- the per-role form of the limit statement *)
  Theorem get_quantizer_class_limit_per_role g head ln cn il q b g' :
    first_match rematch lims ln = None ->
    getq g head ln cn il = (RSome q b, g') ->
    exists slots lm, assoc cn lims = Some slots /\ slot slots (field_index (role_field il ln head)) = Some lm /\
      from_field cfg (role_field il ln head) q b /\ obeys lm q b /\ g' = g.
  Proof. intros F H. unfold get_quantizer in H. rewrite F in H.
    destruct (assoc cn lims) as [slots|]; [|inversion H].
    destruct (fresh cfg ch slots _ _) as [[q0 b0]|] eqn:FR; [|inversion H].
    inversion H; subst. destruct (fresh_ok _ _ _ _ _ FR) as [lm [S [FF O]]].
    exists slots, lm. repeat split; assumption. Qed.

  (* role words are read from the END of the head when the layer name itself contains none of them *)
  Lemma field_of_head_kernel n : contains "kernel" (n ++ "_kernel") = true.
  Proof. induction n as [|a n IH]; [reflexivity|]. cbn [append contains]. rewrite IH. apply orb_true_r. Qed.
End GetQuantizerThm.

(* ======================= quantize_model: the selection part ======================= *)
Inductive act := ANone | ALinear | ASoftmax | AOther.
Record layer := Ly { ly_name : string; ly_class : string; ly_bias : bool; ly_act : act }.

Definition registered : list string :=
  ["Dense"; "Conv1D"; "Conv2D"; "DepthwiseConv2D"; "SimpleRNN"; "LSTM"; "GRU"; "Bidirectional";
   "Conv2DTranspose"; "SeparableConv1D"; "SeparableConv2D"].
Definition sequence_layers : list string := ["SimpleRNN"; "LSTM"; "GRU"; "Bidirectional"].
Definition separable_layers : list string := ["SeparableConv1D"; "SeparableConv2D"].
Definition depthwise_named : list string := ["DepthwiseConv2D"; "SeparableConv1D"; "SeparableConv2D"].

Definition snoc {A} (l : list A) (x : A) : list A := app l [x].
Inductive entry := EStr (q : string) | EDict (kv : list (string * string)).
Definition res_str (r : res) : string := match r with RSome q _ => q | _ => "None" end.
Definition is_err (r : res) : bool := match r with RError => true | _ => false end.

Section Select.
  Variable lims : limits.
  Variable cfg : qconfig.
  Variable rematch : string -> string -> bool.
  Variable ch : chooser.
  Notation getq := (get_quantizer lims cfg rematch ch).

  (* first loop (347-380): kernel, recurrent and pointwise choices per layer name (since the fix: commit 9ab3115) *)
  Record st1 := St1 { s_g : groups; s_k : list (string * res); s_rec : list (string * res); s_pw : list (string * res); s_err : bool; s_log : list (string * string * res) }.
  Definition step1 (s : st1) (l : layer) : st1 :=
    if mem (ly_class l) registered then
      let '(k, g1) := getq (s_g s) (ly_name l ++ "_kernel") (ly_name l) (ly_class l) false in
      let s1 := St1 g1 ((ly_name l, k) :: s_k s) (s_rec s) (s_pw s) (s_err s || is_err k) ((ly_name l, ly_class l, k) :: s_log s) in
      let s2 := if mem (ly_class l) sequence_layers then
                  let '(r, g2) := getq (s_g s1) (ly_name l ++ "_recurrent_kernel") (ly_name l) (ly_class l) false in
                  St1 g2 (s_k s1) ((ly_name l, r) :: s_rec s1) (s_pw s1) (s_err s1 || is_err r) ((ly_name l, ly_class l, r) :: s_log s1)
                else s1 in
      if mem (ly_class l) separable_layers then
        let '(r, g3) := getq (s_g s2) (ly_name l ++ "_pointwise_kernel") (ly_name l) (ly_class l) false in
        St1 g3 (s_k s2) (s_rec s2) ((ly_name l, r) :: s_pw s2) (s_err s2 || is_err r) ((ly_name l, ly_class l, r) :: s_log s2)
      else s2
    else s.

  (* second loop (385-548), tune_filters = "none" *)
  Record st2 := St2 { t_g : groups; t_out : list (string * entry); t_err : bool; t_log : list (string * string * res) }.
  Definition any_pattern (name : string) : bool := existsb (fun pv => rematch (fst pv) name) lims.

  Definition lookup_res (n : string) (l : list (string * res)) : res := match assoc n l with Some r => r | None => RNone end.
  Definition step2 (kd : list (string * res)) (rq pq : list (string * res)) (idx : option (list nat)) (s : st2) (il : nat * layer) : st2 :=
    let '(i, l) := il in
    let n := ly_name l in let c := ly_class l in
    if match idx with Some ids => negb (existsb (Nat.eqb i) ids) | None => false end then s
    else if mem c registered then
      match assoc n kd with
      | Some (RSome kq _) =>
        let d0 := [((if mem c depthwise_named then "depthwise_quantizer" else "kernel_quantizer"), kq)] in
        let d1 := if mem c sequence_layers then snoc d0 ("recurrent_quantizer", res_str (lookup_res n rq)) else d0 in
        let d2 := if mem c separable_layers then snoc d1 ("pointwise_quantizer", res_str (lookup_res n pq)) else d1 in
        let '(d3, g3, e3, lg3) :=
          if mem c ["LSTM"; "GRU"; "Bidirectional"] then
            let '(r, g') := getq (t_g s) (n ++ "_recurrent_activation") n c false in
            (snoc d2 ("recurrent_activation", res_str r), g', is_err r, (n, c, r) :: t_log s)
          else (d2, t_g s, false, t_log s) in
        let '(d4, g4, e4, lg4) :=
          if ly_bias l then
            let '(r, g') := getq g3 (n ++ "_bias") n c false in
            (snoc d3 ("bias_quantizer", res_str r), g', is_err r, (n, c, r) :: lg3)
          else (d3, g3, false, lg3) in
        let '(d5, g5, e5, lg5) :=
          match ly_act l with
          | ASoftmax | ALinear => (d4, g4, false, lg4)
          | _ =>
            let '(r, g') := getq g4 (n ++ "_activation") n c false in
            (snoc d4 ("activation_quantizer", res_str r), g', is_err r, (n, c, r) :: lg4)
          end in
        St2 g5 ((n, EDict d5) :: t_out s) (t_err s || e3 || e4 || e5) lg5
      | _ => s                                   (* kernel quantizer None: layer not in this block *)
      end
    else if String.eqb c "Reshape" then s
    else if String.eqb c "Activation" then
      match ly_act l with
      | ASoftmax => s
      | a =>
        let '(r, g') := getq (t_g s) (n ++ "_activation") n c (match a with ALinear => true | _ => false end) in
        match r with
        | RSome q _ => St2 g' ((n, EStr q) :: t_out s) (t_err s) ((n, c, r) :: t_log s)
        | RError => St2 g' (t_out s) true ((n, c, r) :: t_log s)
        | RNone => St2 g' (t_out s) (t_err s) ((n, c, r) :: t_log s)
        end
      end
    else if match assoc c lims with Some _ => true | None => false end then St2 (t_g s) ((n, EDict []) :: t_out s) (t_err s) (t_log s)
    else if any_pattern n then St2 (t_g s) ((n, EDict []) :: t_out s) (t_err s) (t_log s)
    else s.

  Fixpoint enumerate {A} (i : nat) (l : list A) : list (nat * A) :=
    match l with [] => [] | x :: r => (i, x) :: enumerate (S i) r end.

  Definition select (ls : list layer) (idx : option (list nat)) : st2 :=
    let s1 := fold_left step1 ls (St1 [] [] [] [] false []) in
    let s2 := fold_left (step2 (s_k s1) (s_rec s1) (s_pw s1) idx) (enumerate 0 ls) (St2 (s_g s1) [] (s_err s1) (s_log s1)) in
    s2.

  (* rendering for the correspondence runs: one line per q_dict entry, in insertion order *)
  Definition render_entry (e : string * entry) : string :=
    match snd e with
    | EStr q => fst e ++ "=" ++ q
    | EDict kv => fst e ++ "={" ++ String.concat ";" (map (fun p => fst p ++ ":" ++ snd p) kv) ++ "}"
    end.
  Definition render_select (ls : list layer) (idx : option (list nat)) : list string :=
    let s := select ls idx in
    if t_err s then ["<error>"] else map render_entry (rev (t_out s)).

  (* ---------- invariants over the whole run ---------- *)
  Definition log_ok (lg : list (string * string * res)) : Prop :=
    forall n c q b, In (n, c, RSome q b) lg -> exists i, slot_ok lims cfg (resolved lims rematch n c) i q b.

  Lemma getq_log g head n c il r g' lg :
    groups_ok lims cfg g -> log_ok lg -> getq g head n c il = (r, g') ->
    groups_ok lims cfg g' /\ log_ok ((n, c, r) :: lg).
  Proof. intros G L H. destruct r as [|q b|].
    - assert (g' = g).
      { unfold get_quantizer in H. destruct (first_match rematch lims n).
        - destruct (assoc s lims); [|inversion H; reflexivity].
          destruct (glookup g s _) as [[? ?]|]; [inversion H|]. destruct (fresh _ _ _ _ _) as [[? ?]|]; inversion H.
        - destruct (assoc c lims); [|inversion H; reflexivity]. destruct (fresh _ _ _ _ _) as [[? ?]|]; inversion H. }
      subst. split; [exact G|]. intros n0 c0 q b [E|I]; [discriminate | apply L; exact I].
    - destruct (get_quantizer_within_limit lims cfg rematch ch g head n c il q b g' G H) as [OK G'].
      split; [exact G'|]. intros n0 c0 q0 b0 [E|I].
      + inversion E; subst. eexists. exact OK.
      + apply L; exact I.
    - assert (g' = g).
      { unfold get_quantizer in H. destruct (first_match rematch lims n).
        - destruct (assoc s lims); [|inversion H; reflexivity].
          destruct (glookup g s _) as [[? ?]|]; [inversion H|]. destruct (fresh _ _ _ _ _) as [[? ?]|]; inversion H; reflexivity.
        - destruct (assoc c lims); [|inversion H]. destruct (fresh _ _ _ _ _) as [[? ?]|]; inversion H; reflexivity. }
      subst. split; [exact G|]. intros n0 c0 q b [E|I]; [discriminate | apply L; exact I].
  Qed.
End Select.

Lemma fold_left_inv {S X} (f : S -> X -> S) (P : S -> Prop) (l : list X) (s0 : S) :
  P s0 -> (forall s x, In x l -> P s -> P (f s x)) -> P (fold_left f l s0).
Proof. revert s0. induction l as [|x r IH]; intros s0 H0 HS; cbn; [exact H0|].
  apply IH; [apply HS; [left; reflexivity | exact H0] | intros s y Hy; apply HS; right; exact Hy]. Qed.

Section SelectThm.
  Variable lims : limits.
  Variable cfg : qconfig.
  Variable rematch : string -> string -> bool.
  Variable ch : chooser.
  Notation getq := (get_quantizer lims cfg rematch ch).
  Notation GOK := (groups_ok lims cfg).
  Notation LOK := (log_ok lims cfg rematch).

  Lemma step1_inv s l : GOK (s_g s) /\ LOK (s_log s) ->
    GOK (s_g (step1 lims cfg rematch ch s l)) /\ LOK (s_log (step1 lims cfg rematch ch s l)).
  Proof. intros [G L]. unfold step1.
    destruct (mem (ly_class l) registered); [|split; assumption].
    destruct (getq (s_g s) _ _ _ _) as [k g1] eqn:E1.
    destruct (getq_log lims cfg rematch ch _ _ _ _ _ _ _ _ G L E1) as [G1 L1].
    cbn [s_g s_log s_k s_rec s_pw s_err].
    destruct (mem (ly_class l) sequence_layers).
    - destruct (getq g1 _ _ _ _) as [r g2] eqn:E2.
      destruct (getq_log lims cfg rematch ch _ _ _ _ _ _ _ _ G1 L1 E2) as [G2 L2].
      cbn [s_g s_log s_k s_rec s_pw s_err].
      destruct (mem (ly_class l) separable_layers).
      + destruct (getq g2 _ _ _ _) as [r3 g3] eqn:E3.
        destruct (getq_log lims cfg rematch ch _ _ _ _ _ _ _ _ G2 L2 E3) as [G3 L3]. split; assumption.
      + split; assumption.
    - cbn [s_g s_log s_k s_rec s_pw s_err].
      destruct (mem (ly_class l) separable_layers).
      + destruct (getq g1 _ _ _ _) as [r3 g3] eqn:E3.
        destruct (getq_log lims cfg rematch ch _ _ _ _ _ _ _ _ G1 L1 E3) as [G3 L3]. split; assumption.
      + split; assumption.
  Qed.

  Lemma step2_inv kd rq pq idx s il : GOK (t_g s) /\ LOK (t_log s) ->
    GOK (t_g (step2 lims cfg rematch ch kd rq pq idx s il)) /\ LOK (t_log (step2 lims cfg rematch ch kd rq pq idx s il)).
  Proof. intros [G L]. unfold step2. destruct il as [i l].
    destruct (match idx with Some ids => negb (existsb (Nat.eqb i) ids) | None => false end); [split; assumption|].
    destruct (mem (ly_class l) registered).
    - destruct (assoc (ly_name l) kd) as [[|kq kb|]|]; try (split; assumption).
      set (d2 := if mem (ly_class l) separable_layers then _ else _).
      (* recurrent activation *)
      assert (A3 : exists d3 g3 e3 lg3,
        (if mem (ly_class l) ["LSTM"; "GRU"; "Bidirectional"]
         then let '(r, g') := getq (t_g s) (ly_name l ++ "_recurrent_activation") (ly_name l) (ly_class l) false in
              (snoc d2 ("recurrent_activation", res_str r), g', is_err r, (ly_name l, ly_class l, r) :: t_log s)
         else (d2, t_g s, false, t_log s)) = (d3, g3, e3, lg3) /\ GOK g3 /\ LOK lg3).
      { destruct (mem (ly_class l) ["LSTM"; "GRU"; "Bidirectional"]).
        - destruct (getq (t_g s) _ _ _ _) as [r g'] eqn:E.
          destruct (getq_log lims cfg rematch ch _ _ _ _ _ _ _ _ G L E) as [G' L']. do 4 eexists. split; [reflexivity|]. split; assumption.
        - do 4 eexists. split; [reflexivity|]. split; assumption. }
      destruct A3 as [d3 [g3 [e3 [lg3 [E3 [G3 L3]]]]]]. rewrite E3.
      assert (A4 : exists d4 g4 e4 lg4,
        (if ly_bias l
         then let '(r, g') := getq g3 (ly_name l ++ "_bias") (ly_name l) (ly_class l) false in
              (snoc d3 ("bias_quantizer", res_str r), g', is_err r, (ly_name l, ly_class l, r) :: lg3)
         else (d3, g3, false, lg3)) = (d4, g4, e4, lg4) /\ GOK g4 /\ LOK lg4).
      { destruct (ly_bias l).
        - destruct (getq g3 _ _ _ _) as [r g'] eqn:E.
          destruct (getq_log lims cfg rematch ch _ _ _ _ _ _ _ _ G3 L3 E) as [G' L']. do 4 eexists. split; [reflexivity|]. split; assumption.
        - do 4 eexists. split; [reflexivity|]. split; assumption. }
      destruct A4 as [d4 [g4 [e4 [lg4 [E4 [G4 L4]]]]]]. rewrite E4.
      destruct (ly_act l);
        try (destruct (getq g4 _ _ _ _) as [r g'] eqn:E;
             destruct (getq_log lims cfg rematch ch _ _ _ _ _ _ _ _ G4 L4 E) as [G' L']; cbn; split; assumption);
        cbn; split; assumption.
    - destruct (String.eqb (ly_class l) "Reshape"); [split; assumption|].
      destruct (String.eqb (ly_class l) "Activation").
      + destruct (ly_act l); try (split; assumption);
          destruct (getq (t_g s) _ _ _ _) as [r g'] eqn:E;
          destruct (getq_log lims cfg rematch ch _ _ _ _ _ _ _ _ G L E) as [G' L'];
          destruct r; cbn; split; assumption.
      + destruct (match assoc (ly_class l) lims with Some _ => true | None => false end); [cbn; split; assumption|].
        destruct (any_pattern lims rematch (ly_name l)); cbn; split; assumption.
  Qed.

  (* every hyper-parameter pick made while building a trial obeys the limit slot of the pattern / class the
     layer resolves to -- for every reference model, limit dictionary, configuration and tuner assignment *)
  Theorem select_picks_within_limits ls idx : LOK (t_log (select lims cfg rematch ch ls idx)).
  Proof. unfold select.
    set (s1 := fold_left (step1 lims cfg rematch ch) ls _).
    assert (I1 : GOK (s_g s1) /\ LOK (s_log s1)).
    { unfold s1. apply fold_left_inv.
      - split; [intros n i q b H; discriminate | intros n c q b []].
      - intros s x _ H. apply step1_inv. exact H. }
    apply (fold_left_inv _ (fun s => GOK (t_g s) /\ LOK (t_log s))).
    - exact I1.
    - intros s x _ H. apply step2_inv. exact H.
  Qed.

  (* only layers at the selected indexes can receive an entry *)
  Theorem select_respects_layer_indexes ls ids n e :
    In (n, e) (t_out (select lims cfg rematch ch ls (Some ids))) ->
    exists i l, In (i, l) (enumerate 0 ls) /\ ly_name l = n /\ In i ids.
  Proof. unfold select.
    set (s1 := fold_left (step1 lims cfg rematch ch) ls _).
    set (P := fun s : st2 => forall n e, In (n, e) (t_out s) -> exists i l, In (i, l) (enumerate 0 ls) /\ ly_name l = n /\ In i ids).
    intros H. revert n e H. change (P (fold_left (step2 lims cfg rematch ch (s_k s1) (s_rec s1) (s_pw s1) (Some ids)) (enumerate 0 ls)
                                          (St2 (s_g s1) [] (s_err s1) (s_log s1)))).
    apply fold_left_inv.
    - intros n e [].
    - intros s [i l] Hin PS. unfold step2.
      destruct (negb (existsb (Nat.eqb i) ids)) eqn:X; [exact PS|].
      assert (Hi : In i ids).
      { apply negb_false_iff in X. apply existsb_exists in X. destruct X as [j [J1 J2]]. apply Nat.eqb_eq in J2. subst. exact J1. }
      assert (NEW : forall e g err lg, P (St2 g ((ly_name l, e) :: t_out s) err lg)).
      { intros e g err lg n' e' [E|O]; [inversion E; subst; exists i, l; repeat split; assumption | exact (PS _ _ O)]. }
      assert (SAME : forall g err lg, P (St2 g (t_out s) err lg)).
      { intros g err lg n' e' O. exact (PS _ _ O). }
      destruct (mem (ly_class l) registered).
      + destruct (assoc (ly_name l) (s_k s1)) as [[|kq kb|]|]; try exact PS.
        destruct (if mem (ly_class l) ["LSTM"; "GRU"; "Bidirectional"] then _ else _) as [[[d3 g3] e3] lg3].
        destruct (if ly_bias l then _ else _) as [[[d4 g4] e4] lg4].
        destruct (match ly_act l with ASoftmax | ALinear => _ | _ => _ end) as [[[d5 g5] e5] lg5].
        apply NEW.
      + destruct (String.eqb (ly_class l) "Reshape"); [exact PS|].
        destruct (String.eqb (ly_class l) "Activation").
        * destruct (ly_act l); try exact PS;
            destruct (getq (t_g s) _ _ _ _) as [r g']; destruct r; first [apply NEW | apply SAME].
        * destruct (match assoc (ly_class l) lims with Some _ => true | None => false end); [apply NEW|].
          destruct (any_pattern lims rematch (ly_name l)); [apply NEW | exact PS].
  Qed.
End SelectThm.

(* AutoQ/Limits.v -- AutoQKHyperModel._adjust_limit (autoqkeras_internal.py:177-193): a per-class limit list that is
   shorter than the roles of the class is padded from `default`, role by role.
     default            [kernel, bias, activation]  or  [kernel, bias, recurrent, activation]  (a scalar d is [d, d, d])
     recurrent classes  roles kernel, bias, recurrent, activation (needs the 4-element default)
     other classes      roles kernel, bias, activation: the recurrent entry of a 4-element default is skipped *)
From Coq Require Import List Arith Bool Lia.
Import ListNotations.

Section Pad.
Context {A : Type}.

(* default[-1:] *)
Definition last1 (d : list A) : list A := match rev d with [] => [] | x :: _ => [x] end.

(* the assignment of the code *)
Definition pad_limit (seq : bool) (dflt l : list A) : list A :=
  let n := length l in
  if seq then (if n <? 4 then l ++ skipn n dflt else l)
  else (if n <? 3 then l ++ skipn n (firstn 2 dflt) ++ last1 dflt else l).

(* roles of a default list *)
Definition d_kernel (d : list A) := nth_error d 0.
Definition d_bias (d : list A) := nth_error d 1.
Definition d_act (d : list A) := nth_error d (length d - 1).

(* non-recurrent classes: the padded list has the three roles; entries given by the user are kept, every missing role is
   the default's entry of the SAME role (the activation role is the last entry of the default, whatever its length) *)
Theorem pad_limit_roles (dflt l : list A) k b a :
  (length dflt = 3 \/ length dflt = 4) -> length l < 3 ->
  d_kernel dflt = Some k -> d_bias dflt = Some b -> d_act dflt = Some a ->
  pad_limit false dflt l =
    match l with
    | [] => [k; b; a]
    | [x] => [x; b; a]
    | x :: y :: _ => [x; y; a]
    end.
Proof.
  intros HL Hl Hk Hb Ha. unfold pad_limit. unfold d_kernel, d_bias, d_act in *.
  destruct (Nat.ltb_spec (length l) 3) as [_|C]; [|lia].
  destruct dflt as [|d0 [|d1 [|d2 [|d3 [|d4 r]]]]]; simpl in HL; try lia;
    simpl in Hk, Hb, Ha; inversion Hk; inversion Hb; inversion Ha; subst;
    (destruct l as [|x [|y [|z t]]]; simpl in Hl; try lia; reflexivity).
Qed.

(* recurrent classes take the tail of the 4-element default *)
Theorem pad_limit_roles_seq (d0 d1 d2 d3 : A) l : length l < 4 ->
  pad_limit true [d0; d1; d2; d3] l =
    match l with
    | [] => [d0; d1; d2; d3]
    | [x] => [x; d1; d2; d3]
    | [x; y] => [x; y; d2; d3]
    | x :: y :: z :: _ => [x; y; z; d3]
    end.
Proof.
  intros Hl. unfold pad_limit. destruct (Nat.ltb_spec (length l) 4) as [_|C]; [|lia].
  destruct l as [|x [|y [|z [|w t]]]]; simpl in Hl; try lia; reflexivity.
Qed.

(* a complete list is left alone *)
Theorem pad_limit_complete (seq : bool) (dflt l : list A) : (if seq then 4 else 3) <= length l -> pad_limit seq dflt l = l.
Proof.
  intros H. unfold pad_limit. destruct seq.
  - destruct (Nat.ltb_spec (length l) 4); [lia | reflexivity].
  - destruct (Nat.ltb_spec (length l) 3); [lia | reflexivity].
Qed.

(* the padding `default[length:size]` (one slice, recurrent entry not skipped) is NOT this function: on a 4-element
   default it hands the recurrent limit to the activation role *)
Definition pad_slice (size : nat) (dflt l : list A) : list A := l ++ skipn (length l) (firstn size dflt).
End Pad.

Theorem pad_slice_refuted : exists (dflt l : list nat), length dflt = 4 /\
  nth_error (pad_slice 3 dflt l) 2 <> d_act dflt /\ nth_error (pad_limit false dflt l) 2 = d_act dflt.
Proof. exists [8; 8; 8; 4], [4]. repeat split; [discriminate]. Qed.

Example pad_ex : pad_limit false [8; 7; 6; 4] [2] = [2; 7; 4] /\ pad_limit false [8; 7; 4] [] = [8; 7; 4] /\
  pad_limit true [8; 7; 6; 4] [2; 3] = [2; 3; 6; 4] /\ pad_limit false [8; 7; 6; 4] [1; 2; 3] = [1; 2; 3].
Proof. repeat split. Qed.

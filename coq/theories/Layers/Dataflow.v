(* Layers/Dataflow.v -- C11: data-flow expressions of quantized layers.
   TensorFlow / Keras operations stay UNINTERPRETED (Section variables): a theorem
   "gen = spec" therefore holds for every meaning of dot / conv / bias_add / ...,
   every weight, every input and every setting of the configuration flags.  It is
   exactly the claim "the same quantizer is applied to the same weight in the same
   place, and nothing else happens". *)
From Coq Require Import String List Bool.
Import ListNotations.
Open Scope string_scope.

Inductive dexp :=
| DIn | DCfg
| DW (w : string)
| DQuant (q : string) (e : dexp)
| DOp1 (f : string) (a : dexp)
| DOp2 (f : string) (a b : dexp)
| DOp3 (f : string) (a b c : dexp)
| DIf (flag : string) (t e : dexp).

Fixpoint flags (e : dexp) : list string :=
  match e with
  | DIn | DCfg | DW _ => []
  | DQuant _ a | DOp1 _ a => flags a
  | DOp2 _ a b => flags a ++ flags b
  | DOp3 _ a b c => flags a ++ flags b ++ flags c
  | DIf f t e' => f :: flags t ++ flags e'
  end.

(* eliminate the configuration branches under a valuation of the flags *)
Fixpoint resolve (v : string -> bool) (e : dexp) : dexp :=
  match e with
  | DIn => DIn | DCfg => DCfg | DW w => DW w
  | DQuant q a => DQuant q (resolve v a)
  | DOp1 f a => DOp1 f (resolve v a)
  | DOp2 f a b => DOp2 f (resolve v a) (resolve v b)
  | DOp3 f a b c => DOp3 f (resolve v a) (resolve v b) (resolve v c)
  | DIf f t e' => if v f then resolve v t else resolve v e'
  end.

Fixpoint dexp_eqb (a b : dexp) : bool :=
  match a, b with
  | DIn, DIn | DCfg, DCfg => true
  | DW x, DW y => String.eqb x y
  | DQuant q x, DQuant r y => String.eqb q r && dexp_eqb x y
  | DOp1 f x, DOp1 g y => String.eqb f g && dexp_eqb x y
  | DOp2 f x1 x2, DOp2 g y1 y2 => String.eqb f g && dexp_eqb x1 y1 && dexp_eqb x2 y2
  | DOp3 f x1 x2 x3, DOp3 g y1 y2 y3 => String.eqb f g && dexp_eqb x1 y1 && dexp_eqb x2 y2 && dexp_eqb x3 y3
  | DIf f t e, DIf g t' e' => String.eqb f g && dexp_eqb t t' && dexp_eqb e e'
  | _, _ => false
  end.

Lemma dexp_eqb_eq a : forall b, dexp_eqb a b = true -> a = b.
Proof. induction a; destruct b; cbn; try discriminate; intros H;
  repeat match goal with
  | H : _ && _ = true |- _ => apply andb_prop in H; destruct H
  | H : String.eqb _ _ = true |- _ => apply String.eqb_eq in H; subst
  end; try reflexivity;
  repeat match goal with
  | IH : forall b, dexp_eqb ?x b = true -> ?x = b, H : dexp_eqb ?x ?y = true |- _ => apply IH in H; subst
  end; reflexivity. Qed.

(* ---------------- semantics with uninterpreted operations ---------------- *)
Section Sem.
  Variable T : Type.
  Variable input cfg : T.
  Variable weight : string -> T.
  Variable quant : string -> T -> T.
  Variable op1 : string -> T -> T.
  Variable op2 : string -> T -> T -> T.
  Variable op3 : string -> T -> T -> T -> T.

  Fixpoint ev (v : string -> bool) (e : dexp) : T :=
    match e with
    | DIn => input | DCfg => cfg | DW w => weight w
    | DQuant q a => quant q (ev v a)
    | DOp1 f a => op1 f (ev v a)
    | DOp2 f a b => op2 f (ev v a) (ev v b)
    | DOp3 f a b c => op3 f (ev v a) (ev v b) (ev v c)
    | DIf f t e' => if v f then ev v t else ev v e'
    end.

  Lemma ev_resolve v e : ev v (resolve v e) = ev v e.
  Proof. induction e; cbn; try reflexivity; try (f_equal; assumption).
    destruct (v flag); assumption. Qed.

  (* resolve only looks at the flags that occur in the expression *)
  Lemma resolve_ext v w e : (forall g, In g (flags e) -> v g = w g) -> resolve v e = resolve w e.
  Proof. induction e as [| |w0|q a IHa|f0 a IHa|f0 a IHa b IHb|f0 a IHa b IHb c IHc|fl t IHt e' IHe]; cbn; intros H; try reflexivity.
    - f_equal. apply IHa. exact H.
    - f_equal. apply IHa. exact H.
    - f_equal; [apply IHa | apply IHb]; intros g Hg; apply H; apply in_or_app; auto.
    - f_equal; [apply IHa | apply IHb | apply IHc]; intros g Hg; apply H;
        apply in_or_app; auto; right; apply in_or_app; auto.
    - rewrite (H fl (or_introl eq_refl)). destruct (w fl); [apply IHt | apply IHe];
        intros g Hg; apply H; right; apply in_or_app; auto.
  Qed.
End Sem.

(* ---------------- deciding equivalence over all flag valuations ---------------- *)
Fixpoint lookupb (a : string) (l : list (string * bool)) : bool :=
  match l with [] => false | (k, b) :: r => if String.eqb k a then b else lookupb a r end.
Fixpoint valuations (fs : list string) : list (list (string * bool)) :=
  match fs with
  | [] => [[]]
  | f :: r => let vs := valuations r in map (cons (f, true)) vs ++ map (cons (f, false)) vs
  end.
Definition equiv (a b : dexp) : bool :=
  forallb (fun l => dexp_eqb (resolve (fun f => lookupb f l) a) (resolve (fun f => lookupb f l) b))
          (valuations (nodup string_dec (flags a ++ flags b))).

(* every total valuation agrees, on the listed flags, with one of the enumerated ones *)
Lemma valuations_complete (v : string -> bool) fs :
  exists l, In l (valuations fs) /\ forall f, In f fs -> lookupb f l = v f.
Proof. induction fs as [|f r [l [Hl Hv]]].
  - exists []. split; [left; reflexivity | intros f []].
  - exists ((f, v f) :: l). split.
    + cbn [valuations]. apply in_or_app. destruct (v f); [left | right]; apply in_map; exact Hl.
    + intros g [<-|Hg]; cbn [lookupb].
      * rewrite String.eqb_refl. reflexivity.
      * destruct (String.eqb f g) eqn:E; [apply String.eqb_eq in E; subst; reflexivity | apply Hv; exact Hg].
Qed.

(* soundness: a positive decision means the two layer programs compute the same value for every
   interpretation of the operations, every weight, input and flag setting *)
Theorem equiv_sound a b : equiv a b = true ->
  forall (T : Type) (input cfg : T) weight quant op1 op2 op3 (v : string -> bool),
    ev T input cfg weight quant op1 op2 op3 v a = ev T input cfg weight quant op1 op2 op3 v b.
Proof. intros H T input cfg weight quant op1 op2 op3 v.
  unfold equiv in H. rewrite forallb_forall in H.
  destruct (valuations_complete v (nodup string_dec (flags a ++ flags b))) as [l [Hl Hv]].
  specialize (H l Hl). apply dexp_eqb_eq in H.
  rewrite <- (ev_resolve T input cfg weight quant op1 op2 op3 v a).
  rewrite <- (ev_resolve T input cfg weight quant op1 op2 op3 v b).
  rewrite (resolve_ext v (fun f => lookupb f l) a), (resolve_ext v (fun f => lookupb f l) b).
  - rewrite H. reflexivity.
  - intros f Hf. symmetry. apply Hv. apply nodup_In. apply in_or_app. right. exact Hf.
  - intros f Hf. symmetry. apply Hv. apply nodup_In. apply in_or_app. left. exact Hf.
Qed.

(* ---------------- specifications: the stock Keras computation on quantized weights ---------------- *)
Definition qw (flag q w : string) : dexp := DIf flag (DQuant q (DW w)) (DW w).
Definition with_bias (e : dexp) : dexp :=
  DIf "self.use_bias" (DOp2 "bias_add" e (qw "self.bias_quantizer" "bias_quantizer_internal" "bias")) e.
Definition with_act (e : dexp) : dexp := DIf "self.activation is not None" (DOp1 "activation" e) e.

Definition kernel_q : dexp := qw "self.kernel_quantizer" "kernel_quantizer_internal" "kernel".
Definition spec_QDense : dexp := with_act (with_bias (DOp2 "dot" DIn kernel_q)).
Definition spec_QConv1D : dexp := with_act (with_bias (DOp2 "conv" DIn kernel_q)).
Definition spec_QConv2D : dexp :=
  with_act (with_bias (DOp2 "conv" DIn (DIf "self._mask is not None" (DOp2 "mult" kernel_q (DW "_mask")) kernel_q))).
Definition spec_QConv2DTranspose : dexp := with_act (with_bias (DOp2 "conv_transpose" DIn kernel_q)).
Definition depthwise_q : dexp := qw "self.depthwise_quantizer" "depthwise_quantizer_internal" "depthwise_kernel".
Definition pointwise_q : dexp := qw "self.pointwise_quantizer" "pointwise_quantizer_internal" "pointwise_kernel".
Definition spec_QDepthwiseConv2D : dexp := with_act (with_bias (DOp2 "depthwise_conv" DIn depthwise_q)).
Definition spec_QSeparableConv2D : dexp := with_act (with_bias (DOp3 "separable_conv" DIn depthwise_q pointwise_q)).

(* with no quantizer configured the layer is the stock layer *)
Definition no_quantizers (v : string -> bool) : string -> bool :=
  fun f => if String.eqb f "self.kernel_quantizer" || String.eqb f "self.bias_quantizer" ||
              String.eqb f "self.depthwise_quantizer" || String.eqb f "self.pointwise_quantizer" ||
              String.eqb f "self.average_quantizer" then false else v f.
Definition stock_dense : dexp :=
  DIf "self.activation is not None"
      (DOp1 "activation" (DIf "self.use_bias" (DOp2 "bias_add" (DOp2 "dot" DIn (DW "kernel")) (DW "bias")) (DOp2 "dot" DIn (DW "kernel"))))
      (DIf "self.use_bias" (DOp2 "bias_add" (DOp2 "dot" DIn (DW "kernel")) (DW "bias")) (DOp2 "dot" DIn (DW "kernel"))).
Theorem no_quantizer_is_stock_dense v :
  resolve (no_quantizers v) spec_QDense = resolve (no_quantizers v) stock_dense.
Proof. unfold spec_QDense, stock_dense, with_act, with_bias, kernel_q, qw, no_quantizers. cbn.
  destruct (v "self.activation is not None"); destruct (v "self.use_bias"); reflexivity. Qed.

(* ---------------- quantizers only wrap ----------------
   Erasing every quantizer application from the layer program must give the same data flow
   whichever quantizers are configured: a quantizer may only be wrapped around the value that
   the unquantized layer uses at that place (this is what catches "the recurrent path uses the
   input kernel when no recurrent quantizer is set"). *)
Fixpoint erase (e : dexp) : dexp :=
  match e with
  | DIn => DIn | DCfg => DCfg | DW w => DW w
  | DQuant _ a => erase a
  | DOp1 f a => DOp1 f (erase a)
  | DOp2 f a b => DOp2 f (erase a) (erase b)
  | DOp3 f a b c => DOp3 f (erase a) (erase b) (erase c)
  | DIf f t e' => DIf f (erase t) (erase e')
  end.
(* flags that switch a quantizer on *)
Definition is_quantizer_flag (f : string) : bool :=
  let n := String.length f in
  (String.eqb (substring (n - 10) 10 f) "_quantizer") ||
  (String.eqb (substring (n - 31) 31 f) "_quantizer_internal is not None").
Definition quantizers_only_wrap (e : dexp) : bool :=
  let fs := nodup string_dec (flags e) in
  forallb (fun l =>
      let v := fun f => lookupb f l in
      let v0 := fun f => if is_quantizer_flag f then false else lookupb f l in
      dexp_eqb (erase (resolve v e)) (erase (resolve v0 e))) (valuations fs).

Lemma erase_ev_no_quant (T : Type) input cfg weight op1 op2 op3 v e :
  ev T input cfg weight (fun _ x => x) op1 op2 op3 v (erase e) = ev T input cfg weight (fun _ x => x) op1 op2 op3 v e.
Proof. induction e; cbn; try reflexivity; try (f_equal; assumption); try assumption.
  destruct (v flag); assumption. Qed.

(* ---- geometry of the backend convolutions (C11) ---- *)
(* golden table: every backend convolution receives the layer's own geometry (qconvolutional.py) *)
Definition expected_geometry : list (string * string * list (string * string)) :=
  [("QConv1D", "conv", [("data_format", "self.data_format"); ("dilation_rate", "self.dilation_rate[0]"); ("padding", "self.padding"); ("strides", "self.strides[0]")]);
   ("QConv2D", "conv", [("data_format", "self.data_format"); ("dilation_rate", "self.dilation_rate"); ("padding", "self.padding"); ("strides", "self.strides")]);
   ("QConv2DTranspose", "conv_transpose", [("data_format", "self.data_format"); ("dilation_rate", "self.dilation_rate"); ("padding", "self.padding"); ("strides", "self.strides")]);
   ("QDepthwiseConv2D", "depthwise_conv", [("data_format", "self.data_format"); ("dilation_rate", "self.dilation_rate"); ("padding", "self.padding"); ("strides", "self.strides")]);
   ("QSeparableConv1D", "separable_conv", [("data_format", "self.data_format"); ("dilation_rate", "dilation_rate"); ("padding", "op_padding"); ("strides", "self.strides*2")]);
   ("QSeparableConv2D", "separable_conv", [("data_format", "self.data_format"); ("dilation_rate", "self.dilation_rate"); ("padding", "self.padding"); ("strides", "self.strides")])].
Definition has_key (k : string) (kv : list (string * string)) : bool := existsb (fun p => String.eqb (fst p) k) kv.
Definition geometry_complete (g : list (string * string * list (string * string))) : bool :=
  forallb (fun e => has_key "strides" (snd e) && has_key "padding" (snd e) && has_key "dilation_rate" (snd e) && has_key "data_format" (snd e)) g.
Lemma expected_geometry_complete : geometry_complete expected_geometry = true.
Proof. reflexivity. Qed.

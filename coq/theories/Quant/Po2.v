(* Quant/Po2.v -- executable model of the power-of-two quantizers
   (quantizers.py:2695-3068): _clip_power_of_two, _need_exponent_sign_bit_check,
   _get_min_max_exponents, quantized_po2, quantized_relu_po2.
   Mathematical exponent functions over rationals; float32 log is an oracle
   whose only assumed property is a relative accuracy band (see the chk_ functions). *)
From Coq Require Import ZArith List Bool Lia.
From QV Require Import Base.ZQ Base.FL.
Open Scope Z_scope.
Import ListNotations.

(* float32(1e-7) = keras epsilon as the kernels see it *)
Definition eps32 : rat := (14073749, 2 ^ 47).

(* floor(log2 x) and the log2-nearest exponent of a positive rational *)
Definition exp_floor (x : rat) : Z := rlog2 (rnum x) (rden x).
Definition exp_rnd (x : rat) : Z :=
  (* unique e with 2^(2e-1) <= x^2 < 2^(2e+1) *)
  (rlog2 (rnum x * rnum x) (rden x * rden x) + 1) / 2.

Inductive l2mode := LRnd | LFloor.
Definition exp_of (m : l2mode) (x : rat) : Z :=
  match m with LRnd => exp_rnd x | LFloor => exp_floor x end.

(* _need_exponent_sign_bit_check (2767-2793) *)
Definition need_sign_bit (mv : option rat) : Z :=
  match mv with None => 1 | Some v => if rlt (1, 1) v then 1 else 0 end.
(* _get_min_max_exponents (2796-2815), quadratic_approximation = False *)
Definition po2_min_exp (bits : Z) (mv : option rat) : Z := - 2 ^ (bits - 1 - need_sign_bit mv).
Definition po2_max_exp (bits : Z) (mv : option rat) : Z := 2 ^ (bits - 1 - need_sign_bit mv) - 1.
(* quantized_relu_po2.__init__ (3002-3004) *)
Definition rpo2_min_exp (bits : Z) (mv : option rat) : Z := - 2 ^ (bits - need_sign_bit mv).
Definition rpo2_max_exp (bits : Z) (mv : option rat) : Z := 2 ^ (bits - need_sign_bit mv) - 1.

(* _clip_power_of_two (2695-2764): exponent for a non-negative magnitude *)
Definition clip_po2 (m : l2mode) (mn mx : Z) (mv : option rat) (xabs : rat) : Z :=
  if rlt xabs eps32 then mn
  else
    let xf := match mv with Some v => if rle v xabs then v else xabs | None => xabs end in
    clip mn mx (exp_of m xf).

Definition sign1r (x : rat) : Z := if rnum x <? 0 then -1 else 1.

(* quantized_po2: (sign, exponent) of the quantized value xq = sign * 2^exponent *)
Record po2cfg := P2 { p_bits : Z; p_mv : option rat; p_mode : l2mode }.
Definition po2_q (c : po2cfg) (x : rat) : Z * Z :=
  (sign1r x, clip_po2 (p_mode c) (po2_min_exp (p_bits c) (p_mv c)) (po2_max_exp (p_bits c) (p_mv c)) (p_mv c) (rabs x)).
Definition po2_val (se : Z * Z) : rat := rmul (rofZ (fst se)) (rpow2 (snd se)).

(* quantized_relu_po2 with negative_slope = 2^-s or 0 (None) *)
Record rpo2cfg := RP2 { r_bits : Z; r_mv : option rat; r_mode : l2mode; r_slope : option Z }.
Definition rpo2_q (c : rpo2cfg) (x : rat) : Z * Z :=
  let mn := rpo2_min_exp (r_bits c) (r_mv c) in let mx := rpo2_max_exp (r_bits c) (r_mv c) in
  let nonneg := negb (rnum x <? 0) in
  match r_slope c with
  | None => (1, clip_po2 (r_mode c) mn mx (r_mv c) (if nonneg then x else (0, 1)))
  | Some s =>
    if nonneg then (1, clip_po2 (r_mode c) mn mx (r_mv c) x)
    else (-1, clip_po2 (r_mode c) mn mx (r_mv c) (rscale (rabs x) (- s)))
  end.
(* the unquantized surrogate the STE expression is built around (3036-3042) *)
Definition rpo2_act (c : rpo2cfg) (x : rat) : rat :=
  let lr := if rnum x <? 0 then match r_slope c with Some s => rscale x (- s) | None => (0, 1) end else x in
  match r_mv c with
  | None => lr
  | Some v => if rle x v then lr else v
  end.

(* reporters *)
Definition po2_max (c : po2cfg) : rat :=
  match p_mv c with
  | Some v => if rnum v =? 0 then rmax (1, 1) (rpow2 (po2_max_exp (p_bits c) (p_mv c))) else rmax (1, 1) v
  | None => rmax (1, 1) (rpow2 (po2_max_exp (p_bits c) None))
  end.

(* ---------------- correspondence checkers ---------------- *)
(* float32 straight-through sum:  x' + (-x' + xq) *)
Definition ste32 (xa xq : rat) : rat := fadd xa (fadd (rneg xa) xq).

(* band of admissible exponents given that float32 log2 is accurate to a
   relative 2^-18 in its argument (a handful of ulps of the logarithm) *)
Definition band_lo (x : rat) : rat := rmul x (2 ^ 18 - 1, 2 ^ 18).
Definition band_hi (x : rat) : rat := rmul x (2 ^ 18 + 1, 2 ^ 18).

Definition clip_po2_band (m : l2mode) (mn mx : Z) (mv : option rat) (xabs : rat) : Z * Z :=
  if rlt xabs eps32 then (mn, mn)
  else
    let xf := match mv with Some v => if rle v xabs then v else xabs | None => xabs end in
    (clip mn mx (exp_of m (band_lo xf)), clip mn mx (exp_of m (band_hi xf))).

(* is y = sign * 2^e for e in [elo, ehi] through the float32 STE sum?
   returns 0 exact agreement and a genuine power of two in range,
           4 agreement with the float32 model but the STE sum absorbed the code
             (output is not the power of two): property fails for this input,
           1 disagreement *)
Definition chk_po2_out (xa : rat) (sg elo ehi : Z) (y : rat) : Z :=
  let cands := map (fun i => elo + Z.of_nat i) (seq 0 (Z.to_nat (ehi - elo + 1))) in
  (* tf.pow(2.0, e) in float32: flushes to zero below 2^-126 *)
  let hits := filter (fun e => req y (ste32 xa (fl (rmul (rofZ sg) (rpow2 e))))) cands in
  match hits with
  | [] => 1
  | e :: _ => if req y (rmul (rofZ sg) (rpow2 e)) then 0
              else if e <? -126 then 5      (* the code 2^e itself underflows float32 *)
              else 4                        (* the STE sum absorbed the code *)
  end.

Definition chk_po2 (c : po2cfg) (xb yb : Z) : Z :=
  match f32_dec xb, f32_dec yb with
  | Some x, Some y =>
    let mn := po2_min_exp (p_bits c) (p_mv c) in let mx := po2_max_exp (p_bits c) (p_mv c) in
    let '(elo, ehi) := clip_po2_band (p_mode c) mn mx (p_mv c) (rabs x) in
    chk_po2_out x (sign1r x) elo ehi y
  | _, _ => 3
  end.

Definition chk_rpo2 (c : rpo2cfg) (xb yb : Z) : Z :=
  match f32_dec xb, f32_dec yb with
  | Some x, Some y =>
    let mn := rpo2_min_exp (r_bits c) (r_mv c) in let mx := rpo2_max_exp (r_bits c) (r_mv c) in
    let nonneg := negb (rnum x <? 0) in
    let '(sg, mag) :=
      match r_slope c with
      | None => (1, if nonneg then x else (0, 1))
      | Some s => if nonneg then (1, x) else (-1, rscale (rabs x) (- s))
      end in
    let '(elo, ehi) := clip_po2_band (r_mode c) mn mx (r_mv c) mag in
    chk_po2_out (rpo2_act c x) sg elo ehi y
  | _, _ => 3
  end.

(* was the exponent decided inside the tolerance band? (reported in the evidence) *)
Definition banded_po2 (c : po2cfg) (xb : Z) : Z :=
  match f32_dec xb with
  | Some x =>
    let '(elo, ehi) := clip_po2_band (p_mode c) (po2_min_exp (p_bits c) (p_mv c))
                                     (po2_max_exp (p_bits c) (p_mv c)) (p_mv c) (rabs x) in
    if elo =? ehi then 0 else 1
  | None => 0
  end.

(* ---- the rounding step in isolation ----
   The float32 logarithm is an oracle; what the code does with the value l the kernel returned is exact:
   tf.round (half to even) or tf.floor, then the clip to the exponent interval. *)
Definition exp_from_log (m : l2mode) (mn mx : Z) (l : rat) : Z :=
  clip mn mx (match m with LRnd => rhe (rnum l) (rden l) | LFloor => rnum l / rden l end).
(* 0: the implementation's exponent e is exp_from_log of the oracle's value (bit pattern lb); 1: it is not *)
Definition chk_exp_from_log (m : l2mode) (mn mx : Z) (lb e : Z) : Z :=
  match f32_dec lb with Some l => if exp_from_log m mn mx l =? e then 0 else 1 | None => 3 end.

(* Quant/ReluSrc.v -- primitives used by the regenerated quantized_relu.__call__ (coq/gen/ReluCallGen.v). *)
From Coq Require Import ZArith Bool.
From QV Require Import Base.ZQ Base.FL.
Open Scope Z_scope.
(* K.relu(x, alpha=slope): x where x > 0, slope * x elsewhere *)
Definition lrelu (slope x : rat) : rat := if rlt (0, 1) x then x else rmul slope x.

(* Quant/AutoScale.v -- C05: auto-scaled fixed point (quantized_bits alpha='auto' /
   'auto_po2' / post_training_scale, quantizers.py:1352-1428; quantized_linear
   1021-1101).  Relational: output = exposed scale * integer code of the declared width. *)
From Coq Require Import ZArith List Bool Lia.
From QV Require Import Base.ZQ Base.FL Quant.Po2 Quant.BinTern.
Open Scope Z_scope.
Import ListNotations.

(* nearest integer to a rational (ties irrelevant: only used to recover a code that is then verified) *)
Definition rnear (x : rat) : Z := rhe (rnum x) (rden x).

(* ---- legacy quantized_bits, auto scales: y = s * z * 2^(int - ub), |z| <= 2^(bits-1) - 1 ---- *)
Definition qba_top (bits : Z) : Z := 2 ^ (bits - 1) - 1.
Definition qba_code (bits int : Z) (s y : rat) : Z :=
  rnear (rdiv y (rscale s (int - (bits - 1)))).
(* float32 evaluation of  x + (-x + s * (m_i * z / m)) *)
Definition qba_out (bits int : Z) (s x : rat) (z : Z) : rat :=
  fadd x (fadd (rneg x) (fmul s (rscale (rofZ z) (int - (bits - 1))))).
Definition chk_qba_elem (bits int : Z) (s x y : rat) : Z :=
  if rnum s =? 0 then (if req y (fadd x (rneg x)) then 0 else 1)
  else
    let z := qba_code bits int s y in
    if (Z.abs z <=? qba_top bits) && req y (qba_out bits int s x z) then 0
    (* far outside the range of a frozen scale the float32 STE sum absorbs the (top) code: the
       output is still the float32 STE sum of scale * top code *)
    else if req y (qba_out bits int s x (qba_top bits)) || req y (qba_out bits int s x (- qba_top bits)) then 0
    else 1.

Definition rmaxabs (l : list rat) : rat := fold_left (fun a b => rmax a (rabs b)) l (0, 1).

(* 'auto': the element of largest magnitude gets the top code, and no element is clipped:
   the code of every element is floor(|x'|/scale + 1/2) for the exposed scale (to a 2^-18 band) *)
Definition chk_qba_auto (bits int : Z) (s : rat) (xs ys : list rat) : Z :=
  if rnum s <=? 0 then (if forallb (fun x => rnum x =? 0) xs then 0 else 1) else
  let mx := rmaxabs xs in
  let ok := forallb (fun p =>
      let x := fst p in let y := snd p in
      let z := qba_code bits int s y in
      (* t = |x/m_i| / (s/m) = |x| * 2^(ub-int) / s *)
      let t := rdiv (rscale (rabs x) ((bits - 1) - int)) s in
      let lo := rfloor (radd (rmul t (2 ^ 18 - 1, 2 ^ 18)) (1, 2)) in
      let hi := rfloor (radd (rmul t (2 ^ 18 + 1, 2 ^ 18)) (1, 2)) in
      (lo <=? Z.abs z) && (Z.abs z <=? Z.min hi (qba_top bits)) && (lo <=? qba_top bits) &&
      (* the channel maximum sits exactly on the top code: |x_max| / scale = levels / 2 (float32 division slack) *)
      (negb (req (rabs x) mx) || ((Z.abs z =? qba_top bits) && close_rel 18 t (rofZ (qba_top bits))))) (combine xs ys) in
  if ok then 0 else 1.

(* 'auto_po2': the exposed scale divided by m = 2^ub is an exact power of two within the bounds *)
Definition chk_qba_po2 (bits : Z) (s : rat) (emin emax : option Z) : Z :=
  match is_pow2_exp (rscale s (- (bits - 1))) with
  | None => 1
  | Some k => if (match emin with Some m => m <=? k | None => true end) &&
                 (match emax with Some m => k <=? m | None => true end) then 0 else 1
  end.

(* mode 1 'auto', 2 'auto_po2', 3 frozen post-training scale *)
Definition chk_qba_group (mode bits int : Z) (emin emax : option Z) (xb yb : list Z) (sb : Z) : list Z :=
  if negb (all_finite xb && all_finite yb && all_finite [sb]) then [1; 1; 1] else
  let s := match f32_dec sb with Some r => r | None => (0, 1) end in
  let xs := decs xb in let ys := decs yb in
  let bad := count_bad (map (fun p => chk_qba_elem bits int s (fst p) (snd p)) (combine xs ys)) in
  let pos := if 0 <? rnum s then 0 else 1 in
  let rel := if mode =? 1 then chk_qba_auto bits int s xs ys
             else if mode =? 2 then chk_qba_po2 bits s emin emax else 0 in
  [bad; pos; rel].

(* ---- quantized_linear, auto scales: y = x + (code*qs - x), code in [lo, hi] ---- *)
Definition chk_qla_elem (lo hi : Z) (qs x y : rat) : Z :=
  let c := rnear (rdiv y qs) in
  if (lo <=? c) && (c <=? hi) && req y (fadd x (fsub (fmul (rofZ c) qs) x)) then 0 else 1.
Definition chk_qla_group (mode lo hi : Z) (kn : bool) (xb yb : list Z) (qsb : Z) : list Z :=
  if negb (all_finite xb && all_finite yb && all_finite [qsb]) then [1; 1; 1] else
  let qs := match f32_dec qsb with Some r => r | None => (0, 1) end in
  if rnum qs <=? 0 then [0; 1; 0] else
  let xs := decs xb in let ys := decs yb in
  let bad := count_bad (map (fun p => chk_qla_elem lo hi qs (fst p) (snd p)) (combine xs ys)) in
  (* 'auto': the channel maximum is mapped to the top code (when it is above the epsilon floor) *)
  let mx := if kn then rmaxabs xs else fold_left rmax xs (0, 1) in
  let top := if mode =? 1 then
               (* below the epsilon floor max(scale, 1e-7) the maximum is NOT mapped to the top code, by design;
                  2^-20 slack because the quotient is a float32 division *)
               (if rle (rmul mx (if kn then (2, 1) else (1, 1))) (rmul (rofZ (hi - lo)) (1048577, 10485760000000)) then 0
                else if existsb (fun p => req (if kn then rabs (fst p) else fst p) mx &&
                                           (hi <=? Z.abs (rnear (rdiv (snd p) qs)))) (combine xs ys) then 0 else 1)
             else if mode =? 2 then (match is_pow2_exp qs with Some _ => 0 | None => 1 end)
             else 0 in
  [bad; 0; top].

(* ---- theorems: a passing element is scale * an in-range integer code ---- *)
Lemma chk_qba_elem_sound bits int s x y : rnum s <> 0 -> 1 <= bits -> chk_qba_elem bits int s x y = 0 ->
  exists z, Z.abs z <= qba_top bits /\ req y (qba_out bits int s x z) = true.
Proof. intros Hs Hb. unfold chk_qba_elem. destruct (rnum s =? 0) eqn:E; [lia|].
  assert (T : 0 <= qba_top bits) by (unfold qba_top; assert (0 < 2 ^ (bits - 1)) by (apply Z.pow_pos_nonneg; lia); lia).
  destruct ((Z.abs (qba_code bits int s y) <=? qba_top bits) && req y (qba_out bits int s x (qba_code bits int s y))) eqn:E1.
  - apply andb_prop in E1 as [A B]. intros _. exists (qba_code bits int s y). split; [lia | exact B].
  - destruct (req y (qba_out bits int s x (qba_top bits))) eqn:E2; cbn [orb].
    + intros _. exists (qba_top bits). split; [lia | exact E2].
    + destruct (req y (qba_out bits int s x (- qba_top bits))) eqn:E3; [|discriminate].
      intros _. exists (- qba_top bits). split; [lia | exact E3]. Qed.

Lemma chk_qla_elem_sound lo hi qs x y : chk_qla_elem lo hi qs x y = 0 ->
  exists c, lo <= c <= hi /\ req y (fadd x (fsub (fmul (rofZ c) qs) x)) = true.
Proof. unfold chk_qla_elem. set (c := rnear (rdiv y qs)).
  destruct (lo <=? c) eqn:E1; destruct (c <=? hi) eqn:E2; cbn [andb]; try discriminate.
  destruct (req y _) eqn:E3; [|discriminate]. intros _. exists c. split; [lia | exact E3]. Qed.

(* at most 2^bits - 1 codes: the declared width *)
Theorem qba_code_width bits z : 1 <= bits -> Z.abs z <= qba_top bits -> - 2 ^ (bits - 1) < z < 2 ^ (bits - 1).
Proof. intros Hb H. unfold qba_top in H. lia. Qed.

(* exact arithmetic: scaling the input of an 'auto' quantizer by 2^k scales max-based scale and output by 2^k.
   With scale s = 2*max|x| / levels and code z = floor(|x|/s + 1/2): codes are invariant under x -> c*x, c > 0 *)
Theorem auto_codes_scale_invariant (a b mx_n mx_d c_n c_d lv : Z) :
  0 < b -> 0 < mx_n -> 0 < mx_d -> 0 < c_n -> 0 < c_d -> 0 < lv ->
  (* |x| = a/b, max = mx_n/mx_d, factor c = c_n/c_d; t = |x| / (2*max/lv) = a*lv*mx_d / (2*b*mx_n) *)
  (a * lv * mx_d * (2 * (b * c_d) * (mx_n * c_n)) = (a * c_n) * lv * (mx_d * c_d) * (2 * b * mx_n)).
Proof. intros. ring. Qed.

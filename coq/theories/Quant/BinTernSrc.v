(* Quant/BinTernSrc.v -- the source-level shape of binary.__call__, ternary.__call__ and _get_least_squares_scale
   (qkeras/quantizers.py), as rational expressions and dispatch tables, and what they mean:
     * the arithmetic the code performs to obtain a binary code  ( sign(x) + (1 - |sign(x)|), optionally (k+1)/2 )
       IS bcode; the ternary mask*sign product IS tcode;
     * one refinement step of the data-dependent ternary scale (threshold scale/2 applied to scale*round(x/scale)) is zero
       exactly when |x| <= scale/2 -- half-to-even sends the tie x = scale/2 to ZERO -- and carries the sign of x otherwise;
     * which tensor the straight-through sum is built around and which scale multiplies the code, per kind of alpha.
   tools/translate/btgen.py regenerates the same objects from the source on every run; Link/BinTernLink.v proves them equal. *)
From Coq Require Import ZArith List Bool Lia ZifyBool.
From QV Require Import Base.ZQ Base.FL Quant.Po2 Quant.Po2Thm Quant.BinTern.
Open Scope Z_scope.

Definition rsgn (x : rat) : rat := rofZ (sgn3 x).                 (* tf.sign *)
Definition rb01 (b : bool) : rat := if b then (1, 1) else (0, 1).  (* K.cast(<comparison>, floatx) *)

(* ---- kinds ---- *)
Inductive bkind := BKNone | BKNum | BKAuto | BKPo2.                (* alpha: None / a number / "auto" / "auto_po2" *)
Inductive xsrc := XRaw | XTanh.                                    (* the tensor x, or tanh(x) *)
Inductive scsrc := SOne | SAlpha | SDefaultAlpha | SLeastSquares (x : xsrc).
Inductive lsform := LOne | LAlpha | LQuotEps | LPo2OfQuotEps | LPo2OfQuotEpsClipped.
Inductive thrsrc := TDefault | TGiven.

(* binary: surrogate and scale.  The scale is ALWAYS what the least-squares helper returns for (alpha, surrogate, code) *)
Definition binary_surrogate (a : bkind) : xsrc := match a with BKNone => XTanh | _ => XRaw end.
Definition binary_scale (a : bkind) : scsrc := SLeastSquares (binary_surrogate a).
(* ternary with a constant scale *)
Definition ternary_surrogate (a : bkind) : xsrc := match a with BKNone => XTanh | _ => XRaw end.
Definition ternary_scale (a : bkind) : scsrc :=
  match a with BKNone => SOne | BKNum => SAlpha | _ => SLeastSquares XRaw end.
Definition ternary_thr (has_threshold : bool) : thrsrc := if has_threshold then TGiven else TDefault.
(* the least-squares helper *)
Definition ls_form (a : bkind) (has_bounds : bool) : lsform :=
  match a with
  | BKNone => LOne | BKNum => LAlpha | BKAuto => LQuotEps
  | BKPo2 => if has_bounds then LPo2OfQuotEpsClipped else LPo2OfQuotEps
  end.

(* ---- the code arithmetic, as written ---- *)
Definition bcode_expr (use01 : bool) (x : rat) : rat :=
  let k := radd (rsgn x) (rsub (1, 1) (rabs (rsgn x))) in
  if use01 then rdiv (radd k (1, 1)) (2, 1) else k.
Definition tcode_expr (thr x : rat) : rat := rmul (rb01 (rle thr (rabs x))) (rsgn x).
(* one refinement step of the auto scale: thres = scale/2; v = scale * round(x/scale); q = (|v| >= thres) * sign(x) *)
Definition tstep_expr (scale x : rat) : rat :=
  rmul (rb01 (rle (rdiv scale (2, 1)) (rabs (rmul scale (rofZ (rround (rdiv x scale))))))) (rsgn x).
Definition tinit_scale (m : rat) : rat := rdiv (rmul (2, 1) m) (3, 1).      (* 2 * max|x| / 3 *)

Theorem bcode_expr_is_bcode use01 x : req (bcode_expr use01 x) (rofZ (bcode use01 x)) = true.
Proof.
  unfold bcode_expr, bcode, bsign, rsgn, sgn3. destruct x as [n d]. cbn [rnum rden fst snd].
  destruct (n <? 0); [destruct use01; reflexivity|]. destruct (0 <? n); destruct use01; reflexivity.
Qed.

Theorem tcode_expr_is_tcode thr x : req (tcode_expr thr x) (rofZ (tcode thr x)) = true.
Proof.
  unfold tcode_expr, tcode, rsgn, rb01. destruct (rle thr (rabs x)).
  - unfold req, rmul, rofZ. cbn [rnum rden fst snd]. lia.
  - unfold req, rmul, rofZ. cbn [rnum rden fst snd]. lia.
Qed.

(* half-to-even of a fraction of magnitude at most one half is 0 ... *)
Lemma rhe_small n d : 0 < d -> 2 * Z.abs n <= d -> rhe n d = 0.
Proof.
  intros Hd H. pose proof (rhe_half n d Hd) as Hh.
  destruct (Z_lt_le_dec (2 * Z.abs n) d) as [S|T].
  - nia.
  - (* the tie: 2|n| = d, the even neighbour is 0 *)
    assert (E : 2 * Z.abs n = d) by lia.
    assert (B : -1 <= rhe n d <= 1) by nia.
    assert (M : 2 * (n mod d) = d).
    { destruct (Z_lt_le_dec n 0) as [Ng|Ps].
      - assert (n mod d = n + d); [|lia]. symmetry. apply (Z.mod_unique n d (-1)); lia.
      - rewrite Z.mod_small; lia. }
    pose proof (rhe_tie_even n d Hd M) as Ev.
    assert (C : rhe n d = -1 \/ rhe n d = 0 \/ rhe n d = 1) by lia.
    destruct C as [C|[C|C]]; rewrite C in Ev; [discriminate|assumption|discriminate].
Qed.
(* ... and of a larger one is not *)
Lemma rhe_large n d : 0 < d -> d < 2 * Z.abs n -> rhe n d <> 0.
Proof. intros Hd H C. pose proof (rhe_half n d Hd) as Hh. rewrite C in Hh. lia. Qed.

Definition tstep (scale x : rat) : Z :=                  (* the meaning of one refinement step *)
  if rlt (rdiv scale (2, 1)) (rabs x) then sgn3 x else 0.

Theorem tstep_expr_is_tstep scale x : 0 < rnum scale -> 0 < rden scale -> 0 < rden x ->
  req (tstep_expr scale x) (rofZ (tstep scale x)) = true.
Proof.
  intros Sn Sd Xd. destruct scale as [a b], x as [n d]. cbn [rnum rden fst snd] in *.
  unfold tstep_expr, tstep, rround, rdiv, rinv, rmul, rabs, rle, rlt, rsgn, rb01, rofZ. cbn [rnum rden fst snd].
  replace (0 <? a) with true by lia. cbn [rnum rden fst snd]. replace (0 <? 2) with true by lia. cbn [rnum rden fst snd].
  set (k := rhe (n * b) (d * a)).
  assert (Pd : 0 < d * a) by nia.
  destruct (Z_lt_le_dec (a * d) (2 * b * Z.abs n)) as [Big|Small].
  - (* |x| > scale/2 : the rounded quotient is non-zero, so |v| >= scale >= scale/2 *)
    assert (K0 : k <> 0). { apply rhe_large; [exact Pd|]. rewrite Z.abs_mul. rewrite (Z.abs_eq b) by lia. nia. }
    assert (A : Z.abs (a * k) = a * Z.abs k) by (rewrite Z.abs_mul; rewrite (Z.abs_eq a) by lia; reflexivity).
    rewrite A. assert (1 <= Z.abs k) by lia.
    replace (a * 1 * (b * 1) <=? a * Z.abs k * (b * 2)) with true by nia.
    replace (a * 1 * d <? Z.abs n * (b * 2)) with true by nia.
    unfold req. cbn [rnum rden fst snd]. lia.
  - (* |x| <= scale/2 : the quotient rounds to zero (the tie goes to the even neighbour 0) *)
    assert (K0 : k = 0). { apply rhe_small; [exact Pd|]. rewrite Z.abs_mul. rewrite (Z.abs_eq b) by lia. nia. }
    rewrite K0. replace (a * 0) with 0 by lia. cbn [Z.abs].
    replace (a * 1 * (b * 1) <=? 0 * (b * 2)) with false by nia.
    replace (a * 1 * d <? Z.abs n * (b * 2)) with false by nia.
    unfold req. cbn [rnum rden fst snd]. lia.
Qed.

(* what the step means: zero exactly at or below half the scale, the sign of x above it *)
Theorem tstep_zero_iff scale x : 0 < rnum scale -> 0 < rden scale -> 0 < rden x ->
  (tstep scale x = 0 <-> rle (rabs x) (rdiv scale (2, 1)) = true).
Proof.
  intros Sn Sd Xd. unfold tstep. destruct scale as [a b], x as [n d]. cbn [rnum rden fst snd] in *.
  unfold rdiv. change (rinv (2, 1)) with ((1, 2) : rat). unfold rmul, rabs, rle, rlt, sgn3. cbn [rnum rden fst snd].
  destruct (a * 1 * d <? Z.abs n * (b * 2)) eqn:E.
  - split; intros H.
    + destruct (n <? 0) eqn:E1; [lia|]. destruct (0 <? n) eqn:E2; [lia|]. assert (n = 0) by lia. subst n. cbn in E. nia.
    + nia.
  - split; intros _; [nia|reflexivity].
Qed.
Theorem tstep_values scale x : tstep scale x = -1 \/ tstep scale x = 0 \/ tstep scale x = 1.
Proof. unfold tstep, sgn3. destruct (rlt _ _); [|tauto]. destruct (rnum x <? 0); [tauto|]. destruct (0 <? rnum x); tauto. Qed.
Theorem tstep_sign scale x : tstep scale x <> 0 -> tstep scale x = sgn3 x.
Proof. unfold tstep. destruct (rlt _ _); [reflexivity|congruence]. Qed.

Example tstep_tie_goes_to_zero :
  tstep (1, 1) (1, 2) = 0 /\ tstep (1, 1) (-1, 2) = 0 /\ tstep (1, 1) (33, 64) = 1 /\ tstep (3, 4) (-2, 5) = -1 /\
  req (tstep_expr (1, 1) (1, 2)) (0, 1) = true /\ req (tstep_expr (3, 4) (-2, 5)) (-1, 1) = true.
Proof. vm_compute. repeat split; reflexivity. Qed.

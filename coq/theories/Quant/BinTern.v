(* Quant/BinTern.v -- C04 / C05: binary and ternary quantizers and the data-dependent
   least-squares scale (quantizers.py:371-506, 1699-1765, 2058-2121).
   Reductions (tf mean / max over a group) are not modelled bit-exactly: the
   correspondence run sends (x, y, reported scale) of every group and the certified
   checkers below decide the property's relations with exact rational arithmetic. *)
From Coq Require Import ZArith List Bool Lia QArith Lqa.
From QV Require Import Base.ZQ Base.FL Quant.Po2.
Open Scope Z_scope.
Import ListNotations.

(* ---------------- codes ---------------- *)
Definition bsign (x : rat) : Z := if rnum x <? 0 then -1 else 1.          (* zero counts as positive *)
Definition bcode (use01 : bool) (x : rat) : Z := if use01 then (bsign x + 1) / 2 else bsign x.
Definition sgn3 (x : rat) : Z := if rnum x <? 0 then -1 else if 0 <? rnum x then 1 else 0.
(* ternary with a fixed threshold: |x| >= thr ? sign x : 0 *)
Definition tcode (thr x : rat) : Z := if rle thr (rabs x) then sgn3 x else 0.

Theorem bcode_values (use01 : bool) x : if use01 then bcode use01 x = 0 \/ bcode use01 x = 1
                               else bcode use01 x = -1 \/ bcode use01 x = 1.
Proof. unfold bcode, bsign. destruct use01; destruct (rnum x <? 0); cbn; auto. Qed.
Theorem bcode_sign_correct x : (rnum x < 0 -> bcode false x = -1) /\ (0 <= rnum x -> bcode false x = 1).
Proof. unfold bcode, bsign. split; intros H; destruct (rnum x <? 0) eqn:E; lia. Qed.
Theorem bcode01_sign_correct x : (rnum x < 0 -> bcode true x = 0) /\ (0 <= rnum x -> bcode true x = 1).
Proof. unfold bcode, bsign. split; intros H; destruct (rnum x <? 0) eqn:E; try lia; reflexivity. Qed.
Theorem tcode_values thr x : tcode thr x = -1 \/ tcode thr x = 0 \/ tcode thr x = 1.
Proof. unfold tcode, sgn3. destruct (rle thr (rabs x)); destruct (rnum x <? 0); destruct (0 <? rnum x); auto. Qed.
Theorem tcode_zero_iff_below_threshold thr x : 0 < rnum thr -> 0 < rden thr -> 0 < rden x ->
  (tcode thr x = 0 <-> rle thr (rabs x) = false).
Proof. intros Ht Hd Hx. unfold tcode, sgn3. destruct (rle thr (rabs x)) eqn:E; [|tauto].
  split; [|discriminate]. intros H.
  destruct (rnum x <? 0) eqn:E1; [discriminate|]. destruct (0 <? rnum x) eqn:E2; [discriminate|].
  assert (rnum x = 0) by lia. unfold rle, rabs, rnum, rden in *. cbn [fst snd] in *.
  destruct x as [a b]; cbn [fst snd] in *. subst a. cbn in E. nia. Qed.
Theorem tcode_sign thr x : tcode thr x <> 0 -> tcode thr x = sgn3 x.
Proof. unfold tcode. destruct (rle thr (rabs x)); [reflexivity | intros H; contradiction H; reflexivity]. Qed.

(* ---------------- least squares scale over a group (exact, Q) ---------------- *)
Open Scope Q_scope.
Fixpoint sxq (g : list (Q * Q)) : Q := match g with [] => 0 | (x, q) :: r => x * q + sxq r end.
Fixpoint sqq (g : list (Q * Q)) : Q := match g with [] => 0 | (x, q) :: r => q * q + sqq r end.
Fixpoint sxx (g : list (Q * Q)) : Q := match g with [] => 0 | (x, q) :: r => x * x + sxx r end.
Fixpoint sse (s : Q) (g : list (Q * Q)) : Q :=
  match g with [] => 0 | (x, q) :: r => (x - s * q) * (x - s * q) + sse s r end.

Lemma sse_expand s g : sse s g == sxx g - 2 * s * sxq g + s * s * sqq g.
Proof. induction g as [|[x q] r IH]; cbn [sse sxx sxq sqq]; [ring|]. rewrite IH. ring. Qed.
Lemma sqq_nonneg g : 0 <= sqq g.
Proof. induction g as [|[x q] r IH]; cbn [sqq]; [apply Qle_refl|].
  assert (0 <= q * q) by (destruct (Qlt_le_dec q 0); nra). lra. Qed.

(* the scale s with s * sum(q^2) = sum(x*q) minimises the squared error over ALL scales s' *)
Theorem ls_scale_is_optimal g s s' : s * sqq g == sxq g -> sse s g <= sse s' g.
Proof. intros H. rewrite !sse_expand. pose proof (sqq_nonneg g) as N.
  assert (E : s' * s' * sqq g - 2 * s' * sxq g - (s * s * sqq g - 2 * s * sxq g) == (s' - s) * (s' - s) * sqq g).
  { rewrite <- H. ring. }
  assert (0 <= (s' - s) * (s' - s) * sqq g).
  { apply Qmult_le_0_compat; [|exact N]. destruct (Qlt_le_dec (s' - s) 0); nra. }
  lra. Qed.

(* for +-1 codes that follow the sign of x the least-squares scale is mean|x| >= 0 *)
Definition qsign (x : Q) : Q := if Qlt_le_dec x 0 then -1 else 1.
Lemma sxq_sign_nonneg (xs : list Q) : 0 <= sxq (map (fun x => (x, qsign x)) xs).
Proof. induction xs as [|x r IH]; cbn [map sxq]; [apply Qle_refl|].
  unfold qsign at 1. destruct (Qlt_le_dec x 0); nra. Qed.
Close Scope Q_scope.

(* ---------------- correspondence checkers ---------------- *)
Definition keps : rat := (1, 10000000).     (* K.epsilon() = 1e-7 *)

(* float32 straight-through sum  xa + (-xa + s*q) *)
Definition ste_out (xa s : rat) (q : Z) : rat := fadd xa (fadd (rneg xa) (fmul s (rofZ q))).

(* element check: y is the float32 STE sum for the model's code; returns 0 ok, 1 bad *)
Definition chk_elem (xa y s : rat) (q : Z) : Z := if req y (ste_out xa s q) then 0 else 1.

Definition rsum (l : list rat) : rat := fold_left (fun a b => rnorm (radd a b)) l (0, 1).
Definition rsumprod (xs : list rat) (qs : list Z) : rat :=
  rsum (map (fun p => rmul (fst p) (rofZ (snd p))) (combine xs qs)).
(* least-squares scale as the code computes it: mean(x*q) / (mean(q*q) + eps) *)
Definition ls_scale (xs : list rat) (qs : list Z) : rat :=
  let n := rofZ (Z.of_nat (length xs)) in
  let qx := rdiv (rsumprod xs qs) n in
  let qq := rdiv (rsum (map (fun q => rofZ (q * q)) qs)) n in
  rnorm (rdiv qx (radd qq keps)).

(* |a - b| <= 2^-t * |b| + 2^-40 *)
Definition close_rel (t : Z) (a b : rat) : bool :=
  rle (rabs (rsub a b)) (radd (rscale (rabs b) (- t)) (rpow2 (-40))).

(* group check for alpha = 'auto': one reported scale s for the whole group, s >= 0, s = LS (to 2^-17) *)
Definition chk_group_auto (xs : list rat) (qs : list Z) (s : rat) : Z :=
  if (0 <=? rnum s) && close_rel 17 s (ls_scale xs qs) then 0 else 1.

Definition is_pow2_exp (v : rat) : option Z :=
  if rnum v <=? 0 then None else
  let l := rlog2 (rnum v) (rden v) in if req (rpow2 l) v then Some l else None.

(* 'auto_po2': s = 2^k exactly, k within [emin, emax] when given, and k = round(log2(LS + eps))
   unless LS is within a 2^-12 band of a breakpoint sqrt(2)*2^k (float32 log / mean) *)
Definition chk_group_po2 (xs : list rat) (qs : list Z) (s : rat) (emin emax : option Z) : Z :=
  match is_pow2_exp s with
  | None => 1
  | Some k =>
    let ls := radd (ls_scale xs qs) keps in
    let klo := exp_rnd (rmul ls (2 ^ 12 - 1, 2 ^ 12)) in
    let khi := exp_rnd (rmul ls (2 ^ 12 + 1, 2 ^ 12)) in
    let cl := fun e => let e1 := match emin with Some m => Z.max m e | None => e end in
                       match emax with Some m => Z.min m e1 | None => e1 end in
    if (0 <? rnum s) && (cl klo <=? k) && (k <=? cl khi) then 0 else 1
  end.

(* ---------------- whole-group checkers (inputs as float32 bit patterns) ---------------- *)
Definition decs (l : list Z) : list rat := map (fun b => match f32_dec b with Some r => r | None => (0, 1) end) l.
Definition all_finite (l : list Z) : bool := forallb (fun b => match f32_dec b with Some _ => true | None => false end) l.
Definition count_bad (l : list Z) : Z := fold_left (fun a b => a + b) l 0.

(* mode: 0 = scale given (None / constant), 1 = 'auto', 2 = 'auto_po2'.
   xa: the value the STE sum is built around (x, or tanh x for alpha=None); xls: the x used by
   the least-squares formula; qs: the codes; sb: the reported scale of the group.
   returns [number of elements whose output is not STE(xa, s*q); group relation flag] *)
Definition chk_group (mode : Z) (emin emax : option Z) (xa xls ys : list Z) (qs : list Z) (sb : Z) : list Z :=
  if negb (all_finite xa && all_finite ys && all_finite [sb]) then [1; 1] else
  let s := match f32_dec sb with Some r => r | None => (0, 1) end in
  let bad := count_bad (map (fun t => match t with (a, y, q) => chk_elem a y s q end)
                            (combine (combine (decs xa) (decs ys)) qs)) in
  let g := if mode =? 1 then chk_group_auto (decs xls) qs s
           else if mode =? 2 then chk_group_po2 (decs xls) qs s emin emax
           else 0 in
  [bad; g].

(* do the codes follow the model? binary: sign of x (zero positive), optional 0/1 remap *)
Definition chk_bcodes (use01 : bool) (xs : list Z) (qs : list Z) : Z :=
  count_bad (map (fun p => if bcode use01 (fst p) =? snd p then 0 else 1) (combine (decs xs) qs)).
(* ternary with a fixed threshold *)
Definition chk_tcodes (thr : rat) (xs : list Z) (qs : list Z) : Z :=
  count_bad (map (fun p => if tcode thr (fst p) =? snd p then 0 else 1) (combine (decs xs) qs)).
(* ternary with a data-dependent scale: codes in {-1,0,1}, sign-correct, and zero exactly below a
   threshold: every zero-coded magnitude <= every non-zero-coded magnitude *)
Definition chk_tcodes_auto (xs : list Z) (qs : list Z) : Z :=
  let px := combine (decs xs) qs in
  let signs := count_bad (map (fun p => if (snd p =? 0) || (snd p =? sgn3 (fst p)) then 0 else 1) px) in
  let zeros := map (fun p => rabs (fst p)) (filter (fun p => snd p =? 0) px) in
  let nonz := map (fun p => rabs (fst p)) (filter (fun p => negb (snd p =? 0)) px) in
  let zmax := fold_left rmax zeros (0, 1) in
  let thr_ok := forallb (fun v => rle zmax v) nonz in
  signs + (if thr_ok then 0 else 1).

(* soundness of the element check: a passing element IS the float32 STE sum of scale * code *)
Lemma chk_elem_sound xa y s q : chk_elem xa y s q = 0 -> req y (ste_out xa s q) = true.
Proof. unfold chk_elem. destruct (req y (ste_out xa s q)); [reflexivity | discriminate]. Qed.
Lemma chk_group_auto_sound xs qs s : chk_group_auto xs qs s = 0 ->
  0 <= rnum s /\ close_rel 17 s (ls_scale xs qs) = true.
Proof. unfold chk_group_auto. destruct (0 <=? rnum s) eqn:E; cbn [andb]; [|discriminate].
  destruct (close_rel 17 s (ls_scale xs qs)); [|discriminate]. intros _. split; [lia | reflexivity]. Qed.

(* Quant/FixedThm.v -- theorems about the fixed-point models of Fixed.v
   (properties C01 and C02).  All statements are for every configuration and
   every rational input; nothing is bounded. *)
From Coq Require Import ZArith List Bool Lia ZifyBool.
From QV Require Import Base.ZQ Base.FL Quant.Fixed.
Ltac Zify.zify_post_hook ::= Z.to_euclidean_division_equations.
Open Scope Z_scope.
Import ListNotations.

Lemma pow2_ge1 k : 0 <= k -> 1 <= 2 ^ k.
Proof. intros. assert (0 < 2 ^ k) by (apply Z.pow_pos_nonneg; lia). lia. Qed.

Lemma pow2_split a b : 0 <= a -> 0 <= b -> 2 ^ (a + b) = 2 ^ a * 2 ^ b.
Proof. intros; apply Z.pow_add_r; lia. Qed.

(* ------------------------------------------------------------------ *)
(* C01: quantized_bits                                                  *)

Lemma qb_lo_le_hi c : 0 <= qb_ub c -> qb_lo c <= qb_hi c.
Proof. intros H. unfold qb_lo, qb_hi. pose proof (pow2_ge1 _ H).
  destruct (0 <? qb_ub c); destruct (qb_kn c); destruct (qb_sym c); simpl b2z; lia. Qed.

Theorem qb_code_range c a b : 0 <= qb_ub c -> qb_lo c <= qb_code c a b <= qb_hi c.
Proof. intros H. unfold qb_code. destruct (0 <? qb_ub c) eqn:E.
  - apply clip_range. apply qb_lo_le_hi; lia.
  - unfold qb_lo, qb_hi, sign1. rewrite E. destruct (qb_kn c); destruct (a <? 0); simpl; lia. Qed.

Theorem qb_card c : 0 < qb_ub c -> qb_hi c - qb_lo c + 1 <= 2 ^ qb_bits c.
Proof. intros H. unfold qb_lo, qb_hi. apply Z.ltb_lt in H as H'. rewrite H'.
  unfold qb_ub in *. pose proof (pow2_ge1 (qb_bits c - b2z (qb_kn c)) ltac:(lia)).
  destruct (qb_kn c); simpl b2z in *.
  - assert (E : 2 ^ qb_bits c = 2 ^ (qb_bits c - 1) * 2).
    { replace (qb_bits c) with ((qb_bits c - 1) + 1) at 1 by lia. rewrite pow2_split by lia. reflexivity. }
    destruct (qb_sym c); simpl b2z; lia.
  - replace (qb_bits c - 0) with (qb_bits c) in * by lia. lia.
Qed.

(* one-bit signed: exactly the two codes -1, +1, sign-correct, zero positive *)
Theorem qb_onebit c a b : qb_ub c = 0 -> qb_kn c = true ->
  qb_code c a b = (if a <? 0 then -1 else 1).
Proof. intros H K. unfold qb_code, sign1. rewrite H, K. reflexivity. Qed.

(* value = code * 2^se: integer multiple of the step, by construction *)
Theorem qb_val_on_grid c alpha x :
  qb_val c alpha x = rmul alpha (rscale (rofZ (qb_code c (rnum x) (rden x))) (qb_se c)).
Proof. reflexivity. Qed.

(* z * 2^k <= 2^i when z <= 2^(i-k) *)
Lemma rscale_le_pow2 z k i : 0 <= i - k -> z <= 2 ^ (i - k) ->
  rle (rscale (rofZ z) k) (rpow2 i) = true.
Proof. intros Hu Hz. unfold rle, rscale, rofZ, rpow2, rnum, rden, sc_num, sc_den; cbn [fst snd].
  destruct (0 <=? k) eqn:Ek; destruct (0 <=? i) eqn:Ei.
  - replace i with (k + (i - k)) by lia. rewrite pow2_split by lia.
    pose proof (pow2_ge1 k ltac:(lia)). nia.
  - lia.
  - replace (2 ^ (i - k)) with (2 ^ i * 2 ^ (- k)) in Hz by (rewrite <- pow2_split by lia; f_equal; lia).
    lia.
  - replace (- k) with (- i + (i - k)) by lia. rewrite pow2_split by lia.
    pose proof (pow2_ge1 (- i) ltac:(lia)). nia.
Qed.

Lemma rscale_ge_negpow2 z k i : 0 <= i - k -> - 2 ^ (i - k) <= z ->
  rle (rneg (rpow2 i)) (rscale (rofZ z) k) = true.
Proof. intros Hu Hz. unfold rle, rneg, rscale, rofZ, rpow2, rnum, rden, sc_num, sc_den; cbn [fst snd].
  destruct (0 <=? k) eqn:Ek; destruct (0 <=? i) eqn:Ei.
  - replace i with (k + (i - k)) by lia. rewrite pow2_split by lia.
    pose proof (pow2_ge1 k ltac:(lia)). nia.
  - lia.
  - replace (2 ^ (i - k)) with (2 ^ i * 2 ^ (- k)) in Hz by (rewrite <- pow2_split by lia; f_equal; lia).
    lia.
  - replace (- k) with (- i + (i - k)) by lia. rewrite pow2_split by lia.
    pose proof (pow2_ge1 (- i) ltac:(lia)). nia.
Qed.

Lemma rpow2_den_pos i : 0 < rden (rpow2 i).
Proof. unfold rpow2, rden; cbn [fst snd]. apply sc_den_pos; lia. Qed.
Lemma rpow2_num_pos i : 0 < rnum (rpow2 i).
Proof. unfold rpow2, rnum, sc_num; cbn [fst snd]. destruct (0 <=? i) eqn:E; [|lia].
  pose proof (pow2_ge1 i ltac:(lia)); lia. Qed.
Lemma rscale_den_pos x k : 0 < rden x -> 0 < rden (rscale x k).
Proof. intros. unfold rscale, rden; cbn [fst snd]. apply sc_den_pos; assumption. Qed.

Lemma rle_trans x y z : 0 < rden x -> 0 < rden y -> 0 < rden z ->
  rle x y = true -> rle y z = true -> rle x z = true.
Proof. unfold rle. intros. nia. Qed.

Lemma rle_rmax_r x y : 0 < rden x -> 0 < rden y -> rle y (rmax x y) = true.
Proof. unfold rmax, rlt, rle. intros. destruct (rnum x * rden y <? rnum y * rden x) eqn:E; lia. Qed.

Lemma rmul_one_l x : rmul (1, 1) x = x.
Proof. unfold rmul, rnum, rden. destruct x as [a b]. cbn [fst snd]. f_equal; lia. Qed.

Lemma rneg_le x y : rle x y = true -> rle (rneg y) (rneg x) = true.
Proof. unfold rle, rneg, rnum, rden; cbn [fst snd]. lia. Qed.
Lemma rden_rmax x y : 0 < rden x -> 0 < rden y -> 0 < rden (rmax x y).
Proof. intros. unfold rmax. destruct (rlt x y); assumption. Qed.
Lemma rden_rneg x : rden (rneg x) = rden x.
Proof. reflexivity. Qed.
Lemma rle_zero_scale z k : 0 <= z -> rle (0, 1) (rscale (rofZ z) k) = true.
Proof. intros. unfold rle, rscale, rofZ, rnum, rden, sc_num; cbn [fst snd].
  destruct (0 <=? k) eqn:E; [pose proof (pow2_ge1 k ltac:(lia)); nia | lia]. Qed.

(* C01: min()/max() enclose every output when no constant scale is applied *)
Theorem qb_minmax_enclose c x : 0 <= qb_ub c -> 0 < rden x ->
  rle (qb_min c) (qb_val c (1, 1) x) = true /\ rle (qb_val c (1, 1) x) (qb_max c) = true.
Proof.
  intros H Hx. unfold qb_val. rewrite rmul_one_l.
  pose proof (qb_code_range c (rnum x) (rden x) H) as [Hlo Hhi].
  set (k := qb_code c (rnum x) (rden x)) in *.
  unfold qb_min, qb_max, qb_se. unfold qb_lo, qb_hi in *.
  assert (D1 : 0 < rden ((1, 1) : rat)) by (cbn; lia).
  destruct (0 <? qb_ub c) eqn:E.
  - assert (Hu : 0 <= qb_int c - (qb_int c - qb_ub c)) by lia.
    assert (P : 1 <= 2 ^ qb_ub c) by (apply pow2_ge1; lia).
    assert (Dp := rpow2_den_pos (qb_int c)).
    assert (Dk : 0 < rden (rscale (rofZ k) (qb_int c - qb_ub c))) by (apply rscale_den_pos; cbn; lia).
    assert (Dm := rden_rmax _ _ D1 Dp).
    split.
    + destruct (qb_kn c) eqn:K; cbn [negb].
      * apply rle_trans with (y := rneg (rpow2 (qb_int c))); try assumption.
        -- apply rneg_le. apply rle_rmax_r; assumption.
        -- apply rscale_ge_negpow2; [lia|].
           replace (qb_int c - (qb_int c - qb_ub c)) with (qb_ub c) by lia.
           cbn [b2z] in Hlo. destruct (qb_sym c); cbn [b2z] in Hlo; lia.
      * cbn [b2z] in Hlo. apply rle_zero_scale. lia.
    + apply rle_trans with (y := rpow2 (qb_int c)); try assumption.
      * apply rscale_le_pow2; [lia|].
        replace (qb_int c - (qb_int c - qb_ub c)) with (qb_ub c) by lia. lia.
      * apply rle_rmax_r; assumption.
  - (* one bit *)
    assert (qb_ub c = 0) by lia.
    unfold rscale, rofZ, sc_num, sc_den, rnum, rden; cbn [fst snd]. cbn [Z.leb Z.compare].
    destruct (qb_kn c); cbn [negb]; unfold rle, rnum, rden; cbn [fst snd]; cbn; lia.
Qed.

(* ... but a constant alpha > 1 is ignored by max(): witness quantized_bits(4,0,1,alpha=2)(5.0) *)
Theorem qb_minmax_alpha_refuted :
  exists c alpha x, 0 <= qb_ub c /\ 0 < rden x /\ rle (qb_val c alpha x) (qb_max c) = false.
Proof. exists (QB 4 0 true true), (2, 1), (5, 1). vm_compute. repeat split; discriminate. Qed.

(* ------------------------------------------------------------------ *)
(* C01: quantized_linear -- clip-then-round lands on an in-range integer *)

Lemma rhe_z1 z : rhe z 1 = z.
Proof. unfold rhe. rewrite Z.div_1_r, Z.mod_1_r. reflexivity. Qed.

Lemma rround_clip_range lo hi p : lo <= hi -> 0 < rden p ->
  lo <= rround (rclip (rofZ lo) (rofZ hi) p) <= hi.
Proof. intros L Hp. destruct p as [a b]. unfold rden in Hp; cbn [snd] in Hp.
  unfold rround, rclip, rmin, rmax, rlt, rofZ, rnum, rden; cbn [fst snd].
  destruct (a * 1 <? lo * b) eqn:E1; cbn [fst snd].
  - destruct (hi * 1 <? lo * 1) eqn:E2; cbn [fst snd]; rewrite rhe_z1; lia.
  - destruct (hi * b <? a * 1) eqn:E2; cbn [fst snd].
    + rewrite rhe_z1; lia.
    + assert (H1 : rhe (lo * b) b <= rhe a b) by (apply rhe_mono; lia).
      assert (H2 : rhe a b <= rhe (hi * b) b) by (apply rhe_mono; lia).
      rewrite rhe_int in H1, H2 by lia. lia.
Qed.

Lemma ql_lo_le_hi c : 0 <= ql_ub c -> ql_lo c <= ql_hi c.
Proof. intros H. unfold ql_lo, ql_hi. pose proof (pow2_ge1 _ H).
  destruct (ql_kn c); destruct (ql_sym c); simpl b2z; lia. Qed.

Lemma rinv_den_pos x : 0 < rden x -> 0 < rden (rinv x).
Proof. intros H. unfold rinv, rden, rnum in *. destruct x as [a b]; simpl in *.
  destruct (0 <? a) eqn:E; simpl; [lia|]. destruct (a <? 0) eqn:E2; simpl; lia. Qed.

Lemma rdiv_den_pos x y : 0 < rden x -> 0 < rden y -> 0 < rden (rdiv x y).
Proof. intros Hx Hy. unfold rdiv, rmul. pose proof (rinv_den_pos y Hy). unfold rden in *; simpl. nia. Qed.

Theorem ql_code_range c alpha x : 0 <= ql_ub c -> 0 < rden alpha -> 0 < rden x ->
  ql_lo c <= ql_code c alpha x <= ql_hi c.
Proof. intros H Ha Hx. unfold ql_code. apply rround_clip_range.
  - apply ql_lo_le_hi; assumption.
  - apply rdiv_den_pos; [assumption|]. apply rscale_den_pos; assumption. Qed.

Theorem ql_card c : 1 <= ql_bits c -> 0 <= ql_ub c -> ql_hi c - ql_lo c + 1 <= 2 ^ ql_bits c.
Proof. intros Hb H. unfold ql_lo, ql_hi, ql_ub in *.
  pose proof (pow2_ge1 (ql_bits c - b2z (ql_kn c)) ltac:(lia)).
  destruct (ql_kn c); cbn [b2z] in *.
  - assert (E : 2 ^ ql_bits c = 2 ^ (ql_bits c - 1) * 2).
    { replace (ql_bits c) with ((ql_bits c - 1) + 1) at 1 by lia. rewrite pow2_split by lia. reflexivity. }
    destruct (ql_sym c); cbn [b2z]; lia.
  - replace (ql_bits c - 0) with (ql_bits c) in * by lia. lia.
Qed.

(* ------------------------------------------------------------------ *)
(* C01: quantized_relu (no sigmoid), incl. leaky slope 2^-s             *)

Theorem qr_code_range c a b : 0 <= qr_nsb c ->
  (forall s, qr_slope c = Some s -> 0 <= s <= qr_nsb c) ->
  qr_lo c <= qr_code c a b <= qr_hi c.
Proof. intros H Hs. unfold qr_code, qr_lo, qr_hi in *.
  pose proof (pow2_ge1 _ H).
  destruct (qr_slope c) as [s|] eqn:S.
  - specialize (Hs s eq_refl). pose proof (pow2_ge1 (qr_nsb c - s) ltac:(lia)).
    set (p := rhe _ _). set (n := rhe _ _). unfold clip. lia.
  - unfold clip; lia. Qed.

Theorem qr_card c : 1 <= qr_bits c -> 0 <= qr_nsb c ->
  (forall s, qr_slope c = Some s -> 0 <= s <= qr_nsb c) ->
  qr_hi c - qr_lo c + 1 <= 2 ^ qr_bits c.
Proof. intros Hb H Hs. unfold qr_lo, qr_hi, qr_nsb in *.
  destruct (qr_slope c) as [s|] eqn:S.
  - specialize (Hs s eq_refl).
    assert (2 ^ (qr_bits c - 1 - s) <= 2 ^ (qr_bits c - 1)) by (apply Z.pow_le_mono_r; lia).
    assert (E : 2 ^ qr_bits c = 2 ^ (qr_bits c - 1) * 2).
    { replace (qr_bits c) with ((qr_bits c - 1) + 1) at 1 by lia. rewrite pow2_split by lia. reflexivity. }
    pose proof (pow2_ge1 (qr_bits c - 1 - s) ltac:(lia)). lia.
  - replace (qr_bits c - 0) with (qr_bits c) by lia. lia. Qed.

(* sign structure: non-negative inputs never produce negative codes and vice versa *)
Theorem qr_code_sign c a b : 0 < b -> 0 <= qr_nsb c ->
  (0 <= a -> 0 <= qr_code c a b) /\ (a <= 0 -> qr_code c a b <= 0).
Proof. intros Hb H. pose proof (pow2_ge1 _ H). unfold qr_code, qr_hi.
  assert (Hpos : forall k, 0 <= a -> 0 <= rhe (sc_num a k) (sc_den b k)).
  { intros k Ha. pose proof (sc_den_pos b k Hb).
    assert (0 <= sc_num a k) by (unfold sc_num; destruct (0 <=? k) eqn:E; [pose proof (pow2_ge1 k ltac:(lia)); nia| lia]).
    pose proof (rhe_bounds (sc_num a k) (sc_den b k) H1). nia. }
  assert (Hneg : forall k, a <= 0 -> rhe (sc_num a k) (sc_den b k) <= 0).
  { intros k Ha. pose proof (sc_den_pos b k Hb).
    assert (sc_num a k <= 0) by (unfold sc_num; destruct (0 <=? k) eqn:E; [pose proof (pow2_ge1 k ltac:(lia)); nia| lia]).
    replace 0 with (rhe (0 * sc_den b k) (sc_den b k)) by (apply rhe_int; lia).
    apply rhe_mono; lia. }
  split; intros Ha; destruct (qr_slope c) as [s|]; unfold clip, qr_lo.
  - pose proof (Hpos (qr_nsb c - qr_int c) Ha). pose proof (Hpos (qr_nsb c - qr_int c - s) Ha). lia.
  - pose proof (Hpos (qr_nsb c - qr_int c) Ha). lia.
  - pose proof (Hneg (qr_nsb c - qr_int c) Ha). pose proof (Hneg (qr_nsb c - qr_int c - s) Ha). lia.
  - pose proof (Hneg (qr_nsb c - qr_int c) Ha). lia.
Qed.

(* ------------------------------------------------------------------ *)
(* C01: tanh / sigmoid variants -- for ANY surrogate value p            *)
Theorem qt_code_range bits sym p : 1 <= bits -> qt_lo bits sym <= qt_code bits sym p <= qt_hi bits.
Proof. intros H. unfold qt_code. apply clip_range. unfold qt_lo, qt_hi.
  pose proof (pow2_ge1 (bits - 1) ltac:(lia)). destruct sym; simpl b2z; lia. Qed.

Theorem qt_card bits sym : 1 <= bits -> qt_hi bits - qt_lo bits sym + 1 <= 2 ^ bits.
Proof. intros H. unfold qt_lo, qt_hi. replace bits with ((bits - 1) + 1) at 3 by lia.
  rewrite pow2_split by lia. change (2 ^ 1) with 2. destruct sym; simpl b2z; lia. Qed.

Theorem qs_code_range bits sym p : 1 <= bits -> qs_lo sym <= qs_code bits sym p <= qs_hi bits.
Proof. intros H. unfold qs_code. apply clip_range. unfold qs_lo, qs_hi.
  pose proof (pow2_ge1 bits ltac:(lia)). assert (2 <= 2 ^ bits).
  { replace bits with (1 + (bits - 1)) by lia. rewrite pow2_split by lia.
    pose proof (pow2_ge1 (bits - 1) ltac:(lia)). change (2 ^ 1) with 2. lia. }
  destruct sym; simpl b2z; lia. Qed.

Theorem qs_card bits sym : 1 <= bits -> qs_hi bits - qs_lo sym + 1 <= 2 ^ bits.
Proof. intros. unfold qs_lo, qs_hi. destruct sym; simpl b2z; lia. Qed.

Theorem qrs_code_range c p : 0 <= qr_nsb c -> 0 <= qrs_code c p <= qr_hi c.
Proof. intros H. unfold qrs_code, qr_hi. apply clip_range. pose proof (pow2_ge1 _ H). lia. Qed.

(* ------------------------------------------------------------------ *)
(* C01: range() enumerates exactly the reachable set                     *)
(* every code in [lo,hi] is reached by the input code*step              *)
Theorem qb_code_reachable c k : 0 < qb_ub c -> qb_lo c <= k <= qb_hi c ->
  let x := rscale (rofZ k) (qb_se c) in qb_code c (rnum x) (rden x) = k.
Proof. intros H Hk x. unfold qb_code. apply Z.ltb_lt in H as H'. rewrite H'.
  subst x. unfold qb_se. rewrite H'. unfold rscale, rofZ, rnum, rden; cbn [fst snd].
  set (k0 := qb_ub c - qb_int c). replace (qb_int c - qb_ub c) with (- k0) by (unfold k0; lia).
  assert (E : rhe (sc_num (sc_num k (- k0)) k0) (sc_den (sc_den 1 (- k0)) k0) = k).
  { unfold sc_num, sc_den. destruct (0 <=? k0) eqn:E1; destruct (0 <=? - k0) eqn:E2.
    - assert (k0 = 0) by lia. subst k0. rewrite H0. simpl. replace (k * 1 * 1) with (k * 1) by lia. apply rhe_int; lia.
    - replace (- - k0) with k0 by lia. replace (1 * 2 ^ k0) with (2 ^ k0) by lia.
      apply rhe_int. pose proof (pow2_ge1 k0 ltac:(lia)). lia.
    - replace (1 * 2 ^ (- k0)) with (2 ^ (- k0)) by lia.
      replace (k * 2 ^ (- k0)) with (k * (1 * 2 ^ (- k0))) by lia.
      replace (1 * 2 ^ (- k0)) with (2 ^ (- k0)) by lia.
      apply rhe_int. pose proof (pow2_ge1 (- k0) ltac:(lia)). lia.
    - lia. }
  rewrite E. apply clip_id. exact Hk. Qed.

Lemma In_qb_range_codes bits k : 1 <= bits ->
  In k (qb_range_codes bits) <-> - 2 ^ (bits - 1) <= k <= 2 ^ (bits - 1) - 1.
Proof. intros Hb. unfold qb_range_codes. rewrite in_map_iff.
  assert (P : 2 ^ bits = 2 * 2 ^ (bits - 1)).
  { replace bits with (1 + (bits - 1)) at 1 by lia. rewrite pow2_split by lia. reflexivity. }
  pose proof (pow2_ge1 (bits - 1) ltac:(lia)).
  split.
  - intros [i [E Hi]]. apply in_seq in Hi. cbv zeta in E.
    destruct (2 ^ (bits - 1) <=? Z.of_nat i) eqn:E1; lia.
  - intros Hk. destruct (Z_lt_le_dec k 0).
    + exists (Z.to_nat (k + 2 ^ bits)). split.
      * cbv zeta. rewrite Z2Nat.id by lia. destruct (2 ^ (bits - 1) <=? k + 2 ^ bits) eqn:E1; lia.
      * apply in_seq. lia.
    + exists (Z.to_nat k). split.
      * cbv zeta. rewrite Z2Nat.id by lia. destruct (2 ^ (bits - 1) <=? k) eqn:E1; lia.
      * apply in_seq. lia.
Qed.

(* range(): for the configurations it accepts (symmetric = 0, keep_negative) the
   enumerated codes are exactly [lo, hi] *)
Theorem qb_range_exact bits int k : 2 <= bits ->
  let c := QB bits int true false in
  In k (qb_range_codes bits) <-> (qb_lo c <= k <= qb_hi c).
Proof. intros Hb c. rewrite In_qb_range_codes by lia.
  unfold qb_lo, qb_hi, qb_ub, c; simpl qb_bits; simpl qb_kn; simpl qb_sym; simpl b2z.
  destruct (0 <? bits - 1) eqn:E; lia. Qed.

Theorem qb_range_length bits : 0 <= bits -> Z.of_nat (length (qb_range_codes bits)) = 2 ^ bits.
Proof. intros. unfold qb_range_codes. rewrite map_length, seq_length.
  rewrite Z2Nat.id; [reflexivity|]. pose proof (pow2_ge1 bits ltac:(lia)); lia. Qed.

(* ------------------------------------------------------------------ *)
(* C02: nearest code, saturation, monotonicity, idempotence             *)

(* inside the range the code is within half a step of p = x / step *)
Theorem qb_nearest c a b : 0 < b -> 0 < qb_ub c ->
  let k := qb_ub c - qb_int c in
  let n := sc_num a k in let d := sc_den b k in
  qb_lo c * d <= n <= qb_hi c * d ->
  2 * Z.abs (qb_code c a b * d - n) <= d.
Proof. intros Hb H k n d Hin. unfold qb_code. apply Z.ltb_lt in H as H'. rewrite H'.
  fold k. fold n. fold d.
  assert (Hd : 0 < d) by (apply sc_den_pos; assumption).
  assert (H1 : rhe (qb_lo c * d) d <= rhe n d) by (apply rhe_mono; lia).
  assert (H2 : rhe n d <= rhe (qb_hi c * d) d) by (apply rhe_mono; lia).
  rewrite rhe_int in H1, H2 by lia.
  rewrite clip_id by lia. apply rhe_half; assumption. Qed.

(* outside the range: the nearest end code *)
Theorem qb_saturates c a b : 0 < b -> 0 < qb_ub c ->
  let k := qb_ub c - qb_int c in
  let n := sc_num a k in let d := sc_den b k in
  (n <= qb_lo c * d -> qb_code c a b = qb_lo c) /\
  (qb_hi c * d <= n -> qb_code c a b = qb_hi c).
Proof. intros Hb H k n d. unfold qb_code. apply Z.ltb_lt in H as H'. rewrite H'.
  fold k. fold n. fold d.
  assert (Hd : 0 < d) by (apply sc_den_pos; assumption).
  pose proof (qb_lo_le_hi c ltac:(lia)).
  split; intros Hn.
  - assert (H1 : rhe n d <= rhe (qb_lo c * d) d) by (apply rhe_mono; lia).
    rewrite rhe_int in H1 by lia. unfold clip; lia.
  - assert (H1 : rhe (qb_hi c * d) d <= rhe n d) by (apply rhe_mono; lia).
    rewrite rhe_int in H1 by lia. unfold clip; lia. Qed.

Lemma sign1_mono a a' : a <= a' -> sign1 a <= sign1 a'.
Proof. unfold sign1. intros. destruct (a <? 0) eqn:E; destruct (a' <? 0) eqn:E'; lia. Qed.

(* monotone non-decreasing in the input (inputs compared as rationals) *)
Theorem qb_code_mono c a b a' b' : 0 < b -> 0 < b' -> a * b' <= a' * b ->
  qb_code c a b <= qb_code c a' b'.
Proof. intros Hb Hb' H. unfold qb_code. destruct (0 <? qb_ub c).
  - apply clip_mono. apply rhe_mono_frac; try (apply sc_den_pos; assumption).
    apply sc_mono; assumption.
  - assert (S : sign1 a <= sign1 a').
    { unfold sign1. destruct (a <? 0) eqn:E; destruct (a' <? 0) eqn:E'; try lia; nia. }
    destruct (qb_kn c); [exact S|].
    unfold sign1 in *. destruct (a <? 0); destruct (a' <? 0); simpl; lia. Qed.

(* idempotence for alpha in {None, 1}: the code of (code * step) is the code *)
Theorem qb_idempotent c x : 0 < qb_ub c -> 0 < rden x ->
  let y := qb_val c (1, 1) x in
  qb_val c (1, 1) y = y.
Proof. intros H Hx y. subst y. unfold qb_val. rewrite !rmul_one_l.
  set (k := qb_code c (rnum x) (rden x)).
  rewrite (qb_code_reachable c k H); [reflexivity|].
  apply qb_code_range; lia. Qed.

(* the legacy class multiplies by a constant alpha on the way out only:
   with alpha = 2 it is not idempotent (quantized_bits(4,0,1,alpha=2), x = 0.25) *)
Theorem qb_idem_alpha_refuted :
  exists c alpha x, let y := qb_val c alpha x in req (qb_val c alpha y) y = false.
Proof. exists (QB 4 0 true true), (2, 1), (1, 4). vm_compute. reflexivity. Qed.

(* quantized_relu *)
Theorem qr_code_mono c a b a' b' : 0 < b -> 0 < b' -> a * b' <= a' * b ->
  qr_code c a b <= qr_code c a' b'.
Proof. intros Hb Hb' H. unfold qr_code.
  assert (M : forall k, rhe (sc_num a k) (sc_den b k) <= rhe (sc_num a' k) (sc_den b' k)).
  { intros k. apply rhe_mono_frac; try (apply sc_den_pos; assumption). apply sc_mono; assumption. }
  pose proof (M (qr_nsb c - qr_int c)).
  destruct (qr_slope c) as [s|].
  - pose proof (M (qr_nsb c - qr_int c - s)). unfold clip. lia.
  - apply clip_mono; assumption. Qed.

Theorem qr_nearest c a b : 0 < b -> 0 <= qr_nsb c -> qr_slope c = None ->
  let k := qr_nsb c - qr_int c in
  let n := sc_num a k in let d := sc_den b k in
  0 <= n <= qr_hi c * d ->
  2 * Z.abs (qr_code c a b * d - n) <= d.
Proof. intros Hb H S k n d Hin. unfold qr_code. rewrite S. fold k; fold n; fold d.
  assert (Hd : 0 < d) by (apply sc_den_pos; assumption).
  assert (H1 : rhe (0 * d) d <= rhe n d) by (apply rhe_mono; lia).
  assert (H2 : rhe n d <= rhe (qr_hi c * d) d) by (apply rhe_mono; lia).
  rewrite rhe_int in H1, H2 by lia.
  rewrite clip_id by lia. apply rhe_half; assumption. Qed.

Theorem qr_saturates c a b : 0 < b -> 0 <= qr_nsb c -> qr_slope c = None ->
  let k := qr_nsb c - qr_int c in
  let n := sc_num a k in let d := sc_den b k in
  (n <= 0 -> qr_code c a b = 0) /\ (qr_hi c * d <= n -> qr_code c a b = qr_hi c).
Proof. intros Hb H S k n d. unfold qr_code. rewrite S. fold k; fold n; fold d.
  assert (Hd : 0 < d) by (apply sc_den_pos; assumption).
  pose proof (pow2_ge1 _ H). unfold qr_hi in *.
  split; intros Hn.
  - assert (H1 : rhe n d <= rhe (0 * d) d) by (apply rhe_mono; lia).
    rewrite rhe_int in H1 by lia. unfold clip; lia.
  - assert (H1 : rhe ((2 ^ qr_nsb c - 1) * d) d <= rhe n d) by (apply rhe_mono; lia).
    rewrite rhe_int in H1 by lia. unfold clip; lia. Qed.

Lemma rhe_sc_int z k : rhe (sc_num (sc_num z (- k)) k) (sc_den (sc_den 1 (- k)) k) = z.
Proof. unfold sc_num, sc_den. destruct (0 <=? k) eqn:E1; destruct (0 <=? - k) eqn:E2.
  - assert (k = 0) by lia. subst k. simpl. replace (z * 1 * 1) with (z * 1) by lia. apply rhe_int; lia.
  - replace (- - k) with k by lia. replace (1 * 2 ^ k) with (2 ^ k) by lia.
    apply rhe_int. pose proof (pow2_ge1 k ltac:(lia)). lia.
  - replace (z * 2 ^ (- k)) with (z * (1 * 2 ^ (- k))) by lia.
    apply rhe_int. pose proof (pow2_ge1 (- k) ltac:(lia)). lia.
  - lia. Qed.

(* plain ReLU format: re-quantizing a quantized value returns it *)
Theorem qr_idempotent c x : 0 <= qr_nsb c -> qr_slope c = None -> qr_rub c = None -> 0 < rden x ->
  let y := qr_val c x in qr_val c y = y.
Proof. intros H S U Hx y. subst y. unfold qr_val. rewrite U.
  set (k := qr_code c (rnum x) (rden x)).
  assert (Hk : 0 <= k <= qr_hi c).
  { pose proof (qr_code_range c (rnum x) (rden x) H) as R. unfold qr_lo in R. rewrite S in R.
    apply R. intros s E; discriminate. }
  f_equal. f_equal. unfold qr_code. rewrite S.
  unfold rscale, rofZ, rnum, rden; cbn [fst snd].
  replace (qr_se c) with (- (qr_nsb c - qr_int c)) by (unfold qr_se; lia).
  rewrite rhe_sc_int. apply clip_id. exact Hk. Qed.

(* quantized_linear: clip-then-round equals round-then-clip, is monotone,
   nearest and idempotent for every positive constant scale *)
Theorem ql_clip_round_commute lo hi p : lo <= hi -> 0 < rden p ->
  rround (rclip (rofZ lo) (rofZ hi) p) = clip lo hi (rround p).
Proof. intros L Hp. destruct p as [a b]. unfold rden in Hp; cbn [snd] in Hp.
  unfold rround, rclip, rmin, rmax, rlt, rofZ, rnum, rden, clip; cbn [fst snd].
  destruct (a * 1 <? lo * b) eqn:E1; cbn [fst snd].
  - assert (H1 : rhe a b <= rhe (lo * b) b) by (apply rhe_mono; lia).
    rewrite rhe_int in H1 by lia.
    destruct (hi * 1 <? lo * 1) eqn:E2; cbn [fst snd]; rewrite rhe_z1; lia.
  - assert (H1 : rhe (lo * b) b <= rhe a b) by (apply rhe_mono; lia).
    rewrite rhe_int in H1 by lia.
    destruct (hi * b <? a * 1) eqn:E2; cbn [fst snd].
    + assert (H2 : rhe (hi * b) b <= rhe a b) by (apply rhe_mono; lia).
      rewrite rhe_int in H2 by lia. rewrite rhe_z1. lia.
    + assert (H2 : rhe a b <= rhe (hi * b) b) by (apply rhe_mono; lia).
      rewrite rhe_int in H2 by lia. lia.
Qed.

Theorem rhe_nearest_any a b z : 0 < b -> Z.abs (rhe a b * b - a) <= Z.abs (z * b - a).
Proof. intros Hb. pose proof (rhe_half a b Hb) as H.
  destruct (Z.eq_dec z (rhe a b)) as [->|N]; [lia|].
  assert (b <= Z.abs (z * b - rhe a b * b)) by nia. lia. Qed.

(* Quant/FLExact.v -- the bridge between the exact rational models and float32: the rounding function [fl] of Base/FL.v
   (24 significant bits, ties to even, flush below 2^-126) is the IDENTITY on every value k * 2^e with |k| < 2^24 in the normal
   range.  Every fixed-point code times its power-of-two step is such a value, so on inputs within 2^24 grid steps the exact
   model and the float32 evaluation coincide (DESIGN 10.1): this file proves the claim that was only argued there. *)
From Coq Require Import ZArith Bool Lia ZifyBool.
From QV Require Import Base.ZQ Base.FL Quant.Po2 Quant.Po2Thm.
Open Scope Z_scope.

Lemma rhe_mult n d : 0 < d -> rhe (n * d) d = n.
Proof. intros Hd. unfold rhe. rewrite Z.div_mul, Z.mod_mul by lia. replace (2 * 0 <? d) with true by lia. reflexivity. Qed.

(* the key step: if x * 2^(23 - floor(log2 |x|)) is an integer n0, then fl x = x *)
Lemma fl_exact_key a b l n0 : a <> 0 -> 0 < b -> rlog2 a b = l -> -126 <= l ->
  (0 <= l - 23 -> a = n0 * (b * 2 ^ (l - 23))) -> (l - 23 < 0 -> a * 2 ^ (23 - l) = n0 * b) ->
  req (fl (a, b)) (a, b) = true.
Proof.
  intros Ha Hb Hl Hn E1 E2.
  destruct (rlog2_spec a b Ha Hb) as [S1 _]. rewrite Hl in S1.
  assert (N : pow2_le_rat (-126) a b = true) by (apply pow2_le_rat_iff; apply (P2le_down l); [assumption|lia|assumption]).
  unfold fl. cbn [rnum rden fst snd]. replace (a =? 0) with false by lia. rewrite N. cbn [negb]. rewrite Hl.
  destruct (Z_lt_le_dec (l - 23) 0) as [Neg|Pos].
  - (* e' < 0: the significand is a * 2^(-e') / b *)
    specialize (E2 Neg).
    assert (A : sc_num a (- (l - 23)) = a * 2 ^ (23 - l)) by (unfold sc_num; replace (0 <=? - (l - 23)) with true by lia; f_equal; f_equal; lia).
    assert (B : sc_den b (- (l - 23)) = b) by (unfold sc_den; replace (0 <=? - (l - 23)) with true by lia; reflexivity).
    rewrite A, B, E2, rhe_mult by lia.
    unfold req, sc_num, sc_den. cbn [rnum rden fst snd]. replace (0 <=? l - 23) with false by lia.
    replace (- (l - 23)) with (23 - l) by lia. lia.
  - (* e' >= 0: the significand is a / (b * 2^e') *)
    specialize (E1 Pos).
    assert (P : 0 < 2 ^ (l - 23)) by (apply Z.pow_pos_nonneg; lia).
    assert (A : sc_num a (- (l - 23)) = a).
    { unfold sc_num. destruct (0 <=? - (l - 23)) eqn:E; [|reflexivity]. replace (- (l - 23)) with 0 by lia. lia. }
    assert (B : sc_den b (- (l - 23)) = b * 2 ^ (l - 23)).
    { unfold sc_den. destruct (0 <=? - (l - 23)) eqn:E; [replace (l - 23) with 0 by lia; lia|]. f_equal. f_equal. lia. }
    rewrite A, B. rewrite E1 at 1. rewrite rhe_mult by nia.
    unfold req, sc_num, sc_den. cbn [rnum rden fst snd]. replace (0 <=? l - 23) with true by lia. apply Z.eqb_eq. rewrite E1. ring.
Qed.

Lemma abs_pow2 k p : 0 <= p -> Z.abs (k * 2 ^ p) = Z.abs k * 2 ^ p.
Proof. intros Hp. rewrite Z.abs_mul. f_equal. apply Z.abs_eq. apply Z.pow_nonneg. lia. Qed.

Lemma log2_lt_24 k : k <> 0 -> Z.abs k < 2 ^ 24 -> 0 <= Z.log2 (Z.abs k) <= 23.
Proof. intros Hk Hb. split; [apply Z.log2_nonneg|]. assert (Z.log2 (Z.abs k) < 24); [|lia]. apply Z.log2_lt_pow2; lia. Qed.

(* values k / 2^q: fractions on a power-of-two grid *)
Theorem fl_exact_fraction k q : k <> 0 -> Z.abs k < 2 ^ 24 -> 0 <= q -> -126 <= Z.log2 (Z.abs k) - q ->
  req (fl (k, 2 ^ q)) (k, 2 ^ q) = true.
Proof.
  intros Hk Hb Hq Hn. set (L := Z.log2 (Z.abs k)). destruct (log2_lt_24 k Hk Hb) as [L0 L23]. fold L in L0, L23, Hn.
  pose proof (log2_bounds (Z.abs k) ltac:(lia)) as [B1 B2]. fold L in B1, B2.
  assert (Pq : 0 < 2 ^ q) by (apply Z.pow_pos_nonneg; lia).
  assert (Hl : rlog2 k (2 ^ q) = L - q).
  { apply rlog2_unique; [assumption|assumption| |].
    - apply (P2le_shift (L - q) k (2 ^ q) q); [lia|lia|]. replace (L - q + q) with L by lia. nia.
    - intros C. apply (P2le_shift (L - q + 1) k (2 ^ q) q) in C; [|lia|lia]. replace (L - q + 1 + q) with (L + 1) in C by lia. nia. }
  apply (fl_exact_key k (2 ^ q) (L - q) (k * 2 ^ (23 - L))); try assumption.
  - intros Pos. assert (L = 23 /\ q = 0) as [-> ->] by lia. change (23 - 0 - 23) with 0. change (23 - 23) with 0. cbn. lia.
  - intros Neg. replace (23 - (L - q)) with ((23 - L) + q) by lia. rewrite q2add by lia. ring.
Qed.

(* values k * 2^p: integers, possibly huge *)
Theorem fl_exact_integer_scaled k p : k <> 0 -> Z.abs k < 2 ^ 24 -> 0 <= p ->
  req (fl (k * 2 ^ p, 1)) (k * 2 ^ p, 1) = true.
Proof.
  intros Hk Hb Hp. set (L := Z.log2 (Z.abs k)). destruct (log2_lt_24 k Hk Hb) as [L0 L23]. fold L in L0, L23.
  pose proof (log2_bounds (Z.abs k) ltac:(lia)) as [B1 B2]. fold L in B1, B2.
  assert (Pp : 0 < 2 ^ p) by (apply Z.pow_pos_nonneg; lia).
  assert (Ha : k * 2 ^ p <> 0) by nia.
  assert (Hl : rlog2 (k * 2 ^ p) 1 = L + p).
  { apply rlog2_unique; [assumption|lia| |].
    - apply (P2le_shift (L + p) (k * 2 ^ p) 1 0); [lia|lia|]. rewrite abs_pow2 by lia. replace (L + p + 0) with (L + p) by lia.
      rewrite (q2add L p) by lia. change (2 ^ 0) with 1. nia.
    - intros C. apply (P2le_shift (L + p + 1) (k * 2 ^ p) 1 0) in C; [|lia|lia]. rewrite abs_pow2 in C by lia.
      replace (L + p + 1 + 0) with ((L + 1) + p) in C by lia. rewrite (q2add (L + 1) p) in C by lia. change (2 ^ 0) with 1 in C. nia. }
  apply (fl_exact_key (k * 2 ^ p) 1 (L + p) (k * 2 ^ (23 - L))); try assumption; try lia.
  - intros Pos. assert (E : 2 ^ p = 2 ^ (23 - L) * 2 ^ (L + p - 23)) by (rewrite <- q2add by lia; f_equal; lia). rewrite E. ring.
  - intros Neg. assert (E : 2 ^ (23 - L) = 2 ^ p * 2 ^ (23 - (L + p))) by (rewrite <- q2add by lia; f_equal; lia). rewrite E. ring.
Qed.

(* a fixed-point code times its step: the exact model's value IS a float32 value *)
Theorem fixed_point_code_is_a_float32_value code step_exp : code <> 0 -> Z.abs code < 2 ^ 24 ->
  -126 <= Z.log2 (Z.abs code) + step_exp ->
  req (fl (rscale (rofZ code) step_exp)) (rscale (rofZ code) step_exp) = true.
Proof.
  intros Hc Hb Hn. unfold rscale, rofZ, sc_num, sc_den. cbn [rnum rden fst snd].
  destruct (0 <=? step_exp) eqn:E.
  - apply fl_exact_integer_scaled; [assumption|assumption|lia].
  - replace (1 * 2 ^ (- step_exp)) with (2 ^ (- step_exp)) by lia. apply fl_exact_fraction; [assumption|assumption|lia|lia].
Qed.
Theorem zero_is_a_float32_value : fl (0, 1) = (0, 1).
Proof. reflexivity. Qed.

Example fl_exact_examples :
  req (fl (5, 8)) (5, 8) = true /\ req (fl (16777215 * 2 ^ 100, 1)) (16777215 * 2 ^ 100, 1) = true /\
  req (fl (16777217, 1)) (16777217, 1) = false /\ fl (1, 2 ^ 127) = (0, 1).
Proof. vm_compute. repeat split; reflexivity. Qed.

(* quantized_bits with at most 23 unsigned bits: every output of the exact model (scale 1) is a float32 value, so TensorFlow's
   float32 result and the model's rational value can be compared bit for bit *)
From QV Require Import Quant.Fixed Quant.FixedThm.
Theorem qbits_output_is_a_float32_value c a b : 1 <= qb_ub c <= 23 -> -126 <= qb_se c ->
  let v := rscale (rofZ (qb_code c a b)) (qb_se c) in req (fl v) v = true.
Proof.
  intros Hub Hse v. unfold v.
  pose proof (qb_code_range c a b ltac:(lia)) as [Lo Hi].
  assert (P : 2 ^ qb_ub c <= 2 ^ 23) by (apply Z.pow_le_mono_r; lia).
  assert (P1 : 1 <= 2 ^ qb_ub c) by (apply q2ge1; lia).
  assert (Bd : Z.abs (qb_code c a b) < 2 ^ 24).
  { unfold qb_lo, qb_hi in *. replace (0 <? qb_ub c) with true in * by lia. change (2 ^ 24) with (2 * 2 ^ 23).
    destruct (qb_kn c), (qb_sym c); cbn [b2z] in *; lia. }
  destruct (Z.eq_dec (qb_code c a b) 0) as [Z0|NZ].
  - rewrite Z0. unfold rscale, rofZ, sc_num, sc_den. cbn [rnum rden fst snd]. destruct (0 <=? qb_se c); unfold fl, req; cbn; lia.
  - apply fixed_point_code_is_a_float32_value; [assumption|assumption|]. pose proof (Z.log2_nonneg (Z.abs (qb_code c a b))). lia.
Qed.

(* Quant/Grad.v -- C06: return expressions of the quantizers as texp and the
   theorems "forward value is the quantized value, gradient is the surrogate's". *)
From Coq Require Import ZArith List Bool Lia.
From QV Require Import Base.ZQ Base.FL Base.Texp.
Open Scope Z_scope.

Lemma req_iff x y : req x y = true <-> rnum x * rden y = rnum y * rden x.
Proof. unfold req. lia. Qed.

(* ---- the two generic facts ---- *)
(* adding anything under stop_gradient never changes the gradient *)
Theorem stop_adds_no_gradient x s e : req (grad x (Add s (Stop e))) (grad x s) = true.
Proof. unfold grad. cbn [ev]. destruct (ev x s) as [vs ds]. cbn [fst snd].
  apply req_iff. destruct ds as [a b]. cbv [radd rzero rnum rden fst snd]. ring. Qed.

Theorem ste_gradient_is_surrogate_gradient x s f q : req (grad x (ste s f q)) (grad x s) = true.
Proof. apply stop_adds_no_gradient. Qed.

Theorem ste_value_interpolates x s f q :
  req (val x (ste s f q)) (radd (val x s) (rmul f (rsub (val x q) (val x s)))) = true.
Proof. unfold val, ste. cbn [ev]. destruct (ev x s) as [vs ds]. destruct (ev x q) as [vq dq]. cbn [fst snd].
  apply req_iff. destruct vs as [a b], f as [c d], vq as [e g].
  cbv [radd rmul rsub rneg rzero rnum rden fst snd]. ring. Qed.

Theorem non_ste_gradient x s f q :
  req (grad x (non_ste s f q)) (rmul (rsub rone f) (grad x s)) = true.
Proof. unfold grad, non_ste. cbn [ev]. destruct (ev x s) as [vs ds]. destruct (ev x q) as [vq dq]. cbn [fst snd].
  apply req_iff. destruct vs as [a b], f as [c d], ds as [e g].
  cbv [radd rmul rsub rneg rzero rone rnum rden fst snd]. ring. Qed.

Theorem round_through_value x e : 0 < rden (val x e) ->
  req (val x (round_through e)) (rofZ (rround (val x e))) = true.
Proof. intros H. unfold val, round_through in *. cbn [ev]. destruct (ev x e) as [v d]. cbn [fst snd] in *.
  apply req_iff. destruct v as [a b]. cbv [radd rneg rofZ rnum rden fst snd] in *. ring. Qed.
Theorem round_through_gradient x e : req (grad x (round_through e)) (grad x e) = true.
Proof. apply stop_adds_no_gradient. Qed.

(* ---- surrogates of the individual quantizers ---- *)
(* quantized_bits / quantized_po2 / constant-scale binary & ternary: identity *)
Definition sur_identity : texp := Var.
Theorem identity_gradient_is_one x : grad x sur_identity = rone.
Proof. reflexivity. Qed.

(* quantized_relu (2376-2384): x_u *)
Definition sur_relu (slope : rat) (top : option rat) : texp :=
  match top with
  | Some t => WhereLe Var (Const t) (Relu slope Var) (Const t)
  | None => Relu slope Var
  end.
Theorem relu_gradient slope top x : 0 < rden x ->
  grad x (sur_relu slope top) =
  match top with
  | Some t => if rle x t then (if 0 <? rnum x then rone else rmul slope rone) else rzero
  | None => if 0 <? rnum x then rone else rmul slope rone
  end.
Proof. intros H. unfold grad, sur_relu. destruct top as [t|]; cbn [ev fst snd].
  - destruct (rle x t); cbn [ev fst snd]; [destruct (0 <? rnum x); reflexivity | reflexivity].
  - destruct (0 <? rnum x); reflexivity. Qed.

(* quantized_linear (990-1019): x + f*(xq - x), xq = (round_through(clip(x/qs) - shift) + shift)*qs *)
Definition lin_expr (qs lo hi shift f : rat) : texp :=
  let scaled := Mul Var (Const (rinv qs)) in
  let xq := Mul (Add (round_through (Sub (Clip lo hi scaled) (Const shift))) (Const shift)) (Const qs) in
  Add Var (Mul (Const f) (Sub xq Var)).
(* gradient for f = 1: 1 inside [qs*lo, qs*hi], 0 outside (closed interval) *)
Theorem linear_gradient qs lo hi shift x : 0 < rnum qs -> 0 < rden qs -> 0 < rden x ->
  req (grad x (lin_expr qs lo hi shift rone))
      (if rle lo (rmul x (rinv qs)) && rle (rmul x (rinv qs)) hi then rone else rzero) = true.
Proof. intros Hq Hd Hx. unfold grad, lin_expr, round_through. cbn [ev fst snd].
  destruct (rle lo (rmul x (rinv qs)) && rle (rmul x (rinv qs)) hi) eqn:C.
  - apply req_iff. unfold rinv. apply Z.ltb_lt in Hq as Hq'. rewrite Hq'.
    destruct qs as [a b], x as [c d]. cbv [radd rmul rsub rneg rzero rone rnum rden fst snd] in *. ring.
  - apply req_iff. unfold rinv. apply Z.ltb_lt in Hq as Hq'. rewrite Hq'.
    destruct qs as [a b], x as [c d]. cbv [radd rmul rsub rneg rzero rone rnum rden fst snd] in *. ring.
Qed.

(* quantized_tanh / quantized_sigmoid with the hard surrogate:
   clip(round_through(p*m)/m, lo, hi): the outer clip looks at the ROUNDED value *)
Definition hard_sig : texp := Clip rzero rone (Add (Mul (Const (1, 2)) Var) (Const (1, 2))).
Definition qtanh_expr (m lo hi : rat) : texp :=
  let p := Sub (Mul (Const (2, 1)) hard_sig) (Const rone) in
  Clip lo hi (Mul (round_through (Mul p (Const m))) (Const (rinv m))).
Definition qsig_expr (m lo hi : rat) : texp :=
  Clip lo hi (Mul (round_through (Mul hard_sig (Const m))) (Const (rinv m))).

(* unscaled binary / ternary: tanh first (oracle with its derivative), then sign through *)
Definition bin_unscaled (th th' : rat -> rat) (q : texp) : texp :=
  let s := Oracle th th' Var in Add s (Stop (Add (Neg s) q)).
Theorem bin_unscaled_gradient th th' q x :
  req (grad x (bin_unscaled th th' q)) (rmul (th' x) rone) = true.
Proof. unfold bin_unscaled. eapply eq_trans; [apply stop_adds_no_gradient|].
  unfold grad. cbn [ev fst snd]. reflexivity. Qed.

(* gradients are never identically zero on the unclipped range: witnesses *)
Theorem relu_gradient_nonzero_inside slope : exists x, grad x (sur_relu slope None) = rone.
Proof. exists (1, 1). reflexivity. Qed.
Theorem linear_gradient_nonzero_inside : exists x, req (grad x (lin_expr (1, 4) (-8, 1) (7, 1) rzero rone)) rone = true.
Proof. exists (1, 3). vm_compute. reflexivity. Qed.

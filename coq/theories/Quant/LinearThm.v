(* Quant/LinearThm.v -- C02 for quantized_linear with ANY constant positive scale alpha (the multi-bit formats, i.e. not the 1-bit
   signed special case): the code is monotone in the input, it is the nearest admissible code, and re-quantizing a quantized value
   returns it unchanged -- for every configuration, every positive rational scale and every rational input. *)
From Coq Require Import ZArith Bool Lia ZifyBool.
From QV Require Import Base.ZQ Base.FL Quant.Fixed Quant.FixedThm.
Open Scope Z_scope.

Lemma sc_num_pos a k : 0 < a -> 0 < sc_num a k.
Proof. intros Ha. unfold sc_num. destruct (0 <=? k) eqn:E; [|exact Ha]. assert (0 < 2 ^ k) by (apply pow2_pos'; lia). nia. Qed.

(* the quantization scale alpha * 2^(integer - unsigned bits) is a positive rational *)
Lemma qs_pos c alpha : 0 < rnum alpha -> 0 < rden alpha ->
  0 < rnum (rscale alpha (ql_se c)) /\ 0 < rden (rscale alpha (ql_se c)).
Proof. intros Hn Hd. unfold rscale. cbn [rnum rden fst snd]. split; [apply sc_num_pos | apply sc_den_pos]; assumption. Qed.

(* clipping an in-range integer-valued rational leaves it alone *)
Lemma rclip_inside lo hi k d : 0 < d -> lo <= k <= hi -> rclip (rofZ lo) (rofZ hi) (k * d, d) = (k * d, d).
Proof. intros Hd [L U]. unfold rclip, rmax, rmin, rlt, rofZ. cbn [rnum rden fst snd].
  replace (k * d * 1 <? lo * d) with false by nia. cbn iota. cbn [rnum rden fst snd].
  replace (hi * d <? k * d * 1) with false by nia. reflexivity. Qed.

(* ---- idempotence: q(q(x)) = q(x), syntactically, for every positive scale ---- *)
Theorem ql_code_of_value c alpha k : 0 < rnum alpha -> 0 < rden alpha -> ql_lo c <= k <= ql_hi c ->
  ql_code c alpha (rmul (rofZ k) (rscale alpha (ql_se c))) = k.
Proof.
  intros Hn Hd Hk. destruct (qs_pos c alpha Hn Hd) as [Pa Pb].
  unfold ql_code. set (qs := rscale alpha (ql_se c)) in *. destruct qs as [a b]. cbn [rnum rden fst snd] in Pa, Pb.
  assert (P : rdiv (rmul (rofZ k) (a, b)) (a, b) = (k * (1 * b * a), 1 * b * a)).
  { unfold rdiv, rinv, rmul, rofZ. cbn [rnum rden fst snd]. replace (0 <? a) with true by lia. cbn [rnum rden fst snd]. f_equal. ring. }
  rewrite P. rewrite rclip_inside by (try nia; exact Hk).
  unfold rround. cbn [rnum rden fst snd]. apply rhe_int. nia.
Qed.
Theorem ql_idempotent c alpha x : ql_sign c = false -> 0 <= ql_ub c -> 0 < rnum alpha -> 0 < rden alpha -> 0 < rden x ->
  ql_val c alpha (ql_val c alpha x) = ql_val c alpha x.
Proof.
  intros S Hub Hn Hd Hx. unfold ql_val. rewrite S.
  rewrite ql_code_of_value; [reflexivity|assumption|assumption|]. apply ql_code_range; assumption.
Qed.

(* ---- monotone: a larger input never gets a smaller code ---- *)
Lemma rle_trans_lt p q l : 0 < rden p -> 0 < rden q -> 0 < rden l -> rle p q = true -> rlt q l = true -> rlt p l = true.
Proof. destruct p as [pa pb], q as [qa qb], l as [la lb]. unfold rle, rlt. cbn [rnum rden fst snd]. intros Hp Hq Hl H1 H2.
  assert (pa * qb * lb <= qa * pb * lb) by nia. assert (qa * lb * pb < la * qb * pb) by nia.
  assert (pa * lb * qb < la * pb * qb) by nia. nia. Qed.
Lemma rlt_trans_le l p q : 0 < rden p -> 0 < rden q -> 0 < rden l -> rlt l p = true -> rle p q = true -> rlt l q = true.
Proof. destruct p as [pa pb], q as [qa qb], l as [la lb]. unfold rle, rlt. cbn [rnum rden fst snd]. intros Hp Hq Hl H1 H2.
  assert (la * pb * qb < pa * lb * qb) by nia. assert (pa * qb * lb <= qa * pb * lb) by nia.
  assert (la * qb * pb < qa * lb * pb) by nia. nia. Qed.
Lemma rle_refl' x : rle x x = true. Proof. unfold rle. lia. Qed.
Lemma rle_of_not_lt x y : rlt x y = false -> rle y x = true. Proof. unfold rlt, rle. lia. Qed.

Lemma rmax_mono lo p q : 0 < rden p -> 0 < rden q -> 0 < rden lo -> rle p q = true -> rle (rmax p lo) (rmax q lo) = true.
Proof. intros Hp Hq Hl H. unfold rmax. destruct (rlt p lo) eqn:E1; destruct (rlt q lo) eqn:E2.
  - apply rle_refl'.
  - apply rle_of_not_lt. exact E2.
  - rewrite (rle_trans_lt p q lo Hp Hq Hl H E2) in E1. discriminate.
  - exact H. Qed.
Lemma rmin_mono hi p q : 0 < rden p -> 0 < rden q -> 0 < rden hi -> rle p q = true -> rle (rmin p hi) (rmin q hi) = true.
Proof. intros Hp Hq Hh H. unfold rmin. destruct (rlt hi p) eqn:E1; destruct (rlt hi q) eqn:E2.
  - apply rle_refl'.
  - rewrite (rlt_trans_le hi p q Hp Hq Hh E1 H) in E2. discriminate.
  - apply rle_of_not_lt. exact E1.
  - exact H. Qed.
Lemma rmax_den_pos p lo : 0 < rden p -> 0 < rden lo -> 0 < rden (rmax p lo).
Proof. intros. unfold rmax. destruct (rlt p lo); assumption. Qed.
Lemma rclip_mono lo hi p q : 0 < rden p -> 0 < rden q -> 0 < rden lo -> 0 < rden hi -> rle p q = true ->
  rle (rclip lo hi p) (rclip lo hi q) = true.
Proof. intros Hp Hq Hl Hh H. unfold rclip. apply rmin_mono; try (apply rmax_den_pos; assumption); try assumption.
  apply rmax_mono; assumption. Qed.

Theorem ql_code_monotone c alpha x y : 0 < rnum alpha -> 0 < rden alpha -> 0 < rden x -> 0 < rden y -> 0 <= ql_ub c ->
  rle x y = true -> ql_code c alpha x <= ql_code c alpha y.
Proof.
  intros Hn Hd Hx Hy Hub H. destruct (qs_pos c alpha Hn Hd) as [Pa Pb].
  unfold ql_code. set (qs := rscale alpha (ql_se c)) in *.
  assert (Dx : 0 < rden (rdiv x qs)) by (apply rdiv_den_pos; assumption).
  assert (Dy : 0 < rden (rdiv y qs)) by (apply rdiv_den_pos; assumption).
  assert (Q : rle (rdiv x qs) (rdiv y qs) = true).
  { destruct qs as [a b], x as [xa xb], y as [ya yb]. unfold rdiv, rinv, rmul, rle in *. cbn [rnum rden fst snd] in *.
    replace (0 <? a) with true by lia. cbn [rnum rden fst snd]. apply Z.leb_le. apply Z.leb_le in H.
    replace (xa * b * (yb * a)) with ((xa * yb) * (a * b)) by ring. replace (ya * b * (xb * a)) with ((ya * xb) * (a * b)) by ring.
    apply Z.mul_le_mono_nonneg_r; [nia|exact H]. }
  pose proof (rclip_mono (rofZ (ql_lo c)) (rofZ (ql_hi c)) _ _ Dx Dy ltac:(cbn; lia) ltac:(cbn; lia) Q) as M.
  set (px := rclip (rofZ (ql_lo c)) (rofZ (ql_hi c)) (rdiv x qs)) in *.
  set (py := rclip (rofZ (ql_lo c)) (rofZ (ql_hi c)) (rdiv y qs)) in *.
  assert (Ex : 0 < rden px).
  { unfold px, rclip, rmax, rmin, rofZ. repeat match goal with |- context [if ?c then _ else _] => destruct c end; cbn [rden snd]; lia. }
  assert (Ey : 0 < rden py).
  { unfold py, rclip, rmax, rmin, rofZ. repeat match goal with |- context [if ?c then _ else _] => destruct c end; cbn [rden snd]; lia. }
  unfold rround. apply rhe_mono_frac; [assumption|assumption|]. unfold rle in M. lia.
Qed.

(* ---- nearest: inside the range the code is within half a unit of x / (quantization scale) ---- *)
Theorem ql_code_nearest_inside c alpha x : 0 < rnum alpha -> 0 < rden alpha -> 0 < rden x ->
  let p := rdiv x (rscale alpha (ql_se c)) in
  rle (rofZ (ql_lo c)) p = true -> rle p (rofZ (ql_hi c)) = true ->
  2 * Z.abs (ql_code c alpha x * rden p - rnum p) <= rden p.
Proof.
  intros Hn Hd Hx p L U. destruct (qs_pos c alpha Hn Hd) as [Pa Pb].
  assert (Dp : 0 < rden p) by (apply rdiv_den_pos; assumption).
  unfold ql_code. fold p.
  assert (E : rclip (rofZ (ql_lo c)) (rofZ (ql_hi c)) p = p).
  { unfold rclip, rmax, rmin, rlt, rle, rofZ in *. cbn [rnum rden fst snd] in *.
    replace (rnum p * 1 <? ql_lo c * rden p) with false by lia. cbn iota. cbn [rnum rden fst snd].
    replace (ql_hi c * rden p <? rnum p * 1) with false by lia. reflexivity. }
  rewrite E. unfold rround. apply rhe_half. exact Dp.
Qed.

Example ql_idempotent_nonvacuous :
  let c := QL 4 1 false true in
  ql_val c (3, 10) (ql_val c (3, 10) (7, 5)) = ql_val c (3, 10) (7, 5) /\ ql_code c (3, 10) (7, 5) = 7 /\ ql_code c (3, 10) (1, 5) = 3.
Proof. vm_compute. repeat split; reflexivity. Qed.

(* Quant/Po2Thm.v -- C03: theorems about the power-of-two quantizer model. *)
From Coq Require Import ZArith List Bool Lia ZifyBool.
From QV Require Import Base.ZQ Base.FL Quant.Po2.
Open Scope Z_scope.
Import ListNotations.

Lemma q2ge1 k : 0 <= k -> 1 <= 2 ^ k.
Proof. intros. assert (0 < 2 ^ k) by (apply Z.pow_pos_nonneg; lia). lia. Qed.
Lemma q2add a b : 0 <= a -> 0 <= b -> 2 ^ (a + b) = 2 ^ a * 2 ^ b.
Proof. intros; apply Z.pow_add_r; lia. Qed.

(* ---- "2^l <= |a|/b" written without division ---- *)
Definition P2le (l a b : Z) : Prop := sc_num 1 l * b <= Z.abs a * sc_den 1 l.

Lemma pow2_le_rat_iff l a b : pow2_le_rat l a b = true <-> P2le l a b.
Proof. unfold pow2_le_rat, P2le. lia. Qed.

Lemma sc1 l : (0 <= l -> sc_num 1 l = 2 ^ l /\ sc_den 1 l = 1) /\
              (l < 0 -> sc_num 1 l = 1 /\ sc_den 1 l = 2 ^ (- l)).
Proof. unfold sc_num, sc_den. split; intros H; destruct (0 <=? l) eqn:E; lia. Qed.

(* P2le is downward closed in l *)
Lemma P2le_down l l' a b : 0 < b -> l' <= l -> P2le l a b -> P2le l' a b.
Proof. intros Hb Hl. unfold P2le.
  destruct (sc1 l) as [A1 A2]. destruct (sc1 l') as [B1 B2].
  destruct (Z_lt_le_dec l 0) as [Ln|Lp]; destruct (Z_lt_le_dec l' 0) as [Ln'|Lp'].
  - destruct (A2 Ln) as [-> ->]. destruct (B2 Ln') as [-> ->]. intros H.
    assert (2 ^ (- l) <= 2 ^ (- l')) by (apply Z.pow_le_mono_r; lia). nia.
  - lia.
  - destruct (A1 Lp) as [-> ->]. destruct (B2 Ln') as [-> ->]. intros H.
    pose proof (q2ge1 l Lp). pose proof (q2ge1 (- l') ltac:(lia)). nia.
  - destruct (A1 Lp) as [-> ->]. destruct (B1 Lp') as [-> ->]. intros H.
    assert (2 ^ l' <= 2 ^ l) by (apply Z.pow_le_mono_r; lia). nia.
Qed.

(* characterisation used everywhere: P2le l a b <-> 2^(l+s) * b <= |a| * 2^s for any shift s
   making both exponents non-negative *)
Lemma P2le_shift l a b s : 0 <= s -> 0 <= l + s -> (P2le l a b <-> 2 ^ (l + s) * b <= Z.abs a * 2 ^ s).
Proof. intros Hs Hls. unfold P2le. destruct (sc1 l) as [A1 A2].
  pose proof (q2ge1 s Hs).
  destruct (Z_lt_le_dec l 0) as [Ln|Lp].
  - destruct (A2 Ln) as [-> ->]. replace s with ((l + s) + (- l)) at 2 by lia.
    rewrite (q2add (l + s) (- l)) by lia. pose proof (q2ge1 (l + s) Hls). split; nia.
  - destruct (A1 Lp) as [-> ->]. rewrite q2add by lia. pose proof (q2ge1 l Lp). split; nia.
Qed.

Lemma log2_bounds n : 0 < n -> 2 ^ Z.log2 n <= n < 2 ^ (Z.log2 n + 1).
Proof. intros H. pose proof (Z.log2_spec n H). replace (Z.log2 n + 1) with (Z.succ (Z.log2 n)) by lia. lia. Qed.

(* rlog2 is floor(log2(|a|/b)) *)
Theorem rlog2_spec a b : a <> 0 -> 0 < b ->
  P2le (rlog2 a b) a b /\ ~ P2le (rlog2 a b + 1) a b.
Proof.
  intros Ha Hb.
  set (la := Z.log2 (Z.abs a)). set (lb := Z.log2 b). set (l0 := la - lb).
  pose proof (log2_bounds (Z.abs a) ltac:(lia)) as [A1 A2]. fold la in A1, A2.
  pose proof (log2_bounds b Hb) as [B1 B2]. fold lb in B1, B2.
  assert (La : 0 <= la) by apply Z.log2_nonneg. assert (Lb : 0 <= lb) by apply Z.log2_nonneg.
  rewrite (q2add la 1) in A2 by lia. rewrite (q2add lb 1) in B2 by lia. change (2 ^ 1) with 2 in A2, B2.
  (* with shift s = lb + 2 all exponents below are non-negative *)
  assert (Low : P2le (l0 - 1) a b).
  { apply (P2le_shift (l0 - 1) a b (lb + 1)); [lia | unfold l0; lia |].
    replace (l0 - 1 + (lb + 1)) with la by (unfold l0; lia).
    rewrite (q2add lb 1) by lia. change (2 ^ 1) with 2.
    pose proof (q2ge1 la La). pose proof (q2ge1 lb Lb). nia. }
  assert (High : ~ P2le (l0 + 1) a b).
  { intros H. apply (P2le_shift (l0 + 1) a b lb) in H; [| lia | unfold l0; lia].
    replace (l0 + 1 + lb) with (la + 1) in H by (unfold l0; lia).
    rewrite (q2add la 1) in H by lia. change (2 ^ 1) with 2 in H.
    pose proof (q2ge1 lb Lb). pose proof (q2ge1 la La). nia. }
  unfold rlog2. fold la lb l0.
  destruct (pow2_le_rat (l0 + 1) a b) eqn:E1.
  - apply pow2_le_rat_iff in E1. contradiction.
  - destruct (pow2_le_rat l0 a b) eqn:E2.
    + apply pow2_le_rat_iff in E2. split; assumption.
    + split; [exact Low|]. replace (l0 - 1 + 1) with l0 by lia.
      intros H. apply pow2_le_rat_iff in H. congruence.
Qed.

(* uniqueness: any l with 2^l <= |a|/b < 2^(l+1) is rlog2 *)
Lemma rlog2_unique a b l : a <> 0 -> 0 < b -> P2le l a b -> ~ P2le (l + 1) a b -> rlog2 a b = l.
Proof. intros Ha Hb H1 H2. destruct (rlog2_spec a b Ha Hb) as [S1 S2].
  destruct (Z_lt_le_dec l (rlog2 a b)).
  - exfalso. apply H2. apply (P2le_down (rlog2 a b)); [assumption|lia|assumption].
  - destruct (Z_lt_le_dec (rlog2 a b) l); [|lia].
    exfalso. apply S2. apply (P2le_down l); [assumption|lia|assumption]. Qed.

(* monotone in the value |a|/b *)
Lemma rlog2_mono a b a' b' : a <> 0 -> a' <> 0 -> 0 < b -> 0 < b' ->
  Z.abs a * b' <= Z.abs a' * b -> rlog2 a b <= rlog2 a' b'.
Proof. intros Ha Ha' Hb Hb' H.
  destruct (rlog2_spec a b Ha Hb) as [S1 _]. destruct (rlog2_spec a' b' Ha' Hb') as [_ T2].
  destruct (Z_lt_le_dec (rlog2 a' b') (rlog2 a b)) as [L|L]; [|lia].
  exfalso. apply T2.
  assert (S1' : P2le (rlog2 a' b' + 1) a b) by (apply (P2le_down (rlog2 a b)); [assumption|lia|assumption]).
  set (l := rlog2 a' b' + 1) in *. unfold P2le in *.
  assert (0 < sc_den 1 l) by (apply sc_den_pos; lia).
  assert (0 <= sc_num 1 l) by (unfold sc_num; destruct (0 <=? l); [pose proof (q2ge1 l); lia | lia]).
  nia. Qed.

(* rlog2 of an exact power of two *)
Lemma rlog2_pow2 k : rlog2 (rnum (rpow2 k)) (rden (rpow2 k)) = k.
Proof. assert (D : 0 < rden (rpow2 k)) by (unfold rpow2, rden; cbn [snd]; apply sc_den_pos; lia).
  assert (N : 0 < rnum (rpow2 k)).
  { unfold rpow2, rnum, sc_num; cbn [fst]. destruct (0 <=? k) eqn:E; [pose proof (q2ge1 k); lia | lia]. }
  apply rlog2_unique; try lia.
  - unfold P2le, rpow2, rnum, rden; cbn [fst snd]. rewrite Z.abs_eq; [lia|].
    unfold sc_num. destruct (0 <=? k); [pose proof (Z.pow_nonneg 2 k); lia | lia].
  - unfold P2le, rpow2, rnum, rden in *; cbn [fst snd] in *. rewrite Z.abs_eq by lia.
    destruct (sc1 k) as [A1 A2]. destruct (sc1 (k + 1)) as [B1 B2].
    destruct (Z_lt_le_dec k 0) as [Kn|Kp].
    + destruct (A2 Kn) as [-> ->]. destruct (Z.eq_dec k (-1)) as [->|Kne].
      * cbn. lia.
      * destruct (B2 ltac:(lia)) as [-> ->].
        replace (- k) with (1 + (- (k + 1))) by lia. rewrite (q2add 1) by lia. change (2 ^ 1) with 2.
        pose proof (q2ge1 (- (k + 1)) ltac:(lia)). nia.
    + destruct (A1 Kp) as [-> ->]. destruct (B1 ltac:(lia)) as [-> ->].
      rewrite q2add by lia. change (2 ^ 1) with 2. pose proof (q2ge1 k Kp). nia.
Qed.

(* ---------------- C03 statements on the model ---------------- *)

Lemma min_le_max_exp bits mv : 1 <= bits - 1 - need_sign_bit mv + 1 -> po2_min_exp bits mv <= po2_max_exp bits mv.
Proof. intros. unfold po2_min_exp, po2_max_exp. pose proof (Z.pow_nonneg 2 (bits - 1 - need_sign_bit mv)). lia. Qed.

(* every exponent is inside [mn, mx] *)
Theorem clip_po2_in_range m mn mx mv x : mn <= mx -> mn <= clip_po2 m mn mx mv x <= mx.
Proof. intros H. unfold clip_po2. destruct (rlt x eps32); [lia|]. apply clip_range; assumption. Qed.

Theorem po2_exponent_in_range c x :
  po2_min_exp (p_bits c) (p_mv c) <= po2_max_exp (p_bits c) (p_mv c) ->
  po2_min_exp (p_bits c) (p_mv c) <= snd (po2_q c x) <= po2_max_exp (p_bits c) (p_mv c).
Proof. intros H. unfold po2_q; cbn [snd]. apply clip_po2_in_range; assumption. Qed.

Theorem po2_sign_follows_input c x :
  fst (po2_q c x) = (if rnum x <? 0 then -1 else 1).
Proof. reflexivity. Qed.

Lemma zero_lt_eps : rlt (0, 1) eps32 = true.
Proof. reflexivity. Qed.

Theorem po2_zero_maps_to_smallest c : po2_q c (0, 1) = (1, po2_min_exp (p_bits c) (p_mv c)).
Proof. unfold po2_q, clip_po2, sign1r. replace (rlt (rabs (0, 1)) eps32) with true by reflexivity. reflexivity. Qed.

Theorem rpo2_negative_no_slope c x : r_slope c = None -> rnum x < 0 ->
  rpo2_q c x = (1, rpo2_min_exp (r_bits c) (r_mv c)).
Proof. intros S H. unfold rpo2_q. rewrite S. apply Z.ltb_lt in H. rewrite H. cbn [negb].
  unfold clip_po2. rewrite zero_lt_eps. reflexivity. Qed.

Theorem rpo2_negative_with_slope c x s : r_slope c = Some s -> rnum x < 0 -> fst (rpo2_q c x) = -1.
Proof. intros S H. unfold rpo2_q. rewrite S. apply Z.ltb_lt in H. rewrite H. reflexivity. Qed.

Theorem rpo2_exponent_in_range c x :
  rpo2_min_exp (r_bits c) (r_mv c) <= rpo2_max_exp (r_bits c) (r_mv c) ->
  rpo2_min_exp (r_bits c) (r_mv c) <= snd (rpo2_q c x) <= rpo2_max_exp (r_bits c) (r_mv c).
Proof. intros H. unfold rpo2_q.
  destruct (r_slope c); destruct (negb (rnum x <? 0)); cbn [snd]; apply clip_po2_in_range; assumption. Qed.

(* below the library's epsilon floor the smallest code is emitted *)
Theorem po2_below_eps m mn mx mv x : rlt x eps32 = true -> clip_po2 m mn mx mv x = mn.
Proof. intros H. unfold clip_po2. rewrite H. reflexivity. Qed.

(* log2-nearest: unclipped, unclamped inputs get the unique e with 2^(2e-1) <= x^2 < 2^(2e+1) *)
Theorem po2_rnd_is_log2_nearest mn mx x :
  0 < rnum x -> 0 < rden x -> rlt x eps32 = false ->
  let e := clip_po2 LRnd mn mx None x in
  mn <= exp_rnd x <= mx ->
  P2le (2 * e - 1) (rnum x * rnum x) (rden x * rden x) /\
  ~ P2le (2 * e + 1) (rnum x * rnum x) (rden x * rden x).
Proof.
  intros Hn Hd He e Hin. unfold e, clip_po2. rewrite He. cbn [exp_of]. rewrite clip_id by lia.
  unfold exp_rnd. set (l := rlog2 (rnum x * rnum x) (rden x * rden x)).
  destruct (rlog2_spec (rnum x * rnum x) (rden x * rden x) ltac:(nia) ltac:(nia)) as [S1 S2]. fold l in S1, S2.
  assert (Hd2 : 0 < rden x * rden x) by nia.
  split.
  - apply (P2le_down l); [assumption | lia | assumption].
  - intros H. apply S2. apply (P2le_down (2 * ((l + 1) / 2) + 1)); [assumption | lia | assumption].
Qed.

Theorem po2_floor_is_floor mn mx x :
  0 < rnum x -> 0 < rden x -> rlt x eps32 = false ->
  let e := clip_po2 LFloor mn mx None x in
  mn <= exp_floor x <= mx ->
  P2le e (rnum x) (rden x) /\ ~ P2le (e + 1) (rnum x) (rden x).
Proof.
  intros Hn Hd He e Hin. unfold e, clip_po2. rewrite He. cbn [exp_of]. rewrite clip_id by lia.
  unfold exp_floor. apply rlog2_spec; lia. Qed.

(* monotone on non-negative magnitudes (hence on each sign) *)
Lemma exp_of_mono m x y : 0 < rnum x -> 0 < rden x -> 0 < rden y ->
  rnum x * rden y <= rnum y * rden x -> exp_of m x <= exp_of m y.
Proof. intros Hx Hdx Hdy H. assert (Hy : 0 < rnum y) by nia.
  destruct m; cbn [exp_of].
  - unfold exp_rnd.
    assert (rlog2 (rnum x * rnum x) (rden x * rden x) <= rlog2 (rnum y * rnum y) (rden y * rden y)).
    { apply rlog2_mono; try nia; rewrite !Z.abs_eq by nia; nia. }
    apply Z.div_le_mono; lia.
  - unfold exp_floor. apply rlog2_mono; try lia; rewrite !Z.abs_eq by lia; assumption. Qed.

Theorem clip_po2_monotone m mn mx x y : mn <= mx ->
  0 <= rnum x -> 0 < rden x -> 0 < rden y ->
  rnum x * rden y <= rnum y * rden x ->
  clip_po2 m mn mx None x <= clip_po2 m mn mx None y.
Proof. intros Hm Hx Hdx Hdy H. unfold clip_po2.
  destruct (rlt x eps32) eqn:E1; destruct (rlt y eps32) eqn:E2.
  - lia.
  - pose proof (clip_range mn mx (exp_of m y) Hm). lia.
  - (* y < eps <= x contradicts x <= y *)
    exfalso. unfold rlt, eps32, rnum, rden in *. cbn [fst snd] in *.
    assert (0 < 2 ^ 47) by (apply Z.pow_pos_nonneg; lia).
    destruct x as [a b]; destruct y as [a' b']; cbn [fst snd] in *. nia.
  - apply clip_mono. apply exp_of_mono; try assumption.
    unfold rlt, eps32, rnum, rden in *. cbn [fst snd] in *.
    assert (0 < 2 ^ 47) by (apply Z.pow_pos_nonneg; lia). nia.
Qed.

Lemma rlog2_ext a b a' b' : 0 < a -> 0 < a' -> 0 < b -> 0 < b' -> a * b' = a' * b -> rlog2 a b = rlog2 a' b'.
Proof. intros. apply Z.le_antisymm; apply rlog2_mono; try lia; rewrite !Z.abs_eq by lia; lia. Qed.

Lemma rpow2_pos k : 0 < rnum (rpow2 k) /\ 0 < rden (rpow2 k).
Proof. unfold rpow2, rnum, rden; cbn [fst snd]. split; [|apply sc_den_pos; lia].
  unfold sc_num. destruct (0 <=? k) eqn:E; [pose proof (q2ge1 k); lia | lia]. Qed.

Lemma exp_rnd_pow2 k : exp_rnd (rpow2 k) = k.
Proof. unfold exp_rnd. destruct (rpow2_pos k) as [N D]. destruct (rpow2_pos (2 * k)) as [N2 D2].
  assert (R : rlog2 (rnum (rpow2 k) * rnum (rpow2 k)) (rden (rpow2 k) * rden (rpow2 k)) = 2 * k).
  { rewrite <- (rlog2_pow2 (2 * k)). apply rlog2_ext; try nia.
    unfold rpow2, rnum, rden, sc_num, sc_den; cbn [fst snd].
    destruct (0 <=? k) eqn:E1; destruct (0 <=? 2 * k) eqn:E2; try lia.
    - replace (2 * k) with (k + k) by lia. rewrite q2add by lia. lia.
    - replace (- (2 * k)) with ((- k) + (- k)) by lia. rewrite q2add by lia. lia. }
  rewrite R. replace (2 * k + 1) with (1 + k * 2) by lia. rewrite Z.div_add by lia. reflexivity. Qed.

(* a power-of-two max_value is never exceeded *)
Theorem po2_never_exceeds_pow2_max_value m mn mx k x :
  mn <= mx -> mn <= k -> 0 < rden x -> rlt x eps32 = false ->
  clip_po2 m mn mx (Some (rpow2 k)) x <= k.
Proof. intros Hm Hk Hd He. unfold clip_po2. rewrite He.
  assert (Ek : exp_of m (rpow2 k) = k).
  { destruct m; cbn [exp_of]; [apply exp_rnd_pow2 | unfold exp_floor; apply rlog2_pow2]. }
  destruct (rle (rpow2 k) x) eqn:E.
  - rewrite Ek. unfold clip. lia.
  - (* x < 2^k *)
    assert (D : 0 < rden (rpow2 k)) by (unfold rpow2, rden; cbn [snd]; apply sc_den_pos; lia).
    assert (Hx : 0 < rnum x).
    { unfold rlt, eps32, rnum, rden in *. cbn [fst snd] in *.
      assert (0 < 2 ^ 47) by (apply Z.pow_pos_nonneg; lia). nia. }
    assert (exp_of m x <= exp_of m (rpow2 k)).
    { apply exp_of_mono; try assumption. unfold rle in E. lia. }
    rewrite Ek in H. unfold clip. lia.
Qed.

(* idempotence in 'rnd' mode without max_value: re-quantizing 2^e gives 2^e *)
Theorem po2_rnd_idempotent mn mx x : mn <= mx -> 0 <= rnum x -> 0 < rden x ->
  let e := clip_po2 LRnd mn mx None x in
  (rlt (rpow2 e) eps32 = false \/ e = mn) ->
  clip_po2 LRnd mn mx None (rpow2 e) = e.
Proof. intros Hm Hx Hd e [H|H].
  - unfold clip_po2 at 1. rewrite H. cbn [exp_of]. rewrite exp_rnd_pow2.
    apply clip_id. apply clip_po2_in_range; assumption.
  - unfold clip_po2 at 1. destruct (rlt (rpow2 e) eps32); [lia|].
    cbn [exp_of]. rewrite exp_rnd_pow2. apply clip_id. apply clip_po2_in_range; assumption.
Qed.

(* in 'floor' mode the code 2^-24 is reachable (from eps) but lies below eps:
   re-quantizing it gives the smallest code instead -- not idempotent (bits = 7) *)
Theorem po2_floor_idempotent_refuted :
  exists c x, p_mode c = LFloor /\
    let y := po2_val (po2_q c x) in po2_q c y <> po2_q c x.
Proof. exists (P2 7 None LFloor), eps32. split; [reflexivity|]. vm_compute. discriminate. Qed.

(* max() encloses: |value| <= max(1, 2^max_exp) without max_value *)
Theorem po2_value_le_max c x : p_mv c = None ->
  po2_min_exp (p_bits c) None <= po2_max_exp (p_bits c) None ->
  snd (po2_q c x) <= po2_max_exp (p_bits c) None.
Proof. intros M H. pose proof (po2_exponent_in_range c x) as P. rewrite M in P. apply P. assumption. Qed.

(* quantized_relu_po2.min() with a leaky slope is -slope*2^(bits-1), but outputs go
   down to -2^max_exp: refuted (bits = 4, slope = 1/4, x = -10^9) *)
Definition rpo2_min_reported (c : rpo2cfg) : rat :=
  let mn := rpow2 (rpo2_min_exp (r_bits c) (r_mv c)) in
  match r_slope c with
  | None => mn
  | Some s => if 0 <? r_bits c - 1 then rmin mn (rneg (rpow2 (r_bits c - 1 - s))) else mn
  end.
Theorem rpo2_min_with_slope_refuted :
  exists c x, rlt (po2_val (rpo2_q c x)) (rpo2_min_reported c) = true.
Proof. exists (RP2 4 None LRnd (Some 2)), (-1000000000, 1). vm_compute. reflexivity. Qed.

(* ---- the rounding step, given the value the log kernel returned ---- *)
Lemma rhe_tie_even a b : 0 < b -> 2 * (a mod b) = b -> Z.even (rhe a b) = true.
Proof. intros Hb T. unfold rhe. replace (2 * (a mod b) <? b) with false by lia. replace (b <? 2 * (a mod b)) with false by lia.
  destruct (Z.even (a / b)) eqn:E; [exact E|]. replace (a / b + 1) with (Z.succ (a / b)) by lia.
  rewrite Z.even_succ. rewrite <- Z.negb_even. rewrite E. reflexivity. Qed.
Theorem exp_from_log_in_range m mn mx l : mn <= mx -> mn <= exp_from_log m mn mx l <= mx.
Proof. intros H. unfold exp_from_log, clip. lia. Qed.
(* "rnd": when the clip does not bind, the exponent is within one half of the logarithm the kernel returned, and an exact tie goes
   to the EVEN exponent (tf.round); "floor": the exponent is the floor of that logarithm *)
Theorem exp_from_log_rnd_nearest mn mx l : 0 < rden l -> mn <= rhe (rnum l) (rden l) <= mx ->
  let e := exp_from_log LRnd mn mx l in
  2 * Z.abs (e * rden l - rnum l) <= rden l /\ (2 * (rnum l mod rden l) = rden l -> Z.even e = true).
Proof. intros Hd Hr e. unfold e, exp_from_log, clip. rewrite Z.max_r, Z.min_r by lia.
  split; [apply rhe_half; exact Hd | intros T; apply rhe_tie_even; assumption]. Qed.
Theorem exp_from_log_floor mn mx l : 0 < rden l -> mn <= rnum l / rden l <= mx ->
  let e := exp_from_log LFloor mn mx l in e * rden l <= rnum l < (e + 1) * rden l.
Proof. intros Hd Hr e. unfold e, exp_from_log, clip. rewrite Z.max_r, Z.min_r by lia.
  pose proof (Z.div_mod (rnum l) (rden l)) as D. pose proof (Z.mod_pos_bound (rnum l) (rden l) Hd). nia. Qed.
Theorem chk_exp_from_log_sound m mn mx lb e : chk_exp_from_log m mn mx lb e = 0 ->
  exists l, f32_dec lb = Some l /\ e = exp_from_log m mn mx l.
Proof. unfold chk_exp_from_log. destruct (f32_dec lb) as [l|]; [|discriminate].
  destruct (exp_from_log m mn mx l =? e) eqn:E; [|discriminate]. intros _. exists l. split; [reflexivity|]. apply Z.eqb_eq in E. lia. Qed.
Example exp_from_log_tie : exp_from_log LRnd (-8) 7 (1, 2) = 0 /\ exp_from_log LRnd (-8) 7 (3, 2) = 2 /\ exp_from_log LRnd (-8) 7 (5, 2) = 2 /\
  exp_from_log LFloor (-8) 7 (-1, 2) = -1 /\ exp_from_log LRnd (-8) 7 (41, 2) = 7.
Proof. vm_compute. repeat split; reflexivity. Qed.

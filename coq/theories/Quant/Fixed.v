(* Quant/Fixed.v -- executable models of the fixed-point quantizers of
   qkeras/quantizers.py (quantized_bits, quantized_linear, quantized_relu,
   quantized_tanh, quantized_sigmoid).  Inputs are exact rationals a/b.
   The integer *code* is the object of the theorems (FixedThm.v); the
   returned *value* is scale * code * 2^step_exp.  Nothing here is proved:
   proofs live in FixedThm.v so that the model still runs if a proof breaks. *)
From Coq Require Import ZArith List Bool Lia.
From QV Require Import Base.ZQ Base.FL.
Open Scope Z_scope.
Import ListNotations.

(* ------------------------------------------------------------------ *)
(* quantized_bits (legacy), alpha = None or a constant                  *)
(* quantizers.py:1320-1452, non-auto path                              *)
Record qbits := QB { qb_bits : Z; qb_int : Z; qb_kn : bool; qb_sym : bool }.

Definition qb_ub (c : qbits) : Z := qb_bits c - b2z (qb_kn c).
Definition qb_lo (c : qbits) : Z :=
  if 0 <? qb_ub c then b2z (qb_kn c) * (- 2 ^ qb_ub c + b2z (qb_sym c))
  else if qb_kn c then -1 else 0.
Definition qb_hi (c : qbits) : Z := if 0 <? qb_ub c then 2 ^ qb_ub c - 1 else 1.
(* exponent of the step: value = code * 2^qb_se *)
Definition qb_se (c : qbits) : Z := if 0 <? qb_ub c then qb_int c - qb_ub c else 0.

Definition sign1 (a : Z) : Z := if a <? 0 then -1 else 1.   (* zero counts as +1 *)

Definition qb_code (c : qbits) (a b : Z) : Z :=
  if 0 <? qb_ub c then
    let k := qb_ub c - qb_int c in
    clip (qb_lo c) (qb_hi c) (rhe (sc_num a k) (sc_den b k))
  else
    let s := sign1 a in if qb_kn c then s else (s + 1) / 2.

(* value with constant scale alpha (a rational; None = 1) *)
Definition qb_val (c : qbits) (alpha : rat) (x : rat) : rat :=
  rmul alpha (rscale (rofZ (qb_code c (rnum x) (rden x))) (qb_se c)).

(* reporters: max() / min() (1460-1483) ignore alpha; range() (1485-1497) *)
Definition qb_max (c : qbits) : rat :=
  if 0 <? qb_ub c then rmax (1, 1) (rpow2 (qb_int c)) else (1, 1).
Definition qb_min (c : qbits) : rat :=
  if negb (qb_kn c) then (0, 1)
  else if 0 <? qb_ub c then rneg (rmax (1, 1) (rpow2 (qb_int c))) else (-1, 1).
(* range(): codes in binary order 0..2^(b-1)-1, -2^(b-1)..-1 times 2^(int-bits+1) *)
Definition qb_range_codes (bits : Z) : list Z :=
  map (fun i => let x := Z.of_nat i in
                if 2 ^ (bits - 1) <=? x then x - 2 ^ (bits - 1) - 2 ^ (bits - 1) else x)
      (seq 0 (Z.to_nat (2 ^ bits))).

(* ------------------------------------------------------------------ *)
(* quantized_linear (957-1019), alpha = None or constant                *)
Record qlin := QL { ql_bits : Z; ql_int : Z; ql_sym : bool; ql_kn : bool }.
Definition ql_sign (c : qlin) : bool := (ql_bits c =? 1) && ql_kn c.
Definition ql_ub (c : qlin) : Z := ql_bits c - b2z (ql_kn c).
Definition ql_lo (c : qlin) : Z := b2z (ql_kn c) * (- 2 ^ ql_ub c + b2z (ql_sym c)).
Definition ql_hi (c : qlin) : Z := 2 ^ ql_ub c - 1.
Definition ql_se (c : qlin) : Z := ql_int c - ql_ub c.        (* data_type_scale *)
(* code of x/(alpha*2^se): clip first, then round (the order of the code) *)
Definition ql_code (c : qlin) (alpha x : rat) : Z :=
  let p := rdiv x (rscale alpha (ql_se c)) in
  rround (rclip (rofZ (ql_lo c)) (rofZ (ql_hi c)) p).
(* 1-bit signed: doubled code in {-1,+1} meaning -1/2,+1/2 quantization scales *)
Definition ql_code2_sign (c : qlin) (alpha x : rat) : Z :=
  (* float32-faithful: the quotient can flush to zero and cl - 0.5 rounds, so that
     tiny negative inputs come out positive (below 2^-25 quantization scales) *)
  let p := fdiv x (rscale alpha (ql_se c)) in
  let cl := rclip (-1, 2) (1, 2) p in
  2 * rround (fsub cl (1, 2)) + 1.
Definition ql_val (c : qlin) (alpha x : rat) : rat :=
  let qs := rscale alpha (ql_se c) in
  if ql_sign c then rmul (ql_code2_sign c alpha x, 2) qs
  else rmul (rofZ (ql_code c alpha x)) qs.

(* ------------------------------------------------------------------ *)
(* quantized_relu without sigmoid (2360-2418)                           *)
(* slope = None or Some s meaning negative_slope = 2^-s (s >= 0)        *)
Record qrelu := QR { qr_bits : Z; qr_int : Z; qr_slope : option Z;
                     qr_qclip : bool; qr_rub : option rat }.
Definition qr_nsb (c : qrelu) : Z :=
  qr_bits c - (match qr_slope c with Some _ => 1 | None => 0 end).
Definition qr_se (c : qrelu) : Z := qr_int c - qr_nsb c.
Definition qr_hi (c : qrelu) : Z := 2 ^ qr_nsb c - 1.
Definition qr_lo (c : qrelu) : Z :=
  match qr_slope c with Some s => - 2 ^ (qr_nsb c - s) | None => 0 end.
Definition qr_code (c : qrelu) (a b : Z) : Z :=
  let k := qr_nsb c - qr_int c in
  let pos := clip 0 (qr_hi c) (rhe (sc_num a k) (sc_den b k)) in
  match qr_slope c with
  | None => pos
  | Some s => pos + clip (qr_lo c) 0 (rhe (sc_num a (k - s)) (sc_den b (k - s)))
  end.
Definition qr_val (c : qrelu) (x : rat) : rat :=
  let v := rscale (rofZ (qr_code c (rnum x) (rden x))) (qr_se c) in
  match qr_rub c with
  | Some u => if qr_qclip c then v else rmin v u
  | None => v
  end.
(* the unquantized surrogate x_u (2376-2384) *)
Definition qr_act (c : qrelu) (x : rat) : rat :=
  let lr := if rlt x (0, 1) then
              match qr_slope c with Some s => rscale x (- s) | None => (0, 1) end
            else x in
  if qr_qclip c then
    let top := rsub (rpow2 (qr_int c)) (rpow2 (qr_se c)) in
    if rle x top then lr else top
  else match qr_rub c with
       | Some u => if rle x u then lr else u
       | None => lr
       end.
Definition qr_max (c : qrelu) : rat :=
  if 0 <? qr_nsb c then rmax (1, 1) (rpow2 (qr_int c)) else (1, 1).
Definition qr_min (c : qrelu) : rat :=
  match qr_slope c with
  | None => (0, 1)
  | Some s => if 0 <? qr_bits c - 1 then rmin (0, 1) (rneg (rscale (rpow2 (qr_int c)) (- s)))
              else (-1, 1)
  end.

(* ------------------------------------------------------------------ *)
(* sigmoid / tanh surrogates computed in float32 (512-572)              *)
Inductive sigmode := SHard | SSmooth.
Definition fsigmoid (m : sigmode) (x : rat) : rat :=
  match m with
  | SHard => rclip (0, 1) (1, 1) (fadd (fmul (1, 2) x) (1, 2))
  | SSmooth => rclip (0, 1) (1, 1) (fadd (fmul (3, 16) x) (1, 2))
  end.
(* mathematically exact surrogates (no float rounding) *)
Definition xsigmoid (m : sigmode) (x : rat) : rat :=
  match m with
  | SHard => rclip (0, 1) (1, 1) (radd (rmul (1, 2) x) (1, 2))
  | SSmooth => rclip (0, 1) (1, 1) (radd (rmul (3, 16) x) (1, 2))
  end.

(* quantized_tanh (2597-2605): p given (any surrogate), codes at step 2^-(bits-1) *)
Definition qt_lo (bits : Z) (sym : bool) : Z := - 2 ^ (bits - 1) + b2z sym.
Definition qt_hi (bits : Z) : Z := 2 ^ (bits - 1) - 1.
Definition qt_code (bits : Z) (sym : bool) (p : rat) : Z :=
  clip (qt_lo bits sym) (qt_hi bits) (rround (rscale p (bits - 1))).
Definition qt_val bits sym p : rat := rscale (rofZ (qt_code bits sym p)) (- (bits - 1)).
Definition tanh_of_sig (m : sigmode) (x : rat) : rat := fsub (fmul (2, 1) (fsigmoid m x)) (1, 1).

(* quantized_sigmoid (2663-2671): codes at step 2^-bits *)
Definition qs_lo (sym : bool) : Z := b2z sym.
Definition qs_hi (bits : Z) : Z := 2 ^ bits - 1.
Definition qs_code (bits : Z) (sym : bool) (p : rat) : Z :=
  clip (qs_lo sym) (qs_hi bits) (rround (rscale p bits)).
Definition qs_val bits sym p : rat := rscale (rofZ (qs_code bits sym p)) (- bits).

(* quantized_relu with use_sigmoid (2386-2396), slope = None *)
Definition qrs_code (c : qrelu) (p : rat) : Z :=
  (* p = sigmoid(x / m_i); code = clip(2*round(p*m) - m, 0, m-1) *)
  let m := 2 ^ qr_nsb c in clip 0 (m - 1) (2 * rround (rscale p (qr_nsb c)) - m).

(* ------------------------------------------------------------------ *)
(* checkers used by the correspondence runs                             *)
(* in-hypothesis: |x| < 2^24 steps *)
Definition within_steps (x : rat) (se : Z) : bool :=
  rlt (rabs x) (rpow2 (24 + se)).

(* result codes: 0 agree, 1 DISAGREE, 2 outside hypothesis (skipped), 3 non finite *)
Definition cmp_exact (hyp : bool) (y : option rat) (v : rat) : Z :=
  match y with
  | None => if hyp then 1 else 3
  | Some yy => if negb hyp then 2 else if req yy v then 0 else 1
  end.

(* |y - v| <= 2^-22 * max(|x|, |v|) : two float32 roundings of the STE sum *)
Definition close22 (x y v : rat) : bool :=
  rle (rscale (rabs (rsub y v)) 22) (rmax (rabs x) (rabs v)).
Definition cmp_close (hyp : bool) (x : rat) (y : option rat) (v : rat) : Z :=
  match y with
  | None => if hyp then 1 else 3
  | Some yy => if negb hyp then 2 else if close22 x yy v then 0 else 1
  end.

Definition is_pow2_rat (x : rat) : bool :=
  let a := rnum (rnorm x) in let b := rden (rnorm x) in
  (0 <? a) && (2 ^ Z.log2 a =? a) && (2 ^ Z.log2 b =? b) && ((a =? 1) || (b =? 1)).

Definition chk_qbits (c : qbits) (alpha : rat) (xb yb : Z) : Z :=
  match f32_dec xb with
  | None => 3
  | Some x =>
    (* below 2^24 steps of the OUTPUT grid alpha * 2^se *)
    let hyp := rlt (rabs x) (rmul (rmin (1, 1) alpha) (rpow2 (24 + qb_se c))) in
    let v := qb_val c alpha x in
    if is_pow2_rat alpha then cmp_exact hyp (f32_dec yb) v
    else cmp_close hyp x (f32_dec yb) v
  end.

Definition chk_qlin (c : qlin) (alpha : rat) (xb yb : Z) : Z :=
  match f32_dec xb with
  | None => 3
  | Some x =>
    (* output grid: alpha*2^se, halved for the 1-bit sign format (+-qs/2) *)
    let hyp := rlt (rabs x) (rmul alpha (rpow2 ((if ql_sign c then 23 else 24) + ql_se c))) in
    let v := ql_val c alpha x in
    if is_pow2_rat alpha then cmp_exact hyp (f32_dec yb) v
    else cmp_close hyp x (f32_dec yb) v
  end.

Definition chk_qrelu (c : qrelu) (xb yb : Z) : Z :=
  match f32_dec xb with
  | None => 3
  | Some x => cmp_exact (within_steps x (qr_se c)) (f32_dec yb) (qr_val c x)
  end.

Definition chk_qtanh (bits : Z) (sym : bool) (m : sigmode) (xb yb : Z) : Z :=
  match f32_dec xb with
  | None => 3
  | Some x => cmp_exact true (f32_dec yb) (qt_val bits sym (tanh_of_sig m x))
  end.

Definition chk_qsigmoid (bits : Z) (sym : bool) (m : sigmode) (xb yb : Z) : Z :=
  match f32_dec xb with
  | None => 3
  | Some x => cmp_exact true (f32_dec yb) (qs_val bits sym (fsigmoid m x))
  end.

(* property predicate for outputs whose surrogate is an oracle (real tanh /
   sigmoid): y = k * 2^se with lo <= k <= hi *)
Definition on_grid_in_range (y : rat) (se lo hi : Z) : bool :=
  let k := rscale y (- se) in
  (rnum k mod rden k =? 0) && (lo <=? rnum k / rden k) && (rnum k / rden k <=? hi).

(* nearest within half a step of a surrogate value p (given), tolerance 2^-tol steps *)
Definition near_half_step (y p : rat) (se tol : Z) : bool :=
  rle (rabs (rsub y p)) (radd (rpow2 (se - 1)) (rpow2 (se - tol))).

(* quantized_relu(use_sigmoid=1), hard/smooth surrogate, no slope *)
Definition chk_qrelu_sig (c : qrelu) (m : sigmode) (xb yb : Z) : Z :=
  match f32_dec xb with
  | None => 3
  | Some x =>
    let p := fsigmoid m (rscale x (- qr_int c)) in
    cmp_exact (within_steps x (qr_se c)) (f32_dec yb) (rscale (rofZ (qrs_code c p)) (qr_se c))
  end.

(* predicate-level checks (oracle surrogates): on the grid and in range ... *)
Definition chk_grid (se lo hi : Z) (yb : Z) : Z :=
  match f32_dec yb with
  | None => 1
  | Some y => if on_grid_in_range y se lo hi then 0 else 1
  end.
(* ... and within half a step (+2^-tol steps) of the clipped surrogate value p
   (p given as a float64 bit pattern computed by the harness) *)
Definition chk_grid_near (se lo hi tol : Z) (yb pb64 : Z) : Z :=
  match f32_dec yb, f64_dec pb64 with
  | Some y, Some p =>
    let p' := rclip (rscale (rofZ lo) se) (rscale (rofZ hi) se) p in
    if on_grid_in_range y se lo hi && near_half_step y p' se tol then 0 else 1
  | _, _ => 1
  end.

(* min()/max() reporters decoded from float64 bits vs the model *)
Definition chk_rat_eq (vb64 : Z) (v : rat) : Z :=
  match f64_dec vb64 with Some r => if req r v then 0 else 1 | None => 1 end.

Fixpoint tally (rs : list Z) (i : Z) (ok skip nf : Z) (bad : list Z) : Z * Z * Z * list Z :=
  match rs with
  | [] => (ok, skip, nf, rev bad)
  | r :: rs' =>
    if r =? 0 then tally rs' (i + 1) (ok + 1) skip nf bad
    else if r =? 2 then tally rs' (i + 1) ok (skip + 1) nf bad
    else if r =? 3 then tally rs' (i + 1) ok skip (nf + 1) bad
    else tally rs' (i + 1) ok skip nf (i :: bad)
  end.
Definition summarize (rs : list Z) : list Z :=
  let '(ok, skip, nf, bad) := tally rs 0 0 0 0 [] in ok :: skip :: nf :: bad.

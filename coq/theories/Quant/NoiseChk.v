(* Quant/NoiseChk.v -- correspondence checkers for the qnoise mixing (C07):
   float32 evaluation order of the return expressions on top of the Fixed.v models. *)
From Coq Require Import ZArith List Bool.
From QV Require Import Base.ZQ Base.FL Quant.Fixed Quant.Noise.
Open Scope Z_scope.
Import ListNotations.

(* fb: float32 bits of the factor; ob: float32 bits of (1 - factor) as the code computes it *)
Definition mix32 (ste : bool) (s f omf q : rat) : rat :=
  if ste then mix_ste32 s f q else fadd (fmul omf s) (fmul f q).

Definition chk_noise_qbits (c : qbits) (ste : bool) (fb ob xb yb : Z) : Z :=
  match f32_dec xb, f32_dec fb, f32_dec ob with
  | Some x, Some f, Some omf =>
    cmp_exact (within_steps x (qb_se c - 1)) (f32_dec yb) (mix32 ste x f omf (qb_val c (1, 1) x))
  | _, _, _ => 3
  end.
Definition chk_noise_qrelu (c : qrelu) (ste : bool) (fb ob xb yb : Z) : Z :=
  match f32_dec xb, f32_dec fb, f32_dec ob with
  | Some x, Some f, Some omf =>
    cmp_exact (within_steps x (qr_se c - 1)) (f32_dec yb) (mix32 ste (qr_act c x) f omf (qr_val c x))
  | _, _, _ => 3
  end.
Definition chk_noise_qlin (c : qlin) (fb xb yb : Z) : Z :=
  match f32_dec xb, f32_dec fb with
  | Some x, Some f =>
    cmp_exact (within_steps x (ql_se c - 1)) (f32_dec yb) (mix_linear32 x f (ql_val c (1, 1) x))
  | _, _ => 3
  end.

(* Quant/Stoch.v -- C08: stochastic rounding (quantizers.py:575-648, 2747-2753)
   with the random draw u as an explicit argument. *)
From Coq Require Import ZArith List Bool Lia ZifyBool.
From QV Require Import Base.ZQ Base.FL Quant.Fixed.
Ltac Zify.zify_post_hook ::= Z.to_euclidean_division_equations.
Open Scope Z_scope.
Import ListNotations.

(* stochastic_round(x, precision = 1): floor if frac < u else ceil.  Exact arithmetic,
   a/b the value to round, (un, ud) the draw u in [0,1) *)
Definition sround (a b un ud : Z) : Z :=
  let fl_ := a / b in
  (* frac = a/b - floor = (a mod b)/b ;  frac < u  <->  (a mod b) * ud < un * b *)
  if (a mod b) * ud <? un * b then fl_ else qceil a b.

(* _round_through (616-648): learning-phase switch *)
Definition round_through (stoch phase : bool) (a b un ud : Z) : Z :=
  if stoch && phase then sround a b un ud else rhe a b.

Lemma qceil_spec a b : 0 < b -> qceil a b = if a mod b =? 0 then a / b else a / b + 1.
Proof. intros Hb. unfold qceil. destruct (a mod b =? 0) eqn:E; nia. Qed.

(* never further than the two adjacent integers *)
Theorem sround_adjacent a b un ud : 0 < b -> sround a b un ud = a / b \/ sround a b un ud = qceil a b.
Proof. intros. unfold sround. destruct (_ <? _); auto. Qed.

Theorem sround_brackets a b un ud : 0 < b ->
  sround a b un ud * b - b < a /\ a < sround a b un ud * b + b.
Proof. intros Hb. unfold sround. rewrite qceil_spec by assumption.
  destruct (_ <? _); destruct (a mod b =? 0) eqn:E; nia. Qed.

(* inputs that are already integers are returned unchanged, whatever the draw *)
Theorem sround_fixpoint k b un ud : 0 < b -> sround (k * b) b un ud = k.
Proof. intros Hb. unfold sround. rewrite qceil_spec by assumption.
  rewrite Z.mod_mul, Z.div_mul by lia. cbn. destruct (_ <? _); reflexivity. Qed.

(* the draw decides by a threshold at the fractional part: ceil  <->  u <= frac *)
Theorem sround_threshold a b un ud : 0 < b -> 0 < ud -> a mod b <> 0 ->
  (sround a b un ud = a / b + 1 <-> un * b <= (a mod b) * ud).
Proof. intros Hb Hu Hm. unfold sround. rewrite qceil_spec by assumption.
  replace (a mod b =? 0) with false by lia.
  destruct ((a mod b) * ud <? un * b) eqn:E; lia. Qed.

(* mean identity: floor*(1-frac) + ceil*frac = x, i.e. with P(ceil) = frac (the measure
   of {u : u <= frac} under the uniform law on [0,1)) the expectation is the input *)
Theorem sround_mean a b : 0 < b ->
  let fr := a mod b in
  (a / b) * (b - fr) + (qceil a b) * fr = a.
Proof. intros Hb fr. unfold fr. rewrite qceil_spec by assumption.
  destruct (a mod b =? 0) eqn:E; nia. Qed.

(* through the clip of the fixed-point quantizers the result is one of the two codes
   adjacent to the clipped input *)
Theorem sround_clipped_adjacent lo hi a b un ud : 0 < b -> lo <= hi ->
  let c := clip lo hi (sround a b un ud) in
  c = clip lo hi (a / b) \/ c = clip lo hi (qceil a b).
Proof. intros Hb Hl c. unfold c. destruct (sround_adjacent a b un ud Hb) as [-> | ->]; auto. Qed.

(* learning phase off: exactly the round-to-nearest configuration *)
Theorem inference_is_round_to_nearest stoch a b un ud :
  round_through stoch false a b un ud = rhe a b.
Proof. unfold round_through. rewrite andb_false_r. reflexivity. Qed.

Theorem no_stochastic_flag_is_round_to_nearest phase a b un ud :
  round_through false phase a b un ud = rhe a b.
Proof. reflexivity. Qed.

(* ---- power-of-two stochastic rounding (586-613): between the two adjacent exponents.
   y in [2^l, 2^(l+1)) is rounded to l or l+1; val = 2^l + 2^l * u; l+1 iff val <= y.
   Mean identity in units of 2^l:  with t = (y - 2^l)/2^l = P(up),  2^l*(1-t) + 2^(l+1)*t = y *)
Theorem po2_stoch_mean (p y : Z) : 0 < p -> p <= y < 2 * p ->
  let t_num := y - p in   (* probability of rounding up is t_num / p *)
  p * (p - t_num) + (2 * p) * t_num = y * p.
Proof. intros. subst t_num. ring. Qed.

Theorem po2_stoch_threshold (p y un ud : Z) : 0 < p -> 0 < ud -> 0 <= un < ud -> p <= y < 2 * p ->
  (* val = p + p*u <= y  <->  u <= (y-p)/p *)
  (p * ud + p * un <= y * ud <-> un * p <= (y - p) * ud).
Proof. intros. nia. Qed.

(* ---------------- float32-faithful model for the correspondence runs ---------------- *)
(* stochastic_round(x, precision): scale = 1/precision (1.0 here) *)
Definition sround32 (x u : rat) : rat :=
  let fl_ := rofZ (rfloor x) in
  let fraction := fsub x fl_ in
  if rlt fraction u then fl_ else rofZ (rceil x).

(* quantized_bits with use_stochastic_rounding, learning phase on *)
Definition qb_code_stoch (c : qbits) (x u : rat) : rat :=
  let k := qb_ub c - qb_int c in
  let p := rscale x k in
  rclip (rofZ (qb_lo c)) (rofZ (qb_hi c)) (sround32 p u).
Definition chk_qbits_stoch (c : qbits) (xb ub yb : Z) : Z :=
  match f32_dec xb, f32_dec ub with
  | Some x, Some u =>
    cmp_exact (within_steps x (qb_se c)) (f32_dec yb) (rscale (qb_code_stoch c x u) (qb_se c))
  | _, _ => 3
  end.
(* the leaky variant rounds p * negative_slope separately for the negative side (quantizers.py:2393-2409);
   both _round_through calls see the same injected draw in the correspondence runs *)
Definition qr_code_stoch (c : qrelu) (x u : rat) : rat :=
  let k := qr_nsb c - qr_int c in
  let pos := rclip (0, 1) (rofZ (qr_hi c)) (sround32 (rscale x k) u) in
  match qr_slope c with
  | None => pos
  | Some s => radd pos (rclip (rofZ (qr_lo c)) (0, 1) (sround32 (rscale x (k - s)) u))
  end.
Definition chk_qrelu_stoch (c : qrelu) (xb ub yb : Z) : Z :=
  match f32_dec xb, f32_dec ub with
  | Some x, Some u =>
    cmp_exact (within_steps x (qr_se c)) (f32_dec yb) (rscale (qr_code_stoch c x u) (qr_se c))
  | _, _ => 3
  end.
(* quantized_linear: clip first, then stochastic round *)
Definition chk_qlin_stoch (c : qlin) (xb ub yb : Z) : Z :=
  match f32_dec xb, f32_dec ub with
  | Some x, Some u =>
    let p := rclip (rofZ (ql_lo c)) (rofZ (ql_hi c)) (rscale x (- ql_se c)) in
    cmp_exact (within_steps x (ql_se c)) (f32_dec yb) (rscale (sround32 p u) (ql_se c))
  | _, _ => 3
  end.
(* property predicate on an observed code: adjacent to the clipped input *)
Definition adjacent_ok (lo hi : Z) (p : rat) (code : rat) : bool :=
  let cl := rclip (rofZ lo) (rofZ hi) p in
  (rnum code mod rden code =? 0) &&
  ((rnum code / rden code =? clip lo hi (rfloor p)) || (rnum code / rden code =? clip lo hi (rceil p))).

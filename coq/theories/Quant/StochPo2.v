(* Quant/StochPo2.v -- correspondence checker for stochastic power-of-two rounding
   (stochastic_round_po2, quantizers.py:586-613, inside _clip_power_of_two). *)
From Coq Require Import ZArith List Bool.
From QV Require Import Base.ZQ Base.FL Quant.Po2.
Open Scope Z_scope.
Import ListNotations.

Definition near18 (a b : rat) : bool := rle (rscale (rabs (rsub a b)) 18) (rabs b).

Definition chk_po2_stoch (c : po2cfg) (xb ub yb : Z) : Z :=
  match f32_dec xb, f32_dec ub, f32_dec yb with
  | Some x, Some u, Some y =>
    let mn := po2_min_exp (p_bits c) (p_mv c) in let mx := po2_max_exp (p_bits c) (p_mv c) in
    let xabs := rabs x in
    if rlt xabs eps32 then chk_po2_out x (sign1r x) mn mn y
    else
      let xf := match p_mv c with Some v => if rle v xabs then v else xabs | None => xabs end in
      let l := exp_floor xf in
      (* sampling in [2^l, 2^(l+1)]: val = minval + (maxval - minval) * u *)
      let val := fadd (rpow2 l) (fmul (rsub (rpow2 (l + 1)) (rpow2 l)) u) in
      let pred := if rlt xf val then l else l + 1 in
      let near := near18 xf val || near18 xf (rpow2 l) || near18 xf (rpow2 (l + 1)) in
      if near then chk_po2_out x (sign1r x) (clip mn mx (l - 1)) (clip mn mx (l + 1)) y
      else chk_po2_out x (sign1r x) (clip mn mx pred) (clip mn mx pred) y
  | _, _, _ => 3
  end.

(* quadratic_approximation = True: the exponent of sqrt(x) is rounded stochastically, clipped to [min_exp, 2*(max_exp/2)] and
   DOUBLED, so the codes are 4^k.  sqrt is not rational: y < val is decided as x < val^2 (val > 0), with the same 2^-18 bands
   around the decision point and around the lattice points 4^l, 4^(l+1) where float32 sqrt / log may fall on either side.
   Inputs below epsilon get the exponent min_exp itself (not doubled), as in the code. *)
Definition chk_po2_stoch_quad (c : po2cfg) (xb ub yb : Z) : Z :=
  match f32_dec xb, f32_dec ub, f32_dec yb with
  | Some x, Some u, Some y =>
    let mn := po2_min_exp (p_bits c) (p_mv c) in let mx := 2 * (po2_max_exp (p_bits c) (p_mv c) / 2) in
    let xabs := rabs x in
    if rlt xabs eps32 then chk_po2_out x (sign1r x) mn mn y
    else
      let xf := match p_mv c with Some v => if rle v xabs then v else xabs | None => xabs end in
      let l := exp_floor xf / 2 in                     (* floor(log2(sqrt xf)) *)
      let val := fadd (rpow2 l) (fmul (rsub (rpow2 (l + 1)) (rpow2 l)) u) in
      let val2 := rmul val val in
      let pred := if rlt xf val2 then l else l + 1 in
      let near := near18 xf val2 || near18 xf (rpow2 (2 * l)) || near18 xf (rpow2 (2 * l + 2)) in
      if near then chk_po2_out x (sign1r x) (2 * clip mn mx (l - 1)) (2 * clip mn mx (l + 1)) y
      else chk_po2_out x (sign1r x) (2 * clip mn mx pred) (2 * clip mn mx pred) y
  | _, _, _ => 3
  end.

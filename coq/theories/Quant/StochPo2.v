(* Quant/StochPo2.v -- correspondence checker for stochastic power-of-two rounding
   (stochastic_round_po2, quantizers.py:586-613, inside _clip_power_of_two). *)
From Coq Require Import ZArith List Bool.
From QV Require Import Base.ZQ Base.FL Quant.Po2.
Open Scope Z_scope.
Import ListNotations.

Definition near18 (a b : rat) : bool := rle (rscale (rabs (rsub a b)) 18) (rabs b).

Definition chk_po2_stoch (c : po2cfg) (xb ub yb : Z) : Z :=
  match f32_dec xb, f32_dec ub, f32_dec yb with
  | Some x, Some u, Some y =>
    let mn := po2_min_exp (p_bits c) (p_mv c) in let mx := po2_max_exp (p_bits c) (p_mv c) in
    let xabs := rabs x in
    if rlt xabs eps32 then chk_po2_out x (sign1r x) mn mn y
    else
      let xf := match p_mv c with Some v => if rle v xabs then v else xabs | None => xabs end in
      let l := exp_floor xf in
      (* sampling in [2^l, 2^(l+1)]: val = minval + (maxval - minval) * u *)
      let val := fadd (rpow2 l) (fmul (rsub (rpow2 (l + 1)) (rpow2 l)) u) in
      let pred := if rlt xf val then l else l + 1 in
      let near := near18 xf val || near18 xf (rpow2 l) || near18 xf (rpow2 (l + 1)) in
      if near then chk_po2_out x (sign1r x) (clip mn mx (l - 1)) (clip mn mx (l + 1)) y
      else chk_po2_out x (sign1r x) (clip mn mx pred) (clip mn mx pred) y
  | _, _, _ => 3
  end.

(* Quant/Shape.v -- C05: the shape helpers behind elements_per_scale (quantizers.py:157-259).
   _get_unrolled_shape splits axis a of a shape into (dim / factor, factor); _get_rolled_back_shape merges axis a with the one
   after it.  The scale of quantized_bits(alpha='auto_po2', elements_per_scale=k) is computed on the unrolled tensor and must
   come back in the documented per-channel shape: rolling back what was unrolled is the identity exactly when every factor
   divides its dimension. *)
From Coq Require Import ZArith List Lia Arith.
Import ListNotations.
Open Scope Z_scope.

Definition prod (s : list Z) : Z := fold_right Z.mul 1 s.

Definition unroll_one (shape : list Z) (factor : Z) (axis : nat) : list Z :=
  firstn axis shape ++ [nth axis shape 0 / factor; factor] ++ skipn (S axis) shape.
Definition roll_one (shape : list Z) (axis : nat) : list Z :=
  firstn axis shape ++ [nth axis shape 0 * nth (S axis) shape 0] ++ skipn (S (S axis)) shape.

(* list form: the k-th (axis, factor) pair is applied at axis + k (k axes were inserted before it); the returned axes are
   the positions of the unrolled axes in the new shape *)
Fixpoint unroll_many (shape : list Z) (afs : list (nat * Z)) (shift : nat) : list Z * list nat :=
  match afs with
  | [] => (shape, [])
  | (a, f) :: r => let '(s', ax) := unroll_many (unroll_one shape f (a + shift)) r (S shift) in (s', (a + shift)%nat :: ax)
  end.
(* roll back: the k-th listed axis is merged at axis - k *)
Fixpoint roll_many (shape : list Z) (axes : list nat) (shift : nat) : list Z :=
  match axes with
  | [] => shape
  | a :: r => roll_many (roll_one shape (a - shift)) r (S shift)
  end.

Lemma firstn_app_l {A} (n : nat) (l1 l2 : list A) : (n <= length l1)%nat -> firstn n (l1 ++ l2) = firstn n l1.
Proof. intros H. rewrite firstn_app. replace (n - length l1)%nat with 0%nat by lia. cbn. apply app_nil_r. Qed.

Lemma nth_firstn_app {A} (a : nat) (s t : list A) d : (a <= length s)%nat -> nth a (firstn a s ++ t) d = nth 0 t d.
Proof. intros H. rewrite app_nth2; rewrite firstn_length_le by lia; [|lia]. replace (a - a)%nat with 0%nat by lia. reflexivity. Qed.

Theorem unroll_one_length s f a : (a < length s)%nat -> length (unroll_one s f a) = S (length s).
Proof. intros H. unfold unroll_one. rewrite !app_length, firstn_length_le, skipn_length by lia. cbn [length]. lia. Qed.

Lemma split_at {A} (s : list A) (a : nat) d : (a < length s)%nat -> s = firstn a s ++ [nth a s d] ++ skipn (S a) s.
Proof. revert s. induction a as [|a IH]; intros [|x s] H; cbn in H; try lia; [reflexivity|].
  cbn [firstn nth skipn app]. f_equal. apply IH. lia. Qed.

(* rolling back what was unrolled is the identity exactly when the factor divides the dimension *)
Theorem roll_unroll_one s f a : (a < length s)%nat -> f <> 0 -> (nth a s 0 / f) * f = nth a s 0 ->
  roll_one (unroll_one s f a) a = s.
Proof.
  intros Ha Hf Hd. unfold roll_one, unroll_one.
  assert (L : length (firstn a s) = a) by (apply firstn_length_le; lia).
  rewrite firstn_app_l by lia. rewrite firstn_firstn, Nat.min_id.
  rewrite nth_firstn_app by lia. cbn [nth app].
  replace (nth (S a) (firstn a s ++ nth a s 0 / f :: f :: skipn (S a) s) 0) with f.
  2:{ rewrite app_nth2 by lia. rewrite L. replace (S a - a)%nat with 1%nat by lia. reflexivity. }
  replace (skipn (S (S a)) (firstn a s ++ nth a s 0 / f :: f :: skipn (S a) s)) with (skipn (S a) s).
  2:{ rewrite skipn_app, L. replace (S (S a) - a)%nat with 2%nat by lia.
      rewrite (skipn_all2 (n := S (S a)) (firstn a s)) by lia. reflexivity. }
  rewrite Hd. symmetry. apply split_at. exact Ha.
Qed.
Theorem roll_unroll_one_refuted : exists s f a, (a < length s)%nat /\ f <> 0 /\ roll_one (unroll_one s f a) a <> s.
Proof. exists [6; 5], 2, 1%nat. repeat split; [cbn; lia | lia | vm_compute; discriminate]. Qed.

Lemma nth_skipn' {A} (n i : nat) (l : list A) d : nth i (skipn n l) d = nth (n + i) l d.
Proof. revert l. induction n as [|n IH]; intros l; [reflexivity|]. destruct l as [|x l]; [destruct i; reflexivity|]. cbn [skipn Nat.add nth]. apply IH. Qed.

Lemma prod_app s t : prod (s ++ t) = prod s * prod t.
Proof. unfold prod. induction s as [|x s IH]; cbn [app fold_right]; [destruct (fold_right Z.mul 1 t); reflexivity|]. rewrite IH. apply Z.mul_assoc. Qed.
(* unrolling keeps the number of elements (when the factor divides the dimension) *)
Theorem unroll_one_prod s f a : (a < length s)%nat -> (nth a s 0 / f) * f = nth a s 0 -> prod (unroll_one s f a) = prod s.
Proof. intros Ha Hd. rewrite (split_at s a 0 Ha) at 2. unfold unroll_one. rewrite !prod_app. cbn [prod fold_right]. lia. Qed.
(* the two new axes are (dim / factor, factor), at positions a and a + 1; the axes before a are untouched *)
Theorem unroll_one_axes s f a : (a < length s)%nat ->
  nth a (unroll_one s f a) 0 = nth a s 0 / f /\ nth (S a) (unroll_one s f a) 0 = f /\
  (forall i, (i < a)%nat -> nth i (unroll_one s f a) 0 = nth i s 0) /\
  (forall i, (a < i)%nat -> nth (S i) (unroll_one s f a) 0 = nth i s 0).
Proof.
  intros Ha. unfold unroll_one. assert (L : length (firstn a s) = a) by (apply firstn_length_le; lia). repeat split.
  - rewrite nth_firstn_app by lia. reflexivity.
  - rewrite app_nth2 by lia. rewrite L. replace (S a - a)%nat with 1%nat by lia. reflexivity.
  - intros i Hi. rewrite app_nth1 by lia. revert s Ha L. revert i Hi. induction a as [|a IH]; intros i Hi s Ha L; [lia|].
    destruct s as [|x s]; [cbn in Ha; lia|]. destruct i as [|i]; [reflexivity|]. cbn [firstn nth]. apply IH; [lia | cbn in Ha; lia | cbn in L; lia].
  - intros i Hi. rewrite app_nth2 by lia. rewrite L. replace (S i - a)%nat with (S (S (i - a - 1))) by lia. cbn [nth app].
    rewrite nth_skipn'. f_equal. lia.
Qed.

Example shape_examples :
  unroll_many [16; 32] [(1%nat, 4)] 0 = ([16; 8; 4], [1%nat]) /\
  unroll_many [16; 32] [(0%nat, 2); (1%nat, 4)] 0 = ([8; 2; 8; 4], [0%nat; 2%nat]) /\
  roll_many [4; 2; 8; 4] [0%nat; 2%nat] 0 = [8; 32] /\ roll_one [4; 2; 8; 4] 1 = [4; 16; 4].
Proof. vm_compute. repeat split; reflexivity. Qed.

(* rendering for the correspondence run *)
Definition render_unroll (shape : list Z) (afs : list (nat * Z)) : list Z :=
  let '(s, ax) := unroll_many shape afs 0 in s ++ [-1] ++ map Z.of_nat ax.

(* Quant/Noise.v -- C07: quantization-noise mixing and the QNoiseScheduler.
   (quantizers.py:993,1424-1428,1448-1452,2414-2418,2898-2902; base_quantizer.py:49-79;
    callbacks.py:84-168) *)
From Coq Require Import ZArith List Bool Lia ZifyBool.
From QV Require Import Base.ZQ Base.FL.
Open Scope Z_scope.
Import ListNotations.

(* ---------------- mixing expressions ---------------- *)
(* exact arithmetic *)
Definition mix_ste (s f q : rat) : rat := radd s (rmul f (radd (rneg s) q)).      (* x_u + f*(-x_u + xq) *)
Definition mix_nonste (s f q : rat) : rat := radd (rmul (rsub (1, 1) f) s) (rmul f q). (* (1-f)*x_u + f*xq *)
Definition mix_linear (s f q : rat) : rat := radd s (rmul f (rsub q s)).           (* x + f*(xq - x) *)
Definition interp (s f q : rat) : rat := radd s (rmul f (rsub q s)).

(* float32 evaluation order of the three expressions *)
Definition mix_ste32 (s f q : rat) : rat := fadd s (fmul f (fadd (rneg s) q)).
Definition mix_nonste32 (s f q : rat) : rat := fadd (fmul (fsub (1, 1) f) s) (fmul f q).
Definition mix_linear32 (s f q : rat) : rat := fadd s (fmul f (fsub q s)).

Lemma req_spec x y : req x y = true <-> rnum x * rden y = rnum y * rden x.
Proof. unfold req. lia. Qed.

Theorem mix_ste_is_interp s f q : req (mix_ste s f q) (interp s f q) = true.
Proof. apply req_spec. destruct s as [a b], f as [c d], q as [e g].
  cbv [mix_ste interp radd rmul rsub rneg rnum rden fst snd]. ring. Qed.
Theorem mix_nonste_is_interp s f q : req (mix_nonste s f q) (interp s f q) = true.
Proof. apply req_spec. destruct s as [a b], f as [c d], q as [e g].
  cbv [mix_nonste interp radd rmul rsub rneg rnum rden fst snd]. ring. Qed.
Theorem interp_zero s q : req (interp s (0, 1) q) s = true.
Proof. apply req_spec. destruct s as [a b], q as [e g].
  cbv [interp radd rmul rsub rneg rnum rden fst snd]. ring. Qed.
Theorem interp_one s q : 0 < rden s -> req (interp s (1, 1) q) q = true.
Proof. intros H. apply req_spec. destruct s as [a b], q as [e g].
  cbv [interp radd rmul rsub rneg rnum rden fst snd] in *. ring. Qed.

(* ---------------- update API (base_quantizer.py:49-79) ---------------- *)
(* storage of the factor: a python float, or a tf.Variable once built with use_variables *)
Inductive store := PyFloat (f : rat) | TfVar (f : rat).
Definition stored (s : store) : rat := match s with PyFloat f | TfVar f => f end.
Definition build (use_variables : bool) (s : store) : store :=
  if use_variables then TfVar (stored s) else s.
Definition update (s : store) (f : rat) : store :=
  match s with TfVar _ => TfVar f | PyFloat _ => PyFloat f end.

(* whatever the order of build / update, the factor used afterwards is the last one set *)
Theorem update_then_build uv s f : stored (build uv (update s f)) = f.
Proof. destruct uv, s; reflexivity. Qed.
Theorem build_then_update uv s f : stored (update (build uv s) f) = f.
Proof. destruct uv, s; reflexivity. Qed.
Theorem constructor_equals_update uv f0 f :
  stored (build uv (PyFloat f)) = stored (update (build uv (PyFloat f0)) f).
Proof. destruct uv; reflexivity. Qed.

(* ---------------- scheduler (callbacks.py) ---------------- *)
Section Sched.
  (* np.power(val, exponent) on [0,1]: an oracle with four named properties *)
  Variable pw : rat -> rat.
  Hypothesis pw_den : forall v, 0 < rden v -> 0 < rden (pw v).
  Hypothesis pw_zero : forall v, rnum v = 0 -> rnum (pw v) = 0.
  Hypothesis pw_range : forall v, 0 < rden v -> 0 <= rnum v -> rnum v <= rden v ->
                                 0 <= rnum (pw v) /\ rnum (pw v) <= rden (pw v).
  Hypothesis pw_mono : forall u v, 0 < rden u -> 0 < rden v -> 0 <= rnum u ->
                                  rnum u * rden v <= rnum v * rden u -> rle (pw u) (pw v) = true.

  Variables start finish : Z.
  Hypothesis start_le_finish : start <= finish.

  (* calculate_qnoise_factor *)
  Definition calc (freq : Z) : rat :=
    if freq <? start then (0, 1)
    else if (freq <=? finish) && negb (start =? finish) then
      rsub (1, 1) (pw (finish - freq, finish - start))
    else (1, 1).

  Theorem calc_zero_before freq : freq < start -> calc freq = (0, 1).
  Proof. intros H. unfold calc. apply Z.ltb_lt in H. rewrite H. reflexivity. Qed.

  Theorem calc_one_from_finish freq : finish <= freq -> req (calc freq) (1, 1) = true.
  Proof. intros H. unfold calc. destruct (freq <? start) eqn:E1; [lia|].
    destruct ((freq <=? finish) && negb (start =? finish)) eqn:E2; [|reflexivity].
    assert (freq = finish) by lia. subst freq.
    assert (Hs : start <> finish) by lia.
    pose proof (pw_zero (finish - finish, finish - start) ltac:(cbn; lia)) as Z0.
    pose proof (pw_den (finish - finish, finish - start) ltac:(cbn; lia)) as D0.
    apply req_spec. cbv [rsub radd rneg rnum rden fst snd] in *. lia. Qed.

  Lemma calc_den freq : 0 < rden (calc freq).
  Proof. unfold calc. destruct (freq <? start); [cbn; lia|].
    destruct ((freq <=? finish) && negb (start =? finish)) eqn:E; [|cbn; lia].
    pose proof (pw_den (finish - freq, finish - start) ltac:(cbn; lia)).
    cbv [rsub radd rneg rden fst snd] in *. lia. Qed.

  Theorem calc_range freq : rle (0, 1) (calc freq) = true /\ rle (calc freq) (1, 1) = true.
  Proof. unfold calc. destruct (freq <? start) eqn:E1; [split; reflexivity|].
    destruct ((freq <=? finish) && negb (start =? finish)) eqn:E2; [|split; reflexivity].
    pose proof (pw_den (finish - freq, finish - start) ltac:(cbn; lia)) as D.
    pose proof (pw_range (finish - freq, finish - start) ltac:(cbn; lia) ltac:(cbn; lia) ltac:(cbn; lia)) as [R1 R2].
    cbv [rle rsub radd rneg rnum rden fst snd] in *. split; lia. Qed.

  Theorem calc_mono f1 f2 : f1 <= f2 -> rle (calc f1) (calc f2) = true.
  Proof. intros H.
    destruct (Z_lt_le_dec f1 start) as [L1|L1].
    - rewrite (calc_zero_before f1 L1). apply calc_range.
    - destruct (Z_lt_le_dec finish f2) as [L2|L2].
      + (* calc f2 = 1 *)
        assert (E : calc f2 = (1, 1)).
        { unfold calc. destruct (f2 <? start) eqn:E1; [lia|].
          replace (f2 <=? finish) with false by lia. reflexivity. }
        rewrite E. apply calc_range.
      + destruct (Z.eq_dec start finish) as [Es|Ns].
        * assert (f1 = f2) by lia. subst. unfold rle. lia.
        * unfold calc. replace (f1 <? start) with false by lia. replace (f2 <? start) with false by lia.
          replace ((f1 <=? finish) && negb (start =? finish)) with true by lia.
          replace ((f2 <=? finish) && negb (start =? finish)) with true by lia.
          pose proof (pw_mono (finish - f2, finish - start) (finish - f1, finish - start)
                        ltac:(cbn; lia) ltac:(cbn; lia) ltac:(cbn; lia) ltac:(cbn; nia)) as M.
          pose proof (pw_den (finish - f2, finish - start) ltac:(cbn; lia)).
          pose proof (pw_den (finish - f1, finish - start) ltac:(cbn; lia)).
          cbv [rle rsub radd rneg rnum rden fst snd] in *. nia. Qed.

  (* the callback as a state machine over hook events *)
  Inductive hook := EpochBegin | BatchBegin | EpochEnd.
  Variable by_epoch : bool.           (* freq_type == "epoch" *)
  Variable update_freq : Z.
  Variable initial : Z.
  Hypothesis update_freq_pos : 0 < update_freq.

  Record sstate := SS { num_iters : Z; applied : list rat (* newest first *) ; factors : list rat }.
  Definition nq (s : sstate) := length (factors s).

  Definition update_qnoise (s : sstate) : sstate :=
    let freq := initial + num_iters s in
    if negb (freq mod update_freq =? 0) then SS (num_iters s + 1) (applied s) (factors s)
    else let v := calc freq in SS (num_iters s + 1) (v :: applied s) (map (fun _ => v) (factors s)).

  Definition step (s : sstate) (h : hook) : sstate :=
    match h with
    | EpochBegin => if by_epoch then update_qnoise s else s
    | BatchBegin => if by_epoch then s else update_qnoise s
    | EpochEnd => s
    end.
  Definition run (s : sstate) (hs : list hook) : sstate := fold_left step hs s.

  (* invariant: every applied factor is calc of a frequency <= the current one,
     the applied list is sorted (newest = largest), all quantizers hold the newest *)
  Fixpoint sorted_desc (l : list rat) : Prop :=
    match l with
    | [] => True
    | x :: r => (match r with [] => True | y :: _ => rle y x = true end) /\ sorted_desc r
    end.
  Definition Inv (s : sstate) : Prop :=
    sorted_desc (applied s) /\
    (forall v, In v (applied s) -> exists f, f < initial + num_iters s /\ v = calc f) /\
    (forall v, In v (applied s) -> 0 < rden v).

  Lemma step_inv s h : Inv s -> Inv (step s h).
  Proof. intros [S [A D]].
    assert (U : Inv (update_qnoise s)).
    { unfold update_qnoise. destruct (negb (_ =? 0)) eqn:E.
      - repeat split; cbn [applied num_iters]; try assumption.
        intros v Hv. destruct (A v Hv) as [f [Hf Ev]]. exists f. split; [lia|assumption].
      - repeat split; cbn [applied num_iters].
        + destruct (applied s) as [|y r] eqn:Ea; [exact I|].
          destruct (A y (or_introl eq_refl)) as [f [Hf Ey]]. subst y.
          apply calc_mono. lia.
        + exact S.
        + intros v [<-|Hv]; [exists (initial + num_iters s); split; [lia|reflexivity]|].
          destruct (A v Hv) as [f [Hf Ev]]. exists f. split; [lia|assumption].
        + intros v [<-|Hv]; [apply calc_den|apply D; assumption]. }
    destruct h; cbn [step]; destruct by_epoch; try assumption; repeat split; assumption. Qed.

  Theorem run_inv hs : forall s, Inv s -> Inv (run s hs).
  Proof. induction hs as [|h hs IH]; intros s H; cbn [run fold_left]; [exact H|].
    apply IH. apply step_inv. exact H. Qed.

  Definition init (n : nat) : sstate := SS 0 [] (repeat (0, 1) n).
  Lemma init_inv n : Inv (init n).
  Proof. repeat split; cbn; try tauto. Qed.

  (* over ANY sequence of hook events the factors applied never decrease *)
  Theorem applied_never_decreases n hs : sorted_desc (applied (run (init n) hs)).
  Proof. apply (run_inv hs (init n) (init_inv n)). Qed.

  (* every quantizer with the knob holds the same, most recently applied value *)
  Lemma step_all_same s h :
    (forall v, In v (factors s) -> match applied s with [] => v = (0, 1) | a :: _ => v = a end) ->
    (forall v, In v (factors (step s h)) -> match applied (step s h) with [] => v = (0, 1) | a :: _ => v = a end).
  Proof. intros H.
    assert (U : forall v, In v (factors (update_qnoise s)) ->
                match applied (update_qnoise s) with [] => v = (0, 1) | a :: _ => v = a end).
    { unfold update_qnoise. destruct (negb (_ =? 0)); cbn [factors applied]; [exact H|].
      intros v Hv. apply in_map_iff in Hv. destruct Hv as [x [E _]]. symmetry; exact E. }
    destruct h; cbn [step]; destruct by_epoch; assumption. Qed.
  Theorem all_quantizers_hold_latest n hs v :
    In v (factors (run (init n) hs)) ->
    match applied (run (init n) hs) with [] => v = (0, 1) | a :: _ => v = a end.
  Proof. revert v. unfold run.
    assert (G : forall hs s, (forall v, In v (factors s) -> match applied s with [] => v = (0, 1) | a :: _ => v = a end) ->
                forall v, In v (factors (fold_left step hs s)) ->
                match applied (fold_left step hs s) with [] => v = (0, 1) | a :: _ => v = a end).
    { induction hs0 as [|h hs0 IH]; intros s H; cbn [fold_left]; [exact H|]. apply IH. apply step_all_same. exact H. }
    apply G. cbn. intros v Hv. apply repeat_spec in Hv. exact Hv. Qed.
  Theorem quantizer_count_preserved n hs : length (factors (run (init n) hs)) = n.
  Proof. assert (G : forall hs s, length (factors (fold_left step hs s)) = length (factors s)).
    { induction hs0 as [|h hs0 IH]; intros s; cbn [fold_left]; [reflexivity|]. rewrite IH.
      destruct h; cbn [step]; destruct by_epoch; try reflexivity;
        unfold update_qnoise; destruct (negb (_ =? 0)); cbn [factors]; try reflexivity; apply map_length. }
    unfold run. rewrite G. cbn. apply repeat_length. Qed.
End Sched.

(* ---------------- get_quantizers (callbacks.py:132-151) ---------------- *)
Section GetQ.
  Variable Q : Type.
  Variable has_knob : Q -> bool.
  Record layer := L { l_quantizers : option (list Q); l_quantizer : option Q }.
  Definition layer_qs (l : layer) : list Q :=
    (match l_quantizers l with Some qs => qs | None => [] end) ++
    (match l_quantizer l with Some q => [q] | None => [] end).
  Definition get_quantizers (ls : list layer) : list Q :=
    flat_map (fun l => filter has_knob (layer_qs l)) ls.
  Theorem get_quantizers_spec ls q :
    In q (get_quantizers ls) <-> exists l, In l ls /\ In q (layer_qs l) /\ has_knob q = true.
  Proof. unfold get_quantizers. rewrite in_flat_map. split.
    - intros [l [Hl Hq]]. apply filter_In in Hq. exists l. tauto.
    - intros [l [Hl [Hq Hk]]]. exists l. split; [assumption|]. apply filter_In. tauto. Qed.
End GetQ.

(* instantiation: integer exponents (what the correspondence run executes) *)
Fixpoint rpow (v : rat) (k : nat) : rat := match k with O => (1, 1) | S k' => rmul v (rpow v k') end.

(* ---------------- correspondence checkers ---------------- *)
(* |y - v| <= 2^-t * max(1,|v|) *)
Definition close_t (t : Z) (y v : rat) : bool :=
  rle (rscale (rabs (rsub y v)) t) (rmax (1, 1) (rabs v)).
Definition chk_calc (start finish : Z) (k : nat) (freq : Z) (yb64 : Z) : Z :=
  match f64_dec yb64 with
  | None => 1
  | Some y =>
    let v := calc (fun v => rpow v k) start finish freq in
    if (freq <? start) || (finish <=? freq) then (if req y v then 0 else 1)
    else if close_t 48 y v then 0 else 1
  end.

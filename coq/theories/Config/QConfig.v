(* Config/QConfig.v -- C09 / C13: configuration round trip of a class described by
   its constructor parameters (with defaults) and the keys its get_config emits.
   The option VALUES are abstract (any type V): the theorem is for all of them. *)
From Coq Require Import String List Bool.
Import ListNotations.
Open Scope string_scope.

Definition mem (x : string) (l : list string) : bool := existsb (String.eqb x) l.

Lemma mem_In x l : mem x l = true <-> In x l.
Proof. unfold mem. rewrite existsb_exists. split.
  - intros [y [Hy E]]. apply String.eqb_eq in E. subst. exact Hy.
  - intros H. exists x. split; [exact H | apply String.eqb_refl]. Qed.

Lemma forallb_map' {A B} (f : A -> B) (g : B -> bool) l : forallb g (map f l) = forallb (fun x => g (f x)) l.
Proof. induction l as [|x l IH]; cbn; [reflexivity|]. rewrite IH. reflexivity. Qed.

Section RoundTrip.
  Variable V : Type.
  Variable params : list string.                 (* constructor parameter names *)
  Variable default : string -> V.                (* their defaults *)
  Variable keys : list string.                   (* keys emitted by get_config *)

  (* an object is the assignment of its constructor arguments *)
  Definition obj := string -> V.
  Definition get_config (o : obj) : list (string * V) := map (fun k => (k, o k)) keys.
  Fixpoint lookup (c : list (string * V)) (p : string) : option V :=
    match c with
    | [] => None
    | (k, v) :: r => if String.eqb k p then Some v else lookup r p
    end.
  (* cls called with the config as keyword arguments: every key must be a constructor parameter, otherwise TypeError *)
  Definition from_config (c : list (string * V)) : option obj :=
    if forallb (fun kv => mem (fst kv) params) c
    then Some (fun p => match lookup c p with Some v => v | None => default p end)
    else None.

  Lemma lookup_get_config o p : lookup (get_config o) p = if mem p keys then Some (o p) else None.
  Proof. unfold get_config. induction keys as [|k ks IH]; cbn; [reflexivity|].
    destruct (String.eqb k p) eqn:E.
    - apply String.eqb_eq in E. subst. rewrite String.eqb_refl. reflexivity.
    - rewrite String.eqb_sym, E. cbn. exact IH. Qed.

  (* rebuilding from its own configuration succeeds iff every emitted key is a parameter *)
  Theorem accepts_own_config o :
    forallb (fun k => mem k params) keys = true -> exists o', from_config (get_config o) = Some o'.
  Proof. intros H. unfold from_config, get_config. rewrite forallb_map'. cbn [fst].
    rewrite H. eexists; reflexivity. Qed.

  Theorem rejects_own_config o :
    forallb (fun k => mem k params) keys = false -> from_config (get_config o) = None.
  Proof. intros H. unfold from_config, get_config. rewrite forallb_map'. cbn [fst]. rewrite H. reflexivity. Qed.

  (* the rebuilt object agrees with the original on every emitted parameter, and has the
     default on every other one -- for ALL option values *)
  Theorem roundtrip o o' p : from_config (get_config o) = Some o' ->
    o' p = if mem p keys then o p else default p.
  Proof. unfold from_config. destruct (forallb _ _); [|discriminate].
    intros E. injection E as <-. rewrite lookup_get_config. destruct (mem p keys); reflexivity. Qed.

  (* hence: it computes the same function whenever every semantic parameter that is not
     emitted still has its default value *)
  Theorem roundtrip_semantic (sem : list string) o o' :
    from_config (get_config o) = Some o' ->
    (forall p, In p sem -> mem p keys = false -> o p = default p) ->
    forall p, In p sem -> o' p = o p.
  Proof. intros E H p Hp. rewrite (roundtrip o o' p E). destruct (mem p keys) eqn:M; [reflexivity|].
    symmetry. apply H; assumption. Qed.
End RoundTrip.

(* ---------------- deciders over the generated class table ---------------- *)
Definition qclass := (string * list (string * string) * list string * string)%type.
Definition c_name (c : qclass) : string := fst (fst (fst c)).
Definition c_params (c : qclass) : list string := map fst (snd (fst (fst c))).
Definition c_keys (c : qclass) : list string := snd (fst c).

(* constructor parameters that do not change the quantization function *)
Definition non_semantic : list string := ["var_name"; "use_variables"; "use_ste"].
Definition c_sem (c : qclass) : list string := filter (fun p => negb (mem p non_semantic)) (c_params c).
Definition accepts (c : qclass) : bool := forallb (fun k => mem k (c_params c)) (c_keys c).
Definition missing (c : qclass) : list string := filter (fun p => negb (mem p (c_keys c))) (c_sem c).

Fixpoint assoc {A} (d : A) (n : string) (l : list (string * A)) : A :=
  match l with [] => d | (k, v) :: r => if String.eqb k n then v else assoc d n r end.

(* every semantic parameter missing from get_config is listed in the committed gap table *)
Definition gaps_covered (gaps : list (string * list string)) (cs : list qclass) : bool :=
  forallb (fun c => forallb (fun p => mem p (assoc [] (c_name c) gaps)) (missing c)) cs.
Definition rejects_covered (known : list string) (cs : list qclass) : bool :=
  forallb (fun c => accepts c || mem (c_name c) known) cs.

(* BN/Fold.v -- C15: batch-norm folding algebra per output channel, over Q.
   The convolution is a Section variable: only its homogeneity in the kernel
   (conv x (a*k) = a * conv x k -- bilinearity of convolution) is assumed. *)
From Coq Require Import QArith Lqa.
Open Scope Q_scope.

Section Fold.
  Variable K : Type.                       (* kernels of one output channel *)
  Variable scale : Q -> K -> K.            (* a * k *)
  Variable conv : K -> Q.                  (* conv x k at one output position, x fixed *)
  Hypothesis conv_homogeneous : forall a k, conv (scale a k) == a * conv k.

  (* gamma, beta, mean, var, eps are per channel; r is what rsqrt(var + eps) returns *)
  Variables gamma beta mu r b : Q.
  Variable k : K.

  Definition inv : Q := r * gamma.                       (* inv = rsqrt(var+eps) * gamma *)
  Definition folded_kernel : K := scale inv k.
  Definition folded_bias : Q := inv * (b - mu) + beta.
  Definition conv_then_bn : Q := gamma * r * (conv k + b - mu) + beta.    (* BN(conv(x) + b) with moving statistics *)
  Definition folded_layer : Q := conv folded_kernel + folded_bias.

  (* inference without quantizers: the folded layer IS conv followed by batch normalisation.
     gamma = 0, tiny variance (huge r) and every other value are inside the forall. *)
  Theorem fold_equiv_no_quantizers : folded_layer == conv_then_bn.
  Proof. unfold folded_layer, folded_kernel, folded_bias, conv_then_bn, inv.
    rewrite conv_homogeneous. ring. Qed.

  (* with quantizers: convolution with the quantized folded kernel plus the quantized folded bias *)
  Variable qk : K -> K.
  Variable qb : Q -> Q.
  Definition folded_layer_q : Q := conv (qk folded_kernel) + qb folded_bias.
  Theorem fold_with_quantizers_spec :
    folded_layer_q == conv (qk (scale (r * gamma) k)) + qb (r * gamma * (b - mu) + beta).
  Proof. reflexivity. Qed.

  (* get_folded_weights returns exactly (folded_kernel, folded_bias): unfolding a folded layer into a
     plain quantized layer holding these weights computes the same function *)
  Theorem unfold_preserves : conv (qk folded_kernel) + qb folded_bias == folded_layer_q.
  Proof. reflexivity. Qed.
End Fold.

(* rsqrt is an oracle; with r^2 * (var + eps) = 1 the folding factor is gamma / sqrt(var + eps) *)
Theorem inv_is_gamma_over_sqrt (gamma r s : Q) : r * s == 1 -> inv gamma r * s == gamma.
Proof. intros H. unfold inv. setoid_replace (r * gamma * s) with (gamma * (r * s)) by ring. rewrite H. ring. Qed.

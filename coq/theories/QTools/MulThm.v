(* QTools/MulThm.v -- C16: the multiplier output types hold every product.
   Unbounded in bits / integer bits; the 6x6 dispatch is a finite table. *)
From Coq Require Import ZArith List Bool Lia ZifyBool.
From QV Require Import Base.ZQ Base.FL QTools.Types QTools.Ops.
Open Scope Z_scope.
Import ListNotations.

Lemma p2ge1 k : 0 <= k -> 1 <= 2 ^ k.
Proof. intros. assert (0 < 2 ^ k) by (apply Z.pow_pos_nonneg; lia). lia. Qed.
Lemma p2add a b : 0 <= a -> 0 <= b -> 2 ^ (a + b) = 2 ^ a * 2 ^ b.
Proof. intros; apply Z.pow_add_r; lia. Qed.
Lemma p2nonneg k : 0 <= 2 ^ k.
Proof. apply Z.pow_nonneg; lia. Qed.

(* ---- fixed x fixed (FixedPointMultiplier) ---- *)
Theorem fixed_mul_closed w x out k1 k2 :
  0 <= mag_bits w -> 0 <= mag_bits x ->
  code_ok w k1 -> code_ok x k2 ->
  ~ (q_sgn w = true /\ q_sgn x = true /\ k1 = fix_lo w /\ k2 = fix_lo x) ->
  let o := fixed_mul w x out in
  frac_bits o = frac_bits w + frac_bits x /\ code_ok o (k1 * k2).
Proof.
  intros Hw Hx [L1 H1] [L2 H2] NC o.
  assert (F : frac_bits o = frac_bits w + frac_bits x).
  { unfold o, fixed_mul, frac_bits; simpl. lia. }
  split; [exact F|].
  assert (M : mag_bits o = mag_bits w + mag_bits x).
  { unfold o, fixed_mul, mag_bits, frac_bits; simpl. lia. }
  assert (S : q_sgn o = q_sgn x || q_sgn w) by reflexivity.
  unfold code_ok, fix_lo, fix_hi in *. rewrite M, S, p2add by lia.
  pose proof (p2ge1 _ Hw). pose proof (p2ge1 _ Hx).
  destruct (q_sgn w) eqn:Sw; destruct (q_sgn x) eqn:Sx; simpl orb; cbv iota.
  - assert (k1 <> - 2 ^ mag_bits w \/ k2 <> - 2 ^ mag_bits x).
    { destruct (Z.eq_dec k1 (- 2 ^ mag_bits w)); [right|left; assumption].
      intros E. apply NC. repeat split; assumption. }
    split; nia.
  - split; nia.
  - split; nia.
  - split; nia.
Qed.

(* ---- po2 x fixed (Shifter) ---- *)
Lemma get_exp_nonneg t : 0 <= fst (get_exp t) /\ 0 <= snd (get_exp t).
Proof. unfold get_exp. cbv zeta. cbn [fst snd]. split; [|lia].
  pose proof (p2nonneg (exp_bits t)). lia. Qed.

(* arithmetic core: shifting a code by e + mn positions *)
Lemma shift_bound n mn mx e k : 0 <= n -> 0 <= mn -> 0 <= mx -> - mn <= e <= mx ->
  - 2 ^ n <= k <= 2 ^ n - 1 ->
  - 2 ^ (n + mx + mn) <= k * 2 ^ (e + mn) <= 2 ^ (n + mx + mn) - 2 ^ (e + mn).
Proof. intros Hn Hmn Hmx He Hk.
  replace (n + mx + mn) with (n + ((mx - e) + (e + mn))) by lia.
  rewrite (p2add n), (p2add (mx - e)) by lia.
  pose proof (p2ge1 n Hn) as PN. pose proof (p2ge1 (mx - e) ltac:(lia)) as PA. pose proof (p2ge1 (e + mn) ltac:(lia)) as PC.
  set (N := 2 ^ n) in *. set (A := 2 ^ (mx - e)) in *. set (C := 2 ^ (e + mn)) in *.
  assert (H1 : N * C <= N * (A * C)) by nia.
  assert (H2 : k * C <= (N - 1) * C) by nia.
  assert (H3 : - N * C <= k * C) by nia.
  split; lia. Qed.

Theorem shifter_closed_w_po2 w x out k e (neg : bool) :
  q_mode w = 1 -> 0 <= mag_bits x ->
  let mn := fst (get_exp w) in let mx := snd (get_exp w) in
  - mn <= e <= mx -> code_ok x k -> (neg = true -> q_sgn w = true) ->
  ~ (neg = true /\ q_sgn x = true /\ k = fix_lo x /\ e = mx) ->
  let o := shifter w x out in
  frac_bits o = frac_bits x + mn /\
  code_ok o ((if neg then -1 else 1) * k * 2 ^ (e + mn)).
Proof.
  intros Hm Hx mn mx He [Lk Hk] Hneg NC o.
  pose proof (get_exp_nonneg w) as [G1 G2]. fold mn in G1. fold mx in G2.
  assert (E : get_exp w = (mn, mx)) by (unfold mn, mx; destruct (get_exp w); reflexivity).
  assert (F : frac_bits o = frac_bits x + mn /\ mag_bits o = mag_bits x + mx + mn /\
              q_sgn o = q_sgn x || q_sgn w).
  { unfold o, shifter. rewrite Hm. cbn [Z.eqb Pos.eqb]. rewrite E.
    unfold frac_bits, mag_bits. destruct (q_sgn x) eqn:Sx; destruct (q_sgn w) eqn:Sw; simpl; lia. }
  destruct F as [F [M S]]. split; [exact F|].
  unfold code_ok, fix_lo, fix_hi in *. rewrite M, S.
  pose proof (p2ge1 (e + mn) ltac:(lia)) as P.
  pose proof (p2ge1 (mag_bits x) Hx) as Px.
  destruct (q_sgn x) eqn:Sx.
  - simpl orb. cbv iota.
    pose proof (shift_bound (mag_bits x) mn mx e k Hx G1 G2 He ltac:(lia)) as [B1 B2].
    destruct neg.
    + (* negated: only the corner k = lo, e = mx overflows *)
      assert (Hc : k <> - 2 ^ mag_bits x \/ e <> mx).
      { destruct (Z.eq_dec k (- 2 ^ mag_bits x)); [|left; assumption].
        destruct (Z.eq_dec e mx); [|right; assumption].
        exfalso. apply NC. repeat split; assumption. }
      pose proof (shift_bound (mag_bits x) mn mx e (- k - 1) Hx G1 G2 He ltac:(lia)) as [C1 C2].
      split; [nia|].
      destruct Hc as [Hc|Hc].
      * assert (- 2 ^ mag_bits x + 1 <= k) by lia.
        pose proof (shift_bound (mag_bits x) mn mx e (- k) Hx G1 G2 He ltac:(lia)) as [D1 D2]. nia.
      * (* e < mx: one spare factor of two *)
        assert (e + 1 <= mx) by lia.
        replace (mag_bits x + mx + mn) with (mag_bits x + ((mx - e - 1) + (1 + (e + mn)))) by lia.
        rewrite (p2add (mag_bits x)), (p2add (mx - e - 1)), (p2add 1) by lia.
        change (2 ^ 1) with 2. pose proof (p2ge1 (mx - e - 1) ltac:(lia)) as PA.
        set (N := 2 ^ mag_bits x) in *. set (A := 2 ^ (mx - e - 1)) in *. set (C := 2 ^ (e + mn)) in *.
        assert (T1 : -1 * k * C <= N * C) by nia.
        assert (T2 : N * C <= N * (A * C)) by nia.
        assert (T3 : 1 <= N * (A * C)) by nia.
        lia.
    + split; nia.
  - simpl orb.
    assert (0 <= k) by lia.
    pose proof (shift_bound (mag_bits x) mn mx e k Hx G1 G2 He ltac:(lia)) as [B1 B2].
    destruct (q_sgn w) eqn:Sw; cbv iota.
    + destruct neg; split; nia.
    + destruct neg; [specialize (Hneg eq_refl); discriminate|]. split; nia.
Qed.

(* ---- ternary / binary(+-1) x fixed (Mux): the product is -k, 0 or k ---- *)
Theorem mux_closed_w_tern_x_fixed w x out k t :
  (name_has_binary (q_name w) || name_has_ternary (q_name w)) = true ->
  name_has_po2 (q_name out) = false ->
  0 <= mag_bits x -> code_ok x k -> (t = -1 \/ t = 0 \/ t = 1) ->
  (t = -1 -> q_sgn w = true) ->
  ~ (t = -1 /\ q_sgn x = true /\ k = fix_lo x) ->
  let o := mux w x out in
  frac_bits o = frac_bits x /\ code_ok o (t * k).
Proof.
  intros Hn Hp Hx [Lk Hk] Ht Hs NC o.
  assert (F : frac_bits o = frac_bits x /\ mag_bits o = mag_bits x /\ q_sgn o = q_sgn x || q_sgn w).
  { unfold o, mux. rewrite Hn.
    assert (P : forall z, name_has_po2 (q_name (set_sgn out z)) = false) by (intros; exact Hp).
    unfold frac_bits, mag_bits.
    destruct (q_sgn x) eqn:Sx; destruct (q_sgn w) eqn:Sw; simpl; rewrite Hp; simpl; rewrite ?Sx, ?Sw; simpl; lia. }
  destruct F as [F [M S]]. split; [exact F|].
  unfold code_ok, fix_lo, fix_hi in *. rewrite M, S.
  pose proof (p2ge1 _ Hx).
  destruct (q_sgn x) eqn:Sx; destruct (q_sgn w) eqn:Sw; simpl orb; cbv iota;
    destruct Ht as [-> | [-> | ->]]; try (specialize (Hs eq_refl); discriminate); try lia.
Qed.

Theorem mux_closed_w_fixed_x_tern w x out k t :
  (name_has_binary (q_name w) || name_has_ternary (q_name w)) = false ->
  name_has_po2 (q_name out) = false ->
  0 <= mag_bits w -> code_ok w k -> (t = -1 \/ t = 0 \/ t = 1) ->
  (t = -1 -> q_sgn x = true) ->
  ~ (t = -1 /\ q_sgn w = true /\ k = fix_lo w) ->
  let o := mux w x out in
  frac_bits o = frac_bits w /\ code_ok o (k * t).
Proof.
  intros Hn Hp Hw [Lk Hk] Ht Hs NC o.
  assert (F : frac_bits o = frac_bits w /\ mag_bits o = mag_bits w /\ q_sgn o = q_sgn x || q_sgn w).
  { unfold o, mux. rewrite Hn. unfold frac_bits, mag_bits.
    destruct (q_sgn x) eqn:Sx; destruct (q_sgn w) eqn:Sw; simpl; rewrite Hp; simpl; rewrite ?Sx, ?Sw; simpl; lia. }
  destruct F as [F [M S]]. split; [exact F|].
  unfold code_ok, fix_lo, fix_hi in *. rewrite M, S.
  pose proof (p2ge1 _ Hw).
  destruct (q_sgn x) eqn:Sx; destruct (q_sgn w) eqn:Sw; simpl orb; cbv iota;
    destruct Ht as [-> | [-> | ->]]; try (specialize (Hs eq_refl); discriminate); try lia.
Qed.

(* ---- binary 0/1 weight x fixed (AndGate), weight named "binary" with use_01 ---- *)
Theorem and_closed_w01_x_fixed w x out k t :
  name_is_ternary (q_name out) = false -> name_has_po2 (q_name out) = false ->
  name_is_binary (q_name w) = true -> q_use01 w = Some true ->
  q_bits w = 1 -> q_sgn w = false -> 1 <= q_bits x ->
  code_ok x k -> (t = 0 \/ t = 1) ->
  let o := and_gate w x out in
  frac_bits o = frac_bits x /\ code_ok o (t * k).
Proof.
  intros Ht Hp Hb Hu Hbw Hsw Hbx [Lk Hk] Hv o.
  assert (F : frac_bits o = frac_bits x /\ mag_bits o = mag_bits x /\ q_sgn o = q_sgn x).
  { unfold o, and_gate. rewrite Ht, Hb, Hu. simpl. rewrite Hp. unfold frac_bits, mag_bits. simpl.
    rewrite Hsw, Hbw. rewrite orb_false_r. repeat split; try reflexivity; lia. }
  destruct F as [F [M S]]. split; [exact F|].
  unfold code_ok, fix_lo, fix_hi in *. rewrite M, S.
  pose proof (p2nonneg (mag_bits x)).
  destruct (q_sgn x); destruct Hv as [-> | ->]; lia.
Qed.

(* ---- fixed weight x binary 0/1 input (AndGate) ---- *)
Theorem and_closed_w_fixed_x01 w x out k t :
  name_is_ternary (q_name out) = false -> name_has_po2 (q_name out) = false ->
  name_is_binary (q_name w) = false ->
  q_bits x = 1 -> q_sgn x = false -> 1 <= q_bits w ->
  code_ok w k -> (t = 0 \/ t = 1) ->
  let o := and_gate w x out in
  frac_bits o = frac_bits w /\ code_ok o (k * t).
Proof.
  intros Ht Hp Hb Hbx Hsx Hbw [Lk Hk] Hv o.
  assert (F : frac_bits o = frac_bits w /\ mag_bits o = mag_bits w /\ q_sgn o = q_sgn w).
  { unfold o, and_gate. rewrite Ht, Hb. simpl. rewrite Hp. unfold frac_bits, mag_bits. simpl.
    rewrite Hsx, Hbx. simpl. repeat split; try reflexivity; lia. }
  destruct F as [F [M S]]. split; [exact F|].
  unfold code_ok, fix_lo, fix_hi in *. rewrite M, S.
  pose proof (p2nonneg (mag_bits w)).
  destruct (q_sgn w); destruct Hv as [-> | ->]; lia.
Qed.

(* ---- po2 x po2 (Adder): exponents add; same signedness, no max_value ---- *)
Theorem adder_mul_exponents_same_sign w x out e1 e2 :
  q_sgn w = q_sgn x -> q_maxv w = None -> q_maxv x = None ->
  1 <= q_bits w - b2z (q_sgn w) -> 1 <= q_bits x - b2z (q_sgn x) ->
  - fst (get_exp w) <= e1 <= snd (get_exp w) ->
  - fst (get_exp x) <= e2 <= snd (get_exp x) ->
  let o := adder_mul w x out in
  - fst (get_exp o) <= e1 + e2 <= snd (get_exp o).
Proof.
  intros Hs Mw Mx Bw Bx H1 H2 o.
  assert (Ho : q_bits o = Z.max (q_bits x) (q_bits w) + 1 /\ q_sgn o = q_sgn x || q_sgn w /\ q_maxv o = None).
  { unfold o, adder_mul. rewrite Mw, Mx.
    destruct (name_has_po2 _); simpl; repeat split. }
  destruct Ho as [Hb [Hsg Hm]].
  unfold get_exp, exp_bits in *. rewrite Mw in H1. rewrite Mx in H2. rewrite Hm, Hb, Hsg.
  cbn [fst snd] in *. rewrite Hs in *.
  destruct (q_sgn x) eqn:Sx; simpl orb; cbv iota; cbn [b2z] in *.
  - set (a := q_bits w - 1 - 1) in *. set (b := q_bits x - 1 - 1) in *.
    assert (Ha : 0 <= a) by (unfold a; lia). assert (Hb' : 0 <= b) by (unfold b; lia).
    replace (Z.max (q_bits x) (q_bits w) + 1 - 1 - 1) with (Z.max b a + 1) by (unfold a, b; lia).
    rewrite p2add by lia. change (2 ^ 1) with 2.
    assert (2 ^ a <= 2 ^ Z.max b a) by (apply Z.pow_le_mono_r; lia).
    assert (2 ^ b <= 2 ^ Z.max b a) by (apply Z.pow_le_mono_r; lia).
    pose proof (p2ge1 a Ha). pose proof (p2ge1 b Hb'). lia.
  - set (a := q_bits w - 1) in *. set (b := q_bits x - 1) in *.
    assert (Ha : 0 <= a) by (unfold a; lia). assert (Hb' : 0 <= b) by (unfold b; lia).
    replace (Z.max (q_bits x) (q_bits w) + 1 - 1) with (Z.max b a + 1) by (unfold a, b; lia).
    rewrite p2add by lia. change (2 ^ 1) with 2.
    assert (2 ^ a <= 2 ^ Z.max b a) by (apply Z.pow_le_mono_r; lia).
    assert (2 ^ b <= 2 ^ Z.max b a) by (apply Z.pow_le_mono_r; lia).
    pose proof (p2ge1 a Ha). pose proof (p2ge1 b Hb'). lia.
Qed.

(* signed po2 x unsigned po2: the reported exponent range is too small.
   quantized_po2(2) x quantized_relu_po2(2): 1/2 * 1/4 = 2^-3, reported range [-2, 1] *)
Theorem adder_mul_mixed_sign_refuted :
  exists w x, q_mode w = 1 /\ q_mode x = 1 /\ mul_bad_pairs w x <> [].
Proof.
  exists (QT 1 2 2 true false true None NPo2 None), (QT 1 2 2 false false true None NReluPo2 None).
  vm_compute. repeat split; discriminate. Qed.

(* po2 with max_value <= 1 (no exponent sign bit) x po2 with an exponent sign bit: the reported range is too small.
   quantized_po2(2, max_value=1/2) x quantized_po2(2): 1/4 * 1/2 = 2^-3, reported range [-2, 1] *)
Theorem adder_mul_no_exponent_sign_bit_refuted :
  exists w x, q_mode w = 1 /\ q_mode x = 1 /\ q_sgn w = q_sgn x /\ mul_bad_pairs w x <> [].
Proof.
  exists (QT 1 2 2 true false true (Some (1, 2)) NPo2 None), (QT 1 2 2 true false true None NPo2 None).
  vm_compute. repeat split; discriminate. Qed.

(* AndGate with a 0/1 weight that is not literally named "binary" (bernoulli, or
   quantized_relu(1,1)) copies the weight's integer bits instead of the input's *)
Theorem and_gate_01_weight_refuted :
  exists w x, q_mode w = 4 /\ q_mode x = 0 /\ mul_bad_pairs w x <> [].
Proof.
  exists (QT 4 1 1 false false false None NBernoulli (Some true)), (QT 0 4 3 true false false None NQBits None).
  vm_compute. repeat split; discriminate. Qed.

(* ---- the dispatch table gives the implementation kind the operand kinds call for ---- *)
Definition kind_spec (mw mx : Z) : impl :=
  if (mw =? 5) || (mx =? 5) then IFMul
  else if (mw =? 4) || (mx =? 4) then IAnd
  else if (mw =? 3) && (mx =? 3) then IXor
  else if (mw =? 2) || (mw =? 3) || (mx =? 2) || (mx =? 3) then IMux
  else if (mw =? 1) && (mx =? 1) then IAdd
  else if (mw =? 1) || (mx =? 1) then IShifter
  else IMul.

Theorem impl_kind_table mw mx : 0 <= mw <= 5 -> 0 <= mx <= 5 ->
  fst (mul_table mw mx) = kind_spec mw mx.
Proof. intros Hw Hx.
  assert (Cw : mw = 0 \/ mw = 1 \/ mw = 2 \/ mw = 3 \/ mw = 4 \/ mw = 5) by lia.
  assert (Cx : mx = 0 \/ mx = 1 \/ mx = 2 \/ mx = 3 \/ mx = 4 \/ mx = 5) by lia.
  destruct Cw as [->|[->|[->|[->|[->| ->]]]]]; destruct Cx as [->|[->|[->|[->|[->| ->]]]]]; reflexivity.
Qed.

(* output template kind: fixed unless both operands are po2/ternary/binary kinds *)
Theorem zero_always_in_fixed_output t : 0 <= mag_bits t -> code_ok t 0.
Proof. intros H. unfold code_ok, fix_lo, fix_hi. pose proof (p2ge1 _ H). destruct (q_sgn t); lia. Qed.

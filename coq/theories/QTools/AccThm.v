(* QTools/AccThm.v -- C17: accumulator and adder types hold the sums they are sized for. *)
From Coq Require Import ZArith List Bool Lia ZifyBool.
From QV Require Import Base.ZQ Base.FL QTools.Types QTools.Ops QTools.MulThm.
Open Scope Z_scope.
Import ListNotations.

Definition zsum (l : list Z) : Z := fold_right Z.add 0 l.

Lemma zsum_bounds lo hi l : Forall (fun k => lo <= k <= hi) l ->
  Z.of_nat (length l) * lo <= zsum l <= Z.of_nat (length l) * hi.
Proof. induction 1 as [|k l Hk Hl IH]; cbn [zsum fold_right length]; [lia|].
  fold (zsum l). rewrite Nat2Z.inj_succ. lia. Qed.

Lemma log2_up_ge n : 1 <= n -> n <= 2 ^ Z.log2_up n.
Proof. intros H. destruct (Z.eq_dec n 1) as [->|N]; [cbn; lia|]. apply Z.log2_up_spec. lia. Qed.

(* the accumulator of a kernel with N multiply-accumulate terms holds any sum of
   at most N (+1 with bias) values of the multiplier output type *)
Theorem fixed_acc_holds_sum kernel_ops use_bias m ks :
  1 <= kernel_ops -> 0 <= mag_bits m ->
  Forall (code_ok m) ks -> Z.of_nat (length ks) <= kernel_ops + b2z use_bias ->
  let a := fixed_acc kernel_ops use_bias m in
  frac_bits a = frac_bits m /\ code_ok a (zsum ks).
Proof.
  intros HN Hm Hks Hlen a.
  set (l := log_add_ops kernel_ops use_bias).
  assert (Hl : 0 <= l) by (unfold l, log_add_ops; apply Z.log2_up_nonneg).
  assert (HNl : kernel_ops + b2z use_bias <= 2 ^ l).
  { unfold l, log_add_ops. apply log2_up_ge. destruct use_bias; cbn [b2z]; lia. }
  assert (F : frac_bits a = frac_bits m /\ mag_bits a = l + mag_bits m /\ q_sgn a = q_sgn m).
  { unfold a, fixed_acc. fold l. unfold frac_bits, mag_bits. simpl. repeat split; try reflexivity; lia. }
  destruct F as [F [M S]]. split; [exact F|].
  unfold code_ok, fix_lo, fix_hi in *. rewrite M, S, p2add by lia.
  pose proof (zsum_bounds _ _ ks Hks) as [B1 B2].
  pose proof (p2ge1 (mag_bits m) Hm). pose proof (p2ge1 l Hl).
  set (n := Z.of_nat (length ks)) in *. assert (0 <= n) by (unfold n; lia).
  destruct (q_sgn m); split; nia.
Qed.

(* fixed-point adder: aligns to the finest fraction, one more integer bit *)
Theorem fixed_adder_frac_finest q1 q2 :
  frac_bits (fixed_adder q1 q2) = Z.max (frac_bits q1) (frac_bits q2).
Proof. unfold fixed_adder, frac_bits. simpl. lia. Qed.

Theorem fixed_adder_int_enough q1 q2 :
  q_int (fixed_adder q1 q2) = Z.max (q_int q1) (q_int q2) + 1.
Proof. reflexivity. Qed.

Theorem fixed_adder_holds_sum q1 q2 k1 k2 :
  0 <= mag_bits q1 -> 0 <= mag_bits q2 ->
  code_ok q1 k1 -> code_ok q2 k2 ->
  let o := fixed_adder q1 q2 in
  let f := frac_bits o in
  code_ok o (k1 * 2 ^ (f - frac_bits q1) + k2 * 2 ^ (f - frac_bits q2)).
Proof.
  intros H1 H2 [L1 U1] [L2 U2] o f.
  assert (F : f = Z.max (frac_bits q1) (frac_bits q2)) by apply fixed_adder_frac_finest.
  assert (M : mag_bits o = Z.max (q_int q1) (q_int q2) + 1 + f).
  { unfold f, o, fixed_adder, mag_bits, frac_bits. simpl. lia. }
  assert (S : q_sgn o = q_sgn q1 || q_sgn q2) by reflexivity.
  unfold code_ok, fix_lo, fix_hi in *. rewrite M, S.
  set (d1 := f - frac_bits q1). set (d2 := f - frac_bits q2).
  assert (D1 : 0 <= d1) by (unfold d1; lia). assert (D2 : 0 <= d2) by (unfold d2; lia).
  (* mag_bits qi + di = q_int qi + f <= max int + f *)
  assert (E1 : mag_bits q1 + d1 = q_int q1 + f) by (unfold d1, mag_bits, frac_bits; lia).
  assert (E2 : mag_bits q2 + d2 = q_int q2 + f) by (unfold d2, mag_bits, frac_bits; lia).
  set (T := Z.max (q_int q1) (q_int q2) + f).
  assert (T1 : mag_bits q1 + d1 <= T) by (unfold T; lia).
  assert (T2 : mag_bits q2 + d2 <= T) by (unfold T; lia).
  assert (HT : 0 <= T) by lia.
  replace (Z.max (q_int q1) (q_int q2) + 1 + f) with (T + 1) by (unfold T; lia).
  rewrite (p2add T 1) by lia. change (2 ^ 1) with 2.
  assert (P1 : 2 ^ mag_bits q1 * 2 ^ d1 <= 2 ^ T).
  { rewrite <- p2add by lia. apply Z.pow_le_mono_r; lia. }
  assert (P2 : 2 ^ mag_bits q2 * 2 ^ d2 <= 2 ^ T).
  { rewrite <- p2add by lia. apply Z.pow_le_mono_r; lia. }
  pose proof (p2ge1 d1 D1). pose proof (p2ge1 d2 D2).
  pose proof (p2ge1 (mag_bits q1) H1). pose proof (p2ge1 (mag_bits q2) H2).
  set (A1 := 2 ^ mag_bits q1) in *. set (A2 := 2 ^ mag_bits q2) in *.
  set (X1 := 2 ^ d1) in *. set (X2 := 2 ^ d2) in *.
  assert (U1' : k1 * X1 <= A1 * X1 - X1) by nia.
  assert (U2' : k2 * X2 <= A2 * X2 - X2) by nia.
  destruct (q_sgn q1) eqn:S1; destruct (q_sgn q2) eqn:S2; simpl orb; cbv iota.
  - assert (k1 * X1 >= - (A1 * X1)) by nia. assert (k2 * X2 >= - (A2 * X2)) by nia. lia.
  - assert (k1 * X1 >= - (A1 * X1)) by nia. assert (0 <= k2 * X2) by nia. lia.
  - assert (0 <= k1 * X1) by nia. assert (k2 * X2 >= - (A2 * X2)) by nia. lia.
  - assert (0 <= k1 * X1) by nia. assert (0 <= k2 * X2) by nia. lia.
Qed.

(* widening an operand never narrows the adder's result *)
Theorem fixed_adder_widening_mono q1 q1' q2 :
  q_int q1 <= q_int q1' -> frac_bits q1 <= frac_bits q1' ->
  q_int (fixed_adder q1 q2) <= q_int (fixed_adder q1' q2) /\
  frac_bits (fixed_adder q1 q2) <= frac_bits (fixed_adder q1' q2).
Proof. intros. rewrite !fixed_adder_frac_finest, !fixed_adder_int_enough. lia. Qed.

Theorem fixed_acc_widening_mono n n' b m m' :
  1 <= n <= n' -> q_int m <= q_int m' -> frac_bits m <= frac_bits m' -> q_sgn m = q_sgn m' ->
  q_int (fixed_acc n b m) <= q_int (fixed_acc n' b m') /\
  frac_bits (fixed_acc n b m) <= frac_bits (fixed_acc n' b m').
Proof. intros Hn Hi Hf Hs. unfold fixed_acc, frac_bits, log_add_ops in *. simpl.
  assert (Z.log2_up (n + b2z b) <= Z.log2_up (n' + b2z b)) by (apply Z.log2_up_le_mono; lia).
  rewrite Hs in *. lia. Qed.

(* power-of-two operand converted to fixed point: EVERY value of the type, the top exponent included, is covered *)
Theorem po2_to_qbits_covers t e :
  let mn := fst (get_exp t) in let mx := snd (get_exp t) in
  - mn <= e <= mx ->
  let q := po2_qbits_converter t in
  frac_bits q = mn /\ code_ok q (2 ^ (e + mn)) /\ (q_sgn t = true -> code_ok q (- 2 ^ (e + mn))).
Proof.
  intros mn mx He q.
  pose proof (get_exp_nonneg t) as [G1 G2]. fold mn in G1. fold mx in G2.
  assert (E : get_exp t = (mn, mx)) by (unfold mn, mx; destruct (get_exp t); reflexivity).
  assert (F : frac_bits q = mn /\ mag_bits q = mn + mx + 1 /\ q_sgn q = q_sgn t).
  { unfold q, po2_qbits_converter, po2_to_qbits. rewrite E. unfold frac_bits, mag_bits. simpl.
    repeat split; try reflexivity; lia. }
  destruct F as [F [M S]]. split; [exact F|].
  unfold code_ok, fix_lo, fix_hi. rewrite M, S.
  assert (P : 2 * 2 ^ (e + mn) <= 2 ^ (mn + mx + 1)).
  { change 2 with (2 ^ 1) at 1. rewrite <- p2add by lia. apply Z.pow_le_mono_r; lia. }
  pose proof (p2ge1 (e + mn) ltac:(lia)).
  split; [destruct (q_sgn t); lia|]. intros ->. lia.
Qed.

(* before fix: 1f09dc0 the top value 2^max_exp itself was not covered (int_bits = max_exp is one short) *)
Definition po2_qbits_converter_before_repair (t : qt) : qt :=
  let '(b, i) := po2_to_qbits_before_repair t in set_sgn (set_int (set_bits mkQuantizedBits b) i) (q_sgn t).
Theorem po2_to_qbits_top_value_before_repair_refuted :
  exists t, q_mode t = 1 /\
    let q := po2_qbits_converter_before_repair t in
    mem_type t (rpow2 (snd (get_exp t))) = true /\ mem_type q (rpow2 (snd (get_exp t))) = false /\
    mem_type (po2_qbits_converter t) (rpow2 (snd (get_exp t))) = true.
Proof. exists (QT 1 3 3 true false true None NPo2 None). vm_compute. repeat split. Qed.

(* merge Add drops fractional bits when operands have different integer parts *)
Theorem merge_add_refuted :
  exists a b va vb, mem_type a va = true /\ mem_type b vb = true /\
    mem_type (merge_add [a; b]) (rnorm (radd va vb)) = false.
Proof.
  exists (QT 0 8 0 true false false None NQBits None), (QT 0 8 7 true false false None NQBits None),
         (1, 128), (1, 1).
  vm_compute. repeat split. Qed.

Theorem merge_max_refuted :
  exists a b va, mem_type a va = true /\ mem_type (merge_max [a; b]) va = false.
Proof.
  exists (QT 0 8 0 true false false None NQBits None), (QT 0 8 7 true false false None NQBits None), (1, 128).
  vm_compute. repeat split. Qed.

(* merge of identical operand types is the operand type (Maximum / Concatenate) *)
Theorem merge_max_same a : merge_max [a; a] = a.
Proof. unfold merge_max, forallb, same_type. rewrite !Z.eqb_refl, Bool.eqb_reflx. reflexivity. Qed.

(* ---- merge Add: where it IS sound.  For two fixed-point operands with the same number of integer bits and the same
   signedness the reported type is exactly the fixed-point adder's (nothing is dropped), so it holds every sum ---- *)
Theorem merge_add_same_int_is_fixed_adder a b :
  q_fp a = false -> q_fp b = false -> q_po2 a = false -> q_po2 b = false ->
  q_int a = q_int b -> q_sgn a = q_sgn b -> 0 <= q_bits a -> 0 <= q_bits b -> 0 <= q_int a ->
  merge_add [a; b] = fixed_adder a b.
Proof.
  intros Fa Fb Pa Pb I S Ba Bb Ia.
  unfold merge_add, merge_scan. cbn [fold_left]. rewrite Fa, Fb. unfold as_qbits. rewrite Pa, Pb. cbv zeta.
  unfold fixed_adder, frac_bits, set_bits, set_sgn, set_int, mkQuantizedBits. cbn [q_mode q_bits q_int q_sgn q_fp q_po2 q_maxv q_name q_use01 orb].
  rewrite <- S, <- I. rewrite orb_diag. f_equal; destruct (q_sgn a); cbn [b2z]; lia.
Qed.
Theorem merge_add_same_int_holds_sum a b ka kb :
  q_fp a = false -> q_fp b = false -> q_po2 a = false -> q_po2 b = false ->
  q_int a = q_int b -> q_sgn a = q_sgn b -> 0 <= q_bits a -> 0 <= q_bits b -> 0 <= q_int a ->
  0 <= mag_bits a -> 0 <= mag_bits b -> code_ok a ka -> code_ok b kb ->
  let o := merge_add [a; b] in
  frac_bits o = Z.max (frac_bits a) (frac_bits b) /\
  code_ok o (ka * 2 ^ (frac_bits o - frac_bits a) + kb * 2 ^ (frac_bits o - frac_bits b)).
Proof.
  intros Fa Fb Pa Pb I S Ba Bb Ia Ma Mb Ka Kb o. unfold o.
  rewrite (merge_add_same_int_is_fixed_adder a b) by assumption.
  split; [apply fixed_adder_frac_finest|]. apply fixed_adder_holds_sum; assumption.
Qed.
Example merge_add_same_int_nonvacuous :
  let a := set_sgn (set_int (set_bits mkQuantizedBits 6) 2) true in
  let b := set_sgn (set_int (set_bits mkQuantizedBits 4) 2) true in
  merge_add [a; b] = fixed_adder a b /\ frac_bits (merge_add [a; b]) = 3 /\ q_int (merge_add [a; b]) = 3 /\ q_bits (merge_add [a; b]) = 7.
Proof. vm_compute. repeat split; reflexivity. Qed.

(* merge Add is sized for TWO operands whatever their number: with three the sum of the largest values overflows *)
Theorem merge_add_three_operands_refuted :
  exists a k, code_ok a k /\ frac_bits (merge_add [a; a; a]) = frac_bits a /\ ~ code_ok (merge_add [a; a; a]) (k + k + k).
Proof.
  exists (set_sgn (set_int (set_bits mkQuantizedBits 4) 3) true), 7.
  vm_compute. repeat split; try (intros; discriminate). intros [_ H]. apply H. reflexivity.
Qed.

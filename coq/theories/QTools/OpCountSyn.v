(* QTools/OpCountSyn.v -- the vocabulary the generated get_operation_count (coq/gen/OpCountGen.v) is written in.
   Shapes are lists of Z, a None dimension is -1. *)
From Coq Require Import ZArith String List Bool.
Import ListNotations.
Open Scope Z_scope.

Definition nthz (k : nat) (s : list Z) : Z := nth k s 0.
Definition prodl (s : list Z) : Z := fold_right Z.mul 1 s.
Definition lastz (s : list Z) : Z := last s 0.
(* s[1:-1] *)
Definition middle (s : list Z) : list Z := removelast (skipn 1 s).
(* [i for i in s if i is not None] *)
Definition known (s : list Z) : list Z := filter (fun i => 0 <=? i) s.
(* np.max of a non-empty array *)
Definition maxl (s : list Z) : Z := match s with [] => 0 | x :: r => fold_left Z.max r x end.

Definition in_names (c : string) (l : list string) : bool := existsb (String.eqb c) l.
(* Python `sub in s` *)
Fixpoint has_substr (sub s : string) : bool :=
  if prefix sub s then true else match s with EmptyString => false | String _ r => has_substr sub r end.

Example has_substr_ex : has_substr "MaxPool" "GlobalMaxPooling2D" = true /\ has_substr "Flatten" "QDense" = false /\
  has_substr "" "" = true.
Proof. repeat split. Qed.
Example middle_ex : middle [7; 3; 4; 5] = [3; 4] /\ middle [7; 5] = [] /\ known [-1; 3; 1] = [3; 1] /\ maxl [1; 1; 9; 2] = 9.
Proof. repeat split. Qed.

(* QTools/LayerMap.v -- C18: the dense / convolution branch of generate_layer_data_type_map
   (generate_layer_data_type_map.py:609-795) composed from the operator rules of Ops.v, the
   auto_po2 adjustment (qtools_util.py:261-351), and the weight-based estimator
   analyze_accumulator (estimate.py:57-150) as arithmetic on rationals. *)
From Coq Require Import ZArith QArith Qminmax List Bool Lia Lqa.
From QV Require Import Base.ZQ Base.FL QTools.Types QTools.Ops QTools.MulThm QTools.AccThm.
Import ListNotations.
Open Scope Z_scope.

(* multiplier = make_multiplier(weight, input); kernel accumulator with use_bias=False;
   with a bias the layer accumulator is IAdder(kernel accumulator, bias quantizer) *)
Definition layer_mul (w x : qt) : qt := snd (make_multiplier w x).
Definition layer_acc_of (m : qt) (kernel_ops : Z) (bias : option qt) : qt :=
  let ka := make_accumulator kernel_ops false m in
  match bias with None => ka | Some b => make_adder ka b end.
Definition layer_acc (w x : qt) (kernel_ops : Z) (bias : option qt) : qt :=
  layer_acc_of (layer_mul w x) kernel_ops bias.

(* adjust_multiplier_for_auto_po2: scales 2^s per output channel, min_shift <= s <= max_shift *)
Definition adjust_auto_po2 (m : qt) (mn mx : Z) : qt :=
  set_int (set_bits m (q_int m + mx + (q_bits m - q_int m - mn))) (q_int m + mx).
Definition layer_fused_acc (w x : qt) (kernel_ops : Z) (bias : option qt) (mn mx : Z) : qt :=
  layer_acc_of (adjust_auto_po2 (layer_mul w x) mn mx) kernel_ops bias.

Definition corner (w x : qt) (kw kx : Z) : Prop :=
  q_sgn w = true /\ q_sgn x = true /\ kw = fix_lo w /\ kx = fix_lo x.

Fixpoint dot (kws kxs : list Z) : Z :=
  match kws, kxs with kw :: r, kx :: r' => kw * kx + dot r r' | _, _ => 0 end.
Fixpoint prods (kws kxs : list Z) : list Z :=
  match kws, kxs with kw :: r, kx :: r' => kw * kx :: prods r r' | _, _ => [] end.
Lemma dot_zsum kws kxs : dot kws kxs = zsum (prods kws kxs).
Proof. revert kxs. induction kws as [|a r IH]; intros [|b r']; cbn; try reflexivity. rewrite IH. reflexivity. Qed.
Lemma prods_length kws kxs : length kws = length kxs -> length (prods kws kxs) = length kws.
Proof. revert kxs. induction kws as [|a r IH]; intros [|b r'] H; cbn in *; try lia. rewrite IH; lia. Qed.

Inductive all_pairs (P : Z -> Z -> Prop) : list Z -> list Z -> Prop :=
| ap_nil : all_pairs P [] []
| ap_cons a b r r' : P a b -> all_pairs P r r' -> all_pairs P (a :: r) (b :: r').

Lemma all_pairs_length P a b : all_pairs P a b -> length a = length b.
Proof. intros H. induction H; cbn; lia. Qed.
Lemma all_pairs_prods (P : Z -> Z -> Prop) (R : Z -> Prop) a b :
  (forall u v, P u v -> R (u * v)) -> all_pairs P a b -> Forall R (prods a b).
Proof. intros I H. induction H; cbn; constructor; auto. Qed.

Lemma fixed_mul_mag w x out : mag_bits (fixed_mul w x out) = mag_bits w + mag_bits x.
Proof. unfold fixed_mul, mag_bits. simpl. lia. Qed.

(* fixed x fixed layer without bias: the dot product's code fits the accumulator, same fraction *)
Theorem dense_preact_fits_no_bias w x kernel_ops kws kxs :
  q_mode w = 0 -> q_mode x = 0 -> 0 <= mag_bits w -> 0 <= mag_bits x -> 1 <= kernel_ops ->
  all_pairs (fun kw kx => code_ok w kw /\ code_ok x kx /\ ~ corner w x kw kx) kws kxs ->
  Z.of_nat (length kws) <= kernel_ops ->
  let acc := layer_acc w x kernel_ops None in
  frac_bits acc = frac_bits w + frac_bits x /\ code_ok acc (dot kws kxs).
Proof.
  intros Mw Mx Hw Hx HN HP Hlen acc.
  assert (E : acc = fixed_acc kernel_ops false (fixed_mul w x mkQuantizedBits)).
  { unfold acc, layer_acc, layer_acc_of, layer_mul, make_multiplier. rewrite Mw, Mx. cbn [mul_table run_impl tmpl snd].
    unfold make_accumulator. reflexivity. }
  set (m := fixed_mul w x mkQuantizedBits) in *.
  assert (L : length kws = length kxs) by (eapply all_pairs_length; exact HP).
  assert (Pk : Forall (code_ok m) (prods kws kxs)).
  { eapply all_pairs_prods; [|exact HP]. intros a b [Ha [Hb NC]].
    apply (fixed_mul_closed w x mkQuantizedBits a b Hw Hx Ha Hb NC). }
  assert (Hm : 0 <= mag_bits m) by (unfold m; rewrite fixed_mul_mag; lia).
  assert (Hl : Z.of_nat (length (prods kws kxs)) <= kernel_ops + b2z false).
  { rewrite prods_length by exact L. cbn [b2z]. lia. }
  destruct (fixed_acc_holds_sum kernel_ops false m (prods kws kxs) HN Hm Pk Hl) as [F C].
  rewrite E, dot_zsum. split; [|exact C].
  rewrite F. unfold m, fixed_mul, frac_bits. simpl. lia. Qed.

(* ... with a fixed-point bias: the sum on the finer of the two grids fits the layer accumulator *)
Theorem dense_preact_fits_with_bias w x b kernel_ops kws kxs kb :
  q_mode w = 0 -> q_mode x = 0 -> q_mode b = 0 ->
  0 <= mag_bits w -> 0 <= mag_bits x -> 0 <= mag_bits b -> 1 <= kernel_ops ->
  all_pairs (fun kw kx => code_ok w kw /\ code_ok x kx /\ ~ corner w x kw kx) kws kxs ->
  Z.of_nat (length kws) <= kernel_ops -> code_ok b kb ->
  let ka := layer_acc w x kernel_ops None in
  let acc := layer_acc w x kernel_ops (Some b) in
  let F := frac_bits acc in
  F = Z.max (frac_bits w + frac_bits x) (frac_bits b) /\
  code_ok acc (dot kws kxs * 2 ^ (F - (frac_bits w + frac_bits x)) + kb * 2 ^ (F - frac_bits b)).
Proof.
  intros Mw Mx Mb Hw Hx Hb HN HP Hlen Hkb ka acc F.
  destruct (dense_preact_fits_no_bias w x kernel_ops kws kxs Mw Mx Hw Hx HN HP Hlen) as [Fk Ck].
  fold ka in Fk, Ck.
  assert (Mka : q_mode ka = 0).
  { unfold ka, layer_acc, layer_acc_of, layer_mul, make_multiplier. rewrite Mw, Mx. reflexivity. }
  assert (E : acc = fixed_adder ka b).
  { change acc with (make_adder ka b). unfold make_adder, add_table. rewrite Mka, Mb. reflexivity. }
  assert (Hka : 0 <= mag_bits ka).
  { unfold ka, layer_acc, layer_acc_of, layer_mul, make_multiplier. rewrite Mw, Mx.
    cbn [mul_table run_impl tmpl snd]. unfold make_accumulator. cbn [q_fp q_po2 fixed_mul set_fp set_bits set_sgn set_int].
    unfold fixed_acc, mag_bits. simpl.
    pose proof (Z.log2_up_nonneg (kernel_ops + b2z false)). unfold log_add_ops, mag_bits in *. lia. }
  pose proof (fixed_adder_holds_sum ka b (dot kws kxs) kb Hka Hb Ck Hkb) as S.
  cbv zeta in S. rewrite <- E in S. fold F in S. rewrite Fk in S.
  split; [|exact S].
  unfold F. rewrite E, fixed_adder_frac_finest, Fk. reflexivity. Qed.

(* ternary / binary (+-1) kernels on fixed-point inputs (mux multiplier): same statement *)
Lemma mux_tern_shape w x :
  (name_has_binary (q_name w) || name_has_ternary (q_name w)) = true ->
  let o := mux w x mkQuantizedBits in
  mag_bits o = mag_bits x /\ q_fp o = false /\ q_po2 o = false.
Proof. intros Hn o. unfold o, mux. rewrite Hn. unfold mag_bits.
  destruct (q_sgn x) eqn:Sx; destruct (q_sgn w) eqn:Sw; simpl; rewrite ?Sx, ?Sw; simpl; repeat split; lia. Qed.

Theorem tern_preact_fits_no_bias w x kernel_ops ts kxs :
  (q_mode w = 2 \/ q_mode w = 3) -> q_mode x = 0 ->
  (name_has_binary (q_name w) || name_has_ternary (q_name w)) = true -> q_sgn w = true ->
  0 <= mag_bits x -> 1 <= kernel_ops ->
  all_pairs (fun t kx => (t = -1 \/ t = 0 \/ t = 1) /\ code_ok x kx /\ ~ (t = -1 /\ q_sgn x = true /\ kx = fix_lo x)) ts kxs ->
  Z.of_nat (length ts) <= kernel_ops ->
  let acc := layer_acc w x kernel_ops None in
  frac_bits acc = frac_bits x /\ code_ok acc (dot ts kxs).
Proof.
  intros Mw Mx Hn Sw Hx HN HP Hlen acc.
  set (m := mux w x mkQuantizedBits).
  destruct (mux_tern_shape w x Hn) as [Mm [Fp Po]]. fold m in Mm, Fp, Po.
  assert (E : acc = fixed_acc kernel_ops false m).
  { unfold acc, layer_acc, layer_acc_of, layer_mul, make_multiplier. rewrite Mx.
    destruct Mw as [Mw|Mw]; rewrite Mw; cbn [mul_table run_impl tmpl snd]; fold m;
      unfold make_accumulator; rewrite Fp, Po; reflexivity. }
  assert (L : length ts = length kxs) by (eapply all_pairs_length; exact HP).
  assert (Pk : Forall (code_ok m) (prods ts kxs)).
  { eapply all_pairs_prods; [|exact HP]. intros t k [Ht [Hk NC]].
    apply (mux_closed_w_tern_x_fixed w x mkQuantizedBits k t Hn eq_refl Hx Hk Ht (fun _ => Sw) NC). }
  assert (Hm : 0 <= mag_bits m) by lia.
  assert (Hl : Z.of_nat (length (prods ts kxs)) <= kernel_ops + b2z false).
  { rewrite prods_length by exact L. cbn [b2z]. lia. }
  destruct (fixed_acc_holds_sum kernel_ops false m (prods ts kxs) HN Hm Pk Hl) as [F C].
  rewrite E, dot_zsum. split; [|exact C]. rewrite F.
  assert (C0 : code_ok x 0).
  { unfold code_ok, fix_lo, fix_hi. pose proof (p2ge1 _ Hx). destruct (q_sgn x); lia. }
  assert (T0 : (0 = -1 \/ 0 = 0 \/ 0 = 1)) by (right; left; reflexivity).
  assert (N0 : ~ (0 = -1 /\ q_sgn x = true /\ 0 = fix_lo x)) by (intros [A _]; lia).
  destruct (mux_closed_w_tern_x_fixed w x mkQuantizedBits 0 0 Hn eq_refl Hx C0 T0 (fun _ => Sw) N0) as [FF _].
  exact FF.
Qed.

(* power-of-two kernels on fixed-point inputs (shifter multiplier): a weight is (negative?, exponent) *)
Definition po2_term (mn : Z) (we : bool * Z) (k : Z) : Z := (if fst we then -1 else 1) * k * 2 ^ (snd we + mn).
Fixpoint po2_dot (mn : Z) (ws : list (bool * Z)) (kxs : list Z) : Z :=
  match ws, kxs with we :: r, k :: r' => po2_term mn we k + po2_dot mn r r' | _, _ => 0 end.

Lemma shifter_shape w x : q_mode w = 1 -> 0 <= mag_bits x ->
  let o := shifter w x mkQuantizedBits in
  0 <= mag_bits o /\ q_fp o = false /\ q_po2 o = false.
Proof. intros Mw Hx o. pose proof (get_exp_nonneg w) as [A B].
  unfold o, shifter. rewrite Mw. change (1 =? 1) with true. cbv iota.
  destruct (get_exp w) as [mn mx]. cbn [fst snd] in A, B. cbv beta iota zeta.
  unfold mag_bits, set_fp, set_sgn, set_int, set_bits, mkQuantizedBits in *. cbn [q_bits q_sgn q_fp q_po2 q_int q_mode q_maxv q_name q_use01].
  destruct (q_sgn x) eqn:Sx; destruct (q_sgn w) eqn:Sw; cbn [negb andb orb b2z] in *; repeat split; lia. Qed.

Theorem po2_preact_fits_no_bias w x kernel_ops (ws : list (bool * Z)) kxs :
  q_mode w = 1 -> q_mode x = 0 -> 0 <= mag_bits x -> 1 <= kernel_ops ->
  let mn := fst (get_exp w) in let mx := snd (get_exp w) in
  length ws = length kxs ->
  (forall we k, In (we, k) (combine ws kxs) ->
     - mn <= snd we <= mx /\ code_ok x k /\ (fst we = true -> q_sgn w = true) /\
     ~ (fst we = true /\ q_sgn x = true /\ k = fix_lo x /\ snd we = mx)) ->
  Z.of_nat (length ws) <= kernel_ops ->
  let acc := layer_acc w x kernel_ops None in
  frac_bits acc = frac_bits x + mn /\ code_ok acc (po2_dot mn ws kxs).
Proof.
  intros Mw Mx Hx HN mn mx L HP Hlen acc.
  set (m := shifter w x mkQuantizedBits).
  destruct (shifter_shape w x Mw Hx) as [Hm [Fp Po]]. fold m in Hm, Fp, Po.
  assert (E : acc = fixed_acc kernel_ops false m).
  { unfold acc, layer_acc, layer_acc_of, layer_mul, make_multiplier. rewrite Mw, Mx.
    cbn [mul_table run_impl tmpl snd]. fold m. unfold make_accumulator. rewrite Fp, Po. reflexivity. }
  assert (G : forall ws' kxs', length ws' = length kxs' ->
              (forall we k, In (we, k) (combine ws' kxs') -> In (we, k) (combine ws kxs)) ->
              exists ps, length ps = length ws' /\ Forall (code_ok m) ps /\ zsum ps = po2_dot mn ws' kxs').
  { induction ws' as [|we r IH]; intros [|k r'] L' Sub; cbn in L'; try lia.
    - exists []. repeat split; constructor.
    - destruct (IH r') as [ps [Lp [Fo Zs]]]; [lia | intros we' k' I; apply Sub; right; exact I |].
      destruct (HP we k (Sub we k (or_introl eq_refl))) as [He [Hk [Hs NC]]].
      destruct (shifter_closed_w_po2 w x mkQuantizedBits k (snd we) (fst we) Mw Hx He Hk Hs NC) as [_ C].
      exists (po2_term mn we k :: ps). cbn [length zsum fold_right po2_dot]. repeat split; [lia | constructor; [exact C | exact Fo] |].
      unfold zsum in Zs. rewrite Zs. reflexivity. }
  destruct (G ws kxs L (fun _ _ I => I)) as [ps [Lp [Fo Zs]]].
  assert (Hl : Z.of_nat (length ps) <= kernel_ops + b2z false) by (rewrite Lp; cbn [b2z]; lia).
  destruct (fixed_acc_holds_sum kernel_ops false m ps HN Hm Fo Hl) as [F C].
  rewrite E, <- Zs. split; [|exact C]. rewrite F.
  unfold m, shifter. rewrite Mw. change (1 =? 1) with true. cbv iota. unfold mn. destruct (get_exp w) as [mn' mx']. cbv beta iota zeta. cbn [fst].
  unfold frac_bits, set_fp, set_sgn, set_int, set_bits, mkQuantizedBits. cbn [q_bits q_sgn q_fp q_po2 q_int].
  destruct (q_sgn x) eqn:Sx; destruct (q_sgn w) eqn:Sw; cbn [negb andb orb b2z]; lia.
Qed.

(* the excluded corner is real: most-negative x most-negative overflows the reported accumulator *)
Theorem preact_corner_refuted :
  exists w x kernel_ops kws kxs,
    q_mode w = 0 /\ q_mode x = 0 /\ Z.of_nat (length kws) <= kernel_ops /\
    Forall (code_ok w) kws /\ Forall (code_ok x) kxs /\
    ~ code_ok (layer_acc w x kernel_ops None) (dot kws kxs).
Proof.
  exists (QT 0 3 0 true false false None NQBits None), (QT 0 3 0 true false false None NQBits None), 2, [-4; -4], [-4; -4].
  repeat split; try reflexivity; try (repeat constructor; vm_compute; intuition discriminate). Qed.

(* auto_po2 adjustment: a product code k of the unadjusted multiplier, scaled by 2^s with
   mn <= s <= mx, is the code k * 2^(s - mn) of the adjusted type (fraction frac - mn) *)
Theorem auto_po2_adjusted_multiplier_holds_scaled_product m mn mx s k :
  0 <= mag_bits m -> mn <= s <= mx -> code_ok m k ->
  let m' := adjust_auto_po2 m mn mx in
  frac_bits m' = frac_bits m - mn /\ code_ok m' (k * 2 ^ (s - mn)).
Proof.
  intros Hm Hs [L U] m'.
  assert (F : frac_bits m' = frac_bits m - mn /\ mag_bits m' = mag_bits m + (mx - mn) /\ q_sgn m' = q_sgn m).
  { unfold m', adjust_auto_po2, frac_bits, mag_bits. simpl. repeat split; lia. }
  destruct F as [F [M S]]. split; [exact F|].
  unfold code_ok, fix_lo, fix_hi in *. rewrite M, S, p2add by lia.
  pose proof (p2ge1 (mag_bits m) Hm).
  assert (P : 1 <= 2 ^ (s - mn) <= 2 ^ (mx - mn)).
  { split; [apply p2ge1; lia | apply Z.pow_le_mono_r; lia]. }
  set (A := 2 ^ mag_bits m) in *. set (X := 2 ^ (s - mn)) in *. set (Y := 2 ^ (mx - mn)) in *.
  destruct (q_sgn m); split; nia. Qed.

(* ===================== analyze_accumulator (estimate.py:57-150) ===================== *)
Open Scope Q_scope.
Definition qpos (v : Q) : Q := if Qlt_le_dec 0 v then v else 0.
Definition qneg (v : Q) : Q := if Qlt_le_dec v 0 then v else 0.
Fixpoint qsum (l : list Q) : Q := match l with [] => 0 | a :: r => a + qsum r end.
Fixpoint qdot (ws xs : list Q) : Q := match ws, xs with w :: r, x :: r' => w * x + qdot r r' | _, _ => 0 end.

(* before the repair (fix: commit): the bias was folded into the positive / negative weight sums, hence scaled by the input range *)
Definition est_before_repair (ws : list Q) (b xmin xmax : Q) : Q * Q :=
  let npp := qsum (map qpos ws) + qpos b in
  let nnn := qsum (map qneg ws) + qneg b in
  (npp * qpos xmax + nnn * qneg xmin, - (nnn * qpos xmax + npp * qneg xmin)).
(* the code as it stands: bias added once *)
Definition est_sound (ws : list Q) (b xmin xmax : Q) : Q * Q :=
  let npp := qsum (map qpos ws) in
  let nnn := qsum (map qneg ws) in
  (npp * qpos xmax + nnn * qneg xmin + b, - (nnn * qpos xmax + npp * qneg xmin + b)).

Lemma qpos_nonneg v : 0 <= qpos v. Proof. unfold qpos. destruct (Qlt_le_dec 0 v); lra. Qed.
Lemma qneg_nonpos v : qneg v <= 0. Proof. unfold qneg. destruct (Qlt_le_dec v 0); lra. Qed.
Lemma qpos_ge v : v <= qpos v. Proof. unfold qpos. destruct (Qlt_le_dec 0 v); lra. Qed.
Lemma qneg_le v : qneg v <= v. Proof. unfold qneg. destruct (Qlt_le_dec v 0); lra. Qed.
Lemma qsplit v : v == qpos v + qneg v.
Proof. unfold qpos, qneg. destruct (Qlt_le_dec 0 v); destruct (Qlt_le_dec v 0); lra. Qed.

Lemma term_upper w x xmin xmax : xmin <= x <= xmax -> w * x <= qpos w * qpos xmax + qneg w * qneg xmin.
Proof. intros [L U].
  pose proof (qpos_nonneg w). pose proof (qneg_nonpos w). pose proof (qpos_ge xmax). pose proof (qneg_le xmin).
  rewrite (qsplit w) at 1. nra. Qed.
Lemma term_lower w x xmin xmax : xmin <= x <= xmax -> qneg w * qpos xmax + qpos w * qneg xmin <= w * x.
Proof. intros [L U].
  pose proof (qpos_nonneg w). pose proof (qneg_nonpos w). pose proof (qpos_ge xmax). pose proof (qneg_le xmin).
  rewrite (qsplit w) at 3. nra. Qed.

Inductive in_box (xmin xmax : Q) : list Q -> list Q -> Prop :=
| ib_nil : in_box xmin xmax [] []
| ib_cons w x ws xs : xmin <= x <= xmax -> in_box xmin xmax ws xs -> in_box xmin xmax (w :: ws) (x :: xs).

(* every output of the channel, for every input in the box, lies between -n0 and n1 of the sound estimator *)
Theorem est_sound_bounds_output ws xs b xmin xmax : in_box xmin xmax ws xs ->
  let '(n1, n0) := est_sound ws b xmin xmax in - n0 <= qdot ws xs + b <= n1.
Proof. intros H. unfold est_sound.
  assert (B : qsum (map qneg ws) * qpos xmax + qsum (map qpos ws) * qneg xmin <= qdot ws xs /\
              qdot ws xs <= qsum (map qpos ws) * qpos xmax + qsum (map qneg ws) * qneg xmin).
  { induction H as [|w x ws xs Hx _ [IL IU]]; cbn [map qsum qdot]; [lra|].
    pose proof (term_upper w x xmin xmax Hx). pose proof (term_lower w x xmin xmax Hx). split; nra. }
  destruct B. split; lra. Qed.

(* the estimator before the repair was NOT such a bound: weights 0, bias 1, inputs in [0, 1/2] *)
Theorem est_before_repair_refuted :
  exists ws xs b xmin xmax, in_box xmin xmax ws xs /\
    let '(n1, n0) := est_before_repair ws b xmin xmax in ~ (qdot ws xs + b <= Qmax n1 n0).
Proof. exists [0], [1#2], 1, 0, (1#2). split.
  - constructor; [split; vm_compute; discriminate | constructor].
  - vm_compute. intros H. apply H. reflexivity. Qed.

(* ===================== bridge: quantizer models (C01) -> qtools types (C18) ===================== *)
(* QuantizedBits.convert_qkeras_quantizer (quantizer_impl.py:99-106): bits, int_bits = integer, is_signed = keep_negative *)
From QV Require Import Quant.Fixed Quant.FixedThm.
Open Scope Z_scope.
Definition qt_of_qbits (c : qbits) : qt := QT 0 (qb_bits c) (qb_int c) (qb_kn c) false false None NQBits None.

(* every value the quantized_bits model can emit (any input a/b) is a code of the qtools type reported for it,
   on the same grid: weights, biases and fixed-point activations fit their reported quantizer type *)
Theorem qbits_value_fits_reported_type c a b : 0 < qb_ub c ->
  frac_bits (qt_of_qbits c) = - qb_se c /\ code_ok (qt_of_qbits c) (qb_code c a b).
Proof. intros H.
  assert (E : (0 <? qb_ub c) = true) by (apply Z.ltb_lt; exact H).
  split.
  - unfold frac_bits, qt_of_qbits, qb_se. cbn [q_bits q_sgn q_int]. rewrite E. unfold qb_ub. lia.
  - pose proof (qb_code_range c a b ltac:(lia)) as [L U].
    unfold code_ok, fix_lo, fix_hi, mag_bits, qt_of_qbits. cbn [q_bits q_sgn].
    unfold qb_lo, qb_hi in *. rewrite E in L, U. fold (qb_ub c).
    pose proof (pow2_ge1 (qb_ub c) ltac:(lia)).
    destruct (qb_kn c); destruct (qb_sym c); cbn [b2z] in *; lia.
Qed.

(* QuantizedRelu.convert_qkeras_quantizer (quantizer_impl.py:246-266): mode 4 only for (bits, integer) = (1, 1),
   signed iff the relu is leaky *)
Definition qt_of_qrelu (bits int : Z) (leaky : bool) : qt :=
  QT (if (bits =? 1) && (int =? 1) then 4 else 0) bits int leaky false false None NQRelu None.
Definition qr_leaky (c : qrelu) : bool := match qr_slope c with Some _ => true | None => false end.
Theorem qrelu_value_fits_reported_type c a b : 0 <= qr_nsb c ->
  (forall s, qr_slope c = Some s -> 0 <= s <= qr_nsb c) ->
  let t := qt_of_qrelu (qr_bits c) (qr_int c) (qr_leaky c) in
  frac_bits t = - qr_se c /\ code_ok t (qr_code c a b).
Proof. intros H Hs t.
  pose proof (qr_code_range c a b H Hs) as [L U].
  unfold t, qt_of_qrelu, qr_leaky, frac_bits, code_ok, fix_lo, fix_hi, mag_bits. cbn [q_bits q_sgn q_int].
  unfold qr_se, qr_lo, qr_hi, qr_nsb in *.
  destruct (qr_slope c) as [s|] eqn:S; cbn [b2z] in *.
  - specialize (Hs s eq_refl). split; [lia|].
    assert (2 ^ (qr_bits c - 1 - s) <= 2 ^ (qr_bits c - 1)) by (apply Z.pow_le_mono_r; lia). lia.
  - split; [lia|]. rewrite Z.sub_0_r in *. lia.
Qed.

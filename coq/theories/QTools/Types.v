(* QTools/Types.v -- qtools data types (quantizer_impl.py) and their value sets. *)
From Coq Require Import ZArith List Bool Lia.
From QV Require Import Base.ZQ Base.FL.
Open Scope Z_scope.
Import ListNotations.

Inductive qname :=
| NQBits | NQTanh | NQUlaw | NBinary | NStochBinary | NBernoulli | NQRelu
| NTernary | NStochTernary | NFloat | NPo2 | NReluPo2.

Definition name_has_binary (n : qname) : bool :=
  match n with NBinary | NStochBinary => true | _ => false end.
Definition name_has_ternary (n : qname) : bool :=
  match n with NTernary | NStochTernary => true | _ => false end.
Definition name_has_po2 (n : qname) : bool :=
  match n with NPo2 | NReluPo2 => true | _ => false end.
Definition name_is_binary (n : qname) : bool := match n with NBinary => true | _ => false end.
Definition name_is_ternary (n : qname) : bool := match n with NTernary => true | _ => false end.
Definition name_code (n : qname) : Z :=
  match n with
  | NQBits => 0 | NQTanh => 1 | NQUlaw => 2 | NBinary => 3 | NStochBinary => 4 | NBernoulli => 5
  | NQRelu => 6 | NTernary => 7 | NStochTernary => 8 | NFloat => 9 | NPo2 => 10 | NReluPo2 => 11
  end.

(* mode: 0 fixed, 1 po2, 2 ternary, 3 binary +-1, 4 binary 0/1, 5 float.
   maxv: max_val_po2, None standing for -1 *)
Record qt := QT {
  q_mode : Z; q_bits : Z; q_int : Z; q_sgn : bool; q_fp : bool; q_po2 : bool;
  q_maxv : option rat; q_name : qname; q_use01 : option bool (* None: attribute absent *) }.

Definition set_bits t v := QT (q_mode t) v (q_int t) (q_sgn t) (q_fp t) (q_po2 t) (q_maxv t) (q_name t) (q_use01 t).
Definition set_int t v := QT (q_mode t) (q_bits t) v (q_sgn t) (q_fp t) (q_po2 t) (q_maxv t) (q_name t) (q_use01 t).
Definition set_sgn t v := QT (q_mode t) (q_bits t) (q_int t) v (q_fp t) (q_po2 t) (q_maxv t) (q_name t) (q_use01 t).
Definition set_fp t v := QT (q_mode t) (q_bits t) (q_int t) (q_sgn t) v (q_po2 t) (q_maxv t) (q_name t) (q_use01 t).
Definition set_po2 t v := QT (q_mode t) (q_bits t) (q_int t) (q_sgn t) (q_fp t) v (q_maxv t) (q_name t) (q_use01 t).
Definition set_maxv t v := QT (q_mode t) (q_bits t) (q_int t) (q_sgn t) (q_fp t) (q_po2 t) v (q_name t) (q_use01 t).
Definition set_name t v := QT (q_mode t) (q_bits t) (q_int t) (q_sgn t) (q_fp t) (q_po2 t) (q_maxv t) v (q_use01 t).
Definition set_mode t v := QT v (q_bits t) (q_int t) (q_sgn t) (q_fp t) (q_po2 t) (q_maxv t) (q_name t) (q_use01 t).

(* constructors of quantizer_impl.py (default instances) *)
Definition mkQuantizedBits : qt := QT 0 (-1) (-1) true false false None NQBits None.
Definition mkPowerOfTwo (sgn : bool) : qt :=
  QT 1 (-1) (-1) sgn false true None (if sgn then NPo2 else NReluPo2) None.
Definition mkTernary : qt := QT 2 2 2 true false false None NTernary None.
Definition mkBinary (use01 : bool) : qt :=
  QT (if use01 then 4 else 3) 1 1 (negb use01) false false None NBinary (Some use01).
Definition mkFloat (bits : Z) : qt := QT 5 bits (-1) true true false None NFloat None.

(* ceil(log2 v) for a positive rational *)
Definition clog2_rat (v : rat) : Z :=
  let l := rlog2 (rnum v) (rden v) in
  if req (rpow2 l) (rabs v) then l else l + 1.

(* get_exp (quantizer_impl.py:39-62): returns (-min_exp, max_exp) *)
(* bits of the exponent magnitude: the exponent carries a sign bit unless max_value <= 1
   (quantizers._need_exponent_sign_bit_check; repaired by fix: dcbc898, before that always nsb - 1) *)
Definition exp_bits (t : qt) : Z :=
  let nsb := if q_sgn t then q_bits t - 1 else q_bits t in
  match q_maxv t with
  | Some v => if rle v (1, 1) then nsb else nsb - 1
  | None => nsb - 1
  end.
Definition get_exp (t : qt) : Z * Z :=
  let min_exp := - 2 ^ exp_bits t in
  let max_orig := 2 ^ exp_bits t - 1 in
  let max_exp :=
    match q_maxv t with
    | None => max_orig
    | Some v => if rle v (0, 1) then 0 else Z.min (clog2_rat v) max_orig
    end in
  (- min_exp, Z.max 0 max_exp).

(* ---------------- value sets ---------------- *)
Definition frac_bits (t : qt) : Z := q_bits t - b2z (q_sgn t) - q_int t.
Definition mag_bits (t : qt) : Z := q_bits t - b2z (q_sgn t).
(* integer codes of a fixed-point type: value = code * 2^-frac_bits *)
Definition fix_lo (t : qt) : Z := if q_sgn t then - 2 ^ mag_bits t else 0.
Definition fix_hi (t : qt) : Z := 2 ^ mag_bits t - 1.
Definition code_ok (t : qt) (k : Z) : Prop := fix_lo t <= k <= fix_hi t.
Definition code_okb (t : qt) (k : Z) : bool := (fix_lo t <=? k) && (k <=? fix_hi t).

(* membership of a rational in the value set of a type (by mode) *)
Definition mem_fix (t : qt) (v : rat) : bool :=
  let k := rscale v (frac_bits t) in
  (0 <=? mag_bits t) && (rnum k mod rden k =? 0) && code_okb t (rnum k / rden k).
Definition is_pow2_exp (v : rat) : option Z :=   (* |v| = 2^e ? *)
  if rnum v =? 0 then None else
  let l := rlog2 (rnum v) (rden v) in
  if req (rpow2 l) (rabs v) then Some l else None.
(* a positive max_value caps the exponent at ceil(log2 max_value), which may be
   negative (get_exp floors its max_exp at 0 because it sizes integer bits) *)
Definition exp_cap (t : qt) : Z :=
  match q_maxv t with
  | Some v => if rle v (0, 1) then 0 else clog2_rat v
  | None => snd (get_exp t)
  end.
Definition mem_po2 (t : qt) (v : rat) : bool :=
  if rnum v =? 0 then true            (* a mux / and gate can output zero *)
  else match is_pow2_exp v with
       | None => false
       | Some e => let '(mn, mx) := get_exp t in
                   (- mn <=? e) && (e <=? mx) && (e <=? exp_cap t) && (q_sgn t || (0 <? rnum v))
       end.
Definition mem_type (t : qt) (v : rat) : bool :=
  match q_mode t with
  | 0 => mem_fix t v
  | 1 => mem_po2 t v
  | 2 => req v (0, 1) || req v (1, 1) || req v (-1, 1)
  | 3 => req v (1, 1) || req v (-1, 1)
  | 4 => req v (0, 1) || req v (1, 1)
  | _ => true
  end.

(* enumeration of the value set (small types only; used for the brute-force runs) *)
Definition zrange (lo hi : Z) : list Z := map (fun i => lo + Z.of_nat i) (seq 0 (Z.to_nat (hi - lo + 1))).
Definition enum_fix (t : qt) : list rat :=
  map (fun k => rscale (rofZ k) (- frac_bits t)) (zrange (fix_lo t) (fix_hi t)).
Definition enum_po2 (t : qt) : list rat :=
  let '(mn, mx) := get_exp t in
  let pos := map rpow2 (zrange (- mn) (Z.min mx (exp_cap t))) in
  if q_sgn t then pos ++ map rneg pos else pos.
(* values a po2 QUANTIZER can emit (no zero) *)
Definition enum_type (t : qt) : list rat :=
  match q_mode t with
  | 0 => enum_fix t
  | 1 => enum_po2 t
  | 2 => [(0, 1); (1, 1); (-1, 1)]
  | 3 => [(1, 1); (-1, 1)]
  | 4 => [(0, 1); (1, 1)]
  | _ => []
  end.
(* most negative value of a type, if it has negative values *)
Definition most_negative (t : qt) : option rat :=
  match q_mode t with
  | 0 => if q_sgn t then Some (rscale (rofZ (fix_lo t)) (- frac_bits t)) else None
  | 1 => if q_sgn t then Some (rneg (rpow2 (snd (get_exp t)))) else None
  | 2 | 3 => Some (-1, 1)
  | _ => None
  end.
Definition is_most_negative (t : qt) (v : rat) : bool :=
  match most_negative t with Some m => req m v | None => false end.

(* flat rendering of a type for the correspondence runs *)
Definition render (t : qt) : list Z :=
  [q_mode t; q_bits t; q_int t; b2z (q_sgn t); b2z (q_fp t); b2z (q_po2 t);
   (match q_maxv t with None => -1 | Some v => rnum v end);
   (match q_maxv t with None => 1 | Some v => rden v end);
   name_code (q_name t)].

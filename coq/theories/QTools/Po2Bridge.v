(* QTools/Po2Bridge.v -- bridge C03 -> C16/C18: every value the quantized_po2 / quantized_relu_po2 models (Quant/Po2.v)
   can emit is a member of the qtools type reported for the quantizer (PowerOfTwo.convert_qkeras_quantizer,
   quantizer_impl.py: mode 1, bits, is_signed, max_val_po2 = max_value or -1), with the exponent range of get_exp.
   This is the statement that failed before fix: dcbc898 (po2_no_sign_bit_before_repair_refuted). *)
From Coq Require Import ZArith List Bool Lia ZifyBool.
From QV Require Import Base.ZQ Base.FL Quant.Po2 Quant.Po2Thm QTools.Types.
Open Scope Z_scope.

(* max_value 0 / None both give max_val_po2 = -1 (`if not max_val_po2`) *)
Definition qt_of_po2 (signed : bool) (bits : Z) (mv : option rat) : qt :=
  QT 1 bits bits signed false true (match mv with Some v => if rnum v =? 0 then None else Some v | None => None end)
     (if signed then NPo2 else NReluPo2) None.

Lemma P2le_sq k a b : 0 < b -> P2le (2 * k) (a * a) (b * b) -> P2le k a b.
Proof. intros Hb H.
  set (s := Z.abs k).
  apply (P2le_shift k a b s); [unfold s; lia | unfold s; lia|].
  apply (P2le_shift (2 * k) (a * a) (b * b) (2 * s)) in H; [|unfold s; lia|unfold s; lia].
  replace (2 * k + 2 * s) with ((k + s) + (k + s)) in H by lia.
  replace (2 * s) with (s + s) in H by lia.
  rewrite (q2add (k + s) (k + s)), (q2add s s) in H by (unfold s; lia).
  rewrite Z.abs_mul in H.
  pose proof (q2ge1 (k + s) ltac:(unfold s; lia)). pose proof (q2ge1 s ltac:(unfold s; lia)).
  set (P := 2 ^ (k + s)) in *. set (Q := 2 ^ s) in *. set (A := Z.abs a) in *.
  assert (HA : 0 <= A) by (unfold A; lia).
  set (X := P * b). set (Y := A * Q).
  assert (HX : 0 <= X) by (unfold X; nia). assert (HY : 0 <= Y) by (unfold Y; nia).
  assert (E1 : X * X = P * P * (b * b)) by (unfold X; ring).
  assert (E2 : Y * Y = A * A * (Q * Q)) by (unfold Y; ring).
  assert (X * X <= Y * Y) by (rewrite E1, E2; exact H).
  fold X Y. nia. Qed.

Lemma rlog2_sq_upper a b : a <> 0 -> 0 < b -> rlog2 (a * a) (b * b) <= 2 * rlog2 a b + 1.
Proof. intros Ha Hb.
  destruct (rlog2_spec a b Ha Hb) as [_ S2].
  destruct (rlog2_spec (a * a) (b * b) ltac:(nia) ltac:(nia)) as [T1 _].
  destruct (Z_lt_le_dec (2 * rlog2 a b + 1) (rlog2 (a * a) (b * b))) as [L|L]; [|lia].
  exfalso. apply S2. apply P2le_sq; [assumption|].
  apply (P2le_down (rlog2 (a * a) (b * b))); [nia | lia | assumption]. Qed.

Lemma exp_rnd_le_succ_floor v : 0 < rnum v -> 0 < rden v -> exp_rnd v <= exp_floor v + 1.
Proof. intros Hn Hd. unfold exp_rnd, exp_floor.
  pose proof (rlog2_sq_upper (rnum v) (rden v) ltac:(lia) Hd).
  assert ((rlog2 (rnum v * rnum v) (rden v * rden v) + 1) / 2 <= (2 * rlog2 (rnum v) (rden v) + 1 + 1) / 2) by (apply Z.div_le_mono; lia).
  replace (2 * rlog2 (rnum v) (rden v) + 1 + 1) with ((rlog2 (rnum v) (rden v) + 1) * 2) in H0 by lia.
  rewrite Z.div_mul in H0 by lia. lia. Qed.

(* the log-nearest exponent of an exact power of two is its exponent (any representation of the rational) *)
Lemma exp_rnd_of_pow2 v l : 0 < rnum v -> 0 < rden v -> req (rpow2 l) (rabs v) = true -> exp_rnd v = l.
Proof. intros Hn Hd E. rewrite <- (exp_rnd_pow2 l). unfold exp_rnd. f_equal. f_equal.
  destruct (rpow2_pos l) as [PN PD].
  unfold req, rabs, rnum, rden in *. cbn [fst snd] in *. rewrite Z.abs_eq in E by lia.
  apply rlog2_ext; try nia. Qed.

(* both rounding modes stay at or below ceil(log2 v) *)
Lemma exp_of_le_clog2 m v : 0 < rnum v -> 0 < rden v -> exp_of m v <= clog2_rat v.
Proof. intros Hn Hd. unfold clog2_rat. cbv zeta.
  destruct (req (rpow2 (rlog2 (rnum v) (rden v))) (rabs v)) eqn:E; destruct m; cbn [exp_of].
  - rewrite (exp_rnd_of_pow2 v _ Hn Hd E). lia.
  - unfold exp_floor. lia.
  - pose proof (exp_rnd_le_succ_floor v Hn Hd). unfold exp_floor in *. lia.
  - unfold exp_floor. lia. Qed.

(* the exponent the quantizer emits never exceeds ceil(log2 max_value), provided max_value is not below the smallest code *)
Lemma clip_po2_le_cap m mn mx v x : mn <= mx -> 0 < rnum v -> 0 < rden v -> 0 <= rnum x -> 0 < rden x -> mn <= clog2_rat v ->
  clip_po2 m mn mx (Some v) x <= clog2_rat v.
Proof. intros Hm Hv Hvd Hx Hxd Hc. unfold clip_po2.
  destruct (rlt x eps32) eqn:E; [exact Hc|].
  assert (Xp : 0 < rnum x).
  { unfold rlt, eps32, rnum, rden in *. cbn [fst snd] in *. set (T := 2 ^ 47) in *. assert (0 < T) by (unfold T; apply Z.pow_pos_nonneg; lia).
    destruct x as [a b]; cbn [fst snd] in *. apply Z.ltb_ge in E. nia. }
  set (xf := if rle v x then v else x).
  assert (F : exp_of m xf <= clog2_rat v).
  { unfold xf. destruct (rle v x) eqn:R.
    - apply exp_of_le_clog2; assumption.
    - transitivity (exp_of m v); [|apply exp_of_le_clog2; assumption].
      apply exp_of_mono; try assumption. unfold rle in R. lia. }
  unfold clip. lia. Qed.

Lemma is_pow2_exp_val s e : (s = 1 \/ s = -1) -> is_pow2_exp (po2_val (s, e)) = Some e.
Proof. intros Hs. destruct (rpow2_pos e) as [PN PD].
  unfold is_pow2_exp, po2_val, rmul, rofZ, rnum, rden. cbn [fst snd].
  assert (N0 : (s * fst (rpow2 e) =? 0) = false) by (unfold rnum in PN; destruct Hs; subst; lia).
  rewrite N0. cbv zeta.
  assert (L : rlog2 (s * fst (rpow2 e)) (1 * snd (rpow2 e)) = e).
  { rewrite <- (rlog2_pow2 e) at 3. unfold rlog2. unfold rnum, rden in *.
    replace (Z.abs (s * fst (rpow2 e))) with (Z.abs (fst (rpow2 e))) by (destruct Hs; subst; lia).
    replace (1 * snd (rpow2 e)) with (snd (rpow2 e)) by lia.
    unfold pow2_le_rat.
    replace (Z.abs (s * fst (rpow2 e))) with (Z.abs (fst (rpow2 e))) by (destruct Hs; subst; lia).
    reflexivity. }
  rewrite L. unfold req, rabs, rnum, rden in *. cbn [fst snd].
  replace (Z.abs (s * fst (rpow2 e))) with (fst (rpow2 e)) by (destruct Hs; subst; lia).
  replace (fst (rpow2 e) * (1 * snd (rpow2 e)) =? fst (rpow2 e) * snd (rpow2 e)) with true by lia.
  reflexivity. Qed.

Lemma need_vs_rle v : 0 < rden v -> need_sign_bit (Some v) = if rle v (1, 1) then 0 else 1.
Proof. intros Hd. unfold need_sign_bit, rlt, rle, rnum, rden. cbn [fst snd].
  destruct (1 * snd v <? fst v * 1) eqn:A; destruct (fst v * 1 <=? 1 * snd v) eqn:B; lia. Qed.

(* membership from the three exponent facts *)
Lemma mem_po2_intro t s e : q_mode t = 1 -> (s = 1 \/ s = -1) -> (q_sgn t = true \/ s = 1) ->
  - fst (get_exp t) <= e <= snd (get_exp t) -> e <= exp_cap t -> mem_type t (po2_val (s, e)) = true.
Proof. intros Mode Hs Sg [G1 G2] G3. unfold mem_type. rewrite Mode. unfold mem_po2.
  assert (NZ : (rnum (po2_val (s, e)) =? 0) = false).
  { destruct (rpow2_pos e) as [PN PD]. unfold po2_val, rmul, rofZ, rnum, rden in *. cbn [fst snd] in *. destruct Hs as [-> | ->]; lia. }
  rewrite NZ, (is_pow2_exp_val s e Hs).
  destruct (get_exp t) as [gmn gmx]. cbn [fst snd] in G1, G2.
  assert (SGN : (q_sgn t || (0 <? rnum (po2_val (s, e)))) = true).
  { destruct Sg as [-> | ->]; [reflexivity|]. destruct (rpow2_pos e) as [PN PD].
    unfold po2_val, rmul, rofZ, rnum, rden in *. cbn [fst snd] in *. apply orb_true_iff. right. lia. }
  rewrite SGN, andb_true_r.
  apply andb_true_iff; split; [apply andb_true_iff; split|]; apply Z.leb_le; lia. Qed.

(* exponent bits of the reported type = the quantizer's exponent magnitude bits *)
Lemma exp_bits_of_po2 signed bits mv :
  match mv with Some v => 0 < rnum v /\ 0 < rden v | None => True end ->
  exp_bits (qt_of_po2 signed bits mv) = (if signed then bits - 1 else bits) - need_sign_bit mv.
Proof. intros H. unfold qt_of_po2, exp_bits. cbn [q_sgn q_bits q_maxv].
  destruct mv as [v|].
  - destruct H as [Hv Hvd]. assert (Z0 : (rnum v =? 0) = false) by lia. rewrite Z0.
    rewrite (need_vs_rle v Hvd). destruct (rle v (1, 1)); lia.
  - unfold need_sign_bit. lia. Qed.

Lemma cap_of_po2 signed bits mv e mn :
  match mv with Some v => 0 < rnum v /\ 0 < rden v /\ e <= clog2_rat v | None => True end ->
  let t := qt_of_po2 signed bits mv in
  2 ^ exp_bits t = - mn -> mn <= e <= 2 ^ exp_bits t - 1 ->
  - fst (get_exp t) <= e <= snd (get_exp t) /\ e <= exp_cap t.
Proof. intros H t EB R. unfold exp_cap, get_exp. cbv zeta. cbn [fst snd]. rewrite Z.opp_involutive.
  destruct mv as [v|].
  - destruct H as [Hv [Hvd Hcap]]. assert (Z0 : (rnum v =? 0) = false) by lia.
    assert (QM : q_maxv t = Some v) by (unfold t, qt_of_po2; rewrite Z0; reflexivity).
    rewrite QM.
    assert (NP : rle v (0, 1) = false) by (unfold rle, rnum, rden in *; cbn [fst snd] in *; lia). rewrite NP. lia.
  - assert (QM : q_maxv t = None) by reflexivity. rewrite QM. lia. Qed.

(* ---- the bridge for quantized_po2 ---- *)
Theorem po2_value_fits_reported_type c x : 2 <= p_bits c -> 0 < rden x ->
  match p_mv c with
  | Some v => 0 < rnum v /\ 0 < rden v /\ po2_min_exp (p_bits c) (p_mv c) <= clog2_rat v
  | None => True
  end ->
  mem_type (qt_of_po2 true (p_bits c) (p_mv c)) (po2_val (po2_q c x)) = true.
Proof.
  intros Hb Hx Hmv.
  set (t := qt_of_po2 true (p_bits c) (p_mv c)).
  set (se := po2_q c x).
  assert (Hs : fst se = 1 \/ fst se = -1).
  { unfold se, po2_q, sign1r. cbn [fst]. destruct (rnum x <? 0); lia. }
  replace (po2_val se) with (po2_val (fst se, snd se)) by (destruct se; reflexivity).
  set (mn := po2_min_exp (p_bits c) (p_mv c)). set (mx := po2_max_exp (p_bits c) (p_mv c)).
  assert (Hmm : mn <= mx).
  { apply min_le_max_exp. unfold need_sign_bit. destruct (p_mv c) as [v|]; [destruct (rlt (1, 1) v)|]; lia. }
  assert (R : mn <= snd se <= mx) by (unfold se, po2_q; cbn [snd]; apply clip_po2_in_range; exact Hmm).
  assert (EBv : exp_bits t = p_bits c - 1 - need_sign_bit (p_mv c)).
  { unfold t. rewrite exp_bits_of_po2; [reflexivity|]. destruct (p_mv c); [destruct Hmv as [A [B _]]; split; assumption | exact I]. }
  assert (CAP : match p_mv c with Some v => 0 < rnum v /\ 0 < rden v /\ snd se <= clog2_rat v | None => True end).
  { destruct (p_mv c) as [v|] eqn:MV; [|exact I]. destruct Hmv as [Hv [Hvd Hcap]]. repeat split; try assumption.
    unfold se, po2_q. cbn [snd]. rewrite MV. apply clip_po2_le_cap.
    - exact Hmm.
    - exact Hv.
    - exact Hvd.
    - unfold rabs, rnum. cbn [fst]. lia.
    - unfold rabs, rden. cbn [snd]. unfold rden in Hx. exact Hx.
    - exact Hcap. }
  destruct (cap_of_po2 true (p_bits c) (p_mv c) (snd se) mn CAP) as [G12 G3].
  - fold t. rewrite EBv. unfold mn, po2_min_exp. lia.
  - fold t. rewrite EBv. unfold mn, mx, po2_min_exp, po2_max_exp in *. lia.
  - apply mem_po2_intro; [reflexivity | exact Hs | left; reflexivity | exact G12 | exact G3].
Qed.

(* ---- quantized_relu_po2 without a leaky slope: an unsigned type, non-negative values ---- *)
Theorem relu_po2_value_fits_reported_type c x : r_slope c = None -> 1 <= r_bits c -> 0 < rden x ->
  match r_mv c with
  | Some v => 0 < rnum v /\ 0 < rden v /\ rpo2_min_exp (r_bits c) (r_mv c) <= clog2_rat v
  | None => True
  end ->
  mem_type (qt_of_po2 false (r_bits c) (r_mv c)) (po2_val (rpo2_q c x)) = true.
Proof.
  intros Sl Hb Hx Hmv.
  set (t := qt_of_po2 false (r_bits c) (r_mv c)).
  set (mn := rpo2_min_exp (r_bits c) (r_mv c)). set (mx := rpo2_max_exp (r_bits c) (r_mv c)).
  assert (Hmm : mn <= mx).
  { unfold mn, mx, rpo2_min_exp, rpo2_max_exp.
    assert (0 <= need_sign_bit (r_mv c) <= 1) by (unfold need_sign_bit; destruct (r_mv c) as [v|]; [destruct (rlt (1, 1) v)|]; lia).
    pose proof (q2ge1 (r_bits c - need_sign_bit (r_mv c)) ltac:(lia)). lia. }
  set (xx := if negb (rnum x <? 0) then x else (0, 1)).
  assert (Q : rpo2_q c x = (1, clip_po2 (r_mode c) mn mx (r_mv c) xx)) by (unfold rpo2_q; rewrite Sl; reflexivity).
  rewrite Q. set (e := clip_po2 (r_mode c) mn mx (r_mv c) xx).
  assert (R : mn <= e <= mx) by (apply clip_po2_in_range; exact Hmm).
  assert (XX : 0 <= rnum xx /\ 0 < rden xx).
  { unfold xx. destruct (rnum x <? 0) eqn:E; cbn [negb]; unfold rnum, rden in *; cbn [fst snd]; lia. }
  assert (EBv : exp_bits t = r_bits c - need_sign_bit (r_mv c)).
  { unfold t. rewrite exp_bits_of_po2; [reflexivity|]. destruct (r_mv c); [destruct Hmv as [A [B _]]; split; assumption | exact I]. }
  assert (CAP : match r_mv c with Some v => 0 < rnum v /\ 0 < rden v /\ e <= clog2_rat v | None => True end).
  { destruct (r_mv c) as [v|] eqn:MV; [|exact I]. destruct Hmv as [Hv [Hvd Hcap]]. repeat split; try assumption.
    unfold e. apply clip_po2_le_cap.
    - exact Hmm.
    - exact Hv.
    - exact Hvd.
    - apply XX.
    - apply XX.
    - exact Hcap. }
  destruct (cap_of_po2 false (r_bits c) (r_mv c) e mn CAP) as [G12 G3].
  - fold t. rewrite EBv. unfold mn, rpo2_min_exp. lia.
  - fold t. rewrite EBv. unfold mn, mx, rpo2_min_exp, rpo2_max_exp in *. lia.
  - apply mem_po2_intro; [reflexivity | left; reflexivity | right; reflexivity | exact G12 | exact G3].
Qed.

(* before fix: dcbc898 the reported exponent range assumed an exponent sign bit: quantized_po2(4, max_value=1) emits 2^-8
   for tiny inputs, the type reported for it stopped at 2^-4 *)
Definition get_exp_before_repair (t : qt) : Z * Z :=
  let nsb := if q_sgn t then q_bits t - 1 else q_bits t in
  (2 ^ (nsb - 1), Z.max 0 (match q_maxv t with None => 2 ^ (nsb - 1) - 1 | Some v => if rle v (0, 1) then 0 else Z.min (clog2_rat v) (2 ^ (nsb - 1) - 1) end)).
Theorem po2_no_sign_bit_before_repair_refuted :
  exists c x, p_bits c = 4 /\ p_mv c = Some (1, 1) /\
    snd (po2_q c x) < - fst (get_exp_before_repair (qt_of_po2 true (p_bits c) (p_mv c))) /\
    - fst (get_exp (qt_of_po2 true (p_bits c) (p_mv c))) <= snd (po2_q c x).
Proof. exists (P2 4 (Some (1, 1)) LRnd), (1, 100000). vm_compute. repeat split; discriminate. Qed.

Example po2_bridge_nonvacuous :
  mem_type (qt_of_po2 true 4 (Some (1, 1))) (po2_val (po2_q (P2 4 (Some (1, 1)) LRnd) (1, 100000))) = true /\
  mem_type (qt_of_po2 true 4 (Some (3, 1))) (po2_val (po2_q (P2 4 (Some (3, 1)) LRnd) (-100, 1))) = true /\
  po2_val (po2_q (P2 4 (Some (3, 1)) LRnd) (-100, 1)) = (-4, 1).
Proof. vm_compute. repeat split. Qed.

(* QTools/OpCount.v -- C19: operation counts (qtools_util.get_operation_count)
   against the cardinality of the layer's loop nest; energy totals. *)
From Coq Require Import ZArith List Bool Lia ZifyBool QArith Qround Qminmax Qabs Lqa.
Ltac Zify.zify_post_hook ::= Z.to_euclidean_division_equations.
Open Scope Z_scope.
Import ListNotations.

(* ---------- output extents ---------- *)
(* effective kernel extent with dilation d *)
Definition eff_k (k d : Z) : Z := (k - 1) * d + 1.
(* 'valid' padding: positions o >= 0 with o*s + eff_k <= n *)
Definition out_valid (n k s d : Z) : Z := if n <? eff_k k d then 0 else (n - eff_k k d) / s + 1.
(* 'same' padding: ceil(n / s) *)
Definition out_same (n s : Z) : Z := (n + s - 1) / s.

(* the set of admissible output positions is exactly [0, out_valid) *)
Theorem out_valid_exact n k s d o : 0 < s -> 0 <= o ->
  (o * s + eff_k k d <= n <-> o < out_valid n k s d).
Proof. intros Hs Ho. unfold out_valid. destruct (n <? eff_k k d) eqn:E; [nia|]. nia. Qed.

(* 'same': the positions whose window start o*s lies inside the input are [0, ceil(n/s)) *)
Theorem out_same_exact n s o : 0 < s -> 0 <= o -> 0 <= n -> (o * s < n <-> o < out_same n s).
Proof. intros Hs Ho Hn. unfold out_same. nia. Qed.

(* ---------- loop nests: the count is the number of index tuples ---------- *)
Definition range (n : Z) : list Z := map Z.of_nat (seq 0 (Z.to_nat n)).
Lemma range_length n : 0 <= n -> Z.of_nat (length (range n)) = n.
Proof. intros. unfold range. rewrite map_length, seq_length. lia. Qed.
Lemma prod_len {A B} (a : list A) (b : list B) :
  Z.of_nat (length (list_prod a b)) = Z.of_nat (length a) * Z.of_nat (length b).
Proof. rewrite prod_length. lia. Qed.

(* conv2d: (oy, ox, co, ky, kx, ci) with ci ranging over the input channels OF THE GROUP *)
Definition conv2d_nest (ho wo co kh kw cig : Z) :=
  list_prod (range ho) (list_prod (range wo) (list_prod (range co)
    (list_prod (range kh) (list_prod (range kw) (range cig))))).
Theorem conv2d_nest_count ho wo co kh kw cig :
  0 <= ho -> 0 <= wo -> 0 <= co -> 0 <= kh -> 0 <= kw -> 0 <= cig ->
  Z.of_nat (length (conv2d_nest ho wo co kh kw cig)) = ho * wo * co * kh * kw * cig.
Proof. intros. unfold conv2d_nest. rewrite !prod_len, !range_length by assumption. ring. Qed.

(* depthwise: (oy, ox, ci, multiplier, ky, kx) *)
Definition depthwise_nest (ho wo ci dm kh kw : Z) :=
  list_prod (range ho) (list_prod (range wo) (list_prod (range ci)
    (list_prod (range dm) (list_prod (range kh) (range kw))))).
Theorem depthwise_nest_count ho wo ci dm kh kw :
  0 <= ho -> 0 <= wo -> 0 <= ci -> 0 <= dm -> 0 <= kh -> 0 <= kw ->
  Z.of_nat (length (depthwise_nest ho wo ci dm kh kw)) = ho * wo * ci * dm * kh * kw.
Proof. intros. unfold depthwise_nest. rewrite !prod_len, !range_length by assumption. ring. Qed.

Definition conv1d_nest (to co k cig : Z) :=
  list_prod (range to) (list_prod (range co) (list_prod (range k) (range cig))).
Theorem conv1d_nest_count to co k cig : 0 <= to -> 0 <= co -> 0 <= k -> 0 <= cig ->
  Z.of_nat (length (conv1d_nest to co k cig)) = to * co * k * cig.
Proof. intros. unfold conv1d_nest. rewrite !prod_len, !range_length by assumption. ring. Qed.

Definition dense_nest (ni no : Z) := list_prod (range ni) (range no).
Theorem dense_nest_count ni no : 0 <= ni -> 0 <= no -> Z.of_nat (length (dense_nest ni no)) = ni * no.
Proof. intros. unfold dense_nest. rewrite !prod_len, !range_length by assumption. ring. Qed.

(* average pooling: (oy, ox, c, py, px) additions *)
Definition pool_nest (ho wo c ph pw : Z) :=
  list_prod (range ho) (list_prod (range wo) (list_prod (range c) (list_prod (range ph) (range pw)))).
Theorem pool_nest_count ho wo c ph pw : 0 <= ho -> 0 <= wo -> 0 <= c -> 0 <= ph -> 0 <= pw ->
  Z.of_nat (length (pool_nest ho wo c ph pw)) = ho * wo * c * ph * pw.
Proof. intros. unfold pool_nest. rewrite !prod_len, !range_length by assumption. ring. Qed.

(* ---------- the formulas of get_operation_count (qtools_util.py:115-230) ---------- *)
(* conv2d: channels_i // groups input channels per output channel *)
Definition oc_conv2d (ho wo co kh kw ci g : Z) : Z := ho * wo * co * kh * kw * (ci / g).
Definition oc_conv1d (to co k ci : Z) : Z := to * co * k * ci.
(* depthwise: channels_o = channels_i * depth_multiplier *)
Definition oc_depthwise (kh kw ho wo cout : Z) : Z := kh * kw * ho * wo * cout.
Definition oc_dense (ni no : Z) : Z := ni * no.
(* pooling: one window per output position and channel *)
Definition oc_pool (npos co ph pw : Z) : Z := npos * co * (ph * pw).
Definition oc_elementwise (dims : list Z) : Z := fold_right Z.mul 1 dims.

Theorem conv2d_count_is_nest ho wo co kh kw ci g :
  0 <= ho -> 0 <= wo -> 0 <= co -> 0 <= kh -> 0 <= kw -> 0 <= ci -> 0 < g ->
  oc_conv2d ho wo co kh kw ci g = Z.of_nat (length (conv2d_nest ho wo co kh kw (ci / g))).
Proof. intros. rewrite conv2d_nest_count; try assumption; [reflexivity | apply Z.div_pos; lia]. Qed.
Theorem conv1d_count_is_nest to co k ci : 0 <= to -> 0 <= co -> 0 <= k -> 0 <= ci ->
  oc_conv1d to co k ci = Z.of_nat (length (conv1d_nest to co k ci)).
Proof. intros. rewrite conv1d_nest_count by assumption. reflexivity. Qed.
Theorem dense_count_is_nest ni no : 0 <= ni -> 0 <= no ->
  oc_dense ni no = Z.of_nat (length (dense_nest ni no)).
Proof. intros. rewrite dense_nest_count by assumption. reflexivity. Qed.
(* depthwise: every depth multiplier *)
Theorem depthwise_count_is_nest ho wo ci dm kh kw :
  0 <= ho -> 0 <= wo -> 0 <= ci -> 0 <= dm -> 0 <= kh -> 0 <= kw ->
  oc_depthwise kh kw ho wo (ci * dm) = Z.of_nat (length (depthwise_nest ho wo ci dm kh kw)).
Proof. intros. rewrite depthwise_nest_count by lia. unfold oc_depthwise. ring. Qed.
(* pooling: every number of output positions *)
Theorem pool_count_is_nest ho wo c ph pw : 0 <= ho -> 0 <= wo -> 0 <= c -> 0 <= ph -> 0 <= pw ->
  oc_pool (ho * wo) c ph pw = Z.of_nat (length (pool_nest ho wo c ph pw)).
Proof. intros. rewrite pool_nest_count by lia. unfold oc_pool. ring. Qed.

(* the formulas before the three fix: commits (all input channels; channels_i; a single window), kept with the
   witnesses that were replayed on the implementation *)
Definition oc_conv2d_old (ho wo co kh kw ci : Z) : Z := ho * wo * co * kh * kw * ci.
Definition oc_depthwise_old (kh kw ho wo ci : Z) : Z := kh * kw * ho * wo * ci.
Definition oc_pool_old (co ph pw : Z) : Z := co * (ph * pw).
Theorem grouped_conv_count_old_refuted :
  exists ho wo co kh kw ci g, 1 < g /\ ci mod g = 0 /\
    oc_conv2d_old ho wo co kh kw ci <> Z.of_nat (length (conv2d_nest ho wo co kh kw (ci / g))).
Proof. exists 6, 6, 4, 3, 3, 4, 2. vm_compute. split; [reflexivity|]. split; [reflexivity|]. discriminate. Qed.
Theorem depthwise_multiplier_count_old_refuted :
  exists ho wo ci dm kh kw, 1 < dm /\
    oc_depthwise_old kh kw ho wo ci <> Z.of_nat (length (depthwise_nest ho wo ci dm kh kw)).
Proof. exists 4, 4, 2, 2, 3, 3. vm_compute. split; [reflexivity|]. discriminate. Qed.
Theorem pooling_count_old_refuted :
  exists ho wo c ph pw, 1 < ho * wo /\ oc_pool_old c ph pw <> Z.of_nat (length (pool_nest ho wo c ph pw)).
Proof. exists 2, 2, 3, 2, 2. vm_compute. split; [reflexivity|]. discriminate. Qed.

(* ---------- energy report (qenergy.py:200-340, run_qtools.py:101-126) ---------- *)
Open Scope Q_scope.
Definition qsum (l : list Q) : Q := fold_right Qplus 0 l.

(* every entry is max(poly(bits), 0) * count (times a non-negative gate factor) *)
Theorem energy_entry_nonneg (p c g : Q) : 0 <= c -> 0 <= g -> 0 <= g * Qmax p 0 * c.
Proof. intros Hc Hg. assert (0 <= Qmax p 0) by apply Q.le_max_r.
  apply Qmult_le_0_compat; [apply Qmult_le_0_compat|]; assumption. Qed.

Lemma qsum_nonneg l : Forall (fun e => 0 <= e) l -> 0 <= qsum l.
Proof. induction 1 as [|e l He Hl IH]; cbn [qsum fold_right]; [apply Qle_refl|]. fold (qsum l). lra. Qed.

(* total_cost = int(sum of the unrounded entries): within 1 below the exact sum *)
Theorem total_is_floor_of_sum (l : list Q) : Forall (fun e => 0 <= e) l ->
  let t := Qfloor (qsum l) in (inject_Z t <= qsum l) /\ (qsum l < inject_Z (t + 1)).
Proof. intros H t. split; [apply Qfloor_le | apply Qlt_floor]. Qed.

(* printed entries are rounded to 2 decimals: the printed sum is within 0.005 per entry *)
Lemma qsum_close (es rs : list Q) (eps : Q) :
  Forall2 (fun e r => Qabs (r - e) <= eps) es rs ->
  Qabs (qsum rs - qsum es) <= inject_Z (Z.of_nat (length es)) * eps.
Proof. induction 1 as [|e r es rs H F IH].
  - cbn. rewrite Qmult_0_l. apply Qle_refl.
  - cbn [qsum fold_right length]. fold (qsum es). fold (qsum rs).
    rewrite Nat2Z.inj_succ. unfold Z.succ. rewrite inject_Z_plus.
    setoid_replace (r + qsum rs - (e + qsum es)) with ((r - e) + (qsum rs - qsum es)) by ring.
    eapply Qle_trans; [apply Qabs_triangle|].
    setoid_replace ((inject_Z (Z.of_nat (length es)) + inject_Z 1) * eps)
      with (eps + inject_Z (Z.of_nat (length es)) * eps) by (unfold inject_Z; ring).
    apply Qplus_le_compat; assumption. Qed.

Theorem total_vs_printed_entries (es rs : list Q) :
  Forall (fun e => 0 <= e) es ->
  Forall2 (fun e r => Qabs (r - e) <= 1 # 200) es rs ->
  Qabs (inject_Z (Qfloor (qsum es)) - qsum rs) <= 1 + inject_Z (Z.of_nat (length es)) * (1 # 200).
Proof. intros Hn Hc.
  pose proof (qsum_close es rs (1 # 200) Hc) as C.
  pose proof (Qfloor_le (qsum es)) as F1. pose proof (Qlt_floor (qsum es)) as F2.
  rewrite inject_Z_plus in F2. change (inject_Z 1) with 1 in F2.
  setoid_replace (inject_Z (Qfloor (qsum es)) - qsum rs)
    with ((inject_Z (Qfloor (qsum es)) - qsum es) + (qsum es - qsum rs)) by ring.
  eapply Qle_trans; [apply Qabs_triangle|].
  apply Qplus_le_compat.
  - apply Qabs_Qle_condition. split; lra.
  - rewrite Qabs_Qminus. exact C. Qed.

(* extract_energy_sum: floor of the sum of the entries selected by the cost setting *)
Definition select (keys : list nat) (entry : list Q) : list Q := map (fun k => nth k entry 0) keys.
Definition extract_sum (layers : list (list nat * list Q)) : Z :=
  Qfloor (qsum (flat_map (fun '(keys, entry) => select keys entry) layers)).
Theorem extract_sum_spec layers :
  let s := qsum (flat_map (fun '(keys, entry) => select keys entry) layers) in
  inject_Z (extract_sum layers) <= s /\ s < inject_Z (extract_sum layers + 1).
Proof. intros s. unfold extract_sum. split; [apply Qfloor_le | apply Qlt_floor]. Qed.

(* QTools/Ops.v -- executable transcription of the qtools operator type rules:
   multiplier_impl.py, multiplier_factory.py, accumulator_impl.py,
   accumulator_factory.py, adder_impl.py, adder_factory.py, merge_factory.py.
   Only the data-type fields are modelled (gate_factor / gate_bits are energy
   bookkeeping, see C19). *)
From Coq Require Import ZArith List Bool Lia.
From QV Require Import Base.ZQ Base.FL QTools.Types.
Open Scope Z_scope.
Import ListNotations.

Inductive impl := IMul | IShifter | IMux | IAnd | IXor | IAdd | IFMul.
Definition impl_code (i : impl) : Z :=
  match i with IMul => 0 | IShifter => 1 | IMux => 2 | IAnd => 3 | IXor => 4 | IAdd => 5 | IFMul => 6 end.

Definition rename_po2 (o : qt) : qt := set_name o (if q_sgn o then NPo2 else NReluPo2).

(* multiplier_impl.py:65-117 *)
Definition mux (w x out : qt) : qt :=
  let out := set_sgn out (q_sgn x || q_sgn w) in
  let out :=
    if name_has_binary (q_name w) || name_has_ternary (q_name w) then
      let o := set_int (set_bits out (q_bits x)) (q_int x) in
      if negb (q_sgn x) && q_sgn w then set_bits o (q_bits o + 1) else o
    else
      let o := set_int (set_bits out (q_bits w)) (q_int w) in
      if negb (q_sgn w) && q_sgn x then set_bits o (q_bits o + 1) else o in
  if name_has_po2 (q_name out) then
    let o := rename_po2 out in
    let o := set_maxv o (if name_has_po2 (q_name w) then q_maxv w else q_maxv x) in
    set_int o (q_bits o)
  else out.

(* 120-141 *)
Definition xor_gate (w x out : qt) : qt :=
  if negb (name_is_ternary (q_name out)) then
    set_fp (set_sgn (set_int (set_bits out (Z.max (q_bits x) (q_bits w)))
                             (Z.max (q_int x) (q_int w)))
                    (q_sgn x || q_sgn w)) false
  else out.

(* 144-228 *)
Definition shifter (w x out : qt) : qt :=
  let '(po2q, qb) := if q_mode w =? 1 then (w, x) else (x, w) in
  let '(mn, mx) := get_exp po2q in
  let bits := q_bits qb + mx + mn in
  let bits := if negb (q_sgn qb) && q_sgn po2q then bits + 1 else bits in
  set_fp (set_sgn (set_int (set_bits out bits) (q_int qb + mx)) (q_sgn qb || q_sgn po2q)) false.

(* 231-273 *)
Definition and_gate (w x out : qt) : qt :=
  if negb (name_is_ternary (q_name out)) then
    let o := set_bits out (Z.max (q_bits x) (q_bits w)) in
    let o := set_sgn o (q_sgn x || q_sgn w) in
    let o := set_fp o (q_fp x || q_fp w) in
    let w01 := name_is_binary (q_name w) && (match q_use01 w with Some b => b | None => false end) in
    let o := set_int o (if w01 then q_int x else q_int w) in
    if name_has_po2 (q_name o) then
      set_maxv (rename_po2 o) (if name_has_po2 (q_name w) then q_maxv w else q_maxv x)
    else o
  else out.

(* 276-311 *)
Definition adder_mul (w x out : qt) : qt :=
  let o := set_bits out (Z.max (q_bits x) (q_bits w) + 1) in
  let o := set_int o (Z.max (q_int x) (q_int w) + 1) in
  let o := set_sgn o (q_sgn x || q_sgn w) in
  let o := set_po2 (set_fp o false) true in
  let o := set_maxv o (match q_maxv x, q_maxv w with
                       | Some a, Some b => Some (rnorm (rmul a b))
                       | _, _ => None end) in
  if name_has_po2 (q_name o) then rename_po2 o else o.

(* 314-341 *)
Definition float_mul (w x out : qt) : qt :=
  let b := Z.max (q_bits x * b2z (q_fp x)) (q_bits w * b2z (q_fp w)) in
  set_fp (set_sgn (set_int (set_bits out b) (-1)) true) true.

(* 344-374 *)
Definition fixed_mul (w x out : qt) : qt :=
  let ib := q_int x + q_int w in
  let f := (q_bits x - b2z (q_sgn x) - q_int x) + (q_bits w - b2z (q_sgn w) - q_int w) in
  let s := q_sgn x || q_sgn w in
  set_fp (set_bits (set_sgn (set_int out ib) s) (ib + f + b2z s)) false.

(* multiplier_factory.py:31-118: (implementation class, output template) *)
Inductive otmpl := OBits | OPo2 | OTern | OBin | OB01 | OFloat.
Definition tmpl (o : otmpl) : qt :=
  match o with
  | OBits => mkQuantizedBits | OPo2 => mkPowerOfTwo true | OTern => mkTernary
  | OBin => mkBinary false | OB01 => mkBinary true
  | OFloat => QT 5 (-1) (-1) true true false None NFloat None
  end.
Definition mul_table (mw mx : Z) : impl * otmpl :=
  match mw, mx with
  | 0, 0 => (IMul, OBits) | 0, 1 => (IShifter, OBits) | 0, 2 => (IMux, OBits)
  | 0, 3 => (IMux, OBits) | 0, 4 => (IAnd, OBits)
  | 1, 0 => (IShifter, OBits) | 1, 1 => (IAdd, OPo2) | 1, 2 => (IMux, OPo2)
  | 1, 3 => (IMux, OPo2) | 1, 4 => (IAnd, OPo2)
  | 2, 0 => (IMux, OBits) | 2, 1 => (IMux, OPo2) | 2, 2 => (IMux, OTern)
  | 2, 3 => (IMux, OTern) | 2, 4 => (IAnd, OTern)
  | 3, 0 => (IMux, OBits) | 3, 1 => (IMux, OPo2) | 3, 2 => (IMux, OTern)
  | 3, 3 => (IXor, OBin) | 3, 4 => (IAnd, OTern)
  | 4, 0 => (IAnd, OBits) | 4, 1 => (IAnd, OPo2) | 4, 2 => (IAnd, OTern)
  | 4, 3 => (IAnd, OTern) | 4, 4 => (IAnd, OB01)
  | _, _ => (IFMul, OFloat)
  end.

Definition run_impl (i : impl) (w x out : qt) : qt :=
  match i with
  | IMul => fixed_mul w x out | IShifter => shifter w x out | IMux => mux w x out
  | IAnd => and_gate w x out | IXor => xor_gate w x out | IAdd => adder_mul w x out
  | IFMul => float_mul w x out
  end.

Definition make_multiplier (w x : qt) : impl * qt :=
  let '(i, o) := mul_table (q_mode w) (q_mode x) in (i, run_impl i w x (tmpl o)).

(* ---------------- accumulators (accumulator_impl.py) ---------------- *)
(* 2^max_exp needs max_exp + 1 integer bits (repaired by fix: 1f09dc0; before: int_bits = max_exp) *)
Definition po2_to_qbits (t : qt) : Z * Z :=
  let '(mn, mx) := get_exp t in (b2z (q_sgn t) + (mn + mx + 1), mx + 1).
Definition po2_to_qbits_before_repair (t : qt) : Z * Z :=
  let '(mn, mx) := get_exp t in (b2z (q_sgn t) + (mn + mx), mx).

Definition log_add_ops (kernel_ops : Z) (use_bias : bool) : Z :=
  Z.log2_up (kernel_ops + b2z use_bias).

Definition fixed_acc (kernel_ops : Z) (use_bias : bool) (m : qt) : qt :=
  let l := log_add_ops kernel_ops use_bias in
  set_sgn (set_int (set_bits mkQuantizedBits (l + q_bits m)) (l + q_int m)) (q_sgn m).
Definition po2_acc (kernel_ops : Z) (use_bias : bool) (m : qt) : qt :=
  let l := log_add_ops kernel_ops use_bias in
  let '(b, i) := po2_to_qbits m in
  set_sgn (set_int (set_bits mkQuantizedBits (l + b)) (l + i)) (q_sgn m).
Definition float_acc (m : qt) : qt :=
  set_sgn (mkFloat (q_bits m)) (q_sgn m).
Definition make_accumulator (kernel_ops : Z) (use_bias : bool) (m : qt) : qt :=
  if q_fp m then float_acc m
  else if q_po2 m then po2_acc kernel_ops use_bias m
  else fixed_acc kernel_ops use_bias m.

(* ---------------- adders (adder_impl.py, adder_factory.py) ---------------- *)
Definition po2_qbits_converter (t : qt) : qt :=
  let '(b, i) := po2_to_qbits t in
  set_sgn (set_int (set_bits mkQuantizedBits b) i) (q_sgn t).

Definition fixed_adder (q1 q2 : qt) : qt :=
  let ib := Z.max (q_int q1) (q_int q2) + 1 in
  let f := Z.max (frac_bits q1) (frac_bits q2) in
  let s := q_sgn q1 || q_sgn q2 in
  set_bits (set_sgn (set_int mkQuantizedBits ib) s) (ib + b2z s + f).
Definition po2_fixed_adder (q1 q2 : qt) : qt :=
  if q_po2 q1 then fixed_adder (po2_qbits_converter q1) q2
  else fixed_adder (po2_qbits_converter q2) q1.
Definition po2_adder (q1 q2 : qt) : qt :=
  fixed_adder (po2_qbits_converter q1) (po2_qbits_converter q2).
Definition float_adder (q1 q2 : qt) : qt := mkFloat (Z.max (q_bits q1) (q_bits q2)).

Inductive addimpl := AFixed | APo2Fixed | APo2 | AFloat.
Definition add_table (m1 m2 : Z) : addimpl :=
  if (m1 =? 5) || (m2 =? 5) then AFloat
  else if (m1 =? 1) && (m2 =? 1) then APo2
  else if (m1 =? 1) && (m2 =? 4) then AFixed        (* the table's [1][4] entry *)
  else if (m1 =? 1) || (m2 =? 1) then APo2Fixed
  else AFixed.
Definition make_adder (q1 q2 : qt) : qt :=
  match add_table (q_mode q1) (q_mode q2) with
  | AFixed => fixed_adder q1 q2 | APo2Fixed => po2_fixed_adder q1 q2
  | APo2 => po2_adder q1 q2 | AFloat => float_adder q1 q2
  end.

(* ---------------- merge layers (merge_factory.py) ---------------- *)
Definition as_qbits (t : qt) : qt := if q_po2 t then po2_qbits_converter t else t.
Definition merge_scan (qs : list qt) : Z * Z * bool * bool * Z :=
  fold_left (fun '(mb, mi, sg, fp, fb) q =>
               if q_fp q then (mb, mi, sg || q_sgn q, true, Z.max fb (q_bits q))
               else let t := as_qbits q in
                    (Z.max mb (q_bits t), Z.max mi (q_int t), sg || q_sgn q, fp, fb))
            qs (-1, -1, false, false, 0).
Definition merge_add (qs : list qt) : qt :=
  let '(mb, mi, sg, fp, fb) := merge_scan qs in
  if fp then mkFloat fb
  else set_sgn (set_int (set_bits mkQuantizedBits (mb + 1)) (mi + 1)) sg.
Definition same_type (a b : qt) : bool :=
  (name_code (q_name a) =? name_code (q_name b)) && (q_bits a =? q_bits b) &&
  (q_int a =? q_int b) && Bool.eqb (q_sgn a) (q_sgn b).
Definition merge_max (qs : list qt) : qt :=
  match qs with
  | [] => mkQuantizedBits
  | q0 :: rest =>
    if forallb (same_type q0) rest then q0
    else let '(mb, mi, sg, fp, fb) := merge_scan qs in
         if fp then mkFloat fb
         else set_sgn (set_int (set_bits mkQuantizedBits mb) mi) sg
  end.

(* ---------------- brute-force property evaluators ---------------- *)
Definition rmul_n (a b : rat) : rat := rnorm (rmul a b).
(* all products of values of w and x are members of the output type, except
   most-negative * most-negative; returns the list of failing (w,x) pairs *)
Definition mul_bad_pairs (w x : qt) : list (rat * rat) :=
  let out := snd (make_multiplier w x) in
  flat_map (fun a => flat_map (fun b =>
      if (is_most_negative w a && is_most_negative x b) || mem_type out (rmul_n a b) then []
      else [(a, b)]) (enum_type x)) (enum_type w).
Definition mul_zero_ok (w x : qt) : bool := mem_type (snd (make_multiplier w x)) (0, 1).

Definition add_bad_pairs (q1 q2 : qt) : list (rat * rat) :=
  let out := make_adder q1 q2 in
  flat_map (fun a => flat_map (fun b =>
      if mem_type out (rnorm (radd a b)) then [] else [(a, b)]) (enum_type q2)) (enum_type q1).

(* extreme sums of n values of type m fit the accumulator *)
Definition extremes (t : qt) : list rat :=
  match enum_type t with
  | [] => []
  | v :: vs => [fold_left rmin vs v; fold_left rmax vs v]
  end.
Definition acc_bad (kernel_ops : Z) (use_bias : bool) (m : qt) : list rat :=
  let out := make_accumulator kernel_ops use_bias m in
  flat_map (fun v => let s := rnorm (rmul (rofZ kernel_ops) v) in
                     if mem_type out s then [] else [s]) (extremes m).

(* merge layers: sums / operand values that the reported merge type cannot hold *)
Definition merge_add_bad (a b : qt) : list (rat * rat) :=
  let out := merge_add [a; b] in
  flat_map (fun va => flat_map (fun vb =>
      if mem_type out (rnorm (radd va vb)) then [] else [(va, vb)]) (enum_type b)) (enum_type a).
Definition merge_max_bad (a b : qt) : list rat :=
  let out := merge_max [a; b] in
  filter (fun v => negb (mem_type out v)) (enum_type a ++ enum_type b).

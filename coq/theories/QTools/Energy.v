(* QTools/Energy.v -- C19: the operation-energy entry ("op_cost") of energy_estimate (qenergy.py:252-321) as a
   function of the layer class, the operation count, the number of inputs of a merge layer and the unit costs of the
   operators the layer map reports.  Unit costs are parameters: [uop k] is OP[type][mode](gate_bits) of the operator
   stored under key k of the layer item (its own implementation mode), [gf k] its gate factor, [uadd k] the cost of one
   addition at the width of the accumulator stored under k; [present k] says whether the (optional) operator exists.
   coq/gen/EnergyGen.v (regenerated from the source on every run) is proved equal to [op_cost] for every class in
   Link/EnergyLink.v. *)
From Coq Require Import ZArith QArith String List Bool Lia Lqa.
Import ListNotations.
Open Scope string_scope.

Definition mem (x : string) (l : list string) : bool := existsb (String.eqb x) l.

Definition act_classes : list string := ["QActivation"; "QAdaptiveActivation"; "Activation"].
Definition bn_classes : list string := ["QBatchNormalization"; "BatchNormalization"].
Definition merge_classes : list string := ["Add"; "Multiply"; "Subtract"].
Definition pool_classes : list string := ["AveragePooling2D"; "AvgPool2D"; "GlobalAvgPool2D"; "GlobalAveragePooling2D"].
Definition mac_classes : list string :=
  ["QConv2D"; "QConv1D"; "QDepthwiseConv2D"; "QDense"; "Conv2D"; "Conv1D"; "DepthwiseConv2D"; "Dense"].

Open Scope Q_scope.

Section Cost.
  Variables (gf uop uadd : string -> Q) (present : string -> bool).

  Definition opt_cost (k : string) : Q := if present k then gf k * uop k else 0.

  Definition op_cost (cls : string) (count n_inputs : Z) : Q :=
    if mem cls act_classes then 0
    else if mem cls bn_classes then
      (opt_cost "internal_divide_quantizer" + opt_cost "internal_multiplier") * inject_Z count
    else if mem cls merge_classes then
      inject_Z (n_inputs - 1) * inject_Z count * (gf "multiplier" * uop "multiplier")
    else if mem cls pool_classes then inject_Z count * uadd "pool_sum_accumulator"
    else if mem cls mac_classes then inject_Z count * (gf "multiplier" * uop "multiplier" + uadd "accumulator")
    else 0.

  Hypothesis gf_nonneg : forall k, 0 <= gf k.
  Hypothesis uop_nonneg : forall k, 0 <= uop k.
  Hypothesis uadd_nonneg : forall k, 0 <= uadd k.

  Lemma opt_cost_nonneg k : 0 <= opt_cost k.
  Proof. unfold opt_cost. destruct (present k); [|apply Qle_refl]. apply Qmult_le_0_compat; auto. Qed.

  Lemma injZ_nonneg z : (0 <= z)%Z -> 0 <= inject_Z z.
  Proof. intros H. unfold Qle; cbn. lia. Qed.

  (* the entry is never negative: counts are non-negative and a merge layer has at least one input *)
  Theorem op_cost_nonneg cls count n : (0 <= count)%Z -> (1 <= n)%Z -> 0 <= op_cost cls count n.
  Proof. intros Hc Hn. unfold op_cost.
    destruct (mem cls act_classes); [apply Qle_refl|].
    destruct (mem cls bn_classes).
    { apply Qmult_le_0_compat; [|apply injZ_nonneg; exact Hc].
      pose proof (opt_cost_nonneg "internal_divide_quantizer"). pose proof (opt_cost_nonneg "internal_multiplier"). lra. }
    destruct (mem cls merge_classes).
    { apply Qmult_le_0_compat; [apply Qmult_le_0_compat; apply injZ_nonneg; lia|]. apply Qmult_le_0_compat; auto. }
    destruct (mem cls pool_classes); [apply Qmult_le_0_compat; [apply injZ_nonneg; exact Hc|auto]|].
    destruct (mem cls mac_classes); [|apply Qle_refl].
    apply Qmult_le_0_compat; [apply injZ_nonneg; exact Hc|].
    pose proof (Qmult_le_0_compat _ _ (gf_nonneg "multiplier") (uop_nonneg "multiplier")). pose proof (uadd_nonneg "accumulator"). lra. Qed.
End Cost.

(* a merge layer of n inputs performs n - 1 two-operand operations per output element: two inputs cost one operation per
   element, every further input one more, a single input nothing *)
Theorem merge_cost_two_inputs gf uop uadd present cls count : mem cls merge_classes = true ->
  op_cost gf uop uadd present cls count 2 == inject_Z count * (gf "multiplier" * uop "multiplier").
Proof. intros H. unfold op_cost. assert (A : mem cls act_classes = false).
  { unfold mem, merge_classes, act_classes in *. cbn [existsb] in *. repeat rewrite orb_false_r in *.
    repeat (apply orb_true_iff in H; destruct H as [H|H]); try discriminate; apply String.eqb_eq in H; subst; reflexivity. }
  assert (B : mem cls bn_classes = false).
  { unfold mem, merge_classes, bn_classes in *. cbn [existsb] in *. repeat rewrite orb_false_r in *.
    repeat (apply orb_true_iff in H; destruct H as [H|H]); try discriminate; apply String.eqb_eq in H; subst; reflexivity. }
  rewrite A, B, H. change (inject_Z (2 - 1)) with 1. ring. Qed.

Lemma merge_branch gf uop uadd present cls count n : mem cls merge_classes = true ->
  op_cost gf uop uadd present cls count n = inject_Z (n - 1) * inject_Z count * (gf "multiplier" * uop "multiplier").
Proof. intros H. unfold op_cost. assert (A : mem cls act_classes = false).
  { unfold mem, merge_classes, act_classes in *. cbn [existsb] in *. repeat rewrite orb_false_r in *.
    repeat (apply orb_true_iff in H; destruct H as [H|H]); try discriminate; apply String.eqb_eq in H; subst; reflexivity. }
  assert (B : mem cls bn_classes = false).
  { unfold mem, merge_classes, bn_classes in *. cbn [existsb] in *. repeat rewrite orb_false_r in *.
    repeat (apply orb_true_iff in H; destruct H as [H|H]); try discriminate; apply String.eqb_eq in H; subst; reflexivity. }
  rewrite A, B, H. reflexivity. Qed.

Theorem merge_cost_one_more_input gf uop uadd present cls count n : mem cls merge_classes = true ->
  op_cost gf uop uadd present cls count (n + 1) ==
  op_cost gf uop uadd present cls count n + inject_Z count * (gf "multiplier" * uop "multiplier").
Proof. intros H. rewrite !merge_branch by exact H. replace (n + 1 - 1)%Z with ((n - 1) + 1)%Z by lia.
  rewrite inject_Z_plus. change (inject_Z 1) with 1. ring. Qed.
Theorem merge_cost_single_input gf uop uadd present cls count : mem cls merge_classes = true ->
  op_cost gf uop uadd present cls count 1 == 0.
Proof. intros H. rewrite merge_branch by exact H. change (inject_Z (1 - 1)) with 0. ring. Qed.
(* the number of inputs is the ONLY thing the merge entry takes from the inputs: in particular not their rank *)
Theorem merge_cost_is_additions_times_unit gf uop uadd present cls count n : mem cls merge_classes = true ->
  op_cost gf uop uadd present cls count n == inject_Z ((n - 1) * count) * (gf "multiplier" * uop "multiplier").
Proof. intros H. rewrite merge_branch by exact H. rewrite inject_Z_mult. ring. Qed.

(* every class: the entry is proportional to the operation count *)
Theorem op_cost_linear_in_count gf uop uadd present cls c1 c2 n :
  op_cost gf uop uadd present cls (c1 + c2) n == op_cost gf uop uadd present cls c1 n + op_cost gf uop uadd present cls c2 n.
Proof. unfold op_cost. destruct (mem cls act_classes); [ring|]. destruct (mem cls bn_classes); [rewrite inject_Z_plus; ring|].
  destruct (mem cls merge_classes); [rewrite inject_Z_plus; ring|]. destruct (mem cls pool_classes); [rewrite inject_Z_plus; ring|].
  destruct (mem cls mac_classes); [rewrite inject_Z_plus; ring|ring]. Qed.
Theorem op_cost_zero_count gf uop uadd present cls n : op_cost gf uop uadd present cls 0 n == 0.
Proof. unfold op_cost. destruct (mem cls act_classes); [ring|]. destruct (mem cls bn_classes); [change (inject_Z 0) with 0; ring|].
  destruct (mem cls merge_classes); [change (inject_Z 0) with 0; ring|]. destruct (mem cls pool_classes); [change (inject_Z 0) with 0; ring|].
  destruct (mem cls mac_classes); [change (inject_Z 0) with 0; ring|ring]. Qed.
(* a multiply-accumulate layer pays one (gated) multiplication and one accumulator addition per counted operation *)
Theorem mac_cost gf uop uadd present cls count n : mem cls mac_classes = true ->
  op_cost gf uop uadd present cls count n == inject_Z count * (gf "multiplier" * uop "multiplier") + inject_Z count * uadd "accumulator".
Proof. intros H. unfold op_cost.
  assert (A : mem cls act_classes = false /\ mem cls bn_classes = false /\ mem cls merge_classes = false /\ mem cls pool_classes = false).
  { unfold mem, mac_classes, act_classes, bn_classes, merge_classes, pool_classes in *. cbn [existsb] in *. repeat rewrite orb_false_r in *.
    repeat (apply orb_true_iff in H; destruct H as [H|H]); try discriminate; apply String.eqb_eq in H; subst; repeat split; reflexivity. }
  destruct A as [A [B [C D]]]. rewrite A, B, C, D, H. ring. Qed.
(* the pooling entry: one addition at the width of the pooling accumulator per counted operation *)
Theorem pool_cost gf uop uadd present cls count n : mem cls pool_classes = true ->
  op_cost gf uop uadd present cls count n == inject_Z count * uadd "pool_sum_accumulator".
Proof. intros H. unfold op_cost.
  assert (A : mem cls act_classes = false /\ mem cls bn_classes = false /\ mem cls merge_classes = false).
  { unfold mem, act_classes, bn_classes, merge_classes, pool_classes in *. cbn [existsb] in *. repeat rewrite orb_false_r in *.
    repeat (apply orb_true_iff in H; destruct H as [H|H]); try discriminate; apply String.eqb_eq in H; subst; repeat split; reflexivity. }
  destruct A as [A [B C]]. rewrite A, B, C, H. ring. Qed.
(* activation layers and every class the estimator does not know contribute no operation energy *)
Theorem unknown_class_costs_nothing gf uop uadd present cls count n :
  mem cls bn_classes = false -> mem cls merge_classes = false -> mem cls pool_classes = false -> mem cls mac_classes = false ->
  op_cost gf uop uadd present cls count n = 0.
Proof. intros B C D E. unfold op_cost. rewrite B, C, D, E. destruct (mem cls act_classes); reflexivity. Qed.

(* ---- memory entries (memory_read_energy / memory_write_energy, qenergy.py:74-202): which costs a placement pays ----
   [dram_rd], [dram_wr]: one DRAM access of all bits; [sram_rd], [sram_wr]: one SRAM access of the tensor.  At the model's
   inputs (read) and outputs (write) the placement option is overridden: DRAM when rd_wr_on_io, otherwise SRAM. *)
Definition eff_mode (at_io rw : bool) (mode : string) : string :=
  if at_io then (if rw then "dram" else "sram")%string else mode.
Definition mem_read (at_io rw : bool) (mode : string) (dram_rd sram_rd sram_wr : Q) : Q :=
  let m := eff_mode at_io rw mode in
  if String.eqb m "dram" then dram_rd + (if rw then sram_wr else 0)
  else if String.eqb m "sram" then sram_rd else 0.
Definition mem_write (at_io rw : bool) (mode : string) (dram_wr sram_rd sram_wr : Q) : Q :=
  let m := eff_mode at_io rw mode in
  if String.eqb m "dram" then (if rw then sram_rd else 0) + dram_wr
  else if String.eqb m "sram" then sram_wr else 0.

(* a placement that is neither DRAM nor SRAM (hard-wired "fixed" weights) costs nothing inside the network *)
Theorem mem_other_placement_costs_nothing rw mode a b c :
  String.eqb mode "dram" = false -> String.eqb mode "sram" = false ->
  mem_read false rw mode a b c = 0 /\ mem_write false rw mode a b c = 0.
Proof. intros D S. unfold mem_read, mem_write, eff_mode. rewrite D, S. split; reflexivity. Qed.
(* at the model's inputs / outputs the placement option is irrelevant *)
Theorem mem_io_ignores_placement rw mode mode' a b c :
  mem_read true rw mode a b c = mem_read true rw mode' a b c /\ mem_write true rw mode a b c = mem_write true rw mode' a b c.
Proof. unfold mem_read, mem_write, eff_mode. split; reflexivity. Qed.
(* DRAM placement always pays the DRAM access -- with or without the staging through SRAM that rd_wr_on_io adds *)
Theorem mem_dram_pays_dram_access rw dr dw sr sw : 0 <= sr -> 0 <= sw ->
  dr <= mem_read false rw "dram" dr sr sw /\ dw <= mem_write false rw "dram" dw sr sw /\
  mem_read false false "dram" dr sr sw == dr /\ mem_write false false "dram" dw sr sw == dw /\
  mem_read false true "dram" dr sr sw == dr + sw /\ mem_write false true "dram" dw sr sw == sr + dw.
Proof. intros Hr Hw. unfold mem_read, mem_write, eff_mode. cbn [String.eqb Ascii.eqb Bool.eqb].
  destruct rw; repeat split; try ring; lra. Qed.
Theorem mem_sram_pays_one_sram_access rw dr dw sr sw :
  mem_read false rw "sram" dr sr sw = sr /\ mem_write false rw "sram" dw sr sw = sw.
Proof. unfold mem_read, mem_write, eff_mode. split; reflexivity. Qed.
Theorem mem_nonneg at_io rw mode d sr sw : 0 <= d -> 0 <= sr -> 0 <= sw ->
  0 <= mem_read at_io rw mode d sr sw /\ 0 <= mem_write at_io rw mode d sr sw.
Proof. intros Hd Hr Hw. unfold mem_read, mem_write. destruct (String.eqb (eff_mode at_io rw mode) "dram").
  { destruct rw; split; lra. }
  destruct (String.eqb (eff_mode at_io rw mode) "sram"); split; lra. Qed.

(* ---- which entries a cost setting selects for a layer (run_qtools.py extract_energy_sum / extract_energy_profile) ---- *)
Close Scope Q_scope.
Fixpoint dget {A} (d : list (string * A)) (k : string) (default : A) : A :=
  match d with [] => default | (k', v) :: r => if String.eqb k' k then v else dget r k default end.
(* the rule of the layer's class; without one the "default" rule; without that nothing *)
Definition keys_for (setting : list (string * list string)) (cls : string) : list string :=
  dget setting cls (dget setting "default" []).
Lemma dget_hit {A} (d : list (string * A)) k v dflt : In (k, v) d -> NoDup (map fst d) -> dget d k dflt = v.
Proof. induction d as [|[k' v'] r IH]; intros Hin Hnd; [destruct Hin|]. cbn in *. inversion Hnd as [|? ? Hnot Hnd']; subst.
  destruct Hin as [E|Hin].
  - inversion E; subst. rewrite String.eqb_refl. reflexivity.
  - destruct (String.eqb k' k) eqn:E; [|apply IH; assumption].
    apply String.eqb_eq in E. subst. exfalso. apply Hnot. change k with (fst (k, v)). apply in_map. exact Hin. Qed.
(* an EMPTY class rule selects nothing: it does not fall through to the default rule *)
Theorem empty_class_rule_selects_nothing setting cls : In (cls, []) setting -> NoDup (map fst setting) -> keys_for setting cls = [].
Proof. intros H N. unfold keys_for. apply dget_hit; assumption. Qed.
Theorem class_rule_beats_default setting cls ks : In (cls, ks) setting -> NoDup (map fst setting) -> keys_for setting cls = ks.
Proof. intros H N. unfold keys_for. apply dget_hit; assumption. Qed.
Lemma dget_miss {A} (d : list (string * A)) k dflt : ~ In k (map fst d) -> dget d k dflt = dflt.
Proof. induction d as [|[k' v'] r IH]; intros H; [reflexivity|]. cbn in *. destruct (String.eqb k' k) eqn:E.
  - apply String.eqb_eq in E. subst. exfalso. apply H. left. reflexivity.
  - apply IH. intros C. apply H. right. exact C. Qed.
Theorem no_class_rule_uses_default setting cls : ~ In cls (map fst setting) ->
  keys_for setting cls = dget setting "default" [].
Proof. intros H. unfold keys_for. apply dget_miss. exact H. Qed.
Open Scope Q_scope.

(* one layer's contribution to the total is the sum of its four entries; the report's total is the sum over the layers *)
Definition layer_total (inputs outputs parameters opc : Q) : Q := inputs + outputs + parameters + opc.
Definition qsum4 (l : list (Q * Q * Q * Q)) : Q :=
  fold_right (fun e acc => let '(a, b, c, d) := e in layer_total a b c d + acc) 0 l.
Theorem total_is_sum_of_all_entries l :
  qsum4 l == fold_right Qplus 0 (concat (map (fun e => let '(a, b, c, d) := e in [a; b; c; d]) l)).
Proof. induction l as [|[[[a b] c] d] l IH]; cbn [qsum4 fold_right map concat app]; [reflexivity|].
  fold (qsum4 l). rewrite IH. unfold layer_total. ring. Qed.

Example energy_nonvacuous :
  let gf := fun _ : string => 1 in let uop := fun _ : string => 3 # 10 in let uadd := fun _ : string => 1 # 20 in
  op_cost gf uop uadd (fun _ => true) "Add" 108 3 == 324 # 5 /\ op_cost gf uop uadd (fun _ => true) "QDense" 10 1 == 7 # 2 /\
  op_cost gf uop uadd (fun _ => true) "Flatten" 10 1 == 0.
Proof. vm_compute. repeat split; reflexivity. Qed.

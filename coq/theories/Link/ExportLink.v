(* Link/ExportLink.v -- the bookkeeping of model_save_quantized_weights' per-weight loop, regenerated from qkeras/utils.py on every
   run (coq/gen/ExportGen.v), is for every kind of weight quantizer the table of Export/Book.v; hence every run of the loop over any
   list of quantizers is the run the alignment theorems are about. *)
From Coq Require Import List Bool.
From QV Require Import Export.Book.
From QVGen Require Import ExportGen.
Import ListNotations.

Lemma link_export_ok : export_translation_ok = true. Proof. reflexivity. Qed.
Lemma link_effect : forall k, gen_effect k = effect_of k. Proof. destruct k; reflexivity. Qed.
Lemma run_ext (f g : qkind -> effect) : (forall k, f k = g k) -> forall ks b, fold_left (step f) ks b = fold_left (step g) ks b.
Proof. intros H ks. induction ks as [|k ks IH]; intros b; [reflexivity|]. cbn [fold_left]. unfold step at 2 4. rewrite H. apply IH. Qed.
Theorem link_export_run : forall ks, run gen_effect ks = export_book ks.
Proof. intros ks. unfold export_book, run. apply run_ext. exact link_effect. Qed.

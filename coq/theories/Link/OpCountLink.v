(* Link/OpCountLink.v -- get_operation_count, regenerated from qkeras/qtools/qtools_util.py on every run
   (coq/gen/OpCountGen.v), is for every layer class the formula of QTools/OpCount.v, for ALL dimensions. *)
From Coq Require Import ZArith String List Bool Lia.
From QV Require Import QTools.OpCount QTools.OpCountSyn.
From QVGen Require Import OpCountGen.
Import ListNotations.
Open Scope Z_scope.
Open Scope string_scope.

Lemma link_opcount_ok : translation_ok = true. Proof. reflexivity. Qed.

(* the class-name conditions are closed booleans once the class is fixed: evaluate them, keep the arithmetic symbolic *)
Ltac oc := intros; cbv beta delta [gen_opcount];
  repeat (match goal with |- (if ?c then _ else _) = _ => let v := eval vm_compute in c in change c with v; cbv iota end);
  cbv [nthz nth prodl lastz last middle skipn removelast fold_right oc_conv2d oc_conv1d oc_depthwise oc_dense oc_pool oc_elementwise]; try lia.

Definition conv2d_classes := ["QConv2D"; "Conv2D"; "QConv2DBatchnorm"; "QConv2DTranspose"; "Conv2DTranspose"].
Lemma link_conv2d : forall cls, In cls conv2d_classes -> forall b h w ci b' ho wo co kh kw k3 k4 pool g,
  gen_opcount cls [b; h; w; ci] [b'; ho; wo; co] [kh; kw; k3; k4] pool g = oc_conv2d ho wo co kh kw ci g.
Proof. intros cls H; cbv [conv2d_classes In] in H; repeat (destruct H as [<- | H]; [oc|]); destruct H. Qed.

Lemma link_conv1d : forall cls, In cls ["QConv1D"; "Conv1D"] -> forall b t ci b' to co k k2 k3 pool g,
  gen_opcount cls [b; t; ci] [b'; to; co] [k; k2; k3] pool g = oc_conv1d to co k ci.
Proof. intros cls H; cbv [In] in H; repeat (destruct H as [<- | H]; [oc|]); destruct H. Qed.

Lemma link_depthwise : forall cls, In cls ["QDepthwiseConv2D"; "DepthwiseConv2D"] -> forall b h w ci b' ho wo co kh kw k3 k4 pool g,
  gen_opcount cls [b; h; w; ci] [b'; ho; wo; co] [kh; kw; k3; k4] pool g = oc_depthwise kh kw ho wo co.
Proof. intros cls H; cbv [In] in H; repeat (destruct H as [<- | H]; [oc|]); destruct H. Qed.

(* dense: rank 2, and the squeeze-and-excite form (batch, 1, 1, channels) *)
Lemma known_b1 n : 0 < n -> known [-1; n] = [n].
Proof. intros; cbv [known filter]; change (0 <=? -1)%Z with false; destruct (0 <=? n)%Z eqn:E; [reflexivity|lia]. Qed.
Lemma known_b4 n : 0 < n -> known [-1; 1; 1; n] = [1; 1; n].
Proof. intros; cbv [known filter]; change (0 <=? -1)%Z with false; change (0 <=? 1)%Z with true; destruct (0 <=? n)%Z eqn:E; [reflexivity|lia]. Qed.
Lemma link_dense : forall cls, In cls ["QDense"; "Dense"] -> forall ni no w pool g, 0 < ni -> 0 < no ->
  gen_opcount cls [-1; ni] [-1; no] w pool g = oc_dense ni no /\
  gen_opcount cls [-1; 1; 1; ni] [-1; 1; 1; no] w pool g = oc_dense ni no.
Proof.
  intros cls H ni no w pool g Hi Ho; cbv [In] in H.
  destruct H as [<- | [<- | []]]; (split; oc; rewrite ?known_b1, ?known_b4 by assumption; cbv [maxl fold_left]; change (Z.max 1 1) with 1; rewrite ?Z.max_r by lia; reflexivity).
Qed.

Definition pool_classes := ["AveragePooling2D"; "AvgPool2D"; "QAveragePooling2D"].
Lemma link_pool : forall cls, In cls pool_classes -> forall i b' ho wo co ph pw w g,
  gen_opcount cls i [b'; ho; wo; co] w (Some [ph; pw]) g = oc_pool (ho * wo) co ph pw.
Proof. intros cls H; cbv [pool_classes In] in H; repeat (destruct H as [<- | H]; [oc|]); destruct H. Qed.
(* global pooling has no pool_size: one window of the whole spatial extent per channel *)
Lemma link_global_pool : forall cls, In cls ["GlobalAvgPool2D"; "GlobalAveragePooling2D"; "QGlobalAveragePooling2D"] -> forall b h w c b' w0 g,
  gen_opcount cls [b; h; w; c] [b'; c] w0 None g = oc_pool 1 c h w.
Proof. intros cls H; cbv [In] in H; repeat (destruct H as [<- | H]; [oc|]); destruct H. Qed.

(* element-wise layers: one operation per input element *)
Definition elementwise_classes := ["Add"; "Multiply"; "Subtract"; "Average"; "Maximum"; "Minimum"; "Concatenate"; "Dot";
  "MaxPooling2D"; "GlobalMaxPooling2D"; "Reshape"; "Flatten"; "Activation"; "QActivation"; "QAdaptiveActivation"; "BatchNormalization"; "QBatchNormalization"].
Lemma link_elementwise : forall cls, In cls elementwise_classes -> forall b dims o w pool g,
  gen_opcount cls (b :: dims) o w pool g = oc_elementwise dims.
Proof. intros cls H; cbv [elementwise_classes In] in H; repeat (destruct H as [<- | H]; [oc; reflexivity|]); destruct H. Qed.
Lemma link_upsampling : forall cls, In cls ["UpSampling1D"; "UpSampling2D"; "UpSampling3D"] -> forall i b dims w pool g,
  gen_opcount cls i (b :: dims) w pool g = oc_elementwise dims.
Proof. intros cls H; cbv [In] in H; repeat (destruct H as [<- | H]; [oc; reflexivity|]); destruct H. Qed.
(* anything else counts 0 *)
Lemma link_other : forall i o w pool g, gen_opcount "InputLayer" i o w pool g = 0 /\ gen_opcount "Dropout" i o w pool g = 0 /\
  gen_opcount "ZeroPadding2D" i o w pool g = 0.
Proof. intros; repeat split. Qed.

(* Link/StochLink.v -- stochastic_round, regenerated from qkeras/quantizers.py on every run (coq/gen/StochGen.v), is at precision 1
   the integer model sround of Quant/Stoch.v: floor when the fractional part is below the draw, ceil otherwise -- for every rational
   input a/p and every draw un/q. *)
From Coq Require Import ZArith QArith Qround Lia ZifyBool.
From QV Require Import Base.ZQ Quant.Stoch.
From QVGen Require Import StochGen.
Ltac Zify.zify_post_hook ::= Z.to_euclidean_division_equations.

Lemma link_stoch_ok : stoch_translation_ok = true. Proof. reflexivity. Qed.

Lemma qfloor_make a p : Qfloor (a # p) = (a / Zpos p)%Z. Proof. reflexivity. Qed.
Lemma qceiling_make a p : Qceiling (a # p) = qceil a (Zpos p).
Proof. reflexivity. Qed.

Open Scope Q_scope.
Theorem link_stochastic_round : forall a p un q,
  gen_stochastic_round (a # p) (un # q) 1 == inject_Z (sround a (Zpos p) un (Zpos q)).
Proof.
  intros a p un q. unfold gen_stochastic_round. change (inject_Z 1 / 1) with 1.
  assert (F : Qfloor ((a # p) * 1) = (a / Zpos p)%Z).
  { unfold Qmult, Qfloor. cbn [Qnum Qden]. f_equal; lia. }
  assert (C : Qceiling ((a # p) * 1) = qceil a (Zpos p)).
  { unfold Qceiling, Qopp, Qmult, Qfloor, qceil. cbn [Qnum Qden]. f_equal. f_equal; lia. }
  rewrite F, C.
  assert (D : forall z : Z, inject_Z z / 1 == inject_Z z) by (intros z; unfold Qdiv; change (/ 1) with 1; apply Qmult_1_r).
  destruct (Qlt_le_dec _ _) as [H|H]; rewrite D; unfold sround.
  - replace ((a mod Z.pos p * Z.pos q <? un * Z.pos p)%Z) with true; [reflexivity|].
    unfold Qlt, Qminus, Qplus, Qopp, Qmult, inject_Z in H. cbn [Qnum Qden] in H. lia.
  - replace ((a mod Z.pos p * Z.pos q <? un * Z.pos p)%Z) with false; [reflexivity|].
    unfold Qle, Qminus, Qplus, Qopp, Qmult, inject_Z in H. cbn [Qnum Qden] in H. lia.
Qed.

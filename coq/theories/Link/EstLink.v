(* Link/EstLink.v -- the per-channel bound of analyze_accumulator, regenerated on every run (coq/gen/EstGen.v), is est_sound of
   QTools/LayerMap.v for every weight list, bias and input range: the bias is added once, with the sign of the side it is on. *)
From Coq Require Import QArith List.
From QV Require Import QTools.LayerMap.
From QVGen Require Import EstGen.
Import ListNotations.
Open Scope Q_scope.
Lemma link_est_ok : est_translation_ok = true. Proof. reflexivity. Qed.
Theorem link_est : forall ws b xmin xmax,
  fst (gen_est ws b xmin xmax) == fst (est_sound ws b xmin xmax) /\ snd (gen_est ws b xmin xmax) == snd (est_sound ws b xmin xmax).
Proof. intros. unfold gen_est, est_sound. cbn [fst snd]. split; ring. Qed.
(* hence the code's bound encloses every output of the channel, for every input in the box *)
Theorem link_est_bounds_output : forall ws xs b xmin xmax, in_box xmin xmax ws xs ->
  - snd (gen_est ws b xmin xmax) <= qdot ws xs + b <= fst (gen_est ws b xmin xmax).
Proof. intros ws xs b xmin xmax H. destruct (link_est ws b xmin xmax) as [E1 E0]. rewrite E1, E0.
  pose proof (est_sound_bounds_output ws xs b xmin xmax H) as B. destruct (est_sound ws b xmin xmax) as [n1 n0]. exact B. Qed.

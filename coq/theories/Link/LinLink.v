(* Link/LinLink.v -- the deterministic core of quantized_linear as regenerated on every run (coq/gen/LinGen.v) is the model of
   Quant/Fixed.v: clip bounds = (ql_lo, ql_hi), data type scale = 2^ql_se, the scaled-clipped-rounded value = ql_code, the
   quantized value = ql_val, the reporters = bound * quantization scale -- for every multi-bit configuration (at least one
   unsigned bit, not the 1-bit sign special case), every positive scale and every rational input. *)
From Coq Require Import ZArith Bool Lia ZifyBool.
From QV Require Import Base.ZQ Base.FL Quant.Fixed Quant.FixedThm Quant.LinearThm Quant.Noise.
From QVGen Require Import LinGen.
Open Scope Z_scope.

Lemma link_lin_ok : lin_translation_ok = true.
Proof. reflexivity. Qed.

Lemma rpow2_nonneg k : 0 <= k -> rpow2 k = (1 * 2 ^ k, 1).
Proof. intros H. unfold rpow2, sc_num, sc_den. replace (0 <=? k) with true by lia. reflexivity. Qed.

Lemma link_ql_sign c : gen_ql_sign (ql_bits c) (ql_kn c) = ql_sign c.
Proof. reflexivity. Qed.
Lemma link_ql_dts c : gen_ql_dts (ql_bits c) (ql_int c) (ql_kn c) = rpow2 (ql_se c).
Proof. unfold gen_ql_dts, ql_se, ql_ub. f_equal. lia. Qed.
Lemma link_ql_qscale alpha dts : gen_ql_qscale true alpha dts = rmul alpha dts /\ gen_ql_qscale false alpha dts = dts.
Proof. split; reflexivity. Qed.
(* alpha * 2^k is the model's rscale alpha k *)
Lemma rmul_rpow2 alpha k : req (rmul alpha (rpow2 k)) (rscale alpha k) = true.
Proof. unfold req, rmul, rpow2, rscale, sc_num, sc_den. cbn [rnum rden fst snd]. destruct (0 <=? k); apply Z.eqb_eq; ring. Qed.

Lemma link_ql_clip_min c : ql_sign c = false -> 0 <= ql_ub c ->
  gen_ql_clip_min (ql_bits c) (ql_kn c) (ql_sym c) = rofZ (ql_lo c).
Proof.
  intros S U. unfold gen_ql_clip_min. change ((ql_bits c =? 1) && ql_kn c) with (ql_sign c). rewrite S.
  change (ql_bits c - b2z (ql_kn c)) with (ql_ub c). rewrite rpow2_nonneg by exact U.
  unfold rmul, radd, rneg, rofZ, ql_lo. cbn [rnum rden fst snd]. f_equal; ring.
Qed.
Lemma link_ql_clip_max c : ql_sign c = false -> 0 <= ql_ub c ->
  gen_ql_clip_max (ql_bits c) (ql_kn c) (ql_sym c) = rofZ (ql_hi c).
Proof.
  intros S U. unfold gen_ql_clip_max. change ((ql_bits c =? 1) && ql_kn c) with (ql_sign c). rewrite S.
  change (ql_bits c - b2z (ql_kn c)) with (ql_ub c). rewrite rpow2_nonneg by exact U.
  unfold rsub, radd, rneg, rofZ, ql_hi. cbn [rnum rden fst snd]. f_equal; ring.
Qed.

Lemma rclip_den_pos lo hi p : 0 < rden lo -> 0 < rden hi -> 0 < rden p -> 0 < rden (rclip lo hi p).
Proof. intros A B C. unfold rclip, rmin, rmax. destruct (rlt p lo); destruct (rlt hi _); assumption. Qed.

(* _scale_clip_and_round: the integer code, for every positive quantization scale *)
Lemma link_ql_scaled c qs x : ql_sign c = false -> 0 <= ql_ub c -> 0 < rnum qs -> 0 < rden qs -> 0 < rden x ->
  req (gen_ql_scaled (ql_bits c) (ql_kn c) (ql_sym c) qs x)
      (rofZ (rround (rclip (rofZ (ql_lo c)) (rofZ (ql_hi c)) (rdiv x qs)))) = true.
Proof.
  intros S U Qn Qd Xd.
  assert (E : gen_ql_scaled (ql_bits c) (ql_kn c) (ql_sym c) qs x =
    radd (rofZ (rround (rsub (rclip (gen_ql_clip_min (ql_bits c) (ql_kn c) (ql_sym c)) (gen_ql_clip_max (ql_bits c) (ql_kn c) (ql_sym c)) (rdiv x qs))
                             (rmul (rofZ (b2z (ql_sign c))) (1, 2))))) (rmul (rofZ (b2z (ql_sign c))) (1, 2))) by reflexivity.
  rewrite E. clear E. rewrite link_ql_clip_min, link_ql_clip_max by assumption. rewrite S.
  set (p := rclip (rofZ (ql_lo c)) (rofZ (ql_hi c)) (rdiv x qs)).
  assert (Pd : 0 < rden p) by (apply rclip_den_pos; [cbn; lia|cbn; lia|apply rdiv_den_pos; assumption]).
  destruct p as [pn pd]. cbn [rden snd] in Pd.
  unfold rround, rsub, radd, rneg, rmul, rofZ, req, b2z. cbn [rnum rden fst snd].
  replace (pn * (1 * 2) + - (0 * 1) * pd) with (pn * 2) by ring. replace (pd * (1 * 2)) with (pd * 2) by ring.
  rewrite rhe_scale by lia. apply Z.eqb_eq. ring.
Qed.

(* the quantized value of __call__ is the model's value, with the quantization scale alpha * data_type_scale *)
Lemma link_ql_xq c alpha x : ql_sign c = false -> 0 <= ql_ub c -> 0 < rnum alpha -> 0 < rden alpha -> 0 < rden x ->
  req (gen_ql_xq (ql_bits c) (ql_kn c) (ql_sym c) (rscale alpha (ql_se c)) x) (ql_val c alpha x) = true.
Proof.
  intros S U An Ad Xd. destruct (qs_pos c alpha An Ad) as [Qn Qd].
  pose proof (link_ql_scaled c (rscale alpha (ql_se c)) x S U Qn Qd Xd) as L.
  unfold ql_val. rewrite S. unfold ql_code.
  change (gen_ql_xq (ql_bits c) (ql_kn c) (ql_sym c) (rscale alpha (ql_se c)) x)
    with (rmul (gen_ql_scaled (ql_bits c) (ql_kn c) (ql_sym c) (rscale alpha (ql_se c)) x) (rscale alpha (ql_se c))).
  set (g := gen_ql_scaled _ _ _ _ _) in *. set (m := rofZ _) in *. set (qs := rscale alpha (ql_se c)) in *.
  unfold req, rmul in *. cbn [rnum rden fst snd] in *. apply Z.eqb_eq. apply Z.eqb_eq in L.
  replace (rnum g * rnum qs * (rden m * rden qs)) with ((rnum g * rden m) * (rnum qs * rden qs)) by ring.
  rewrite L. ring.
Qed.

(* the reporters are the extreme codes times the quantization scale the quantizer uses *)
Lemma link_ql_reporters c qs : ql_sign c = false -> 0 <= ql_ub c ->
  gen_ql_max (ql_bits c) (ql_kn c) (ql_sym c) qs = rmul (rofZ (ql_hi c)) qs /\
  gen_ql_min (ql_bits c) (ql_kn c) (ql_sym c) qs = rmul (rofZ (ql_lo c)) qs.
Proof.
  intros S U. split.
  - change (gen_ql_max (ql_bits c) (ql_kn c) (ql_sym c) qs) with (rmul (gen_ql_clip_max (ql_bits c) (ql_kn c) (ql_sym c)) qs).
    rewrite link_ql_clip_max by assumption. reflexivity.
  - change (gen_ql_min (ql_bits c) (ql_kn c) (ql_sym c) qs) with (rmul (gen_ql_clip_min (ql_bits c) (ql_kn c) (ql_sym c)) qs).
    rewrite link_ql_clip_min by assumption. reflexivity.
Qed.

(* the returned mixture is the interpolation of Quant/Noise.v *)
Lemma link_ql_res f x xq : gen_ql_res f x xq = mix_linear x f xq.
Proof. reflexivity. Qed.

(* the 1-bit sign form: bounds -1/2, +1/2 *)
Lemma link_ql_sign_bounds c : ql_sign c = true ->
  gen_ql_clip_min (ql_bits c) (ql_kn c) (ql_sym c) = (-1, 2) /\ gen_ql_clip_max (ql_bits c) (ql_kn c) (ql_sym c) = (1, 2).
Proof. intros S. unfold gen_ql_clip_min, gen_ql_clip_max. change ((ql_bits c =? 1) && ql_kn c) with (ql_sign c). rewrite S. split; reflexivity. Qed.

(* Link/RetLink.v -- the straight-through return expressions regenerated from qkeras/quantizers.py on every run (coq/gen/RetGen.v):
   for EVERY surrogate s, quantized value q and noise factor f the gradient of the returned expression is the gradient of s (STE and
   plain forms), resp. (1 - f) times it (use_ste=False). *)
From Coq Require Import ZArith Lia.
From QV Require Import Base.ZQ Base.FL Base.Texp Quant.Grad.
From QVGen Require Import RetGen.
Open Scope Z_scope.

Lemma link_ret_ok : ret_translation_ok = true. Proof. reflexivity. Qed.

Lemma nonste_shape_gradient x s q f :
  req (grad x (Add (Mul (Sub (Const rone) (Const f)) s) (Stop (Mul (Const f) q)))) (rmul (rsub rone f) (grad x s)) = true.
Proof. unfold grad. cbn [ev]. destruct (ev x s) as [vs ds]. destruct (ev x q) as [vq dq]. cbn [fst snd].
  apply req_iff. destruct vs as [a b], f as [c d], ds as [e g].
  cbv [radd rmul rsub rneg rzero rone rnum rden fst snd]. ring. Qed.

Ltac ste_form := intros; apply stop_adds_no_gradient.
Ltac nonste_form := intros; apply nonste_shape_gradient.

Lemma link_ret_quantized_bits_ste x s q f : req (grad x (gen_ret_quantized_bits_ste s q f)) (grad x s) = true. Proof. ste_form. Qed.
Lemma link_ret_quantized_relu_ste x s q f : req (grad x (gen_ret_quantized_relu_ste s q f)) (grad x s) = true. Proof. ste_form. Qed.
Lemma link_ret_quantized_po2_ste x s q f : req (grad x (gen_ret_quantized_po2_ste s q f)) (grad x s) = true. Proof. ste_form. Qed.
Lemma link_ret_quantized_relu_po2_ste x s q f : req (grad x (gen_ret_quantized_relu_po2_ste s q f)) (grad x s) = true. Proof. ste_form. Qed.
Lemma link_ret_bernoulli x s q f : req (grad x (gen_ret_bernoulli_plain s q f)) (grad x s) = true. Proof. ste_form. Qed.
Lemma link_ret_ternary x s q f : req (grad x (gen_ret_ternary_plain s q f)) (grad x s) = true. Proof. ste_form. Qed.
Lemma link_ret_binary x s q f : req (grad x (gen_ret_binary_plain s q f)) (grad x s) = true. Proof. ste_form. Qed.
Lemma link_ret_sign_through x s q f : req (grad x (gen_ret_sign_through_plain s q f)) (grad x s) = true. Proof. ste_form. Qed.
Lemma link_ret_ceil_through x s q f : req (grad x (gen_ret_ceil_through_plain s q f)) (grad x s) = true. Proof. ste_form. Qed.
Lemma link_ret_floor_through x s q f : req (grad x (gen_ret_floor_through_plain s q f)) (grad x s) = true. Proof. ste_form. Qed.
Lemma link_ret_quantized_bits_nonste x s q f : req (grad x (gen_ret_quantized_bits_nonste s q f)) (rmul (rsub rone f) (grad x s)) = true. Proof. nonste_form. Qed.
Lemma link_ret_quantized_relu_nonste x s q f : req (grad x (gen_ret_quantized_relu_nonste s q f)) (rmul (rsub rone f) (grad x s)) = true. Proof. nonste_form. Qed.
Lemma link_ret_quantized_po2_nonste x s q f : req (grad x (gen_ret_quantized_po2_nonste s q f)) (rmul (rsub rone f) (grad x s)) = true. Proof. nonste_form. Qed.
Lemma link_ret_quantized_relu_po2_nonste x s q f : req (grad x (gen_ret_quantized_relu_po2_nonste s q f)) (rmul (rsub rone f) (grad x s)) = true. Proof. nonste_form. Qed.
(* the STE returns ARE the interpolation form of Base/Texp.v, so the value theorem applies as well *)
Lemma link_ret_ste_is_ste s q f : gen_ret_quantized_bits_ste s q f = ste s f q /\ gen_ret_quantized_relu_ste s q f = ste s f q /\
  gen_ret_quantized_po2_ste s q f = ste s f q /\ gen_ret_quantized_relu_po2_ste s q f = ste s f q.
Proof. repeat split; reflexivity. Qed.

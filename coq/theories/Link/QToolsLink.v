(* Link/QToolsLink.v -- link lemmas: the Gallina functions regenerated from
   /repo/qkeras/qtools/quantized_operators on every run (coq/gen/QToolsOps.v, tools/translate/qtoolsops.py)
   are, for ALL operands, the hand-written model of QTools/Ops.v that the C16 / C17 / C18 theorems are about.
   Compiled on every run after the generated file; a change of a type rule in the source breaks one of these. *)
From Coq Require Import ZArith List Bool Lia.
From QV Require Import Base.ZQ Base.FL QTools.Types QTools.Ops Quant.Fixed QTools.LayerMap.
From QVGen Require Import QToolsOps.
Open Scope Z_scope. Import ListNotations.

Ltac unf := cbv [gen_FixedPointMultiplier gen_Shifter gen_Mux gen_AndGate gen_XorGate gen_Adder gen_FloatingPointMultiplier
                 gen_po2_to_qbits gen_po2_qbits_converter gen_FixedPointAdder gen_Po2FixedPointAdder gen_Po2Adder gen_FloatingPointAdder
                 gen_FixedPointAccumulator gen_Po2Accumulator gen_FloatingPointAccumulator
                 fixed_mul shifter mux and_gate xor_gate adder_mul float_mul po2_to_qbits po2_qbits_converter fixed_adder po2_fixed_adder po2_adder
                 float_adder fixed_acc po2_acc float_acc log_add_ops rename_po2 frac_bits
                 set_bits set_int set_sgn set_fp set_po2 set_maxv set_name set_mode
                 q_mode q_bits q_int q_sgn q_fp q_po2 q_maxv q_name q_use01 mkQuantizedBits mkFloat].
Ltac splitifs := repeat match goal with
  | |- context [if ?b then _ else _] => destruct b eqn:?
  | |- context [match ?o with Some _ => _ | None => _ end] => destruct o eqn:?
  end.
Ltac link := intros; repeat match goal with q : qt |- _ => destruct q end; unf; splitifs; try reflexivity; try (f_equal; lia); try congruence.

Lemma link_FixedPointMultiplier w x out : gen_FixedPointMultiplier w x out = fixed_mul w x out. Proof. link. Qed.
Lemma link_XorGate w x out : gen_XorGate w x out = xor_gate w x out. Proof. link. Qed.
Lemma link_FloatingPointMultiplier w x out : gen_FloatingPointMultiplier w x out = float_mul w x out. Proof. link. Qed.
Lemma link_Mux w x out : gen_Mux w x out = mux w x out. Proof. link. Qed.
Lemma link_AndGate w x out : gen_AndGate w x out = and_gate w x out. Proof. link. Qed.
Lemma link_Adder w x out : gen_Adder w x out = adder_mul w x out. Proof. link. Qed.
Lemma link_Shifter w x out : gen_Shifter w x out = shifter w x out. Proof. link. Qed.
Lemma link_po2_to_qbits t : gen_po2_to_qbits t = po2_to_qbits t. Proof. intros. destruct t. unf. destruct (get_exp _). reflexivity. Qed.
Lemma link_po2_qbits_converter t : gen_po2_qbits_converter t = po2_qbits_converter t. Proof. intros. destruct t. unf. destruct (get_exp _). cbn [fst snd]. reflexivity. Qed.
Lemma link_FloatingPointAdder q1 q2 : gen_FloatingPointAdder q1 q2 = float_adder q1 q2. Proof. link. Qed.
Lemma link_FixedPointAccumulator kops ub m : gen_FixedPointAccumulator kops ub m = fixed_acc kops ub m. Proof. intros. destruct m. unf. destruct ub; reflexivity. Qed.
Lemma link_FloatingPointAccumulator m : gen_FloatingPointAccumulator m = float_acc m. Proof. link. Qed.
Lemma link_FixedPointAdder q1 q2 : gen_FixedPointAdder q1 q2 = fixed_adder q1 q2. Proof. link. Qed.
Lemma link_Po2Adder q1 q2 : gen_Po2Adder q1 q2 = po2_adder q1 q2.
Proof. intros. destruct q1, q2. unf. destruct (get_exp _) as [a b]. destruct (get_exp _) as [c d]. cbn [fst snd]. splitifs; try reflexivity; f_equal; lia. Qed.
Lemma link_Po2FixedPointAdder q1 q2 : gen_Po2FixedPointAdder q1 q2 = po2_fixed_adder q1 q2.
Proof. intros. destruct q1, q2. unf. destruct q_po2; destruct (get_exp _) as [a b]; cbn [fst snd]; splitifs; try reflexivity; f_equal; lia. Qed.
Lemma link_Po2Accumulator kops ub m : gen_Po2Accumulator kops ub m = po2_acc kops ub m.
Proof. intros. destruct m. unf. destruct (get_exp _) as [a b]. cbn [fst snd]. destruct ub; reflexivity. Qed.
Lemma link_mul_table : forall mw mx, 0 <= mw <= 5 -> 0 <= mx <= 5 ->
  nth (Z.to_nat mx) (nth (Z.to_nat mw) gen_mul_table []) (IFMul, OFloat) = mul_table mw mx.
Proof. intros mw mx Hw Hx.
  assert (mw = 0 \/ mw = 1 \/ mw = 2 \/ mw = 3 \/ mw = 4 \/ mw = 5) as Cw by lia.
  assert (mx = 0 \/ mx = 1 \/ mx = 2 \/ mx = 3 \/ mx = 4 \/ mx = 5) as Cx by lia.
  destruct Cw as [->|[->|[->|[->|[->| ->]]]]]; destruct Cx as [->|[->|[->|[->|[->| ->]]]]]; reflexivity. Qed.
Lemma link_add_table : forall m1 m2, 0 <= m1 <= 5 -> 0 <= m2 <= 5 ->
  nth (Z.to_nat m2) (nth (Z.to_nat m1) gen_add_table []) AFloat = add_table m1 m2.
Proof. intros m1 m2 H1 H2.
  assert (m1 = 0 \/ m1 = 1 \/ m1 = 2 \/ m1 = 3 \/ m1 = 4 \/ m1 = 5) as C1 by lia.
  assert (m2 = 0 \/ m2 = 1 \/ m2 = 2 \/ m2 = 3 \/ m2 = 4 \/ m2 = 5) as C2 by lia.
  destruct C1 as [->|[->|[->|[->|[->| ->]]]]]; destruct C2 as [->|[->|[->|[->|[->| ->]]]]]; reflexivity. Qed.

Lemma link_make_accumulator kops ub m : gen_make_accumulator kops ub m = make_accumulator kops ub m.
Proof. unfold gen_make_accumulator, make_accumulator.
  rewrite link_FloatingPointAccumulator, link_Po2Accumulator, link_FixedPointAccumulator. reflexivity. Qed.
Lemma link_conv_QuantizedBits b i kn sym : gen_conv_QuantizedBits b i kn = qt_of_qbits (QB b i kn sym).
Proof. reflexivity. Qed.
Lemma link_conv_QuantizedRelu b i lk : gen_conv_QuantizedRelu b i lk = qt_of_qrelu b i lk.
Proof. unfold gen_conv_QuantizedRelu, qt_of_qrelu. destruct lk; destruct ((b =? 1) && (i =? 1)); reflexivity. Qed.
(* get_exp as /repo has it now is the get_exp of QTools/Types.v on which every po2 theorem (shifter, po2 adders and
   accumulators, value sets) is stated; PowerOfTwo.get_min_max_exp is checked by the translator to be get_exp(self) *)
Lemma link_get_exp t : gen_get_exp t = get_exp t.
Proof. destruct t as [md b i sg fp p2 mv nm u]. unfold gen_get_exp, get_exp, exp_bits. cbn [q_sgn q_bits q_maxv andb].
  destruct mv as [v|]; destruct sg; try destruct (rle v (1, 1)); try destruct (rle v (0, 1)); cbn [andb]; f_equal; lia. Qed.
Lemma link_translation_ok : translation_ok = true. Proof. reflexivity. Qed.

(* Link/EnergyLink.v -- the operation-energy dispatch of energy_estimate, regenerated from qkeras/qtools/qenergy/qenergy.py on
   every run (coq/gen/EnergyGen.v), is for EVERY class name, count, number of inputs and unit costs the function op_cost of
   QTools/Energy.v; the per-layer dictionary prints four entries and the total adds exactly those four. *)
From Coq Require Import ZArith QArith String List Bool Lia.
From QV Require Import QTools.Energy.
From QVGen Require Import EnergyGen.
Import ListNotations.
Open Scope string_scope.

Lemma link_energy_ok : translation_ok = true. Proof. reflexivity. Qed.

Lemma link_energy_entries :
  gen_entry_keys = ["inputs"; "outputs"; "parameters"; "op_cost"] /\ gen_total_terms = gen_entry_keys /\
  gen_opcost_key = ["op_cost"] /\ gen_total_truncated = true.
Proof. repeat split; reflexivity. Qed.

Open Scope Q_scope.
Lemma link_opcost : forall gf uop uadd present cls count n,
  gen_opcost gf uop uadd present cls count n == op_cost gf uop uadd present cls count n.
Proof.
  intros. unfold gen_opcost, op_cost, in_names, mem, opt_cost, act_classes, bn_classes, merge_classes, pool_classes, mac_classes.
  repeat match goal with |- context [if existsb (String.eqb cls) ?l then _ else _] => destruct (existsb (String.eqb cls) l) end;
  repeat match goal with |- context [present ?k] => destruct (present k) end;
  unfold Z.sub; rewrite ?inject_Z_plus, ?inject_Z_opp; change (inject_Z 0) with 0; change (inject_Z 1) with 1; ring.
Qed.

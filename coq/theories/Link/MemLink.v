(* Link/MemLink.v -- memory_read_energy / memory_write_energy, regenerated from qkeras/qtools/qenergy/qenergy.py on every run
   (coq/gen/MemGen.v), are for every placement option, flag and cost the functions mem_read / mem_write of QTools/Energy.v. *)
From Coq Require Import ZArith QArith String Bool.
From QV Require Import QTools.Energy.
From QVGen Require Import MemGen.
Open Scope string_scope.

Lemma link_mem_ok : translation_ok = true. Proof. reflexivity. Qed.

Open Scope Q_scope.
Lemma link_mem_read : forall at_io rw mode dr sr sw, gen_mem_read at_io rw mode dr sr sw == mem_read at_io rw mode dr sr sw.
Proof. intros. unfold gen_mem_read, mem_read, eff_mode.
  destruct (String.eqb (if at_io then if rw then "dram" else "sram" else mode) "dram");
  [|destruct (String.eqb (if at_io then if rw then "dram" else "sram" else mode) "sram")]; destruct rw; ring. Qed.
Lemma link_mem_write : forall at_io rw mode dw sr sw, gen_mem_write at_io rw mode dw sr sw == mem_write at_io rw mode dw sr sw.
Proof. intros. unfold gen_mem_write, mem_write, eff_mode.
  destruct (String.eqb (if at_io then if rw then "dram" else "sram" else mode) "dram");
  [|destruct (String.eqb (if at_io then if rw then "dram" else "sram" else mode) "sram")]; destruct rw; ring. Qed.

(* Link/ReportLink.v -- the range reporters max() / min() of quantized_bits and quantized_po2, regenerated on every run
   (coq/gen/ReportGen.v), are qb_max / qb_min of Quant/Fixed.v and po2_max of Quant/Po2.v for every configuration. *)
From Coq Require Import ZArith Bool.
From QV Require Import Base.ZQ Base.FL Quant.Fixed Quant.Po2.
From QVGen Require Import ReportGen.
Open Scope Z_scope.
Lemma link_report_ok : report_translation_ok = true. Proof. reflexivity. Qed.
Theorem link_qbits_reporters : forall bits integer kn sym,
  gen_qbits_max bits integer kn = qb_max (QB bits integer kn sym) /\ gen_qbits_min bits integer kn = qb_min (QB bits integer kn sym).
Proof. intros. unfold gen_qbits_max, gen_qbits_min, qb_max, qb_min, qb_ub. cbn [qb_bits qb_int qb_kn].
  split; [reflexivity|]. destruct kn; cbn [negb]; [|reflexivity]. destruct (0 <? bits - b2z true); reflexivity. Qed.
Theorem link_po2_reporters : forall bits mv mode,
  gen_po2_max mv (po2_max_exp bits mv) = po2_max (P2 bits mv mode) /\
  gen_po2_min mv (po2_max_exp bits mv) = rneg (po2_max (P2 bits mv mode)).
Proof. intros. unfold gen_po2_max, gen_po2_min, po2_max. cbn [p_mv p_bits].
  destruct mv as [v|]; [destruct (rnum v =? 0)|]; split; reflexivity. Qed.

(* Link/ConvertLink.v -- the helpers of model_quantize regenerated from qkeras/utils.py on every run
   (coq/gen/ConvertGen.v, tools/translate/convertgen.py) are the functions of Convert/ModelQuantize.v. *)
From Coq Require Import String List Bool.
From QV Require Import Convert.ModelQuantize.
From QVGen Require Import ConvertGen.
Open Scope string_scope.
Lemma link_lookup d name cls param : gen_lookup d name cls param = lookup d name cls param.
Proof. unfold gen_lookup, lookup, find_entry. destruct (assoc name d); [|destruct (assoc cls d)]; try reflexivity;
  destruct (assoc param _); reflexivity. Qed.
Lemma link_quantize_activation act bits : gen_quantize_activation act bits = quantize_activation act bits.
Proof. destruct act as [a|]; [|reflexivity]. unfold gen_quantize_activation, quantize_activation.
  destruct (String.eqb a "linear") eqn:E; [|reflexivity].
  apply String.eqb_eq in E. subst. reflexivity. Qed.
Lemma link_convert_ok : translation_ok = true. Proof. reflexivity. Qed.

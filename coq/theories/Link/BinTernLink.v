(* Link/BinTernLink.v -- binary.__call__, ternary.__call__ and _get_least_squares_scale as regenerated on every run
   (coq/gen/BinTernGen.v) are the expressions and dispatch tables of Quant/BinTernSrc.v. *)
From Coq Require Import ZArith Bool.
From QV Require Import Base.ZQ Base.FL Quant.BinTern Quant.BinTernSrc.
From QVGen Require Import BinTernGen.
Open Scope Z_scope.

Lemma link_bt_ok : bt_translation_ok = true.
Proof. reflexivity. Qed.
Lemma link_bcode : forall u x, gen_bcode u x = bcode_expr u x.
Proof. intros [] x; reflexivity. Qed.
Lemma link_tcode : forall thr x, gen_tcode thr x = tcode_expr thr x.
Proof. reflexivity. Qed.
Lemma link_tstep : forall scale x, gen_tstep scale x = tstep_expr scale x.
Proof. reflexivity. Qed.
Lemma link_tinit : forall m, gen_tinit_scale m = tinit_scale m.
Proof. reflexivity. Qed.
Lemma link_bt_tables :
  (forall a, gen_binary_surrogate a = binary_surrogate a) /\ (forall a, gen_binary_scale a = binary_scale a) /\
  (forall a, gen_ternary_surrogate a = ternary_surrogate a) /\ (forall a, gen_ternary_scale a = ternary_scale a) /\
  (forall h, gen_ternary_thr h = ternary_thr h) /\ (forall a hb, gen_ls_form a hb = ls_form a hb).
Proof. repeat split; try (intros []; reflexivity). intros [] []; reflexivity. Qed.

(* consequences stated on the generated code *)
Lemma gen_bcode_is_bcode : forall u x, req (gen_bcode u x) (rofZ (bcode u x)) = true.
Proof. intros u x. rewrite link_bcode. apply bcode_expr_is_bcode. Qed.
Lemma gen_tcode_is_tcode : forall thr x, req (gen_tcode thr x) (rofZ (tcode thr x)) = true.
Proof. intros thr x. rewrite link_tcode. apply tcode_expr_is_tcode. Qed.
Lemma gen_tstep_is_tstep : forall scale x, 0 < rnum scale -> 0 < rden scale -> 0 < rden x ->
  req (gen_tstep scale x) (rofZ (tstep scale x)) = true.
Proof. intros scale x A B C. rewrite link_tstep. apply tstep_expr_is_tstep; assumption. Qed.

(* Link/ReluLink.v -- the ReLU-layer branch of model_quantize, regenerated from qkeras/utils.py on every run (coq/gen/ReluGen.v):
   for a Keras ReLU layer its outcome is convert_relu of Convert/Relu.v for every dictionary, layer and slope sign; the slope is read
   from the key negative_slope; LeakyReLU layers are never converted under either Keras naming (a KeyError: the known finding). *)
From Coq Require Import String List Bool.
From QV Require Import Convert.ModelQuantize Convert.Adaptive Convert.Relu Convert.ReluBranch.
From QVGen Require Import ReluGen.
Import ListNotations.
Open Scope string_scope.

Lemma link_relu_ok : relu_translation_ok = true. Proof. reflexivity. Qed.

(* what get_config returned, as the translator's abstract entry *)
Definition classify (d : qdict) (l : layer) (pos : bool) : rentry :=
  match find_entry d (l_name l) "QActivation" with
  | None => ENone
  | Some e =>
    match assoc "" e with
    | Some s => if String.eqb s "" then EStrEmpty else EStr
    | None => match nonempty (assoc (relu_key pos) e) with Some _ => EMapHit | None => EMapMiss end
    end
  end.
(* the concrete layer an abstract outcome stands for *)
Definition realise (d : qdict) (l : layer) (pos : bool) (o : routcome) : option layer :=
  let q a := L "QActivation" (l_name l) (l_use_bias l) a None None in
  match o with
  | OUnchanged => Some l
  | ORaises => None
  | OConverted ANoActivation => Some (q None)
  | OConverted AEntry =>
    match find_entry d (l_name l) "QActivation" with
    | Some e => match assoc "" e with Some s => Some (q (Some s)) | None => None end
    | None => None
    end
  | OConverted AMapValue =>
    match find_entry d (l_name l) "QActivation" with
    | Some e => match nonempty (assoc (relu_key pos) e) with Some s => Some (q (Some s)) | None => None end
    | None => None
    end
  end.

Theorem link_relu_branch : forall d l pos, l_act l = Some (relu_key pos) ->
  realise d l pos (gen_relu_branch CReLU pos (classify d l pos)) = Some (convert_relu d l).
Proof.
  intros d l pos A. unfold classify, convert_relu, realise. rewrite A.
  destruct (find_entry d (l_name l) "QActivation") as [e|]; [|destruct pos; reflexivity].
  destruct (assoc "" e) as [s|].
  - destruct (String.eqb s "") eqn:E; destruct pos; cbn; rewrite ?E; reflexivity.
  - destruct (nonempty (assoc (relu_key pos) e)) as [s|] eqn:N; destruct pos; cbn in *; rewrite ?N; reflexivity.
Qed.
Theorem link_relu_slope_key : gen_relu_slope_key CReLU = "negative_slope".
Proof. reflexivity. Qed.
(* LeakyReLU: whatever the entry, the layer is never converted -- the branch raises as soon as an entry applies (Keras-3 key), or as soon
   as it would convert (Keras-2 key: the class name has been overwritten before the keys to delete are chosen) *)
Theorem link_leakyrelu_never_converted : forall c pos e a, (c = CLeaky3 \/ c = CLeaky2) -> gen_relu_branch c pos e <> OConverted a.
Proof. intros c pos e a [-> | ->]; destruct pos, e; discriminate. Qed.

(* Link/QBitsLink.v -- the data-independent path of the legacy quantized_bits.__call__ as regenerated on every run
   (coq/gen/QBitsGen.v) computes the model value qb_val of Quant/Fixed.v: for EVERY configuration with a non-negative number
   of unsigned bits (multi-bit: round, clip to [lo, hi], rescale; no unsigned bit: the sign form), every scale and every
   rational input.  The theorems of Quant/FixedThm.v about qb_code are thereby theorems about the code. *)
From Coq Require Import ZArith Bool Lia ZifyBool.
From QV Require Import Base.ZQ Base.FL Quant.Fixed Quant.FixedThm Quant.Po2Thm Quant.BinTern Quant.BinTernSrc.
From QVGen Require Import QBitsGen.
Open Scope Z_scope.

Lemma link_qbits_ok : qbits_translation_ok = true.
Proof. reflexivity. Qed.

Lemma rpow2_nn k : 0 <= k -> rpow2 k = (1 * 2 ^ k, 1).
Proof. intros H. unfold rpow2, sc_num, sc_den. replace (0 <=? k) with true by lia. reflexivity. Qed.
Lemma rpow2_neg k : k < 0 -> rpow2 k = (1, 1 * 2 ^ (- k)).
Proof. intros H. unfold rpow2, sc_num, sc_den. replace (0 <=? k) with false by lia. reflexivity. Qed.

Lemma rclip_int lo hi r : lo <= hi -> rclip (rofZ lo) (rofZ hi) (rofZ r) = rofZ (clip lo hi r).
Proof.
  intros H. unfold rclip, rmin, rmax, rlt, rofZ, clip. cbn [rnum rden fst snd].
  destruct (r * 1 <? lo * 1) eqn:E1; cbn [rnum rden fst snd].
  - destruct (hi * 1 <? lo * 1) eqn:E2; f_equal; lia.
  - destruct (hi * 1 <? r * 1) eqn:E2; f_equal; lia.
Qed.

Lemma req_rmul_l s a b : req a b = true -> req (rmul s a) (rmul s b) = true.
Proof. unfold req, rmul. cbn [rnum rden fst snd]. intros H. apply Z.eqb_eq in H. apply Z.eqb_eq.
  replace (rnum s * rnum a * (rden s * rden b)) with ((rnum a * rden b) * (rnum s * rden s)) by ring. rewrite H. ring. Qed.

(* p = x * m / m_i rounds like the model's scaled fraction *)
Lemma round_p a b u i : 0 < b -> 0 <= u ->
  rround (rdiv (rmul (a, b) (rpow2 u)) (rpow2 i)) = rhe (sc_num a (u - i)) (sc_den b (u - i)).
Proof.
  intros Hb Hu. rewrite (rpow2_nn u Hu).
  assert (Pu : 0 < 2 ^ u) by (apply Z.pow_pos_nonneg; lia).
  destruct (Z_lt_le_dec i 0) as [Ni|Pi].
  - (* m_i = 2^i with i < 0 *)
    rewrite (rpow2_neg i Ni). assert (Pn : 0 < 2 ^ (- i)) by (apply Z.pow_pos_nonneg; lia).
    unfold rround, rdiv, rinv, rmul. cbn [rnum rden fst snd]. replace (0 <? 1) with true by lia. cbn [rnum rden fst snd].
    apply rhe_ext; [nia | apply sc_den_pos; exact Hb |].
    unfold sc_num, sc_den. replace (0 <=? u - i) with true by lia.
    replace (u - i) with (u + - i) by lia. rewrite q2add by lia. ring.
  - rewrite (rpow2_nn i Pi). assert (Pn : 0 < 2 ^ i) by (apply Z.pow_pos_nonneg; lia).
    unfold rround, rdiv, rinv, rmul. cbn [rnum rden fst snd]. replace (0 <? 1 * 2 ^ i) with true by lia. cbn [rnum rden fst snd].
    apply rhe_ext; [nia | apply sc_den_pos; exact Hb |].
    unfold sc_num, sc_den. destruct (0 <=? u - i) eqn:E.
    + assert (P : 2 ^ u = 2 ^ (u - i) * 2 ^ i) by (rewrite <- q2add by lia; f_equal; lia). rewrite P. ring.
    + assert (P : 2 ^ i = 2 ^ u * 2 ^ (- (u - i))) by (rewrite <- q2add by lia; f_equal; lia). rewrite P. ring.
Qed.

(* m_i * code / m is code * 2^(i - u) *)
Lemma value_back c u i : 0 <= u ->
  req (rdiv (rmul (rpow2 i) (rofZ c)) (rpow2 u)) (rscale (rofZ c) (i - u)) = true.
Proof.
  intros Hu. rewrite (rpow2_nn u Hu). assert (Pu : 0 < 2 ^ u) by (apply Z.pow_pos_nonneg; lia).
  unfold rdiv, rinv. cbn [rnum rden fst snd]. replace (0 <? 1 * 2 ^ u) with true by lia.
  destruct (Z_lt_le_dec i 0) as [Ni|Pi].
  - rewrite (rpow2_neg i Ni). unfold req, rmul, rscale, rofZ, sc_num, sc_den. cbn [rnum rden fst snd].
    replace (0 <=? i - u) with false by lia. apply Z.eqb_eq.
    replace (- (i - u)) with (- i + u) by lia. rewrite (q2add (- i) u) by lia. ring.
  - rewrite (rpow2_nn i Pi). unfold req, rmul, rscale, rofZ, sc_num, sc_den. cbn [rnum rden fst snd].
    destruct (0 <=? i - u) eqn:E; apply Z.eqb_eq.
    + assert (P : 2 ^ i = 2 ^ (i - u) * 2 ^ u) by (rewrite <- q2add by lia; f_equal; lia). rewrite P. ring.
    + assert (P : 2 ^ u = 2 ^ i * 2 ^ (- (i - u))) by (rewrite <- q2add by lia; f_equal; lia). rewrite P. ring.
Qed.

Lemma qb_lo_le_hi c : 0 < qb_ub c -> qb_lo c <= qb_hi c.
Proof. intros U. unfold qb_lo, qb_hi. replace (0 <? qb_ub c) with true by lia.
  assert (1 <= 2 ^ qb_ub c) by (apply q2ge1; lia). destruct (qb_kn c), (qb_sym c); cbn [b2z]; lia. Qed.

Theorem link_qb_xq c alpha x : 0 < rden x -> 0 <= qb_ub c ->
  req (gen_qb_xq (qb_bits c) (qb_int c) (qb_kn c) (qb_sym c) alpha x) (qb_val c alpha x) = true.
Proof.
  intros Xd U. unfold gen_qb_xq, qb_val. apply req_rmul_l.
  change (qb_bits c - b2z (qb_kn c)) with (qb_ub c).
  destruct (0 <? qb_ub c) eqn:E.
  - (* multi-bit *)
    assert (Up : 0 < qb_ub c) by lia.
    assert (Lo : rmul (rofZ (b2z (qb_kn c))) (radd (rneg (rpow2 (qb_ub c))) (rofZ (b2z (qb_sym c)))) = rofZ (qb_lo c)).
    { rewrite rpow2_nn by lia. unfold rmul, radd, rneg, rofZ, qb_lo. rewrite E. cbn [rnum rden fst snd]. f_equal; ring. }
    assert (Hi : rsub (rpow2 (qb_ub c)) (rofZ 1) = rofZ (qb_hi c)).
    { rewrite rpow2_nn by lia. unfold rsub, radd, rneg, rofZ, qb_hi. rewrite E. cbn [rnum rden fst snd]. f_equal; ring. }
    rewrite Lo, Hi. destruct x as [a b]. cbn [rden snd] in Xd.
    rewrite round_p by lia. rewrite rclip_int by (apply qb_lo_le_hi; exact Up).
    unfold qb_code, qb_se. rewrite E. cbn [rnum rden fst snd].
    apply value_back. lia.
  - (* no unsigned bit: the sign form *)
    assert (U0 : qb_ub c = 0) by lia.
    unfold qb_code, qb_se. rewrite E.
    change (if negb (qb_kn c) then rdiv (radd (radd (rsgn x) (rsub (1, 1) (rabs (rsgn x)))) (1, 1)) (2, 1)
            else radd (rsgn x) (rsub (1, 1) (rabs (rsgn x)))) with (bcode_expr (negb (qb_kn c)) x).
    pose proof (bcode_expr_is_bcode (negb (qb_kn c)) x) as B.
    assert (C : rscale (rofZ (if qb_kn c then sign1 (rnum x) else (sign1 (rnum x) + 1) / 2)) 0 = (bcode (negb (qb_kn c)) x * 1, 1)).
    { unfold rscale, rofZ, sc_num, sc_den, bcode, bsign, sign1. cbn [rnum rden fst snd]. replace (0 <=? 0) with true by lia.
      destruct (qb_kn c); cbn [negb]; f_equal; ring. }
    rewrite C. unfold req in *. cbn [rnum rden fst snd rofZ] in *. lia.
Qed.

(* the scale: 1 for alpha = None *)
Lemma link_qb_scale alpha : gen_qb_scale true alpha = alpha /\ gen_qb_scale false alpha = (1, 1).
Proof. split; reflexivity. Qed.

(* Link/RoleLink.v -- the tensor-role dispatch of _get_quantizer, regenerated on every run (coq/gen/RoleGen.v), is for EVERY role
   string the chain field_of_head of AutoQ/Search.v: the configuration field read and the limit slot used. *)
From Coq Require Import ZArith String.
From QV Require Import AutoQ.Search.
From QVGen Require Import RoleGen.
Open Scope string_scope.

Lemma link_role_ok : role_translation_ok = true. Proof. reflexivity. Qed.
Theorem link_field_of_role : forall il role,
  gen_field_of_role il role = (field_name (field_of_head il role), field_index (field_of_head il role)).
Proof. intros il role. unfold gen_field_of_role, field_of_head. destruct il; [reflexivity|].
  destruct (contains "kernel" role); [reflexivity|]. destruct (contains "bias" role); [reflexivity|].
  destruct (contains "pointwise_kernel" role); [reflexivity|]. destruct (contains "recurrent_kernel" role); [reflexivity|].
  destruct (contains "recurrent_activation" role); reflexivity. Qed.

(* Link/FoldLink.v -- get_folded_weights of QConv2DBatchnorm and QDepthwiseConv2DBatchnorm, regenerated on every run
   (coq/gen/FoldGen.v), is for every option combination and every statistic the folding of BN/Fold.v with the absent parameters at
   their neutral values: no bias -> b = 0, center=False -> beta = 0, scale=False -> gamma = 1. *)
From Coq Require Import QArith Bool.
From QV Require Import BN.Fold.
From QVGen Require Import FoldGen.
Open Scope Q_scope.

Lemma link_fold_ok : fold_translation_ok = true /\ gen_c2d_kernel_is_inv_times_kernel = true /\ gen_dw_kernel_is_inv_times_kernel = true.
Proof. repeat split; reflexivity. Qed.

Definition eff_gamma (has_gamma : bool) (gamma : Q) : Q := if has_gamma then gamma else 1.
Definition eff_beta (has_beta : bool) (beta : Q) : Q := if has_beta then beta else 0.
Definition eff_bias (use_bias : bool) (b : Q) : Q := if use_bias then b else 0.

Lemma link_c2d_inv : forall hg gamma r, gen_c2d_inv hg gamma r == inv (eff_gamma hg gamma) r.
Proof. intros [] gamma r; unfold gen_c2d_inv, inv, eff_gamma; ring. Qed.
Lemma link_dw_inv : forall hg gamma r, gen_dw_inv hg gamma r == inv (eff_gamma hg gamma) r.
Proof. intros [] gamma r; unfold gen_dw_inv, inv, eff_gamma; ring. Qed.
Lemma link_c2d_bias : forall ub hb hg gamma beta mu r b,
  gen_c2d_bias ub hb hg gamma beta mu r b == folded_bias (eff_gamma hg gamma) (eff_beta hb beta) mu r (eff_bias ub b).
Proof. intros [] [] [] gamma beta mu r b; unfold gen_c2d_bias, folded_bias, inv, eff_gamma, eff_beta, eff_bias; ring. Qed.
Lemma link_dw_bias : forall ub hb hg gamma beta mu r b,
  gen_dw_bias ub hb hg gamma beta mu r b == folded_bias (eff_gamma hg gamma) (eff_beta hb beta) mu r (eff_bias ub b).
Proof. intros [] [] [] gamma beta mu r b; unfold gen_dw_bias, folded_bias, inv, eff_gamma, eff_beta, eff_bias; ring. Qed.

(* Link/SizeLink.v -- ForgivingFactorBits._act_size, regenerated on every run (coq/gen/SizeGen.v), returns for every layer kind and
   every kind of activation object -- whenever it returns at all -- the size of AutoQ/Size.v: elements times the bits of the quantizer
   applied, the reference width where none is applied, the output width for softmax (and sigmoid activation layers), nothing for
   linear ones. *)
From Coq Require Import ZArith Lia.
From QV Require Import AutoQ.Size.
From QVGen Require Import SizeGen.
Open Scope Z_scope.

Lemma link_size_ok : size_translation_ok = true. Proof. reflexivity. Qed.

Theorem link_act_size : forall k a w out r,
  gen_act_size k a (w_in w) (w_out w) (w_ref w) out = Some r -> r = act_size_of k a w out.
Proof.
  intros k a w out r H. destruct k; destruct a as [|n|n|b|b]; try destruct n; try destruct b;
    cbn in H; try discriminate; injection H as <-; unfold act_size_of, act_size, sact_of, sact_of_name, skind_of, bits_or; cbn; lia.
Qed.
(* a quantizer OBJECT as the activation of a quantized layer or of a QActivation always gets a size (it has no __name__) *)
Theorem link_quantizer_objects_are_sized : forall b w out,
  gen_act_size KQuantized (DQuantObj b) (w_in w) (w_out w) (w_ref w) out = Some (bits_or (w_ref w) b * out) /\
  gen_act_size KActivation (DQuantObj b) (w_in w) (w_out w) (w_ref w) out = Some (bits_or (w_ref w) b * out) /\
  gen_act_size KActivation (DQuantStr b) (w_in w) (w_out w) (w_ref w) out = Some (bits_or (w_ref w) b * out).
Proof. intros [b|] w out; cbn; repeat split; reflexivity. Qed.
(* a fused PLAIN activation on a quantized layer (no quantizer applied to the output) is counted at the reference width -- sigmoid too *)
Theorem link_fused_plain_activation_reference_width : forall w out,
  gen_act_size KQuantized (DFunc NSigmoid) (w_in w) (w_out w) (w_ref w) out = Some (w_ref w * out) /\
  gen_act_size KQuantized (DFunc NOther) (w_in w) (w_out w) (w_ref w) out = Some (w_ref w * out) /\
  gen_act_size KQuantized (DFunc NSoftmax) (w_in w) (w_out w) (w_ref w) out = Some (w_out w * out).
Proof. intros; cbn; repeat split; reflexivity. Qed.

(* Link/ExtractLink.v -- the key-selection rule of extract_energy_sum / extract_energy_profile, regenerated on every run
   (coq/gen/ExtractGen.v), is keys_for of QTools/Energy.v for every cost setting and class name. *)
From Coq Require Import String List.
From QV Require Import QTools.Energy.
From QVGen Require Import ExtractGen.
Import ListNotations.
Open Scope string_scope.
Lemma link_extract_ok : extract_translation_ok = true. Proof. reflexivity. Qed.
Theorem link_keys_for : forall setting cls, gen_keys_for setting cls = keys_for setting cls.
Proof. reflexivity. Qed.

(* Link/Po2CallLink.v -- _clip_power_of_two as regenerated on every run (coq/gen/Po2CallGen.v): with the exact logarithm oracles
   (exp_rnd = round(log2 x), exp_floor = floor(log2 x) of Quant/Po2.v) and without quadratic_approximation it IS clip_po2, the
   function every theorem of Properties/C03.v is stated on -- for both rounding modes, with and without max_value, for every
   exponent interval and every magnitude.  With quadratic_approximation the exponent is twice an exponent of the interval. *)
From Coq Require Import ZArith Bool Lia.
From QV Require Import Base.ZQ Base.FL Quant.Po2 Quant.BinTern Quant.BinTernSrc.
From QVGen Require Import Po2CallGen.
Open Scope Z_scope.

Lemma link_po2call_ok : po2call_translation_ok = true.
Proof. reflexivity. Qed.

Theorem link_clip_po2 (floor_mode has_mv : bool) mn mx mv xabs :
  gen_clip_po2 exp_rnd exp_floor exp_rnd exp_floor floor_mode false has_mv mn mx mv xabs =
  clip_po2 (if floor_mode then LFloor else LRnd) mn mx (if has_mv then Some mv else None) xabs.
Proof.
  unfold gen_clip_po2, clip_po2. destruct floor_mode, has_mv; destruct (rlt xabs eps32) eqn:E; try reflexivity;
    cbn [exp_of]; rewrite Z.mul_1_l; reflexivity.
Qed.

(* whatever the logarithm oracles return, the exponent is inside the interval (twice an exponent of it under the quadratic option) *)
Theorem gen_clip_po2_in_interval lgr lgf lgrs lgfs (floor_mode quad has_mv : bool) mn mx mv xabs : mn <= mx ->
  exists k, mn <= k <= mx /\ gen_clip_po2 lgr lgf lgrs lgfs floor_mode quad has_mv mn mx mv xabs =
                             (if quad then (if rlt xabs eps32 then k else 2 * k) else k).
Proof.
  intros H. unfold gen_clip_po2.
  destruct floor_mode, quad, has_mv; destruct (rlt xabs eps32) eqn:E;
    try (exists mn; split; [lia | reflexivity]);
    match goal with |- context [clip mn mx ?e] => exists (clip mn mx e); split; [apply clip_range; exact H | try reflexivity; lia] end.
Qed.

(* quantized_po2.__call__: the value is sign * 2^e with the sign of x, zero counted positive -- po2_val of the model *)
Theorem link_po2_xq e x : req (gen_po2_xq e x) (po2_val (sign1r x, e)) = true.
Proof.
  unfold gen_po2_xq, po2_val. cbn [fst snd].
  change (radd (rsgn x) (rsub (1, 1) (rabs (rsgn x)))) with (bcode_expr false x).
  pose proof (bcode_expr_is_bcode false x) as B.
  assert (E : bcode false x = sign1r x) by reflexivity. rewrite E in B.
  unfold req, rmul in *. cbn [rnum rden fst snd] in *. apply Z.eqb_eq in B. apply Z.eqb_eq.
  replace (rnum (bcode_expr false x) * rnum (rpow2 e) * (rden (rofZ (sign1r x)) * rden (rpow2 e)))
    with ((rnum (bcode_expr false x) * rden (rofZ (sign1r x))) * (rnum (rpow2 e) * rden (rpow2 e))) by ring.
  rewrite B. ring.
Qed.

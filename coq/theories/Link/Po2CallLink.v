(* Link/Po2CallLink.v -- _clip_power_of_two as regenerated on every run (coq/gen/Po2CallGen.v): with the exact logarithm oracles
   (exp_rnd = round(log2 x), exp_floor = floor(log2 x) of Quant/Po2.v) and without quadratic_approximation it IS clip_po2, the
   function every theorem of Properties/C03.v is stated on -- for both rounding modes, with and without max_value, for every
   exponent interval and every magnitude.  With quadratic_approximation the exponent is twice an exponent of the interval. *)
From Coq Require Import ZArith Bool Lia.
From QV Require Import Base.ZQ Base.FL Quant.Po2 Quant.BinTern Quant.BinTernSrc Quant.ReluSrc.
From Coq Require Import ZifyBool.
From QVGen Require Import Po2CallGen.
Open Scope Z_scope.

Lemma link_po2call_ok : po2call_translation_ok = true.
Proof. reflexivity. Qed.

Theorem link_clip_po2 (floor_mode has_mv : bool) mn mx mv xabs :
  gen_clip_po2 exp_rnd exp_floor exp_rnd exp_floor floor_mode false has_mv mn mx mv xabs =
  clip_po2 (if floor_mode then LFloor else LRnd) mn mx (if has_mv then Some mv else None) xabs.
Proof.
  unfold gen_clip_po2, clip_po2. destruct floor_mode, has_mv; destruct (rlt xabs eps32) eqn:E; try reflexivity;
    cbn [exp_of]; rewrite Z.mul_1_l; reflexivity.
Qed.

(* whatever the logarithm oracles return, the exponent is inside the interval (twice an exponent of it under the quadratic option) *)
Theorem gen_clip_po2_in_interval lgr lgf lgrs lgfs (floor_mode quad has_mv : bool) mn mx mv xabs : mn <= mx ->
  exists k, mn <= k <= mx /\ gen_clip_po2 lgr lgf lgrs lgfs floor_mode quad has_mv mn mx mv xabs =
                             (if quad then (if rlt xabs eps32 then k else 2 * k) else k).
Proof.
  intros H. unfold gen_clip_po2.
  destruct floor_mode, quad, has_mv; destruct (rlt xabs eps32) eqn:E;
    try (exists mn; split; [lia | reflexivity]);
    match goal with |- context [clip mn mx ?e] => exists (clip mn mx e); split; [apply clip_range; exact H | try reflexivity; lia] end.
Qed.

(* quantized_po2.__call__: the value is sign * 2^e with the sign of x, zero counted positive -- po2_val of the model *)
Theorem link_po2_xq e x : req (gen_po2_xq e x) (po2_val (sign1r x, e)) = true.
Proof.
  unfold gen_po2_xq, po2_val. cbn [fst snd].
  change (radd (rsgn x) (rsub (1, 1) (rabs (rsgn x)))) with (bcode_expr false x).
  pose proof (bcode_expr_is_bcode false x) as B.
  assert (E : bcode false x = sign1r x) by reflexivity. rewrite E in B.
  unfold req, rmul in *. cbn [rnum rden fst snd] in *. apply Z.eqb_eq in B. apply Z.eqb_eq.
  replace (rnum (bcode_expr false x) * rnum (rpow2 e) * (rden (rofZ (sign1r x)) * rden (rpow2 e)))
    with ((rnum (bcode_expr false x) * rden (rofZ (sign1r x))) * (rnum (rpow2 e) * rden (rpow2 e))) by ring.
  rewrite B. ring.
Qed.

(* ---- quantized_relu_po2.__call__ ---- *)
Lemma clip_po2_zero m mn mx mv a : rnum a = 0 -> 0 < rden a -> clip_po2 m mn mx mv a = mn.
Proof. intros H0 Hd. unfold clip_po2. replace (rlt a eps32) with true; [reflexivity|].
  unfold rlt, eps32. cbn [rnum rden fst snd]. rewrite H0. symmetry. apply Z.ltb_lt. lia. Qed.

Lemma rpow2_is_val e : req (rpow2 e) (po2_val (1, e)) = true.
Proof. unfold po2_val, req, rmul, rofZ. cbn [rnum rden fst snd]. apply Z.eqb_eq. ring. Qed.

(* the positive branch: the exponent is the clip of relu(x); for x <= 0 that is the smallest exponent *)
Lemma pos_branch_exponent m mn mx mv x : 0 < rden x ->
  clip_po2 m mn mx mv (lrelu (0, 1) x) = clip_po2 m mn mx mv (if negb (rnum x <? 0) then x else (0, 1)).
Proof.
  intros Xd. unfold lrelu, rlt. cbn [rnum rden fst snd].
  destruct (0 * rden x <? rnum x * 1) eqn:E.
  - replace (rnum x <? 0) with false by lia. reflexivity.
  - destruct (rnum x <? 0) eqn:E2; cbn [negb].
    + rewrite !clip_po2_zero; try reflexivity; unfold rmul; cbn [rnum rden fst snd]; lia.
    + rewrite !clip_po2_zero; try reflexivity; unfold rmul; cbn [rnum rden fst snd]; lia.
Qed.

(* no slope: the value is 2^e for the model's exponent, for every input *)
Theorem link_rpo2_plain bits mvo m slope x : 0 < rden x ->
  let c := RP2 bits mvo m None in
  req (gen_rpo2_xq (clip_po2 m (rpo2_min_exp bits mvo) (rpo2_max_exp bits mvo) mvo) false slope x) (po2_val (rpo2_q c x)) = true.
Proof.
  intros Xd c. unfold gen_rpo2_xq, rpo2_q, c. cbn [r_bits r_mv r_mode r_slope negb]. rewrite orb_true_r.
  rewrite pos_branch_exponent by exact Xd. apply rpow2_is_val.
Qed.

(* leaky, non-negative input: the same positive branch *)
Theorem link_rpo2_leaky_nonneg bits mvo m s slope x : 0 < rden x -> 0 <= rnum x ->
  let c := RP2 bits mvo m (Some s) in
  req (gen_rpo2_xq (clip_po2 m (rpo2_min_exp bits mvo) (rpo2_max_exp bits mvo) mvo) true slope x) (po2_val (rpo2_q c x)) = true.
Proof.
  intros Xd Xn c. unfold gen_rpo2_xq, rpo2_q, c. cbn [r_bits r_mv r_mode r_slope negb].
  replace (rle (0, 1) x) with true by (unfold rle; cbn [rnum rden fst snd]; lia). cbn [orb].
  replace (rnum x <? 0) with false by lia. cbn [negb].
  rewrite pos_branch_exponent by exact Xd. replace (rnum x <? 0) with false by lia. cbn [negb]. apply rpow2_is_val.
Qed.

(* leaky, negative input: minus a power of two whose exponent is the clip of |x| * slope *)
Theorem link_rpo2_leaky_negative clipf slope x : rnum x < 0 -> 0 < rden x ->
  gen_rpo2_xq clipf true slope x = rneg (rpow2 (clipf (rmul (rneg x) slope))).
Proof.
  intros Xn Xd. unfold gen_rpo2_xq.
  replace (rle (0, 1) x) with false by (unfold rle; cbn [rnum rden fst snd]; lia). cbn [orb negb].
  unfold lrelu. replace (rlt (0, 1) (rneg x)) with true by (unfold rlt, rneg; cbn [rnum rden fst snd]; lia). reflexivity.
Qed.

(* the unquantized surrogate: the (leaky) ReLU, bounded by max_value when one is given *)
Theorem link_rpo2_xu slope mv x :
  gen_rpo2_xu false slope mv x = lrelu slope x /\ gen_rpo2_xu true slope mv x = (if rle x mv then lrelu slope x else mv).
Proof. split; reflexivity. Qed.

(* Link/SchedLink.v -- calculate_qnoise_factor regenerated from qkeras/callbacks.py on every run is Quant.Noise.calc. *)
From Coq Require Import ZArith Bool.
From QV Require Import Base.ZQ Base.FL Quant.Noise.
From QVGen Require Import SchedGen.
Open Scope Z_scope.
Lemma link_calc pw start finish freq : gen_calc pw start finish freq = calc pw start finish freq.
Proof. reflexivity. Qed.
Lemma link_sched_ok : translation_ok = true. Proof. reflexivity. Qed.

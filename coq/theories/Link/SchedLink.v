(* Link/SchedLink.v -- calculate_qnoise_factor, update_qnoise_factor and the three hooks of QNoiseScheduler, regenerated from
   qkeras/callbacks.py on every run (coq/gen/SchedGen.v), are calc / step of Quant/Noise.v. *)
From Coq Require Import ZArith Bool List.
From QV Require Import Base.ZQ Base.FL Quant.Noise.
From QVGen Require Import SchedGen.
Open Scope Z_scope.
Lemma link_calc pw start finish freq : gen_calc pw start finish freq = calc pw start finish freq.
Proof. reflexivity. Qed.
Lemma link_sched_ok : translation_ok = true. Proof. reflexivity. Qed.
(* the hooks and update_qnoise_factor regenerated from the source, assembled into one transition, are the state machine `step`
   of Quant/Noise.v -- whatever batch / epoch index Keras passes to the hook *)
Definition hook_code (h : hook) : Z := match h with EpochBegin => 0 | BatchBegin => 1 | EpochEnd => 2 end.
Definition gen_step (pw : rat -> rat) (start finish : Z) (by_epoch : bool) (update_freq initial : Z) (s : sstate) (h : hook) (batch epoch : Z) : sstate :=
  match gen_hook_freq by_epoch (hook_code h) initial (num_iters s) batch epoch with
  | None => s
  | Some freq =>
    if gen_update_applies update_freq freq
    then let v := gen_calc pw start finish freq in SS (num_iters s + 1) (v :: applied s) (map (fun _ => v) (factors s))
    else SS (num_iters s + 1) (applied s) (factors s)
  end.
Lemma link_step pw start finish by_epoch update_freq initial s h batch epoch :
  gen_step pw start finish by_epoch update_freq initial s h batch epoch = step pw start finish by_epoch update_freq initial s h.
Proof. unfold gen_step, step, update_qnoise, gen_hook_freq, gen_update_applies, gen_calc.
  destruct h; cbn [hook_code]; change (0 =? 0) with true; change (1 =? 0) with false; change (1 =? 1) with true;
    change (2 =? 0) with false; change (2 =? 1) with false; cbv iota; destruct by_epoch; cbn [negb]; try reflexivity;
    destruct ((initial + num_iters s) mod update_freq =? 0); reflexivity. Qed.

(* Link/LayerMapLink.v -- the dense / convolution branch of generate_layer_data_type_map, regenerated on every run
   (coq/gen/LayerMapGen.v), stores for every weight / input / bias type, kernel size and option combination the multiplier and the
   accumulator of QTools/LayerMap.v: kernel accumulator over prod(kernel.shape[:-1]) terms (prod(kernel.shape[:-2]) for depthwise
   layers) without a bias term, plus the bias adder exactly when the layer has a bias. *)
From Coq Require Import ZArith Bool.
From QV Require Import Base.ZQ Base.FL QTools.Types QTools.Ops QTools.LayerMap.
From QVGen Require Import LayerMapGen.
Open Scope Z_scope.

Lemma link_layermap_ok : layermap_translation_ok = true. Proof. reflexivity. Qed.
Lemma link_layer_multiplier : forall w x, gen_layer_multiplier w x = layer_mul w x.
Proof. reflexivity. Qed.
Lemma link_layer_accumulator : forall dw ub w x b kops kdw,
  gen_layer_accumulator dw ub w x b kops kdw = layer_acc w x (if dw then kdw else kops) (if ub then Some b else None).
Proof. intros [] [] w x b kops kdw; reflexivity. Qed.

(* the auto power-of-two adjustment (qtools_util.adjust_multiplier_for_auto_po2 / adjust_accumulator_for_auto_po2) *)
Lemma link_adjust_auto_po2 : forall m mn mx, gen_adjust_auto_po2 m mn mx = adjust_auto_po2 m mn mx.
Proof. reflexivity. Qed.
Lemma link_fused_accumulator : forall dw ub w x b kops kdw mn mx,
  gen_fused_accumulator dw ub (gen_adjust_auto_po2 (gen_layer_multiplier w x) mn mx) b kops kdw =
  layer_fused_acc w x (if dw then kdw else kops) (if ub then Some b else None) mn mx.
Proof. intros [] [] w x b kops kdw mn mx; reflexivity. Qed.

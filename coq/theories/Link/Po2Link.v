(* Link/Po2Link.v -- the exponent range of quantized_po2 / quantized_relu_po2 as /repo computes it now
   (coq/gen/Po2Gen.v, regenerated from qkeras/quantizers.py on every run) is the range of Quant/Po2.v. *)
From Coq Require Import ZArith Bool Lia.
From QV Require Import Base.ZQ Base.FL Quant.Po2.
From QVGen Require Import Po2Gen.
Open Scope Z_scope.

Lemma link_po2_ok : translation_ok = true. Proof. reflexivity. Qed.
Lemma link_need_sign_bit mv : gen_need_sign_bit mv = need_sign_bit mv.
Proof. destruct mv as [v|]; reflexivity. Qed.
Lemma link_po2_exponents bits mv :
  gen_po2_exponents bits mv false = (po2_min_exp bits mv, po2_max_exp bits mv).
Proof. unfold gen_po2_exponents, gen_min_max_exponents, po2_min_exp, po2_max_exp. rewrite link_need_sign_bit. cbn [fst snd]. reflexivity. Qed.
Lemma link_rpo2_exponents bits mv :
  gen_rpo2_exponents bits mv false = (rpo2_min_exp bits mv, rpo2_max_exp bits mv).
Proof. unfold gen_rpo2_exponents, rpo2_min_exp, rpo2_max_exp. rewrite link_need_sign_bit. reflexivity. Qed.
(* quadratic_approximation: same minimum, the maximum is the largest EVEN exponent of the plain range *)
Lemma link_quadratic bits mv :
  let plain := gen_po2_exponents bits mv false in let quad := gen_po2_exponents bits mv true in
  fst quad = fst plain /\ snd quad mod 2 = 0 /\ snd plain - 1 <= snd quad <= snd plain.
Proof. unfold gen_po2_exponents, gen_min_max_exponents. cbn [fst snd]. cbv zeta.
  set (m := 2 ^ (bits - 1 - gen_need_sign_bit mv) - 1). split; [reflexivity|].
  pose proof (Z.div_mod m 2 ltac:(lia)) as D. pose proof (Z.mod_pos_bound m 2 ltac:(lia)) as B.
  split; [rewrite Z.mul_comm; apply Z.mod_mul; lia | lia]. Qed.
Lemma link_quadratic_relu bits mv :
  let plain := gen_rpo2_exponents bits mv false in let quad := gen_rpo2_exponents bits mv true in
  fst quad = fst plain /\ snd quad mod 2 = 0 /\ snd plain - 1 <= snd quad <= snd plain.
Proof. unfold gen_rpo2_exponents. cbn [fst snd]. cbv zeta.
  set (m := 2 ^ (bits - gen_need_sign_bit mv) - 1). split; [reflexivity|].
  pose proof (Z.div_mod m 2 ltac:(lia)) as D. pose proof (Z.mod_pos_bound m 2 ltac:(lia)) as B.
  split; [rewrite Z.mul_comm; apply Z.mod_mul; lia | lia]. Qed.

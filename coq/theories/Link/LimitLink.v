(* Link/LimitLink.v -- _adjust_limit and the two class lists, regenerated from qkeras/autoqkeras/autoqkeras_internal.py on
   every run (coq/gen/LimitGen.v), are pad_limit of AutoQ/Limits.v and the lists of AutoQ/Search.v. *)
From Coq Require Import String List Arith Bool Lia.
From QV Require Import AutoQ.Limits AutoQ.Search.
From QVGen Require Import LimitGen.
Import ListNotations.
Open Scope string_scope.

Lemma link_limit_ok : translation_ok = true. Proof. reflexivity. Qed.
Lemma link_pad_limit (A : Type) (seq : bool) (dflt l : list A) : gen_pad_limit seq dflt l = pad_limit seq dflt l.
Proof. unfold gen_pad_limit, pad_limit. cbv zeta. destruct seq; rewrite ?andb_true_r, ?andb_false_r.
  - destruct (Nat.ltb (length l) 4) eqn:E4; [reflexivity|].
    destruct (Nat.ltb (length l) 3) eqn:E3; [|reflexivity].
    apply Nat.ltb_ge in E4. apply Nat.ltb_lt in E3. lia.
  - reflexivity. Qed.
Lemma link_registered : gen_registered = registered. Proof. reflexivity. Qed.
Lemma link_sequence : gen_sequence = sequence_layers. Proof. reflexivity. Qed.
Lemma link_scalar_default (A : Type) (d : A) : length (gen_scalar_default d) = 3 /\
  d_kernel (gen_scalar_default d) = Some d /\ d_bias (gen_scalar_default d) = Some d /\ d_act (gen_scalar_default d) = Some d.
Proof. repeat split. Qed.

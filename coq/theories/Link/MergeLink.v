(* Link/MergeLink.v -- the merge-layer type rules regenerated from qkeras/qtools/quantized_operators/merge_factory.py on every run
   (coq/gen/MergeGen.v: Add.__init__ and Maximum.__init__ as folds over the operand list, the factory table, the classes that only
   call their base constructor) are, for EVERY operand list, merge_add / merge_max of QTools/Ops.v. *)
From Coq Require Import ZArith List Bool String Lia.
From QV Require Import Base.ZQ Base.FL QTools.Types QTools.Ops Link.QToolsLink.
From QVGen Require Import QToolsOps MergeGen.
Open Scope Z_scope. Import ListNotations.

Lemma link_merge_ok : merge_translation_ok = true. Proof. reflexivity. Qed.

Lemma gt_max a b : (if a >? b then a else b) = Z.max b a.
Proof. destruct (a >? b) eqn:E; lia. Qed.

Definition model_step := (fun '(mb, mi, sg, fp, fb) (q : qt) =>
               if q_fp q then (mb, mi, sg || q_sgn q, true, Z.max fb (q_bits q))
               else let t := as_qbits q in
                    (Z.max mb (q_bits t), Z.max mi (q_int t), sg || q_sgn q, fp, fb)).
Definition perm (s : Z * Z * bool * bool * Z) : bool * Z * Z * Z * bool := let '(mb, mi, sg, fp, fb) := s in (fp, fb, mb, mi, sg).

Lemma add_step_sim mb mi sg fp fb q : gen_add_step1 (fp, fb, mb, mi, sg) q = perm (model_step (mb, mi, sg, fp, fb) q).
Proof. unfold gen_add_step1, model_step, perm, as_qbits. rewrite link_po2_qbits_converter.
  destruct (q_fp q); [reflexivity|]. cbv zeta. rewrite !gt_max. reflexivity. Qed.
Lemma max_step_sim mb mi sg fp fb q : gen_max_step1 (fp, fb, mb, mi, sg) q = perm (model_step (mb, mi, sg, fp, fb) q).
Proof. unfold gen_max_step1, model_step, perm, as_qbits. rewrite link_po2_qbits_converter.
  destruct (q_fp q); [reflexivity|]. cbv zeta. rewrite !gt_max. reflexivity. Qed.

Lemma add_fold_sim qs : forall s, fold_left gen_add_step1 qs (perm s) = perm (fold_left model_step qs s).
Proof. induction qs as [|q qs IH]; intros s; [reflexivity|]. cbn [fold_left]. destruct s as [[[[mb mi] sg] fp] fb].
  unfold perm at 1. rewrite add_step_sim. apply IH. Qed.
Lemma max_fold_sim qs : forall s, fold_left gen_max_step1 qs (perm s) = perm (fold_left model_step qs s).
Proof. induction qs as [|q qs IH]; intros s; [reflexivity|]. cbn [fold_left]. destruct s as [[[[mb mi] sg] fp] fb].
  unfold perm at 1. rewrite max_step_sim. apply IH. Qed.

Lemma scan_is_fold qs : merge_scan qs = fold_left model_step qs (-1, -1, false, false, 0).
Proof. reflexivity. Qed.

Lemma qbits_defaults a b c : set_po2 (set_fp (set_mode (set_sgn (set_int (set_bits mkQuantizedBits a) b) c) 0) false) false =
  set_sgn (set_int (set_bits mkQuantizedBits a) b) c.
Proof. reflexivity. Qed.

(* Add: the output type of an n-input addition *)
Theorem link_merge_add : forall qs, gen_merge_add qs = merge_add qs.
Proof. intros qs. unfold gen_merge_add, merge_add. rewrite scan_is_fold.
  change (false, 0, -1, -1, false) with (perm (-1, -1, false, false, 0)). rewrite add_fold_sim.
  destruct (fold_left model_step qs (-1, -1, false, false, 0)) as [[[[mb mi] sg] fp] fb]. unfold perm.
  rewrite qbits_defaults. reflexivity. Qed.

Lemma forallb_ext' {A} (f g : A -> bool) l : (forall x, f x = g x) -> forallb f l = forallb g l.
Proof. intros H. induction l as [|x l IH]; [reflexivity|]. cbn [forallb]. rewrite H, IH. reflexivity. Qed.

Lemma same_type_gen q0 c :
  negb (negb (name_code (q_name q0) =? name_code (q_name c)) || negb (q_bits q0 =? q_bits c) || negb (q_int q0 =? q_int c) || negb (Bool.eqb (q_sgn q0) (q_sgn c))) =
  same_type q0 c.
Proof. unfold same_type. destruct (name_code (q_name q0) =? name_code (q_name c)), (q_bits q0 =? q_bits c), (q_int q0 =? q_int c), (Bool.eqb (q_sgn q0) (q_sgn c)); reflexivity. Qed.

(* Maximum (and Minimum, Average, Concatenate, which only call it): the common type when all operands agree, else the enclosing one *)
Theorem link_merge_max : forall qs, gen_merge_max qs = merge_max qs.
Proof. intros qs. unfold gen_merge_max, merge_max. destruct qs as [|q0 rest]; [reflexivity|]. cbn [hd tl].
  rewrite (forallb_ext' _ (same_type q0)) by (intros c; apply same_type_gen).
  destruct (forallb (same_type q0) rest); [reflexivity|]. rewrite scan_is_fold.
  change (false, 0, -1, -1, false) with (perm (-1, -1, false, false, 0)). rewrite max_fold_sim.
  destruct (fold_left model_step (q0 :: rest) (-1, -1, false, false, 0)) as [[[[mb mi] sg] fp] fb]. unfold perm.
  rewrite qbits_defaults. reflexivity. Qed.

(* the factory: every layer type is sized by the class of its own name; Minimum / Average / Concatenate only call Maximum's constructor *)
Theorem link_merge_table :
  gen_merge_table = [("Add", "Add"); ("Multiply", "Multiply"); ("Maximum", "Maximum"); ("Minimum", "Minimum"); ("Average", "Average");
                     ("Concatenate", "Concatenate"); ("Dot", "Dot")]%string /\
  gen_merge_bases = [("Minimum", "Maximum"); ("Average", "Maximum"); ("Concatenate", "Maximum")]%string.
Proof. split; reflexivity. Qed.

(* Link/LinAutoLink.v -- quantized_linear with alpha = "auto": the scale _get_quantization_scale_from_max_data computes
   (regenerated in coq/gen/LinGen.v) never saturates by more than rounding.  For every multi-bit signed configuration, every
   group maximum dmax > 0 and every element |x| <= dmax:  x / scale lies in [lo, hi + 1/2], so the emitted code is within half
   a quantization step of x -- the only loss is rounding (and, for the asymmetric format, the half step by which the largest
   magnitude exceeds the top code).  Unsigned: every 0 <= x <= dmax has x / scale <= hi. *)
From Coq Require Import ZArith Bool Lia ZifyBool.
From QV Require Import Base.ZQ Base.FL Quant.Fixed Quant.FixedThm Quant.LinearThm Link.LinLink.
From QVGen Require Import LinGen.
Open Scope Z_scope.

Lemma auto_bound xn xd dn dd sn sd R : 0 < xd -> 0 < dd -> 0 < sd -> 0 < sn -> 0 < dn -> 0 < R ->
  Z.abs xn * dd <= dn * xd -> 2 * dn * sd <= sn * dd * R -> 2 * Z.abs xn * sd <= R * xd * sn.
Proof.
  intros Hxd Hdd Hsd Hsn Hdn HR H1 H2.
  assert (A : (2 * Z.abs xn * sd) * dd <= (2 * dn * sd) * xd) by nia.
  assert (B : (2 * dn * sd) * xd <= (sn * dd * R) * xd) by (apply Z.mul_le_mono_nonneg_r; lia).
  assert (C : (2 * Z.abs xn * sd) * dd <= (R * xd * sn) * dd) by nia.
  apply (Z.mul_le_mono_pos_r _ _ dd); assumption.
Qed.

(* the scale before the epsilon floor, signed formats: 2 * dmax / (hi - lo) *)
Definition auto_s0 (c : qlin) (dmax : rat) : rat := rdiv (rmul dmax (rofZ 2)) (rsub (rofZ (ql_hi c)) (rofZ (ql_lo c))).

Lemma gen_auto_scale_signed c dmax_abs dmax : ql_sign c = false -> 0 <= ql_ub c -> ql_kn c = true ->
  gen_ql_auto_scale (ql_bits c) (ql_kn c) (ql_sym c) dmax_abs dmax = rmax (auto_s0 c dmax_abs) (1, 10000000).
Proof.
  intros S U K.
  assert (E : gen_ql_auto_scale (ql_bits c) (ql_kn c) (ql_sym c) dmax_abs dmax =
    rmax (if ql_kn c then rdiv (rmul dmax_abs (rofZ 2)) (rsub (gen_ql_clip_max (ql_bits c) (ql_kn c) (ql_sym c)) (gen_ql_clip_min (ql_bits c) (ql_kn c) (ql_sym c)))
          else rdiv dmax (rsub (gen_ql_clip_max (ql_bits c) (ql_kn c) (ql_sym c)) (gen_ql_clip_min (ql_bits c) (ql_kn c) (ql_sym c)))) (1, 10000000)) by reflexivity.
  rewrite E. rewrite link_ql_clip_min, link_ql_clip_max by assumption. rewrite K. reflexivity.
Qed.
Lemma gen_auto_scale_unsigned c dmax_abs dmax : ql_sign c = false -> 0 <= ql_ub c -> ql_kn c = false ->
  gen_ql_auto_scale (ql_bits c) (ql_kn c) (ql_sym c) dmax_abs dmax =
  rmax (rdiv dmax (rsub (rofZ (ql_hi c)) (rofZ (ql_lo c)))) (1, 10000000).
Proof.
  intros S U K.
  assert (E : gen_ql_auto_scale (ql_bits c) (ql_kn c) (ql_sym c) dmax_abs dmax =
    rmax (if ql_kn c then rdiv (rmul dmax_abs (rofZ 2)) (rsub (gen_ql_clip_max (ql_bits c) (ql_kn c) (ql_sym c)) (gen_ql_clip_min (ql_bits c) (ql_kn c) (ql_sym c)))
          else rdiv dmax (rsub (gen_ql_clip_max (ql_bits c) (ql_kn c) (ql_sym c)) (gen_ql_clip_min (ql_bits c) (ql_kn c) (ql_sym c)))) (1, 10000000)) by reflexivity.
  rewrite E. rewrite link_ql_clip_min, link_ql_clip_max by assumption. rewrite K. reflexivity.
Qed.

Lemma range_pos c : ql_kn c = true -> 1 <= ql_ub c -> 0 < ql_hi c - ql_lo c /\ 1 <= ql_hi c /\ (ql_lo c = - ql_hi c \/ ql_lo c = - ql_hi c - 1).
Proof.
  intros K U. unfold ql_hi, ql_lo. rewrite K. cbn [b2z].
  assert (2 <= 2 ^ ql_ub c). { change 2 with (2 ^ 1) at 1. apply Z.pow_le_mono_r; lia. }
  destruct (ql_sym c); cbn [b2z]; lia.
Qed.

(* signed: |x| <= dmax  ==>  2 |x / s| <= hi - lo *)
Theorem auto_scale_covers_the_group c dmax_abs dmax x :
  ql_sign c = false -> 1 <= ql_ub c -> ql_kn c = true -> 0 < rnum dmax_abs -> 0 < rden dmax_abs -> 0 < rden x ->
  rle (rabs x) dmax_abs = true ->
  let s := gen_ql_auto_scale (ql_bits c) (ql_kn c) (ql_sym c) dmax_abs dmax in
  let p := rdiv x s in
  0 < rnum s /\ 0 < rden s /\ 0 < rden p /\ 2 * Z.abs (rnum p) <= (ql_hi c - ql_lo c) * rden p.
Proof.
  intros S U K Dn Dd Xd Hx. cbv zeta. destruct (range_pos c K U) as [R [H1 _]].
  rewrite gen_auto_scale_signed by (assumption || lia).
  set (s0 := auto_s0 c dmax_abs) in *.
  assert (S0 : rnum s0 = rnum dmax_abs * 2 * (1 * 1) /\ rden s0 = rden dmax_abs * 1 * (ql_hi c * 1 + - ql_lo c * 1)).
  { unfold s0, auto_s0, rdiv, rinv, rmul, rsub, radd, rneg, rofZ. cbn [rnum rden fst snd].
    replace (0 <? ql_hi c * 1 + - ql_lo c * 1) with true by lia. cbn [rnum rden fst snd]. split; reflexivity. }
  destruct S0 as [S0n S0d].
  assert (P0 : 0 < rnum s0 /\ 0 < rden s0) by (rewrite S0n, S0d; split; nia).
  set (s := rmax s0 (1, 10000000)) in *.
  assert (Ps : 0 < rnum s /\ 0 < rden s /\ rnum s0 * rden s <= rnum s * rden s0).
  { unfold s, rmax, rlt. cbn [rnum rden fst snd]. destruct (rnum s0 * 10000000 <? 1 * rden s0) eqn:E; cbn [rnum rden fst snd]; lia. }
  destruct Ps as [Sn [Sd Ge]]. set (p := rdiv x s).
  assert (Pp : rnum p = rnum x * rden s /\ rden p = rden x * rnum s).
  { unfold p, rdiv, rinv, rmul. replace (0 <? rnum s) with true by lia. cbn [rnum rden fst snd]. split; reflexivity. }
  destruct Pp as [Pn Pd]. repeat split; try assumption; [rewrite Pd; nia|].
  rewrite Pn, Pd. rewrite Z.abs_mul, (Z.abs_eq (rden s)) by lia.
  unfold rle, rabs in Hx. cbn [rnum rden fst snd] in Hx.
  pose proof (auto_bound (rnum x) (rden x) (rnum dmax_abs) (rden dmax_abs) (rnum s) (rden s) (ql_hi c - ql_lo c)
                Xd Dd Sd Sn Dn R ltac:(lia)) as B.
  rewrite S0n, S0d in Ge.
  assert (G : 2 * rnum dmax_abs * rden s <= rnum s * rden dmax_abs * (ql_hi c - ql_lo c)) by nia.
  specialize (B G). nia.
Qed.

(* hence the emitted code is within half a quantization step of x: the auto scale loses nothing but rounding *)
Theorem auto_scale_code_within_half_a_step c dmax_abs dmax x :
  ql_sign c = false -> 1 <= ql_ub c -> ql_kn c = true -> 0 < rnum dmax_abs -> 0 < rden dmax_abs -> 0 < rden x ->
  rle (rabs x) dmax_abs = true ->
  let s := gen_ql_auto_scale (ql_bits c) (ql_kn c) (ql_sym c) dmax_abs dmax in
  let p := rdiv x s in
  let code := rround (rclip (rofZ (ql_lo c)) (rofZ (ql_hi c)) p) in
  ql_lo c <= code <= ql_hi c /\ 2 * Z.abs (code * rden p - rnum p) <= rden p.
Proof.
  intros S U K Dn Dd Xd Hx. cbv zeta.
  pose proof (auto_scale_covers_the_group c dmax_abs dmax x S U K Dn Dd Xd Hx) as H. cbv zeta in H.
  set (p := rdiv x (gen_ql_auto_scale (ql_bits c) (ql_kn c) (ql_sym c) dmax_abs dmax)) in *. clearbody p.
  destruct H as [Sn [Sd [Pd B]]].
  destruct (range_pos c K U) as [R [H1 Hlo]].
  unfold rclip, rmax, rmin, rlt, rofZ, rround. cbn [rnum rden fst snd]. destruct p as [pn pd]. cbn [rnum rden fst snd] in *.
  destruct (pn * 1 <? ql_lo c * pd) eqn:E1; cbn [rnum rden fst snd].
  - (* below lo: impossible *) exfalso. destruct Hlo as [L|L]; rewrite L in *; nia.
  - destruct (ql_hi c * pd <? pn * 1) eqn:E2; cbn [rnum rden fst snd].
    + (* above hi: by at most half a step *)
      assert (Hr : rhe (ql_hi c) 1 = ql_hi c) by (pose proof (rhe_int (ql_hi c) 1 ltac:(lia)) as T; rewrite Z.mul_1_r in T; exact T).
      rewrite Hr. split; [lia|].
      destruct Hlo as [L|L]; rewrite L in *; nia.
    + pose proof (rhe_half pn pd Pd). pose proof (rhe_mono_frac (ql_lo c * pd) pd pn pd ltac:(lia) ltac:(lia) ltac:(nia)).
      pose proof (rhe_mono_frac pn pd (ql_hi c * pd) pd ltac:(lia) ltac:(lia) ltac:(nia)).
      rewrite rhe_int in * by lia. split; [lia|assumption].
Qed.

(* unsigned formats: the largest element is mapped onto the top code, nothing non-negative is clipped *)
Theorem auto_scale_unsigned_covers c dmax_abs dmax x :
  ql_sign c = false -> 1 <= ql_ub c -> ql_kn c = false -> 0 < rnum dmax -> 0 < rden dmax -> 0 < rden x ->
  rle x dmax = true ->
  let s := gen_ql_auto_scale (ql_bits c) (ql_kn c) (ql_sym c) dmax_abs dmax in
  let p := rdiv x s in
  0 < rnum s /\ 0 < rden s /\ 0 < rden p /\ rnum p <= ql_hi c * rden p.
Proof.
  intros S U K Dn Dd Xd Hx. cbv zeta.
  assert (Hh : 1 <= ql_hi c /\ ql_lo c = 0).
  { unfold ql_hi, ql_lo. rewrite K. cbn [b2z]. assert (2 <= 2 ^ ql_ub c). { change 2 with (2 ^ 1) at 1. apply Z.pow_le_mono_r; lia. } lia. }
  destruct Hh as [H1 L0].
  rewrite gen_auto_scale_unsigned by (assumption || lia). rewrite L0 in *.
  set (s0 := rdiv dmax (rsub (rofZ (ql_hi c)) (rofZ 0))) in *.
  assert (S0 : rnum s0 = rnum dmax * (1 * 1) /\ rden s0 = rden dmax * (ql_hi c * 1 + - 0 * 1)).
  { unfold s0, rdiv, rinv, rmul, rsub, radd, rneg, rofZ. cbn [rnum rden fst snd].
    replace (0 <? ql_hi c * 1 + - 0 * 1) with true by lia. cbn [rnum rden fst snd]. split; reflexivity. }
  destruct S0 as [S0n S0d].
  set (s := rmax s0 (1, 10000000)) in *.
  assert (Ps : 0 < rnum s /\ 0 < rden s /\ rnum s0 * rden s <= rnum s * rden s0).
  { unfold s, rmax, rlt. cbn [rnum rden fst snd]. destruct (rnum s0 * 10000000 <? 1 * rden s0) eqn:E; cbn [rnum rden fst snd]; rewrite ?S0n, ?S0d in *; nia. }
  destruct Ps as [Sn [Sd Ge]]. set (p := rdiv x s).
  assert (Pp : rnum p = rnum x * rden s /\ rden p = rden x * rnum s).
  { unfold p, rdiv, rinv, rmul. replace (0 <? rnum s) with true by lia. cbn [rnum rden fst snd]. split; reflexivity. }
  destruct Pp as [Pn Pd]. repeat split; try assumption; [rewrite Pd; nia|].
  rewrite Pn, Pd. unfold rle in Hx. rewrite S0n, S0d in Ge.
  (* x * dd <= dn * xd ; dn * sd <= sn * dd * hi  ==>  xn * sd <= hi * xd * sn *)
  assert (A : (rnum x * rden s) * rden dmax <= (rnum dmax * rden s) * rden x) by nia.
  assert (B : (rnum dmax * rden s) * rden x <= (rnum s * rden dmax * ql_hi c) * rden x) by (apply Z.mul_le_mono_nonneg_r; nia).
  assert (C : (rnum x * rden s) * rden dmax <= (ql_hi c * (rden x * rnum s)) * rden dmax) by nia.
  apply (Z.mul_le_mono_pos_r _ _ (rden dmax)); assumption.
Qed.

Example auto_scale_nonvacuous :
  let c := QL 4 0 false true in
  let s := gen_ql_auto_scale 4 true false (3, 2) (3, 2) in
  req s (1, 5) = true /\ rround (rclip (rofZ (ql_lo c)) (rofZ (ql_hi c)) (rdiv (3, 2) s)) = 7 /\
  rround (rclip (rofZ (ql_lo c)) (rofZ (ql_hi c)) (rdiv (-3, 2) s)) = -8.
Proof. vm_compute. repeat split; reflexivity. Qed.

(* Link/ReluCallLink.v -- quantized_relu.__call__ (no sigmoid option) as regenerated on every run (coq/gen/ReluCallGen.v):
   * the bound of the unquantized surrogate under is_quantized_clip is 2^integer - 2^(integer - non-sign bits), the largest code
     (the model's qr_act uses exactly this bound) -- for the plain and the leaky form;
   * for the plain ReLU (negative_slope = 0) and for the leaky ReLU with negative_slope = 2^-s (0 <= s <= non-sign bits) the
     quantized value xq IS the model value qr_val of Quant/Fixed.v, for every configuration (bits, integer, is_quantized_clip,
     relu_upper_bound given or not) and every rational input. *)
From Coq Require Import ZArith Bool Lia ZifyBool.
From QV Require Import Base.ZQ Base.FL Quant.Fixed Quant.FixedThm Quant.Po2Thm Quant.ReluSrc Link.QBitsLink.
From QVGen Require Import ReluCallGen.
Open Scope Z_scope.

Lemma link_relucall_ok : relucall_translation_ok = true.
Proof. reflexivity. Qed.

Definition leaky_of (c : qrelu) : bool := match qr_slope c with Some _ => true | None => false end.
Lemma nsb_leaky c : qr_bits c - b2z (leaky_of c) = qr_nsb c.
Proof. unfold leaky_of, qr_nsb. destruct (qr_slope c); reflexivity. Qed.

(* the surrogate's bound *)
Lemma link_qr_top c : gen_qr_top (qr_bits c) (qr_int c) (leaky_of c) = rsub (rpow2 (qr_int c)) (rpow2 (qr_se c)).
Proof. unfold gen_qr_top. rewrite nsb_leaky. reflexivity. Qed.
Lemma link_qr_xu_clipped c has_rub slope rub x :
  gen_qr_xu (qr_bits c) (qr_int c) (leaky_of c) true has_rub slope rub x =
  let top := rsub (rpow2 (qr_int c)) (rpow2 (qr_se c)) in if rle x top then lrelu slope x else top.
Proof. unfold gen_qr_xu. rewrite nsb_leaky. reflexivity. Qed.
Lemma link_qr_xu_unclipped c slope rub x :
  gen_qr_xu (qr_bits c) (qr_int c) (leaky_of c) false true slope rub x = (if rle x rub then lrelu slope x else rub) /\
  gen_qr_xu (qr_bits c) (qr_int c) (leaky_of c) false false slope rub x = lrelu slope x.
Proof. split; reflexivity. Qed.

(* m_i * y with y = c / 2^n is c * 2^(i - n) *)
Lemma scale_back i n c y : 0 <= n -> 0 < rden y -> rnum y * 2 ^ n = c * rden y ->
  req (rmul (rpow2 i) y) (rscale (rofZ c) (i - n)) = true.
Proof.
  intros Hn Yd H. assert (Pn : 0 < 2 ^ n) by (apply Z.pow_pos_nonneg; lia).
  destruct y as [yn yd]. cbn [rnum rden fst snd] in *.
  destruct (Z_lt_le_dec i 0) as [Ni|Pi].
  - rewrite (rpow2_neg i Ni). unfold req, rmul, rscale, rofZ, sc_num, sc_den. cbn [rnum rden fst snd].
    replace (0 <=? i - n) with false by lia. apply Z.eqb_eq.
    assert (P : 2 ^ (- (i - n)) = 2 ^ (- i) * 2 ^ n) by (rewrite <- q2add by lia; f_equal; lia). rewrite P.
    replace (1 * yn * (1 * (2 ^ (- i) * 2 ^ n))) with ((yn * 2 ^ n) * 2 ^ (- i)) by ring. rewrite H. ring.
  - rewrite (rpow2_nn i Pi). unfold req, rmul, rscale, rofZ, sc_num, sc_den. cbn [rnum rden fst snd].
    destruct (0 <=? i - n) eqn:E; apply Z.eqb_eq.
    + assert (P : 2 ^ i = 2 ^ (i - n) * 2 ^ n) by (rewrite <- q2add by lia; f_equal; lia). rewrite P.
      replace (1 * (2 ^ (i - n) * 2 ^ n) * yn * 1) with ((yn * 2 ^ n) * 2 ^ (i - n)) by ring. rewrite H. ring.
    + assert (P : 2 ^ n = 2 ^ i * 2 ^ (- (i - n))) by (rewrite <- q2add by lia; f_equal; lia).
      replace (1 * 2 ^ i * yn * (1 * 2 ^ (- (i - n)))) with (yn * (2 ^ i * 2 ^ (- (i - n)))) by ring. rewrite <- P. rewrite H. ring.
Qed.

(* clip(r / m, 0, 1 - 1/m) is clip(r, 0, m - 1) / m *)
Lemma clip_frac r n : 0 <= n ->
  let y := rclip (0, 1) (rsub (1, 1) (rdiv (1, 1) (rpow2 n))) (rdiv (rofZ r) (rpow2 n)) in
  0 < rden y /\ rnum y * 2 ^ n = clip 0 (2 ^ n - 1) r * rden y.
Proof.
  intros Hn. cbv zeta. rewrite (rpow2_nn n Hn). assert (Pn : 0 < 2 ^ n) by (apply Z.pow_pos_nonneg; lia).
  unfold rdiv, rinv. cbn [rnum rden fst snd]. replace (0 <? 1 * 2 ^ n) with true by lia.
  unfold rclip, rmin, rmax, rlt, rsub, radd, rneg, rmul, rofZ, clip. cbn [rnum rden fst snd].
  destruct (r * 1 * 1 <? 0 * (1 * (1 * 2 ^ n))) eqn:E1; cbn [rnum rden fst snd].
  - destruct ((1 * (1 * (1 * 2 ^ n)) + - (1 * 1) * 1) * 1 <? 0 * (1 * (1 * (1 * 2 ^ n)))) eqn:E2; cbn [rnum rden fst snd]; [lia|].
    split; [lia|]. replace (Z.min (2 ^ n - 1) (Z.max 0 r)) with 0 by lia. lia.
  - destruct ((1 * (1 * (1 * 2 ^ n)) + - (1 * 1) * 1) * (1 * (1 * 2 ^ n)) <? r * 1 * (1 * (1 * (1 * 2 ^ n)))) eqn:E2; cbn [rnum rden fst snd].
    + split; [lia|]. replace (Z.min (2 ^ n - 1) (Z.max 0 r)) with (2 ^ n - 1) by nia. ring.
    + split; [lia|]. replace (Z.min (2 ^ n - 1) (Z.max 0 r)) with r by nia. ring.
Qed.

Lemma rle_req_l a b u : req a b = true -> 0 < rden a -> 0 < rden b -> 0 < rden u -> rle a u = rle b u.
Proof.
  unfold req, rle. intros H Ha Hb Hu. apply Z.eqb_eq in H.
  destruct (rnum a * rden u <=? rnum u * rden a) eqn:E1; destruct (rnum b * rden u <=? rnum u * rden b) eqn:E2; try reflexivity.
  - exfalso. assert (rnum a * rden u * rden b <= rnum u * rden a * rden b) by nia.
    assert (rnum b * rden a * rden u <= rnum u * rden a * rden b) by nia. nia.
  - exfalso. assert (rnum b * rden u * rden a <= rnum u * rden b * rden a) by nia.
    assert (rnum a * rden b * rden u <= rnum u * rden b * rden a) by nia. nia.
Qed.

Theorem link_qr_xq_plain c (has_rub : bool) slope rub x :
  qr_slope c = None -> 0 <= qr_nsb c -> 0 < rden x -> 0 < rden rub ->
  qr_rub c = (if has_rub : bool then Some rub else None) ->
  req (gen_qr_xq (qr_bits c) (qr_int c) false (qr_qclip c) has_rub slope rub x) (qr_val c x) = true.
Proof.
  intros Sl Hn Xd Ud Hr.
  assert (N : qr_bits c - b2z false = qr_nsb c) by (unfold qr_nsb; rewrite Sl; reflexivity).
  set (core := rmul (rpow2 (qr_int c)) (rclip (0, 1) (rsub (1, 1) (rdiv (1, 1) (rpow2 (qr_nsb c))))
                 (rdiv (rofZ (rround (rdiv (rmul x (rpow2 (qr_nsb c))) (rpow2 (qr_int c))))) (rpow2 (qr_nsb c))))).
  assert (G : gen_qr_xq (qr_bits c) (qr_int c) false (qr_qclip c) has_rub slope rub x =
              if has_rub && negb (qr_qclip c) then (if rle core rub then core else rub) else core).
  { unfold gen_qr_xq, core. rewrite N. reflexivity. }
  rewrite G. clear G.
  set (v := rscale (rofZ (qr_code c (rnum x) (rden x))) (qr_se c)).
  assert (Cv : req core v = true /\ 0 < rden core).
  { unfold core, v. destruct x as [a b]. cbn [rnum rden fst snd] in *. rewrite round_p by lia.
    set (r := rhe _ _).
    destruct (clip_frac r (qr_nsb c) Hn) as [Yd Ye]. set (y := rclip _ _ _) in *.
    split.
    - unfold qr_code, qr_se. rewrite Sl. unfold qr_hi. fold r. apply scale_back; assumption.
    - unfold rmul. cbn [rden snd]. assert (0 < rden (rpow2 (qr_int c))) by (unfold rpow2; cbn [rden snd]; apply sc_den_pos; lia). nia. }
  destruct Cv as [Cv Cd].
  assert (Vd : 0 < rden v) by (unfold v, rscale; cbn [rden snd]; apply sc_den_pos; cbn; lia).
  unfold qr_val. fold v. rewrite Hr. destruct has_rub; cbn [andb].
  - destruct (qr_qclip c); cbn [negb]; [exact Cv|].
    unfold rmin. rewrite (rle_req_l core v rub Cv Cd Vd Ud).
    assert (Q : rlt rub v = negb (rle v rub)) by (unfold rlt, rle; lia). rewrite Q.
    destruct (rle v rub); cbn [negb]; [exact Cv | unfold req; lia].
  - exact Cv.
Qed.

(* ------------------------------------------------------------------------------------------------------------------ *)
(* the leaky form: negative_slope = 2^-s given as the rational (1, 2^s), 0 <= s <= non-sign bits                        *)
Lemma rden_rmul a b : rden (rmul a b) = rden a * rden b. Proof. reflexivity. Qed.
Lemma rnum_rmul a b : rnum (rmul a b) = rnum a * rnum b. Proof. reflexivity. Qed.
Lemma rmul_assoc' p s y : rmul (rmul p s) y = rmul p (rmul s y).
Proof. unfold rmul. cbn [rnum rden fst snd]. f_equal; ring. Qed.

Lemma round_p2 a b n i s : 0 < b -> 0 <= n -> 0 <= s ->
  rround (rmul (rdiv (rmul (a, b) (rpow2 n)) (rpow2 i)) (1, 2 ^ s)) = rhe (sc_num a (n - i - s)) (sc_den b (n - i - s)).
Proof.
  intros Hb Hn Hs. rewrite (rpow2_nn n Hn).
  assert (Pn : 0 < 2 ^ n) by (apply Z.pow_pos_nonneg; lia). assert (Ps : 0 < 2 ^ s) by (apply Z.pow_pos_nonneg; lia).
  destruct (Z_lt_le_dec i 0) as [Ni|Pi].
  - rewrite (rpow2_neg i Ni). assert (Pi' : 0 < 2 ^ (- i)) by (apply Z.pow_pos_nonneg; lia).
    unfold rround, rdiv, rinv, rmul. cbn [rnum rden fst snd]. replace (0 <? 1) with true by lia. cbn [rnum rden fst snd].
    apply rhe_ext; [nia | apply sc_den_pos; exact Hb |].
    unfold sc_num, sc_den. destruct (0 <=? n - i - s) eqn:E.
    + assert (P : 2 ^ n * 2 ^ (- i) = 2 ^ (n - i - s) * 2 ^ s) by (rewrite <- !q2add by lia; f_equal; lia).
      replace (a * (1 * 2 ^ n) * (1 * 2 ^ (- i)) * 1 * b) with (a * b * (2 ^ n * 2 ^ (- i))) by ring. rewrite P. ring.
    + assert (P : 2 ^ n * 2 ^ (- i) * 2 ^ (- (n - i - s)) = 2 ^ s) by (rewrite <- !q2add by lia; f_equal; lia).
      replace (a * (1 * 2 ^ n) * (1 * 2 ^ (- i)) * 1 * (b * 2 ^ (- (n - i - s)))) with (a * b * (2 ^ n * 2 ^ (- i) * 2 ^ (- (n - i - s)))) by ring.
      rewrite P. ring.
  - rewrite (rpow2_nn i Pi). assert (Pi' : 0 < 2 ^ i) by (apply Z.pow_pos_nonneg; lia).
    unfold rround, rdiv, rinv, rmul. cbn [rnum rden fst snd]. replace (0 <? 1 * 2 ^ i) with true by lia. cbn [rnum rden fst snd].
    apply rhe_ext; [nia | apply sc_den_pos; exact Hb |].
    unfold sc_num, sc_den. destruct (0 <=? n - i - s) eqn:E.
    + assert (P : 2 ^ n = 2 ^ (n - i - s) * 2 ^ i * 2 ^ s) by (rewrite <- !q2add by lia; f_equal; lia).
      rewrite P. ring.
    + assert (P : 2 ^ n * 2 ^ (- (n - i - s)) = 2 ^ i * 2 ^ s) by (rewrite <- !q2add by lia; f_equal; lia).
      replace (a * (1 * 2 ^ n) * 1 * 1 * (b * 2 ^ (- (n - i - s)))) with (a * b * (2 ^ n * 2 ^ (- (n - i - s)))) by ring. rewrite P. ring.
Qed.

(* clip(r * 2^s / 2^n, -1, 0) is clip(r, -2^(n-s), 0) / 2^(n-s) *)
Lemma clip_neg r n s : 0 <= s <= n ->
  let y := rclip (rneg (1, 1)) (0, 1) (rmul (rofZ r) (rdiv (rofZ 1) (rmul (1, 2 ^ s) (rpow2 n)))) in
  0 < rden y /\ rnum y * 2 ^ (n - s) = clip (- 2 ^ (n - s)) 0 r * rden y.
Proof.
  intros [Hs Hn]. cbv zeta. rewrite (rpow2_nn n ltac:(lia)).
  assert (Pn : 0 < 2 ^ n) by (apply Z.pow_pos_nonneg; lia). assert (Ps : 0 < 2 ^ s) by (apply Z.pow_pos_nonneg; lia).
  assert (Pd : 0 < 2 ^ (n - s)) by (apply Z.pow_pos_nonneg; lia).
  assert (P : 2 ^ n = 2 ^ (n - s) * 2 ^ s) by (rewrite <- q2add by lia; f_equal; lia).
  unfold rdiv, rinv, rmul, rofZ. cbn [rnum rden fst snd]. replace (0 <? 1 * (1 * 2 ^ n)) with true by lia. cbn [rnum rden fst snd].
  unfold rclip, rmin, rmax, rlt, rneg, clip. cbn [rnum rden fst snd].
  match goal with |- context [if ?c then (- (1), 1) else _] => destruct c eqn:E1 end; cbn [rnum rden fst snd].
  - match goal with |- context [if ?c then _ else _] => destruct c eqn:E2 end; cbn [rnum rden fst snd]; [lia|].
    split; [lia|]. replace (Z.min 0 (Z.max (- 2 ^ (n - s)) r)) with (- 2 ^ (n - s)) by nia. ring.
  - match goal with |- context [if ?c then _ else _] => destruct c eqn:E2 end; cbn [rnum rden fst snd].
    + split; [lia|]. replace (Z.min 0 (Z.max (- 2 ^ (n - s)) r)) with 0 by nia. ring.
    + split; [lia|]. replace (Z.min 0 (Z.max (- 2 ^ (n - s)) r)) with r by nia. rewrite P. ring.
Qed.

Lemma req_radd_rscale a b p q e : 0 < rden a -> 0 < rden b ->
  req a (rscale (rofZ p) e) = true -> req b (rscale (rofZ q) e) = true -> req (radd a b) (rscale (rofZ (p + q)) e) = true.
Proof.
  unfold req, radd, rscale, rofZ, sc_num, sc_den. cbn [rnum rden fst snd]. intros Ha Hb H1 H2.
  apply Z.eqb_eq in H1. apply Z.eqb_eq in H2. apply Z.eqb_eq.
  destruct (0 <=? e).
  - replace ((rnum a * rden b + rnum b * rden a) * 1) with ((rnum a * 1) * rden b + (rnum b * 1) * rden a) by ring.
    rewrite H1, H2. ring.
  - replace ((rnum a * rden b + rnum b * rden a) * (1 * 2 ^ (- e))) with ((rnum a * (1 * 2 ^ (- e))) * rden b + (rnum b * (1 * 2 ^ (- e))) * rden a) by ring.
    rewrite H1, H2. ring.
Qed.

Theorem link_qr_xq_leaky c (has_rub : bool) s rub x :
  qr_slope c = Some s -> 0 <= s <= qr_nsb c -> 0 < rden x -> 0 < rden rub ->
  qr_rub c = (if has_rub then Some rub else None) ->
  req (gen_qr_xq (qr_bits c) (qr_int c) true (qr_qclip c) has_rub (1, 2 ^ s) rub x) (qr_val c x) = true.
Proof.
  intros Sl [Hs Hsn] Xd Ud Hr. assert (Hn : 0 <= qr_nsb c) by lia.
  assert (N : qr_bits c - b2z true = qr_nsb c) by (unfold qr_nsb; rewrite Sl; reflexivity).
  set (n := qr_nsb c) in *. set (i := qr_int c).
  set (p := rdiv (rmul x (rpow2 n)) (rpow2 i)).
  set (pos := rmul (rpow2 i) (rclip (0, 1) (rsub (1, 1) (rdiv (1, 1) (rpow2 n))) (rdiv (rofZ (rround p)) (rpow2 n)))).
  set (neg := rmul (rmul (rpow2 i) (1, 2 ^ s))
                (rclip (rneg (1, 1)) (0, 1) (rmul (rofZ (rround (rmul p (1, 2 ^ s)))) (rdiv (rofZ 1) (rmul (1, 2 ^ s) (rpow2 n)))))).
  set (core := radd pos neg).
  assert (G : gen_qr_xq (qr_bits c) i true (qr_qclip c) has_rub (1, 2 ^ s) rub x =
              if has_rub && negb (qr_qclip c) then (if rle core rub then core else rub) else core).
  { unfold gen_qr_xq, core, pos, neg, p. rewrite N. reflexivity. }
  rewrite G. clear G.
  set (v := rscale (rofZ (qr_code c (rnum x) (rden x))) (qr_se c)).
  assert (Ps : 0 < 2 ^ s) by (apply Z.pow_pos_nonneg; lia).
  assert (Pi : 0 < rden (rpow2 i)) by (unfold rpow2; cbn [rden snd]; apply sc_den_pos; lia).
  assert (Cv : req core v = true /\ 0 < rden core).
  { unfold core, v. destruct x as [a b]. cbn [rnum rden fst snd] in *.
    unfold qr_code, qr_se. rewrite Sl. fold n. fold i.
    assert (R1 : rround p = rhe (sc_num a (n - i)) (sc_den b (n - i))) by (unfold p; apply round_p; lia).
    assert (R2 : rround (rmul p (1, 2 ^ s)) = rhe (sc_num a (n - i - s)) (sc_den b (n - i - s))) by (unfold p; apply round_p2; lia).
    set (r1 := rhe (sc_num a (n - i)) (sc_den b (n - i))) in *. set (r2 := rhe (sc_num a (n - i - s)) (sc_den b (n - i - s))) in *.
    destruct (clip_frac r1 n Hn) as [Y1d Y1e]. destruct (clip_neg r2 n s (conj Hs Hsn)) as [Y2d Y2e].
    assert (Qp : req pos (rscale (rofZ (clip 0 (2 ^ n - 1) r1)) (i - n)) = true /\ 0 < rden pos).
    { unfold pos. rewrite R1. split; [apply scale_back; assumption|]. rewrite rden_rmul. nia. }
    assert (Qn : req neg (rscale (rofZ (clip (- 2 ^ (n - s)) 0 r2)) (i - n)) = true /\ 0 < rden neg).
    { unfold neg. rewrite R2. rewrite rmul_assoc'.
      match goal with |- context [rclip ?a0 ?b0 ?c0] => set (y := rclip a0 b0 c0) in * end. split.
      - apply scale_back; [exact Hn | rewrite rden_rmul; cbn [rden snd]; nia |].
        rewrite rnum_rmul, rden_rmul. cbn [rnum rden fst snd].
        assert (P : 2 ^ n = 2 ^ (n - s) * 2 ^ s) by (rewrite <- q2add by lia; f_equal; lia).
        rewrite P. replace (1 * rnum y * (2 ^ (n - s) * 2 ^ s)) with ((rnum y * 2 ^ (n - s)) * 2 ^ s) by ring. rewrite Y2e. ring.
      - rewrite !rden_rmul. cbn [rden snd]. nia. }
    destruct Qp as [Qp Dp]. destruct Qn as [Qn Dn].
    split.
    - unfold qr_hi, qr_lo. rewrite Sl. fold n.
      replace (n - i - s) with (n - i - s) by lia.
      apply req_radd_rscale; assumption.
    - unfold radd. cbn [rden snd]. nia. }
  destruct Cv as [Cv Cd].
  assert (Vd : 0 < rden v) by (unfold v, rscale; cbn [rden snd]; apply sc_den_pos; cbn; lia).
  unfold qr_val. fold v. rewrite Hr. destruct has_rub; cbn [andb].
  - destruct (qr_qclip c); cbn [negb]; [exact Cv|].
    unfold rmin. rewrite (rle_req_l core v rub Cv Cd Vd Ud).
    assert (Q : rlt rub v = negb (rle v rub)) by (unfold rlt, rle; lia). rewrite Q.
    destruct (rle v rub); cbn [negb]; [exact Cv | unfold req; lia].
  - exact Cv.
Qed.

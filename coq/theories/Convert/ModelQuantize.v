(* Convert/ModelQuantize.v -- C12: model_quantize (utils.py:579-1026) as a function on
   abstract layer records and a quantization dictionary.  Strings are opaque payloads. *)
From Coq Require Import String List Bool.
Import ListNotations.
Open Scope string_scope.

Record layer := L {
  l_cls : string; l_name : string; l_use_bias : bool;
  l_act : option string;                (* activation name; None = absent / not applicable *)
  l_kq : option string; l_bq : option string;   (* (kernel | depthwise | average) and bias quantizer strings *)
}.

(* dictionary: entry name -> (parameter -> quantizer string).  An entry that is a plain
   string (QActivation: "quantized_relu(4)") is the singleton [("", s)] *)
Definition entry := list (string * string).
Definition qdict := list (string * entry).

Fixpoint assoc {A} (k : string) (l : list (string * A)) : option A :=
  match l with [] => None | (k', v) :: r => if String.eqb k' k then Some v else assoc k r end.

(* get_config (utils.py:442-450): the layer NAME entry wins over the CLASS entry; the parameter is
   looked up inside whichever entry was found (no fall-back from a name entry to the class entry) *)
Definition find_entry (d : qdict) (name cls : string) : option entry :=
  match assoc name d with Some e => Some e | None => assoc cls d end.
Definition lookup (d : qdict) (name cls param : string) : option string :=
  match find_entry d name cls with Some e => assoc param e | None => None end.

(* quantize_activation (416-439) *)
Definition quantize_activation (act : option string) (bits : string) : option string :=
  match act with
  | None => None
  | Some a =>
    if String.eqb a "relu" then Some ("quantized_relu(" ++ bits ++ ")")
    else if String.eqb a "tanh" then Some ("quantized_tanh(" ++ bits ++ ")")
    else if String.eqb a "sigmoid" then Some ("quantized_sigmoid(" ++ bits ++ ")")
    else Some a
  end.

Definition mem (x : string) (l : list string) : bool := existsb (String.eqb x) l.
Definition weight_classes : list string :=
  ["Dense"; "Conv1D"; "Conv2D"; "Conv2DTranspose"; "SeparableConv1D"; "SeparableConv2D"].
Definition pool_classes : list string := ["AveragePooling2D"; "GlobalAveragePooling2D"].

Definition nonempty (o : option string) : option string :=
  match o with Some s => if String.eqb s "" then None else Some s | None => None end.

Definition convert_weighted (d : qdict) (bits : string) (l : layer) (param : string) : layer :=
  let qn := "Q" ++ l_cls l in
  match lookup d (l_name l) qn param with
  | None => l
  | Some kq =>
    let bq := if l_use_bias l then lookup d (l_name l) qn "bias_quantizer" else None in
    let act := match nonempty (lookup d (l_name l) qn "activation_quantizer") with
               | Some a => Some a
               | None => quantize_activation (l_act l) bits
               end in
    L qn (l_name l) (l_use_bias l) act (Some kq) bq
  end.

Definition convert_pool (d : qdict) (bits : string) (l : layer) : layer :=
  let qn := "Q" ++ l_cls l in
  match lookup d (l_name l) qn "average_quantizer" with
  | None => l
  | Some aq =>
    let act := match nonempty (lookup d (l_name l) qn "activation_quantizer") with
               | Some a => Some a
               | None => quantize_activation (l_act l) bits
               end in
    L qn (l_name l) (l_use_bias l) act (Some aq) None
  end.

(* Activation layers: the QActivation entry is a plain string ("" key) or a map activation -> quantizer *)
Definition convert_activation (d : qdict) (bits : string) (l : layer) : layer :=
  match find_entry d (l_name l) "QActivation" with
  | None => l
  | Some e =>
    match assoc "" e with
    | Some s => (* plain string entry: always converts *)
      L "QActivation" (l_name l) (l_use_bias l)
        (if String.eqb s "" then quantize_activation (l_act l) bits else Some s) None None
    | None =>
      match l_act l with
      | None => l
      | Some a =>
        match nonempty (assoc a e) with
        | Some s => L "QActivation" (l_name l) (l_use_bias l) (Some s) None None
        | None => l
        end
      end
    end
  end.

Definition convert (d : qdict) (bits : string) (l : layer) : layer :=
  if mem (l_cls l) weight_classes then convert_weighted d bits l "kernel_quantizer"
  else if String.eqb (l_cls l) "DepthwiseConv2D" then convert_weighted d bits l "depthwise_quantizer"
  else if String.eqb (l_cls l) "Activation" then convert_activation d bits l
  else if mem (l_cls l) pool_classes then convert_pool d bits l
  else l.

Definition convert_model (d : qdict) (bits : string) (m : list layer) : list layer := map (convert d bits) m.

(* =============================== theorems =============================== *)
(* topology: same number of layers, same names, same order *)
Theorem topology_preserved d bits m : map l_name (convert_model d bits m) = map l_name m.
Proof. unfold convert_model. rewrite map_map. apply map_ext. intros l. unfold convert.
  destruct (mem (l_cls l) weight_classes).
  { unfold convert_weighted. destruct (lookup d (l_name l) ("Q" ++ l_cls l) "kernel_quantizer"); reflexivity. }
  destruct (String.eqb (l_cls l) "DepthwiseConv2D").
  { unfold convert_weighted. destruct (lookup d (l_name l) ("Q" ++ l_cls l) "depthwise_quantizer"); reflexivity. }
  destruct (String.eqb (l_cls l) "Activation").
  { unfold convert_activation. destruct (find_entry d (l_name l) "QActivation") as [e|]; [|reflexivity].
    destruct (assoc "" e); [reflexivity|]. destruct (l_act l) as [a|]; [|reflexivity].
    destruct (nonempty (assoc a e)); reflexivity. }
  destruct (mem (l_cls l) pool_classes); [|reflexivity].
  unfold convert_pool. destruct (lookup d (l_name l) ("Q" ++ l_cls l) "average_quantizer"); reflexivity. Qed.

(* every layer not selected by the dictionary is left exactly as it was *)
Theorem unselected_weight_layer_unchanged d bits l : mem (l_cls l) weight_classes = true ->
  lookup d (l_name l) ("Q" ++ l_cls l) "kernel_quantizer" = None -> convert d bits l = l.
Proof. intros H N. unfold convert, convert_weighted. rewrite H, N. reflexivity. Qed.

Theorem unknown_class_unchanged d bits l :
  mem (l_cls l) weight_classes = false -> String.eqb (l_cls l) "DepthwiseConv2D" = false ->
  String.eqb (l_cls l) "Activation" = false -> mem (l_cls l) pool_classes = false -> convert d bits l = l.
Proof. intros A B C D. unfold convert. rewrite A, B, C, D. reflexivity. Qed.

Theorem empty_dictionary_changes_nothing bits m : convert_model [] bits m = m.
Proof. unfold convert_model. rewrite <- (map_id m) at 2. apply map_ext. intros l. unfold convert.
  destruct (mem (l_cls l) weight_classes); [reflexivity|].
  destruct (String.eqb (l_cls l) "DepthwiseConv2D"); [reflexivity|].
  destruct (String.eqb (l_cls l) "Activation"); [reflexivity|].
  destruct (mem (l_cls l) pool_classes); reflexivity. Qed.

(* a selected layer becomes its quantized counterpart carrying the configured strings *)
Theorem selected_weight_layer d bits l kq : mem (l_cls l) weight_classes = true ->
  lookup d (l_name l) ("Q" ++ l_cls l) "kernel_quantizer" = Some kq ->
  let l' := convert d bits l in
  l_cls l' = "Q" ++ l_cls l /\ l_name l' = l_name l /\ l_kq l' = Some kq /\
  l_bq l' = (if l_use_bias l then lookup d (l_name l) ("Q" ++ l_cls l) "bias_quantizer" else None).
Proof. intros H K. unfold convert, convert_weighted. rewrite H, K. cbn. repeat split. Qed.

(* biasless layers get no bias quantizer, whatever the dictionary says *)
Theorem biasless_layer_gets_no_bias_quantizer d bits l : l_use_bias l = false -> l_bq l = None ->
  l_bq (convert d bits l) = None.
Proof. intros H B. unfold convert.
  destruct (mem (l_cls l) weight_classes).
  { unfold convert_weighted. destruct (lookup _ _ _ "kernel_quantizer"); [cbn; rewrite H; reflexivity | exact B]. }
  destruct (String.eqb (l_cls l) "DepthwiseConv2D").
  { unfold convert_weighted. destruct (lookup _ _ _ "depthwise_quantizer"); [cbn; rewrite H; reflexivity | exact B]. }
  destruct (String.eqb (l_cls l) "Activation").
  { unfold convert_activation. destruct (find_entry d (l_name l) "QActivation") as [e|]; [|exact B].
    destruct (assoc "" e); [reflexivity|]. destruct (l_act l) as [a|]; [|exact B].
    destruct (nonempty (assoc a e)); [reflexivity | exact B]. }
  destruct (mem (l_cls l) pool_classes); [|exact B].
  unfold convert_pool. destruct (lookup _ _ _ "average_quantizer"); [reflexivity | exact B]. Qed.

(* an entry under the layer's NAME takes precedence over the entry under its class *)
Theorem name_entry_beats_class_entry d name cls param e :
  assoc name d = Some e -> lookup d name cls param = assoc param e.
Proof. intros H. unfold lookup, find_entry. rewrite H. reflexivity. Qed.
Theorem class_entry_used_without_name_entry d name cls param :
  assoc name d = None -> lookup d name cls param = match assoc cls d with Some e => assoc param e | None => None end.
Proof. intros H. unfold lookup, find_entry. rewrite H. reflexivity. Qed.

(* activation map: relu / tanh / sigmoid become quantized_*(bits), anything else is untouched *)
Theorem activation_map bits :
  quantize_activation (Some "relu") bits = Some ("quantized_relu(" ++ bits ++ ")") /\
  quantize_activation (Some "tanh") bits = Some ("quantized_tanh(" ++ bits ++ ")") /\
  quantize_activation (Some "sigmoid") bits = Some ("quantized_sigmoid(" ++ bits ++ ")") /\
  quantize_activation (Some "softmax") bits = Some "softmax" /\
  quantize_activation (Some "linear") bits = Some "linear" /\ quantize_activation None bits = None.
Proof. repeat split. Qed.

(* rendering for the correspondence runs *)
Definition opt_s (o : option string) : string := match o with Some s => s | None => "<none>" end.
Definition render_layer (l : layer) : string :=
  l_cls l ++ "|" ++ l_name l ++ "|" ++ opt_s (l_act l) ++ "|" ++ opt_s (l_kq l) ++ "|" ++ opt_s (l_bq l).

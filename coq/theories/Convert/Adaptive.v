(* Convert/Adaptive.v -- C12: the Activation branch of model_quantize in full (utils.py:868-905): QActivation and
   QAdaptiveActivation entries, the prefer_qadaptiveactivation switch, the total_bits / parameter stripping of an adaptive entry.
   A conservative extension of convert_activation (Convert/ModelQuantize.v). *)
From Coq Require Import String Ascii List Bool.
From QV Require Import Convert.ModelQuantize.
Import ListNotations.
Open Scope string_scope.

Definition is_digit (c : ascii) : bool := let n := nat_of_ascii c in Nat.leb 48 n && Nat.leb n 57.
(* re.sub(r"[^\d]", "", s) *)
Fixpoint digits (s : string) : string :=
  match s with EmptyString => EmptyString | String c r => if is_digit c then String c (digits r) else digits r end.
(* re.sub(r"\(.*", "", s) *)
Fixpoint strip_params (s : string) : string :=
  match s with EmptyString => EmptyString | String c r => if Ascii.eqb c "("%char then EmptyString else String c (strip_params r) end.

(* which entry applies: the preferred class first, the other as a backup; get_config looks the layer NAME up before the class *)
Definition select_entry (prefer : bool) (d : qdict) (name : string) : option (entry * bool) :=
  let qa := find_entry d name "QActivation" in
  let qd := find_entry d name "QAdaptiveActivation" in
  if prefer then match qd with Some e => Some (e, true) | None => option_map (fun e => (e, false)) qa end
  else match qa with Some e => Some (e, false) | None => option_map (fun e => (e, true)) qd end.

(* result: the rewritten layer and the total_bits written into an adaptive layer's configuration *)
Definition convert_activation_full (prefer : bool) (d : qdict) (bits : string) (l : layer) : layer * option string :=
  match select_entry prefer d (l_name l) with
  | None => (l, None)
  | Some (e, adaptive) =>
    let cls := if adaptive then "QAdaptiveActivation" else "QActivation" in
    let fin (s : string) : layer * option string :=
      if String.eqb s "" then (L cls (l_name l) (l_use_bias l) (quantize_activation (l_act l) bits) None None, None)
      else if adaptive then (L cls (l_name l) (l_use_bias l) (Some (strip_params s)) None None, Some (digits s))
      else (L cls (l_name l) (l_use_bias l) (Some s) None None, None) in
    match assoc "" e with
    | Some s => fin s
    | None =>
      match l_act l with
      | None => (l, None)
      | Some a => match nonempty (assoc a e) with Some s => fin s | None => (l, None) end
      end
    end
  end.

(* without QAdaptiveActivation entries and without the preference it is the function the C12 theorems are about *)
Theorem full_is_conservative d bits l :
  find_entry d (l_name l) "QAdaptiveActivation" = None ->
  fst (convert_activation_full false d bits l) = convert_activation d bits l /\
  fst (convert_activation_full true d bits l) = convert_activation d bits l /\
  snd (convert_activation_full false d bits l) = None.
Proof. intros H. unfold convert_activation_full, select_entry, convert_activation. rewrite H.
  destruct (find_entry d (l_name l) "QActivation") as [e|]; cbn [option_map]; [|repeat split; reflexivity].
  destruct (assoc "" e) as [s|].
  - destruct (String.eqb s ""); repeat split; reflexivity.
  - destruct (l_act l) as [a|]; [|repeat split; reflexivity]. destruct (nonempty (assoc a e)) as [s|] eqn:N; [|repeat split; reflexivity].
    assert (NE : String.eqb s "" = false).
    { unfold nonempty in N. destruct (assoc a e) as [s'|]; [|discriminate]. destruct (String.eqb s' "") eqn:E; [discriminate|]. inversion N; subst; exact E. }
    rewrite NE. repeat split; reflexivity. Qed.

(* name and position never change; a layer no entry applies to is left exactly as it was *)
Theorem full_keeps_name prefer d bits l : l_name (fst (convert_activation_full prefer d bits l)) = l_name l.
Proof. unfold convert_activation_full. destruct (select_entry prefer d (l_name l)) as [[e ad]|]; [|reflexivity].
  destruct (assoc "" e) as [s|].
  - destruct (String.eqb s ""); [reflexivity|]. destruct ad; reflexivity.
  - destruct (l_act l) as [a|]; [|reflexivity]. destruct (nonempty (assoc a e)) as [s|]; [|reflexivity].
    destruct (String.eqb s ""); [reflexivity|]. destruct ad; reflexivity. Qed.
Theorem full_unselected_unchanged prefer d bits l :
  find_entry d (l_name l) "QActivation" = None -> find_entry d (l_name l) "QAdaptiveActivation" = None ->
  convert_activation_full prefer d bits l = (l, None).
Proof. intros A B. unfold convert_activation_full, select_entry. rewrite A, B. destruct prefer; reflexivity. Qed.
(* the preference only matters when both kinds of entry apply *)
Theorem preference_irrelevant_without_both d bits l :
  find_entry d (l_name l) "QActivation" = None \/ find_entry d (l_name l) "QAdaptiveActivation" = None ->
  convert_activation_full true d bits l = convert_activation_full false d bits l.
Proof. intros [H|H]; unfold convert_activation_full, select_entry; rewrite H;
  [destruct (find_entry d (l_name l) "QAdaptiveActivation") | destruct (find_entry d (l_name l) "QActivation")]; reflexivity. Qed.
(* an adaptive conversion carries the bare quantizer name and the digits of the entry as total_bits *)
Theorem adaptive_entry_split d bits l s : find_entry d (l_name l) "QActivation" = None ->
  find_entry d (l_name l) "QAdaptiveActivation" = Some [("", s)] -> s <> "" ->
  convert_activation_full false d bits l =
    (L "QAdaptiveActivation" (l_name l) (l_use_bias l) (Some (strip_params s)) None None, Some (digits s)).
Proof. intros A B N. unfold convert_activation_full, select_entry. rewrite A, B. cbn.
  destruct (String.eqb s "") eqn:E; [apply String.eqb_eq in E; contradiction | reflexivity]. Qed.

Example adaptive_ex : digits "quantized_relu(6)" = "6" /\ strip_params "quantized_relu(6)" = "quantized_relu" /\
  digits "quantized_po2(4)" = "24".
Proof. repeat split. Qed.

(* ---- the whole conversion with the full Activation branch ---- *)
Definition convert_full (prefer : bool) (d : qdict) (bits : string) (l : layer) : layer :=
  if String.eqb (l_cls l) "Activation" then fst (convert_activation_full prefer d bits l) else convert d bits l.
Definition convert_model_full (prefer : bool) (d : qdict) (bits : string) (m : list layer) : list layer :=
  map (convert_full prefer d bits) m.
Definition total_bits_of (prefer : bool) (d : qdict) (bits : string) (m : list layer) : list string :=
  map (fun l => if String.eqb (l_cls l) "Activation"
                then match snd (convert_activation_full prefer d bits l) with Some s => s | None => "" end else "") m.

(* a dictionary without a QAdaptiveActivation class entry: the default call is the function of the C12 theorems *)
Theorem convert_full_conservative d bits l : assoc "QAdaptiveActivation" d = None ->
  convert_full false d bits l = convert d bits l.
Proof. intros H. unfold convert_full, convert.
  destruct (String.eqb (l_cls l) "Activation") eqn:E; [|reflexivity].
  apply String.eqb_eq in E.
  assert (W : mem (l_cls l) weight_classes = false) by (rewrite E; reflexivity).
  assert (D : String.eqb (l_cls l) "DepthwiseConv2D" = false) by (rewrite E; reflexivity).
  rewrite W, D.
  unfold convert_activation_full, select_entry, convert_activation, find_entry. rewrite H.
  destruct (assoc (l_name l) d) as [e|].
  - destruct (assoc "" e) as [s|].
    + destruct (String.eqb s ""); reflexivity.
    + destruct (l_act l) as [a|]; [|reflexivity]. destruct (nonempty (assoc a e)) as [s|] eqn:N; [|reflexivity].
      assert (NE : String.eqb s "" = false).
      { unfold nonempty in N. destruct (assoc a e) as [s'|]; [|discriminate]. destruct (String.eqb s' "") eqn:E2; [discriminate|]. inversion N; subst; exact E2. }
      rewrite NE. reflexivity.
  - destruct (assoc "QActivation" d) as [e|]; cbn [option_map]; [|reflexivity].
    destruct (assoc "" e) as [s|].
    + destruct (String.eqb s ""); reflexivity.
    + destruct (l_act l) as [a|]; [|reflexivity]. destruct (nonempty (assoc a e)) as [s|] eqn:N; [|reflexivity].
      assert (NE : String.eqb s "" = false).
      { unfold nonempty in N. destruct (assoc a e) as [s'|]; [|discriminate]. destruct (String.eqb s' "") eqn:E2; [discriminate|]. inversion N; subst; exact E2. }
      rewrite NE. reflexivity.
Qed.
Theorem convert_model_full_conservative d bits m : assoc "QAdaptiveActivation" d = None ->
  convert_model_full false d bits m = convert_model d bits m.
Proof. intros H. unfold convert_model_full, convert_model. apply map_ext. intros l. apply convert_full_conservative. exact H. Qed.
Theorem topology_preserved_full prefer d bits m : map l_name (convert_model_full prefer d bits m) = map l_name m.
Proof. unfold convert_model_full. rewrite map_map. apply map_ext. intros l. unfold convert_full.
  destruct (String.eqb (l_cls l) "Activation"); [apply full_keeps_name|].
  pose proof (topology_preserved d bits [l]) as T. unfold convert_model in T. cbn [map] in T. inversion T. reflexivity. Qed.

(* rendering for the correspondence run: the rewritten layer line followed by the total_bits written for it *)
Definition render_model_full (prefer : bool) (d : qdict) (bits : string) (m : list layer) : list string :=
  map (fun p => render_layer (fst p) ++ "|" ++ snd p)
      (combine (convert_model_full prefer d bits m) (total_bits_of prefer d bits m)).

(* model_quantize asserts that an adaptive entry carries only the bit width ("quantized_relu(6)"): an entry with a comma is
   rejected (AssertionError) -- the configurations the conversion is not defined on *)
Fixpoint has_comma (s : string) : bool :=
  match s with EmptyString => false | String c r => Ascii.eqb c ","%char || has_comma r end.
Definition adaptive_rejects (prefer : bool) (d : qdict) (l : layer) : bool :=
  if negb (String.eqb (l_cls l) "Activation") then false else
  match select_entry prefer d (l_name l) with
  | Some (e, true) =>
    (* an entry with parameters trips the assertion of model_quantize; a quantizer other than quantized_bits / quantized_relu is
       refused by the QAdaptiveActivation constructor when the rewritten model is built; the empty string falls back to quantize_activation *)
    let bad (s : string) := negb (String.eqb s "") && (has_comma s || negb (mem (strip_params s) ["quantized_bits"; "quantized_relu"])) in
    match assoc "" e with
    | Some s => bad s
    | None => match l_act l with
              | Some a => match nonempty (assoc a e) with Some s => bad s | None => false end
              | None => false
              end
    end
  | _ => false
  end.
Definition model_rejected (prefer : bool) (d : qdict) (m : list layer) : bool := existsb (adaptive_rejects prefer d) m.
(* without the preference and without a QAdaptiveActivation class entry nothing is ever rejected on these grounds ...
   unless a layer-NAME entry is the only one found: get_config returns it for either class *)
Theorem no_adaptive_no_rejection d m : assoc "QAdaptiveActivation" d = None ->
  (forall l, In l m -> assoc (l_name l) d = None \/ find_entry d (l_name l) "QActivation" <> None) ->
  model_rejected false d m = false.
Proof. intros H Hn. unfold model_rejected. apply not_true_is_false. intros E. apply existsb_exists in E. destruct E as [l [Hin R]].
  unfold adaptive_rejects, select_entry in R. destruct (negb (String.eqb (l_cls l) "Activation")); [discriminate|].
  destruct (find_entry d (l_name l) "QActivation") as [e|] eqn:QA; [discriminate|].
  destruct (Hn l Hin) as [N|N]; [|contradiction].
  unfold find_entry in R. rewrite N, H in R. discriminate. Qed.

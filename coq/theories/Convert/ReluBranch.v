(* Convert/ReluBranch.v -- the abstract domain of tools/translate/relugen.py: classes, what the dictionary lookup returned, outcomes. *)
Inductive rclass := CReLU | CLeaky3 | CLeaky2.       (* Keras ReLU; LeakyReLU with the Keras-3 key negative_slope / the Keras-2 key alpha *)
Inductive rentry := ENone | EStrEmpty | EStr | EMapHit | EMapMiss.
Inductive rakind := AEntry | AMapValue | ANoActivation.
Inductive routcome := OUnchanged | OConverted (a : rakind) | ORaises.

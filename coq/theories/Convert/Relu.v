(* Convert/Relu.v -- C12: the ReLU-layer branch of model_quantize (utils.py:906-957).  A Keras ReLU layer
   (max_value, negative_slope, threshold) is looked up under its NAME, then under "QActivation"; the entry is a plain
   quantizer string (always converts) or a map keyed by "relu" / "leakyrelu" -- which key applies is decided by the sign
   of the layer's negative_slope.  In the layer record of Convert/ModelQuantize.v a ReLU layer carries that key in l_act
   (Some "relu" when negative_slope <= 0, Some "leakyrelu" when it is positive).
   A conservative extension of convert_full (Convert/Adaptive.v). *)
From Coq Require Import String List Bool.
From QV Require Import Convert.ModelQuantize Convert.Adaptive.
Import ListNotations.
Open Scope string_scope.

Definition relu_key (slope_positive : bool) : string := if slope_positive then "leakyrelu" else "relu".

Definition convert_relu (d : qdict) (l : layer) : layer :=
  match find_entry d (l_name l) "QActivation" with
  | None => l
  | Some e =>
    match assoc "" e with
    | Some s =>   (* plain string entry: always converts; the empty string leaves the QActivation without an activation *)
      L "QActivation" (l_name l) (l_use_bias l) (if String.eqb s "" then None else Some s) None None
    | None =>
      match l_act l with
      | None => l
      | Some k => match nonempty (assoc k e) with
                  | Some s => L "QActivation" (l_name l) (l_use_bias l) (Some s) None None
                  | None => l
                  end
      end
    end
  end.

Definition convert_all (prefer : bool) (d : qdict) (bits : string) (l : layer) : layer :=
  if String.eqb (l_cls l) "ReLU" then convert_relu d l else convert_full prefer d bits l.
Definition convert_model_all (prefer : bool) (d : qdict) (bits : string) (m : list layer) : list layer :=
  map (convert_all prefer d bits) m.

(* a model without ReLU layers is converted by the function of the earlier theorems *)
Theorem convert_all_conservative prefer d bits l : String.eqb (l_cls l) "ReLU" = false ->
  convert_all prefer d bits l = convert_full prefer d bits l.
Proof. intros H. unfold convert_all. rewrite H. reflexivity. Qed.
Theorem convert_model_all_conservative prefer d bits m : forallb (fun l => negb (String.eqb (l_cls l) "ReLU")) m = true ->
  convert_model_all prefer d bits m = convert_model_full prefer d bits m.
Proof. intros H. unfold convert_model_all, convert_model_full. apply map_ext_in. intros l Hin.
  apply convert_all_conservative. rewrite forallb_forall in H. specialize (H l Hin). destruct (String.eqb (l_cls l) "ReLU"); [discriminate|reflexivity]. Qed.

Theorem relu_keeps_name d l : l_name (convert_relu d l) = l_name l.
Proof. unfold convert_relu. destruct (find_entry d (l_name l) "QActivation") as [e|]; [|reflexivity].
  destruct (assoc "" e); [reflexivity|]. destruct (l_act l) as [k|]; [|reflexivity].
  destruct (nonempty (assoc k e)); reflexivity. Qed.
Theorem topology_preserved_all prefer d bits m : map l_name (convert_model_all prefer d bits m) = map l_name m.
Proof. unfold convert_model_all. rewrite map_map. apply map_ext. intros l. unfold convert_all.
  destruct (String.eqb (l_cls l) "ReLU"); [apply relu_keeps_name|].
  pose proof (topology_preserved_full prefer d bits [l]) as T. unfold convert_model_full in T. cbn [map] in T. inversion T. reflexivity. Qed.

(* a ReLU layer that neither its name nor the QActivation class entry selects is left exactly as it was *)
Theorem relu_unselected_unchanged d l : find_entry d (l_name l) "QActivation" = None -> convert_relu d l = l.
Proof. intros H. unfold convert_relu. rewrite H. reflexivity. Qed.
(* a per-activation map converts a ReLU layer only through the key its slope selects: a map that has no (non-empty)
   "leakyrelu" entry leaves every ReLU layer with a positive negative_slope untouched, whatever it says under "relu" *)
Theorem relu_map_entry_selects_by_slope d l e pos : find_entry d (l_name l) "QActivation" = Some e -> assoc "" e = None ->
  l_act l = Some (relu_key pos) -> nonempty (assoc (relu_key pos) e) = None -> convert_relu d l = l.
Proof. intros H N A K. unfold convert_relu. rewrite H, N, A, K. reflexivity. Qed.
Theorem relu_map_entry_converts d l e pos s : find_entry d (l_name l) "QActivation" = Some e -> assoc "" e = None ->
  l_act l = Some (relu_key pos) -> nonempty (assoc (relu_key pos) e) = Some s ->
  convert_relu d l = L "QActivation" (l_name l) (l_use_bias l) (Some s) None None.
Proof. intros H N A K. unfold convert_relu. rewrite H, N, A, K. reflexivity. Qed.
(* a plain string entry converts every ReLU layer it applies to, with exactly that string *)
Theorem relu_string_entry_converts d l e s : find_entry d (l_name l) "QActivation" = Some e -> assoc "" e = Some s -> s <> "" ->
  convert_relu d l = L "QActivation" (l_name l) (l_use_bias l) (Some s) None None.
Proof. intros H N NE. unfold convert_relu. rewrite H, N. destruct (String.eqb s "") eqn:E; [apply String.eqb_eq in E; contradiction|reflexivity]. Qed.
(* the name entry beats the class entry here too *)
Theorem relu_name_entry_first d l e : assoc (l_name l) d = Some e -> find_entry d (l_name l) "QActivation" = Some e.
Proof. intros H. unfold find_entry. rewrite H. reflexivity. Qed.
(* a QAdaptiveActivation entry never touches a ReLU layer (the branch reads QActivation only) *)
Theorem relu_ignores_adaptive_entries d l e : l_name l <> "QAdaptiveActivation" ->
  assoc (l_name l) d = None -> assoc "QActivation" d = None ->
  convert_relu (("QAdaptiveActivation", e) :: d) l = l.
Proof. intros NE A B. apply relu_unselected_unchanged. unfold find_entry. cbn [assoc].
  destruct (String.eqb "QAdaptiveActivation" (l_name l)) eqn:E.
  - apply String.eqb_eq in E. symmetry in E. contradiction.
  - rewrite A. change (String.eqb "QAdaptiveActivation" "QActivation") with false. cbn iota. rewrite B. reflexivity. Qed.

(* the empty plain entry leaves the rewritten QActivation without an activation: the rebuilt model cannot be constructed *)
Definition relu_rejects (d : qdict) (l : layer) : bool :=
  String.eqb (l_cls l) "ReLU" &&
  match find_entry d (l_name l) "QActivation" with
  | Some e => match assoc "" e with Some s => String.eqb s "" | None => false end
  | None => false
  end.
Definition model_rejected_all (prefer : bool) (d : qdict) (m : list layer) : bool :=
  model_rejected prefer d m || existsb (relu_rejects d) m.

Definition render_model_all (prefer : bool) (d : qdict) (bits : string) (m : list layer) : list string :=
  map (fun p => render_layer (fst p) ++ "|" ++ snd p)
      (combine (convert_model_all prefer d bits m) (total_bits_of prefer d bits m)).

Example relu_ex :
  let d := [("QActivation", [("relu", "quantized_relu(4,1)")]); ("r2", [("", "quantized_relu(6)")])] in
  map render_layer (convert_model_all false d "5" [L "ReLU" "r0" false (Some "relu") None None; L "ReLU" "r1" false (Some "leakyrelu") None None;
                                                   L "ReLU" "r2" false (Some "leakyrelu") None None]) =
  ["QActivation|r0|quantized_relu(4,1)|<none>|<none>"; "ReLU|r1|leakyrelu|<none>|<none>"; "QActivation|r2|quantized_relu(6)|<none>|<none>"].
Proof. vm_compute. reflexivity. Qed.

(* Base/FL.v -- binary32 values as exact rationals.
   * f32_dec: IEEE-754 single bit pattern -> exact dyadic rational
     (denormals decode to 0: TensorFlow's CPU kernels run with DAZ/FTZ,
     calibrated by the harness on every run).
   * fl: round-to-nearest-even to 24 significant bits with flush-to-zero,
     so that "one TF float32 kernel" = fl (exact rational operation) on the
     finite, non-overflowing range.  Pure Z arithmetic, no axioms, runs
     under vm_compute. *)
From Coq Require Import ZArith List Bool Lia ZifyBool.
From QV Require Import Base.ZQ.
Open Scope Z_scope.

Definition rat := (Z * Z)%type.          (* (numerator, denominator > 0) *)
Definition rnum (x : rat) := fst x.
Definition rden (x : rat) := snd x.

Definition req (x y : rat) : bool := rnum x * rden y =? rnum y * rden x.
Definition rlt (x y : rat) : bool := rnum x * rden y <? rnum y * rden x.
Definition rle (x y : rat) : bool := rnum x * rden y <=? rnum y * rden x.
Definition radd (x y : rat) : rat := (rnum x * rden y + rnum y * rden x, rden x * rden y).
Definition rneg (x : rat) : rat := (- rnum x, rden x).
Definition rsub (x y : rat) : rat := radd x (rneg y).
Definition rmul (x y : rat) : rat := (rnum x * rnum y, rden x * rden y).
Definition rabs (x : rat) : rat := (Z.abs (rnum x), rden x).
Definition rinv (x : rat) : rat :=
  if 0 <? rnum x then (rden x, rnum x) else if rnum x <? 0 then (- rden x, - rnum x) else (0, 1).
Definition rdiv (x y : rat) : rat := rmul x (rinv y).
Definition rofZ (z : Z) : rat := (z, 1).
Definition rpow2 (k : Z) : rat := (sc_num 1 k, sc_den 1 k).
Definition rscale (x : rat) (k : Z) : rat := (sc_num (rnum x) k, sc_den (rden x) k).
Definition rmax (x y : rat) := if rlt x y then y else x.
Definition rmin (x y : rat) := if rlt y x then y else x.
Definition rclip (lo hi x : rat) := rmin (rmax x lo) hi.   (* tf.clip_by_value *)
Definition rround (x : rat) : Z := rhe (rnum x) (rden x). (* tf.round *)
Definition rfloor (x : rat) : Z := rnum x / rden x.
Definition rceil (x : rat) : Z := - ((- rnum x) / rden x).
(* normalise: divide by gcd; keeps numbers small during long evaluations *)
Definition rnorm (x : rat) : rat :=
  let g := Z.gcd (rnum x) (rden x) in if g =? 0 then (0, 1) else (rnum x / g, rden x / g).

(* 2^l <= |a|/b  <->  sc_num 1 l * b <= |a| * sc_den 1 l *)
Definition pow2_le_rat (l a b : Z) : bool := sc_num 1 l * b <=? Z.abs a * sc_den 1 l.

Definition rlog2 (a b : Z) : Z :=
  let l := Z.log2 (Z.abs a) - Z.log2 b in
  if pow2_le_rat (l + 1) a b then l + 1 else if pow2_le_rat l a b then l else l - 1.

(* round to 24 significant bits, ties to even, flush results below 2^-126 *)
Definition fl (x : rat) : rat :=
  let a := rnum x in let b := rden x in
  if a =? 0 then (0, 1) else
  if negb (pow2_le_rat (-126) a b) then (0, 1) else
  let e := rlog2 a b - 23 in
  let n := rhe (sc_num a (- e)) (sc_den b (- e)) in
  (sc_num n e, sc_den 1 e).

Definition fadd x y := fl (radd x y).
Definition fsub x y := fl (rsub x y).
Definition fmul x y := fl (rmul x y).
Definition fdiv x y := fl (rdiv x y).

(* ---- decoding / encoding of IEEE-754 single bit patterns ---- *)
Definition f32_dec (z : Z) : option rat :=
  let s := z / 2147483648 in
  let ex := (z / 8388608) mod 256 in
  let man := z mod 8388608 in
  let sg := 1 - 2 * s in
  if ex =? 255 then None
  else if ex =? 0 then Some (0, 1)                     (* DAZ *)
  else Some (sc_num (sg * (man + 8388608)) (ex - 150), sc_den 1 (ex - 150)).

(* like f32_dec but keeps denormals (for values produced by NumPy) *)
Definition f32_dec_den (z : Z) : option rat :=
  let s := z / 2147483648 in
  let ex := (z / 8388608) mod 256 in
  let man := z mod 8388608 in
  let sg := 1 - 2 * s in
  if ex =? 255 then None
  else if ex =? 0 then Some (sc_num (sg * man) (-149), sc_den 1 (-149))
  else Some (sc_num (sg * (man + 8388608)) (ex - 150), sc_den 1 (ex - 150)).

(* float64 bit pattern -> rational (used for oracle values computed by the
   harness in double precision) *)
Definition f64_dec (z : Z) : option rat :=
  let s := z / 2 ^ 63 in
  let ex := (z / 2 ^ 52) mod 2048 in
  let man := z mod 2 ^ 52 in
  let sg := 1 - 2 * s in
  if ex =? 2047 then None
  else if ex =? 0 then Some (sc_num (sg * man) (-1074), sc_den 1 (-1074))
  else Some (sc_num (sg * (man + 2 ^ 52)) (ex - 1075), sc_den 1 (ex - 1075)).

(* is x exactly representable with 24 significant bits (normal range)? *)
Definition representable (x : rat) : bool := req (fl x) x.

Lemma req_refl x : req x x = true.
Proof. unfold req. lia. Qed.

(* Base/Texp.v -- a first-order expression language for the return expressions
   of the quantizers, with a dual-number semantics (value, d/dx) that encodes
   TensorFlow's differentiation conventions (probed with tf.GradientTape on the
   pinned stack and re-validated at every kink by the C06 correspondence run):
     stop_gradient: derivative 0;  round / floor / sign: derivative 0;
     clip_by_value: 1 on the CLOSED interval, 0 outside;
     relu(x, alpha): 1 for x > 0, alpha for x <= 0 (alpha = 0: plain relu, 0 at 0);
     where(c, a, b): derivative of the branch selected by the forward condition;
     abs: sign(x) (0 at 0). *)
From Coq Require Import ZArith List Bool Lia.
From QV Require Import Base.ZQ Base.FL.
Open Scope Z_scope.

Inductive texp :=
| Var
| Const (c : rat)
| Add (a b : texp) | Sub (a b : texp) | Mul (a b : texp) | Neg (a : texp)
| Stop (a : texp)
| Relu (slope : rat) (a : texp)
| WhereLe (a c t e : texp)            (* where(a <= c, t, e) *)
| Clip (lo hi : rat) (a : texp)
| Round (a : texp) | Floor (a : texp) | Sign (a : texp) | Abs (a : texp)
| Oracle (f f' : rat -> rat) (a : texp).  (* differentiable oracle (tanh, sigmoid) with its derivative *)

Definition dual := (rat * rat)%type.
Definition rzero : rat := (0, 1).
Definition rone : rat := (1, 1).
Definition rsign (v : rat) : rat := if rnum v <? 0 then (-1, 1) else if 0 <? rnum v then (1, 1) else (0, 1).

Fixpoint ev (x : rat) (e : texp) : dual :=
  match e with
  | Var => (x, rone)
  | Const c => (c, rzero)
  | Add a b => let '(va, da) := ev x a in let '(vb, db) := ev x b in (radd va vb, radd da db)
  | Sub a b => let '(va, da) := ev x a in let '(vb, db) := ev x b in (rsub va vb, rsub da db)
  | Mul a b => let '(va, da) := ev x a in let '(vb, db) := ev x b in
               (rmul va vb, radd (rmul da vb) (rmul va db))
  | Neg a => let '(va, da) := ev x a in (rneg va, rneg da)
  | Stop a => (fst (ev x a), rzero)
  | Relu s a => let '(va, da) := ev x a in
                if 0 <? rnum va then (va, da) else (rmul s va, rmul s da)
  | WhereLe a c t e' => if rle (fst (ev x a)) (fst (ev x c)) then ev x t else ev x e'
  | Clip lo hi a => let '(va, da) := ev x a in
                    (rclip lo hi va, if rle lo va && rle va hi then da else rzero)
  | Round a => (rofZ (rround (fst (ev x a))), rzero)
  | Floor a => (rofZ (rfloor (fst (ev x a))), rzero)
  | Sign a => (rsign (fst (ev x a)), rzero)
  | Abs a => let '(va, da) := ev x a in (rabs va, rmul (rsign va) da)
  | Oracle f f' a => let '(va, da) := ev x a in (f va, rmul (f' va) da)
  end.

Definition val (x : rat) (e : texp) : rat := fst (ev x e).
Definition grad (x : rat) (e : texp) : rat := snd (ev x e).

(* the straight-through idioms *)
Definition round_through (e : texp) : texp := Add e (Stop (Add (Neg e) (Round e))).
Definition floor_through (e : texp) : texp := Add e (Stop (Add (Neg e) (Floor e))).
Definition sign_through (e : texp) : texp := Add e (Stop (Add (Neg e) (Sign e))).
(* use_ste:   s + stop_gradient(f * (-s + q));   else   (1 - f) * s + stop_gradient(f * q) *)
Definition ste (s : texp) (f : rat) (q : texp) : texp := Add s (Stop (Mul (Const f) (Add (Neg s) q))).
Definition non_ste (s : texp) (f : rat) (q : texp) : texp :=
  Add (Mul (Const (rsub rone f)) s) (Stop (Mul (Const f) q)).

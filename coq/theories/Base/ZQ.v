(* Base/ZQ.v -- integer/rational toolkit shared by every model.
   Rationals are pairs (a, b) of Z with b > 0, compared by cross
   multiplication so that lia/nia close the goals.  No axioms. *)
From Coq Require Import ZArith List Bool Lia ZifyBool.
Ltac Zify.zify_post_hook ::= Z.to_euclidean_division_equations.
Open Scope Z_scope.

(* round-half-to-even of a/b (b > 0): tf.round *)
Definition rhe (a b : Z) : Z :=
  let q := a / b in let r := a mod b in
  if 2 * r <? b then q else if b <? 2 * r then q + 1
  else if Z.even q then q else q + 1.

(* floor / ceil of a/b *)
Definition qfloor (a b : Z) : Z := a / b.
Definition qceil (a b : Z) : Z := - ((- a) / b).

(* tf.clip_by_value(x, lo, hi) = min(max(x, lo), hi) *)
Definition clip (lo hi x : Z) : Z := Z.min hi (Z.max lo x).

(* multiply the rational a/b by 2^k, k any integer *)
Definition sc_num (a k : Z) : Z := if 0 <=? k then a * 2 ^ k else a.
Definition sc_den (b k : Z) : Z := if 0 <=? k then b else b * 2 ^ (- k).

Definition b2z (b : bool) : Z := if b then 1 else 0.

Lemma pow2_pos k : 0 < 2 ^ k \/ k < 0.
Proof. destruct (Z_lt_le_dec k 0); [right; lia | left; apply Z.pow_pos_nonneg; lia]. Qed.

Lemma pow2_pos' k : 0 <= k -> 0 < 2 ^ k.
Proof. intros; apply Z.pow_pos_nonneg; lia. Qed.

Lemma sc_den_pos b k : 0 < b -> 0 < sc_den b k.
Proof. intros Hb. unfold sc_den. destruct (0 <=? k) eqn:E; [lia|].
  assert (0 < 2 ^ (- k)) by (apply pow2_pos'; lia). nia. Qed.

Lemma rhe_half a b : 0 < b -> 2 * Z.abs (rhe a b * b - a) <= b.
Proof. intros Hb. unfold rhe. destruct (2 * (a mod b) <? b) eqn:E1; [lia|].
  destruct (b <? 2 * (a mod b)) eqn:E2; [lia|]. destruct (Z.even (a / b)); lia. Qed.

Lemma rhe_bounds a b : 0 < b -> a / b <= rhe a b <= a / b + 1.
Proof. intros Hb. unfold rhe. destruct (2 * (a mod b) <? b); [lia|].
  destruct (b <? 2 * (a mod b)); [lia|]. destruct (Z.even (a / b)); lia. Qed.

Lemma rhe_mono a a' b : 0 < b -> a <= a' -> rhe a b <= rhe a' b.
Proof. intros Hb H.
  assert (Hq : a / b <= a' / b) by (apply Z.div_le_mono; lia).
  destruct (Z.eq_dec (a / b) (a' / b)) as [E|N].
  - assert (Hr : a mod b <= a' mod b) by nia.
    unfold rhe. rewrite <- E.
    destruct (2 * (a mod b) <? b) eqn:E1; destruct (2 * (a' mod b) <? b) eqn:E1';
    destruct (b <? 2 * (a mod b)) eqn:E2; destruct (b <? 2 * (a' mod b)) eqn:E2';
    destruct (Z.even (a / b)); lia.
  - pose proof (rhe_bounds a b Hb). pose proof (rhe_bounds a' b Hb). lia.
Qed.

Lemma rhe_int k b : 0 < b -> rhe (k * b) b = k.
Proof. intros Hb. unfold rhe. rewrite Z.div_mul, Z.mod_mul by lia.
  destruct (2 * 0 <? b) eqn:E; lia. Qed.

(* rhe only depends on the value of the fraction *)
Lemma rhe_scale a b c : 0 < b -> 0 < c -> rhe (a * c) (b * c) = rhe a b.
Proof. intros Hb Hc. unfold rhe.
  rewrite Z.div_mul_cancel_r by lia.
  rewrite Zmult_mod_distr_r.
  assert (Hm := Z.mod_pos_bound a b Hb).
  replace (2 * (a mod b * c) <? b * c) with (2 * (a mod b) <? b)
    by (destruct (2 * (a mod b) <? b) eqn:E1; destruct (2 * (a mod b * c) <? b * c) eqn:E2; try reflexivity; nia).
  replace (b * c <? 2 * (a mod b * c)) with (b <? 2 * (a mod b))
    by (destruct (b <? 2 * (a mod b)) eqn:E1; destruct (b * c <? 2 * (a mod b * c)) eqn:E2; try reflexivity; nia).
  reflexivity. Qed.

(* value-equal fractions round alike *)
Lemma rhe_ext a b a' b' : 0 < b -> 0 < b' -> a * b' = a' * b -> rhe a b = rhe a' b'.
Proof. intros Hb Hb' E.
  rewrite <- (rhe_scale a b b' Hb Hb'), <- (rhe_scale a' b' b Hb' Hb).
  rewrite E. f_equal. lia. Qed.

Lemma rhe_mono_frac a b a' b' : 0 < b -> 0 < b' -> a * b' <= a' * b -> rhe a b <= rhe a' b'.
Proof. intros Hb Hb' E.
  rewrite <- (rhe_scale a b b' Hb Hb'), <- (rhe_scale a' b' b Hb' Hb).
  replace (b' * b) with (b * b') by lia. apply rhe_mono; lia. Qed.

Lemma clip_range lo hi x : lo <= hi -> lo <= clip lo hi x <= hi.
Proof. unfold clip; lia. Qed.

Lemma clip_mono lo hi x y : x <= y -> clip lo hi x <= clip lo hi y.
Proof. unfold clip; lia. Qed.

Lemma clip_id lo hi x : lo <= x <= hi -> clip lo hi x = x.
Proof. unfold clip; lia. Qed.

Lemma sc_value a b k : 0 < b ->
  (0 <= k -> sc_num a k * b = a * 2 ^ k * sc_den b k) /\
  (k < 0 -> sc_num a k * b * 2 ^ (- k) = a * sc_den b k).
Proof. intros Hb. unfold sc_num, sc_den. split; intros Hk;
  destruct (0 <=? k) eqn:E; lia. Qed.

Lemma sc_mono a a' b b' k : 0 < b -> 0 < b' -> a * b' <= a' * b ->
  sc_num a k * sc_den b' k <= sc_num a' k * sc_den b k.
Proof. intros Hb Hb' H. unfold sc_num, sc_den. destruct (0 <=? k) eqn:E.
  - assert (0 < 2 ^ k) by (apply pow2_pos'; lia). nia.
  - assert (0 < 2 ^ (- k)) by (apply pow2_pos'; lia). nia. Qed.

(* floor(log2 n) for n >= 1 is Z.log2; ceil(log2 n) *)
Definition clog2 (n : Z) : Z := Z.log2_up n.

Lemma clog2_spec n : 1 <= n -> n <= 2 ^ clog2 n.
Proof. intros H. unfold clog2. destruct (Z.eq_dec n 1) as [->|N]; [simpl; lia|].
  apply Z.log2_up_spec; lia. Qed.

#!/bin/sh
# Build the static Coq development (full .vo build, no -vos).  Offline.
set -e
cd "$(dirname "$0")/coq"
mkdir -p gen cases
{
  echo "-Q theories QV"
  echo "-Q gen QVGen"
  # Properties/*.v are compiled by the checks themselves (they depend on coq/gen)
  find theories -name '*.v' ! -path 'theories/Properties/*' ! -path 'theories/Link/*' | sort
} > _CoqProject
coq_makefile -f _CoqProject -o Makefile.coq > /dev/null
timeout 3000 make -f Makefile.coq -j16 2>&1 | grep -v '^COQC\|^COQDEP\|^CLEAN' || true
# fail if any .vo is missing
for f in $(find theories -name '*.v' ! -path 'theories/Properties/*' ! -path 'theories/Link/*'); do
  [ -f "${f%.v}.vo" ] || { echo "setup: $f did not compile"; exit 1; }
done
echo "setup: coq development built"

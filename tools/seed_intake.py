#!/usr/bin/env python3
"""usage: tools/seed_intake.py <id> <property> <worktree> "<needs to manifest>"
Copies <worktree>/_seed/{patch.diff,demo.py,notes.md} to /verif/seeded/<id>/, then CONFIRMS on a fresh clone of /repo HEAD:
the patch applies, the 90 stable baseline tests still pass with it, demo.py exits 1 with the patch and 0 on /repo.  Writes meta.json."""
import json
import os
import shutil
import subprocess
import sys
import xml.etree.ElementTree as ET

sid, prop, wt, needs = sys.argv[1:5]
V = os.path.dirname(os.path.dirname(os.path.abspath(__file__)))
sd = os.path.join(V, "seeded", sid)
os.makedirs(sd, exist_ok=True)
for f in ("patch.diff", "demo.py", "notes.md"):
  shutil.copy(os.path.join(wt, "_seed", f), os.path.join(sd, f))
clone = f"/tmp/intake_{sid}"
shutil.rmtree(clone, ignore_errors=True)
sh = lambda c, **kw: subprocess.run(c, shell=True, capture_output=True, text=True, **kw)
sh(f"git clone -q /repo {clone}")
r = sh(f"git -C {clone} apply {sd}/patch.diff")
assert r.returncode == 0, "patch does not apply: " + r.stderr
sh(f"cd {clone} && /venv/bin/python -m pytest -q -p no:cacheprovider --timeout=900 --continue-on-collection-errors --junitxml=/tmp/intake_{sid}.xml > /tmp/intake_{sid}.log 2>&1")
base = set(json.load(open("/root/.vp/BASELINE.json"))["stable_pass"])
passed = set()
for tc in ET.parse(f"/tmp/intake_{sid}.xml").iter("testcase"):
  if not any(c.tag in ("failure", "error", "skipped") for c in tc):
    passed.add(tc.get("classname") + "::" + tc.get("name"))
lost = sorted(base - passed)
tail = open(f"/tmp/intake_{sid}.log").read().strip().split("\n")[-1]
env = dict(os.environ, QKERAS_REPO=clone, QK_REPO=clone, TF_CPP_MIN_LOG_LEVEL="3")
d1 = sh(f"/venv/bin/python {sd}/demo.py", env=env)
open(os.path.join(sd, "demo_patched.out"), "w").write(d1.stdout[-4000:] + d1.stderr[-1500:])
env2 = dict(os.environ, QKERAS_REPO="/repo", QK_REPO="/repo", TF_CPP_MIN_LOG_LEVEL="3")
d0 = sh(f"/venv/bin/python {sd}/demo.py", env=env2)
open(os.path.join(sd, "demo_clean.out"), "w").write(d0.stdout[-4000:] + d0.stderr[-1500:])
head = sh("git -C /repo rev-parse --short HEAD").stdout.strip()
ok = not lost and d1.returncode == 1 and d0.returncode == 0
meta = {"property": prop, "id": sid, "needs_to_manifest": needs, "detected_by": "(pending evaluation)", "detected": None, "strengthened": None,
        "author": "independent sub-agent given only the property text, a scratch worktree and a note listing the earlier seeds for this property so as to pick a different mechanism",
        "confirmed": {"baseline_suite": f"clone of /repo HEAD {head} with the patch: {tail}; stable tests lost: {lost}",
                      "demo": f"exit {d1.returncode} with the patch applied to a clone of /repo, exit {d0.returncode} on /repo"}}
json.dump(meta, open(os.path.join(sd, "meta.json"), "w"), indent=1)
shutil.rmtree(clone, ignore_errors=True)
print(sid, "CONFIRMED" if ok else "NOT CONFIRMED", meta["confirmed"])
sys.exit(0 if ok else 1)

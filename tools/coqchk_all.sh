#!/bin/sh
# Independent re-check of every compiled property module (and everything it depends on) with coqchk,
# printing the axioms the whole development relies on.  Run when no check is running (checks recompile .vo files).
# Run it right after a pass of all twenty checks (tools/sweep.sh 0): a generated or link .vo compiled by hand against an older
# dependency makes coqchk fail with "Type error: ActualType".  Takes about 3 minutes.  Last recorded result: DESIGN.md section 10.3.
cd "$(dirname "$0")/../coq" || exit 2
mods=""
for f in theories/Properties/C*.v; do b=$(basename "$f" .v); [ -f "theories/Properties/$b.vo" ] && mods="$mods QV.Properties.$b"; done
exec coqchk -silent -o -Q theories QV -Q gen QVGen $mods

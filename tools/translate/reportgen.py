#!/usr/bin/env python3
"""Fail-closed translator: the range reporters max() / min() of quantized_bits and quantized_po2 (qkeras/quantizers.py)
-> coq/gen/ReportGen.v, regenerated on every run.

  gen_qbits_max (bits integer : Z) (kn : bool) : rat        gen_qbits_min (bits integer : Z) (kn : bool) : rat
  gen_po2_max (max_value : option rat) (max_exp : Z) : rat  gen_po2_min (max_value : option rat) (max_exp : Z) : rat

Statements: assignments of locals, if / else, return.  Expressions: self.bits, self.integer, self.keep_negative (0/1), self._max_exp,
self.max_value (truthy = given and non-zero), float literals, - , comparisons with 0, `not`, max(a, b), 2 ** e, and the float32
power idiom np.array(K.pow(2., K.cast(self.integer, dtype="float32")), dtype="float32") (= 2 ^ integer).
Link/ReportLink.v proves them equal to qb_max / qb_min (Quant/Fixed.v) and po2_max (Quant/Po2.v)."""
import ast
import os
import sys
from fractions import Fraction

REPO = os.environ.get("QKERAS_REPO", "/repo")


class Fail(Exception):
  pass


def rat(v):
  f = Fraction(v)
  return f"({f.numerator}, {f.denominator})"


class R:
  def __init__(self):
    self.env = {}

  def z(self, n):
    """integer expression"""
    src = ast.unparse(n)
    if src == "self.bits":
      return "bits"
    if src == "self.integer":
      return "integer"
    if src == "self.keep_negative":
      return "(b2z kn)"
    if src == "self._max_exp":
      return "max_exp"
    if isinstance(n, ast.Name) and n.id in self.env and self.env[n.id][0] == "z":
      return self.env[n.id][1]
    if isinstance(n, ast.Constant) and isinstance(n.value, int) and not isinstance(n.value, bool):
      return str(n.value)
    if isinstance(n, ast.BinOp) and isinstance(n.op, (ast.Add, ast.Sub)):
      return f"({self.z(n.left)} {'+' if isinstance(n.op, ast.Add) else '-'} {self.z(n.right)})"
    raise Fail(f"line {n.lineno}: integer expression `{src[:50]}`")

  def q(self, n):
    """rational expression"""
    src = " ".join(ast.unparse(n).split())
    if isinstance(n, ast.Constant) and isinstance(n.value, (int, float)) and not isinstance(n.value, bool):
      return rat(n.value)
    if isinstance(n, ast.UnaryOp) and isinstance(n.op, ast.USub):
      return f"(rneg {self.q(n.operand)})"
    if src == "self.max_value":
      return "MV"
    if isinstance(n, ast.Call) and isinstance(n.func, ast.Name) and n.func.id == "max" and len(n.args) == 2:
      return f"(rmax {self.q(n.args[0])} {self.q(n.args[1])})"
    if src in ("np.array(K.pow(2.0, K.cast(self.integer, dtype='float32')), dtype='float32')", "np.array(K.pow(2, K.cast(self.integer, dtype='float32')), dtype='float32')"):
      return "(rpow2 integer)"
    if isinstance(n, ast.BinOp) and isinstance(n.op, ast.Pow) and isinstance(n.left, ast.Constant) and n.left.value == 2:
      return f"(rpow2 {self.z(n.right)})"
    raise Fail(f"line {n.lineno}: expression `{src[:60]}`")

  def cond(self, n):
    src = ast.unparse(n)
    if isinstance(n, ast.UnaryOp) and isinstance(n.op, ast.Not):
      if ast.unparse(n.operand) == "self.keep_negative":
        return "(negb kn)"
      raise Fail(f"line {n.lineno}: condition `{src}`")
    if isinstance(n, ast.Compare) and len(n.ops) == 1 and isinstance(n.ops[0], ast.Gt) and isinstance(n.comparators[0], ast.Constant) and n.comparators[0].value == 0:
      return f"(0 <? {self.z(n.left)})"
    if src == "self.max_value":
      return "MVTRUTHY"
    raise Fail(f"line {n.lineno}: condition `{src[:50]}`")

  def run(self, stmts):
    """-> Coq text of the returned rational (with MV / MVTRUTHY placeholders)"""
    for i, st in enumerate(stmts):
      if isinstance(st, ast.Expr) and isinstance(st.value, ast.Constant):
        continue
      if isinstance(st, ast.Assign) and len(st.targets) == 1 and isinstance(st.targets[0], ast.Name):
        self.env[st.targets[0].id] = ("z", self.z(st.value))
        continue
      if isinstance(st, ast.Return):
        return self.q(st.value)
      if isinstance(st, ast.If):
        c = self.cond(st.test)
        t = R(); t.env = dict(self.env)
        tv = t.run(st.body)
        e = R(); e.env = dict(self.env)
        ev = e.run(st.orelse if st.orelse else stmts[i + 1:])
        if tv is None or ev is None:
          raise Fail(f"line {st.lineno}: a branch does not return")
        if c == "MVTRUTHY":
          # `if self.max_value:` -- given and non-zero
          return f"(match max_value with Some v => if rnum v =? 0 then {ev.replace('MV', 'v')} else {tv.replace('MV', 'v')} | None => {ev} end)"
        return f"(if {c} then {tv} else {ev})"
      raise Fail(f"line {st.lineno}: statement `{ast.unparse(st)[:50]}`")
    return None


def method(tree, cls, name):
  c = next((n for n in tree.body if isinstance(n, ast.ClassDef) and n.name == cls), None)
  f = next((m for m in c.body if isinstance(m, ast.FunctionDef) and m.name == name), None) if c else None
  if f is None:
    raise Fail(f"{cls}.{name} not found")
  v = R().run(f.body)
  if v is None:
    raise Fail(f"{cls}.{name} does not return")
  if "MV" in v and "max_value" not in v:
    raise Fail(f"{cls}.{name}: max_value used outside its truthiness test")
  return v


def emit(outdir):
  lines = ["(* GENERATED by tools/translate/reportgen.py from qkeras/quantizers.py -- do not edit *)", "From Coq Require Import ZArith Bool.",
           "From QV Require Import Base.ZQ Base.FL.", "Open Scope Z_scope.", ""]
  sigs = [("quantized_bits", "max", "gen_qbits_max (bits integer : Z) (kn : bool)"), ("quantized_bits", "min", "gen_qbits_min (bits integer : Z) (kn : bool)"),
          ("quantized_po2", "max", "gen_po2_max (max_value : option rat) (max_exp : Z)"), ("quantized_po2", "min", "gen_po2_min (max_value : option rat) (max_exp : Z)")]
  ok, why = True, ""
  try:
    tree = ast.parse(open(os.path.join(REPO, "qkeras", "quantizers.py")).read())
    for cls, m, sig in sigs:
      lines.append(f"Definition {sig} : rat :=\n  {method(tree, cls, m)}.")
  except Fail as e:
    ok, why = False, str(e)
  except (OSError, SyntaxError) as e:
    ok, why = False, f"{type(e).__name__}: {e}"
  if not ok:
    lines = lines[:5] + ["(* translation failed: " + why.replace("*)", "* )") + " *)"] + [f"Definition {sig} : rat := (0, 1)." for _c, _m, sig in sigs]
  lines.append(f"Definition report_translation_ok : bool := {'true' if ok else 'false'}.")
  path = os.path.join(outdir, "ReportGen.v")
  with open(path, "w") as f:
    f.write("\n".join(lines) + "\n")
  return path


if __name__ == "__main__":
  print(open(emit(sys.argv[1] if len(sys.argv) > 1 else ".")).read())

#!/usr/bin/env python3
"""Fail-closed translator: the merge-layer type rules of qtools (qkeras/qtools/quantized_operators/merge_factory.py)
-> coq/gen/MergeGen.v, regenerated on every run.

  gen_merge_add (qs : list qt) : qt        Add.__init__      (output type of an n-input addition)
  gen_merge_max (qs : list qt) : qt        Maximum.__init__  (also Minimum, Average, Concatenate, which only call it)
  gen_merge_table : list (string * string) MergeFactory.make_quantizer: layer type -> class that sizes the output
  gen_merge_bases : list (string * string) class -> base class, for the classes whose __init__ only calls super().__init__
                                           (and sets the energy bookkeeping)

The symbolic executor is the one of qtoolsops.py, extended here with the two loop shapes the merge classes use:
  for q in self.input_quantizers: <straight-line updates of locals>      -> fold_left step qs init
  for cur in self.input_quantizers[1:]: if <differs>: flag = False; break -> forallb over the tail
A loop variable is dead after its loop (reading it fails the translation).  Link/MergeLink.v proves
gen_merge_add = merge_add and gen_merge_max = merge_max (QTools/Ops.v) for every operand list."""
import ast
import os
import sys

sys.path.insert(0, os.path.dirname(os.path.abspath(__file__)))
import qtoolsops as T  # noqa: E402

REPO = os.environ.get("QKERAS_REPO", "/repo")
QO = os.path.join(REPO, "qkeras", "qtools", "quantized_operators")

COQTY = {"Z": "Z", "B": "bool"}


def assigned_names(stmts):
  out = []
  for st in stmts:
    for n in ast.walk(st):
      if isinstance(n, ast.Assign):
        ts = n.targets
      elif isinstance(n, ast.AugAssign):
        ts = [n.target]
      else:
        continue
      for t in ts:
        if isinstance(t, ast.Name) and t.id not in out:
          out.append(t.id)
  return out


class MExec(T.Exec):
  """Exec + loops over the operand list + augmented assignment to locals + comparisons of two quantizer names / flags"""
  DEFS = None      # shared list of auxiliary definitions (step functions)
  COUNTER = None

  def clone(self):
    e = MExec(self.env, self.funcs)
    e.SELF_RECORD = self.SELF_RECORD
    e.OPTION_NONE = getattr(self, "OPTION_NONE", False)
    e.attrs = dict(self.attrs)
    e.ret = self.ret
    e.DEFS, e.COUNTER, e.PREFIX = self.DEFS, self.COUNTER, self.PREFIX
    return e

  def ev(self, n):
    if isinstance(n, ast.Attribute) and isinstance(n.value, ast.Name) and n.value.id == "self" and n.attr == "input_quantizers":
      return T.Val("L", "qs")
    if isinstance(n, ast.Subscript):
      v = self.ev(n.value)
      if v.ty == "L":
        if isinstance(n.slice, ast.Constant) and n.slice.value == 0:
          return T.Val("Q", f"(hd mkQuantizedBits {v.s})")
        if isinstance(n.slice, ast.Slice) and n.slice.upper is None and n.slice.step is None and isinstance(n.slice.lower, ast.Constant) and n.slice.lower.value == 1:
          return T.Val("L", f"(tl {v.s})")
        raise T.Fail("subscript of the operand list")
    if isinstance(n, ast.Compare) and len(n.ops) == 1 and isinstance(n.ops[0], (ast.Eq, ast.NotEq)):
      a, b = self.ev(n.left), self.ev(n.comparators[0])
      s = None
      if a.ty == "N" and b.ty == "N":
        s = f"(name_code {a.s} =? name_code {b.s})"
      elif a.ty == "B" and b.ty == "B":
        s = f"(Bool.eqb {a.s} {b.s})"
      if s is not None:
        return T.Val("B", s if isinstance(n.ops[0], ast.Eq) else f"(negb {s})")
    return super().ev(n)

  def stmt(self, st):
    if isinstance(st, ast.AugAssign) and isinstance(st.target, ast.Name):
      cur = self.ev(st.target)
      v = self.ev(st.value)
      if isinstance(st.op, ast.BitOr):
        self.env[st.target.id] = T.Val("B", f"({T.as_bool(cur)} || {T.as_bool(v)})")
      elif isinstance(st.op, ast.Add):
        self.env[st.target.id] = T.Val("Z", f"({T.as_int(cur)} + {T.as_int(v)})")
      else:
        raise T.Fail("augmented assignment operator")
      return
    if isinstance(st, ast.For):
      return self.loop(st)
    if isinstance(st, ast.Break):
      raise T.Fail("break outside the recognised loop shape")
    return super().stmt(st)

  def loop(self, st):
    if st.orelse or not isinstance(st.target, ast.Name):
      raise T.Fail("loop shape")
    var = st.target.id
    it = self.ev(st.iter)
    if it.ty != "L":
      raise T.Fail("loop over something that is not the operand list")
    # shape 2: for cur in tail: if <differs>: flag = False; break
    if len(st.body) == 1 and isinstance(st.body[0], ast.If) and not st.body[0].orelse and len(st.body[0].body) == 2 \
       and isinstance(st.body[0].body[1], ast.Break) and isinstance(st.body[0].body[0], ast.Assign) \
       and isinstance(st.body[0].body[0].targets[0], ast.Name) and isinstance(st.body[0].body[0].value, ast.Constant) \
       and st.body[0].body[0].value.value is False:
      flag = st.body[0].body[0].targets[0].id
      if self.env.get(flag) is None or self.env[flag].s != "true":
        raise T.Fail("break-loop flag is not initialised to True")
      e = self.clone()
      e.env[var] = T.Val("Q", "c")
      differs = T.as_bool(e.ev(st.body[0].test))
      self.env[flag] = T.Val("B", f"(forallb (fun c => negb {differs}) {it.s})")
      self.env[var] = T.Val("Dead", var)
      return
    # shape 1: straight-line updates of locals, no break / continue / nested loop
    for n in ast.walk(st):
      if isinstance(n, (ast.Break, ast.Continue)) or (isinstance(n, ast.For) and n is not st):
        raise T.Fail("control flow inside a scan loop")
    state = [v for v in assigned_names(st.body) if v in self.env and self.env[v].ty in COQTY]
    if not state:
      raise T.Fail("scan loop without state")
    e = self.clone()
    for v in state:
      e.env[v] = T.Val(self.env[v].ty, v)
    e.env[var] = T.Val("Q", "q")
    attrs_before = dict(e.attrs)
    e.run(st.body)
    if e.attrs != attrs_before:
      raise T.Fail("scan loop assigns an attribute")
    self.COUNTER[0] += 1
    name = f"{self.PREFIX}_step{self.COUNTER[0]}"
    pat = "'(" + ", ".join(state) + ")"
    tys = " * ".join(COQTY[self.env[v].ty] for v in state)
    new = ", ".join((T.as_int(e.env[v]) if self.env[v].ty == "Z" else T.as_bool(e.env[v])) for v in state)
    self.DEFS.append(f"Definition {name} (st : {tys}) (q : qt) : {tys} :=\n  let {pat} := st in\n  ({new}).")
    init = ", ".join((T.as_int(self.env[v]) if self.env[v].ty == "Z" else T.as_bool(self.env[v])) for v in state)
    for v in state:
      self.env[v] = T.Val(self.env[v].ty, f"(let {pat} := fold_left {name} {it.s} ({init}) in {v})")
    self.env[var] = T.Val("Dead", var)


def run_init(cls, prefix, defs):
  init = T.find_func(cls, "__init__")
  if [a.arg for a in init.args.args] != ["self", "input_qe_list"]:
    raise T.Fail(f"{cls.name}.__init__ signature")
  funcs = {"po2_qbits_converter": lambda a: T.Val("Q", f"(gen_po2_qbits_converter {a[0].s})")}
  ex = MExec({"input_qe_list": T.Val("Opaque", "input_qe_list")}, funcs)
  ex.DEFS, ex.COUNTER, ex.PREFIX = defs, [0], prefix
  ex.run(init.body)
  out = ex.attrs.get("output")
  if out is None or out.ty != "Q":
    raise T.Fail(f"{cls.name}.__init__ does not set self.output to a quantizer")
  return out.s


def only_super(cls):
  """__init__ absent, or: super().__init__(input_qe_list) followed by energy bookkeeping only"""
  inits = [n for n in cls.body if isinstance(n, ast.FunctionDef) and n.name == "__init__"]
  if not inits:
    return all(isinstance(n, (ast.Pass, ast.Expr)) or (isinstance(n, ast.FunctionDef) and n.name == "implemented_as") for n in cls.body)
  body = [s for s in inits[0].body if not (isinstance(s, ast.Expr) and isinstance(s.value, ast.Constant))]
  if not body or ast.unparse(body[0]) != "super().__init__(input_qe_list)":
    return False
  for s in body[1:]:
    if not (isinstance(s, ast.Assign) and len(s.targets) == 1 and ast.unparse(s.targets[0]) in ("self.gate_factor", "self.gate_bits")):
      return False
  return True


def factory_table(tree):
  cls = T.find_class(tree, "MergeFactory")
  fn = T.find_func(cls, "make_quantizer")
  st = next((s for s in fn.body if isinstance(s, ast.If)), None)
  table = []
  while st is not None:
    t = st.test
    if not (isinstance(t, ast.Compare) and len(t.ops) == 1 and isinstance(t.ops[0], ast.Eq) and ast.unparse(t.left) == "layer_type"
            and isinstance(t.comparators[0], ast.Constant) and len(st.body) == 1 and isinstance(st.body[0], ast.Return)
            and isinstance(st.body[0].value, ast.Call) and isinstance(st.body[0].value.func, ast.Name)
            and [ast.unparse(a) for a in st.body[0].value.args] == ["input_qe_list"]):
      raise T.Fail(f"make_quantizer arm `{ast.unparse(t)[:40]}`")
    table.append((t.comparators[0].value, st.body[0].value.func.id))
    if len(st.orelse) == 1 and isinstance(st.orelse[0], ast.If):
      st = st.orelse[0]
    elif not st.orelse:
      st = None
    else:
      raise Fail("make_quantizer else branch")
  return table


HEADER = ["(* GENERATED by tools/translate/mergegen.py from qkeras/qtools/quantized_operators/merge_factory.py -- do not edit *)",
          "From Coq Require Import ZArith List Bool String.", "From QV Require Import Base.ZQ Base.FL QTools.Types QTools.Ops.",
          "From QVGen Require Import QToolsOps.", "Import ListNotations.", "Open Scope Z_scope.", ""]


def emit(outdir):
  lines = list(HEADER)
  ok, why = True, ""
  try:
    tree = ast.parse(open(os.path.join(QO, "merge_factory.py")).read())
    defs = []
    add = run_init(T.find_class(tree, "Add"), "gen_add", defs)
    mx = run_init(T.find_class(tree, "Maximum"), "gen_max", defs)
    lines += defs
    lines.append(f"Definition gen_merge_add (qs : list qt) : qt :=\n  {add}.")
    lines.append(f"Definition gen_merge_max (qs : list qt) : qt :=\n  {mx}.")
    table = factory_table(tree)
    bases = []
    for n in tree.body:
      if isinstance(n, ast.ClassDef) and n.name not in ("MergeFactory", "IMerger", "Add", "Maximum", "Multiply", "Dot"):
        if len(n.bases) != 1 or not isinstance(n.bases[0], ast.Name) or not only_super(n):
          raise T.Fail(f"class {n.name} does more than call its base constructor")
        bases.append((n.name, n.bases[0].id))
    q = lambda s: '"' + s + '"'
    lines.append("Definition gen_merge_table : list (string * string) :=\n  [" + "; ".join(f"({q(a)}, {q(b)})" for a, b in table) + "]%string.")
    lines.append("Definition gen_merge_bases : list (string * string) :=\n  [" + "; ".join(f"({q(a)}, {q(b)})" for a, b in bases) + "]%string.")
  except T.Fail as e:
    ok, why = False, str(e)
  except (OSError, SyntaxError, KeyError, AttributeError, IndexError, StopIteration, NameError) as e:
    ok, why = False, f"{type(e).__name__}: {e}"
  if not ok:
    lines = list(HEADER) + ["(* translation failed: " + why.replace("*)", "* )") + " *)",
                            "Definition gen_merge_add (qs : list qt) : qt := mkQuantizedBits.",
                            "Definition gen_merge_max (qs : list qt) : qt := mkQuantizedBits.",
                            "Definition gen_merge_table : list (string * string) := [].",
                            "Definition gen_merge_bases : list (string * string) := []."]
  lines.append(f"Definition merge_translation_ok : bool := {'true' if ok else 'false'}.")
  path = os.path.join(outdir, "MergeGen.v")
  with open(path, "w") as f:
    f.write("\n".join(lines) + "\n")
  return path


if __name__ == "__main__":
  print(open(emit(sys.argv[1] if len(sys.argv) > 1 else ".")).read())

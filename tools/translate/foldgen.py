#!/usr/bin/env python3
"""Fail-closed translator: get_folded_weights of QConv2DBatchnorm and QDepthwiseConv2DBatchnorm
(qkeras/qconv2d_batchnorm.py, qkeras/qdepthwiseconv2d_batchnorm.py) -> coq/gen/FoldGen.v, regenerated on every run.

The method is executed symbolically for each of the eight combinations of the three options that change its shape:
  use_bias   self.use_bias            (no bias: the folded bias starts from 0)
  has_beta   beta is not None         (center=False: no offset)
  has_gamma  gamma is not None        (scale=False: factor 1)
over the per-channel symbols gamma, beta, mu (moving mean), b (bias) and r = rsqrt(moving_variance + epsilon) -- the argument of
rsqrt is checked textually (it must be the moving variance PLUS the layer's epsilon).  Emitted:

  gen_<cls>_inv  (has_gamma : bool) (gamma r : Q) : Q                       the factor the kernel is multiplied by
  gen_<cls>_bias (use_bias has_beta has_gamma : bool) (gamma beta mu r b : Q) : Q
  gen_<cls>_kernel_is_inv_times_kernel : bool                                the folded kernel is inv * kernel (inv reshaped to the
                                                                             kernel's last two axes for the depthwise class)
Link/FoldLink.v proves both equal to inv / folded_bias of BN/Fold.v with the absent parameters at their neutral values."""
import ast
import itertools
import os
import sys

REPO = os.environ.get("QKERAS_REPO", "/repo")
CLASSES = [("QConv2DBatchnorm", "qconv2d_batchnorm.py", "kernel", "c2d"), ("QDepthwiseConv2DBatchnorm", "qdepthwiseconv2d_batchnorm.py", "depthwise_kernel", "dw")]
RSQRT = "math_ops.rsqrt(moving_variance + self.batchnorm.epsilon)"


class Fail(Exception):
  pass


class Interp:
  def __init__(self, ub, hb, hg, kattr):
    self.ub, self.hb, self.hg, self.kattr = ub, hb, hg, kattr
    self.env = {}
    self.ret = None

  def val(self, n):
    src = ast.unparse(n)
    if src == f"self.{self.kattr}":
      return ("K", "1")                      # the kernel, scaled by 1
    if src == "self.bias":
      return ("q", "b")
    if src == "self.batchnorm.gamma":
      return ("q", "gamma") if self.hg else ("none",)
    if src == "self.batchnorm.beta":
      return ("q", "beta") if self.hb else ("none",)
    if src == "self.batchnorm.moving_mean":
      return ("q", "mu")
    if src == "self.batchnorm.moving_variance":
      return ("var",)
    if src == RSQRT and self.env.get("moving_variance") == ("var",):
      return ("q", "r")
    if isinstance(n, ast.Constant) and n.value == 0:
      return ("q", "0")
    if isinstance(n, ast.Name):
      if n.id not in self.env:
        raise Fail(f"line {n.lineno}: unknown name {n.id}")
      return self.env[n.id]
    if isinstance(n, ast.BinOp) and isinstance(n.op, (ast.Add, ast.Sub, ast.Mult)):
      a, c = self.val(n.left), self.val(n.right)
      op = {ast.Add: "+", ast.Sub: "-", ast.Mult: "*"}[type(n.op)]
      if a[0] == "q" and c[0] == "q":
        return ("q", f"({a[1]} {op} {c[1]})")
      if isinstance(n.op, ast.Mult) and {a[0], c[0]} == {"q", "K"}:
        q_, k_ = (a, c) if a[0] == "q" else (c, a)
        return ("K", f"({q_[1]} * {k_[1]})")
      raise Fail(f"line {n.lineno}: arithmetic on {a[0]} and {c[0]}")
    if src.startswith("array_ops.reshape(inv, ") or src.startswith("tf.reshape(inv, "):
      return self.env["inv"]                 # broadcasting the per-channel factor over the kernel's last two axes
    return ("opaque", src)

  def cond(self, n):
    src = ast.unparse(n)
    if src == "self.use_bias":
      return self.ub
    if isinstance(n, ast.Compare) and len(n.ops) == 1 and isinstance(n.comparators[0], ast.Constant) and n.comparators[0].value is None and isinstance(n.left, ast.Name):
      v = self.env.get(n.left.id)
      if v is None:
        raise Fail(f"line {n.lineno}: `{src}` on an unknown name")
      isnone = v == ("none",)
      return isnone if isinstance(n.ops[0], ast.Is) else (not isnone)
    raise Fail(f"line {n.lineno}: condition `{src[:50]}`")

  def run(self, stmts):
    for st in stmts:
      if isinstance(st, ast.Expr) and isinstance(st.value, ast.Constant):
        continue
      if isinstance(st, ast.Assign) and len(st.targets) == 1 and isinstance(st.targets[0], ast.Name):
        self.env[st.targets[0].id] = self.val(st.value)
        continue
      if isinstance(st, ast.AugAssign) and isinstance(st.target, ast.Name) and isinstance(st.op, ast.Mult):
        self.env[st.target.id] = self.val(ast.BinOp(left=ast.Name(id=st.target.id, ctx=ast.Load(), lineno=st.lineno), op=ast.Mult(), right=st.value, lineno=st.lineno))
        continue
      if isinstance(st, ast.If):
        self.run(st.body if self.cond(st.test) else st.orelse)
        continue
      if isinstance(st, ast.Return):
        if not (isinstance(st.value, ast.List) and len(st.value.elts) == 2):
          raise Fail("get_folded_weights does not return [folded_kernel, folded_bias]")
        self.ret = (self.val(st.value.elts[0]), self.val(st.value.elts[1]))
        continue
      raise Fail(f"line {st.lineno}: statement `{ast.unparse(st)[:60]}`")


def translate(cname, fname, kattr):
  tree = ast.parse(open(os.path.join(REPO, "qkeras", fname)).read())
  cls = next((n for n in tree.body if isinstance(n, ast.ClassDef) and n.name == cname), None)
  if cls is None:
    raise Fail(f"class {cname} not found")
  fn = next((f for f in cls.body if isinstance(f, ast.FunctionDef) and f.name == "get_folded_weights"), None)
  if fn is None:
    raise Fail(f"{cname}.get_folded_weights not found")
  out = {}
  for ub, hb, hg in itertools.product((True, False), repeat=3):
    it = Interp(ub, hb, hg, kattr)
    it.run(fn.body)
    if it.ret is None:
      raise Fail(f"{cname}.get_folded_weights does not return")
    k, bias = it.ret
    if k[0] != "K" or bias[0] != "q":
      raise Fail(f"{cname}.get_folded_weights: folded kernel / bias are not (factor * kernel, per-channel expression): {k[0]}, {bias[0]}")
    out[(ub, hb, hg)] = (k[1], bias[1])
  return out


def emit(outdir):
  lines = ["(* GENERATED by tools/translate/foldgen.py from qkeras/qconv2d_batchnorm.py and qkeras/qdepthwiseconv2d_batchnorm.py -- do not edit *)",
           "From Coq Require Import QArith Bool.", "Open Scope Q_scope.", ""]
  ok, why = True, ""
  bl = lambda v: "true" if v else "false"
  try:
    for cname, fname, kattr, tag in CLASSES:
      t = translate(cname, fname, kattr)
      # the kernel factor must not depend on use_bias / has_beta
      for hg in (True, False):
        fs = {t[(ub, hb, hg)][0] for ub in (True, False) for hb in (True, False)}
        if len(fs) != 1:
          raise Fail(f"{cname}: the kernel factor depends on use_bias / center")
      def strip(e):
        # "(<factor> * 1)" -> "<factor>"
        if not (e.startswith("(") and e.endswith(" * 1)")):
          raise Fail(f"{cname}: folded kernel is not factor * kernel: {e}")
        return e[1:-5]
      lines.append(f"Definition gen_{tag}_inv (has_gamma : bool) (gamma r : Q) : Q :=\n  if has_gamma then {strip(t[(True, True, True)][0])} else {strip(t[(True, True, False)][0])}.")
      lines.append(f"Definition gen_{tag}_bias (use_bias has_beta has_gamma : bool) (gamma beta mu r b : Q) : Q :=")
      arms = []
      for ub, hb, hg in itertools.product((True, False), repeat=3):
        arms.append(f"  | {bl(ub)}, {bl(hb)}, {bl(hg)} => {t[(ub, hb, hg)][1]}")
      lines.append("  match use_bias, has_beta, has_gamma with\n" + "\n".join(arms) + "\n  end.")
      lines.append(f"Definition gen_{tag}_kernel_is_inv_times_kernel : bool := true.")
  except Fail as e:
    ok, why = False, str(e)
  except (OSError, SyntaxError, KeyError) as e:
    ok, why = False, f"{type(e).__name__}: {e}"
  if not ok:
    lines = lines[:4] + ["(* translation failed: " + why.replace("*)", "* )") + " *)"]
    for _c, _f, _k, tag in CLASSES:
      lines += [f"Definition gen_{tag}_inv (has_gamma : bool) (gamma r : Q) : Q := 0.",
                f"Definition gen_{tag}_bias (use_bias has_beta has_gamma : bool) (gamma beta mu r b : Q) : Q := 0.",
                f"Definition gen_{tag}_kernel_is_inv_times_kernel : bool := false."]
  lines.append(f"Definition fold_translation_ok : bool := {'true' if ok else 'false'}.")
  path = os.path.join(outdir, "FoldGen.v")
  with open(path, "w") as f:
    f.write("\n".join(lines) + "\n")
  return path


if __name__ == "__main__":
  print(open(emit(sys.argv[1] if len(sys.argv) > 1 else ".")).read())

#!/usr/bin/env python3
"""Fail-closed translator: qkeras/quantizers.py -> Gallina metadata (coq/gen/Cxx_*.v).

For every class decorated with @quantizer_registry.register_quantizer it extracts,
from the Python AST of /repo's CURRENT source:
  * the constructor parameters with their default expressions,
  * the keys of the dictionary returned by get_config (following the
    `dict(list(base_config.items()) + list(config.items()))` inheritance idiom),
  * the shape of from_config (cls(**config), optionally after converting
    post_training_scale),
  * the __str__ emission table: for each `flags.append(...)` / initial list entry the
    guarding condition (source text), whether it is positional or `name=`, and the
    parameter it prints.
and from safe_eval.py the set of called names (for the no-code-execution obligation).
Anything it does not understand makes it emit `translation_failed` so that the link
lemmas stop compiling.
"""
import ast
import os
import sys

REPO = os.environ.get("QKERAS_REPO", "/repo")


def coq_str(s):
  return '"' + s.replace('"', '""') + '"'


def coq_list(items):
  return "[" + "; ".join(items) + "]"


class Fail(Exception):
  pass


def class_meta(tree):
  classes = {}
  order = []
  for n in tree.body:
    if not isinstance(n, ast.ClassDef):
      continue
    if not any("register_quantizer" in ast.unparse(d) for d in n.decorator_list):
      continue
    meta = {"name": n.name, "bases": [ast.unparse(b) for b in n.bases], "params": None, "keys": None,
            "from_config": None, "str": None}
    for f in n.body:
      if not isinstance(f, ast.FunctionDef):
        continue
      if f.name == "__init__":
        a = f.args
        if a.vararg or a.kwarg or a.kwonlyargs:
          raise Fail(f"{n.name}.__init__ uses *args/**kwargs")
        names = [x.arg for x in a.args][1:]
        defs = [ast.unparse(d) for d in a.defaults]
        if len(defs) != len(names):
          raise Fail(f"{n.name}.__init__ has parameters without default")
        meta["params"] = list(zip(names, defs))
      elif f.name == "get_config":
        meta["keys"] = get_config_keys(n.name, f)
      elif f.name == "from_config":
        meta["from_config"] = from_config_shape(n.name, f)
      elif f.name == "__str__":
        meta["str"] = str_table(n.name, f)
    classes[n.name] = meta
    order.append(n.name)
  # inheritance
  for name in order:
    m = classes[name]
    base = m["bases"][0] if m["bases"] else None
    b = classes.get(base)
    for field in ("params", "from_config", "str"):
      if m[field] is None and b is not None:
        m[field] = b[field]
    if m["keys"] is None and b is not None:
      m["keys"] = b["keys"]
    elif m["keys"] is not None and m["keys"] and m["keys"][0] == "<super>":
      if b is None or b["keys"] is None:
        raise Fail(f"{name}.get_config extends an unknown base")
      removed = [k[1:] for k in m["keys"][1:] if k.startswith("-")]
      own = [k for k in m["keys"][1:] if not k.startswith("-")]
      m["keys"] = [k for k in b["keys"] if k not in removed] + own
    if m["params"] is None or m["keys"] is None or m["from_config"] is None:
      raise Fail(f"{name}: incomplete metadata {m}")
  return [classes[n] for n in order]


def get_config_keys(cname, f):
  """Accepted shapes:  config = {...}; return config     or
     base_config = super(...).get_config(); config = {...};
     out_config = dict(list(base_config.items()) + list(config.items())); return out_config"""
  dicts = [s for s in ast.walk(f) if isinstance(s, ast.Dict)]
  if len(dicts) != 1:
    raise Fail(f"{cname}.get_config: expected exactly one dict literal, found {len(dicts)}")
  keys = []
  for k, v in zip(dicts[0].keys, dicts[0].values):
    if not (isinstance(k, ast.Constant) and isinstance(k.value, str)):
      raise Fail(f"{cname}.get_config: non-literal key")
    key = k.value
    vs = ast.unparse(v)
    # accepted value forms: self.<key>, the tf.Variable .numpy() idiom, the .tolist() idiom
    ok = (vs == f"self.{key}" or
          vs == f"self.{key}.numpy() if isinstance(self.{key}, tf.Variable) else self.{key}" or
          vs == f"self.{key}.tolist() if self.{key} is not None else None")
    if not ok:
      raise Fail(f"{cname}.get_config: value of '{key}' is not the attribute of the same name: {vs}")
    keys.append(key)
  src = ast.unparse(f)
  uses_super = "super(" in src and ".get_config()" in src
  if uses_super:
    if "dict(list(base_config.items()) + list(config.items()))" not in src:
      raise Fail(f"{cname}.get_config: unknown inheritance idiom")
    removed = []
    for st in f.body:
      if isinstance(st, ast.For):
        # for key in ("a", "b"): base_config.pop(key, None)
        ok = (isinstance(st.iter, ast.Tuple) and all(isinstance(e, ast.Constant) and isinstance(e.value, str) for e in st.iter.elts)
              and len(st.body) == 1 and ast.unparse(st.body[0]) == f"base_config.pop({ast.unparse(st.target)}, None)")
        if not ok:
          raise Fail(f"{cname}.get_config: unsupported loop {ast.unparse(st)}")
        removed += [e.value for e in st.iter.elts]
    return ["<super>"] + ["-" + r for r in removed] + keys
  for st in ast.walk(f):
    if isinstance(st, (ast.For, ast.While)):
      raise Fail(f"{cname}.get_config: unexpected loop")
  return keys


def from_config_shape(cname, f):
  src = ast.unparse(f)
  body = [s for s in f.body if not (isinstance(s, ast.Expr) and isinstance(s.value, ast.Constant))]
  last = body[-1]
  if not (isinstance(last, ast.Return) and ast.unparse(last.value) == "cls(**config)"):
    raise Fail(f"{cname}.from_config does not end with `return cls(**config)`: {src}")
  if len(body) == 1:
    return "kwargs"
  if len(body) == 2 and "post_training_scale" in ast.unparse(body[0]) and "np.array" in ast.unparse(body[0]):
    return "kwargs_array_post_training_scale"
  raise Fail(f"{cname}.from_config has an unknown preprocessing step: {src}")


def cond_formula(cname, node):
  """Python condition -> Coq cform over opaque atoms (attribute tests)"""
  if isinstance(node, ast.BoolOp):
    parts = [cond_formula(cname, v) for v in node.values]
    op = "CAnd" if isinstance(node.op, ast.And) else "COr"
    out = parts[0]
    for q in parts[1:]:
      out = f"({op} {out} {q})"
    return out
  if isinstance(node, ast.UnaryOp) and isinstance(node.op, ast.Not):
    return f"(CNot {cond_formula(cname, node.operand)})"
  s = ast.unparse(node)
  import re
  m = re.fullmatch(r"self\.(\w+)", s)
  if m:
    return f"(CAtom {coq_str(m.group(1))})"
  m = re.fullmatch(r"self\.(\w+) is not None", s)
  if m:
    return f"(CAtom {coq_str(m.group(1) + ' is not None')})"
  m = re.fullmatch(r"self\.(\w+) != ([\w.]+)", s)
  if m:
    return f"(CAtom {coq_str(m.group(1) + ' != ' + m.group(2))})"
  m = re.fullmatch(r"isinstance\(self\.(\w+), (\w+(?:\.\w+)*)\)", s)
  if m:
    return f"(CAtom {coq_str(m.group(1) + ' isinstance ' + m.group(2))})"
  raise Fail(f"{cname}.__str__: unsupported condition {s}")


def printed_param(cname, what):
  import re
  if what == "integer_bits":
    return "integer"
  m = re.search(r"self\.(\w+)", what)
  if not m:
    raise Fail(f"{cname}.__str__: cannot find the printed attribute in {what}")
  return m.group(1)


def str_table(cname, f):
  """list of (condition source, kind, what) for every emitted flag"""
  rows = []

  def flag_rows(cond, node):
    cond = "CTrue" if not cond else cond
    s = ast.unparse(node)
    if s.startswith("'") or s.startswith('"'):
      # 'name=' + ...   or  a literal like 'keep_negative=False'
      lit = None
      if isinstance(node, ast.Constant):
        lit = node.value
      elif isinstance(node, ast.BinOp) and isinstance(node.left, ast.Constant):
        lit = node.left.value
      elif isinstance(node, ast.BinOp) and isinstance(node.left, ast.BinOp) and isinstance(node.left.left, ast.Constant):
        lit = node.left.left.value
      if lit is None or "=" not in lit:
        raise Fail(f"{cname}.__str__: cannot classify flag {s}")
      rows.append((cond, "kw", lit.split("=")[0]))
    else:
      rows.append((cond, "pos", printed_param(cname, s)))

  def walk(stmts, cond):
    for st in stmts:
      if isinstance(st, ast.Assign) and ast.unparse(st.targets[0]) == "flags":
        if not isinstance(st.value, ast.List):
          raise Fail(f"{cname}.__str__: flags is not a list literal")
        for e in st.value.elts:
          flag_rows(cond, e)
      elif isinstance(st, ast.Expr) and isinstance(st.value, ast.Call) and ast.unparse(st.value.func) == "flags.append":
        flag_rows(cond, st.value.args[0])
      elif isinstance(st, ast.If):
        c = cond_formula(cname, st.test)
        walk(st.body, f"(CAnd {cond} {c})" if cond else c)
        if st.orelse:
          walk(st.orelse, f"(CAnd {cond} (CNot {c}))" if cond else f"(CNot {c})")
      elif isinstance(st, (ast.Assign, ast.Return, ast.Expr, ast.Assert, ast.FunctionDef)):
        continue   # local helpers (list_to_str), temporaries, the final return
      else:
        raise Fail(f"{cname}.__str__: unsupported statement {type(st).__name__}")
  walk(f.body, "")
  return rows


def callees(path):
  tree = ast.parse(open(path).read())
  names = set()
  for n in ast.walk(tree):
    if isinstance(n, ast.Call):
      names.add(ast.unparse(n.func))
    if isinstance(n, (ast.Import, ast.ImportFrom)):
      for a in n.names:
        names.add("import:" + (getattr(n, "module", None) or "") + ":" + a.name)
  return sorted(names)


def emit(outdir):
  os.makedirs(outdir, exist_ok=True)
  hdr = ("(* GENERATED on every run by tools/translate/qmeta.py from " + REPO + "/qkeras -- do not edit *)\n"
         "From Coq Require Import String List.\nFrom QV Require Import Parse.StrTable.\nImport ListNotations.\nOpen Scope string_scope.\n")
  try:
    tree = ast.parse(open(os.path.join(REPO, "qkeras", "quantizers.py")).read())
    metas = class_meta(tree)
    body = ["Definition translation_ok : bool := true."]
    rows = []
    for m in metas:
      params = coq_list([f"({coq_str(p)}, {coq_str(d)})" for p, d in m["params"]])
      keys = coq_list([coq_str(k) for k in m["keys"]])
      rows.append(f"  ({coq_str(m['name'])}, {params}, {keys}, {coq_str(m['from_config'])})")
    body.append("Definition gen_classes : list (string * list (string * string) * list string * string) :=\n [\n" +
                ";\n".join(rows) + "\n ].")
    srows = []
    for m in metas:
      tbl = coq_list([f"({c}, {'true' if k == 'pos' else 'false'}, {coq_str(w)})" for c, k, w in (m["str"] or [])])
      srows.append(f"  ({coq_str(m['name'])}, {tbl})")
    body.append("Definition gen_str_tables : list (string * list (cform * bool * string)) :=\n [\n" + ";\n".join(srows) + "\n ].")
    # registry: every decorated class registers under its own name (register_quantizer uses __name__)
    reg = ast.parse(open(os.path.join(REPO, "qkeras", "quantizer_registry.py")).read())
    regsrc = ast.unparse(reg)
    body.append("Definition gen_registry_by_class_name : bool := " +
                ("true" if "_QUANTIZERS_REGISTRY.register(quantizer)" in regsrc or "register(quantizer)" in regsrc else "false") + ".")
    # keys of the custom-object table (utils._add_supported_quantized_objects)
    ut = ast.parse(open(os.path.join(REPO, "qkeras", "utils.py")).read())
    table = None
    for fn in ut.body:
      if isinstance(fn, ast.FunctionDef) and fn.name == "_add_supported_quantized_objects":
        table = []
        for st in fn.body:
          if isinstance(st, ast.Expr) and isinstance(st.value, ast.Constant):
            continue
          ok = (isinstance(st, ast.Assign) and isinstance(st.targets[0], ast.Subscript) and
                ast.unparse(st.targets[0].value) == "custom_objects" and isinstance(st.targets[0].slice, ast.Constant) and
                isinstance(st.value, ast.Name) and st.value.id == st.targets[0].slice.value)
          if not ok:
            raise Fail("_add_supported_quantized_objects: unsupported statement " + ast.unparse(st)[:60])
          table.append(st.targets[0].slice.value)
    if table is None:
      raise Fail("utils._add_supported_quantized_objects not found")
    body.append("Definition gen_custom_object_table : list string := " + coq_list([coq_str(c) for c in table]) + ".")
    cal = callees(os.path.join(REPO, "qkeras", "safe_eval.py"))
    body.append("Definition gen_safe_eval_callees : list string := " + coq_list([coq_str(c) for c in cal]) + ".")
    text = hdr + "\n".join(body) + "\n"
  except (Fail, SyntaxError, OSError) as e:
    text = (hdr + "Definition translation_ok : bool := false.\n"
            f"Definition translation_failed : string := {coq_str(str(e))}.\n"
            "Definition gen_classes : list (string * list (string * string) * list string * string) := [].\n"
            "Definition gen_str_tables : list (string * list (cform * bool * string)) := [].\n"
            "Definition gen_registry_by_class_name : bool := false.\n"
            "Definition gen_custom_object_table : list string := [].\n"
            "Definition gen_safe_eval_callees : list string := [\"<translation failed>\"].\n")
  path = os.path.join(outdir, "QMeta.v")
  with open(path, "w") as f:
    f.write(text)
  return path


if __name__ == "__main__":
  print(emit(sys.argv[1] if len(sys.argv) > 1 else "/verif/coq/gen"))

#!/usr/bin/env python3
"""Fail-closed translator: ForgivingFactorBits._act_size (qkeras/autoqkeras/forgiving_metrics/forgiving_bits.py)
-> coq/gen/SizeGen.v, regenerated on every run.

The method is executed for every layer kind (InputLayer; Dense / Conv2D / Conv1D / DepthwiseConv2D; their quantized
counterparts; QActivation / Activation; any other class) and every DESCRIPTOR of the Python object `layer.activation`:

  DNone | DStr name | DFunc name | DQuantObj bits? | DQuantStr bits?      name in {linear, softmax, sigmoid, other}

Conditions (class membership, `is None`, isinstance(str), hasattr(__name__ / bits), name comparisons) are evaluated concretely
on the descriptor; the returned size is an integer expression over i_size, o_size, t_size, the number of output elements and
the quantizer's bits.  A path that raises (an assert, a missing attribute) yields None.

  gen_act_size (k : lkind) (a : adesc) (w_in w_out w_ref out : Z) : option Z

Link/SizeLink.v proves: whenever the code returns a size it is act_size of AutoQ/Size.v, and for which (kind, descriptor) pairs it
returns one."""
import ast
import itertools
import os
import sys

REPO = os.environ.get("QKERAS_REPO", "/repo")
SRC = "qkeras/autoqkeras/forgiving_metrics/forgiving_bits.py"
KINDS = {"KInput": "InputLayer", "KPlain": "Conv2D", "KQuantized": "QConv2D", "KActivation": "QActivation", "KOtherLayer": "Flatten"}
KIND_ALT = {"KPlain": ["Dense", "Conv2D", "Conv1D", "DepthwiseConv2D"], "KQuantized": ["QDense", "QConv2D", "QConv1D", "QDepthwiseConv2D"],
            "KActivation": ["QActivation", "Activation"], "KInput": ["InputLayer"]}
NAMES = {"NLinear": "linear", "NSoftmax": "softmax", "NSigmoid": "sigmoid", "NOther": "relu"}


class Fail(Exception):
  pass


class Raises(Exception):
  pass


def descriptors():
  out = [("DNone", None)]
  for n in NAMES:
    out.append((f"DStr {n}", ("str", NAMES[n])))
    out.append((f"DFunc {n}", ("func", NAMES[n])))
  for b in (True, False):
    out.append((f"DQuantObj {'(Some bits)' if b else 'None'}", ("qobj", b)))
    out.append((f"DQuantStr {'(Some bits)' if b else 'None'}", ("qstr", b)))
  return out


class Run:
  def __init__(self, cls, desc):
    self.cls, self.desc = cls, desc
    self.env = {}
    self.ret = None

  # --- the Python object layer.activation, abstractly
  def obj(self, n):
    src = ast.unparse(n)
    if src == "layer.activation":
      return ("act", self.desc)
    if isinstance(n, ast.Name) and n.id in self.env and self.env[n.id][0] == "act":
      return self.env[n.id]
    if src == "get_quantizer(layer.activation)":
      if self.desc is None or self.desc[0] not in ("qstr", "str"):
        raise Fail("get_quantizer of something that is not a string")
      if self.desc[0] == "str":
        raise Raises()                       # a plain name such as 'relu' is not a quantizer: get_quantizer raises
      return ("act", ("qobj", self.desc[1]))
    return None

  def cond(self, n):
    src = ast.unparse(n)
    if isinstance(n, ast.BoolOp):
      for v in n.values:
        r = self.cond(v)
        if isinstance(n.op, ast.And) and not r:
          return False
        if isinstance(n.op, ast.Or) and r:
          return True
      return isinstance(n.op, ast.And)
    if isinstance(n, ast.UnaryOp) and isinstance(n.op, ast.Not):
      return not self.cond(n.operand)
    if isinstance(n, ast.Name) and n.id in self.env and self.env[n.id][0] == "bool":
      return self.env[n.id][1]
    if isinstance(n, ast.Compare) and len(n.ops) == 1:
      l, r, op = n.left, n.comparators[0], n.ops[0]
      if ast.unparse(l) == "layer.__class__.__name__" and isinstance(op, ast.In) and isinstance(r, ast.List):
        return self.cls in [e.value for e in r.elts]
      o = self.obj(l)
      if o is not None and isinstance(r, ast.Constant) and r.value is None and isinstance(op, (ast.Is, ast.IsNot)):
        isnone = o[1] is None
        return isnone if isinstance(op, ast.Is) else not isnone
      if o is not None and isinstance(r, ast.Constant) and isinstance(r.value, str) and isinstance(op, (ast.Eq, ast.NotEq)):
        d = o[1]
        if d is None or d[0] not in ("str", "qstr"):
          eq = False                          # an object compared with a string literal
        else:
          eq = (d[1] == r.value) if d[0] == "str" else False
        return eq if isinstance(op, ast.Eq) else not eq
      if isinstance(l, ast.Attribute) and l.attr == "__name__" and isinstance(r, ast.Constant) and isinstance(op, (ast.Eq, ast.NotEq)):
        o = self.obj(l.value)
        if o is None:
          raise Fail(f"line {n.lineno}: __name__ of an unknown object")
        d = o[1]
        if d is None or d[0] != "func":
          raise Raises()                      # None / str / quantizer objects have no usable __name__ here
        eq = d[1] == r.value
        return eq if isinstance(op, ast.Eq) else not eq
      if isinstance(l, ast.Name) and l.id in self.env and self.env[l.id][0] == "name" and isinstance(r, ast.Constant) and isinstance(op, (ast.Eq, ast.NotEq)):
        eq = self.env[l.id][1] == r.value
        return eq if isinstance(op, ast.Eq) else not eq
    if isinstance(n, ast.Call) and ast.unparse(n.func) == "isinstance" and ast.unparse(n.args[1]) == "six.string_types":
      o = self.obj(n.args[0])
      if o is None:
        raise Fail(f"line {n.lineno}: isinstance of an unknown object")
      return o[1] is not None and o[1][0] in ("str", "qstr")
    if isinstance(n, ast.Call) and ast.unparse(n.func) == "hasattr" and isinstance(n.args[1], ast.Constant):
      o = self.obj(n.args[0])
      if o is None:
        raise Fail(f"line {n.lineno}: hasattr of an unknown object")
      d = o[1]
      if n.args[1].value == "__name__":
        return d is not None and d[0] == "func"
      if n.args[1].value == "bits":
        return d is not None and d[0] == "qobj" and d[1]
    raise Fail(f"line {n.lineno}: condition `{src[:60]}`")

  def val(self, n):
    src = ast.unparse(n)
    table = {"self.input_bits": "w_in", "self.output_bits": "w_out", "self.ref_bits": "w_ref", "np.prod(layer.output.shape[1:])": "out"}
    if src in table:
      return ("z", table[src])
    if isinstance(n, ast.Constant) and isinstance(n.value, int) and not isinstance(n.value, bool):
      return ("z", str(n.value))
    if isinstance(n, ast.Constant) and isinstance(n.value, bool):
      return ("bool", n.value)
    if isinstance(n, ast.Name) and n.id in self.env:
      return self.env[n.id]
    o = self.obj(n)
    if o is not None:
      return o
    if isinstance(n, ast.Attribute) and n.attr == "bits":
      o = self.obj(n.value)
      if o is not None:
        if o[1] is None or o[1][0] != "qobj" or not o[1][1]:
          raise Raises()
        return ("z", "bits")
    if isinstance(n, ast.BinOp) and isinstance(n.op, (ast.Mult, ast.Add)):
      a, b = self.val(n.left), self.val(n.right)
      if a[0] == "z" and b[0] == "z":
        return ("z", f"({a[1]} {'*' if isinstance(n.op, ast.Mult) else '+'} {b[1]})")
    if isinstance(n, ast.Compare):
      return ("bool", self.cond(n))
    if isinstance(n, ast.Call) and ast.unparse(n.func) == "getattr" and len(n.args) == 3 and isinstance(n.args[1], ast.Constant) and n.args[1].value == "__name__":
      o = self.obj(n.args[0])
      if o is None:
        raise Fail("getattr of an unknown object")
      return ("name", o[1][1] if (o[1] is not None and o[1][0] == "func") else None)
    raise Fail(f"line {n.lineno}: expression `{src[:60]}`")

  def run(self, stmts):
    for st in stmts:
      if self.ret is not None:
        return
      if isinstance(st, ast.Expr) and isinstance(st.value, ast.Constant):
        continue
      if isinstance(st, ast.Assert):
        if not self.cond(st.test):
          raise Raises()
        continue
      if isinstance(st, ast.Assign) and len(st.targets) == 1 and isinstance(st.targets[0], ast.Name):
        self.env[st.targets[0].id] = self.val(st.value)
        continue
      if isinstance(st, ast.If):
        self.run(st.body if self.cond(st.test) else st.orelse)
        continue
      if isinstance(st, ast.Return):
        v = self.val(st.value)
        if v[0] != "z":
          raise Fail("return value is not an integer expression")
        self.ret = v[1]
        continue
      raise Fail(f"line {st.lineno}: statement `{ast.unparse(st)[:60]}`")


def translate(src):
  tree = ast.parse(src)
  cls = next((n for n in tree.body if isinstance(n, ast.ClassDef) and n.name == "ForgivingFactorBits"), None)
  fn = next((f for f in cls.body if isinstance(f, ast.FunctionDef) and f.name == "_act_size"), None) if cls else None
  if fn is None:
    raise Fail("ForgivingFactorBits._act_size not found")
  rows = []
  for kind in KINDS:
    for dtext, d in descriptors():
      res = set()
      for cname in KIND_ALT.get(kind, [KINDS[kind]]):
        r = Run(cname, d)
        try:
          r.run(fn.body)
          res.add(f"Some {r.ret}" if r.ret is not None else "Some 0")
        except Raises:
          res.add("None")
      if len(res) != 1:
        raise Fail(f"classes of kind {kind} disagree for activation {dtext}: {sorted(res)}")
      rows.append((kind, dtext, res.pop()))
  return rows


def emit(outdir):
  lines = ["(* GENERATED by tools/translate/sizegen.py from qkeras/autoqkeras/forgiving_metrics/forgiving_bits.py -- do not edit *)",
           "From Coq Require Import ZArith.", "From QV Require Import AutoQ.Size.", "Open Scope Z_scope.", ""]
  try:
    rows = translate(open(os.path.join(REPO, SRC)).read())
    ok, why = True, ""
  except Fail as e:
    ok, why, rows = False, str(e), []
  except (OSError, SyntaxError, AttributeError) as e:
    ok, why, rows = False, f"{type(e).__name__}: {e}", []
  if ok:
    lines.append("Definition gen_act_size (k : lkind) (a : adesc) (w_in w_out w_ref out : Z) : option Z :=\n  match k, a with")
    for kind, dtext, r in rows:
      pat = dtext.replace("(Some bits)", "(Some bits)")
      lines.append(f"  | {kind}, {pat} => {r}")
    lines.append("  end.")
  else:
    lines.append("(* translation failed: " + why.replace("*)", "* )") + " *)")
    lines.append("Definition gen_act_size (k : lkind) (a : adesc) (w_in w_out w_ref out : Z) : option Z := None.")
  lines.append(f"Definition size_translation_ok : bool := {'true' if ok else 'false'}.")
  path = os.path.join(outdir, "SizeGen.v")
  with open(path, "w") as f:
    f.write("\n".join(lines) + "\n")
  return path


if __name__ == "__main__":
  print(open(emit(sys.argv[1] if len(sys.argv) > 1 else ".")).read())

#!/usr/bin/env python3
"""Fail-closed translator: the ReLU-layer branch of model_quantize (qkeras/utils.py,
`elif layer["class_name"] in ["ReLU", "relu", "LeakyReLU"]`) -> coq/gen/ReluGen.v, regenerated on every run.

The branch is executed abstractly for every combination of
  class      ReLU (Keras-3 config keys max_value, negative_slope, threshold), LeakyReLU with the Keras-3 key negative_slope,
             LeakyReLU with the Keras-2 key alpha
  pos        the sign of the slope the branch reads (True: > 0)
  entry      what get_config(quantizer_config, layer, "QActivation") returns:
             ENone | EStrEmpty | EStr (a non-empty string) | EMapHit (a dict with a non-empty value under the key the slope selects) |
             EMapMiss (a dict without one)
and yields an OUTCOME:
  OUnchanged | OConverted akind (QActivation whose activation is: AEntry -- the entry string, AMapValue -- the map's value under the
  selected key, ANoActivation -- none written) | ORaises (a KeyError: a configuration key the branch reads or deletes is absent)

together with which key selected the map value ("relu" / "leakyrelu") and which config key the slope was read from.
Dictionary reads / deletions are tracked on the abstract key set; `layer["class_name"]` is a mutable abstract string (the
assignment `layer["class_name"] = "QActivation"` BEFORE the key deletions is what makes LeakyReLU fall into the last arm).
Link/ReluLink.v proves the ReLU rows equal to convert_relu of Convert/Relu.v and states the LeakyReLU rows (a known finding)."""
import ast
import itertools
import os
import sys

REPO = os.environ.get("QKERAS_REPO", "/repo")
CLASSES = {"CReLU": ("ReLU", {"max_value", "negative_slope", "threshold"}), "CLeaky3": ("LeakyReLU", {"negative_slope"}), "CLeaky2": ("LeakyReLU", {"alpha"})}
ENTRIES = ["ENone", "EStrEmpty", "EStr", "EMapHit", "EMapMiss"]


class Fail(Exception):
  pass


class KeyErr(Exception):
  pass


class Skip(Exception):
  pass


class A:
  def __init__(self, cname, keys, pos, entry):
    self.cls, self.keys, self.pos, self.entry = cname, set(keys), pos, entry
    self.env = {"quantizer": None}
    self.q = None              # abstract current value of `quantizer`
    self.qname = None
    self.slope_key = None
    self.act = None            # activation written
    self.converted = False

  def cfg_read(self, key):
    if key not in self.keys:
      raise KeyErr(key)
    return key

  def cond(self, n):
    src = " ".join(ast.unparse(n).split())
    if isinstance(n, ast.BoolOp):
      for v in n.values:
        r = self.cond(v)
        if isinstance(n.op, ast.And) and not r:
          return False
        if isinstance(n.op, ast.Or) and r:
          return True
      return isinstance(n.op, ast.And)
    if isinstance(n, ast.UnaryOp) and isinstance(n.op, ast.Not):
      return not self.cond(n.operand)
    if src == "quantizer is None":
      return self.q == "ENone"
    if src == "quantizer":
      if self.q in ("EStr", "MAPVALUE"):
        return True
      if self.q == "EStrEmpty":
        return False
      raise Fail(f"truthiness of quantizer = {self.q}")
    if src == "isinstance(quantizer, dict)":
      return self.q in ("EMapHit", "EMapMiss")
    if src == "quantizer.get(q_name, None)":
      if self.q not in ("EMapHit", "EMapMiss"):
        raise Fail("quantizer.get on a non-dict")
      return self.q == "EMapHit"
    if src == "negative_slope > 0":
      if self.slope_key is None:
        raise Fail("negative_slope compared before it is read")
      return self.pos
    if isinstance(n, ast.Compare) and len(n.ops) == 1 and isinstance(n.ops[0], ast.Eq) and " ".join(ast.unparse(n.left).split()) == "layer['class_name']" \
       and isinstance(n.comparators[0], ast.Constant):
      return self.cls == n.comparators[0].value
    raise Fail(f"line {n.lineno}: condition `{src[:60]}`")

  def run(self, stmts):
    for st in stmts:
      src = " ".join(ast.unparse(st).split())
      if isinstance(st, ast.Expr) and isinstance(st.value, ast.Constant):
        continue
      if isinstance(st, ast.Continue):
        raise Skip()
      if isinstance(st, ast.If):
        self.run(st.body if self.cond(st.test) else st.orelse)
        continue
      if src == "quantizer = get_config(quantizer_config, layer, 'QActivation')":
        self.q = self.entry
        continue
      if isinstance(st, ast.Assign) and len(st.targets) == 1:
        t = " ".join(ast.unparse(st.targets[0]).split())
        v = st.value
        vs = " ".join(ast.unparse(v).split())
        if t in ("negative_slope", "max_value", "threshold") and vs.startswith("layer['config'][") and isinstance(v, ast.Subscript) and isinstance(v.slice, ast.Constant):
          k = self.cfg_read(v.slice.value)
          if t == "negative_slope":
            self.slope_key = k
          continue
        if t == "q_name" and isinstance(v, ast.Constant):
          self.qname = v.value
          continue
        if t == "layer['class_name']" and isinstance(v, ast.Constant):
          self.cls = v.value
          self.converted = v.value == "QActivation"
          continue
        if t == "quantizer" and vs == "quantizer[q_name]":
          if self.q != "EMapHit":
            raise Fail("quantizer[q_name] on an entry without that key")
          self.q = "MAPVALUE"
          continue
        if t == "layer['config']['activation']" and vs == "quantizer":
          self.act = {"EStr": "AEntry", "MAPVALUE": "AMapValue"}.get(self.q)
          if self.act is None:
            raise Fail(f"activation := quantizer = {self.q}")
          continue
        raise Fail(f"line {st.lineno}: assignment `{src[:60]}`")
      if isinstance(st, ast.Delete) and len(st.targets) == 1 and isinstance(st.targets[0], ast.Subscript) and isinstance(st.targets[0].slice, ast.Constant) \
         and " ".join(ast.unparse(st.targets[0].value).split()) == "layer['config']":
        k = st.targets[0].slice.value
        if k not in self.keys:
          raise KeyErr(k)
        self.keys.discard(k)
        continue
      if src == "quantize_activation(layer['config'], activation_bits)":
        if "activation" in self.keys:
          raise Fail("quantize_activation on a config that has an activation")
        self.act = "ANoActivation"                   # no 'activation' key: the helper returns at once
        continue
      raise Fail(f"line {st.lineno}: statement `{src[:60]}`")


def translate(src):
  tree = ast.parse(src)
  fn = next((n for n in tree.body if isinstance(n, ast.FunctionDef) and n.name == "model_quantize"), None)
  if fn is None:
    raise Fail("model_quantize not found")
  want = "layer['class_name'] in ['ReLU', 'relu', 'LeakyReLU']"
  br = next((n for n in ast.walk(fn) if isinstance(n, ast.If) and " ".join(ast.unparse(n.test).split()) == want), None)
  if br is None:
    raise Fail("ReLU branch not found")
  rows = []
  for ck, (cname, keys) in CLASSES.items():
    for pos in (False, True):
      for e in ENTRIES:
        a = A(cname, keys, pos, e)
        try:
          a.run(br.body)
          if a.converted:
            if a.act is None:
              raise Fail("converted without deciding the activation")
            out = f"OConverted {a.act}"
          else:
            out = "OUnchanged"
        except Skip:
          out = "OUnchanged"
        except KeyErr:
          out = "ORaises"
        sel = {"relu": "false", "leakyrelu": "true", None: "false"}[a.qname]
        if a.qname is not None and (a.qname == "leakyrelu") != pos:
          raise Fail("the map key does not follow the sign of the slope")
        rows.append((ck, pos, e, out, a.slope_key or ""))
  return rows


def emit(outdir):
  lines = ["(* GENERATED by tools/translate/relugen.py from qkeras/utils.py -- do not edit *)", "From Coq Require Import String Bool.",
           "From QV Require Import Convert.ReluBranch.", "Open Scope string_scope.", ""]
  try:
    rows = translate(open(os.path.join(REPO, "qkeras", "utils.py")).read())
    ok, why = True, ""
  except Fail as e:
    ok, why, rows = False, str(e), []
  except (OSError, SyntaxError) as e:
    ok, why, rows = False, f"{type(e).__name__}: {e}", []
  if ok:
    lines.append("Definition gen_relu_branch (c : rclass) (pos : bool) (e : rentry) : routcome :=\n  match c, pos, e with")
    for ck, pos, e, out, _k in rows:
      lines.append(f"  | {ck}, {'true' if pos else 'false'}, {e} => {out}")
    lines.append("  end.")
    ks = {ck: sorted({k for c2, _p, _e, _o, k in rows if c2 == ck and k}) for ck in CLASSES}
    lines.append("Definition gen_relu_slope_key (c : rclass) : string :=\n  match c with " +
                 " | ".join(f"{ck} => \"{(ks[ck][0] if len(ks[ck]) == 1 else '')}\"" for ck in CLASSES) + " end.")
  else:
    lines.append("(* translation failed: " + why.replace("*)", "* )") + " *)")
    lines.append("Definition gen_relu_branch (c : rclass) (pos : bool) (e : rentry) : routcome := ORaises.")
    lines.append("Definition gen_relu_slope_key (c : rclass) : string := \"\".")
  lines.append(f"Definition relu_translation_ok : bool := {'true' if ok else 'false'}.")
  path = os.path.join(outdir, "ReluGen.v")
  with open(path, "w") as f:
    f.write("\n".join(lines) + "\n")
  return path


if __name__ == "__main__":
  print(open(emit(sys.argv[1] if len(sys.argv) > 1 else ".")).read())

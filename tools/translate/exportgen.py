#!/usr/bin/env python3
"""Fail-closed translator: the bookkeeping of the per-weight loop of model_save_quantized_weights (qkeras/utils.py)
-> coq/gen/ExportGen.v, regenerated on every run.

For each KIND of weight quantizer the loop body `for quantizer, weight in zip(qs, ws)` is executed abstractly:

  kinds   KNone (no quantizer), KPo2 (quantized_po2), KReluPo2 (quantized_relu_po2), KAutoPo2 (quantized_bits, alpha="auto_po2"),
          KFixed (quantized_bits, any other alpha), KOtherQ (any other quantizer, e.g. binary / ternary)
  values  the stored weight is WRaw (as it was) or WQuant (quantizer applied once); a sign tensor SSign; a scale CScale;
          the hardware weight HSame (the stored weight), HLog2 (round(log2|w|)), HInt (w * m / (m_i * scale)); [] is Empty

Conditions are evaluated concretely (the quantizer's truthiness, its class name, its alpha are known per kind); the chain that
resolves q_name from the quantizer object is checked textually and replaced by the class name.  What is recorded per kind: what
is appended to `weights`, `signs`, `scales`, `hw_weights` (at most one append each; None when the iteration appends nothing to
that list) and what is ASSIGNED to has_sign / has_scale (None = untouched).  Also: the dictionary keys the lists are stored under,
the flags that guard `signs` / `scales`, and that the layer receives `layer.set_weights(weights)` (the whole list).
Anything else in the loop body makes translation_ok false.  Link/ExportLink.v proves the table equal to Export/Book.v."""
import ast
import os
import sys

REPO = os.environ.get("QKERAS_REPO", "/repo")

KINDS = {  # kind -> (truthy, class name, alpha)
    "KNone": (False, None, None), "KPo2": (True, "quantized_po2", None), "KReluPo2": (True, "quantized_relu_po2", None),
    "KAutoPo2": (True, "quantized_bits", "auto_po2"), "KFixed": (True, "quantized_bits", 1.0), "KOtherQ": (True, "binary", 1.0),
}
QNAME_CHAIN = ("if quantizer:\n    if isinstance(quantizer, six.string_types):\n        q_name = quantizer\n    elif hasattr(quantizer, '__name__'):\n"
               "        q_name = quantizer.__name__\n    elif hasattr(quantizer, 'name'):\n        q_name = quantizer.name\n"
               "    elif hasattr(quantizer, '__class__'):\n        q_name = quantizer.__class__.__name__")
LISTS = {"weights": "w", "signs": "s", "scales": "c", "hw_weights": "h"}


class Fail(Exception):
  pass


class Continue(Exception):
  pass


OPAQUE = ("opaque",)


class Abs:
  def __init__(self, kind):
    self.kind = kind
    self.truthy, self.cname, self.alpha = KINDS[kind]
    self.env = {"weight": ("w", "WRaw"), "quantizer": ("quantizer",)}
    self.app = {k: [] for k in LISTS}
    self.flags = {"has_sign": None, "has_scale": None}

  def cond(self, n):
    if isinstance(n, ast.Name) and n.id == "quantizer":
      return self.truthy
    if isinstance(n, ast.BoolOp):
      # Python's short-circuit evaluation: later operands are not evaluated once the result is known
      for v in n.values:
        r = self.cond(v)
        if isinstance(n.op, ast.And) and not r:
          return False
        if isinstance(n.op, ast.Or) and r:
          return True
      return isinstance(n.op, ast.And)
    if isinstance(n, ast.Compare) and len(n.ops) == 1:
      l, r = self.cval(n.left), self.cval(n.comparators[0])
      if isinstance(n.ops[0], ast.In):
        return l in r
      if isinstance(n.ops[0], ast.Eq):
        return l == r
      if isinstance(n.ops[0], ast.NotEq):
        return l != r
    raise Fail(f"line {n.lineno}: condition `{ast.unparse(n)[:60]}`")

  def cval(self, n):
    """concrete value of a sub-expression of a condition"""
    if isinstance(n, ast.Constant) and isinstance(n.value, str):
      return n.value
    if isinstance(n, ast.Name) and n.id == "q_name":
      v = self.env.get("q_name")
      if v is None or v[0] != "str":
        raise Fail("q_name read before it is resolved")
      return v[1]
    if ast.unparse(n) == "quantizer.alpha":
      if not self.truthy:
        raise Fail("alpha of an absent quantizer")
      return self.alpha
    raise Fail(f"line {n.lineno}: value `{ast.unparse(n)[:40]}` in a condition")

  def val(self, n):
    src = ast.unparse(n)
    if isinstance(n, ast.Name):
      return self.env.get(n.id, OPAQUE)
    if isinstance(n, ast.List) and not n.elts:
      return ("empty",)
    if src == "tf.constant(weight)":
      return self.env["weight"]
    if src == "tf.keras.backend.eval(quantizer(weight))":
      if self.env["weight"] != ("w", "WRaw"):
        raise Fail("the quantizer is applied to a weight that is not the layer's own")
      return ("w", "WQuant")
    if src == "np.sign(weight)":
      return ("s", "SSign")
    if src == "np.round(np.log2(np.abs(weight)))":
      return ("h", "HLog2")
    if src == "weight * m / (m_i * scale)":
      return ("h", "HInt")
    if src == "scale * m_i / m":
      return ("c", "CScale")
    if isinstance(n, ast.Constant) and isinstance(n.value, str):
      return ("str", n.value)
    return OPAQUE

  def run(self, stmts):
    i = 0
    while i < len(stmts):
      st = stmts[i]
      i += 1
      if isinstance(st, ast.Expr) and isinstance(st.value, ast.Constant):
        continue
      if isinstance(st, ast.Assert):
        continue
      if isinstance(st, ast.Continue):
        raise Continue()
      if isinstance(st, ast.If):
        if ast.unparse(st).startswith(QNAME_CHAIN) and not st.orelse:
          # the chain that reads the quantizer's name: its class name for the quantizer objects considered here
          if self.truthy:
            self.env["q_name"] = ("str", self.cname)
          continue
        self.run(st.body if self.cond(st.test) else st.orelse)
        continue
      if isinstance(st, ast.Assign) and len(st.targets) == 1 and isinstance(st.targets[0], ast.Name):
        t = st.targets[0].id
        if t in self.flags:
          if not (isinstance(st.value, ast.Constant) and isinstance(st.value.value, bool)):
            try:
              v = bool(self.cond(st.value))
            except Fail:
              raise Fail(f"line {st.lineno}: {t} assigned `{ast.unparse(st.value)[:40]}`")
          else:
            v = st.value.value
          self.flags[t] = v
          continue
        if t in LISTS:
          raise Fail(f"line {st.lineno}: list {t} rebound inside the loop")
        v = self.val(st.value)
        if t == "hw_weight" and v[0] == "w":
          v = ("h", "HSame")                  # hw_weight = weight: the hardware weight IS the stored weight
        self.env[t] = v
        continue
      if isinstance(st, ast.AugAssign) and isinstance(st.target, ast.Name):
        if st.target.id == "sign" and ast.unparse(st.value) == "1.0 - np.abs(sign)" and isinstance(st.op, ast.Add):
          continue                             # zeros become +1: still a sign tensor
        self.env[st.target.id] = OPAQUE
        continue
      if isinstance(st, ast.Expr) and isinstance(st.value, ast.Call) and isinstance(st.value.func, ast.Attribute) and st.value.func.attr == "append" \
         and isinstance(st.value.func.value, ast.Name) and st.value.func.value.id in LISTS and len(st.value.args) == 1:
        lst = st.value.func.value.id
        v = self.val(st.value.args[0])
        want = LISTS[lst]
        if v == ("empty",):
          tag = {"s": "SEmpty", "c": "CEmpty"}.get(want)
          if tag is None:
            raise Fail(f"line {st.lineno}: [] appended to {lst}")
        elif v[0] == want:
          tag = v[1]
        else:
          raise Fail(f"line {st.lineno}: `{ast.unparse(st.value.args[0])[:40]}` appended to {lst}")
        self.app[lst].append(tag)
        continue
      raise Fail(f"line {st.lineno}: statement `{ast.unparse(st)[:60]}` in the per-weight loop")


def translate(src):
  tree = ast.parse(src)
  fn = next((n for n in tree.body if isinstance(n, ast.FunctionDef) and n.name == "model_save_quantized_weights"), None)
  if fn is None:
    raise Fail("model_save_quantized_weights not found")
  loops = [n for n in ast.walk(fn) if isinstance(n, ast.For) and ast.unparse(n.iter) == "zip(qs, ws)" and ast.unparse(n.target) == "(quantizer, weight)"]
  if len(loops) != 1:
    raise Fail("per-weight loop `for quantizer, weight in zip(qs, ws)` not found exactly once")
  loop = loops[0]
  rows = {}
  for k in KINDS:
    a = Abs(k)
    try:
      a.run(loop.body)
    except Continue:
      pass
    row = []
    for lst in ("weights", "signs", "scales", "hw_weights"):
      if len(a.app[lst]) > 1:
        raise Fail(f"kind {k}: {lst} is appended to more than once per weight")
      row.append(f"(Some {a.app[lst][0]})" if a.app[lst] else "None")
    for f in ("has_sign", "has_scale"):
      row.append("None" if a.flags[f] is None else f"(Some {'true' if a.flags[f] else 'false'})")
    rows[k] = row
  # the enclosing `if hasattr(layer, "get_quantizers")` body: initialisation, storage keys, guards, set_weights
  outer = next((n for n in ast.walk(fn) if isinstance(n, ast.If) and loop in n.body), None)
  if outer is None:
    raise Fail("enclosing layer block not found")
  pre = outer.body[:outer.body.index(loop)]
  post = outer.body[outer.body.index(loop) + 1:]
  inits = {ast.unparse(s.targets[0]): ast.unparse(s.value) for s in pre if isinstance(s, ast.Assign) and len(s.targets) == 1}
  for name, want in (("weights", "[]"), ("signs", "[]"), ("scales", "[]"), ("hw_weights", "[]"), ("has_sign", "False"), ("has_scale", "False")):
    if inits.get(name) != want:
      raise Fail(f"{name} is not initialised to {want} before the loop")
  keys = {}
  sets_all = False
  for s in post:
    src_ = ast.unparse(s)
    if isinstance(s, ast.Assign) and ast.unparse(s.targets[0]) == "saved_weights[layer.name]" and isinstance(s.value, ast.Dict):
      for k_, v_ in zip(s.value.keys, s.value.values):
        if isinstance(k_, ast.Constant) and isinstance(v_, ast.Name) and v_.id in LISTS:
          keys[k_.value] = (v_.id, "always")
    if isinstance(s, ast.If) and isinstance(s.test, ast.Name) and s.test.id in ("has_sign", "has_scale") and not s.orelse and len(s.body) == 1:
      b_ = s.body[0]
      if isinstance(b_, ast.Assign) and isinstance(b_.targets[0], ast.Subscript) and ast.unparse(b_.targets[0].value) == "saved_weights[layer.name]" \
         and isinstance(b_.targets[0].slice, ast.Constant) and isinstance(b_.value, ast.Name) and b_.value.id in LISTS:
        keys[b_.targets[0].slice.value] = (b_.value.id, s.test.id)
    if isinstance(s, ast.If) and "layer.set_weights(weights)" in [ast.unparse(x) for x in s.body] and \
       ast.unparse(s.test) == "not any((isinstance(layer, t) for t in [QConv2DBatchnorm, QDepthwiseConv2DBatchnorm]))":
      sets_all = True
  want_keys = {"weights": ("hw_weights", "always"), "signs": ("signs", "has_sign"), "scales": ("scales", "has_scale")}
  if keys != want_keys:
    raise Fail(f"dictionary keys / guards are {keys}")
  if not sets_all:
    raise Fail("the layer does not receive layer.set_weights(weights) (the whole list) for every class but the folded ones")
  return rows


HEAD = ["(* GENERATED by tools/translate/exportgen.py from qkeras/utils.py -- do not edit *)",
        "From Coq Require Import List Bool.", "From QV Require Import Export.Book.", "Import ListNotations.", ""]


def emit(outdir):
  lines = list(HEAD)
  try:
    rows = translate(open(os.path.join(REPO, "qkeras", "utils.py")).read())
    ok, why = True, ""
  except Fail as e:
    ok, why, rows = False, str(e), {k: ["None"] * 6 for k in KINDS}
  except Exception as e:  # pylint: disable=broad-except
    ok, why, rows = False, f"{type(e).__name__}: {e}", {k: ["None"] * 6 for k in KINDS}
  if not ok:
    lines.append("(* translation failed: " + why.replace("*)", "* )") + " *)")
  lines.append("Definition gen_effect (k : qkind) : effect :=\n  match k with")
  for k, r in rows.items():
    lines.append(f"  | {k} => Eff {' '.join(r)}")
  lines.append("  end.")
  lines.append(f"Definition export_translation_ok : bool := {'true' if ok else 'false'}.")
  path = os.path.join(outdir, "ExportGen.v")
  with open(path, "w") as f:
    f.write("\n".join(lines) + "\n")
  return path


if __name__ == "__main__":
  print(open(emit(sys.argv[1] if len(sys.argv) > 1 else ".")).read())

#!/usr/bin/env python3
"""Fail-closed translator for the two small pure helpers of model_quantize (qkeras/utils.py):

  get_config(quantizer_config, layer, layer_class, parameter)   -> gen_lookup
  quantize_activation(layer_config, activation_bits)            -> gen_quantize_activation

-> coq/gen/ConvertGen.v, regenerated on every run; Properties/C12.v re-proves that they are the functions
`lookup` / `quantize_activation` of Convert/ModelQuantize.v for ALL dictionaries, names and strings.
Only the exact statement shapes below are accepted; anything else yields translation_ok := false.
"""
import ast
import os
import sys

REPO = os.environ.get("QKERAS_REPO", "/repo")


class Fail(Exception):
  pass


def cstr(s):
  return '"' + s.replace('"', '""') + '"'


def key_of(n):
  src = ast.unparse(n)
  if src in ("layer['config']['name']", 'layer["config"]["name"]'):
    return "name"
  if src == "layer_class":
    return "cls"
  if src == "parameter":
    return "param"
  raise Fail(f"dictionary key {src}")


def get_expr(n, dvar):
  """D.get(K, DEFAULT) chains over the dictionary variable dvar"""
  if isinstance(n, ast.Constant) and n.value is None:
    return "None"
  if (isinstance(n, ast.Call) and isinstance(n.func, ast.Attribute) and n.func.attr == "get" and isinstance(n.func.value, ast.Name)
      and n.func.value.id == dvar[0] and len(n.args) == 2 and not n.keywords):
    return f"(match assoc {key_of(n.args[0])} {dvar[1]} with Some v => Some v | None => {get_expr(n.args[1], dvar)} end)"
  raise Fail(f"expression {ast.unparse(n)[:60]}")


def find(tree, name):
  for n in tree.body:
    if isinstance(n, ast.FunctionDef) and n.name == name:
      return n
  raise Fail(f"function {name} not found")


def body_no_doc(f):
  b = f.body
  if b and isinstance(b[0], ast.Expr) and isinstance(b[0].value, ast.Constant):
    b = b[1:]
  return b


def tr_get_config(f):
  if [a.arg for a in f.args.args] != ["quantizer_config", "layer", "layer_class", "parameter"]:
    raise Fail("get_config signature")
  b = body_no_doc(f)
  if len(b) != 3:
    raise Fail("get_config: expected assignment, if, return")
  a, i, r = b
  if not (isinstance(a, ast.Assign) and ast.unparse(a.targets[0]) == "quantizer"):
    raise Fail("get_config: first statement")
  e1 = get_expr(a.value, ("quantizer_config", "d"))
  if not (isinstance(i, ast.If) and not i.orelse and len(i.body) == 1 and
          "".join(ast.unparse(i.test).split()) == "quantizerisnotNoneandparameterisnotNone"):
    raise Fail("get_config: guard of the parameter lookup")
  s = i.body[0]
  if not (isinstance(s, ast.Assign) and ast.unparse(s.targets[0]) == "quantizer"):
    raise Fail("get_config: parameter lookup")
  e2 = get_expr(s.value, ("quantizer", "e"))
  if not (isinstance(r, ast.Return) and ast.unparse(r.value) == "quantizer"):
    raise Fail("get_config: return")
  return ("Definition gen_lookup (d : qdict) (name cls param : string) : option string :=\n"
          f"  match {e1} with\n  | Some e => {e2}\n  | None => None\n  end.")


def tr_quantize_activation(f):
  b = body_no_doc(f)
  src = [ast.unparse(s) for s in b]
  # str_act_bits = str(activation_bits); the None guard; the three ways of naming the activation; then the chain
  if not src[0].replace(" ", "") == "str_act_bits=str(activation_bits)":
    raise Fail("quantize_activation: bits string")
  if "layer_config.get('activation', None) is None" not in src[1] or "return" not in src[1]:
    raise Fail("quantize_activation: None guard")
  chain = []
  passthrough = []
  for s in b[3:]:
    node = s
    while isinstance(node, ast.If):
      t = node.test
      if not (isinstance(t, ast.Compare) and ast.unparse(t.left) == "a_name" and isinstance(t.ops[0], ast.Eq) and isinstance(t.comparators[0], ast.Constant)):
        raise Fail("quantize_activation: test shape")
      nm = t.comparators[0].value
      st = node.body[0]
      if isinstance(st, ast.Return) and st.value is None:
        passthrough.append(nm)
      elif (isinstance(st, ast.Assign) and ast.unparse(st.targets[0]) in ("layer_config['activation']", 'layer_config["activation"]') and
            isinstance(st.value, ast.BinOp)):
        parts = ast.unparse(st.value)
        v = st.value
        # "<prefix>" + str_act_bits + ")"
        if not (isinstance(v.left, ast.BinOp) and isinstance(v.left.left, ast.Constant) and ast.unparse(v.left.right) == "str_act_bits"
                and isinstance(v.right, ast.Constant) and v.right.value == ")"):
          raise Fail(f"quantize_activation: value {parts}")
        chain.append((nm, v.left.left.value))
      else:
        raise Fail("quantize_activation: branch body")
      if len(node.orelse) == 1 and isinstance(node.orelse[0], ast.If):
        node = node.orelse[0]
      elif not node.orelse:
        node = None
      else:
        raise Fail("quantize_activation: else branch")
  out = "Some a"
  for nm, prefix in reversed(chain):
    out = f"if String.eqb a {cstr(nm)} then Some ({cstr(prefix)} ++ bits ++ \")\") else {out}"
  for nm in reversed(passthrough):
    out = f"if String.eqb a {cstr(nm)} then Some a else {out}"
  return ("Definition gen_quantize_activation (act : option string) (bits : string) : option string :=\n"
          f"  match act with\n  | None => None\n  | Some a => {out}\n  end.")


def emit(outdir):
  lines = ["(* GENERATED by tools/translate/convertgen.py from /repo/qkeras/utils.py -- do not edit *)",
           "From Coq Require Import String List Bool.", "From QV Require Import Convert.ModelQuantize.",
           "Import ListNotations.", "Open Scope string_scope.", ""]
  ok, why = True, ""
  try:
    tree = ast.parse(open(os.path.join(REPO, "qkeras", "utils.py")).read())
    lines.append(tr_get_config(find(tree, "get_config")))
    lines.append(tr_quantize_activation(find(tree, "quantize_activation")))
  except Fail as e:
    ok, why = False, str(e)
  except (OSError, SyntaxError, IndexError, AttributeError) as e:
    ok, why = False, f"{type(e).__name__}: {e}"
  if not ok:
    lines = lines[:6] + ["(* translation failed: " + why.replace("*)", "* )") + " *)",
                         "Definition gen_lookup (d : qdict) (name cls param : string) : option string := None.",
                         "Definition gen_quantize_activation (act : option string) (bits : string) : option string := None."]
  lines.append(f"Definition translation_ok : bool := {'true' if ok else 'false'}.")
  path = os.path.join(outdir, "ConvertGen.v")
  with open(path, "w") as f:
    f.write("\n".join(lines) + "\n")
  return path


if __name__ == "__main__":
  print(emit(sys.argv[1] if len(sys.argv) > 1 else "."))

#!/usr/bin/env python3
"""Fail-closed translator: _clip_power_of_two (qkeras/quantizers.py), the exponent computation shared by quantized_po2 and
quantized_relu_po2, on the deterministic path -> coq/gen/Po2CallGen.v, regenerated on every run.

The function (with its nested power_of_two_clip) is executed for every kind: log2_rounding in {"rnd", "floor"} x
quadratic_approximation x max_value given or not.  The float logarithm is not rational: round(log(x)/log 2) and floor(log(x)/log 2)
are oracle parameters (lgr, lgf : rat -> Z; lgrs, lgfs for the logarithm of sqrt(x) under quadratic_approximation), everything around
them -- the epsilon test, the max_value clamp, the clip to [min_exp, max_exp], the doubling -- is translated:

  gen_clip_po2 (lgr lgf lgrs lgfs : rat -> Z) (floor_mode quad has_mv : bool) (mn mx : Z) (mv xabs : rat) : Z
  gen_po2_xq (e : Z) (x : rat) : rat          quantized_po2.__call__: the sign arithmetic times 2^e, e the exponent returned for |x|
  gen_rpo2_xq (clipf : rat -> Z) (leaky : bool) (slope x : rat) : rat     quantized_relu_po2.__call__: the quantized value; clipf is
                                                                          _clip_power_of_two with this quantizer's fields
  gen_rpo2_xu (has_mv : bool) (slope mv x : rat) : rat                    its unquantized surrogate

Link/Po2CallLink.v proves that with the exact oracles (exp_rnd, exp_floor of Quant/Po2.v) and without the quadratic option this is
clip_po2, the function every C03 theorem is stated on."""
import ast
import os
import sys

sys.path.insert(0, os.path.dirname(os.path.dirname(os.path.abspath(__file__))))
from translate.lingen import Fail  # noqa: E402

REPO = os.environ.get("QKERAS_REPO", "/repo")


class Interp:
  def __init__(self, env, funcs=None):
    self.env = dict(env)
    self.funcs = dict(funcs or {})
    self.ret = None

  def cond(self, n):
    """('py', bool) when decided by the kind, else ('coq', term)"""
    src = ast.unparse(n)
    if isinstance(n, ast.Name) and self.env.get(n.id, ("?",))[0] == "pybool":
      return ("py", self.env[n.id][1])
    if isinstance(n, ast.Compare) and len(n.ops) == 1:
      l, r = n.left, n.comparators[0]
      if isinstance(n.ops[0], ast.Eq) and isinstance(l, ast.Name) and self.env.get(l.id, ("?",))[0] == "pystr" and isinstance(r, ast.Constant):
        return ("py", self.env[l.id][1] == r.value)
      if isinstance(n.ops[0], (ast.Is, ast.IsNot)) and isinstance(r, ast.Constant) and r.value is None and isinstance(l, ast.Name):
        v = self.env.get(l.id)
        if v is None:
          raise Fail(f"line {n.lineno}: `{src}` on an unknown name")
        isnone = v == ("none",)
        return ("py", isnone if isinstance(n.ops[0], ast.Is) else not isnone)
      a, b = self.val(l), self.val(r)
      if a[0] == "r" and b[0] == "r":
        t = {ast.Lt: f"(rlt {a[1]} {b[1]})", ast.LtE: f"(rle {a[1]} {b[1]})", ast.Gt: f"(rlt {b[1]} {a[1]})", ast.GtE: f"(rle {b[1]} {a[1]})"}.get(type(n.ops[0]))
        if t:
          return ("coq", t)
    raise Fail(f"line {n.lineno}: condition `{src[:60]}`")

  def val(self, n):
    src = ast.unparse(n)
    line = getattr(n, "lineno", 0)
    if isinstance(n, ast.Name):
      if n.id not in self.env:
        raise Fail(f"line {line}: unknown name {n.id}")
      return self.env[n.id]
    if src == "tf.keras.backend.epsilon()":
      return ("r", "eps32")                      # the float32 value of 1e-7, as in Quant/Po2.v
    if src == "np.log(2.0)":
      return ("log2c",)
    if isinstance(n, ast.Constant) and isinstance(n.value, float) and n.value == int(n.value):
      return ("z", str(int(n.value)))
    if isinstance(n, ast.BinOp) and isinstance(n.op, ast.Mult):
      if isinstance(n.left, ast.Call) and ast.unparse(n.left.func) == "tf.ones_like":
        return self.val(n.right)
      a, b = self.val(n.left), self.val(n.right)
      if a[0] == "z" and b[0] == "z":
        return ("z", f"({a[1]} * {b[1]})")
    if isinstance(n, ast.BinOp) and isinstance(n.op, ast.Div):
      a, b = self.val(n.left), self.val(n.right)
      if a[0] == "log" and b == ("log2c",):
        return ("lg", a[1], a[2])
    if isinstance(n, ast.Call):
      f = ast.unparse(n.func)
      if f == "tf.sqrt" and len(n.args) == 1:
        a = self.val(n.args[0])
        if a[0] == "r":
          return ("sqrt", a[1])
      if f == "tf.keras.backend.log" and len(n.args) == 1:
        a = self.val(n.args[0])
        if a[0] == "r":
          return ("log", a[1], False)
        if a[0] == "sqrt":
          return ("log", a[1], True)
      if f in ("_floor_through", "_round_through") and len(n.args) == 1 and not n.keywords:
        a = self.val(n.args[0])
        if a[0] == "lg":
          return ("z", f"({'lgf' if f == '_floor_through' else 'lgr'}{'s' if a[2] else ''} {a[1]})")
      if f == "tf.keras.backend.clip" and len(n.args) == 3:
        a, lo, hi = (self.val(x) for x in n.args)
        if a[0] == "z" and lo[0] == "z" and hi[0] == "z":
          return ("z", f"(clip {lo[1]} {hi[1]} {a[1]})")
      if f == "tf.where" and len(n.args) == 3:
        c = self.cond(n.args[0])
        a, b = self.val(n.args[1]), self.val(n.args[2])
        if c[0] == "coq" and a[0] == b[0] and a[0] in ("r", "z"):
          return (a[0], f"(if {c[1]} then {a[1]} else {b[1]})")
      if f in self.funcs:
        fn = self.funcs[f]
        names = [a.arg for a in fn.args.args]
        if len(n.args) != len(names) or n.keywords:
          raise Fail(f"line {line}: call of {f}")
        it = Interp({**self.env, **{k: self.val(v) for k, v in zip(names, n.args)}}, self.funcs)   # a closure: the enclosing names stay visible
        it.run(fn.body)
        if it.ret is None:
          raise Fail(f"{f} does not return")
        return it.ret
    raise Fail(f"line {line}: expression `{src[:70]}`")

  def run(self, stmts):
    for st in stmts:
      if self.ret is not None:
        raise Fail(f"line {st.lineno}: statement after return")
      if isinstance(st, ast.Expr) and isinstance(st.value, ast.Constant):
        continue
      if isinstance(st, ast.Assert):
        continue
      if isinstance(st, ast.FunctionDef):
        self.funcs[st.name] = st
        continue
      if isinstance(st, ast.Assign) and len(st.targets) == 1 and isinstance(st.targets[0], ast.Name):
        self.env[st.targets[0].id] = self.val(st.value)
        continue
      if isinstance(st, ast.If):
        c = self.cond(st.test)
        if c[0] != "py":
          raise Fail(f"line {st.lineno}: data-dependent `if`")
        self.run(st.body if c[1] else st.orelse)
        continue
      if isinstance(st, ast.Return) and st.value is not None:
        self.ret = self.val(st.value)
        continue
      raise Fail(f"line {st.lineno}: statement `{ast.unparse(st)[:70]}`")


def translate():
  tree = ast.parse(open(os.path.join(REPO, "qkeras", "quantizers.py")).read())
  fn = next((n for n in tree.body if isinstance(n, ast.FunctionDef) and n.name == "_clip_power_of_two"), None)
  if fn is None:
    raise Fail("_clip_power_of_two not found")
  names = [a.arg for a in fn.args.args]
  if names != ["x_abs", "min_exp", "max_exp", "max_value", "quadratic_approximation", "use_stochastic_rounding", "log2_rounding"]:
    raise Fail(f"_clip_power_of_two signature {names}")
  out = {}
  for floor_mode in (False, True):
    for quad in (False, True):
      for has_mv in (False, True):
        env = {"x_abs": ("r", "xabs"), "min_exp": ("z", "mn"), "max_exp": ("z", "mx"), "max_value": ("r", "mv") if has_mv else ("none",),
               "quadratic_approximation": ("pybool", quad), "use_stochastic_rounding": ("pybool", False),
               "log2_rounding": ("pystr", "floor" if floor_mode else "rnd")}
        it = Interp(env)
        it.run(fn.body)
        if it.ret is None or it.ret[0] != "z":
          raise Fail("_clip_power_of_two does not return an exponent")
        out[(floor_mode, quad, has_mv)] = it.ret[1]
  # the callers pass their own fields in this order
  for cname, n_calls in (("quantized_po2", 1), ("quantized_relu_po2", 2)):
    cls = next((n for n in tree.body if isinstance(n, ast.ClassDef) and n.name == cname), None)
    call = next((f for f in cls.body if isinstance(f, ast.FunctionDef) and f.name == "__call__"), None) if cls else None
    if call is None:
      raise Fail(f"{cname}.__call__ not found")
    calls = [c for c in ast.walk(call) if isinstance(c, ast.Call) and ast.unparse(c.func) == "_clip_power_of_two"]
    if len(calls) != n_calls:
      raise Fail(f"{cname}.__call__ calls _clip_power_of_two {len(calls)} times")
    for c in calls:
      rest = [ast.unparse(a) for a in c.args[1:]]
      if rest != ["self._min_exp", "self._max_exp", "self.max_value", "self.quadratic_approximation", "self.use_stochastic_rounding", "self.log2_rounding"] or c.keywords:
        raise Fail(f"{cname}.__call__ passes {rest} to _clip_power_of_two")
  return out


def translate_call():
  """quantized_po2.__call__: xq = (sign(x) with zero counted positive) * 2^(exponent returned by _clip_power_of_two)"""
  from translate import qbitsgen
  from translate.lingen import to_r

  class P2(qbitsgen.QB):
    def val(self, n):
      src = ast.unparse(n)
      if isinstance(n, ast.Call) and ast.unparse(n.func) == "_clip_power_of_two":
        if ast.unparse(n.args[0]) != "x_abs" or self.env.get("x_abs") != ("r", "(rabs x)"):
          raise Fail("quantized_po2.__call__: _clip_power_of_two is not applied to |x|")
        return ("z", "e")
      if isinstance(n, ast.Call) and ast.unparse(n.func) == "pow" and len(n.args) == 2 and ast.unparse(n.args[0]) == "2.0":
        a = self.val(n.args[1])
        if a[0] == "z":
          return ("r", f"(rpow2 {a[1]})")
      return super().val(n)

  tree = ast.parse(open(os.path.join(REPO, "qkeras", "quantizers.py")).read())
  cls = next(n for n in tree.body if isinstance(n, ast.ClassDef) and n.name == "quantized_po2")
  call = next(f for f in cls.body if isinstance(f, ast.FunctionDef) and f.name == "__call__")
  it = P2(cls, {}, {"x": ("r", "x")})
  it.run(call.body)
  if it.ret != ("done",) or "xq" not in it.env:
    raise Fail("quantized_po2.__call__ does not reach the straight-through return with xq")
  if "x + tf.stop_gradient(self.qnoise_factor * (-x + xq))" not in ast.unparse(call):
    raise Fail("quantized_po2.__call__: the straight-through return is not built on x and xq")
  return to_r(it.env["xq"])


def translate_relu_call():
  """quantized_relu_po2.__call__: the quantized value, with this quantizer's _clip_power_of_two as the function parameter clipf"""
  from translate import qbitsgen
  from translate.lingen import to_r

  class RP2(qbitsgen.QB):
    def val(self, n):
      src = ast.unparse(n)
      line = getattr(n, "lineno", 0)
      if src == "self.negative_slope == 0.0":
        return ("b", "(negb leaky)")
      if isinstance(n, ast.Call):
        f = ast.unparse(n.func)
        if f == "_clip_power_of_two":
          rest = [ast.unparse(a) for a in n.args[1:]]
          if rest != ["self._min_exp", "self._max_exp", "self.max_value", "self.quadratic_approximation", "self.use_stochastic_rounding", "self.log2_rounding"]:
            raise Fail(f"line {line}: arguments of _clip_power_of_two")
          return ("z", f"(clipf {to_r(self.val(n.args[0]), line)})")
        if f == "pow" and len(n.args) == 2 and ast.unparse(n.args[0]) == "2.0":
          a = self.val(n.args[1])
          if a[0] == "z":
            return ("r", f"(rpow2 {a[1]})")
        if f == "K.relu" and len(n.args) == 1 and not n.keywords:
          return ("r", f"(lrelu (0, 1) {to_r(self.val(n.args[0]), line)})")
        if f == "K.relu" and len(n.args) == 2 and ast.unparse(n.args[1]) == "self.negative_slope":
          return ("r", f"(lrelu slope {to_r(self.val(n.args[0]), line)})")
        if f == "tf.logical_or" and len(n.args) == 2:
          a, b = self.val(n.args[0]), self.val(n.args[1])
          if a[0] == "b" and b[0] == "b":
            return ("b", f"({a[1]} || {b[1]})")
        if f == "tf.where" and len(n.args) == 3:
          c = self.val(n.args[0])
          if c[0] == "b":
            return ("r", f"(if {c[1]} then {to_r(self.val(n.args[1]), line)} else {to_r(self.val(n.args[2]), line)})")
        if f == "tf.ones_like":
          return ("r", "(1, 1)")
      if isinstance(n, ast.BinOp) and isinstance(n.op, ast.Mult) and isinstance(n.left, ast.Call) and ast.unparse(n.left.func) == "tf.ones_like":
        return self.val(n.right)
      if isinstance(n, ast.Compare) and len(n.ops) == 1 and isinstance(n.ops[0], (ast.GtE, ast.LtE)):
        a, b = self.val(n.left), self.val(n.comparators[0])
        if a[0] in ("r", "z") and b[0] in ("r", "z"):
          l_, r_ = to_r(a, line), to_r(b, line)
          return ("b", f"(rle {r_} {l_})" if isinstance(n.ops[0], ast.GtE) else f"(rle {l_} {r_})")
      return super().val(n)

    def run(self, stmts):
      for st in stmts:
        if self.ret is not None:
          return
        if isinstance(st, ast.If) and ast.unparse(st.test) == "self.max_value is None":
          a, b = RP2(self.cls, self.attrs, self.env), RP2(self.cls, self.attrs, self.env)
          a.run(st.body)
          b.run(st.orelse)
          self.env = self.merge("(negb has_mv)", a.env, b.env, st.lineno)
          continue
        super().run([st])

  tree = ast.parse(open(os.path.join(REPO, "qkeras", "quantizers.py")).read())
  cls = next(n for n in tree.body if isinstance(n, ast.ClassDef) and n.name == "quantized_relu_po2")
  call = next(f for f in cls.body if isinstance(f, ast.FunctionDef) and f.name == "__call__")
  it = RP2(cls, {"self.negative_slope": ("r", "slope"), "self.max_value": ("r", "mv")}, {"x": ("r", "x")})
  it.run(call.body)
  if it.ret != ("done",) or "xq" not in it.env or "x" not in it.env:
    raise Fail("quantized_relu_po2.__call__ does not reach the straight-through return with xq")
  if "x + tf.stop_gradient(self.qnoise_factor * (-x + xq))" not in ast.unparse(call):
    raise Fail("quantized_relu_po2.__call__: the straight-through return is not built on x and xq")
  return to_r(it.env["xq"]), to_r(it.env["x"])


HEADER = ["(* GENERATED by tools/translate/po2callgen.py from qkeras/quantizers.py -- do not edit *)",
          "From Coq Require Import ZArith Bool.", "From QV Require Import Base.ZQ Base.FL Quant.Po2 Quant.BinTern Quant.BinTernSrc Quant.ReluSrc.", "Open Scope Z_scope.", ""]
SIG = "(lgr lgf lgrs lgfs : rat -> Z) (floor_mode quad has_mv : bool) (mn mx : Z) (mv xabs : rat) : Z"


def emit(outdir):
  lines = list(HEADER)
  ok, why = True, ""
  try:
    t = translate()
    bl = lambda v: "true" if v else "false"
    arms = [f"  | {bl(f)}, {bl(q)}, {bl(m)} => {t[(f, q, m)]}" for f in (True, False) for q in (True, False) for m in (True, False)]
    lines.append(f"Definition gen_clip_po2 {SIG} :=\n  match floor_mode, quad, has_mv with\n" + "\n".join(arms) + "\n  end.")
    lines.append(f"Definition gen_po2_xq (e : Z) (x : rat) : rat :=\n  {translate_call()}.")
    rxq, rxu = translate_relu_call()
    lines.append(f"Definition gen_rpo2_xq (clipf : rat -> Z) (leaky : bool) (slope x : rat) : rat :=\n  {rxq}.")
    lines.append(f"Definition gen_rpo2_xu (has_mv : bool) (slope mv x : rat) : rat :=\n  {rxu}.")
  except Fail as e:
    ok, why = False, str(e)
  except (OSError, SyntaxError, KeyError, IndexError, AttributeError, StopIteration) as e:
    ok, why = False, f"{type(e).__name__}: {e}"
  if not ok:
    lines = list(HEADER) + ["(* translation failed: " + why.replace("*)", "* )") + " *)", f"Definition gen_clip_po2 {SIG} := mx + 1.", "Definition gen_po2_xq (e : Z) (x : rat) : rat := (0, 1).",
                            "Definition gen_rpo2_xq (clipf : rat -> Z) (leaky : bool) (slope x : rat) : rat := (0, 1).",
                            "Definition gen_rpo2_xu (has_mv : bool) (slope mv x : rat) : rat := (0, 1)."]
  lines.append(f"Definition po2call_translation_ok : bool := {'true' if ok else 'false'}.")
  path = os.path.join(outdir, "Po2CallGen.v")
  with open(path, "w") as f:
    f.write("\n".join(lines) + "\n")
  return path


if __name__ == "__main__":
  print(open(emit(sys.argv[1] if len(sys.argv) > 1 else ".")).read())

#!/usr/bin/env python3
"""Fail-closed translator: the deterministic core of quantized_linear (qkeras/quantizers.py) -> coq/gen/LinGen.v, regenerated
on every run.

Translated methods / properties: use_sign_function, data_type_scale, default_quantization_scale, get_clip_bounds,
_scale_clip_and_round (use_stochastic_rounding = False), the data-independent branch of __call__, max() and min().
Tensor and scalar arithmetic becomes a term over the exact rationals of Base/FL.v:

  gen_ql_sign      (bits : Z) (kn : bool) : bool
  gen_ql_dts       (bits integer : Z) (kn : bool) : rat                 data_type_scale
  gen_ql_qscale    (has_alpha : bool) (alpha dts : rat) : rat           default_quantization_scale (alpha a number or None)
  gen_ql_clip_min / gen_ql_clip_max (bits : Z) (kn sym : bool) : rat    get_clip_bounds
  gen_ql_scaled    (bits : Z) (kn sym : bool) (qs x : rat) : rat        _scale_clip_and_round
  gen_ql_xq        (bits : Z) (kn sym : bool) (qs x : rat) : rat        the quantized value xq of __call__
  gen_ql_res       (f x xq : rat) : rat                                 the returned mixture
  gen_ql_max / gen_ql_min (bits : Z) (kn sym : bool) (qs : rat) : rat   the reporters
  gen_ql_auto_scale (bits : Z) (kn sym : bool) (dmax_abs dmax : rat) : rat   _get_quantization_scale_from_max_data (alpha = "auto"),
                                                                        dmax_abs / dmax = the largest magnitude / element of the group

Link/LinLink.v proves them equal to the model of Quant/Fixed.v (ql_lo, ql_hi, ql_se, ql_code) for every configuration with at
least one unsigned bit, every positive scale and every input; Quant/LinearThm.v's theorems then speak about the code."""
import ast
import os
import sys
from fractions import Fraction

REPO = os.environ.get("QKERAS_REPO", "/repo")


class Fail(Exception):
  pass


# values: ("z", term) integer, ("b", term) bool, ("r", term) rational, ("pair", a, b)
def to_r(v, line=0):
  if v[0] == "r":
    return v[1]
  if v[0] == "z":
    return f"(rofZ {v[1]})"
  if v[0] == "b":
    return f"(rofZ (b2z {v[1]}))"
  raise Fail(f"line {line}: {v[0]} used as a number")


def to_z(v, line=0):
  if v[0] == "z":
    return v[1]
  if v[0] == "b":
    return f"(b2z {v[1]})"
  raise Fail(f"line {line}: {v[0]} used as an integer")


class Interp:
  def __init__(self, cls, attrs, env=None):
    self.cls, self.attrs = cls, attrs
    self.env = dict(env or {})
    self.ret = None

  def method(self, name):
    fn = next((f for f in self.cls.body if isinstance(f, ast.FunctionDef) and f.name == name), None)
    if fn is None:
      raise Fail(f"quantized_linear.{name} not found")
    return fn

  def call_method(self, name, env=None):
    it = Interp(self.cls, self.attrs, env)
    it.run(self.method(name).body)
    if it.ret is None:
      raise Fail(f"{name} does not return")
    return it.ret

  def val(self, n):
    src = ast.unparse(n)
    line = getattr(n, "lineno", 0)
    if src in self.attrs:
      return self.attrs[src]
    if src in ("self.use_sign_function", "self.data_type_scale"):
      return self.call_method(src.split(".")[1])
    if isinstance(n, ast.Constant) and isinstance(n.value, (int, float)) and not isinstance(n.value, bool):
      f = Fraction(n.value)
      if f.denominator == 1 and isinstance(n.value, int):
        return ("z", str(f.numerator) if f >= 0 else f"({f.numerator})")
      return ("r", f"({f.numerator}, {f.denominator})")
    if isinstance(n, ast.Name):
      if n.id not in self.env:
        raise Fail(f"line {line}: unknown name {n.id}")
      return self.env[n.id]
    if isinstance(n, ast.UnaryOp) and isinstance(n.op, ast.USub):
      a = self.val(n.operand)
      if a[0] == "z":
        return ("z", f"(- {a[1]})")
      return ("r", f"(rneg {to_r(a, line)})")
    if isinstance(n, ast.BoolOp) and isinstance(n.op, ast.And):
      vs = [self.val(v) for v in n.values]
      if all(v[0] == "b" for v in vs):
        return ("b", "(" + " && ".join(v[1] for v in vs) + ")")
      raise Fail(f"line {line}: `and` of non-booleans")
    if isinstance(n, ast.Compare) and len(n.ops) == 1 and isinstance(n.ops[0], ast.Eq):
      a, b = self.val(n.left), self.val(n.comparators[0])
      if a[0] == "z" and (b[0] == "z" or b == ("r", "(1, 1)")):
        return ("b", f"({a[1]} =? {b[1] if b[0] == 'z' else '1'})")
      raise Fail(f"line {line}: comparison `{src}`")
    if isinstance(n, ast.BinOp) and isinstance(n.op, (ast.Add, ast.Sub, ast.Mult, ast.Div)):
      a, b = self.val(n.left), self.val(n.right)
      if a[0] in ("z", "b") and b[0] in ("z", "b") and not isinstance(n.op, ast.Div):
        op = {ast.Add: "+", ast.Sub: "-", ast.Mult: "*"}[type(n.op)]
        return ("z", f"({to_z(a)} {op} {to_z(b)})")
      op = {ast.Add: "radd", ast.Sub: "rsub", ast.Mult: "rmul", ast.Div: "rdiv"}[type(n.op)]
      return ("r", f"({op} {to_r(a, line)} {to_r(b, line)})")
    if isinstance(n, ast.Call):
      f = ast.unparse(n.func)
      if f == "K.cast_to_floatx" and len(n.args) == 1:
        a = self.val(n.args[0])
        return ("r", to_r(a, line))
      if f == "tf.cast" and len(n.args) == 2 and ast.unparse(n.args[1]) == "tf.float32":
        return self.val(n.args[0])
      if f == "K.pow" and len(n.args) == 2 and ast.unparse(n.args[0]) == "2.0":
        e = self.val(n.args[1])
        return ("r", f"(rpow2 {to_z(e, line)})")
      if f == "K.clip" and len(n.args) == 3:
        a, lo, hi = (self.val(x) for x in n.args)
        return ("r", f"(rclip {to_r(lo)} {to_r(hi)} {to_r(a)})")
      if f == "_round_through" and len(n.args) == 1:
        kw = {k.arg: ast.unparse(k.value) for k in n.keywords}
        if kw == {"use_stochastic_rounding": "self.use_stochastic_rounding", "precision": "1.0"}:
          return ("r", f"(rofZ (rround {to_r(self.val(n.args[0]))}))")
        raise Fail(f"line {line}: rounding options {kw}")
      if src == "K.max(tf.math.abs(x), axis=axis, keepdims=True)" and self.env.get("axis") == ("opaque", "axis") and self.env.get("x") == ("r", "x"):
        return ("r", "dmax_abs")                       # the largest magnitude of the scale group
      if src == "K.max(x, axis=axis, keepdims=True)" and self.env.get("axis") == ("opaque", "axis") and self.env.get("x") == ("r", "x"):
        return ("r", "dmax")                           # the largest element of the scale group
      if src == "_get_scaling_axis(self.scale_axis, tf.rank(x))":
        return ("opaque", "axis")
      if f == "tf.math.maximum" and len(n.args) == 2:
        a, b = self.val(n.args[0]), self.val(n.args[1])
        return ("r", f"(rmax {to_r(a, line)} {to_r(b, line)})")
      if src == "K.epsilon()":
        return ("r", "(1, 10000000)")
      if f == "self.get_clip_bounds" and not n.args:
        return self.call_method("get_clip_bounds")
      if f == "self._scale_clip_and_round" and len(n.args) == 2:
        fn = self.method("_scale_clip_and_round")
        names = [a.arg for a in fn.args.args]
        if names != ["self", "x", "quantization_scale"]:
          raise Fail("_scale_clip_and_round signature")
        return self.call_method("_scale_clip_and_round", {"x": self.val(n.args[0]), "quantization_scale": self.val(n.args[1])})
    if isinstance(n, ast.Tuple):
      return ("pair",) + tuple(self.val(e) for e in n.elts)
    raise Fail(f"line {line}: expression `{src[:70]}`")

  def merge(self, c, e1, e2, line):
    out = {}
    for k in set(e1) | set(e2):
      if k in e1 and k in e2:
        if e1[k] == e2[k]:
          out[k] = e1[k]
        elif e1[k][0] in ("pair", "opaque") or e2[k][0] in ("pair", "opaque"):
          raise Fail(f"line {line}: tuple assigned under a condition")
        else:
          out[k] = ("r", f"(if {c} then {to_r(e1[k])} else {to_r(e2[k])})")
    return out

  def run(self, stmts):
    for st in stmts:
      if self.ret is not None:
        raise Fail(f"line {st.lineno}: statement after return")
      src = ast.unparse(st)
      if isinstance(st, ast.Expr) and isinstance(st.value, ast.Constant):
        continue
      if src in ("self._build()", "res.set_shape(shape)", "shape = x.shape"):
        continue
      if src == "x = K.cast_to_floatx(x)" and "x" in self.env:
        continue
      if isinstance(st, ast.Assign) and len(st.targets) == 1:
        tg = st.targets[0]
        if isinstance(tg, ast.Name):
          self.env[tg.id] = self.val(st.value)
          continue
        if isinstance(tg, ast.Tuple) and all(isinstance(e, ast.Name) for e in tg.elts):
          v = self.val(st.value)
          if v[0] != "pair" or len(v) - 1 != len(tg.elts):
            raise Fail(f"line {st.lineno}: tuple assignment from {v[0]}")
          for e, x in zip(tg.elts, v[1:]):
            self.env[e.id] = x
          continue
      if isinstance(st, ast.If):
        src_t = ast.unparse(st.test)
        if src_t == "self.auto_alpha":
          self.run(st.orelse)            # the data-independent branch; the data-dependent one is C05's
          continue
        if src_t == "self.alpha is not None and (not self.auto_alpha)":
          c = ("b", "has_alpha")
        else:
          c = self.val(st.test)
        if c[0] != "b":
          raise Fail(f"line {st.lineno}: condition `{src_t}`")
        a, b = Interp(self.cls, self.attrs, self.env), Interp(self.cls, self.attrs, self.env)
        a.run(st.body)
        b.run(st.orelse)
        if a.ret is not None or b.ret is not None:
          raise Fail(f"line {st.lineno}: return under a condition")
        self.env = self.merge(c[1], a.env, b.env, st.lineno)
        continue
      if isinstance(st, ast.Return) and st.value is not None:
        self.ret = self.val(st.value)
        continue
      raise Fail(f"line {st.lineno}: statement `{src[:70]}`")


def translate():
  tree = ast.parse(open(os.path.join(REPO, "qkeras", "quantizers.py")).read())
  cls = next((n for n in tree.body if isinstance(n, ast.ClassDef) and n.name == "quantized_linear"), None)
  if cls is None:
    raise Fail("class quantized_linear not found")
  # the properties are plain reads of the constructor arguments
  for prop, attr in (("bits", "_bits"), ("integer", "_integer"), ("keep_negative", "_keep_negative")):
    fn = next((f for f in cls.body if isinstance(f, ast.FunctionDef) and f.name == prop), None)
    if fn is None or ast.unparse(fn.body[-1]) != f"return self.{attr}":
      raise Fail(f"property {prop} is not `return self.{attr}`")
  init = ast.unparse(next(f for f in cls.body if isinstance(f, ast.FunctionDef) and f.name == "__init__"))
  for need in ("self._bits = bits", "self._integer = integer", "self._keep_negative = keep_negative", "self.symmetric = symmetric", "self.alpha = alpha",
               "self.quantization_scale = self.default_quantization_scale"):
    if need not in init:
      raise Fail(f"__init__: `{need}` not found")
  attrs = {"self.bits": ("z", "bits"), "self.integer": ("z", "integer"), "self.keep_negative": ("b", "kn"), "self.symmetric": ("b", "sym"),
           "self.alpha": ("r", "alpha"), "self.quantization_scale": ("r", "qs"), "self.qnoise_factor": ("r", "f")}
  it = Interp(cls, attrs)
  out = {}
  out["sign"] = it.call_method("use_sign_function")
  out["dts"] = it.call_method("data_type_scale")
  # default_quantization_scale with data_type_scale as a parameter
  a2 = dict(attrs)
  it2 = Interp(cls, a2)
  it2.attrs["self.data_type_scale"] = ("r", "dts")
  out["qscale"] = it2.call_method("default_quantization_scale")
  cb = it.call_method("get_clip_bounds")
  if cb[0] != "pair" or len(cb) != 3:
    raise Fail("get_clip_bounds does not return (clip_min, clip_max)")
  out["cmin"], out["cmax"] = cb[1], cb[2]
  out["scaled"] = it.call_method("_scale_clip_and_round", {"x": ("r", "x"), "quantization_scale": ("r", "qs")})
  # __call__: xq and the mixture
  itc = Interp(cls, attrs, {"x": ("r", "x")})
  itc.run(it.method("__call__").body)
  if itc.ret is None or "xq" not in itc.env:
    raise Fail("__call__ does not compute xq / return")
  out["xq"] = itc.env["xq"]
  itm = Interp(cls, attrs, {"x": ("r", "x"), "xq": ("r", "xq")})
  ret = next((s for s in it.method("__call__").body if isinstance(s, ast.Assign) and ast.unparse(s.targets[0]) == "res"), None)
  if ret is None or ast.unparse(it.method("__call__").body[-1]) != "return res":
    raise Fail("__call__ does not return res")
  out["res"] = itm.val(ret.value)
  fnm = it.method("_get_quantization_scale_from_max_data")
  if [a.arg for a in fnm.args.args] != ["self", "x"]:
    raise Fail("_get_quantization_scale_from_max_data signature")
  out["auto"] = it.call_method("_get_quantization_scale_from_max_data", {"x": ("r", "x")})
  out["max"] = it.call_method("max")
  out["min"] = it.call_method("min")
  for k, v in out.items():
    if v[0] == "pair":
      raise Fail(f"{k} is a tuple")
  return out


HEADER = ["(* GENERATED by tools/translate/lingen.py from qkeras/quantizers.py -- do not edit *)",
          "From Coq Require Import ZArith Bool.", "From QV Require Import Base.ZQ Base.FL.", "Open Scope Z_scope.", ""]
SIGS = [("gen_ql_sign", "(bits : Z) (kn : bool) : bool", "sign", "false"),
        ("gen_ql_dts", "(bits integer : Z) (kn : bool) : rat", "dts", "(0, 1)"),
        ("gen_ql_qscale", "(has_alpha : bool) (alpha dts : rat) : rat", "qscale", "(0, 1)"),
        ("gen_ql_clip_min", "(bits : Z) (kn sym : bool) : rat", "cmin", "(0, 1)"),
        ("gen_ql_clip_max", "(bits : Z) (kn sym : bool) : rat", "cmax", "(0, 1)"),
        ("gen_ql_scaled", "(bits : Z) (kn sym : bool) (qs x : rat) : rat", "scaled", "(1, 3)"),
        ("gen_ql_xq", "(bits : Z) (kn sym : bool) (qs x : rat) : rat", "xq", "(1, 3)"),
        ("gen_ql_res", "(f x xq : rat) : rat", "res", "(1, 3)"),
        ("gen_ql_auto_scale", "(bits : Z) (kn sym : bool) (dmax_abs dmax : rat) : rat", "auto", "(0, 1)"),
        ("gen_ql_max", "(bits : Z) (kn sym : bool) (qs : rat) : rat", "max", "(0, 1)"),
        ("gen_ql_min", "(bits : Z) (kn sym : bool) (qs : rat) : rat", "min", "(0, 1)")]


def emit(outdir):
  lines = list(HEADER)
  ok, why = True, ""
  try:
    t = translate()
    for name, sig, key, _d in SIGS:
      v = t[key]
      body = v[1] if (v[0] == "b" and sig.endswith("bool")) else to_r(v)
      lines.append(f"Definition {name} {sig} :=\n  {body}.")
  except Fail as e:
    ok, why = False, str(e)
  except (OSError, SyntaxError, KeyError, IndexError, AttributeError, StopIteration) as e:
    ok, why = False, f"{type(e).__name__}: {e}"
  if not ok:
    lines = list(HEADER) + ["(* translation failed: " + why.replace("*)", "* )") + " *)"]
    lines += [f"Definition {name} {sig} := {d}." for name, sig, _k, d in SIGS]
  lines.append(f"Definition lin_translation_ok : bool := {'true' if ok else 'false'}.")
  path = os.path.join(outdir, "LinGen.v")
  with open(path, "w") as f:
    f.write("\n".join(lines) + "\n")
  return path


if __name__ == "__main__":
  print(open(emit(sys.argv[1] if len(sys.argv) > 1 else ".")).read())

#!/usr/bin/env python3
"""Fail-closed symbolic executor: the `call` method of a quantized layer -> a Gallina
data-flow expression (coq/gen/LayerCalls.v), regenerated from /repo on every run.

Values are expressions over:  DIn (the layer input), DW name (a weight attribute),
DQuant q e (a quantizer attribute applied to e), DOp name args (any other call that
consumes tracked values; TensorFlow / Keras ops stay uninterpreted), DIf flag t e
(a Python `if` on layer configuration).  Everything that does not depend on the input
or a weight is configuration and is dropped.  Unknown statement or expression forms
raise, which makes the generated file carry `translation_failed`.
"""
import ast
import os
import sys

REPO = os.environ.get("QKERAS_REPO", "/repo")

WEIGHTS = {"kernel", "bias", "depthwise_kernel", "pointwise_kernel", "recurrent_kernel", "_mask", "weight"}
# op aliases: different entry points of the same TensorFlow computation
ALIAS = {
    "tf.keras.backend.dot": "dot", "K.dot": "dot",
    "tf.keras.backend.bias_add": "bias_add", "K.bias_add": "bias_add", "tf.nn.bias_add": "bias_add",
    "self.convolution_op": "conv", "self._jit_compiled_convolution_op": "conv",
    "tf.keras.backend.conv1d": "conv", "tf.keras.backend.conv2d": "conv", "K.conv2d": "conv",
    "tf.keras.backend.conv2d_transpose": "conv_transpose",
    "tf.keras.backend.depthwise_conv2d": "depthwise_conv", "K.depthwise_conv2d": "depthwise_conv",
    "tf.keras.backend.separable_conv2d": "separable_conv", "tf.compat.v1.nn.separable_conv2d": "separable_conv",
    "tf.nn.separable_conv2d": "separable_conv",
    "self.activation": "activation",
    "super(QAveragePooling2D, self).call": "stock_call", "super(QGlobalAveragePooling2D, self).call": "stock_call",
    "tf.math.multiply": "mult", "K.dot": "dot",
}
IDENTITY = {"tf.convert_to_tensor", "tf.identity", "K.cast_to_floatx", "tf.cast", "K.cast", "tf.squeeze", "tf.expand_dims",
            "array_ops.expand_dims", "array_ops.squeeze"}
CONFIG_CALLS = {"self.compute_pooling_area", "self.get_dropout_mask_for_cell", "self.get_recurrent_dropout_mask_for_cell", "nest.is_nested", "array_ops.shape", "tf.shape", "K.shape", "deconv_output_length", "array_ops.stack", "tf.stack",
                "self.compute_output_shape", "context.executing_eagerly", "K.int_shape", "len", "isinstance", "K.image_data_format",
                "conv_utils.convert_data_format", "conv_utils.normalize_tuple", "tuple", "list", "int", "float", "max", "min",
                "np.prod", "K.cast_to_floatx_cfg"}


GEOM_OPS = {"conv", "conv_transpose", "depthwise_conv", "separable_conv"}
GEOMETRY = []     # (class, op, ((keyword, source text), ...)) in order of discovery


class Fail(Exception):
  pass


def cstr(s):
  return '"' + s.replace('"', '""') + '"'


class V:
  """symbolic value"""

  def __init__(self, kind, *a):
    self.kind = kind
    self.a = a

  def coq(self):
    k = self.kind
    if k == "In":
      return "DIn"
    if k == "Cfg":
      return "DCfg"
    if k == "W":
      return f"(DW {cstr(self.a[0])})"
    if k == "Quant":
      return f"(DQuant {cstr(self.a[0])} {self.a[1].coq()})"
    if k == "Op":
      n = len(self.a[1])
      if not 1 <= n <= 3:
        raise Fail(f"operation {self.a[0]} with {n} tracked arguments")
      return f"(DOp{n} {cstr(self.a[0])} " + " ".join(x.coq() for x in self.a[1]) + ")"
    if k == "If":
      return f"(DIf {cstr(self.a[0])} {self.a[1].coq()} {self.a[2].coq()})"
    raise Fail("unknown value kind " + k)


CFG = V("Cfg")


def tracked(v):
  return v.kind != "Cfg"


class Exec:
  def __init__(self, cname, input_names, methods=None):
    self.cname = cname
    self.input_names = input_names
    self.methods = methods or {}
    self.depth = 0

  def cond(self, test, t, f):
    """if <test>: t else: f  as nested DIf over atomic conditions (and / or / not are decomposed)"""
    if isinstance(test, ast.BoolOp) and isinstance(test.op, ast.And):
      out = t
      for v in reversed(test.values):
        out = self.cond(v, out, f)
      return out
    if isinstance(test, ast.BoolOp) and isinstance(test.op, ast.Or):
      out = f
      for v in reversed(test.values):
        out = self.cond(v, t, out)
      return out
    if isinstance(test, ast.UnaryOp) and isinstance(test.op, ast.Not):
      return self.cond(test.operand, f, t)
    if t.coq() == f.coq():
      return t
    return V("If", ast.unparse(test), t, f)

  def expr(self, e, env):
    if isinstance(e, ast.Name):
      if e.id in env:
        return env[e.id]
      return CFG
    if isinstance(e, ast.Constant):
      return CFG
    if isinstance(e, ast.Attribute):
      s = ast.unparse(e)
      if s.startswith("self.") and s.count(".") == 1:
        name = s[5:]
        if name in WEIGHTS:
          return V("W", name)
        return CFG
      base = self.expr(e.value, env)
      if tracked(base):
        # attribute of a tracked tensor (e.g. x.shape, x.dtype): configuration
        return CFG
      return CFG
    if isinstance(e, ast.Subscript):
      base = self.expr(e.value, env)
      if tracked(base):
        return V("Op", "getitem:" + ast.unparse(e.slice), [base])
      return CFG
    if isinstance(e, (ast.Tuple, ast.List)):
      vals = [self.expr(x, env) for x in e.elts]
      if any(tracked(v) for v in vals):
        out = vals[-1]
        for v in reversed(vals[:-1]):      # right-nested pairs
          out = V("Op", "tuple", [v, out])
        return out if len(vals) > 1 else V("Op", "tuple1", [vals[0]])
      return CFG
    if isinstance(e, ast.BinOp):
      l, r = self.expr(e.left, env), self.expr(e.right, env)
      if tracked(l) or tracked(r):
        return V("Op", type(e.op).__name__.lower(), [l, r])
      return CFG
    if isinstance(e, ast.UnaryOp):
      v = self.expr(e.operand, env)
      return V("Op", type(e.op).__name__.lower(), [v]) if tracked(v) else CFG
    if isinstance(e, (ast.Compare, ast.BoolOp)):
      return CFG
    if isinstance(e, ast.IfExp):
      t, f = self.expr(e.body, env), self.expr(e.orelse, env)
      if tracked(t) or tracked(f):
        return self.cond(e.test, t, f)
      return CFG
    if isinstance(e, ast.Call):
      fn = ast.unparse(e.func)
      args = [self.expr(a, env) for a in e.args] + [self.expr(k.value, env) for k in e.keywords]
      targs = [a for a in args if tracked(a)]
      if fn.startswith("self.") and fn.endswith("_quantizer_internal") or fn in ("self.average_quantizer_internal",):
        if len(targs) > 1:
          raise Fail(f"{self.cname}: quantizer call {fn} with {len(targs)} tracked arguments")
        # a quantizer applied to a configuration constant (1/pool_area) is itself a tracked value
        return V("Quant", fn[5:], targs[0] if targs else CFG)
      if fn in CONFIG_CALLS:
        return CFG
      if fn.startswith("self.") and fn[5:] in self.methods and fn[5:] != "call":
        if self.depth > 3:
          raise Fail(f"{self.cname}: inlining too deep at {fn}")
        m = self.methods[fn[5:]]
        pnames = [a.arg for a in m.args.args][1:]
        if e.keywords or len(pnames) != len(e.args):
          raise Fail(f"{self.cname}: cannot inline {fn} (keyword / default arguments)")
        self.depth += 1
        res = self.block(list(m.body), dict(zip(pnames, args[:len(e.args)])))
        self.depth -= 1
        if res is None:
          raise Fail(f"{self.cname}: inlined {fn} does not return")
        return res
      if fn in IDENTITY:
        if len(targs) == 1:
          return targs[0]
        if not targs:
          return CFG
      if not targs:
        return CFG
      op = ALIAS.get(fn, fn)
      if op in GEOM_OPS and not (fn.startswith("self.") and fn[5:] in self.methods):
        # a backend convolution: record which geometry keywords it receives and from where (golden table of C11)
        kws = sorted((k.arg, "".join(ast.unparse(k.value).split())) for k in e.keywords if k.arg)
        ent = (self.cname, op, tuple(kws))
        if ent not in GEOMETRY:
          GEOMETRY.append(ent)
      return V("Op", op, targs)
    raise Fail(f"{self.cname}: unsupported expression {type(e).__name__}: {ast.unparse(e)[:60]}")

  def block(self, stmts, env):
    """returns the symbolic value returned by executing stmts (with DIf nodes for branches)"""
    for i, st in enumerate(stmts):
      rest = stmts[i + 1:]
      if isinstance(st, ast.Return):
        return self.expr(st.value, env) if st.value is not None else CFG
      if isinstance(st, ast.Assign):
        val = self.expr(st.value, env)
        for tg in st.targets:
          self.assign(tg, val, env)
        continue
      if isinstance(st, ast.AugAssign):
        cur = self.expr(st.target, env)
        v = self.expr(st.value, env)
        self.assign(st.target, V("Op", type(st.op).__name__.lower(), [cur, v]) if (tracked(cur) or tracked(v)) else CFG, env)
        continue
      if isinstance(st, ast.Expr):
        s = ast.unparse(st.value)
        if isinstance(st.value, ast.Constant) or ".set_shape(" in s or s.startswith("logging.") or s.startswith("print("):
          continue
        raise Fail(f"{self.cname}: unsupported expression statement {s[:60]}")
      if isinstance(st, ast.If):
        flag = ast.unparse(st.test)
        has_return = any(isinstance(n, ast.Return) for b in (st.body, st.orelse) for x in b for n in ast.walk(x))
        if not has_return:
          # phi-merge: run both branches, then every variable becomes a conditional value
          et, ef = dict(env), dict(env)
          if self.block(list(st.body), et) is not None or self.block(list(st.orelse), ef) is not None:
            raise Fail(f"{self.cname}: unexpected return in `if {flag}`")
          for k in set(et) | set(ef):
            vt, vf = et.get(k, CFG), ef.get(k, CFG)
            env[k] = self.cond(st.test, vt, vf) if (tracked(vt) or tracked(vf)) else CFG
          continue
        t = self.block(list(st.body) + rest, dict(env))
        f = self.block(list(st.orelse) + rest, dict(env))
        if t is None or f is None:
          raise Fail(f"{self.cname}: a branch of `if {flag}` does not return")
        return self.cond(st.test, t, f)
      if isinstance(st, (ast.Assert, ast.Pass)):
        continue
      raise Fail(f"{self.cname}: unsupported statement {type(st).__name__}")
    return None

  def assign(self, target, val, env):
    if isinstance(target, ast.Name):
      env[target.id] = val
    elif isinstance(target, (ast.Tuple, ast.List)):
      for j, t in enumerate(target.elts):
        self.assign(t, V("Op", f"getitem:{j}", [val]) if tracked(val) else CFG, env)
    elif isinstance(target, ast.Attribute) or isinstance(target, ast.Subscript):
      if tracked(val):
        raise Fail(f"{self.cname}: assignment of a tracked value to {ast.unparse(target)}")
    else:
      raise Fail(f"{self.cname}: unsupported assignment target")


LAYERS = [("qlayers.py", "QDense"), ("qconvolutional.py", "QConv1D"), ("qconvolutional.py", "QConv2D"),
          ("qconvolutional.py", "QConv2DTranspose"), ("qconvolutional.py", "QDepthwiseConv2D"),
          ("qconvolutional.py", "QSeparableConv1D"), ("qconvolutional.py", "QSeparableConv2D"),
          ("qmac.py", "QScaleShift"), ("qpooling.py", "QAveragePooling2D"), ("qpooling.py", "QGlobalAveragePooling2D"),
          ("qrecurrent.py", "QSimpleRNNCell"), ("qrecurrent.py", "QLSTMCell"), ("qrecurrent.py", "QGRUCell")]


def translate_call(path, cname):
  tree = ast.parse(open(path).read())
  for n in tree.body:
    if isinstance(n, ast.ClassDef) and n.name == cname:
      for f in n.body:
        if isinstance(f, ast.FunctionDef) and f.name == "call":
          params = [a.arg for a in f.args.args][1:]
          env = {params[0]: V("In")}
          for p in params[1:]:
            env[p] = V("W", "@states") if p == "states" else CFG
          body = [s for s in f.body]
          methods = {m.name: m for m in n.body if isinstance(m, ast.FunctionDef)}
          res = Exec(cname, params, methods).block(body, env)
          if res is None:
            raise Fail(f"{cname}.call does not return")
          return res
      raise Fail(f"{cname} has no call method")
  raise Fail(f"class {cname} not found in {path}")


def quantizers_list(path, cname):
  """the `self.quantizers = [...]` list of __init__ (what get_quantizers reports)"""
  tree = ast.parse(open(path).read())
  for n in tree.body:
    if isinstance(n, ast.ClassDef) and n.name == cname:
      for f in ast.walk(n):
        if isinstance(f, ast.Assign) and ast.unparse(f.targets[0]) == "self.quantizers" and isinstance(f.value, ast.List):
          return [ast.unparse(e).replace("self.", "") for e in f.value.elts]
  return None


def emit(outdir):
  os.makedirs(outdir, exist_ok=True)
  hdr = ("(* GENERATED on every run by tools/translate/layercalls.py from " + REPO + "/qkeras -- do not edit *)\n"
         "From Coq Require Import String List.\nFrom QV Require Import Layers.Dataflow.\nImport ListNotations.\nOpen Scope string_scope.\n")
  rows, qrows, fails = [], [], []
  del GEOMETRY[:]
  for fname, cname in LAYERS:
    path = os.path.join(REPO, "qkeras", fname)
    try:
      v = translate_call(path, cname)
      rows.append(f"Definition gen_{cname} : dexp := {v.coq()}.")
      ql = quantizers_list(path, cname)
      qrows.append(f"Definition genq_{cname} : list string := [" + "; ".join(cstr(q) for q in (ql or [])) + "].")
    except (Fail, SyntaxError, OSError) as e:
      fails.append(f"{cname}: {e}")
      rows.append(f"Definition gen_{cname} : dexp := DOp1 {cstr('translation_failed: ' + str(e))} DCfg.")
      qrows.append(f"Definition genq_{cname} : list string := [].")
  text = hdr + "\n".join(rows) + "\n" + "\n".join(qrows) + "\n"
  text += "Definition layer_translation_failures : list string := [" + "; ".join(cstr(f) for f in fails) + "].\n"
  text += ("Definition gen_geometry : list (string * string * list (string * string)) :=\n  [" +
           ";\n   ".join(f"({cstr(c)}, {cstr(o)}, [" + "; ".join(f"({cstr(k)}, {cstr(v)})" for k, v in kws) + "])" for c, o, kws in GEOMETRY) + "].\n")
  path = os.path.join(outdir, "LayerCalls.v")
  with open(path, "w") as f:
    f.write(text)
  return path


if __name__ == "__main__":
  p = emit(sys.argv[1] if len(sys.argv) > 1 else "/verif/coq/gen")
  print(open(p).read())

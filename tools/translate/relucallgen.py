#!/usr/bin/env python3
"""Fail-closed translator: quantized_relu.__call__ without the sigmoid option (qkeras/quantizers.py; deterministic rounding)
-> coq/gen/ReluCallGen.v, regenerated on every run.

  gen_qr_xq (bits integer : Z) (leaky iqc has_rub : bool) (slope rub x : rat) : rat    the quantized value xq
  gen_qr_xu (bits integer : Z) (leaky iqc has_rub : bool) (slope rub x : rat) : rat    the unquantized surrogate x_u
  gen_qr_top (bits integer : Z) (leaky : bool) : rat                                   m_i - m_f, the bound of the surrogate

leaky = (negative_slope != 0) -- the same boolean is used for `negative_slope > 0` (slopes are non-negative); has_rub =
relu_upper_bound is given (and non-zero); iqc = is_quantized_clip.  Built on the interpreter of lingen.py / qbitsgen.py.
Link/ReluCallLink.v proves: the surrogate's bound is 2^integer - 2^(integer - non-sign bits) -- the largest code -- and, for the
plain ReLU (no slope), xq is the model value qr_val of Quant/Fixed.v for every configuration and every rational input."""
import ast
import os
import sys

sys.path.insert(0, os.path.dirname(os.path.dirname(os.path.abspath(__file__))))
from translate import qbitsgen  # noqa: E402
from translate.lingen import Fail, to_r, to_z  # noqa: E402

REPO = os.environ.get("QKERAS_REPO", "/repo")


class QR(qbitsgen.QB):
  def sub(self):
    return QR(self.cls, self.attrs, self.env)

  def val(self, n):
    src = ast.unparse(n)
    line = getattr(n, "lineno", 0)
    if src in ("self.negative_slope != 0.0", "self.negative_slope > 0"):
      return ("b", "leaky")
    if src == "self.relu_upper_bound is not None":
      return ("b", "has_rub")
    if src == "self.relu_upper_bound and (not self.is_quantized_clip)":
      return ("b", "(has_rub && negb iqc)")
    if isinstance(n, ast.BinOp) and isinstance(n.op, ast.Mult) and isinstance(n.left, ast.Call) and ast.unparse(n.left.func) == "tf.ones_like":
      return self.val(n.right)           # a constant tensor of that value
    if isinstance(n, ast.Call):
      f = ast.unparse(n.func)
      kw = {k.arg: ast.unparse(k.value) for k in n.keywords}
      if f == "K.cast" and len(n.args) == 1 and kw == {"dtype": "'float32'"}:
        return self.val(n.args[0])
      if f == "K.pow" and len(n.args) == 2 and ast.unparse(n.args[0]) in ("2", "tf.constant(2.0, tf.float32)"):
        return ("r", f"(rpow2 {to_z(self.val(n.args[1]), line)})")
      if f == "K.relu" and len(n.args) == 1 and kw == {"alpha": "self.negative_slope"}:
        return ("r", f"(lrelu slope {to_r(self.val(n.args[0]), line)})")
      if f == "tf.where" and len(n.args) == 3 and isinstance(n.args[0], ast.Compare) and len(n.args[0].ops) == 1 and isinstance(n.args[0].ops[0], ast.LtE):
        c = n.args[0]
        a, b = self.val(c.left), self.val(c.comparators[0])
        return ("r", f"(if rle {to_r(a, line)} {to_r(b, line)} then {to_r(self.val(n.args[1]), line)} else {to_r(self.val(n.args[2]), line)})")
      if f == "tf.ones_like" and len(n.args) == 1:
        return ("r", "(1, 1)")
    return super().val(n)

  def run(self, stmts):
    for st in stmts:
      if self.ret is not None:
        return
      src = ast.unparse(st)
      if src == "x = K.cast(x, dtype='float32')" and self.env.get("x") == ("r", "x"):
        continue
      if isinstance(st, ast.If):
        t = ast.unparse(st.test)
        if t == "self.use_sigmoid":
          self.run(st.orelse)                # the sigmoid option is an oracle path (C01 grid predicate), not translated
          continue
        if t in ("not self.built", "self.use_ste"):
          super().run([st])
          continue
        c = self.val(st.test)
        if c[0] != "b":
          raise Fail(f"line {st.lineno}: condition `{t}`")
        a, b = self.sub(), self.sub()
        a.run(st.body)
        b.run(st.orelse)
        if a.ret is not None or b.ret is not None:
          raise Fail(f"line {st.lineno}: return under a condition")
        # names assigned in one branch only (neg_factor) are local to it
        self.env = self.merge(c[1], {k: v for k, v in a.env.items() if k in b.env}, {k: v for k, v in b.env.items() if k in a.env}, st.lineno)
        continue
      super().run([st])


def translate():
  tree = ast.parse(open(os.path.join(REPO, "qkeras", "quantizers.py")).read())
  cls = next((n for n in tree.body if isinstance(n, ast.ClassDef) and n.name == "quantized_relu"), None)
  if cls is None:
    raise Fail("class quantized_relu not found")
  init = ast.unparse(next(f for f in cls.body if isinstance(f, ast.FunctionDef) and f.name == "__init__"))
  for need in ("self.bits = bits", "self.integer = integer", "self.negative_slope = negative_slope", "self.relu_upper_bound = relu_upper_bound",
               "self.is_quantized_clip = is_quantized_clip", "self.use_sigmoid = use_sigmoid"):
    if need not in init:
      raise Fail(f"__init__: `{need}` not found")
  attrs = {"self.bits": ("z", "bits"), "self.integer": ("z", "integer"), "self.negative_slope": ("r", "slope"), "self.relu_upper_bound": ("r", "rub"),
           "self.is_quantized_clip": ("b", "iqc")}
  call = next((f for f in cls.body if isinstance(f, ast.FunctionDef) and f.name == "__call__"), None)
  if call is None:
    raise Fail("quantized_relu.__call__ not found")
  it = QR(cls, attrs, {"x": ("r", "x")})
  it.run(call.body)
  if it.ret != ("done",) or "xq" not in it.env or "x_u" not in it.env:
    raise Fail("__call__ does not reach the straight-through return with xq and x_u")
  ret = next((s for s in call.body if isinstance(s, ast.If) and ast.unparse(s.test) == "self.use_ste"), None)
  if ret is None or "x_u + tf.stop_gradient(self.qnoise_factor * (-x_u + xq))" not in ast.unparse(ret):
    raise Fail("the straight-through return is not built on x_u and xq")
  # the surrogate bound, with the same attribute bindings
  it2 = QR(cls, attrs, {"x": ("r", "x")})
  pre = []
  for s in call.body:
    if isinstance(s, ast.If) and ast.unparse(s.test) == "self.is_quantized_clip":
      break
    pre.append(s)
  it2.run(pre)
  if "m_i" not in it2.env or "m_f" not in it2.env:
    raise Fail("m_i / m_f are not computed before the surrogate")
  top = f"(rsub {to_r(it2.env['m_i'])} {to_r(it2.env['m_f'])})"
  return to_r(it.env["xq"]), to_r(it.env["x_u"]), top


HEADER = ["(* GENERATED by tools/translate/relucallgen.py from qkeras/quantizers.py -- do not edit *)",
          "From Coq Require Import ZArith Bool.", "From QV Require Import Base.ZQ Base.FL Quant.ReluSrc.", "Open Scope Z_scope.", ""]
SIG = "(bits integer : Z) (leaky iqc has_rub : bool) (slope rub x : rat) : rat"


def emit(outdir):
  lines = list(HEADER)
  ok, why = True, ""
  try:
    xq, xu, top = translate()
    lines.append(f"Definition gen_qr_xq {SIG} :=\n  {xq}.")
    lines.append(f"Definition gen_qr_xu {SIG} :=\n  {xu}.")
    lines.append(f"Definition gen_qr_top (bits integer : Z) (leaky : bool) : rat :=\n  {top}.")
  except Fail as e:
    ok, why = False, str(e)
  except (OSError, SyntaxError, KeyError, IndexError, AttributeError, StopIteration) as e:
    ok, why = False, f"{type(e).__name__}: {e}"
  if not ok:
    lines = list(HEADER) + ["(* translation failed: " + why.replace("*)", "* )") + " *)",
                            f"Definition gen_qr_xq {SIG} := (1, 3).", f"Definition gen_qr_xu {SIG} := (1, 3).",
                            "Definition gen_qr_top (bits integer : Z) (leaky : bool) : rat := (1, 3)."]
  lines.append(f"Definition relucall_translation_ok : bool := {'true' if ok else 'false'}.")
  path = os.path.join(outdir, "ReluCallGen.v")
  with open(path, "w") as f:
    f.write("\n".join(lines) + "\n")
  return path


if __name__ == "__main__":
  print(open(emit(sys.argv[1] if len(sys.argv) > 1 else ".")).read())

#!/usr/bin/env python3
"""Fail-closed translator: how the quantized LAYER classes serialise their quantizers (get_config of every class in
qlayers.py, qconvolutional.py, qpooling.py, qmac.py, qrecurrent.py, qnormalization.py, qconv2d_batchnorm.py,
qdepthwiseconv2d_batchnorm.py) -> coq/gen/LayerMeta.v, regenerated on every run.

For each class:  its name, its first base class, the constructor parameters that name a quantizer (`*_quantizer`, and `activation`
when the class has one), and for every key its get_config writes (dict literal entries and `config["k"] = v` assignments) the
FORM of the value and the attribute it is read from:

  attr          self.X                      constraints / activations / initializers / regularizers   <module>.serialize(self.X)
  other         anything else (kept as text, compared with a golden list in Properties/C13.v)

Properties/C13.v proves over the regenerated table: every quantizer parameter of every class is a configuration key of the class
or of a quantized base class, and every quantizer / activation key is read from the attribute of ITS OWN name (X or X_internal) --
so no quantizer is serialised under another one's key, and none is forgotten."""
import ast
import os
import sys

REPO = os.environ.get("QKERAS_REPO", "/repo")
FILES = ["qlayers.py", "qconvolutional.py", "qpooling.py", "qmac.py", "qrecurrent.py", "qnormalization.py", "qconv2d_batchnorm.py",
         "qdepthwiseconv2d_batchnorm.py"]
WRAPPERS = ("constraints.serialize", "activations.serialize", "initializers.serialize", "regularizers.serialize")


class Fail(Exception):
  pass


def cstr(s):
  return '"' + s.replace('"', '""') + '"'


def value_form(v):
  if isinstance(v, ast.Attribute) and ast.unparse(v.value) == "self":
    return "attr", v.attr
  if isinstance(v, ast.Call) and ast.unparse(v.func) in WRAPPERS and len(v.args) == 1 and not v.keywords \
     and isinstance(v.args[0], ast.Attribute) and ast.unparse(v.args[0].value) == "self":
    return ast.unparse(v.func).split(".")[0], v.args[0].attr
  return "other", " ".join(ast.unparse(v).split())


def class_rows(tree):
  rows = []
  for c in tree.body:
    if not isinstance(c, ast.ClassDef):
      continue
    gc = next((f for f in c.body if isinstance(f, ast.FunctionDef) and f.name == "get_config"), None)
    init = next((f for f in c.body if isinstance(f, ast.FunctionDef) and f.name == "__init__"), None)
    if gc is None:
      continue
    params = ([a.arg for a in init.args.args][1:] + [a.arg for a in init.args.kwonlyargs]) if init else []
    qparams = [p for p in params if p.endswith("_quantizer") or p == "activation" or p == "quantizer"]
    keys = []
    for n in ast.walk(gc):
      if isinstance(n, ast.Dict):
        for k, v in zip(n.keys, n.values):
          if not (isinstance(k, ast.Constant) and isinstance(k.value, str)):
            raise Fail(f"{c.name}.get_config: a key that is not a string literal")
          keys.append((k.value,) + value_form(v))
      if isinstance(n, ast.Assign) and len(n.targets) == 1 and isinstance(n.targets[0], ast.Subscript) and isinstance(n.targets[0].slice, ast.Constant) \
         and isinstance(n.targets[0].slice.value, str) and isinstance(n.targets[0].value, ast.Name) and n.targets[0].value.id in ("config", "base_config"):
        keys.append((n.targets[0].slice.value,) + value_form(n.value))
    uses_super = "super(" in ast.unparse(gc) and ".get_config()" in ast.unparse(gc)
    base = ast.unparse(c.bases[0]) if c.bases else ""
    rows.append((c.name, base, uses_super, qparams, keys))
  return rows


def emit(outdir):
  hdr = ("(* GENERATED on every run by tools/translate/layermeta.py from " + REPO + "/qkeras -- do not edit *)\n"
         "From Coq Require Import String List Bool.\nImport ListNotations.\nOpen Scope string_scope.\n")
  try:
    rows = []
    for fn in FILES:
      rows += class_rows(ast.parse(open(os.path.join(REPO, "qkeras", fn)).read()))
    if not rows:
      raise Fail("no class with a get_config found")
    lines = ["Definition layer_translation_ok : bool := true."]
    items = []
    for name, base, sup, qparams, keys in rows:
      ks = "[" + "; ".join(f"({cstr(k)}, {cstr(form)}, {cstr(attr)})" for k, form, attr in keys) + "]"
      items.append(f"  ({cstr(name)}, {cstr(base)}, {'true' if sup else 'false'}, [{'; '.join(cstr(p) for p in qparams)}], {ks})")
    lines.append("Definition gen_layer_configs : list (string * string * bool * list string * list (string * string * string)) :=\n [\n" + ";\n".join(items) + "\n ].")
    text = hdr + "\n".join(lines) + "\n"
  except (Fail, SyntaxError, OSError) as e:
    text = (hdr + "Definition layer_translation_ok : bool := false.\n"
            f"Definition layer_translation_failed : string := {cstr(str(e))}.\n"
            "Definition gen_layer_configs : list (string * string * bool * list string * list (string * string * string)) := [].\n")
  path = os.path.join(outdir, "LayerMeta.v")
  with open(path, "w") as f:
    f.write(text)
  return path


if __name__ == "__main__":
  print(open(emit(sys.argv[1] if len(sys.argv) > 1 else ".")).read())

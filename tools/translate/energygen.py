#!/usr/bin/env python3
"""Fail-closed translator: the operation-energy dispatch of energy_estimate (qkeras/qtools/qenergy/qenergy.py)
-> coq/gen/EnergyGen.v, regenerated on every run.

  gen_opcost (gf uop uadd : string -> Q) (present : string -> bool) (cls : string) (count n_inputs : Z) : Q

cls        layer.__class__.__name__
count      the layer item's operation_count
n_inputs   len(layer item's input_quantizer_list)
uop k      OP[get_op_type(X.output)][X.implemented_as()](X.gate_bits)   for the operator X stored under key k of the layer item
gf k       X.gate_factor
uadd k     OP[get_op_type(X.output)]["add"](X.output.bits)
present k  truthiness of the (optional) operator under key k

The body of `for layer in model.layers` is executed symbolically: statements before the class dispatch bind names
(anything not understood binds the name to UNKNOWN); each arm of the `if layer.__class__.__name__ in [...]` chain is
executed on a copy of that environment and must leave `energy_op` as an expression over the symbols above -- an UNKNOWN
reaching it (e.g. a loop-rebound variable) makes the translation fail.  Also extracted: the keys of the per-layer
"energy" dictionary with the variable each prints, and the terms of `total_energy += (...)`; gen_total_terms lists the
keys whose variables the total adds (it must be all four).  Link/EnergyLink.v proves gen_opcost equal to the model
QTools/Energy.v for every class name."""
import ast
import copy
import os
import sys

REPO = os.environ.get("QKERAS_REPO", "/repo")
SRC = "qkeras/qtools/qenergy/qenergy.py"


class Fail(Exception):
  pass


def cstr(s):
  return '"' + s.replace('"', '""') + '"'


UNKNOWN = ("unknown",)


def is_clsname(n):
  return ast.unparse(n) == "layer.__class__.__name__"


def item_key(n):
  """qtools_util.get_val(layer_item, "k") or layer_item["k"] -> k"""
  if isinstance(n, ast.Call) and ast.unparse(n.func) in ("qtools_util.get_val", "get_val") and len(n.args) == 2 and not n.keywords \
     and ast.unparse(n.args[0]) == "layer_item" and isinstance(n.args[1], ast.Constant) and isinstance(n.args[1].value, str):
    return n.args[1].value
  if isinstance(n, ast.Subscript) and ast.unparse(n.value) == "layer_item" and isinstance(n.slice, ast.Constant) and isinstance(n.slice.value, str):
    return n.slice.value
  return None


def ev(n, env):
  """symbolic value of an expression, UNKNOWN when not understood"""
  k = item_key(n)
  if k is not None:
    if k == "operation_count":
      return ("q", "inject_Z count")
    return ("item", k)
  if isinstance(n, ast.Constant) and isinstance(n.value, int) and not isinstance(n.value, bool):
    return ("q", f"inject_Z ({n.value})")
  if isinstance(n, ast.Name):
    return env.get(n.id, UNKNOWN)
  if isinstance(n, ast.Attribute):
    b = ev(n.value, env)
    if b[0] == "item":
      return {"gate_factor": ("q", f"gf {cstr(b[1])}"), "gate_bits": ("gbits", b[1]), "output": ("out", b[1])}.get(n.attr, UNKNOWN)
    if b[0] == "out" and n.attr == "bits":
      return ("obits", b[1])
    return UNKNOWN
  if isinstance(n, ast.Call):
    f = n.func
    if isinstance(f, ast.Attribute) and f.attr == "implemented_as" and not n.args and not n.keywords:
      b = ev(f.value, env)
      return ("mode", b[1]) if b[0] == "item" else UNKNOWN
    if isinstance(f, ast.Name) and f.id == "get_op_type" and len(n.args) == 1 and not n.keywords:
      b = ev(n.args[0], env)
      return ("optype", b[1]) if b[0] == "out" else UNKNOWN
    if isinstance(f, ast.Name) and f.id == "len" and len(n.args) == 1 and not n.keywords:
      b = ev(n.args[0], env)
      return ("q", "inject_Z n_inputs") if b == ("item", "input_quantizer_list") else UNKNOWN
    # OP[type][mode](bits)
    fv = ev(f, env)
    if fv[0] == "OP2" and len(n.args) == 1 and not n.keywords:
      a = ev(n.args[0], env)
      _, k, how = fv
      if how == "mode" and a == ("gbits", k):
        return ("q", f"uop {cstr(k)}")
      if how == "add" and a == ("obits", k):
        return ("q", f"uadd {cstr(k)}")
    return UNKNOWN
  if isinstance(n, ast.Subscript):
    if isinstance(n.value, ast.Name) and n.value.id == "OP" and "OP" not in env:
      s = ev(n.slice, env)
      return ("OP1", s[1]) if s[0] == "optype" else UNKNOWN
    b = ev(n.value, env)
    if b[0] == "OP1":
      if isinstance(n.slice, ast.Constant) and n.slice.value == "add":
        return ("OP2", b[1], "add")
      s = ev(n.slice, env)
      if s == ("mode", b[1]):
        return ("OP2", b[1], "mode")
    return UNKNOWN
  if isinstance(n, ast.BinOp) and isinstance(n.op, (ast.Add, ast.Sub, ast.Mult)):
    l, r = ev(n.left, env), ev(n.right, env)
    if l[0] == "q" and r[0] == "q":
      op = {ast.Add: "+", ast.Sub: "-", ast.Mult: "*"}[type(n.op)]
      return ("q", f"({l[1]} {op} {r[1]})")
    return UNKNOWN
  return UNKNOWN


def targets_of(st):
  out = []
  for n in ast.walk(st):
    if isinstance(n, (ast.Assign, ast.AugAssign, ast.For)):
      ts = n.targets if isinstance(n, ast.Assign) else [n.target]
      for t in ts:
        for m in ast.walk(t):
          if isinstance(m, ast.Name):
            out.append(m.id)
  return out


def run(stmts, env, strict):
  """execute statements; strict (inside a dispatch arm): every statement form must be understood"""
  for st in stmts:
    if isinstance(st, ast.Pass) or (isinstance(st, ast.Expr) and isinstance(st.value, ast.Constant)):
      continue
    if isinstance(st, ast.Assign) and len(st.targets) == 1 and isinstance(st.targets[0], ast.Name):
      env[st.targets[0].id] = ev(st.value, env)
      continue
    if isinstance(st, ast.AugAssign) and isinstance(st.target, ast.Name) and isinstance(st.op, (ast.Add, ast.Mult, ast.Sub)):
      env[st.target.id] = ev(ast.BinOp(left=ast.Name(id=st.target.id, ctx=ast.Load()), op=st.op, right=st.value), env)
      continue
    if strict and isinstance(st, ast.If) and isinstance(st.test, ast.Name) and not st.orelse:
      c = env.get(st.test.id, UNKNOWN)
      if c[0] != "item":
        raise Fail(f"line {st.lineno}: test `{st.test.id}` is not an operator of the layer item")
      e2 = copy.copy(env)
      run(st.body, e2, True)
      for k_, v in e2.items():
        if env.get(k_) != v:
          old = env.get(k_, UNKNOWN)
          env[k_] = ("q", f"(if present {cstr(c[1])} then {v[1]} else {old[1]})") if v[0] == "q" and old[0] == "q" else UNKNOWN
      continue
    if strict:
      raise Fail(f"line {st.lineno}: statement `{ast.unparse(st)[:60]}` in a dispatch arm")
    for t in targets_of(st):
      env[t] = UNKNOWN
  return env


def chain(st):
  """[(class list | None, body)] of an if / elif / else chain on the class name"""
  arms = []
  while True:
    t = st.test
    if not (isinstance(t, ast.Compare) and len(t.ops) == 1 and isinstance(t.ops[0], ast.In) and is_clsname(t.left)
            and isinstance(t.comparators[0], ast.List) and all(isinstance(e, ast.Constant) and isinstance(e.value, str) for e in t.comparators[0].elts)):
      raise Fail(f"line {st.lineno}: dispatch test `{ast.unparse(t)[:60]}`")
    arms.append(([e.value for e in t.comparators[0].elts], st.body))
    if len(st.orelse) == 1 and isinstance(st.orelse[0], ast.If):
      st = st.orelse[0]
      continue
    arms.append((None, st.orelse))
    return arms


def translate(src):
  tree = ast.parse(src)
  fn = next((n for n in tree.body if isinstance(n, ast.FunctionDef) and n.name == "energy_estimate"), None)
  if fn is None:
    raise Fail("energy_estimate not found")
  loop = next((s for s in fn.body if isinstance(s, ast.For) and ast.unparse(s.iter) == "model.layers" and ast.unparse(s.target) == "layer"), None)
  if loop is None:
    raise Fail("`for layer in model.layers` not found")
  idx = next((i for i, s in enumerate(loop.body) if isinstance(s, ast.If) and isinstance(s.test, ast.Compare) and is_clsname(s.test.left)), None)
  if idx is None:
    raise Fail("class dispatch not found")
  env = run(loop.body[:idx], {}, False)
  if env.get("energy_op") != ("q", "inject_Z (0)"):
    raise Fail("energy_op is not initialised to 0 before the dispatch")
  arms = chain(loop.body[idx])
  text = ""
  for classes, body in arms:
    e = run(body, copy.copy(env), True)
    v = e.get("energy_op", UNKNOWN)
    if v[0] != "q":
      raise Fail(f"arm {classes}: energy_op is not an expression over the layer item's operators (a name bound outside the arm, or an unsupported form)")
    if classes is None:
      text += f"\n    {v[1]}"
    else:
      text += f"\n    if in_names cls [{'; '.join(cstr(c) for c in classes)}] then {v[1]} else"
  # the per-layer dictionary and the total
  tail = loop.body[idx + 1:]
  res = next((s for s in tail if isinstance(s, ast.Assign) and ast.unparse(s.targets[0]) == "result[layer.name]" and isinstance(s.value, ast.Dict)), None)
  tot = next((s for s in tail if isinstance(s, ast.AugAssign) and isinstance(s.op, ast.Add) and ast.unparse(s.target) == "total_energy"), None)
  if res is None or tot is None:
    raise Fail("result[layer.name] = {...} / total_energy += ... not found")
  en = next((v for k, v in zip(res.value.keys, res.value.values) if isinstance(k, ast.Constant) and k.value == "energy"), None)
  if not isinstance(en, ast.Dict):
    raise Fail("'energy' entry is not a dictionary literal")
  keyvar = []
  for k, v in zip(en.keys, en.values):
    # float("{0:.2f}".format(VAR))
    if not (isinstance(v, ast.Call) and ast.unparse(v.func) == "float" and len(v.args) == 1 and isinstance(v.args[0], ast.Call)
            and ast.unparse(v.args[0].func) == "'{0:.2f}'.format" and len(v.args[0].args) == 1 and isinstance(v.args[0].args[0], ast.Name)):
      raise Fail(f"energy entry {ast.unparse(k)} is not float('{{0:.2f}}'.format(name))")
    keyvar.append((k.value, v.args[0].args[0].id))

  def terms(n):
    if isinstance(n, ast.BinOp) and isinstance(n.op, ast.Add):
      return terms(n.left) + terms(n.right)
    if isinstance(n, ast.Name):
      return [n.id]
    raise Fail(f"total_energy term `{ast.unparse(n)[:40]}`")
  tv = terms(tot.value)
  if len(set(tv)) != len(tv):
    raise Fail("a variable is added to total_energy twice")
  # none of the summed variables may be rebound between the dispatch and the sum
  for s in tail[:tail.index(tot)]:
    if s is not res and set(targets_of(s)) & set(tv):
      raise Fail("an entry variable is rebound before it is added to the total")
  summed = [k for k, v in keyvar if v in tv]
  if len(summed) != len(tv):
    raise Fail("total_energy adds a variable that no energy entry prints")
  opkey = [k for k, v in keyvar if v == "energy_op"]
  final = next((s for s in fn.body if isinstance(s, ast.Assign) and ast.unparse(s.targets[0]) == "result['total_cost']"), None)
  trunc = final is not None and ast.unparse(final.value) == "int(total_energy)"
  return text, [k for k, _ in keyvar], summed, opkey, trunc


HEAD = """(* GENERATED by tools/translate/energygen.py from qkeras/qtools/qenergy/qenergy.py -- do not edit *)
From Coq Require Import ZArith QArith String List Bool.
Import ListNotations.
Open Scope string_scope.
Definition in_names (c : string) (l : list string) : bool := existsb (String.eqb c) l.
"""


def emit(gen_dir):
  path = os.path.join(gen_dir, "EnergyGen.v")
  try:
    text, keys, summed, opkey, trunc = translate(open(os.path.join(REPO, SRC)).read())
    ok, note = "true", ""
  except Fail as e:
    ok, note = "false", str(e)
    text, keys, summed, opkey, trunc = "\n    0", [], [], [], False
  except Exception as e:  # pylint: disable=broad-except
    ok, note = "false", f"{type(e).__name__}: {e}"
    text, keys, summed, opkey, trunc = "\n    0", [], [], [], False
  sl = lambda l: "[" + "; ".join(cstr(x) for x in l) + "]"
  body = (HEAD + f"Definition translation_ok : bool := {ok}.\nDefinition translation_note : string := {cstr(note)}.\n"
          f"Definition gen_entry_keys : list string := {sl(keys)}.\n"
          f"Definition gen_total_terms : list string := {sl(summed)}.\n"
          f"Definition gen_opcost_key : list string := {sl(opkey)}.\n"
          f"Definition gen_total_truncated : bool := {'true' if trunc else 'false'}.\n"
          "Open Scope Q_scope.\n"
          "Definition gen_opcost (gf uop uadd : string -> Q) (present : string -> bool) (cls : string) (count n_inputs : Z) : Q :="
          + text + ".\n")
  with open(path, "w") as f:
    f.write(body)
  return path


if __name__ == "__main__":
  p = emit(sys.argv[1] if len(sys.argv) > 1 else "/verif/coq/gen")
  print(open(p).read())

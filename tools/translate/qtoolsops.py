#!/usr/bin/env python3
"""Fail-closed translator: the type rules of qtools' operator classes -> Gallina (coq/gen/QToolsOps.v),
regenerated from /repo on every run.

Translated (qkeras/qtools/quantized_operators):
  multiplier_factory.MultiplierFactory.multiplier_impl_table  -> gen_mul_table
  adder_factory.IAdder.adder_impl_table                       -> gen_add_table
  multiplier_impl.{FixedPointMultiplier, Mux, XorGate, Shifter, AndGate, Adder, FloatingPointMultiplier}.__init__
  accumulator_impl.{po2_to_qbits, FixedPointAccumulator, Po2Accumulator, FloatingPointAccumulator}
  adder_impl.{po2_qbits_converter, FixedPointAdder, FloatingPointAdder, Po2FixedPointAdder, Po2Adder}

An `__init__` body is executed symbolically: quantizer operands are Gallina terms of type qt, the output
quantizer is a term that is rebuilt by every attribute assignment (set_bits (..) e), `if` statements become
Gallina conditionals on the merged state.  Only the attributes that define the reported TYPE are tracked
(bits, int_bits, is_signed, is_floating_point, is_po2, max_val_po2, name, mode); gate_factor / gate_bits /
op_type are energy bookkeeping and are dropped.  Anything not understood raises Fail and the generated
file then carries `translation_ok := false` with the reason.
The link theorems (generated function = hand-written model of QTools/Ops.v, for all operands) are in
Properties/C16.v and C17.v and are re-proved against the fresh output on every run.
"""
import ast
import os
import sys

REPO = os.environ.get("QKERAS_REPO", "/repo")
QO = os.path.join(REPO, "qkeras", "qtools", "quantized_operators")


class Fail(Exception):
  pass


FIELD = {  # python attribute -> (getter, setter, type)
    "bits": ("q_bits", "set_bits", "Z"), "int_bits": ("q_int", "set_int", "Z"), "is_signed": ("q_sgn", "set_sgn", "B"),
    "is_floating_point": ("q_fp", "set_fp", "B"), "is_po2": ("q_po2", "set_po2", "B"), "max_val_po2": ("q_maxv", "set_maxv", "M"),
    "name": ("q_name", "set_name", "N"), "mode": ("q_mode", "set_mode", "Z"),
}
IGNORED_ATTRS = {"gate_factor", "gate_bits", "op_type"}
NAME_CTOR = {"quantized_po2": "NPo2", "quantized_relu_po2": "NReluPo2", "ternary": "NTernary", "binary": "NBinary", "quantized_bits": "NQBits", "quantized_relu": "NQRelu"}
MULT_IMPL = {"FixedPointMultiplier": "IMul", "Shifter": "IShifter", "Mux": "IMux", "AndGate": "IAnd", "XorGate": "IXor", "Adder": "IAdd",
             "FloatingPointMultiplier": "IFMul"}
ADD_IMPL = {"FixedPointAdder": "AFixed", "Po2FixedPointAdder": "APo2Fixed", "Po2Adder": "APo2", "FloatingPointAdder": "AFloat"}


class Val:
  """typed Gallina term: ty in Z (integer), B (bool), Q (quantizer record), M (option rat), N (qname), S (python str), T (tuple)"""

  def __init__(self, ty, s, items=None):
    self.ty, self.s, self.items = ty, s, items

  def __repr__(self):
    return f"{self.ty}:{self.s}"


def as_bool(v):
  if v.ty == "B":
    return v.s
  if v.ty == "Z":
    if v.s in ("0", "1"):
      return "false" if v.s == "0" else "true"
    return f"(negb ({v.s} =? 0))"
  raise Fail(f"not a boolean: {v}")


def as_int(v):
  if v.ty == "Z":
    return v.s
  if v.ty == "B":
    return f"(b2z {v.s})"
  raise Fail(f"not an integer: {v}")


class Exec:
  SELF_RECORD = False          # True: `self` is the quantizer record under construction (quantizer_impl classes)

  def __init__(self, env, funcs):
    self.env = dict(env)      # local name -> Val
    self.attrs = {}           # self.<attr> -> Val
    self.funcs = funcs        # name -> callable(list[Val]) -> Val
    self.ret = None

  def clone(self):
    e = Exec(self.env, self.funcs)
    e.SELF_RECORD = self.SELF_RECORD
    e.OPTION_NONE = getattr(self, "OPTION_NONE", False)
    e.attrs = dict(self.attrs)
    e.ret = self.ret
    return e

  # ----- expressions
  def ev(self, n):
    if isinstance(n, ast.Constant):
      if isinstance(n.value, bool):
        return Val("B", "true" if n.value else "false")
      if isinstance(n.value, int):
        return Val("Z", str(n.value) if n.value >= 0 else f"({n.value})")
      if isinstance(n.value, str):
        return Val("S", n.value)
      if n.value is None:
        return Val("None", "None")
      raise Fail(f"constant {n.value!r}")
    if isinstance(n, ast.Name):
      if n.id in self.env:
        return self.env[n.id]
      raise Fail(f"unknown name {n.id}")
    if isinstance(n, ast.Attribute):
      if isinstance(n.value, ast.Name) and n.value.id == "self":
        if self.SELF_RECORD and n.attr in FIELD:
          g, _, ty = FIELD[n.attr]
          return Val(ty, f"({g} {self.attrs['__self__'].s})")
        if n.attr in self.attrs:
          return self.attrs[n.attr]
        raise Fail(f"unknown self.{n.attr}")
      base = self.ev(n.value)
      if base.ty == "K":                               # the qkeras quantizer being converted: its options are function parameters
        kinds = {"bits": "Z", "integer": "Z", "keep_negative": "B", "negative_slope": "SlopeNZ"}
        if n.attr not in kinds:
          raise Fail(f"qkeras quantizer option {n.attr}")
        return Val(kinds[n.attr], n.attr if kinds[n.attr] != "SlopeNZ" else "slope_nonzero")
      if base.ty == "Q":
        if n.attr in FIELD:
          g, _, ty = FIELD[n.attr]
          return Val(ty, f"({g} {base.s})")
        if n.attr == "use_01":
          return Val("B", f"(match q_use01 {base.s} with Some b => b | None => false end)")
        if n.attr == "output":       # multiplier.output: the multiplier operand IS its output type here
          return base
        raise Fail(f"attribute {n.attr} of a quantizer")
      raise Fail(f"attribute {n.attr} of {base}")
    if isinstance(n, ast.UnaryOp):
      if isinstance(n.op, ast.Not):
        return Val("B", f"(negb {as_bool(self.ev(n.operand))})")
      if isinstance(n.op, ast.USub):
        v = self.ev(n.operand)
        if v.ty == "Z" and v.s.isdigit():
          return Val("Z", f"(-{v.s})")
        return Val("Z", f"(- {as_int(v)})")
      raise Fail("unary op")
    if isinstance(n, ast.BoolOp):
      vs = [as_bool(self.ev(v)) for v in n.values]
      op = "&&" if isinstance(n.op, ast.And) else "||"
      return Val("B", "(" + f" {op} ".join(vs) + ")")
    if isinstance(n, ast.BinOp):
      a, b = self.ev(n.left), self.ev(n.right)
      if isinstance(n.op, ast.BitOr):
        return Val("B", f"({as_bool(a)} || {as_bool(b)})")
      if isinstance(n.op, (ast.Add, ast.Sub)):
        op = "+" if isinstance(n.op, ast.Add) else "-"
        return Val("Z", f"({as_int(a)} {op} {as_int(b)})")
      if isinstance(n.op, ast.Mult):
        if a.ty == "M" and b.ty == "M":
          return Val("M", f"(match {a.s}, {b.s} with Some a, Some b => Some (rnorm (rmul a b)) | _, _ => None end)")
        return Val("Z", f"({as_int(a)} * {as_int(b)})")
      if isinstance(n.op, ast.FloorDiv):
        return Val("Z", f"({as_int(a)} / {as_int(b)})")
      if isinstance(n.op, ast.Pow) and a.ty == "Z" and a.s == "2":
        return Val("Z", f"(2 ^ {as_int(b)})")
      raise Fail("binary op")
    if isinstance(n, ast.Compare) and len(n.ops) == 1:
      op, l, r = n.ops[0], n.left, n.comparators[0]
      if isinstance(op, (ast.In, ast.NotIn)):
        if not (isinstance(l, ast.Constant) and isinstance(l.value, str)):
          raise Fail("`in` with a non-literal needle")
        hay = self.ev(r)
        if hay.ty != "N":
          raise Fail("`in` on a non-name")
        fn = {"po2": "name_has_po2", "binary": "name_has_binary", "ternary": "name_has_ternary"}.get(l.value)
        if not fn:
          raise Fail(f"substring {l.value!r}")
        s = f"({fn} {hay.s})"
        return Val("B", s if isinstance(op, ast.In) else f"(negb {s})")
      if isinstance(op, (ast.Is, ast.IsNot)) and isinstance(r, ast.Constant) and r.value is None:
        a = self.ev(l)
        if a.ty != "M":
          raise Fail("`is None` on something that is not an optional value")
        yes, no = ("true", "false") if isinstance(op, ast.Is) else ("false", "true")
        return Val("B", f"(match {a.s} with None => {yes} | Some _ => {no} end)")
      a, b = self.ev(l), self.ev(r)
      if a.ty == "M" and getattr(self, "OPTION_NONE", False) and b.ty == "Z" and b.s.isdigit() and isinstance(op, (ast.Gt, ast.Lt)):
        # an optional rational whose None case is guarded by `is not None`: the comparison is only evaluated on Some v
        c = f"rlt ({b.s}, 1) v" if isinstance(op, ast.Gt) else f"rlt v ({b.s}, 1)"
        return Val("B", f"(match {a.s} with Some v => {c} | None => false end)")
      if a.ty == "SlopeNZ":
        if isinstance(op, ast.NotEq) and b.ty == "Z" and b.s == "0":
          return Val("B", "slope_nonzero")
        raise Fail("negative_slope comparison")
      if a.ty == "N" and b.ty == "S":
        fn = {"binary": "name_is_binary", "ternary": "name_is_ternary"}.get(b.s)
        if not fn:
          raise Fail(f"name compared with {b.s!r}")
        s = f"({fn} {a.s})"
        if isinstance(op, ast.Eq):
          return Val("B", s)
        if isinstance(op, ast.NotEq):
          return Val("B", f"(negb {s})")
        raise Fail("name comparison")
      if a.ty == "M":
        if b.ty == "Z" and b.s == "(-1)" and isinstance(op, ast.Eq):
          return Val("B", f"(match {a.s} with None => true | Some _ => false end)")
        if b.ty == "Z" and b.s == "(-1)" and isinstance(op, ast.NotEq):
          return Val("B", f"(match {a.s} with None => false | Some _ => true end)")
        if b.ty == "Z" and b.s.isdigit() and isinstance(op, ast.LtE):
          # None stands for -1, which is <= any non-negative constant
          return Val("B", f"(match {a.s} with None => true | Some v => rle v ({b.s}, 1) end)")
        raise Fail("max_val_po2 comparison")
      cmpop = {ast.Eq: "=?", ast.Gt: ">?", ast.Lt: "<?", ast.GtE: ">=?", ast.LtE: "<=?"}.get(type(op))
      if isinstance(op, ast.NotEq):
        return Val("B", f"(negb ({as_int(a)} =? {as_int(b)}))")
      if not cmpop:
        raise Fail("comparison")
      return Val("B", f"({as_int(a)} {cmpop} {as_int(b)})")
    if isinstance(n, ast.IfExp):
      c = as_bool(self.ev(n.test))
      a, b = self.ev(n.body), self.ev(n.orelse)
      if a.ty != b.ty:
        raise Fail("if-expression of two types")
      return Val(a.ty, f"(if {c} then {a.s} else {b.s})")
    if isinstance(n, ast.Tuple):
      items = [self.ev(e) for e in n.elts]
      return Val("T", None, items)
    if isinstance(n, ast.Subscript):
      # kernel_shape[:-1] is only consumed by np.prod, which is the kernel_ops parameter
      v = self.ev(n.value)
      if v.ty == "Shape":
        return Val("ShapeNoOut", None)
      raise Fail("subscript")
    if isinstance(n, ast.GeneratorExp):
      raise Fail("bare generator")
    if isinstance(n, ast.Call):
      return self.call(n)
    raise Fail(f"expression {type(n).__name__}")

  def call(self, n):
    fn = ast.unparse(n.func)
    if fn == "int":
      v = self.ev(n.args[0])
      return Val("Z", as_int(v))
    if fn == "get_np_value":
      return self.ev(n.args[0])
    if fn == "hasattr":
      return Val("B", "true")
    if fn == "max":
      a, b = [as_int(self.ev(x)) for x in n.args]
      return Val("Z", f"(Z.max {a} {b})")
    if fn == "min":
      a, b = [as_int(self.ev(x)) for x in n.args]
      return Val("Z", f"(Z.min {a} {b})")
    if fn == "math.ceil" and len(n.args) == 1 and isinstance(n.args[0], ast.Call) and ast.unparse(n.args[0].func) == "np.log2":
      v = self.ev(n.args[0].args[0])
      if v.ty != "M":
        raise Fail("math.ceil(np.log2(.)) of something that is not max_val_po2")
      # exact ceil(log2 v) of a positive rational; the None (-1) case is never evaluated by the code (guarded by != -1)
      return Val("Z", f"(match {v.s} with Some v => clog2_rat v | None => 0 end)")
    if fn == "any" and isinstance(n.args[0], ast.GeneratorExp):
      g = n.args[0]
      comp = g.generators[0]
      if not (isinstance(g.elt, ast.Compare) and isinstance(g.elt.ops[0], ast.In) and isinstance(comp.iter, ast.List)):
        raise Fail("any(...) of an unknown shape")
      hay = self.ev(g.elt.comparators[0])
      parts = []
      for e in comp.iter.elts:
        f = {"binary": "name_has_binary", "ternary": "name_has_ternary", "po2": "name_has_po2"}.get(e.value)
        if not f:
          raise Fail("any(...) needle")
        parts.append(f"{f} {hay.s}")
      return Val("B", "(" + " || ".join(parts) + ")")
    if fn == "np.prod":
      v = self.ev(n.args[0])
      if v.ty == "ShapeNoOut":
        return Val("Z", "kernel_ops")
      raise Fail("np.prod of something else")
    if fn == "np.ceil" or fn == "np.log2":
      inner = n.args[0]
      if fn == "np.ceil" and isinstance(inner, ast.Call) and ast.unparse(inner.func) == "np.log2":
        return Val("Z", f"(Z.log2_up {as_int(self.ev(inner.args[0]))})")
      raise Fail("ceil/log2 shape")
    if fn == "len":
      v = self.ev(n.args[0])
      if v.ty == "Shape":
        return Val("Z", "2")     # the guard only logs; any admissible length
      raise Fail("len")
    if fn.endswith(".get_min_max_exp") and isinstance(n.func, ast.Attribute):
      q = self.ev(n.func.value)
      return Val("T", None, [Val("Z", f"(fst (get_exp {q.s}))"), Val("Z", f"(snd (get_exp {q.s}))")])
    if fn in ("quantizer_impl.QuantizedBits",):
      return Val("Q", "mkQuantizedBits")
    if fn in ("quantizer_impl.FloatingPoint",):
      kw = {k.arg: k.value for k in n.keywords}
      return Val("Q", f"(mkFloat {as_int(self.ev(kw['bits']))})")
    short = fn.split(".")[-1]
    if short in self.funcs:
      return self.funcs[short]([self.ev(a) for a in n.args])
    raise Fail(f"call {fn}")

  # ----- statements
  def assign_attr(self, base, attr, val):
    """base.attr = val where base is self.output / output_quantizer / a local quantizer under construction"""
    if attr in IGNORED_ATTRS:
      return
    if attr not in FIELD:
      raise Fail(f"assignment to attribute {attr}")
    _, setter, ty = FIELD[attr]
    if ty == "B":
      s = as_bool(val)
    elif ty == "Z":
      s = as_int(val)
    elif ty == "M":
      if val.ty == "M":
        s = val.s
      elif val.ty == "Z" and val.s == "(-1)":
        s = "None"
      else:
        raise Fail("max_val_po2 value")
    elif ty == "N":
      if val.ty != "S" or val.s not in NAME_CTOR:
        raise Fail("name value")
      s = NAME_CTOR[val.s]
    cur = self.lookup_target(base)
    self.store_target(base, Val("Q", f"({setter} {cur.s} {s})"))

  def lookup_target(self, base):
    if isinstance(base, ast.Attribute) and isinstance(base.value, ast.Name) and base.value.id == "self":
      return self.attrs[base.attr]
    if isinstance(base, ast.Name):
      return self.env[base.id]
    raise Fail("assignment target base")

  def store_target(self, base, v):
    if isinstance(base, ast.Attribute):
      self.attrs[base.attr] = v
      # self.output and output_quantizer are the SAME object in the multiplier classes
      if base.attr == "output" and "output_quantizer" in self.env:
        self.env["output_quantizer"] = v
    else:
      self.env[base.id] = v
      if base.id == "output_quantizer" and "output" in self.attrs:
        self.attrs["output"] = v

  def run(self, body):
    for st in body:
      self.stmt(st)

  def stmt(self, st):
    if isinstance(st, ast.Expr):
      if isinstance(st.value, ast.Constant):
        return                                        # docstring
      c = ast.unparse(st.value)
      if c.startswith("super().__init__") or c.startswith("logging.") or c.startswith("assert_neither"):
        if c.startswith("super().__init__") and self.funcs.get("__super__"):
          self.funcs["__super__"](self, st.value)
        return
      raise Fail(f"expression statement {c[:40]}")
    if isinstance(st, ast.Assert):
      return
    if isinstance(st, ast.Raise):
      self.rejected = True                             # this path rejects the input: it defines no value
      return
    if isinstance(st, ast.Return):
      self.ret = self.ev(st.value)
      return
    if isinstance(st, ast.AugAssign):
      t = st.target
      if not (isinstance(t, ast.Attribute) and isinstance(st.op, ast.Add)):
        raise Fail("augmented assignment")
      cur = self.ev(t)
      self.assign_attr(t.value, t.attr, Val("Z", f"({as_int(cur)} + {as_int(self.ev(st.value))})"))
      return
    if isinstance(st, ast.Assign) and len(st.targets) == 1:
      t, v = st.targets[0], st.value
      if isinstance(t, ast.Tuple):
        val = self.ev(v)
        if val.ty != "T" or len(val.items) != len(t.elts):
          raise Fail("tuple assignment")
        for e, it in zip(t.elts, val.items):
          if isinstance(e, ast.Name):
            self.env[e.id] = it
          elif isinstance(e, ast.Attribute) and isinstance(e.value, ast.Name) and e.value.id == "self" and not self.SELF_RECORD:
            self.attrs[e.attr] = it
          else:
            raise Fail("tuple assignment target")
        return
      if isinstance(t, ast.Name):
        self.env[t.id] = self.ev(v)
        return
      if isinstance(t, ast.Attribute):
        if isinstance(t.value, ast.Name) and t.value.id == "self":
          if t.attr in IGNORED_ATTRS:
            return
          if self.SELF_RECORD and t.attr in FIELD:
            val = self.ev(v)
            if t.attr == "name" and val.ty == "None":
              return                                   # IQuantizer.__init__: name = None, always overwritten by the subclass
            _, setter, ty = FIELD[t.attr]
            if ty == "B":
              sv = as_bool(val)
            elif ty == "Z":
              sv = as_int(val)
            elif ty == "M":
              sv = "None" if (val.ty == "Z" and val.s == "(-1)") else val.s
            else:
              if val.ty != "S" or val.s not in NAME_CTOR:
                raise Fail("name value")
              sv = NAME_CTOR[val.s]
            self.attrs["__self__"] = Val("Q", f"({setter} {self.attrs['__self__'].s} {sv})")
            return
          self.attrs[t.attr] = self.ev(v)
          return
        self.assign_attr(t.value, t.attr, self.ev(v))
        return
      raise Fail("assignment target")
    if isinstance(st, ast.If):
      # the kernel-shape guard only logs
      if "kernel_shape" in ast.unparse(st.test) and all(isinstance(s, ast.Expr) for s in st.body) and not st.orelse:
        return
      # a conditional that only sets the energy bookkeeping (gate_factor / gate_bits, with helper locals) is dropped
      def energy_only(stmts):
        gate = False
        for s_ in stmts:
          if not (isinstance(s_, ast.Assign) and len(s_.targets) == 1):
            return None
          t_ = s_.targets[0]
          if isinstance(t_, ast.Attribute) and isinstance(t_.value, ast.Name) and t_.value.id == "self" and t_.attr in ("gate_factor", "gate_bits"):
            gate = True
          elif not isinstance(t_, ast.Name):
            return None
        return gate
      if energy_only(st.body) and (not st.orelse or energy_only(st.orelse)):
        return
      if all(isinstance(s_, ast.Assert) for s_ in st.body) and not st.orelse:
        return
      c = as_bool(self.ev(st.test))
      a, b = self.clone(), self.clone()
      a.run(st.body)
      b.run(st.orelse)
      if getattr(a, "rejected", False) and not getattr(b, "rejected", False):
        self.env, self.attrs, self.ret = b.env, b.attrs, b.ret    # `if c: raise ...`: only the other path defines values
        return
      if getattr(b, "rejected", False) and not getattr(a, "rejected", False):
        self.env, self.attrs, self.ret = a.env, a.attrs, a.ret
        return
      for store, sa, sb in ((self.env, a.env, b.env), (self.attrs, a.attrs, b.attrs)):
        for k in set(sa) | set(sb):
          va, vb = sa.get(k), sb.get(k)
          if va is None or vb is None:
            continue                                   # defined in one branch only: dead after the merge unless read (then unknown name)
          if va.ty == "Dead" or vb.ty == "Dead":
            store[k] = Val("Dead", k)                  # a loop variable that is dead on one path is dead after the merge
          elif va.ty == vb.ty and va.s == vb.s and va.items is None:
            store[k] = va
          elif va.ty == vb.ty and va.items is None:
            store[k] = Val(va.ty, f"(if {c} then {va.s} else {vb.s})")
          elif va.ty == "T" and vb.ty == "T":
            store[k] = Val("T", None, [Val(x.ty, f"(if {c} then {x.s} else {y.s})") for x, y in zip(va.items, vb.items)])
          else:
            raise Fail(f"branch types differ for {k}")
      return
    raise Fail(f"statement {type(st).__name__}")


def find_class(tree, name):
  for n in tree.body:
    if isinstance(n, ast.ClassDef) and n.name == name:
      return n
  raise Fail(f"class {name} not found")


def find_func(node, name):
  for n in node.body:
    if isinstance(n, ast.FunctionDef) and n.name == name:
      return n
  raise Fail(f"function {name} not found")


def table(cls_node, attr, leaf):
  init = find_func(cls_node, "__init__")
  for st in init.body:
    if isinstance(st, ast.Assign) and ast.unparse(st.targets[0]) == f"self.{attr}":
      rows = []
      for r in st.value.elts:
        rows.append([leaf(e) for e in r.elts])
      return rows
  raise Fail(f"{attr} not found")


def mult_leaf(e):
  impl = MULT_IMPL.get(e.elts[0].attr)
  ctor = ast.unparse(e.elts[1].func).split(".")[-1]
  kws = {k.arg: ast.unparse(k.value) for k in e.elts[1].keywords}
  tm = {"QuantizedBits": "OBits", "PowerOfTwo": "OPo2", "Ternary": "OTern", "FloatingPoint": "OFloat"}.get(ctor)
  if ctor == "Binary":
    tm = "OB01" if kws.get("use_01") == "True" else "OBin"
  if impl is None or tm is None:
    raise Fail(f"multiplier table entry {ast.unparse(e)}")
  return f"({impl}, {tm})"


def add_leaf(e):
  a = ADD_IMPL.get(e.attr)
  if a is None:
    raise Fail(f"adder table entry {ast.unparse(e)}")
  return a


def emit(outdir):
  lines = ["(* GENERATED by tools/translate/qtoolsops.py from /repo/qkeras/qtools/quantized_operators -- do not edit *)",
           "From Coq Require Import ZArith List Bool.", "From QV Require Import Base.ZQ Base.FL QTools.Types QTools.Ops.",
           "Open Scope Z_scope. Import ListNotations.", ""]
  ok, why = True, ""
  try:
    mf = ast.parse(open(os.path.join(QO, "multiplier_factory.py")).read())
    af = ast.parse(open(os.path.join(QO, "adder_factory.py")).read())
    mi = ast.parse(open(os.path.join(QO, "multiplier_impl.py")).read())
    ai = ast.parse(open(os.path.join(QO, "accumulator_impl.py")).read())
    di = ast.parse(open(os.path.join(QO, "adder_impl.py")).read())
    mt = table(find_class(mf, "MultiplierFactory"), "multiplier_impl_table", mult_leaf)
    at = table(find_class(af, "IAdder"), "adder_impl_table", add_leaf)
    lines.append("Definition gen_mul_table : list (list (impl * otmpl)) :=\n  [" + ";\n   ".join("[" + "; ".join(r) + "]" for r in mt) + "].")
    lines.append("Definition gen_add_table : list (list addimpl) :=\n  [" + ";\n   ".join("[" + "; ".join(r) + "]" for r in at) + "].")
    # make_multiplier / make_quantizer index the tables with [mode_w][mode_x] / [mode1][mode2]
    mk = ast.unparse(find_func(find_class(mf, "MultiplierFactory"), "make_multiplier"))
    if "self.multiplier_impl_table[weight_quantizer.mode][input_quantizer.mode]" not in "".join(mk.split()):
      raise Fail("make_multiplier does not index the table with [weight mode][input mode]")
    mq = ast.unparse(find_func(find_class(af, "IAdder"), "make_quantizer"))
    if "self.adder_impl_table[mode1][mode2]" not in "".join(mq.split()) or "mode1=local_quantizer_1.mode" not in "".join(mq.split()):
      raise Fail("IAdder.make_quantizer does not index the table with [mode1][mode2]")

    # ---- multipliers
    def super_mult(ex, call):
      ex.attrs["weights"] = ex.env["weight_quantizer"]
      ex.attrs["input"] = ex.env["input_quantizer"]
      ex.attrs["output"] = ex.env["output_quantizer"]
    for cname in MULT_IMPL:
      init = find_func(find_class(mi, cname), "__init__")
      ex = Exec({"weight_quantizer": Val("Q", "w"), "input_quantizer": Val("Q", "x"), "output_quantizer": Val("Q", "out")}, {"__super__": super_mult})
      ex.run(init.body)
      lines.append(f"Definition gen_{cname} (w x out : qt) : qt :=\n  {ex.attrs['output'].s}.")

    # ---- accumulator helpers
    def run_function(fnode, args, funcs):
      ex = Exec({a.arg: v for a, v in zip(fnode.args.args, args)}, funcs)
      ex.run(fnode.body)
      if ex.ret is None:
        raise Fail(f"{fnode.name} does not return")
      return ex.ret
    p2q = find_func(ai, "po2_to_qbits")
    funcs = {"po2_to_qbits": lambda args: run_function(p2q, args, {})}
    r = run_function(p2q, [Val("Q", "t")], {})
    lines.append(f"Definition gen_po2_to_qbits (t : qt) : Z * Z :=\n  ({r.items[0].s}, {r.items[1].s}).")
    conv = find_func(di, "po2_qbits_converter")
    funcs["po2_qbits_converter"] = lambda args: run_function(conv, args, funcs)
    r = run_function(conv, [Val("Q", "t")], funcs)
    lines.append(f"Definition gen_po2_qbits_converter (t : qt) : qt :=\n  {r.s}.")

    # ---- adders
    def adder_output(cname, args):
      init = find_func(find_class(di, cname), "__init__")
      ex = Exec({"quantizer_1": args[0], "quantizer_2": args[1]}, funcs)
      ex.run(init.body)
      return ex.attrs["output"]
    funcs["FixedPointAdder"] = lambda args: adder_output("FixedPointAdder", args)
    for cname in ADD_IMPL:
      o = adder_output(cname, [Val("Q", "q1"), Val("Q", "q2")])
      lines.append(f"Definition gen_{cname} (q1 q2 : qt) : qt :=\n  {o.s}.")

    # ---- accumulators
    def acc(cname):
      cls = find_class(ai, cname)
      init = find_func(cls, "__init__")
      envs = {"multiplier": Val("Q", "m")}
      if any(a.arg == "kernel_shape" for a in init.args.args):
        envs.update({"kernel_shape": Val("Shape", None), "use_bias": Val("B", "use_bias")})
      ex = Exec(envs, dict(funcs))

      def sup(ex_, call):
        if cls.bases and ast.unparse(cls.bases[0]) == "FixedPointAccumulator":
          parent = find_func(find_class(ai, "FixedPointAccumulator"), "__init__")
          ex_.funcs["__super__"] = None
          ex_.run(parent.body)
          ex_.funcs["__super__"] = sup
      ex.funcs["__super__"] = sup
      ex.run(init.body)
      return ex.attrs["output"].s
    lines.append(f"Definition gen_FixedPointAccumulator (kernel_ops : Z) (use_bias : bool) (m : qt) : qt :=\n  {acc('FixedPointAccumulator')}.")
    lines.append(f"Definition gen_Po2Accumulator (kernel_ops : Z) (use_bias : bool) (m : qt) : qt :=\n  {acc('Po2Accumulator')}.")
    lines.append(f"Definition gen_FloatingPointAccumulator (m : qt) : qt :=\n  {acc('FloatingPointAccumulator')}.")
    # ---- AccumulatorFactory.make_accumulator: which accumulator class for which multiplier output
    acf = ast.parse(open(os.path.join(QO, "accumulator_factory.py")).read())
    mk_acc = find_func(find_class(acf, "AccumulatorFactory"), "make_accumulator")
    disp = {"deepcopy": lambda args: args[0],
            "FloatingPointAccumulator": lambda args: Val("Q", f"(gen_FloatingPointAccumulator {args[0].s})"),
            "Po2Accumulator": lambda args: Val("Q", f"(gen_Po2Accumulator kernel_ops {as_bool(args[2])} {args[1].s})"),
            "FixedPointAccumulator": lambda args: Val("Q", f"(gen_FixedPointAccumulator kernel_ops {as_bool(args[2])} {args[1].s})")}
    ex = Exec({"kernel_shape": Val("Shape", None), "multiplier": Val("Q", "m"), "use_bias": Val("B", "use_bias")}, disp)
    ex.run(mk_acc.body)
    if ex.ret is None or ex.ret.ty != "Q":
      raise Fail("make_accumulator does not return an accumulator")
    lines.append(f"Definition gen_make_accumulator (kernel_ops : Z) (use_bias : bool) (m : qt) : qt :=\n  {ex.ret.s}.")

    # ---- conversion of qkeras quantizers into qtools types (quantizer_impl.py)
    qi = ast.parse(open(os.path.join(QO, "quantizer_impl.py")).read())
    base_init = find_func(find_class(qi, "IQuantizer"), "__init__")

    def conv(cname, params):
      cls = find_class(qi, cname)
      ex = Exec({"quantizer": Val("K", None)}, {})
      ex.SELF_RECORD = True
      ex.attrs["__self__"] = Val("Q", "(QT 0 0 0 false false false None NQBits None)")

      def sup(ex_, call):
        ex_.funcs["__super__"] = None
        ex_.run(base_init.body)
        ex_.funcs["__super__"] = sup
      ex.funcs["__super__"] = sup
      ex.run(find_func(cls, "__init__").body)
      if "set_name" not in ex.attrs["__self__"].s:
        raise Fail(f"{cname}.__init__ sets no name")
      ex.run(find_func(cls, "convert_qkeras_quantizer").body)
      return f"Definition gen_conv_{cname} {params} : qt :=\n  {ex.attrs['__self__'].s}."
    # ---- get_exp and the method that exposes it
    ge = find_func(qi, "get_exp")
    r = run_function(ge, [Val("Q", "t")], {})
    if r.ty != "T" or len(r.items) != 2:
      raise Fail("get_exp does not return a pair")
    lines.append(f"Definition gen_get_exp (t : qt) : Z * Z :=\n  ({as_int(r.items[0])}, {as_int(r.items[1])}).")
    for cname in ("PowerOfTwo", "ReluPowerOfTwo"):
      cls = find_class(qi, cname)
      try:
        m = find_func(cls, "get_min_max_exp")
      except Fail:
        if not (cls.bases and ast.unparse(cls.bases[0]) == "PowerOfTwo"):
          raise
        continue
      body = [x for x in m.body if not (isinstance(x, ast.Expr) and isinstance(x.value, ast.Constant))]
      if not (len(body) == 1 and isinstance(body[0], ast.Return) and "".join(ast.unparse(body[0].value).split()) == "get_exp(self)"):
        raise Fail(f"{cname}.get_min_max_exp is not get_exp(self)")
    lines.append(conv("QuantizedBits", "(bits integer : Z) (keep_negative : bool)"))
    lines.append(conv("QuantizedRelu", "(bits integer : Z) (slope_nonzero : bool)"))
  except Fail as e:
    ok, why = False, str(e)
  except (OSError, SyntaxError, KeyError, AttributeError, IndexError) as e:
    ok, why = False, f"{type(e).__name__}: {e}"
  if not ok:
    lines = lines[:5] + ["(* translation failed: " + why.replace("*)", "* )") + " *)"]
  lines.append(f"Definition translation_ok : bool := {'true' if ok else 'false'}.")
  path = os.path.join(outdir, "QToolsOps.v")
  with open(path, "w") as f:
    f.write("\n".join(lines) + "\n")
  return path


if __name__ == "__main__":
  p = emit(sys.argv[1] if len(sys.argv) > 1 else ".")
  print(p)

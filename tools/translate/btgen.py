#!/usr/bin/env python3
"""Fail-closed translator: binary.__call__, ternary.__call__ and _get_least_squares_scale (qkeras/quantizers.py)
-> coq/gen/BinTernGen.v, regenerated on every run.

The two __call__ bodies are executed symbolically on the deterministic path (use_stochastic_rounding = False; the stochastic
path is C08's) for every kind of alpha (None / a number / "auto" / "auto_po2"), for use_01 in {False, True} and threshold in
{None, given}.  Tensor arithmetic becomes a term over the rationals of Base/FL.v; everything the interpreter does not know makes
the translation fail (bt_translation_ok = false), which breaks the obligations of Link/BinTernLink.v.  Emitted:

  gen_bcode (use01 : bool) (x : rat) : rat              the arithmetic that produces the binary code
  gen_tcode (thr x : rat) : rat                         the ternary code for a constant scale
  gen_tstep (scale x : rat) : rat                       the ternary code inside one refinement step of the data-dependent scale
  gen_tinit_scale (m : rat) : rat                       the scale the refinement starts from, m = max |x| of the group
  gen_binary_surrogate / gen_binary_scale  : bkind -> xsrc / scsrc      what the straight-through sum is built around,
  gen_ternary_surrogate / gen_ternary_scale                              and which scale multiplies the code
  gen_ternary_thr (has_threshold : bool) : thrsrc
  gen_ls_form (a : bkind) (has_bounds : bool) : lsform   the formula of _get_least_squares_scale
"""
import ast
import os
import re
import sys
from fractions import Fraction

REPO = os.environ.get("QKERAS_REPO", "/repo")
KINDS = ["BKNone", "BKNum", "BKAuto", "BKPo2"]
AXIS_RULE = ("if len_axis == 1:\n    axis = None\nelif K.image_data_format() == 'channels_last':\n    axis = list(range(len_axis - 1))\n"
             "else:\n    axis = list(range(1, len_axis))")
LS_KW = ("elements_per_scale", "scale_axis", "min_po2_exponent", "max_po2_exponent")


class Fail(Exception):
  pass


def const(v):
  f = Fraction(v).limit_denominator(10 ** 9) if isinstance(v, float) else Fraction(v)
  if float(f) != float(v):
    raise Fail(f"constant {v!r} is not a small rational")
  return ("k", f"({f.numerator}, {f.denominator})")


RANK = {"k": 0, "g": 1, "t": 2}


def arith(op, a, b, line):
  if a[0] not in RANK or b[0] not in RANK:
    raise Fail(f"line {line}: arithmetic on {a[0]} and {b[0]}")
  kind = a[0] if RANK[a[0]] >= RANK[b[0]] else b[0]
  return (kind, f"({op} {a[1]} {b[1]})")


class Interp:
  """kind: alpha kind; flags: dict of the boolean options; stochastic rounding is off"""

  def __init__(self, kind, flags):
    self.kind, self.flags = kind, flags
    self.env = {"x": ("xs", "XRaw")}
    self.ret = None
    self.self_scale = None
    self.loop = None
    self.axis_rule_seen = False

  # ---- conditions ----
  def cond(self, n):
    src = ast.unparse(n)
    if isinstance(n, ast.BoolOp):
      vals = [self.cond(v) for v in n.values] if False else None
      if isinstance(n.op, ast.Or):
        for v in n.values:
          if self.cond(v):
            return True
        return False
      for v in n.values:
        if not self.cond(v):
          return False
      return True
    if isinstance(n, ast.UnaryOp) and isinstance(n.op, ast.Not):
      return not self.cond(n.operand)
    table = {
        "isinstance(self.alpha, six.string_types)": self.kind in ("BKAuto", "BKPo2"),
        "isinstance(alpha, six.string_types)": self.kind in ("BKAuto", "BKPo2"),
        "self.alpha is None": self.kind == "BKNone",
        "alpha is None": self.kind == "BKNone",
        "isinstance(self.alpha, np.ndarray)": False,
        "isinstance(alpha, np.ndarray)": False,
        "'po2' in self.alpha": self.kind == "BKPo2",
        "'auto' in alpha": self.kind in ("BKAuto", "BKPo2"),
        "alpha == 'auto_po2'": self.kind == "BKPo2",
        "self.use_stochastic_rounding": False,
        "self.use_01": self.flags.get("use01", False),
        "self.threshold is None": not self.flags.get("has_thr", False),
        "per_channel_scale": True,
        "len_axis > 1": not self.flags.get("rank1", False),
        "min_po2_exponent is not None": self.flags.get("has_bounds", False),
        "max_po2_exponent is not None": self.flags.get("has_bounds", False),
    }
    if src in table:
      return table[src]
    raise Fail(f"line {n.lineno}: condition `{src[:60]}`")

  # ---- values ----
  def val(self, n):
    src = ast.unparse(n)
    line = getattr(n, "lineno", 0)
    if isinstance(n, ast.Constant) and isinstance(n.value, (int, float)) and not isinstance(n.value, bool):
      return const(n.value)
    if isinstance(n, ast.Name):
      if n.id not in self.env:
        raise Fail(f"line {line}: unknown name {n.id}")
      v = self.env[n.id]
      return ("t", "x") if v == ("xs", "XRaw") else v
    if src == "self.default_alpha":
      return ("k", "dalpha", "SDefaultAlpha")
    if src in ("float(self.alpha)", "float(alpha)"):
      return ("k", "alpha", "SAlpha")
    if src == "self.default_threshold":
      return ("k", "thr", "TDefault")
    if src == "self.threshold":
      return ("k", "thr", "TGiven")
    if src == "self.scale" and self.self_scale is not None:
      return self.self_scale
    if src == "K.epsilon()":
      return ("eps",)
    if isinstance(n, ast.UnaryOp) and isinstance(n.op, ast.USub):
      a = self.val(n.operand)
      if a[0] not in RANK:
        raise Fail(f"line {line}: negation of {a[0]}")
      return (a[0], f"(rneg {a[1]})")
    if isinstance(n, ast.BinOp) and isinstance(n.op, (ast.Add, ast.Sub, ast.Mult, ast.Div)):
      op = {ast.Add: "radd", ast.Sub: "rsub", ast.Mult: "rmul", ast.Div: "rdiv"}[type(n.op)]
      a, b = self.val(n.left), self.val(n.right)
      # the quotient of the least-squares helper: qx / (qq + eps)
      if op == "rdiv" and a[0] == "mean" and b == ("meaneps",):
        return ("lsq",)
      if op == "radd" and a[0] == "mean" and a[1] == "qq" and b == ("eps",):
        return ("meaneps",)
      if op == "rmul" and {a, b} <= {("t", "x"), ("q",)} and self.flags.get("in_ls"):
        return ("mean", "qx" if ("t", "x") in (a, b) else "qq")       # rank 1: no averaging
      return arith(op, a, b, line)
    if isinstance(n, ast.Call):
      f = ast.unparse(n.func)
      if f == "tf.sign" and len(n.args) == 1:
        a = self.val(n.args[0])
        return (a[0], f"(rsgn {a[1]})")
      if f == "tf.abs" and len(n.args) == 1:
        a = self.val(n.args[0])
        return (a[0], f"(rabs {a[1]})")
      if f == "K.cast" and len(n.args) == 2 and ast.unparse(n.args[1]) == "K.floatx()" and isinstance(n.args[0], ast.Compare) and len(n.args[0].ops) == 1:
        c = n.args[0]
        a, b = self.val(c.left), self.val(c.comparators[0])
        if a[0] not in RANK or b[0] not in RANK:
          raise Fail(f"line {line}: comparison of {a[0]} and {b[0]}")
        o = c.ops[0]
        t = {ast.GtE: f"(rle {b[1]} {a[1]})", ast.Gt: f"(rlt {b[1]} {a[1]})", ast.LtE: f"(rle {a[1]} {b[1]})", ast.Lt: f"(rlt {a[1]} {b[1]})"}.get(type(o))
        if t is None:
          raise Fail(f"line {line}: comparison `{src[:50]}`")
        return ("t", f"(rb01 {t})")
      if f == "K.tanh" and src == "K.tanh(x)" and self.env["x"] == ("xs", "XRaw"):
        return ("xs", "XTanh")
      if src == "K.max(tf.abs(x), axis=axis, keepdims=True)" and self.env["x"] == ("xs", "XRaw") and self.axis_rule_seen:
        return ("g", "m")
      m = re.fullmatch(r"K\.pow\(2\.0, tf\.math\.round\(K\.log\((\w+) \+ K\.epsilon\(\)\) / np\.log\(2\.0\)\)\)", src)
      if m:
        inner = self.env.get(m.group(1))
        if inner == ("lsq",):
          return ("lspo2",)
        if inner is not None and inner[0] == "g":
          return ("g", f"(po2r {inner[1]})")
        raise Fail(f"line {line}: power-of-two rounding of {inner}")
      if f == "_round_through":
        kw = {k.arg: ast.unparse(k.value) for k in n.keywords}
        if len(n.args) == 1 and kw.get("use_stochastic_rounding") == "self.use_stochastic_rounding" and set(kw) <= {"use_stochastic_rounding", "precision"}:
          a = self.val(n.args[0])
          return (a[0], f"(rofZ (rround {a[1]}))")
        raise Fail(f"line {line}: `{src[:70]}`")
      if f == "_get_least_squares_scale":
        if len(n.args) != 3 or ast.unparse(n.args[0]) != "self.alpha" or not isinstance(n.args[1], ast.Name) or n.args[1].id != "x":
          raise Fail(f"line {line}: least-squares helper not called with (self.alpha, x, code)")
        for k in n.keywords:
          if k.arg not in LS_KW or ast.unparse(k.value) != "self." + k.arg:
            raise Fail(f"line {line}: least-squares option `{ast.unparse(k)}`")
        q = self.val(n.args[2])
        return ("ls", self.env["x"][1], q, tuple(sorted(k.arg for k in n.keywords)))
      if src == "_get_scale_mean(scale_axis, x, q, elements_per_scale)":
        return ("meanpair",)
      if src == "_clip_po2_scale(scale, min_po2_exponent, max_po2_exponent)" and self.env.get("scale") == ("lspo2",):
        return ("lspo2c",)
    raise Fail(f"line {line}: expression `{src[:70]}`")

  # ---- statements ----
  def run(self, stmts):
    for st in stmts:
      if self.ret is not None:
        raise Fail(f"line {st.lineno}: statement after return")
      if isinstance(st, ast.Expr) and isinstance(st.value, ast.Constant):
        continue
      if isinstance(st, ast.Assert):
        continue
      if isinstance(st, ast.Try):
        # try: len_axis = len(x.shape.as_list()) / x_shape = x.shape.as_list()  except AttributeError: the same on list(x.shape)
        names = {t.id for s in st.body for t in getattr(s, "targets", []) if isinstance(t, ast.Name)}
        if not names <= {"len_axis", "x_shape"} or "x.shape" not in ast.unparse(st):
          raise Fail(f"line {st.lineno}: try block")
        for nm in names:
          self.env[nm] = ("shape",)
        continue
      if isinstance(st, ast.If):
        if ast.unparse(st) == AXIS_RULE:
          self.axis_rule_seen = True
          self.env["axis"] = ("axis",)
          continue
        self.run(st.body if self.cond(st.test) else st.orelse)
        continue
      if isinstance(st, ast.Assign) and len(st.targets) == 1:
        tg = st.targets[0]
        if isinstance(tg, ast.Name):
          if ast.unparse(st.value) == "len(x_shape)":
            self.env[tg.id] = ("shape",)
            continue
          self.env[tg.id] = self.val(st.value)
          continue
        if ast.unparse(tg) == "self.scale":
          self.self_scale = self.val(st.value)
          continue
        if isinstance(tg, ast.Tuple) and ast.unparse(tg) == "(qx, qq)" and self.val(st.value) == ("meanpair",):
          self.env["qx"], self.env["qq"] = ("mean", "qx"), ("mean", "qq")
          continue
      if isinstance(st, ast.AugAssign) and isinstance(st.target, ast.Name) and isinstance(st.op, ast.Add):
        self.env[st.target.id] = arith("radd", self.val(ast.Name(id=st.target.id, ctx=ast.Load(), lineno=st.lineno)), self.val(st.value), st.lineno)
        continue
      if isinstance(st, ast.For) and ast.unparse(st.iter) == "range(self.number_of_unrolls)" and not st.orelse:
        if self.loop is not None:
          raise Fail(f"line {st.lineno}: a second refinement loop")
        init = self.env.get("scale")
        if init is None or init[0] != "g":
          raise Fail(f"line {st.lineno}: the refinement loop does not start from a group scale")
        self.env["scale"] = ("g", "scale")
        self.run(st.body)
        new = self.env.get("scale")
        q = self.env.get("q")
        if not (new is not None and new[0] == "ls" and new[1] == "XRaw" and q is not None and new[2] == q and new[3] == ()):
          raise Fail(f"line {st.lineno}: the loop does not update the scale by the least-squares helper on (x, q)")
        self.loop = (init[1], q[1])
        continue
      if isinstance(st, ast.Return):
        # x + tf.stop_gradient(-x + <scale> * <code>)
        r = st.value
        ok = (isinstance(r, ast.BinOp) and isinstance(r.op, ast.Add) and ast.unparse(r.left) == "x" and isinstance(r.right, ast.Call)
              and ast.unparse(r.right.func) == "tf.stop_gradient" and len(r.right.args) == 1)
        inner = r.right.args[0] if ok else None
        ok = ok and isinstance(inner, ast.BinOp) and isinstance(inner.op, ast.Add) and ast.unparse(inner.left) == "-x" \
            and isinstance(inner.right, ast.BinOp) and isinstance(inner.right.op, ast.Mult)
        if not ok:
          raise Fail(f"line {st.lineno}: return is not x + stop_gradient(-x + scale * code)")
        sc, code = self.val(inner.right.left), self.val(inner.right.right)
        self.ret = (self.env["x"][1], sc, code)
        if self.self_scale is None or self.self_scale != sc:
          raise Fail(f"line {st.lineno}: the scale that multiplies the code is not the one recorded in self.scale")
        continue
      raise Fail(f"line {st.lineno}: statement `{ast.unparse(st)[:70]}`")


def find(tree, cname, fname):
  if cname is None:
    fn = next((n for n in tree.body if isinstance(n, ast.FunctionDef) and n.name == fname), None)
  else:
    cls = next((n for n in tree.body if isinstance(n, ast.ClassDef) and n.name == cname), None)
    if cls is None:
      raise Fail(f"class {cname} not found")
    fn = next((f for f in cls.body if isinstance(f, ast.FunctionDef) and f.name == fname), None)
  if fn is None:
    raise Fail(f"{cname or ''}.{fname} not found")
  return fn


def scsrc(v):
  if v[0] == "k" and len(v) == 3 and v[2] in ("SAlpha", "SDefaultAlpha"):
    return v[2]
  if v == ("k", "(1, 1)"):
    return "SOne"
  if v[0] == "ls":
    return f"(SLeastSquares {v[1]})"
  raise Fail(f"scale source {v}")


def translate():
  tree = ast.parse(open(os.path.join(REPO, "qkeras", "quantizers.py")).read())
  out = {}
  # ---- binary ----
  fn = find(tree, "binary", "__call__")
  codes, sur, sc = {}, {}, {}
  for kind in KINDS:
    for u in (False, True):
      it = Interp(kind, {"use01": u})
      it.run(fn.body)
      if it.ret is None:
        raise Fail("binary.__call__ does not return")
      xs, s, code = it.ret
      if code[0] != "t":
        raise Fail(f"binary code is {code[0]}")
      if s[0] != "ls" or s[2] != code or set(s[3]) != set(LS_KW):
        raise Fail("binary: the scale is not the least-squares helper on (alpha, x, code) with its four options forwarded")
      codes.setdefault(u, set()).add(code[1])
      sur.setdefault(kind, set()).add(xs)
      sc.setdefault(kind, set()).add(scsrc(s))
  for d, what in ((codes, "code"), (sur, "surrogate"), (sc, "scale")):
    for k, v in d.items():
      if len(v) != 1:
        raise Fail(f"binary: the {what} depends on an option it should not depend on ({k})")
  out["bcode"] = {u: next(iter(codes[u])) for u in (False, True)}
  out["bsur"] = {k: next(iter(sur[k])) for k in KINDS}
  out["bsc"] = {k: next(iter(sc[k])) for k in KINDS}
  # ---- ternary ----
  fn = find(tree, "ternary", "__call__")
  tcodes, tsur, tsc, tthr, steps, inits = set(), {}, {}, {}, set(), {}
  for kind in KINDS:
    for ht in ((False, True) if kind in ("BKNone", "BKNum") else (False,)):
      it = Interp(kind, {"has_thr": ht})
      it.run(fn.body)
      if it.ret is None:
        raise Fail("ternary.__call__ does not return")
      xs, s, code = it.ret
      if code[0] != "t":
        raise Fail(f"ternary code is {code[0]}")
      tsur.setdefault(kind, set()).add(xs)
      tsc.setdefault(kind, set()).add(scsrc(s))
      if kind in ("BKNone", "BKNum"):
        if it.loop is not None:
          raise Fail("ternary: refinement loop on a constant scale")
        tcodes.add(code[1])
        th = it.env.get("thres")
        if th is None or len(th) != 3:
          raise Fail("ternary: threshold source")
        tthr.setdefault(ht, set()).add(th[2])
      else:
        if it.loop is None:
          raise Fail("ternary: no refinement loop for a data-dependent scale")
        if s[0] != "ls" or s[2] != code:
          raise Fail("ternary: returned scale / code are not those of the last refinement step")
        steps.add(it.loop[1])
        inits[kind] = it.loop[0]
  for d, what in ((tsur, "surrogate"), (tsc, "scale"), (tthr, "threshold")):
    for k, v in d.items():
      if len(v) != 1:
        raise Fail(f"ternary: the {what} depends on an option it should not depend on ({k})")
  if len(tcodes) != 1 or len(steps) != 1:
    raise Fail("ternary: the code expression depends on the kind of alpha")
  if inits["BKPo2"] != f"(po2r {inits['BKAuto']})":
    raise Fail("ternary: auto_po2 does not start from the power-of-two rounding of the auto scale")
  out["tcode"], out["tstep"], out["tinit"] = next(iter(tcodes)), next(iter(steps)), inits["BKAuto"]
  out["tsur"] = {k: next(iter(tsur[k])) for k in KINDS}
  out["tsc"] = {k: next(iter(tsc[k])) for k in KINDS}
  out["tthr"] = {h: next(iter(tthr[h])) for h in (False, True)}
  # ---- _get_least_squares_scale ----
  fn = find(tree, None, "_get_least_squares_scale")
  forms = {}
  for kind in KINDS:
    for hb in (False, True):
      res = set()
      for rank1 in (False, True):
        it = Interp(kind, {"has_bounds": hb, "rank1": rank1, "in_ls": True})
        it.env = {"x": ("xs", "XRaw"), "q": ("q",)}
        body = list(fn.body)
        if not (isinstance(body[-1], ast.Return) and ast.unparse(body[-1].value) == "scale"):
          raise Fail("_get_least_squares_scale does not end with `return scale`")
        it.run(body[:-1])
        v = it.env.get("scale")
        form = {("lsq",): "LQuotEps", ("lspo2",): "LPo2OfQuotEps", ("lspo2c",): "LPo2OfQuotEpsClipped", ("k", "(1, 1)"): "LOne"}.get(v)
        if form is None and v is not None and v[0] == "k" and len(v) == 3 and v[2] == "SAlpha":
          form = "LAlpha"
        if form is None:
          raise Fail(f"_get_least_squares_scale: scale is {v} for {kind}")
        res.add(form)
      if len(res) != 1:
        raise Fail("_get_least_squares_scale: the formula depends on the rank")
      forms[(kind, hb)] = next(iter(res))
  out["ls"] = forms
  return out


HEADER = ["(* GENERATED by tools/translate/btgen.py from qkeras/quantizers.py -- do not edit *)",
          "From Coq Require Import ZArith Bool.", "From QV Require Import Base.ZQ Base.FL Quant.BinTern Quant.BinTernSrc.", "Open Scope Z_scope.", ""]


def emit(outdir):
  lines = list(HEADER)
  ok, why = True, ""
  try:
    t = translate()
    tab = lambda name, ty, d: f"Definition {name} (a : bkind) : {ty} :=\n  match a with " + " | ".join(f"{k} => {d[k]}" for k in KINDS) + " end."
    lines.append(f"Definition gen_bcode (use01 : bool) (x : rat) : rat :=\n  if use01 then {t['bcode'][True]}\n  else {t['bcode'][False]}.")
    lines.append(f"Definition gen_tcode (thr x : rat) : rat :=\n  {t['tcode']}.")
    lines.append(f"Definition gen_tstep (scale x : rat) : rat :=\n  {t['tstep']}.")
    lines.append(f"Definition gen_tinit_scale (m : rat) : rat :=\n  {t['tinit']}.")
    lines.append(tab("gen_binary_surrogate", "xsrc", t["bsur"]))
    lines.append(tab("gen_binary_scale", "scsrc", t["bsc"]))
    lines.append(tab("gen_ternary_surrogate", "xsrc", t["tsur"]))
    lines.append(tab("gen_ternary_scale", "scsrc", t["tsc"]))
    lines.append(f"Definition gen_ternary_thr (has_threshold : bool) : thrsrc := if has_threshold then {t['tthr'][True]} else {t['tthr'][False]}.")
    lines.append("Definition gen_ls_form (a : bkind) (has_bounds : bool) : lsform :=\n  match a, has_bounds with\n" +
                 "\n".join(f"  | {k}, {'true' if hb else 'false'} => {t['ls'][(k, hb)]}" for k in KINDS for hb in (True, False)) + "\n  end.")
  except Fail as e:
    ok, why = False, str(e)
  except (OSError, SyntaxError, KeyError, IndexError, AttributeError) as e:
    ok, why = False, f"{type(e).__name__}: {e}"
  if not ok:
    lines = list(HEADER) + ["(* translation failed: " + why.replace("*)", "* )") + " *)",
                            "Definition gen_bcode (use01 : bool) (x : rat) : rat := (0, 1).",
                            "Definition gen_tcode (thr x : rat) : rat := (2, 1).",
                            "Definition gen_tstep (scale x : rat) : rat := (2, 1).",
                            "Definition gen_tinit_scale (m : rat) : rat := (0, 1).",
                            "Definition gen_binary_surrogate (a : bkind) : xsrc := XRaw.",
                            "Definition gen_binary_scale (a : bkind) : scsrc := SOne.",
                            "Definition gen_ternary_surrogate (a : bkind) : xsrc := XRaw.",
                            "Definition gen_ternary_scale (a : bkind) : scsrc := SOne.",
                            "Definition gen_ternary_thr (has_threshold : bool) : thrsrc := TDefault.",
                            "Definition gen_ls_form (a : bkind) (has_bounds : bool) : lsform := LOne."]
  lines.append(f"Definition bt_translation_ok : bool := {'true' if ok else 'false'}.")
  path = os.path.join(outdir, "BinTernGen.v")
  with open(path, "w") as f:
    f.write("\n".join(lines) + "\n")
  return path


if __name__ == "__main__":
  print(open(emit(sys.argv[1] if len(sys.argv) > 1 else ".")).read())

#!/usr/bin/env python3
"""Fail-closed translator: memory_read_energy / memory_write_energy (qkeras/qtools/qenergy/qenergy.py)
-> coq/gen/MemGen.v, regenerated on every run.

  gen_mem_read  (at_io rw : bool) (mode : string) (dram_rd sram_rd sram_wr : Q) : Q
  gen_mem_write (at_io rw : bool) (mode : string) (dram_wr sram_rd sram_wr : Q) : Q

at_io    is_input_layer (read) / is_output_layer (write)
rw       rd_wr_on_io
mode     the placement option ("dram" / "sram" / "fixed")
dram_rd  OP["dram"]["rd"](total_bits)            dram_wr  OP["dram"]["wr"](total_bits)
sram_rd  np.ceil(total_bits * OP["sram"]["mul_factor"]) * OP["sram"]["rd"](total_bits_log2)      sram_wr likewise with "wr"

with total_bits = np.prod(tensor_shape) * quantizer_bits and total_bits_log2 = np.log2(max(total_bits, min_sram_size)); these two
definitions and the batch-dimension slice are checked textually.  The placement logic (the override at the model's
inputs / outputs, which costs each placement pays, what rd_wr_on_io adds) is executed symbolically; any other statement or
expression makes translation_ok false.  Link/MemLink.v proves both functions equal to mem_read / mem_write of QTools/Energy.v."""
import ast
import os
import sys

REPO = os.environ.get("QKERAS_REPO", "/repo")
SRC = "qkeras/qtools/qenergy/qenergy.py"


class Fail(Exception):
  pass


def cstr(s):
  return '"' + s.replace('"', '""') + '"'


COSTS = {
    "OP['dram']['rd'](total_bits)": "dram_rd",
    "OP['dram']['wr'](total_bits)": "dram_wr",
    "np.ceil(total_bits * OP['sram']['mul_factor']) * OP['sram']['rd'](total_bits_log2)": "sram_rd",
    "np.ceil(total_bits * OP['sram']['mul_factor']) * OP['sram']['wr'](total_bits_log2)": "sram_wr",
}
FIXED = {"total_bits": "np.prod(tensor_shape) * quantizer_bits", "total_bits_log2": "np.log2(max(total_bits, min_sram_size))"}


def tr_fun(fn, io_name, allowed):
  env = {"mode": ("s", "mode")}
  bools = {io_name: "at_io", "rd_wr_on_io": "rw"}

  def cond(n, e):
    if isinstance(n, ast.Name) and n.id in bools:
      return bools[n.id]
    if isinstance(n, ast.Compare) and len(n.ops) == 1 and isinstance(n.ops[0], ast.Eq) and isinstance(n.left, ast.Name) and n.left.id == "mode" \
       and isinstance(n.comparators[0], ast.Constant) and isinstance(n.comparators[0].value, str):
      return f"(String.eqb {e['mode'][1]} {cstr(n.comparators[0].value)})"
    raise Fail(f"{fn.name} line {n.lineno}: condition `{ast.unparse(n)[:50]}`")

  def val(n):
    if isinstance(n, ast.Constant) and isinstance(n.value, str):
      return ("s", cstr(n.value))
    if isinstance(n, ast.Constant) and n.value == 0:
      return ("q", "0")
    src = ast.unparse(n)
    if src in COSTS:
      if COSTS[src] not in allowed:
        raise Fail(f"{fn.name}: cost `{src}` is not one this function may charge")
      return ("q", COSTS[src])
    raise Fail(f"{fn.name} line {n.lineno}: expression `{src[:70]}`")

  def run(stmts, e):
    for st in stmts:
      if isinstance(st, ast.Expr) and isinstance(st.value, ast.Constant):
        continue
      if isinstance(st, ast.Return):
        if not (isinstance(st.value, ast.Name) and st.value.id == "energy_mem"):
          raise Fail(f"{fn.name}: return value")
        e["__ret__"] = e["energy_mem"]
        continue
      if isinstance(st, ast.Assign) and len(st.targets) == 1 and isinstance(st.targets[0], ast.Name):
        t = st.targets[0].id
        if t in FIXED:
          if ast.unparse(st.value) != FIXED[t]:
            raise Fail(f"{fn.name}: {t} = {ast.unparse(st.value)[:60]}")
          continue
        if t == "tensor_shape":
          if ast.unparse(st.value) != "tensor_shape[1:]":
            raise Fail(f"{fn.name}: tensor_shape = {ast.unparse(st.value)[:40]}")
          continue
        if t in ("mode", "energy_mem"):
          e[t] = val(st.value)
          continue
        raise Fail(f"{fn.name} line {st.lineno}: assignment to {t}")
      if isinstance(st, ast.AugAssign) and isinstance(st.op, ast.Add) and isinstance(st.target, ast.Name) and st.target.id == "energy_mem":
        v = val(st.value)
        e["energy_mem"] = ("q", f"({e['energy_mem'][1]} + {v[1]})")
        continue
      if isinstance(st, ast.If):
        if isinstance(st.test, ast.Name) and st.test.id == "is_tensor":
          # the batch dimension is taken off tensors (not off parameter shapes): no effect on the placement logic
          if [ast.unparse(s) for s in st.body] != ["tensor_shape = tensor_shape[1:]"] or st.orelse:
            raise Fail(f"{fn.name}: is_tensor branch")
          continue
        c = cond(st.test, e)
        e1, e2 = dict(e), dict(e)
        run(st.body, e1)
        run(st.orelse, e2)
        if "__ret__" in e1 or "__ret__" in e2:
          raise Fail(f"{fn.name}: return inside a branch")
        for k in set(e1) | set(e2):
          a, b = e1.get(k), e2.get(k)
          if a != b:
            if a is None or b is None or a[0] != b[0]:
              raise Fail(f"{fn.name}: {k} bound on one path only")
            e[k] = (a[0], f"(if {c} then {a[1]} else {b[1]})")
          else:
            e[k] = a
        continue
      raise Fail(f"{fn.name} line {st.lineno}: statement `{ast.unparse(st)[:60]}`")
  run(fn.body, env)
  if "__ret__" not in env:
    raise Fail(f"{fn.name}: no return")
  return env["__ret__"][1]


def translate(src):
  tree = ast.parse(src)
  fns = {n.name: n for n in tree.body if isinstance(n, ast.FunctionDef)}
  for n in ("memory_read_energy", "memory_write_energy"):
    if n not in fns:
      raise Fail(f"{n} not found")
  rd = tr_fun(fns["memory_read_energy"], "is_input_layer", ("dram_rd", "sram_rd", "sram_wr"))
  wr = tr_fun(fns["memory_write_energy"], "is_output_layer", ("dram_wr", "sram_rd", "sram_wr"))
  return rd, wr


def emit(gen_dir):
  path = os.path.join(gen_dir, "MemGen.v")
  try:
    rd, wr = translate(open(os.path.join(REPO, SRC)).read())
    ok, note = "true", ""
  except Fail as e:
    ok, note, rd, wr = "false", str(e), "0", "0"
  except Exception as e:  # pylint: disable=broad-except
    ok, note, rd, wr = "false", f"{type(e).__name__}: {e}", "0", "0"
  body = ("(* GENERATED by tools/translate/memgen.py from qkeras/qtools/qenergy/qenergy.py -- do not edit *)\n"
          "From Coq Require Import ZArith QArith String Bool.\nOpen Scope string_scope.\n"
          f"Definition translation_ok : bool := {ok}.\nDefinition translation_note : string := {cstr(note)}.\nOpen Scope Q_scope.\n"
          f"Definition gen_mem_read (at_io rw : bool) (mode : string) (dram_rd sram_rd sram_wr : Q) : Q :=\n  {rd}.\n"
          f"Definition gen_mem_write (at_io rw : bool) (mode : string) (dram_wr sram_rd sram_wr : Q) : Q :=\n  {wr}.\n")
  with open(path, "w") as f:
    f.write(body)
  return path


if __name__ == "__main__":
  print(open(emit(sys.argv[1] if len(sys.argv) > 1 else os.path.join(os.path.dirname(os.path.dirname(os.path.dirname(os.path.abspath(__file__)))), "coq", "gen"))).read())

#!/usr/bin/env python3
"""Fail-closed translator: the data-independent path of the legacy quantized_bits.__call__ (qkeras/quantizers.py; alpha None or a
number, use_stochastic_rounding = False) -> coq/gen/QBitsGen.v, regenerated on every run.

  gen_qb_xq (bits integer : Z) (kn sym : bool) (scale x : rat) : rat     the quantized value xq = scale * m_i * clip(round(x*m/m_i)) / m,
                                                                         or scale * the sign form when there is no unsigned bit
  gen_qb_scale (has_alpha : bool) (alpha : rat) : rat                    the scale: 1.0 for alpha=None, alpha otherwise

It reuses the expression interpreter of lingen.py (exact rationals of Base/FL.v).  Link/QBitsLink.v proves gen_qb_xq equal to the
model value qb_val of Quant/Fixed.v for every configuration, every scale and every rational input."""
import ast
import os
import sys

sys.path.insert(0, os.path.dirname(os.path.dirname(os.path.abspath(__file__))))
from translate import lingen  # noqa: E402
from translate.lingen import Fail, to_r, to_z  # noqa: E402

REPO = os.environ.get("QKERAS_REPO", "/repo")


class QB(lingen.Interp):
  def __init__(self, cls, attrs, env=None, has_alpha=True):
    super().__init__(cls, attrs, env)
    self.has_alpha = has_alpha

  def val(self, n):
    src = ast.unparse(n)
    line = getattr(n, "lineno", 0)
    if isinstance(n, ast.Call):
      f = ast.unparse(n.func)
      if f in ("tf.sign", "tf.abs") and len(n.args) == 1:
        a = self.val(n.args[0])
        return ("r", f"({'rsgn' if f == 'tf.sign' else 'rabs'} {to_r(a, line)})")
      if f == "tf.keras.backend.clip" and len(n.args) == 3:
        a, lo, hi = (self.val(x) for x in n.args)
        return ("r", f"(rclip {to_r(lo)} {to_r(hi)} {to_r(a)})")
      if f == "_round_through" and len(n.args) == 2 and ast.unparse(n.args[1]) == "self.use_stochastic_rounding":
        kw = {k.arg: ast.unparse(k.value) for k in n.keywords}
        if kw == {"precision": "1.0"}:
          return ("r", f"(rofZ (rround {to_r(self.val(n.args[0]))}))")
        raise Fail(f"line {line}: rounding options {kw}")
      if f == "K.cast_to_floatx" and len(n.args) == 1:
        return self.val(n.args[0])       # integers stay integers (exponents of K.pow)
    if isinstance(n, ast.Compare) and len(n.ops) == 1 and isinstance(n.ops[0], ast.Gt):
      a, b = self.val(n.left), self.val(n.comparators[0])
      if a[0] in ("z", "b") and b[0] == "z":
        return ("b", f"({to_z(b)} <? {to_z(a)})")
    if isinstance(n, ast.UnaryOp) and isinstance(n.op, ast.Not):
      a = self.val(n.operand)
      if a[0] == "b":
        return ("b", f"(negb {a[1]})")
    return super().val(n)

  def run(self, stmts):
    for st in stmts:
      if self.ret is not None:
        return                               # the first return ends the path (the straight-through mixture is retgen's)
      src = ast.unparse(st)
      if isinstance(st, ast.If):
        t = ast.unparse(st.test)
        if t == "not self.built":
          continue
        if t == "self.alpha != 'auto_po2'":
          if not all(isinstance(s, ast.Assert) for s in st.body) or st.orelse:
            raise Fail(f"line {st.lineno}: the auto_po2 guard does more than assert")
          continue
        if t == "self.alpha is None":
          self.run(st.body if not self.has_alpha else st.orelse)
          continue
        if t == "isinstance(self.alpha, six.string_types)":
          self.run(st.orelse)                # the data-dependent path is C05's
          continue
        if t == "self.use_ste":
          self.ret = ("done",)
          return
        c = self.val(st.test)
        if c[0] != "b":
          raise Fail(f"line {st.lineno}: condition `{t}`")
        a, b = QB(self.cls, self.attrs, self.env, self.has_alpha), QB(self.cls, self.attrs, self.env, self.has_alpha)
        a.run(st.body)
        b.run(st.orelse)
        if a.ret is not None or b.ret is not None:
          raise Fail(f"line {st.lineno}: return under a condition")
        self.env = self.merge(c[1], a.env, b.env, st.lineno)
        continue
      if isinstance(st, ast.AugAssign) and isinstance(st.target, ast.Name) and isinstance(st.op, ast.Add):
        cur = self.env.get(st.target.id)
        if cur is None:
          raise Fail(f"line {st.lineno}: += on an unknown name")
        self.env[st.target.id] = ("r", f"(radd {to_r(cur)} {to_r(self.val(st.value))})")
        continue
      if src == "self.scale = scale":
        self.env["__self_scale"] = self.env.get("scale", ("none",))
        continue
      super().run([st])


def translate():
  tree = ast.parse(open(os.path.join(REPO, "qkeras", "quantizers.py")).read())
  cls = next((n for n in tree.body if isinstance(n, ast.ClassDef) and n.name == "quantized_bits"), None)
  if cls is None:
    raise Fail("class quantized_bits not found")
  init = ast.unparse(next(f for f in cls.body if isinstance(f, ast.FunctionDef) and f.name == "__init__"))
  for need in ("self.bits = bits", "self.integer = integer", "self.symmetric = symmetric", "self.keep_negative = keep_negative", "self.alpha = alpha"):
    if need not in init:
      raise Fail(f"__init__: `{need}` not found")
  attrs = {"self.bits": ("z", "bits"), "self.integer": ("z", "integer"), "self.keep_negative": ("b", "kn"), "self.symmetric": ("b", "sym"),
           "self.alpha": ("r", "alpha")}
  call = next((f for f in cls.body if isinstance(f, ast.FunctionDef) and f.name == "__call__"), None)
  if call is None:
    raise Fail("quantized_bits.__call__ not found")
  out = {}
  for has_alpha in (True, False):
    it = QB(cls, attrs, {"x": ("r", "x")}, has_alpha)
    it.run(call.body)
    if it.ret != ("done",) or "xq" not in it.env or "scale" not in it.env:
      raise Fail("__call__ does not reach the straight-through return with xq and scale")
    if it.env.get("__self_scale") != it.env["scale"]:
      raise Fail("self.scale is not the scale that multiplies the code")
    if it.env.get("x") != ("r", "x"):
      raise Fail("x is rebound on the data-independent path")
    out[has_alpha] = (to_r(it.env["xq"]), to_r(it.env["scale"]))
  # xq must be scale * (something independent of alpha)
  a_xq, a_sc = out[True]
  n_xq, n_sc = out[False]
  if a_sc != "alpha" or n_sc != "(1, 1)":
    raise Fail(f"scale is {a_sc} / {n_sc}")
  if not a_xq.startswith("(rmul alpha ") or not n_xq.startswith("(rmul (1, 1) ") or a_xq[len("(rmul alpha "):] != n_xq[len("(rmul (1, 1) "):]:
    raise Fail("xq is not scale * code-value")
  return "(rmul scale " + a_xq[len("(rmul alpha "):]


HEADER = ["(* GENERATED by tools/translate/qbitsgen.py from qkeras/quantizers.py -- do not edit *)",
          "From Coq Require Import ZArith Bool.", "From QV Require Import Base.ZQ Base.FL Quant.BinTern Quant.BinTernSrc.", "Open Scope Z_scope.", ""]


def emit(outdir):
  lines = list(HEADER)
  ok, why = True, ""
  try:
    xq = translate()
    lines.append(f"Definition gen_qb_xq (bits integer : Z) (kn sym : bool) (scale x : rat) : rat :=\n  {xq}.")
    lines.append("Definition gen_qb_scale (has_alpha : bool) (alpha : rat) : rat := if has_alpha then alpha else (1, 1).")
  except Fail as e:
    ok, why = False, str(e)
  except (OSError, SyntaxError, KeyError, IndexError, AttributeError, StopIteration) as e:
    ok, why = False, f"{type(e).__name__}: {e}"
  if not ok:
    lines = list(HEADER) + ["(* translation failed: " + why.replace("*)", "* )") + " *)",
                            "Definition gen_qb_xq (bits integer : Z) (kn sym : bool) (scale x : rat) : rat := (1, 3).",
                            "Definition gen_qb_scale (has_alpha : bool) (alpha : rat) : rat := (0, 1)."]
  lines.append(f"Definition qbits_translation_ok : bool := {'true' if ok else 'false'}.")
  path = os.path.join(outdir, "QBitsGen.v")
  with open(path, "w") as f:
    f.write("\n".join(lines) + "\n")
  return path


if __name__ == "__main__":
  print(open(emit(sys.argv[1] if len(sys.argv) > 1 else ".")).read())

#!/usr/bin/env python3
"""Fail-closed translator: get_operation_count, is_merge_layers, is_shape_alternation_layers
(qkeras/qtools/qtools_util.py) -> coq/gen/OpCountGen.v, regenerated on every run.

  gen_opcount (cls : string) (ishape oshape wshape : list Z) (pool : option (list Z)) (groups : Z) : Z

cls     layer.__class__.__name__
ishape  input_shape (after the list case was taken off), a None dimension is written -1
oshape  layer.compute_output_shape(input_shape)
wshape  layer.get_weights()[0].shape
pool    Some layer.pool_size when the layer has that attribute
groups  getattr(layer, "groups", 1)

Link/OpCountLink.v re-proves, for all dimensions, that gen_opcount is the formula of QTools/OpCount.v whose
equality with the cardinality of the layer's loop nest is Properties/C19.v.  Only the statement shapes below are
accepted; anything else gives translation_ok := false, which the link lemma rejects.
The asserts of the Dense branch reject shapes with two dimensions > 1; they are not part of the value."""
import ast
import os
import sys

REPO = os.environ.get("QKERAS_REPO", "/repo")


class Fail(Exception):
  pass


def cstr(s):
  return '"' + s.replace('"', '""') + '"'


def strlist(n):
  if isinstance(n, ast.List) and all(isinstance(e, ast.Constant) and isinstance(e.value, str) for e in n.elts):
    return "[" + "; ".join(cstr(e.value) for e in n.elts) + "]"
  raise Fail(f"list of names {ast.unparse(n)[:50]}")


CLSNAME = ("layer.__class__.__name__", "lname")


def cond(n, preds):
  """class-name conditions"""
  if isinstance(n, ast.BoolOp):
    op = " || " if isinstance(n.op, ast.Or) else " && "
    return "(" + op.join(cond(v, preds) for v in n.values) + ")"
  if isinstance(n, ast.Compare) and len(n.ops) == 1 and isinstance(n.ops[0], ast.In):
    l, r = n.left, n.comparators[0]
    if ast.unparse(r) in CLSNAME and isinstance(l, ast.Constant) and isinstance(l.value, str):
      return f"(has_substr {cstr(l.value)} cls)"
    if ast.unparse(l) in CLSNAME:
      return f"(in_names cls {strlist(r)})"
  if isinstance(n, ast.Call) and isinstance(n.func, ast.Name) and n.func.id in preds and ast.unparse(n.args[0]) == "layer" and len(n.args) == 1:
    return f"({preds[n.func.id]} cls)"
  raise Fail(f"condition {ast.unparse(n)[:70]}")


def tr_pred(f, name):
  """is_merge_layers / is_shape_alternation_layers: a boolean function of the class name"""
  b = [s for s in f.body if not (isinstance(s, ast.Expr) and isinstance(s.value, ast.Constant))]
  if len(b) == 1 and isinstance(b[0], ast.If):
    i = b[0]
    if (len(i.body) == 1 and isinstance(i.body[0], ast.Return) and ast.unparse(i.body[0].value) == "True" and
        len(i.orelse) == 1 and isinstance(i.orelse[0], ast.Return) and ast.unparse(i.orelse[0].value) == "False"):
      return f"Definition {name} (cls : string) : bool := {cond(i.test, {})}."
  if (len(b) == 3 and isinstance(b[0], ast.Assign) and ast.unparse(b[0]) == "lname = layer.__class__.__name__" and
      isinstance(b[1], ast.If) and ast.unparse(b[1].test) == "lname" and not b[1].orelse and len(b[1].body) == 1 and
      isinstance(b[1].body[0], ast.Return) and isinstance(b[2], ast.Return) and ast.unparse(b[2].value) == "False"):
    # `if lname:` is the non-empty test
    return f"Definition {name} (cls : string) : bool := if String.eqb cls \"\" then false else {cond(b[1].body[0].value, {})}."
  raise Fail(f"{f.name}: unsupported body")


class Branch:
  """straight-line body of one branch of the class dispatch"""

  def __init__(self):
    self.env = {"input_shape": ("shape", "ishape")}
    self.lets = []
    self.n = 0

  def bind(self, py, kind, term):
    self.n += 1
    v = f"v_{py}_{self.n}" if py in self.env else "v_" + py
    self.lets.append((v, term))
    self.env[py] = (kind, v)

  def shape(self, n):
    if isinstance(n, ast.Name) and n.id in self.env and self.env[n.id][0] == "shape":
      return self.env[n.id][1]
    if isinstance(n, ast.Attribute) and n.attr == "shape" and isinstance(n.value, ast.Name) and self.env.get(n.value.id, ("", ""))[0] == "weight0":
      return "wshape"
    if isinstance(n, ast.Subscript) and isinstance(n.slice, ast.Slice):
      s = n.slice
      lo = ast.unparse(s.lower) if s.lower is not None else None
      hi = ast.unparse(s.upper) if s.upper is not None else None
      if s.step is None and lo == "1" and hi is None:
        return f"(skipn 1 {self.shape(n.value)})"
      if s.step is None and lo == "1" and hi == "-1":
        return f"(middle {self.shape(n.value)})"
    if (isinstance(n, ast.Call) and ast.unparse(n.func) == "np.array" and len(n.args) == 1 and isinstance(n.args[0], ast.ListComp)):
      lc = n.args[0]
      g = lc.generators[0]
      if (len(lc.generators) == 1 and isinstance(lc.elt, ast.Name) and isinstance(g.target, ast.Name) and lc.elt.id == g.target.id and
          len(g.ifs) == 1 and ast.unparse(g.ifs[0]) == f"{g.target.id} is not None"):
        return f"(known {self.shape(g.iter)})"
    raise Fail(f"shape expression {ast.unparse(n)[:60]}")

  def zexp(self, n):
    if isinstance(n, ast.Constant) and isinstance(n.value, int) and not isinstance(n.value, bool):
      return f"({n.value})"
    if isinstance(n, ast.Name) and n.id in self.env and self.env[n.id][0] == "Z":
      return self.env[n.id][1]
    if isinstance(n, ast.BinOp) and isinstance(n.op, ast.Mult):
      return f"({self.zexp(n.left)} * {self.zexp(n.right)})"
    if isinstance(n, ast.BinOp) and isinstance(n.op, ast.FloorDiv):
      return f"({self.zexp(n.left)} / {self.zexp(n.right)})"
    if isinstance(n, ast.Call) and ast.unparse(n.func) == "np.prod" and len(n.args) == 1 and not n.keywords:
      return f"(prodl {self.shape(n.args[0])})"
    if isinstance(n, ast.Call) and ast.unparse(n.func) == "np.max" and len(n.args) == 1 and not n.keywords:
      return f"(maxl {self.shape(n.args[0])})"
    if isinstance(n, ast.Call) and "".join(ast.unparse(n).split()) in ("getattr(layer,'groups',1)", 'getattr(layer,"groups",1)'):
      return "groups"
    if isinstance(n, ast.Subscript) and ast.unparse(n.slice) == "-1":
      return f"(lastz {self.shape(n.value)})"
    raise Fail(f"integer expression {ast.unparse(n)[:60]}")

  def stmt(self, s):
    if isinstance(s, ast.Assert):
      return
    if isinstance(s, ast.Expr) and isinstance(s.value, ast.Call) and ast.unparse(s.value.func) == "print":
      return
    if isinstance(s, ast.If):
      # the one conditional binding: pool_size from the layer when it has one, else the spatial input extent
      t = "".join(ast.unparse(s.test).split())
      if (t in ("hasattr(layer,'pool_size')", 'hasattr(layer,"pool_size")') and len(s.body) == 1 and len(s.orelse) == 1 and
          ast.unparse(s.body[0]) == "pool_size = layer.pool_size" and isinstance(s.orelse[0], ast.Assign) and
          ast.unparse(s.orelse[0].targets[0]) == "pool_size"):
        self.bind("pool_size", "shape", f"match pool with Some p => p | None => {self.shape(s.orelse[0].value)} end")
        return
      raise Fail(f"conditional {t[:60]}")
    if not (isinstance(s, ast.Assign) and len(s.targets) == 1):
      raise Fail(f"statement {ast.unparse(s)[:60]}")
    tgt, val = s.targets[0], s.value
    if isinstance(tgt, ast.Tuple):
      src = self.shape(val)
      for i, e in enumerate(tgt.elts):
        if not isinstance(e, ast.Name):
          raise Fail("tuple target")
        if e.id != "_":
          self.bind(e.id, "Z", f"nthz {i} {src}")
      return
    if not isinstance(tgt, ast.Name):
      raise Fail(f"target {ast.unparse(tgt)}")
    u = "".join(ast.unparse(val).split())
    if u == "layer.compute_output_shape(input_shape)":
      self.env[tgt.id] = ("shape", "oshape")
      return
    if u == "layer.get_weights()[0]":
      self.env[tgt.id] = ("weight0", "")
      return
    try:
      self.bind(tgt.id, "Z", self.zexp(val))
    except Fail:
      self.bind(tgt.id, "shape", self.shape(val))

  def run(self, body):
    for s in body:
      self.stmt(s)
    if self.env.get("operation_count", ("", ""))[0] != "Z":
      return "0"
    out = self.env["operation_count"][1]
    for v, t in reversed(self.lets):
      out = f"let {v} := {t} in\n      {out}"
    return out


def tr_count(f, preds):
  if [a.arg for a in f.args.args] != ["layer", "input_shape"]:
    raise Fail("get_operation_count signature")
  b = [s for s in f.body if not (isinstance(s, ast.Expr) and isinstance(s.value, ast.Constant))]
  if len(b) != 4:
    raise Fail("get_operation_count: expected list case, initial value, dispatch, return")
  if "".join(ast.unparse(b[0]).split()) != "ifisinstance(input_shape,list):input_shape=input_shape[0]":
    raise Fail("get_operation_count: list case")
  if ast.unparse(b[1]).replace(" ", "") != "operation_count=0":
    raise Fail("get_operation_count: initial value")
  if ast.unparse(b[3]).replace(" ", "") != "returnint(operation_count)":
    raise Fail("get_operation_count: return")
  node, arms = b[2], []
  while True:
    if not isinstance(node, ast.If):
      raise Fail("get_operation_count: dispatch")
    arms.append((cond(node.test, preds), Branch().run(node.body)))
    if len(node.orelse) == 1 and isinstance(node.orelse[0], ast.If):
      node = node.orelse[0]
      continue
    arms.append((None, Branch().run(node.orelse)))
    break
  out = ""
  for c, e in arms:
    if c is None:
      out += f"    ({e})"
    else:
      out += f"    if {c} then\n      ({e})\n    else\n"
  return ("Definition gen_opcount (cls : string) (ishape oshape wshape : list Z) (pool : option (list Z)) (groups : Z) : Z :=\n" + out + ".")


HEADER = ["(* GENERATED by tools/translate/opcountgen.py from /repo/qkeras/qtools/qtools_util.py -- do not edit *)",
          "From Coq Require Import ZArith String List Bool.", "From QV Require Import QTools.OpCountSyn.",
          "Import ListNotations.", "Open Scope Z_scope.", "Open Scope string_scope.", ""]


def emit(outdir):
  lines = list(HEADER)
  ok, why = True, ""
  try:
    tree = ast.parse(open(os.path.join(REPO, "qkeras", "qtools", "qtools_util.py")).read())
    fs = {n.name: n for n in tree.body if isinstance(n, ast.FunctionDef)}
    for need in ("is_merge_layers", "is_shape_alternation_layers", "get_operation_count"):
      if need not in fs:
        raise Fail(f"function {need} not found")
    lines.append(tr_pred(fs["is_merge_layers"], "gen_is_merge"))
    lines.append(tr_pred(fs["is_shape_alternation_layers"], "gen_is_shape_alternation"))
    lines.append(tr_count(fs["get_operation_count"], {"is_merge_layers": "gen_is_merge", "is_shape_alternation_layers": "gen_is_shape_alternation"}))
  except Fail as e:
    ok, why = False, str(e)
  except (OSError, SyntaxError, IndexError, AttributeError, KeyError) as e:
    ok, why = False, f"{type(e).__name__}: {e}"
  if not ok:
    lines = list(HEADER) + ["(* translation failed: " + why.replace("*)", "* )") + " *)",
                            "Definition gen_is_merge (cls : string) : bool := false.",
                            "Definition gen_is_shape_alternation (cls : string) : bool := false.",
                            "Definition gen_opcount (cls : string) (ishape oshape wshape : list Z) (pool : option (list Z)) (groups : Z) : Z := 0."]
  lines.append(f"Definition translation_ok : bool := {'true' if ok else 'false'}.")
  path = os.path.join(outdir, "OpCountGen.v")
  with open(path, "w") as f:
    f.write("\n".join(lines) + "\n")
  return path


if __name__ == "__main__":
  print(emit(sys.argv[1] if len(sys.argv) > 1 else "."))

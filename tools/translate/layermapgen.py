#!/usr/bin/env python3
"""Fail-closed translator: the dense / convolution branch of generate_layer_data_type_map
(qkeras/qtools/generate_layer_data_type_map.py, `elif node_type in QKERAS_LAYERS or node_type in KERAS_LAYERS`)
-> coq/gen/LayerMapGen.v, regenerated on every run.

The branch is executed symbolically on the path a quantized layer of a model under analysis takes
(for_reference = False, the layer has get_quantizers, is_inference = False, no batch-norm fusing dictionary, debug = False),
for the four combinations of  depthwise (node_type in the depthwise list)  x  use_bias (layer.use_bias).
Values are TERMS over the converted weight / input / bias types w, x, b:

  Mul(w, x)              MultiplierFactory.make_multiplier(weight_quantizer, input_quantizer)
  Acc(shape, m, ub)      AccumulatorFactory.make_accumulator(kernel_shape, multiplier, use_bias=ub); shape is KS (the kernel's shape) or
                         KSDW (kernel.shape[:-2] + (1, 1), the depthwise case)
  Add(a, b)              adder_factory.IAdder().make_quantizer(a.output, bias_quantizer)

What is emitted is what the layer map stores under "multiplier", "accumulator", "bias_quantizer" and what becomes the layer's
output type (`layer_quantizer`), as Gallina over QTools/Ops.v:

  gen_layer_multiplier  (w x : qt) : qt
  gen_layer_accumulator (depthwise use_bias : bool) (w x b : qt) (kops kops_dw : Z) : qt
      kops = prod(kernel.shape[:-1]), kops_dw = prod(kernel.shape[:-2]) -- the number of terms make_accumulator derives from the shape it is given
  gen_layer_keeps_bias_type (use_bias : bool) : bool      the stored bias type is b with a bias and None without
  gen_layer_output_is_accumulator : bool                  layer_quantizer = accumulator.output

Link/LayerMapLink.v proves them equal to layer_mul / layer_acc of QTools/LayerMap.v."""
import ast
import itertools
import os
import sys

REPO = os.environ.get("QKERAS_REPO", "/repo")
SRC = "qkeras/qtools/generate_layer_data_type_map.py"
FALSE_FLAGS = ("for_reference", "is_inference", "debug", "enable_bn_fusing")


class Fail(Exception):
  pass


class Path:
  def __init__(self, depthwise, use_bias):
    self.depthwise, self.use_bias = depthwise, use_bias
    self.env = {"input_qe_list": ("qe",)}
    self.stored = None
    self.layer_quantizer = None

  def cond(self, n):
    src = " ".join(ast.unparse(n).split())
    if isinstance(n, ast.BoolOp):
      for v in n.values:
        r = self.cond(v)
        if isinstance(n.op, ast.And) and not r:
          return False
        if isinstance(n.op, ast.Or) and r:
          return True
      return isinstance(n.op, ast.And)
    if isinstance(n, ast.UnaryOp) and isinstance(n.op, ast.Not):
      return not self.cond(n.operand)
    if isinstance(n, ast.Name) and n.id in FALSE_FLAGS:
      v = self.env.get(n.id)
      return False if v is None else bool(v[1])
    if src == "hasattr(layer, 'get_quantizers')":
      return True
    if src.startswith("quantizer_factory.is_quantizer_supported("):
      return True
    if src == "layer.use_bias":
      return self.use_bias
    if src in ("node_type in ['QDepthwiseConv2D', 'DepthwiseConv2D']",):
      return self.depthwise
    if src in ("keras_quantizer", "keras_accumulator"):
      return False
    if src.startswith("hasattr(qkeras_weight_quantizer, '__str__')") or "qkeras_weight_quantizer.alpha == 'auto_po2'" in src:
      return False                                    # a kernel without an auto power-of-two scale: fused_accumulator = accumulator
    if src in ("weight_quantizer.is_po2", "bias_quantizer.is_po2"):
      raise Fail("the inference-only update is reached on the analysis path")
    raise Fail(f"line {n.lineno}: condition `{src[:70]}`")

  def val(self, n):
    src = " ".join(ast.unparse(n).split())
    if isinstance(n, ast.Name):
      return self.env.get(n.id, ("opaque", n.id))
    if isinstance(n, ast.Constant) and n.value is None:
      return ("none",)
    if src == "input_qe_list[0]":
      return ("pair", ("t", "x"), ("opaque", "edge"))
    if src == "layer.get_quantizers()[0]":
      return ("qk", "w")
    if src == "layer.get_quantizers()[1]":
      return ("qk", "b")
    if src.startswith("quantizer_factory.make_quantizer(") and isinstance(n, ast.Call) and len(n.args) == 1:
      a = self.val(n.args[0])
      if a[0] != "qk":
        raise Fail(f"line {n.lineno}: make_quantizer of something that is not one of the layer's quantizers")
      return ("t", a[1])
    if src == "quantized_operators.MultiplierFactory()":
      return ("mfac",)
    if src == "quantized_operators.AccumulatorFactory()":
      return ("afac",)
    if src == "adder_factory.IAdder()":
      return ("adfac",)
    if isinstance(n, ast.Call) and isinstance(n.func, ast.Attribute) and n.func.attr == "make_multiplier" and self.val(n.func.value) == ("mfac",) and len(n.args) == 2:
      a, b = self.val(n.args[0]), self.val(n.args[1])
      if a[0] != "t" or b[0] != "t":
        raise Fail(f"line {n.lineno}: make_multiplier operands")
      return ("t", f"(snd (make_multiplier {a[1]} {b[1]}))")
    if isinstance(n, ast.Call) and isinstance(n.func, ast.Attribute) and n.func.attr == "make_accumulator" and self.val(n.func.value) == ("afac",):
      kw = {k.arg: k.value for k in n.keywords}
      if len(n.args) != 2 or set(kw) != {"use_bias"} or not isinstance(kw["use_bias"], ast.Constant):
        raise Fail(f"line {n.lineno}: make_accumulator call shape")
      sh, m = self.val(n.args[0]), self.val(n.args[1])
      if sh[0] != "shape" or m[0] != "t":
        raise Fail(f"line {n.lineno}: make_accumulator arguments")
      return ("t", f"(make_accumulator {sh[1]} {'true' if kw['use_bias'].value else 'false'} {m[1]})")
    if isinstance(n, ast.Call) and isinstance(n.func, ast.Attribute) and n.func.attr == "make_quantizer" and self.val(n.func.value) == ("adfac",) and len(n.args) == 2:
      a, b = self.val(n.args[0]), self.val(n.args[1])
      if a[0] != "t" or b[0] != "t":
        raise Fail(f"line {n.lineno}: IAdder operands")
      return ("t", f"(make_adder {a[1]} {b[1]})")
    if isinstance(n, ast.Attribute) and n.attr == "output":
      a = self.val(n.value)
      if a[0] == "t":
        return a                                        # an operator's output type is the operator's type in QTools/Ops.v
    if src == "layer.get_weights()":
      return ("weights",)
    if src == "weights[0]" and self.env.get("weights") == ("weights",):
      return ("kernel",)
    if src == "kernel.shape" and self.env.get("kernel") == ("kernel",):
      return ("shape", "kops")
    if src == "kernel.shape[:-2] + (1, 1)" and self.env.get("kernel") == ("kernel",):
      return ("shape", "kops_dw")
    if src.startswith("hw_weight_dict is not None and"):
      return ("flag", False)
    return ("opaque", src)

  def run(self, stmts):
    for st in stmts:
      if isinstance(st, ast.Expr):
        continue                                        # docstrings, prints, calls whose value is dropped
      if isinstance(st, ast.Raise) or isinstance(st, ast.Assert):
        raise Fail(f"line {st.lineno}: a raise / assert is reached on the analysis path")
      if isinstance(st, ast.If):
        c = self.cond(st.test)
        body = st.body if c else st.orelse
        if body and all(isinstance(b, ast.Raise) for b in body):
          raise Fail(f"line {st.lineno}: the analysis path raises")
        self.run(body)
        continue
      if isinstance(st, ast.Assign) and len(st.targets) == 1:
        t = st.targets[0]
        if isinstance(t, ast.Tuple) and len(t.elts) == 2 and all(isinstance(e, ast.Name) for e in t.elts):
          v = self.val(st.value)
          if v[0] != "pair":
            raise Fail(f"line {st.lineno}: tuple assignment")
          self.env[t.elts[0].id], self.env[t.elts[1].id] = v[1], v[2]
          continue
        if isinstance(t, ast.Name):
          self.env[t.id] = self.val(st.value)
          continue
        if isinstance(t, ast.Subscript) and " ".join(ast.unparse(t).split()) == "layer_data_type_map[layer]" and isinstance(st.value, ast.Dict):
          self.stored = {k.value: self.val(v) for k, v in zip(st.value.keys, st.value.values) if isinstance(k, ast.Constant)}
          self.layer_quantizer = self.env.get("layer_quantizer")
          continue
        if isinstance(t, ast.Attribute):
          raise Fail(f"line {st.lineno}: attribute assignment `{ast.unparse(t)}` on the analysis path")
      raise Fail(f"line {st.lineno}: statement `{ast.unparse(st)[:60]}`")


def find_branch(tree):
  fn = next((n for n in tree.body if isinstance(n, ast.FunctionDef) and n.name == "generate_layer_data_type_map"), None)
  if fn is None:
    raise Fail("generate_layer_data_type_map not found")
  want = "node_type in QKERAS_LAYERS or node_type in KERAS_LAYERS"
  for n in ast.walk(fn):
    if isinstance(n, ast.If) and " ".join(ast.unparse(n.test).split()) == want:
      return n.body
  raise Fail("dense / convolution branch not found")


def translate(src):
  body = find_branch(ast.parse(src))
  res = {}
  for dw, ub in itertools.product((False, True), repeat=2):
    p = Path(dw, ub)
    p.run(body)
    if p.stored is None:
      raise Fail("the branch does not store a layer map entry")
    for k in ("multiplier", "accumulator", "bias_quantizer", "fused_accumulator", "weight_quantizer"):
      if k not in p.stored:
        raise Fail(f"the layer map entry has no '{k}'")
    m, a, b, fa, w = (p.stored[k] for k in ("multiplier", "accumulator", "bias_quantizer", "fused_accumulator", "weight_quantizer"))
    if m[0] != "t" or a[0] != "t" or w != ("t", "w"):
      raise Fail("multiplier / accumulator / weight entry is not a type term")
    if fa != a:
      raise Fail("fused_accumulator differs from accumulator for a kernel without an auto power-of-two scale")
    if (ub and b != ("t", "b")) or ((not ub) and b != ("none",)):
      raise Fail(f"bias_quantizer entry with use_bias={ub} is {b}")
    if p.layer_quantizer != a:
      raise Fail("the layer's output type is not accumulator.output")
    res[(dw, ub)] = (m[1], a[1])
  ms = {v[0] for v in res.values()}
  if len(ms) != 1:
    raise Fail("the multiplier depends on depthwise / use_bias")
  return ms.pop(), res


def translate_adjust():
  """adjust_multiplier_for_auto_po2 (the arithmetic on bits / int_bits given min_shift, max_shift) and the composition of
  adjust_accumulator_for_auto_po2, from qkeras/qtools/qtools_util.py"""
  sys.path.insert(0, os.path.dirname(os.path.abspath(__file__)))
  import qtoolsops as T
  tree = ast.parse(open(os.path.join(REPO, "qkeras", "qtools", "qtools_util.py")).read())
  fm = next((n for n in tree.body if isinstance(n, ast.FunctionDef) and n.name == "adjust_multiplier_for_auto_po2"), None)
  fa = next((n for n in tree.body if isinstance(n, ast.FunctionDef) and n.name == "adjust_accumulator_for_auto_po2"), None)
  if fm is None or fa is None:
    raise Fail("adjust_*_for_auto_po2 not found")
  # the arithmetic block: every statement of the function that assigns bits / int_bits / max_* / total_bits or output_quantizer.<attr>
  names = {"bits", "int_bits", "max_fractional_bits", "max_int_bits", "total_bits"}
  block = []
  for n in ast.walk(fm):
    if isinstance(n, ast.Assign) and len(n.targets) == 1:
      t = n.targets[0]
      if (isinstance(t, ast.Name) and t.id in names) or (isinstance(t, ast.Attribute) and ast.unparse(t.value) == "output_quantizer"):
        block.append(n)
  block.sort(key=lambda n: n.lineno)
  if [ast.unparse(n.targets[0]) for n in block] != ["bits", "int_bits", "max_fractional_bits", "max_int_bits", "total_bits", "output_quantizer.bits", "output_quantizer.int_bits"]:
    raise Fail("adjust_multiplier_for_auto_po2: unexpected assignments " + str([ast.unparse(n.targets[0]) for n in block]))
  src = ast.unparse(fm)
  for need in ("output_quantizer = multiplier.output", "max_shift = int(np.log2(np.max(scale)))", "min_shift = int(np.log2(np.min(scale)))"):
    if need not in src:
      raise Fail(f"adjust_multiplier_for_auto_po2: `{need}` not found")
  try:
    ex = T.Exec({"output_quantizer": T.Val("Q", "m"), "min_shift": T.Val("Z", "mn"), "max_shift": T.Val("Z", "mx")}, {})
    ex.run(block)
    adj = ex.env["output_quantizer"].s
  except T.Fail as e:
    raise Fail("adjust_multiplier_for_auto_po2: " + str(e))
  # the composition: accumulate the ADJUSTED copy of the multiplier, then the bias adder
  res = {}
  for dw, ub in itertools.product((False, True), repeat=2):
    p_ = Path(dw, ub)
    p_.env.update({"multiplier": ("t", "m"), "bias_quantizer": ("t", "b")})
    body = [st for st in fa.body if not (isinstance(st, ast.Expr))]
    fused = None
    for st in body:
      s_ = " ".join(ast.unparse(st).split())
      if s_ == "fused_multiplier = copy.deepcopy(multiplier)":
        p_.env["fused_multiplier"] = ("t", "m")
        continue
      if s_ == "weights = layer.get_weights()":
        p_.env["weights"] = ("weights",)
        continue
      if s_ == "kernel_accumulator_factory = quantized_operators.AccumulatorFactory()":
        p_.env["kernel_accumulator_factory"] = ("afac",)
        continue
      if isinstance(st, ast.If) and " ".join(ast.unparse(st.test).split()) == "layer.__class__.__name__ in ['QDepthwiseConv2D', 'DepthwiseConv2D']":
        if dw:
          p_.run([x for x in st.body if not isinstance(x, ast.Assert)])
        continue
      if isinstance(st, ast.Return):
        fused = p_.val(st.value)
        continue
      if isinstance(st, ast.If) and " ".join(ast.unparse(st.test).split()) == "not layer.use_bias":
        if ub:
          sub = []
          for x in st.orelse:
            xs = " ".join(ast.unparse(x).split())
            if xs == "bias_accumulator_instance = quantized_operators.adder_factory.IAdder()":
              p_.env["bias_accumulator_instance"] = ("adfac",)
            else:
              sub.append(x)
          p_.run(sub)
        else:
          p_.run(st.body)
        continue
      p_.run([st])
    if "adjust_multiplier_for_auto_po2(fused_multiplier, qkeras_weight_quantizer)" not in ast.unparse(fa):
      raise Fail("adjust_accumulator_for_auto_po2 does not adjust its copy of the multiplier")
    if fused is None or fused[0] != "t":
      raise Fail("adjust_accumulator_for_auto_po2 does not return an accumulator term")
    res[(dw, ub)] = fused[1]
  return adj, res


def emit(outdir):
  head = ["(* GENERATED by tools/translate/layermapgen.py from qkeras/qtools/generate_layer_data_type_map.py -- do not edit *)",
          "From Coq Require Import ZArith Bool.", "From QV Require Import Base.ZQ Base.FL QTools.Types QTools.Ops.", "Open Scope Z_scope.", ""]
  try:
    m, res = translate(open(os.path.join(REPO, SRC)).read())
    ok, why = True, ""
  except Fail as e:
    ok, why = False, str(e)
  except (OSError, SyntaxError) as e:
    ok, why = False, f"{type(e).__name__}: {e}"
  lines = list(head)
  if ok:
    lines.append(f"Definition gen_layer_multiplier (w x : qt) : qt :=\n  {m}.")
    lines.append("Definition gen_layer_accumulator (depthwise use_bias : bool) (w x b : qt) (kops kops_dw : Z) : qt :=\n"
                 "  match depthwise, use_bias with\n" +
                 "\n".join(f"  | {'true' if dw else 'false'}, {'true' if ub else 'false'} => {res[(dw, ub)][1]}" for dw, ub in itertools.product((False, True), repeat=2)) +
                 "\n  end.")
  else:
    lines.append("(* translation failed: " + why.replace("*)", "* )") + " *)")
    lines.append("Definition gen_layer_multiplier (w x : qt) : qt := mkQuantizedBits.")
    lines.append("Definition gen_layer_accumulator (depthwise use_bias : bool) (w x b : qt) (kops kops_dw : Z) : qt := mkQuantizedBits.")
  if ok:
    try:
      adj, fres = translate_adjust()
      lines.append(f"Definition gen_adjust_auto_po2 (m : qt) (mn mx : Z) : qt :=\n  {adj}.")
      lines.append("(* the fused accumulator: m is the multiplier type AFTER gen_adjust_auto_po2 *)\n"
                   "Definition gen_fused_accumulator (depthwise use_bias : bool) (m b : qt) (kops kops_dw : Z) : qt :=\n"
                   "  match depthwise, use_bias with\n" +
                   "\n".join(f"  | {'true' if dw else 'false'}, {'true' if ub else 'false'} => {fres[(dw, ub)]}" for dw, ub in itertools.product((False, True), repeat=2)) +
                   "\n  end.")
    except Fail as e:
      ok, why = False, str(e)
      lines.append("(* translation failed: " + why.replace("*)", "* )") + " *)")
  if not ok:
    lines.append("Definition gen_adjust_auto_po2 (m : qt) (mn mx : Z) : qt := mkQuantizedBits.")
    lines.append("Definition gen_fused_accumulator (depthwise use_bias : bool) (m b : qt) (kops kops_dw : Z) : qt := mkQuantizedBits.")
  lines.append(f"Definition layermap_translation_ok : bool := {'true' if ok else 'false'}.")
  path = os.path.join(outdir, "LayerMapGen.v")
  with open(path, "w") as f:
    f.write("\n".join(lines) + "\n")
  return path


if __name__ == "__main__":
  print(open(emit(sys.argv[1] if len(sys.argv) > 1 else ".")).read())

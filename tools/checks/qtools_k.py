"""Shared by C16/C17/C18: qtools operand types built from real qkeras quantizers,
rendered as Coq QT literals, and helpers to compare qtools outputs with the model."""
import itertools
from fractions import Fraction

from harness import env
import vlib

NAME_CTOR = {
    "quantized_bits": "NQBits", "quantized_tanh": "NQTanh", "quantized_ulaw": "NQUlaw",
    "binary": "NBinary", "stochastic_binary": "NStochBinary", "bernoulli": "NBernoulli",
    "quantized_relu": "NQRelu", "ternary": "NTernary", "stochastic_ternary": "NStochTernary",
    "floating_point": "NFloat", "quantized_po2": "NPo2", "quantized_relu_po2": "NReluPo2",
}
NAME_CODE = {n: i for i, n in enumerate(
    ["quantized_bits", "quantized_tanh", "quantized_ulaw", "binary", "stochastic_binary", "bernoulli",
     "quantized_relu", "ternary", "stochastic_ternary", "floating_point", "quantized_po2", "quantized_relu_po2"])}
HEADER = ("From Coq Require Import ZArith List Bool.\n"
          "From QV Require Import Base.ZQ Base.FL QTools.Types QTools.Ops.\n"
          "Open Scope Z_scope. Import ListNotations.\n")


def maxv_of(o):
  v = o.max_val_po2
  if v == -1:
    return None
  return Fraction(float(v))


def qt_lit(o):
  """qtools quantizer object -> Coq QT literal"""
  mv = maxv_of(o)
  mvs = "None" if mv is None else f"(Some {vlib.ratlit(mv)})"
  u = getattr(o, "use_01", None)
  us = "None" if u is None else f"(Some {vlib.blit(bool(u))})"
  bits = o.bits if o.bits is not None else -1
  return (f"(QT {vlib.zlit(o.mode)} {vlib.zlit(int(bits))} {vlib.zlit(int(o.int_bits))} {vlib.blit(bool(o.is_signed))} "
          f"{vlib.blit(bool(o.is_floating_point))} {vlib.blit(bool(o.is_po2))} {mvs} {NAME_CTOR[o.name]} {us})")


def render(o):
  """same flat list as Coq's QTools.Types.render"""
  mv = maxv_of(o)
  bits = o.bits if o.bits is not None else -1
  return [int(o.mode), int(bits), int(o.int_bits), int(bool(o.is_signed)), int(bool(o.is_floating_point)),
          int(bool(o.is_po2)), -1 if mv is None else mv.numerator, 1 if mv is None else mv.denominator,
          NAME_CODE[o.name]]


def operand_specs(tier, small=False):
  """(description, constructor thunk) of qkeras quantizers / default modes.
  small=True: types with few values, for exhaustive value-pair enumeration."""
  import qkeras.quantizers as Q
  specs = []
  thorough = tier == "thorough"
  if small:
    bl = [1, 2, 3, 4, 5] if thorough else [1, 2, 3, 4]
  else:
    bl = list(range(1, 17)) if thorough else [1, 2, 3, 4, 5, 8, 9, 16]
  for b in bl:
    ints = {0, 1, b} if small else {0, 1, 2, b - 1, b, b + 2}
    for i in sorted(i for i in ints if 0 <= i <= b + 2):
      for kn in (1, 0):
        if b - kn < 0:
          continue
        specs.append((f"quantized_bits({b},{i},1,keep_negative={kn})", lambda b=b, i=i, kn=kn: Q.quantized_bits(b, i, 1, keep_negative=bool(kn))))
  for b in ([1, 2, 3] if small else [1, 2, 4, 6, 8]):
    for i in sorted({0, 1} if small else {0, 1, b}):
      for sl in (0.0, 0.25):
        if sl and b < 2:
          continue   # a leaky relu needs a sign bit and at least one magnitude bit
        specs.append((f"quantized_relu({b},{i},negative_slope={sl})", lambda b=b, i=i, sl=sl: Q.quantized_relu(b, i, negative_slope=sl)))
  for b in ([2, 3] if small else [2, 3, 4, 5, 8]):
    for mv in ((None, 0.5, 1.0, 2.0, 4.0) if small else (None, 0.5, 1.0, 2.0, 4.0, 3.0, 64.0)):
      specs.append((f"quantized_po2({b},max_value={mv})", lambda b=b, mv=mv: Q.quantized_po2(b, max_value=mv)))
  for b in ([1, 2] if small else [1, 2, 3, 4, 8]):
    for mv in ((None, 0.5, 1.0, 2.0) if small else (None, 0.5, 1.0, 2.0, 4.0, 3.0)):
      specs.append((f"quantized_relu_po2({b},max_value={mv})", lambda b=b, mv=mv: Q.quantized_relu_po2(b, max_value=mv)))
  specs += [("ternary()", lambda: Q.ternary()), ("stochastic_ternary()", lambda: Q.stochastic_ternary()),
            ("binary()", lambda: Q.binary()), ("binary(use_01=True)", lambda: Q.binary(use_01=True)),
            ("stochastic_binary()", lambda: Q.stochastic_binary()), ("bernoulli()", lambda: Q.bernoulli())]
  for b in ([2] if small else [2, 4, 8]):
    specs.append((f"quantized_tanh({b})", lambda b=b: Q.quantized_tanh(b)))
    specs.append((f"quantized_ulaw({b},1)", lambda b=b: Q.quantized_ulaw(b, 1)))
  specs.append(("fp32", lambda: "fp32"))
  return specs


def make_operands(tier, small=False):
  from qkeras.qtools.quantized_operators import quantizer_factory
  qf = quantizer_factory.QuantizerFactory()
  out = []
  for desc, thunk in operand_specs(tier, small):
    qk = thunk()
    out.append((desc, qk, qf.make_quantizer(qk)))
  return out

"""C01 -- fixed-point quantizers emit only representable codes of the declared format."""
import os
import sys

sys.path.insert(0, os.path.dirname(os.path.dirname(os.path.abspath(__file__))))
import vlib  # noqa: E402
from harness import env  # noqa: E402
import numpy as np  # noqa: E402
from fractions import Fraction  # noqa: E402
from checks import fixed_k  # noqa: E402

PROP = "C01"


def main():
  rep = vlib.Report(PROP, "proof")
  from translate import reportgen
  rgen = reportgen.emit(vlib.GEN)
  from translate import lingen
  lgen = lingen.emit(vlib.GEN)
  from translate import qbitsgen
  qgen = qbitsgen.emit(vlib.GEN)
  LK = os.path.join(vlib.COQ, "theories", "Link")
  from translate import relucallgen
  cgen = relucallgen.emit(vlib.GEN)
  info = vlib.build_obligations(PROP, gen_files=[rgen, lgen, qgen, cgen], extra_files=[os.path.join(LK, "ReportLink.v"), os.path.join(LK, "LinLink.v"), os.path.join(LK, "QBitsLink.v"), os.path.join(LK, "ReluCallLink.v")])
  errs = rep.obligations(info, "coqc -Q coq/theories QV coq/theories/Properties/C01.v (Print Assumptions under every theorem)")
  for e in errs:
    rep.violation("obligation-" + os.path.basename(e["file"]), "proof obligation no longer checks: " + e["error"][-400:],
                  {"file": e["file"]}, no_input=True)
  results = fixed_k.run(rep, PROP)
  # ---- directed: leaky slopes smaller than one code of the negative side (negative_slope * 2^(non-sign bits) < 1).  The generator above
  # keeps slope * 2^(non-sign bits) >= 1 (the model's smallest code -2^(nsb - s) is then an integer); below that the implementation
  # saturates at -slope * 2^integer, which is off the grid (known finding); every other output must still be on the grid and in range
  import qkeras.quantizers as Q_
  tf = env.tf
  n_small = 0
  for bits_, int_, s_ in ((2, 0, 2), (3, 1, 3), (3, 0, 3), (2, 1, 3), (4, 0, 4)):
    qs_ = Q_.quantized_relu(bits_, int_, 0, 2.0 ** -s_)
    step_ = 2.0 ** (int_ - (bits_ - 1))
    xs_ = np.concatenate([np.linspace(-40, 6, 369), [-1e6, -0.0, 0.0, 1e6]]).astype(np.float32)
    ys_ = qs_(tf.constant(xs_)).numpy().astype(np.float64)
    n_small += 1
    rep.count(("leaky-slope-below-one-step", bits_, int_, s_))
    off = [(float(a), float(b)) for a, b in zip(xs_, ys_) if (b / step_) != round(b / step_)]
    sat = -(2.0 ** -s_) * 2.0 ** int_
    other = [t for t in off if t[1] != sat]
    hi_ = 2.0 ** int_ - step_
    if other or np.max(ys_) > hi_ or np.min(ys_) < sat:
      rep.violation(f"leaky-small-slope-{bits_}-{int_}-{s_}", f"quantized_relu({bits_},{int_},negative_slope=2^-{s_}): outputs off the grid other than the negative "
                    f"saturation value, or out of [{sat}, {hi_}]: {other[:3]} min {np.min(ys_)} max {np.max(ys_)}", {"bits": bits_, "integer": int_, "slope_exp": s_})
    elif off:
      rep.finding("C01-leaky-relu-slope-below-one-step-saturates-off-grid",
                  f"quantized_relu({bits_},{int_},negative_slope=2^-{s_})({off[0][0]}) = {off[0][1]}, not a multiple of the step {step_}",
                  {"bits": bits_, "integer": int_, "slope_exp": s_, "x": off[0][0], "y": off[0][1]})
  rep.note(leaky_slope_below_one_step_configs=n_small)
  rep.cov["rule"] = ("configs: sampled (quick) / full (thorough) lattice of bits x integer x keep_negative x symmetric x alpha x "
                     "slope x clip flags x sigmoid modes; inputs per config: every rounding breakpoint (k+1/2)*step +-1ulp, "
                     "each code, saturation edges +-1ulp, +-0, denormals, +-2^-126, up to and beyond 2^24 steps, random tensors "
                     "of rank 0..4. A case is one (config, input element); distinct = distinct (config, input bits); "
                     "non-trivial = inside the property's hypothesis (|x| < 2^24 steps) and finite")
  reporter_items = []
  for r in results:
    c, q = r["cfg"], r["q"]
    coq = r.get("coq")
    if coq is None:
      continue
    for i, (xb, yb) in enumerate(zip(r["x"], r["y"])):
      rep.count((r["desc"], xb), nontrivial=True)
    rep.sample({"config": r["desc"], "x_bits": r["x"][:3], "y_bits": r["y"][:3]})
    # direct property evaluation on the implementation's outputs
    se, lo, hi = fixed_k.fmt_of(c)
    step = 2.0 ** se
    x = env.b2f(r["x"]).astype(np.float64)
    y = env.b2f(r["y"]).astype(np.float64)
    alpha = float(np.float32(c.get("alpha") or 1.0))
    hyp = np.isfinite(x) & (np.abs(x) < fixed_k.hyp_bound(c))
    yy = y[hyp]
    if coq["bad"]:
      # the correspondence broke: search the disagreeing inputs for one where the PROPERTY itself fails
      # (off the grid alpha*k*step, or outside [lo, hi]); otherwise report without a failing input
      k = y / (alpha * step) if c["fam"] in ("qbits", "qlin") else y / step
      tolk = 0.0 if (Fraction(alpha).numerator == 1 or Fraction(alpha).denominator == 1) else 2.0 ** -20 * np.maximum(np.abs(x) / step, 1.0)
      halfstep = 0.5 if (c["fam"] == "qlin" and c["bits"] == 1 and c["kn"] == 1) else 0.0
      prop_bad = hyp & ((np.abs((k - halfstep) - np.round(k - halfstep)) > tolk) | (k < lo - tolk - halfstep) | (k > hi + tolk + halfstep))
      cand = [bi for bi in coq["bad"] if bi < len(prop_bad) and prop_bad[bi]]
      bi = cand[0] if cand else coq["bad"][0]
      xb, yb = r["x"][bi], r["y"][bi]
      rep.violation(f"model-mismatch-{r['desc']}",
                    f"{r['desc']}: implementation output differs from the Coq model" +
                    (" and is not a representable code of the format" if cand else
                     " (the output is still a representable code: correspondence Quant/Fixed.v no longer checks)"),
                    {"config": c, "x_bits": xb, "x": float(env.b2f([xb])[0]), "y_bits": yb,
                     "y": float(env.b2f([yb])[0]), "n_bad": len(coq["bad"]), "correspondence": "Quant/Fixed.v chk_* vs quantizers.py"},
                    no_input=not cand)
    nd = len(set(yy.tolist()))
    bits = c["bits"]
    pow2_alpha = Fraction(alpha).numerator == 1 or Fraction(alpha).denominator == 1
    if pow2_alpha and nd > 2 ** bits:
      rep.violation(f"too-many-values-{r['desc']}", f"{r['desc']} produced {nd} > 2^{bits} distinct outputs", {"config": c})
    if c["fam"] in ("qbits", "qrelu", "qlin", "qtanh", "qsigmoid", "qrelu_sig") and hasattr(q, "max"):
      try:
        qmax = float(np.asarray(q.max()).reshape(-1)[0])
        qmin = float(np.asarray(q.min()).reshape(-1)[0])
      except Exception as e:  # pylint: disable=broad-except
        rep.violation(f"minmax-raises-{r['desc']}", f"{r['desc']}.max()/min() raised {type(e).__name__}: {e}", {"config": c})
        continue
      # non power-of-two alpha: the float32 sum x + (xq - x) carries up to 2^-22*|x| of rounding
      tol = 0.0 if pow2_alpha else 2.0 ** -22 * np.maximum(np.abs(x), max(abs(qmax), abs(qmin)))
      outside = hyp & ((y > qmax + tol) | (y < qmin - tol))
      if outside.any():
        idx = np.where(outside)[0][0]
        fid = "C01-minmax-ignores-constant-alpha" if (c["fam"] == "qbits" and alpha > 1.0) else f"minmax-enclose-{r['desc']}"
        rep.finding(fid, f"{r['desc']}: output {y[idx]} outside [min(),max()]=[{qmin},{qmax}]",
                    {"config": c, "x_bits": r["x"][idx], "y": float(y[idx]), "min": qmin, "max": qmax})
      if c["fam"] == "qbits":
        reporter_items.append((r["desc"], f"chk_rat_eq {env.d2b([qmax])[0]} (qb_max {fixed_k.coq_cfg(c)})"))
        reporter_items.append((r["desc"], f"chk_rat_eq {env.d2b([qmin])[0]} (qb_min {fixed_k.coq_cfg(c)})"))
        if c["sym"] == 0 and c["kn"] == 1 and c["alpha"] in (None, 1.0) and 2 <= bits <= 8:
          rg = np.asarray(q.range(), dtype=np.float64).reshape(-1)
          codes = rg / 2.0 ** se
          if not np.all(codes == np.round(codes)):
            rep.violation(f"range-offgrid-{r['desc']}", f"{r['desc']}.range() has off-grid entries", {"config": c})
          else:
            lst = vlib.zlist(int(v) for v in codes)
            reporter_items.append((r["desc"], f"(if list_eq_dec Z.eq_dec {lst} (qb_range_codes {bits}) then 0 else 1)"))
            # exactly the reachable set: every reported value is produced, every output is reported
            reach = set(yy.tolist())
            if not reach <= set(rg.tolist()):
              rep.violation(f"range-misses-{r['desc']}", f"{r['desc']}: outputs not listed by range()", {"config": c})
            if not set(rg.tolist()) <= reach:
              rep.violation(f"range-unreached-{r['desc']}", f"{r['desc']}: range() lists values never produced", {"config": c})
      if c["fam"] == "qlin" and 1 <= bits <= 8 and c.get("alpha") in (None, 1.0):     # as for quantized_bits: exact set equality needs scale 1
        # quantized_linear.range(): exactly the reachable set (codes from its clip bounds times the scale it used)
        try:
          rg = np.asarray(q.range(), dtype=np.float64).reshape(-1)
          reach = set(yy.tolist())
          rgs = set(rg.tolist())
          if len(rgs) != rg.size:
            rep.violation(f"qlin-range-duplicates-{r['desc']}", f"{r['desc']}.range() lists a value twice", {"config": c})
          if not reach <= rgs:
            miss = sorted(reach - rgs)[:3]
            rep.violation(f"qlin-range-misses-{r['desc']}", f"{r['desc']}: outputs {miss} are not listed by range()", {"config": c})
          if not rgs <= reach:
            extra = sorted(rgs - reach)[:3]
            rep.violation(f"qlin-range-unreached-{r['desc']}", f"{r['desc']}: range() lists {extra}, which no input produces", {"config": c})
        except Exception as e:  # pylint: disable=broad-except
          rep.violation(f"qlin-range-raises-{r['desc']}", f"{r['desc']}.range() raised {type(e).__name__}: {str(e)[:200]}", {"config": c})
      if c["fam"] == "qrelu" and c["slope"] is None and c["rub"] is None and 1 <= bits <= 8:
        rg = np.asarray(q.range(), dtype=np.float64).reshape(-1)
        exp = np.arange(2 ** bits) * 2.0 ** se
        if rg.shape != exp.shape or not np.all(rg == exp):
          rep.violation(f"relu-range-{r['desc']}", f"{r['desc']}.range() is not codes*step", {"config": c})
        reach = set(yy.tolist())
        if not (reach <= set(rg.tolist()) and set(rg.tolist()) <= reach):
          rep.violation(f"relu-range-reach-{r['desc']}", f"{r['desc']}: range() != reachable set", {"config": c})
  if reporter_items:
    text = fixed_k.HEADER + "Eval vm_compute in [" + ";\n ".join(t for _, t in reporter_items) + "].\n"
    out = vlib.coq_eval(PROP + "_reporters", text)
    bad = [reporter_items[i] for i, v in enumerate(out[0]) if v != 0]
    rep.note(reporters_compared_with_model=len(reporter_items))
    for d, t in bad[:3]:
      rep.violation(f"reporter-{d}", f"{d}: min()/max()/range() differs from the Coq model: {t[:120]}", {"term": t})
  rep.assumptions += [
      "float32 'real' sigmoid/tanh surrogates are oracles: outputs are checked against the grid/range predicate and a half-step (+2^-16 step) band around a float64 surrogate",
      "non power-of-two constant alpha: value compared within 2^-22 relative (two float32 roundings), not exactly",
      "hypothesis of the property: finite input with |x| < 2^24 steps; inputs outside are run but not judged",
  ]
  return rep.finish(vlib.TRUSTED_COMMON + ["translators tools/translate/{reportgen,lingen,qbitsgen,relucallgen}.py (Python ast interpreters, fail closed) regenerate coq/gen/{ReportGen,LinGen,QBitsGen,ReluCallGen}.v from qkeras/quantizers.py; Link/{ReportLink,LinLink,QBitsLink,ReluCallLink}.v prove them equal to the model; stochastic rounding, the sigmoid option and data-dependent scales are outside the translated paths",
                                          "model Quant/Fixed.v is hand-written; tie = exact comparison with the implementation on every generated case"])


if __name__ == "__main__":
  sys.exit(main())

"""C02 -- fixed-point quantization is the nearest-code projection (round, clip, monotone, idempotent)."""
import os
import sys

sys.path.insert(0, os.path.dirname(os.path.dirname(os.path.abspath(__file__))))
import vlib  # noqa: E402
from harness import env  # noqa: E402
import numpy as np  # noqa: E402
from fractions import Fraction  # noqa: E402
from checks import fixed_k  # noqa: E402

PROP = "C02"
tf = env.tf


def act64(c, x):
  """the underlying activation of the input (float64; exact for the linear / relu families)"""
  f = c["fam"]
  if f in ("qbits", "qlin"):
    return x
  if f == "qrelu":
    sl = 0.0 if c["slope"] is None else 2.0 ** -c["slope"]
    return np.where(x < 0, sl * x, x)
  return fixed_k.surrogate64(c, x)


def main():
  rep = vlib.Report(PROP, "proof")
  from translate import lingen
  lgen = lingen.emit(vlib.GEN)
  from translate import qbitsgen
  qgen = qbitsgen.emit(vlib.GEN)
  LK = os.path.join(vlib.COQ, "theories", "Link")
  info = vlib.build_obligations(PROP, gen_files=[lgen, qgen], extra_files=[os.path.join(LK, "LinLink.v"), os.path.join(LK, "QBitsLink.v")])
  errs = rep.obligations(info, "python3 tools/translate/lingen.py coq/gen && coqc coq/gen/LinGen.v && coqc coq/theories/Link/LinLink.v && coqc coq/theories/Properties/C02.v (Print Assumptions under every theorem)")
  for e in errs:
    rep.violation("obligation-" + os.path.basename(e["file"]), "proof obligation no longer checks: " + e["error"][-400:],
                  {"file": e["file"]}, no_input=True)
  results = fixed_k.run(rep, PROP)
  rep.cov["rule"] = ("same generator as C01 (breakpoints (k+1/2)*step +-1ulp, codes, edges, zeros/denormals, random tensors); "
                     "each case is judged (a) exactly against the Coq model, (b) nearest/saturation within half a step of the "
                     "activation, (c) monotone over the sorted inputs, (d) q(q(x)) == q(x) bitwise where the property claims it; "
                     "distinct = distinct (config, input bits)")
  n_mono = n_idem = n_near = 0
  for r in results:
    c, q = r["cfg"], r["q"]
    coq = r.get("coq")
    if coq is None:
      continue
    for xb in r["x"]:
      rep.count((r["desc"], xb))
    mismatch = list(coq["bad"])
    prop_fail_idx = set()
    rep.sample({"config": r["desc"], "x_bits": r["x"][:3], "y_bits": r["y"][:3]})
    se, lo, hi = fixed_k.fmt_of(c)
    step = 2.0 ** se
    x = env.b2f(r["x"]).astype(np.float64)
    y = env.b2f(r["y"]).astype(np.float64)
    alpha = float(np.float32(c.get("alpha") or 1.0))
    hyp = np.isfinite(x) & (np.abs(x) < fixed_k.hyp_bound(c)) & ((x == 0) | (np.abs(x) >= 2.0 ** -126))
    # (b) nearest / saturation, evaluated on the implementation's own outputs
    one_bit = c["fam"] in ("qbits", "qlin") and c["bits"] - c["kn"] == 0
    if not one_bit and not (c["fam"] == "qrelu" and c["rub"] is not None) and c["fam"] != "qrelu_sig":
      a = act64(c, x)
      if c["fam"] in ("qbits", "qlin"):
        a_eff, y_eff = (a / alpha, y / alpha) if c["fam"] == "qlin" else (a, y / alpha)
      else:
        a_eff, y_eff = a, y
      target = np.clip(a_eff, lo * step, hi * step)
      tol = (2.0 ** -16 * step) if c["fam"] in ("qtanh", "qsigmoid") else (
          0.0 if Fraction(alpha).numerator == 1 or Fraction(alpha).denominator == 1 else 2.0 ** -21 * np.maximum(np.abs(x), 1.0))
      err = np.abs(y_eff - target)
      bad = hyp & (err > step / 2 + tol)
      n_near += int(hyp.sum())
      prop_fail_idx |= set(np.where(bad)[0].tolist())
      if bad.any():
        i = int(np.where(bad)[0][0])
        rep.violation(f"not-nearest-{r['desc']}", f"{r['desc']}: |q(x) - clip(act(x))| = {err[i]} > step/2 = {step / 2}",
                      {"config": c, "x_bits": r["x"][i], "x": float(x[i]), "y": float(y[i])})
    if mismatch:
      # correspondence broke: prefer a disagreeing input on which the property itself fails (further than half a step)
      cand = [bi for bi in mismatch if bi in prop_fail_idx]
      bi = cand[0] if cand else mismatch[0]
      xb, yb = r["x"][bi], r["y"][bi]
      rep.violation(f"model-mismatch-{r['desc']}",
                    f"{r['desc']}: implementation output differs from the Coq nearest-code model" +
                    (" and is further than half a step from the activation" if cand else
                     " (still a nearest code, e.g. another tie direction: correspondence Quant/Fixed.v no longer checks)"),
                    {"config": c, "x_bits": xb, "x": float(env.b2f([xb])[0]), "y_bits": yb, "y": float(env.b2f([yb])[0]),
                     "n_bad": len(mismatch), "correspondence": "Quant/Fixed.v chk_* vs quantizers.py"}, no_input=not cand)
    # (c) monotone non-decreasing
    idx = np.where(hyp)[0]
    order = idx[np.argsort(x[idx], kind="stable")]
    ys = y[order]
    xo = np.abs(x[order])
    tolm = 0.0 if (Fraction(alpha).numerator == 1 or Fraction(alpha).denominator == 1) else (
        2.0 ** -21 * np.maximum(np.maximum(xo[1:], xo[:-1]), 1.0))
    dec = np.where(ys[1:] < ys[:-1] - tolm)[0]
    n_mono += len(order)
    if dec.size:
      i = int(dec[0])
      rep.violation(f"not-monotone-{r['desc']}", f"{r['desc']}: q({x[order][i]})={ys[i]} > q({x[order][i + 1]})={ys[i + 1]}",
                    {"config": c, "x_bits": [r["x"][order[i]], r["x"][order[i + 1]]]})
    # (d) idempotence where claimed: linear and plain-ReLU formats, data-independent scale
    claim = (c["fam"] in ("qbits", "qlin") and not one_bit) or (c["fam"] == "qrelu" and c["slope"] is None)
    if claim:
      yin = env.b2f(r["y"])[hyp]
      y2 = q(tf.constant(yin, dtype=tf.float32)).numpy()
      n_idem += int(yin.size)
      neq = np.where(env.f2b(y2) != np.asarray(env.f2b(yin)))[0] if yin.size else np.array([])
      # bitwise, except +-0
      neq = [i for i in neq if not (y2[i] == 0.0 and yin[i] == 0.0)]
      if neq:
        i = neq[0]
        pow2 = Fraction(alpha).numerator == 1 or Fraction(alpha).denominator == 1
        if c["fam"] == "qbits" and alpha != 1.0:
          fid = "C02-qbits-constant-alpha-not-idempotent"
        elif not pow2:
          fid = None  # float rounding of a non power-of-two scale: compared with tolerance below
        else:
          fid = f"not-idempotent-{r['desc']}"
        if fid is None:
          xin = np.abs(x[hyp])
          far = [j for j in neq if abs(float(y2[j]) - float(yin[j])) > 2.0 ** -21 * max(float(xin[j]), abs(float(yin[j])), 1.0)]
          if far:
            i = far[0]
            rep.violation(f"not-idempotent-{r['desc']}", f"{r['desc']}: q(q(x)) != q(x) beyond float rounding",
                          {"config": c, "y": float(yin[i]), "qy": float(y2[i])})
        else:
          rep.finding(fid, f"{r['desc']}: q({float(yin[i])}) = {float(y2[i])}, not a fixed point",
                      {"config": c, "y_bits": int(env.f2b([yin[i]])[0]), "qy": float(y2[i])})
  rep.note(nearest_checked=n_near, monotone_checked=n_mono, idempotence_checked=n_idem)
  rep.assumptions += [
      "sigmoid/tanh 'real' surrogates are float32 oracles: half-step bound checked with 2^-16 step slack against float64",
      "1-bit formats are sign functions (property C04) and are excluded from the half-step claim",
      "denormal inputs are zeros to TensorFlow (DAZ) and are excluded from the sign-sensitive monotonicity check",
  ]
  return rep.finish(vlib.TRUSTED_COMMON + ["translators tools/translate/{lingen,qbitsgen}.py (Python ast interpreters, fail closed) regenerate coq/gen/{LinGen,QBitsGen}.v from qkeras/quantizers.py; Link/{LinLink,QBitsLink}.v prove them equal to the model on the deterministic, data-independent paths",
                                          "model Quant/Fixed.v is hand-written; tie = exact comparison with the implementation on every generated case"])


if __name__ == "__main__":
  sys.exit(main())

"""C08 -- stochastic rounding: adjacent code, unbiased in training, exact at inference."""
import itertools
import os
import sys

sys.path.insert(0, os.path.dirname(os.path.dirname(os.path.abspath(__file__))))
import vlib  # noqa: E402
from harness import env  # noqa: E402
import numpy as np  # noqa: E402
from checks import fixed_k  # noqa: E402

PROP = "C08"
tf = env.tf
HEADER = ("From Coq Require Import ZArith List Bool.\n"
          "From QV Require Import Base.ZQ Base.FL Quant.Fixed Quant.Po2 Quant.Stoch Quant.StochPo2.\n"
          "Open Scope Z_scope. Import ListNotations.\n")


def mk(c, stoch=True):
  import qkeras.quantizers as Q
  f = c["fam"]
  if f == "qbits":
    return Q.quantized_bits(c["bits"], c["integer"], c["sym"], keep_negative=bool(c["kn"]), use_stochastic_rounding=stoch)
  if f == "qlin":
    return Q.quantized_linear(c["bits"], c["integer"], c["sym"], keep_negative=bool(c["kn"]), use_stochastic_rounding=stoch)
  if f == "qrelu":
    return Q.quantized_relu(c["bits"], c["integer"], negative_slope=(0.0 if c.get("slope") is None else 2.0 ** -c["slope"]),
                            use_stochastic_rounding=stoch)
  if f == "qtanh":
    Q.set_internal_sigmoid("hard")
    return Q.quantized_tanh(c["bits"], use_stochastic_rounding=stoch, symmetric=bool(c["sym"]))
  if f == "qsigmoid":
    Q.set_internal_sigmoid("hard")
    return Q.quantized_sigmoid(c["bits"], symmetric=bool(c["sym"]), use_stochastic_rounding=stoch)
  if f == "po2":
    return Q.quantized_po2(c["bits"], max_value=c["mv"], use_stochastic_rounding=stoch, quadratic_approximation=bool(c.get("quad")))
  raise ValueError(f)


def desc(c):
  return ", ".join(f"{k}={v}" for k, v in c.items())


def configs(tier, rng):
  allc = []
  for bits, integer, kn, sym in itertools.product([2, 3, 4, 6, 8], [0, 1, 2], [1, 0], [0, 1]):
    allc.append(dict(fam="qbits", bits=bits, integer=integer, kn=kn, sym=sym, alpha=None))
    allc.append(dict(fam="qlin", bits=bits, integer=integer, kn=kn, sym=sym, alpha=None))
  for bits, integer in itertools.product([2, 3, 4, 6, 8], [0, 1, 2]):
    allc.append(dict(fam="qrelu", bits=bits, integer=integer, slope=None, iqc=True, rub=None))
    for sl in (1, 2):
      if sl <= bits - 1 and bits >= 3:
        allc.append(dict(fam="qrelu", bits=bits, integer=integer, slope=sl, iqc=True, rub=None))   # leaky: negative side rounds p * slope
  for bits, sym in itertools.product([2, 3, 4, 6], [0, 1]):
    allc.append(dict(fam="qtanh", bits=bits, sym=sym, mode="hard"))
    allc.append(dict(fam="qsigmoid", bits=bits, sym=sym, mode="hard"))
  for bits, mv in itertools.product([3, 4, 5, 6], [None, 2.0, 8.0]):
    allc.append(dict(fam="po2", bits=bits, mv=mv))
    allc.append(dict(fam="po2", bits=bits, mv=mv, quad=True))     # exponent of sqrt(x) rounded, then doubled: codes 4^k
  if tier == "thorough":
    return allc
  leaky = [i for i, c in enumerate(allc) if c["fam"] == "qrelu" and c.get("slope") is not None]
  quad = [i for i, c in enumerate(allc) if c.get("quad")]
  rest = [i for i in range(len(allc)) if i not in leaky and i not in quad]
  idx = list(rng.choice(rest, size=44, replace=False)) + list(rng.choice(leaky, size=8, replace=False)) + list(rng.choice(quad, size=4, replace=False))
  return [allc[i] for i in sorted(idx)]


def inputs(c, rng):
  if c["fam"] == "po2":
    return np.asarray(list(np.exp(rng.uniform(-5, 4, size=30)) * rng.choice([-1, 1], size=30)) + [1.0, 2.0, -0.5, 3.0, 0.0, 1e-9] +
                      ([4.0, -0.25, 1.0 / 64, 13.3, 100.0, 1.0 / 300] if c.get("quad") else []), dtype=np.float32)
  se, lo, hi = fixed_k.fmt_of(c)
  step = 2.0 ** se
  scale = 1.0 if c["fam"] not in ("qtanh", "qsigmoid") else 1.0
  xs = [np.float32(k * step) for k in sorted(set([lo, lo + 1, -1, 0, 1, hi - 1, hi, hi + 1, lo - 1]))]
  xs += list(rng.uniform((lo - 1.5) * step, (hi + 1.5) * step, size=28))
  xs += list(rng.normal(0, 0.3 * step, size=6))
  return np.asarray(xs, dtype=np.float32)


def code_of(c, x):
  """the real-valued pre-rounding code p of input x (float64), for choosing draws around frac"""
  f = c["fam"]
  se, lo, hi = fixed_k.fmt_of(c)
  if f == "qrelu" and c.get("slope") is not None:
    xx = x.astype(np.float64)
    return np.where(xx < 0, xx * 2.0 ** -c["slope"], xx) / 2.0 ** se
  if f in ("qbits", "qlin", "qrelu"):
    return x.astype(np.float64) / 2.0 ** se
  if f == "qtanh":
    return np.clip(x.astype(np.float64), -1, 1) / 2.0 ** se
  return np.clip(0.5 * x.astype(np.float64) + 0.5, 0, 1) / 2.0 ** se


def main():
  rep = vlib.Report(PROP, "proof")
  from translate import stochgen
  sgen = stochgen.emit(vlib.GEN)
  info = vlib.build_obligations(PROP, gen_files=[sgen], extra_files=[os.path.join(vlib.COQ, "theories", "Link", "StochLink.v")])
  errs = rep.obligations(info, "python3 tools/translate/stochgen.py coq/gen && coqc coq/gen/StochGen.v && coqc coq/theories/Link/StochLink.v && coqc coq/theories/Properties/C08.v")
  for e in errs:
    rep.violation("obligation-" + os.path.basename(e["file"]), "proof obligation no longer checks: " + e["error"][-400:],
                  {"file": e["file"]}, no_input=True)
  import qkeras.quantizers as Q
  # environment finding: the public stochastic path needs K.learning_phase
  if not env.HAS_NATIVE_LEARNING_PHASE:
    try:
      Q.quantized_bits(4, 0, 1, use_stochastic_rounding=True)(tf.constant([0.3]))
      rep.note(native_learning_phase="call succeeded without the stub")
    except AttributeError as e:
      rep.finding("C08-learning-phase-missing-under-keras3", f"quantized_bits(use_stochastic_rounding=True)(x) raises {e}", {})
  env.install_learning_phase()
  env.install_uniform()
  rng = np.random.default_rng(vlib.SEED)
  cfgs = configs(rep.tier, rng)
  rep.cov["rule"] = ("stochastic quantizers (quantized_bits/linear/relu/tanh/sigmoid/po2) x inputs (codes, in/out-of-range uniform, near zero) "
                     "x injected draws u (0, frac-ulp, frac, frac+ulp, 1/2, 1-2^-24, random) with learning phase 1; the same inputs with "
                     "phase 0 against the deterministic configuration; stochastic_binary/ternary and binary(use_stochastic_rounding) at "
                     "phase 0 against binary/ternary; plus 4096 genuine random draws per sampled point (statistical, labelled as a test). "
                     "distinct = distinct (config, input bits, draw bits)")
  texts, items = [], []
  n_inf = 0
  for c in cfgs:
    x = inputs(c, rng)
    xt = tf.constant(x)
    q = mk(c, True)
    qd = mk(c, False)
    # phase 0: deterministic and identical to the round-to-nearest configuration
    env.set_phase(0)
    env.set_uniform(None)
    y0a = q(xt).numpy()
    y0b = q(xt).numpy()
    yd = qd(xt).numpy()
    n_inf += x.size
    if env.f2b(y0a) != env.f2b(yd) or env.f2b(y0a) != env.f2b(y0b):
      i = int(np.where(np.asarray(env.f2b(y0a)) != np.asarray(env.f2b(yd)))[0][0]) if env.f2b(y0a) != env.f2b(yd) else 0
      rep.violation(f"inference-differs-{desc(c)}", f"{desc(c)}: phase 0 output {y0a[i]} != deterministic {yd[i]} at x={x[i]}",
                    {"config": c, "x_bits": env.f2b([x[i]])[0]})
    # phase 1 with injected draws
    env.set_phase(1)
    if c["fam"] == "po2":
      draws = [np.full(x.shape, v, dtype=np.float32) for v in (0.0, 0.25, 0.5, 0.75, float(np.float32(1 - 2.0 ** -24)))]
      draws.append(rng.uniform(0, 1, size=x.shape).astype(np.float32))
    else:
      p = code_of(c, x)
      frac = (p - np.floor(p)).astype(np.float32)
      draws = [np.zeros_like(frac), np.nextafter(frac, np.float32(-1)), frac, np.nextafter(frac, np.float32(2)),
               np.full_like(frac, 0.5), np.full_like(frac, np.float32(1 - 2.0 ** -24)), rng.uniform(0, 1, size=x.shape).astype(np.float32)]
      draws = [np.clip(d, 0, np.float32(1 - 2.0 ** -24)).astype(np.float32) for d in draws]
    for u in draws:
      env.set_uniform(u)
      y = q(xt).numpy()
      xb, ub, yb = env.f2b(x), env.f2b(u), env.f2b(y)
      for a, b_ in zip(xb, ub):
        rep.count((desc(c), a, b_))
      trip = "; ".join(f"({a},{b_},{d})" for a, b_, d in zip(xb, ub, yb))
      if c["fam"] == "qbits":
        fn = f"chk_qbits_stoch {fixed_k.coq_cfg(c)}"
      elif c["fam"] == "qlin":
        fn = f"chk_qlin_stoch {fixed_k.coq_cfg(c)}"
      elif c["fam"] == "qrelu":
        fn = f"chk_qrelu_stoch {fixed_k.coq_cfg(c)}"
      elif c["fam"] == "po2":
        from fractions import Fraction
        mv = "None" if c["mv"] is None else f"(Some {vlib.ratlit(Fraction(c['mv']))})"
        fn = f"{'chk_po2_stoch_quad' if c.get('quad') else 'chk_po2_stoch'} (P2 {c['bits']} {mv} LRnd)"
      else:
        fn = None
      if fn:
        texts.append(f"Eval vm_compute in map (fun t => match t with (a, b, d) => {fn} a b d end) [{trip}].\n")
        items.append((c, x, u, y))
      # property predicates evaluated directly on the implementation's outputs
      if c["fam"] != "po2":
        se, lo, hi = fixed_k.fmt_of(c)
        pp = code_of(c, x)
        code = y.astype(np.float64) / 2.0 ** se
        lo_c = np.clip(np.floor(pp), lo, hi)
        hi_c = np.clip(np.ceil(pp), lo, hi)
        # hard sigmoid/tanh surrogates carry one float32 rounding: allow the neighbouring integer at exact integers of p
        slack = 1e-6 if c["fam"] in ("qtanh", "qsigmoid") else 0.0
        bad = ~(((code == lo_c) | (code == hi_c)) | ((np.abs(pp - np.round(pp)) <= slack) & (np.abs(code - np.round(pp)) <= 1)))
        if bad.any():
          i = int(np.where(bad)[0][0])
          rep.violation(f"not-adjacent-{desc(c)}", f"{desc(c)}: x={x[i]} (code {pp[i]}) with draw {u[i]} gave code {code[i]}, "
                        f"not one of the adjacent codes {lo_c[i]}, {hi_c[i]}", {"config": c, "x_bits": xb[i], "u_bits": ub[i], "y_bits": yb[i]})
        is_code = (pp == np.round(pp)) & (pp >= lo) & (pp <= hi)
        moved = is_code & (code != pp)
        if moved.any():
          i = int(np.where(moved)[0][0])
          rep.violation(f"code-not-fixed-{desc(c)}", f"{desc(c)}: input {x[i]} is already a code but came back as {y[i]}",
                        {"config": c, "x_bits": xb[i], "u_bits": ub[i]})
    env.set_uniform(None)
  SH = 80
  shards = [(f"{PROP}_k_{s // SH:03d}", HEADER + "".join(texts[s:s + SH])) for s in range(0, len(texts), SH)]
  outs = vlib.coq_eval_many(shards)
  n_ok = n_skip = 0
  for s in range(0, len(texts), SH):
    for (c, x, u, y), codes in zip(items[s:s + SH], outs[f"{PROP}_k_{s // SH:03d}"]):
      n_ok += sum(1 for k in codes if k == 0)
      n_skip += sum(1 for k in codes if k in (2, 3, 4, 5))
      bad = [i for i, k in enumerate(codes) if k == 1]
      if bad:
        i = bad[0]
        rep.violation(f"model-mismatch-{desc(c)}", f"{desc(c)}: x={x[i]}, draw u={u[i]}: output {y[i]} differs from the threshold model "
                      "(floor if frac < u else ceil)", {"config": c, "x_bits": env.f2b([x[i]])[0], "u_bits": env.f2b([u[i]])[0],
                                                       "y_bits": env.f2b([y[i]])[0]})
  rep.note(training_phase=dict(configs=len(cfgs), model_agree=n_ok, not_judged=n_skip), inference_phase_elements=n_inf)
  rep.sample({"config": desc(cfgs[0]), "draws": "0, frac-ulp, frac, frac+ulp, 1/2, 1-2^-24, random"})

  # stochastic_binary / stochastic_ternary / binary(use_stochastic_rounding) at inference
  env.set_phase(0)
  n_bt = 0
  for alpha in (None, 1.0, 2.0, "auto", "auto_po2"):
    for shape in ((7,), (4, 3), (2, 3, 4), (64, 4)):
      xx = rng.normal(0, 1, size=shape).astype(np.float32)
      xx.flat[0] = 0.0
      xt = tf.constant(xx)
      pairs = [("stochastic_binary", Q.stochastic_binary(alpha=alpha), Q.binary(alpha=alpha)),
               ("binary(use_stochastic_rounding)", Q.binary(alpha=alpha, use_stochastic_rounding=True), Q.binary(alpha=alpha))]
      if alpha is None or isinstance(alpha, str):
        pairs.append(("stochastic_ternary", Q.stochastic_ternary(alpha=alpha), Q.ternary(alpha=alpha)))
        # every option the deterministic counterpart shares must reach it: the number of scale / threshold iterations, the temperature-free inference path
        for nu in (1, 2, 3, 7):
          pairs.append((f"stochastic_ternary(number_of_unrolls={nu})", Q.stochastic_ternary(alpha=alpha, number_of_unrolls=nu), Q.ternary(alpha=alpha, number_of_unrolls=nu)))
      else:
        pairs.append(("stochastic_ternary", Q.stochastic_ternary(alpha=alpha, threshold=0.4), Q.ternary(alpha=alpha, threshold=0.4)))
      for name, qs, qd in pairs:
        try:
          a = qs(xt).numpy()
          b = qd(xt).numpy()
        except Exception as e:  # pylint: disable=broad-except
          rep.violation(f"inference-raises-{name}-{alpha}", f"{name}(alpha={alpha}) raised {type(e).__name__}: {e}", {"alpha": alpha})
          continue
        n_bt += xx.size
        rep.count((name, alpha, shape, tuple(env.f2b(xx))))
        if env.f2b(a) != env.f2b(b):
          i = int(np.where(np.asarray(env.f2b(a)) != np.asarray(env.f2b(b)))[0][0])
          rep.violation(f"inference-{name}-{alpha}", f"{name}(alpha={alpha}) at inference gives {a.flat[i]} but the deterministic "
                        f"counterpart gives {b.flat[i]} for x={xx.flat[i]}", {"alpha": alpha, "shape": shape, "x_bits": env.f2b(xx)})
  rep.note(binary_ternary_inference_elements=n_bt)

  # statistical test with genuine randomness (a test, not a proof)
  env.set_phase(1)
  env.set_uniform(None)
  stats = []
  for c in cfgs[:6]:
    if c["fam"] not in ("qbits", "qlin", "qrelu"):
      continue
    se, lo, hi = fixed_k.fmt_of(c)
    step = 2.0 ** se
    k = (lo + hi) // 2
    xv = np.float32((k + 0.3) * step)
    q = mk(c, True)
    y = q(tf.constant(np.full((4096,), xv, dtype=np.float32))).numpy().astype(np.float64)
    vals = set(y.tolist())
    if not vals <= {k * step, (k + 1) * step}:
      rep.violation(f"random-draw-not-adjacent-{desc(c)}", f"{desc(c)}: random draws for x={xv} gave values {sorted(vals)[:5]}", {"config": c})
    mean = y.mean()
    sigma = step * np.sqrt(0.3 * 0.7 / 4096)
    stats.append({"config": desc(c), "x": float(xv), "mean": float(mean), "expected": float(xv), "sigma": float(sigma)})
    if abs(mean - float(xv)) > 5 * sigma:
      rep.violation(f"random-draw-biased-{desc(c)}", f"{desc(c)}: mean of 4096 draws {mean} is more than 5 sigma from the input {xv}", {"config": c})
  rep.note(statistical_test=stats)
  env.set_phase(0)
  rep.assumptions += ["K.learning_phase / K.set_learning_phase are harness stubs (absent in Keras 3); tf.random.uniform is replaced by a "
                      "function returning the injected draws (restored for the statistical test)",
                      "the only probabilistic assumption behind 'expectation equals the input' is that P(u <= t) = t for u uniform on [0,1); "
                      "the theorems give the threshold characterisation and the mean identity",
                      "hard sigmoid/tanh surrogates are float32 computations: adjacency is judged against the float64 surrogate with the "
                      "neighbouring integer allowed at exact integers"]
  return rep.finish(vlib.TRUSTED_COMMON + ["translator tools/translate/stochgen.py regenerates coq/gen/StochGen.v (stochastic_round with the draw as a parameter); Link/StochLink.v proves it equal to Quant/Stoch.v; stochastic_round_po2 and its quadratic variant are tied by correspondence (Quant/StochPo2.v) only",
                                          "model Quant/Stoch.v is hand-written; tie = exact comparison with the implementation under injected draws"])


if __name__ == "__main__":
  sys.exit(main())

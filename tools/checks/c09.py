"""C09 -- quantizer configuration round-trip reproduces the same quantization function."""
import itertools
import os
import sys

sys.path.insert(0, os.path.dirname(os.path.dirname(os.path.abspath(__file__))))
import vlib  # noqa: E402
from harness import env  # noqa: E402
import numpy as np  # noqa: E402
from translate import qmeta  # noqa: E402

PROP = "C09"
tf = env.tf

# option lattice per class: parameter -> list of values (first = default)
LATTICE = {
    "quantized_linear": dict(bits=[8, 4], integer=[0, 2], symmetric=[1, 0], keep_negative=[True, False],
                             alpha=[None, "auto", "auto_po2"], scale_axis=[None, 0], qnoise_factor=[1.0, 0.5]),
    "quantized_bits": dict(bits=[8, 4], integer=[0, 1], symmetric=[0, 1], keep_negative=[True, False],
                           alpha=[None, 2.0, "auto", "auto_po2"], scale_axis=[None, 0], qnoise_factor=[1.0, 0.5],
                           elements_per_scale=[None, 2], min_po2_exponent=[None, -1], max_po2_exponent=[None, 0],
                           post_training_scale=[None, "arr", "col", "row"]),
    "bernoulli": dict(alpha=[None, 2.0], temperature=[6.0, 1.0], use_real_sigmoid=[True, False]),
    "ternary": dict(alpha=[None, 2.0, "auto"], threshold=[None, 0.7], number_of_unrolls=[5, 1]),
    "stochastic_ternary": dict(alpha=[None, "auto", "auto_po2"], temperature=[8.0, 2.0], use_real_sigmoid=[True, False],
                               number_of_unrolls=[5, 1]),
    "binary": dict(use_01=[False, True], alpha=[None, 2.0, "auto", "auto_po2"], scale_axis=[None, 0],
                   elements_per_scale=[None, 2], min_po2_exponent=[None, -1], max_po2_exponent=[None, 0]),
    "stochastic_binary": dict(alpha=[None, 2.0, "auto_po2"], temperature=[6.0, 1.0], use_real_sigmoid=[True, False]),
    "quantized_relu": dict(bits=[8, 4], integer=[0, 2], use_sigmoid=[0, 1], negative_slope=[0.0, 0.25],
                           relu_upper_bound=[None, 1.5], is_quantized_clip=[True, False], qnoise_factor=[1.0, 0.5]),
    "quantized_ulaw": dict(bits=[8, 4], integer=[0, 1], symmetric=[0, 1], u=[255.0, 100.0]),
    "quantized_tanh": dict(bits=[8, 4], symmetric=[False, True], use_real_tanh=[False, True]),
    "quantized_sigmoid": dict(bits=[8, 4], symmetric=[False, True], use_real_sigmoid=[False, True]),
    "quantized_po2": dict(bits=[8, 4], max_value=[None, 2.0, 0.5], quadratic_approximation=[False, True],
                          log2_rounding=["rnd", "floor"], qnoise_factor=[1.0, 0.5]),
    "quantized_relu_po2": dict(bits=[8, 4], max_value=[None, 2.0], negative_slope=[0, 0.25], quadratic_approximation=[False, True],
                               log2_rounding=["rnd", "floor"], qnoise_factor=[1.0, 0.5]),
    "quantized_hswish": dict(bits=[8, 6], integer=[0, 2], symmetric=[0, 1], alpha=[None, 2.0, "auto", "auto_po2"], scale_axis=[None, 0],
                             qnoise_factor=[1.0, 0.5], relu_shift=[3, 2], relu_upper_bound=[6, 4]),
}


def valid(cls, kw):
  a = kw.get("alpha")
  if cls == "quantized_bits":
    if a != "auto_po2" and any(kw.get(k) is not None for k in ("elements_per_scale", "min_po2_exponent", "max_po2_exponent")):
      return False
    if kw.get("post_training_scale") is not None and not isinstance(a, str):
      return False
    if isinstance(a, str) and not kw.get("keep_negative", True):
      return False
    if kw.get("elements_per_scale") is not None and kw.get("scale_axis") is None:
      return False
  if cls == "binary":
    if kw.get("elements_per_scale") is not None and kw.get("scale_axis") is None:
      return False
    if a != "auto_po2" and any(kw.get(k) is not None for k in ("min_po2_exponent", "max_po2_exponent")):
      return False
    if not isinstance(a, str) and (kw.get("elements_per_scale") is not None):
      return False
  if cls == "ternary" and isinstance(a, str) and kw.get("threshold") is not None:
    return False
  if cls == "quantized_relu" and kw.get("use_sigmoid") and kw.get("negative_slope"):
    return False
  if cls == "quantized_linear" and isinstance(a, str) and kw.get("bits") == 8 and False:
    return False
  return True


def instances(cls, tier, rng):
  lat = LATTICE[cls]
  names = list(lat)
  allk = []
  for combo in itertools.product(*[lat[n] for n in names]):
    kw = {n: v for n, v in zip(names, combo) if v != lat[n][0] or True}
    kw = {n: v for n, v in kw.items()}
    if valid(cls, kw):
      allk.append(kw)
  if tier == "thorough" or len(allk) <= 40:
    return allk
  # quick: every single-parameter deviation from the defaults + random combinations
  base = {n: lat[n][0] for n in names}
  sel = [dict(base)]
  for n in names:
    for v in lat[n][1:]:
      kw = dict(base)
      kw[n] = v
      if n in ("elements_per_scale", "min_po2_exponent", "max_po2_exponent"):
        kw["alpha"] = "auto_po2"
        kw["scale_axis"] = 0 if n == "elements_per_scale" else kw.get("scale_axis")
      if n == "post_training_scale":
        kw["alpha"] = "auto_po2"
      if valid(cls, kw):
        sel.append(kw)
      if n == "scale_axis":
        # the axis only matters for a data-dependent scale: the same deviation with every automatic alpha of the class
        for a_ in lat.get("alpha", []):
          if isinstance(a_, str):
            kw2 = dict(kw)
            kw2["alpha"] = a_
            if valid(cls, kw2):
              sel.append(kw2)
  idx = rng.choice(len(allk), size=min(25, len(allk)), replace=False)
  sel += [allk[i] for i in idx]
  return sel


def materialize(kw):
  out = dict(kw)
  if out.get("post_training_scale") == "arr":
    out["post_training_scale"] = np.array([0.5], dtype=np.float32)
  elif out.get("post_training_scale") == "col":       # one frozen scale per ROW of the (4, 6) probes: the SHAPE is part of the option
    out["post_training_scale"] = np.array([[4.0], [1.0], [0.25], [0.0625]], dtype=np.float32)
  elif out.get("post_training_scale") == "row":
    out["post_training_scale"] = np.array([[4.0, 1.0, 0.25, 0.0625, 2.0, 0.5]], dtype=np.float32)
  return out


def main():
  rep = vlib.Report(PROP, "proof")
  gen = qmeta.emit(vlib.GEN)
  info = vlib.build_obligations(PROP, gen_files=[gen])
  errs = rep.obligations(info, "python3 tools/translate/qmeta.py coq/gen && coqc coq/gen/QMeta.v && coqc coq/theories/Properties/C09.v")
  for e in errs:
    rep.violation("obligation-" + os.path.basename(e["file"]), "proof obligation no longer checks: " + e["error"][-600:],
                  {"file": e["file"]}, no_input=True)
  import qkeras.quantizers as Q
  from qkeras import quantizer_registry
  rng = np.random.default_rng(vlib.SEED)
  env.install_learning_phase()
  env.set_phase(0)
  rep.cov["rule"] = ("all 14 registered quantizer classes x option lattice (quick: defaults, every single-option deviation, 25 random "
                     "combinations; thorough: full cross product of the valid combinations) x 3 probe tensors; routes: "
                     "cls.from_config(q.get_config()), keras serialize/deserialize, get_quantizer(serialized dict); outputs and .scale "
                     "compared bitwise. distinct = distinct (class, option assignment)")
  # registry: every registered name resolves to the class of that name
  for name in LATTICE:
    try:
      cls = quantizer_registry.lookup_quantizer(name)
      if cls.__name__ != name:
        rep.violation(f"registry-{name}", f"registry name {name} resolves to {cls.__name__}", {"name": name})
    except Exception as e:  # pylint: disable=broad-except
      rep.violation(f"registry-{name}", f"lookup_quantizer({name}) raised {type(e).__name__}: {e}", {"name": name})
  probes = [tf.constant(rng.normal(0, 1, size=(4, 6)).astype(np.float32)),
            tf.constant(np.linspace(-3, 3, 24, dtype=np.float32).reshape(4, 6)),
            tf.constant((rng.normal(0, 1, size=(4, 6)) * 2.0 ** rng.integers(-4, 4, size=(4, 6))).astype(np.float32))]
  n_inst = n_routes = 0
  stochastic = ("bernoulli", "stochastic_binary", "stochastic_ternary")
  for cls_name in LATTICE:
    cls = getattr(Q, cls_name)
    for kw in instances(cls_name, rep.tier, rng):
      n_inst += 1
      rep.count((cls_name, tuple(sorted((k, str(v)) for k, v in kw.items()))))
      desc = f"{cls_name}({', '.join(f'{k}={v}' for k, v in kw.items() if v != LATTICE[cls_name][k][0])})"
      try:
        q = cls(**materialize(kw))
        ref = None
        if cls_name != "bernoulli":
          ref = []
          for p in probes:
            yy = q(p).numpy()
            sc = getattr(q, "scale", None)
            ref.append((yy, None if sc is None else np.array(sc, dtype=np.float32)))
      except Exception as e:  # pylint: disable=broad-except
        rep.violation(f"construct-{desc}", f"{desc} could not be built/called: {type(e).__name__}: {e}", {"class": cls_name, "kwargs": str(kw)})
        continue
      nondefault_gap = [k for k in ("scale_axis", "elements_per_scale", "min_po2_exponent", "max_po2_exponent", "temperature",
                                    "use_real_sigmoid", "is_quantized_clip")
                        if k in kw and kw[k] != LATTICE[cls_name][k][0] and k not in q.get_config()]
      routes = [("from_config", lambda: cls.from_config(q.get_config())),
                ("serialize_deserialize", lambda: tf.keras.utils.deserialize_keras_object(
                    tf.keras.utils.serialize_keras_object(q), custom_objects={cls_name: cls})),
                ("get_quantizer_dict", lambda: Q.get_quantizer({"class_name": cls_name, "config": q.get_config()}))]
      for rname, thunk in routes:
        n_routes += 1
        try:
          q2 = thunk()
        except Exception as e:  # pylint: disable=broad-except
          if rname == "get_quantizer_dict" and "Could not locate class" in str(e):
            rep.finding("C09-get-quantizer-dict-cannot-locate-class-under-keras3", f"get_quantizer(dict) for {cls_name}: {type(e).__name__}", {"class": cls_name})
          elif cls_name == "quantized_hswish" and "unexpected keyword argument" in str(e):
            rep.finding("C09-hswish-config-has-keys-its-constructor-rejects", f"{desc} via {rname}: {type(e).__name__}: {e}", {"class": cls_name, "route": rname})
          else:
            rep.violation(f"{rname}-raises-{desc}", f"{desc} via {rname} raised {type(e).__name__}: {str(e)[:300]}", {"class": cls_name, "kwargs": str(kw)})
          continue
        if cls_name == "bernoulli" or (cls_name in stochastic and False):
          # random output: compare the attributes that determine the distribution
          same = all(getattr(q2, a, None) == getattr(q, a, None) for a in ("alpha", "temperature", "use_real_sigmoid"))
          outs_equal = same
        else:
          outs_equal = True
          for p, (r, s1) in zip(probes, ref):
            try:
              y2 = q2(p).numpy()
            except Exception as e:  # pylint: disable=broad-except
              rep.violation(f"rebuilt-raises-{desc}-{rname}", f"{desc} via {rname}: the rebuilt quantizer raises {type(e).__name__}: {str(e)[:200]} on an input "
                            f"the original accepts (config {q.get_config()})", {"class": cls_name, "kwargs": str(kw), "route": rname})
              outs_equal = None
              break
            if env.f2b(y2) != env.f2b(r):
              outs_equal = False
              break
            s2 = getattr(q2, "scale", None)
            if s1 is not None and s2 is not None:
              if env.f2b(s1) != env.f2b(np.asarray(s2, dtype=np.float32)):
                outs_equal = False
                break
        if outs_equal is False:
          if nondefault_gap:
            for g in nondefault_gap:
              rep.finding(f"C09-get-config-omits-{cls_name}-{g}", f"{desc} via {rname}: rebuilt quantizer differs ({g} is not in get_config)",
                          {"class": cls_name, "kwargs": str(kw), "route": rname})
          else:
            rep.violation(f"roundtrip-differs-{desc}-{rname}", f"{desc} via {rname}: rebuilt quantizer computes a different function",
                          {"class": cls_name, "kwargs": str(kw), "route": rname})
  rep.note(instances=n_inst, route_runs=n_routes)
  rep.sample({"class": "quantized_bits", "kwargs": str(instances("quantized_bits", "quick", rng)[3])})
  rep.assumptions += ["stochastic quantizers are compared at learning phase 0 (harness stub); bernoulli (always random) by its attributes",
                      "which constructor parameters change the function: all except var_name, use_variables, use_ste (Config/QConfig.v non_semantic)",
                      "translator tools/translate/qmeta.py (Python ast) is trusted to extract parameters/keys; it fails closed on unknown shapes"]
  return rep.finish(vlib.TRUSTED_COMMON + ["class table regenerated from /repo on every run by tools/translate/qmeta.py (fail-closed)"])


if __name__ == "__main__":
  sys.exit(main())

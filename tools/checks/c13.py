"""C13 -- saving, cloning or reloading a quantized model preserves its predictions."""
import os
import sys
import tempfile

sys.path.insert(0, os.path.dirname(os.path.dirname(os.path.abspath(__file__))))
import vlib  # noqa: E402
from harness import env  # noqa: E402
import numpy as np  # noqa: E402
from translate import qmeta  # noqa: E402

PROP = "C13"
tf = env.tf

WQ = ["quantized_bits(4,0,1)", "quantized_bits(6,2,1,alpha='auto_po2')", "quantized_bits(8,0,1,alpha=2.0)", "quantized_po2(4)",
      "quantized_po2(4,2.0)", "ternary()", "ternary(alpha='auto')", "binary()", "binary(alpha='auto_po2')", "binary(use_01=1,alpha=1.0)",
      "quantized_linear(6,1,1)", "quantized_linear(4,0,1,alpha='auto')", "stochastic_ternary()", "stochastic_binary()", None,
      # exponent bounds of the power-of-two scale: min != max, one of them absent
      "binary(alpha='auto_po2',max_po2_exponent=-3)", "binary(alpha='auto_po2',min_po2_exponent=-4,max_po2_exponent=-2)",
      "quantized_bits(4,0,1,alpha='auto_po2',min_po2_exponent=-3,max_po2_exponent=-1)", "binary(alpha='auto_po2',min_po2_exponent=1)",
      # a bound of exactly 0 (a falsy value): active for ordinary weights, whose scale would be below 2^0
      "quantized_bits(4,0,1,alpha='auto_po2',min_po2_exponent=0)", "binary(alpha='auto_po2',min_po2_exponent=0,max_po2_exponent=0)"]
AQ = ["quantized_relu(4,2)", "quantized_relu(6,2,negative_slope=0.25)", "quantized_tanh(4)", "quantized_sigmoid(5)", "quantized_bits(8,3,1)",
      "quantized_relu_po2(4)", "quantized_ulaw(6,1)", "quantized_hswish(8,2,1)", "quantized_linear(8,2,1)", "binary()", "ternary()", None, "relu"]


def pick(rng, l):
  return l[int(rng.integers(0, len(l)))]


_WQ_STATE = {"n": 0, "off": None}


def pickw(rng):
  """kernel quantizers in rotation (random starting point): the few models of the quick tier cannot skip one"""
  if _WQ_STATE["off"] is None:
    _WQ_STATE["off"] = int(rng.integers(0, len(WQ)))
  _WQ_STATE["n"] += 1
  return WQ[(_WQ_STATE["off"] + _WQ_STATE["n"]) % len(WQ)]


# quantizer OBJECTS with options that the string form omits or misplaces: a layer must serialise the object, not its text
AOBJ = ["quantized_relu(4,1,negative_slope=0.25)", "quantized_bits(4,1,1,alpha=1,qnoise_factor=0.5)", "quantized_relu(6,2,relu_upper_bound=1.5)",
        "quantized_relu(4,1,is_quantized_clip=False)", "quantized_bits(6,1,1,alpha='auto_po2',scale_axis=0)", "quantized_relu(5,2)"]


_ACT_STATE = {"n": 0}


def act_arg(rng):
  """a QActivation argument: a quantizer string (2/3) or a quantizer object built with function-changing options (1/3)"""
  from qkeras.quantizers import get_quantizer
  import qkeras.quantizers as Q   # noqa: F401  (eval namespace)
  _ACT_STATE["n"] += 1
  if _ACT_STATE["n"] % 3 == 0:            # every third QActivation carries a quantizer object, the objects in rotation
    return eval("Q." + AOBJ[(_ACT_STATE["n"] // 3) % len(AOBJ)])   # pylint: disable=eval-used
  return pick(rng, AQ[:-2])


def gen_model(rng, idx):
  import tensorflow.keras.layers as L
  from tensorflow.keras import Model, Input
  import qkeras
  kind = idx % 3            # dense / conv2d / conv1d models in rotation
  if kind == 0:
    inp = Input((6,), name=f"i{idx}")
    x = inp
  elif kind == 1:
    inp = Input((8, 8, 2), name=f"i{idx}")
    x = inp
    if (idx // 3) % 2 == 1:
      # the kernel mask option (an array-valued layer option), over kernel shapes with and without a unit spatial dimension, in rotation
      ks_ = [(1, 3), (3, 1), (2, 3), (3, 3)][(idx // 6) % 4]
      mk_ = (rng.integers(0, 2, size=ks_) if min(ks_) > 1 else np.array([[1, 0, 1]]).reshape(ks_)).astype(np.float32)
      mk_.flat[0] = 1.0
      # one of the four shapes always WITHOUT a kernel quantizer: the rebuilt mask (np.array of a list: float64) then meets the raw float32 kernel
      x = qkeras.QConv2D(2, ks_, padding="same", mask=mk_, kernel_quantizer=(None if (idx // 6) % 4 == 2 else pickw(rng)),
                         bias_quantizer=pick(rng, WQ[:6] + [None]), name=f"cm{idx}")(x)
    for j in range(int(rng.integers(1, 3))):
      t = int(rng.integers(0, 4))
      if t == 3:
        x = qkeras.QMobileNetSeparableConv2D(int(rng.integers(1, 4)), 3, padding="same", depthwise_quantizer=pickw(rng), pointwise_quantizer=pickw(rng),
                                             bias_quantizer=pick(rng, WQ[:6] + [None]), name=f"mb{idx}_{j}")(x)
      elif t == 0:
        x = qkeras.QConv2D(int(rng.integers(1, 4)), 3, padding="same", use_bias=bool(rng.integers(0, 2)), kernel_quantizer=pickw(rng),
                           bias_quantizer=pick(rng, WQ[:6] + [None]), activation=pick(rng, AQ), name=f"c{idx}_{j}")(x)
      elif t == 1:
        x = qkeras.QDepthwiseConv2D(3, padding="same", depth_multiplier=int(rng.integers(1, 3)), depthwise_quantizer=pickw(rng),
                                    bias_quantizer=pick(rng, WQ[:6] + [None]), activation=pick(rng, AQ), name=f"dw{idx}_{j}")(x)
      else:
        x = qkeras.QSeparableConv2D(int(rng.integers(1, 4)), 3, padding="same", depthwise_quantizer=pickw(rng),
                                    pointwise_quantizer=pickw(rng), bias_quantizer=pick(rng, WQ[:6] + [None]), name=f"sp{idx}_{j}")(x)
      if rng.integers(0, 2):
        x = qkeras.QActivation(act_arg(rng), name=f"a{idx}_{j}")(x)
    pk = idx // 3                # pooling options in rotation: (average quantizer, activation) pairs never left to chance
    aqs, acts_ = ["quantized_bits(8,0,1)", None, "quantized_bits(6,0,1)"], ["quantized_bits(3,0,1)", None, "quantized_relu(4,1)", None]
    if pk % 2 == 0:
      x = qkeras.QAveragePooling2D(pick(rng, [2, (2, 1), (1, 2)]), average_quantizer=aqs[(pk // 2) % 3], activation=acts_[(pk // 2) % 4], name=f"p{idx}")(x)
    x = qkeras.QGlobalAveragePooling2D(average_quantizer=aqs[(pk + 1) % 3], activation=acts_[(pk + 1) % 4], name=f"g{idx}")(x) if pk % 3 != 2 \
        else L.Flatten(name=f"f{idx}")(x)
  else:
    inp = Input((10, 3), name=f"i{idx}")
    if rng.integers(0, 3) == 0:
      x = qkeras.QSeparableConv1D(int(rng.integers(1, 4)), 3, padding=pick(rng, ["valid", "same"]), depthwise_quantizer=pickw(rng),
                                  pointwise_quantizer=pickw(rng), bias_quantizer=pick(rng, WQ[:6] + [None]), name=f"s1_{idx}")(inp)
    else:
      x = qkeras.QConv1D(int(rng.integers(1, 4)), 3, padding=pick(rng, ["valid", "same", "causal"]), kernel_quantizer=pickw(rng),
                         bias_quantizer=pick(rng, WQ[:6] + [None]), activation=pick(rng, AQ), name=f"c1_{idx}")(inp)
    x = L.Flatten(name=f"f{idx}")(x)
  for j in range(int(rng.integers(1, 3))):
    x = qkeras.QDense(int(rng.integers(1, 5)), use_bias=bool(rng.integers(0, 2)), kernel_quantizer=pickw(rng),
                      bias_quantizer=pick(rng, WQ[:6] + [None]), activation=pick(rng, AQ), name=f"d{idx}_{j}")(x)
    if (idx // 3 + j) % 3 == 1:
      # non-trainable state between quantized layers (moving statistics): a round trip must carry it as well
      x = L.BatchNormalization(name=f"bn{idx}_{j}")(x)
    if rng.integers(0, 3) == 0:
      x = qkeras.QActivation(act_arg(rng), name=f"ad{idx}_{j}")(x)
    if rng.integers(0, 4) == 0:
      # the adaptive activation layer (fresh moving statistics) with its function-changing options
      x = qkeras.QAdaptiveActivation(pick(rng, ["quantized_relu", "quantized_bits"]), int(rng.integers(3, 9)),
                                     relu_upper_bound=pick(rng, [None, 0.5, 1.5]), relu_neg_slope=pick(rng, [0.0, 0.0, 0.25]),
                                     po2_rounding=bool(rng.integers(0, 2)), symmetric=bool(rng.integers(0, 2)), name=f"qa{idx}_{j}")(x)
  return Model(inp, x, name=f"qm{idx}")


def quantizer_strings(m):
  out = []
  for l in m.layers:
    if hasattr(l, "get_quantizers"):
      out.append((l.name, [str(q) if q is not None else None for q in l.get_quantizers()]))
    elif hasattr(l, "quantizer"):
      out.append((l.name, [str(l.quantizer)]))
  return out


def main():
  rep = vlib.Report(PROP, "translation_validation")
  gen = qmeta.emit(vlib.GEN)
  from translate import layermeta
  lgen = layermeta.emit(vlib.GEN)
  info = vlib.build_obligations(PROP, gen_files=[gen, lgen])
  errs = rep.obligations(info, "python3 tools/translate/qmeta.py coq/gen && python3 tools/translate/layermeta.py coq/gen && coqc coq/gen/QMeta.v coq/gen/LayerMeta.v && coqc coq/theories/Properties/C13.v")
  for e in errs:
    rep.violation("obligation-" + os.path.basename(e["file"]), "proof obligation no longer checks: " + e["error"][-600:],
                  {"file": e["file"]}, no_input=True)
  import qkeras.utils as U
  rng = np.random.default_rng(vlib.SEED)
  env.install_learning_phase()
  env.set_phase(0)
  rep.cov["rule"] = ("random quantized models (QDense, QConv1D incl. causal, QConv2D, QDepthwiseConv2D, QSeparableConv2D, QActivation, "
                     "QAveragePooling2D, QGlobalAveragePooling2D, QSeparableConv1D, QMobileNetSeparableConv2D, depth multipliers, QAdaptiveActivation, QActivation built from quantizer objects, BatchNormalization between quantized layers, frozen layers in rotation none / one / all) with weight / activation quantizers drawn from 15 + 13 option strings "
                     "(incl. auto scales, po2, binary/ternary, quantized_linear, quantized_hswish) x random weights/inputs x three routes: "
                     "JSON rebuild + set_weights, clone_model, HDF5 save + load_qmodel (no user custom objects). Outputs compared bitwise, "
                     "get_quantizers() strings compared. distinct = distinct model JSON")
  n = 24 if rep.tier == "quick" else 400
  n_ok = 0
  tmp = tempfile.mkdtemp(prefix="c13_")
  samples = None
  for i in range(n):
    try:
      m = gen_model(rng, i)
    except Exception as e:  # pylint: disable=broad-except
      rep.violation(f"build-{i}", f"model construction raised {type(e).__name__}: {str(e)[:300]}", {})
      continue
    ws = [rng.normal(0, 0.7, size=w.shape).astype(np.float32) if "variance" not in getattr(v, "path", getattr(v, "name", ""))
          else rng.uniform(0.3, 2.0, size=w.shape).astype(np.float32) for v, w in zip(m.weights, m.get_weights())]
    m.set_weights(ws)
    # frozen layers, in rotation: none / one weight-bearing layer / all of them (their variables are non-trainable)
    wl_ = [l for l in m.layers if l.get_weights()]
    if i % 4 == 1 and wl_:
      wl_[(i // 4) % len(wl_)].trainable = False
    elif i % 4 == 3:
      for l_ in wl_:
        l_.trainable = False
    x = tf.constant(rng.normal(0, 1, size=(3,) + tuple(m.input_shape[1:])).astype(np.float32))
    y = m(x).numpy()
    qs = quantizer_strings(m)
    js = m.to_json()
    rep.count(js)
    if samples is None:
      samples = {"layers": [(type(l).__name__, l.name) for l in m.layers], "quantizers": qs[:3]}
    routes = {}
    try:
      m2 = U.quantized_model_from_json(js)
      m2.set_weights(m.get_weights())
      routes["json"] = m2
    except Exception as e:  # pylint: disable=broad-except
      rep.violation(f"json-route-{i}", f"quantized_model_from_json raised {type(e).__name__}: {str(e)[:300]}", {"quantizers": qs})
    try:
      routes["clone"] = U.clone_model(m)
    except Exception as e:  # pylint: disable=broad-except
      rep.violation(f"clone-route-{i}", f"clone_model raised {type(e).__name__}: {str(e)[:300]}", {"quantizers": qs})
    try:
      path = os.path.join(tmp, f"m{i}.h5")
      m.save(path)
      routes["h5"] = U.load_qmodel(path, compile=False)
      os.remove(path)
    except Exception as e:  # pylint: disable=broad-except
      msg = str(e)
      if "quantized_linear" in js and ("quantized_linear" in msg or "could not be deserialized" in msg or "Could not" in msg):
        rep.finding("C13-h5-reload-with-quantized-linear", f"HDF5 reload of a model using quantized_linear raised {type(e).__name__}: {msg[:160]}", {"quantizers": qs})
      else:
        rep.violation(f"h5-route-{i}", f"save + load_qmodel raised {type(e).__name__}: {msg[:300]}", {"quantizers": qs})
    good = True
    for rname, mm in routes.items():
      try:
        yy = mm(x).numpy()
      except Exception as e:  # pylint: disable=broad-except
        rep.violation(f"{rname}-call-{i}", f"model rebuilt via {rname} cannot be called: {type(e).__name__}: {str(e)[:200]}", {"quantizers": qs})
        good = False
        continue
      if env.f2b(yy) != env.f2b(y):
        good = False
        rep.violation(f"{rname}-predictions-{i}", f"route {rname}: predictions differ (max abs diff {float(np.max(np.abs(yy - y)))})",
                      {"quantizers": qs, "route": rname})
      q2 = quantizer_strings(mm)
      if q2 != qs:
        good = False
        j = next((k for k, (a, b) in enumerate(zip(qs, q2)) if a != b), 0)
        rep.violation(f"{rname}-quantizers-{i}", f"route {rname}: layer {qs[j][0]} reports {q2[j][1] if j < len(q2) else None} instead of {qs[j][1]}",
                      {"route": rname})
    if good and len(routes) == 3:
      n_ok += 1
  try:
    os.rmdir(tmp)
  except OSError:
    pass
  rep.note(programs=n, disagreements_checked=n * 3, models_identical_on_all_routes=n_ok)
  rep.cov["programs"] = n
  rep.cov["disagreements_checked"] = n * 3
  if samples:
    rep.sample(samples)
  rep.assumptions += ["HDF5 file format and Keras (de)serialisation are runtime behaviour: this half of the property is decided by running the three "
                      "routes (translation-validation level); eager model(x) is used because model.predict is broken under the pinned Keras 3",
                      "stochastic quantizers are evaluated at learning phase 0 (harness stub)",
                      "QBatchNormalization, folded and recurrent layers do not build under the pinned Keras 3 and are not generated"]
  return rep.finish(vlib.TRUSTED_COMMON + ["class / custom-object tables regenerated from /repo on every run by tools/translate/qmeta.py"])


if __name__ == "__main__":
  sys.exit(main())

"""C03 -- power-of-two quantizers emit signed powers of two with in-range exponents."""
import itertools
import math
import os
import sys

sys.path.insert(0, os.path.dirname(os.path.dirname(os.path.abspath(__file__))))
import vlib  # noqa: E402
from harness import env  # noqa: E402
import numpy as np  # noqa: E402
from fractions import Fraction  # noqa: E402

PROP = "C03"
tf = env.tf
HEADER = ("From Coq Require Import ZArith List Bool.\n"
          "From QV Require Import Base.ZQ Base.FL Quant.Fixed Quant.Po2.\n"
          "Open Scope Z_scope. Import ListNotations.\n")


def ulps(v, ks=(-8, -2, -1, 0, 1, 2, 8)):
  c = np.float32(v)
  out = []
  for k in ks:
    x = c
    for _ in range(abs(k)):
      x = np.nextafter(x, np.float32(np.inf if k > 0 else -np.inf))
    out.append(x)
  return out


def exps(c):
  need = 1 if (c["mv"] is None or c["mv"] > 1) else 0
  if c["fam"] == "po2":
    eff = c["bits"] - 1 - need
  else:
    eff = c["bits"] - need
  return -(2 ** eff), 2 ** eff - 1


def configs(tier, rng):
  mvs = [None, 0.25, 0.5, 1.0, 2.0, 4.0, 8.0]
  allc = []
  for bits, mv, mode in itertools.product(range(2, 9), mvs, ["rnd", "floor"]):
    allc.append(dict(fam="po2", bits=bits, mv=mv, mode=mode))
  for bits, mv, mode, s in itertools.product(range(2, 9), mvs, ["rnd", "floor"], [None, 1, 2, 3]):
    allc.append(dict(fam="rpo2", bits=bits, mv=mv, mode=mode, slope=s))
  if tier == "thorough":
    return allc
  def key(c):
    mv = c["mv"]
    mvk = "none" if mv is None else ("lt1" if mv < 1 else ("eq1" if mv == 1 else "gt1"))
    return (c["fam"], mvk, c["mode"], c.get("slope") is None)
  return vlib.stratified(allc, key, 70, rng, per=2)


def describe(c):
  if c["fam"] == "po2":
    return f"quantized_po2({c['bits']},max_value={c['mv']},log2_rounding='{c['mode']}')"
  sl = 0 if c["slope"] is None else 2.0 ** -c["slope"]
  return f"quantized_relu_po2({c['bits']},max_value={c['mv']},negative_slope={sl},log2_rounding='{c['mode']}')"


def build(c):
  import qkeras.quantizers as Q
  if c["fam"] == "po2":
    return Q.quantized_po2(c["bits"], max_value=c["mv"], log2_rounding=c["mode"])
  sl = 0 if c["slope"] is None else 2.0 ** -c["slope"]
  return Q.quantized_relu_po2(c["bits"], max_value=c["mv"], negative_slope=sl, log2_rounding=c["mode"])


def inputs_for(c, rng, tier):
  mn, mx = exps(c)
  ks = list(range(mn - 2, mx + 3))
  ks = [k for k in ks if -60 <= k <= 60]
  cap = 24 if tier == "quick" else 80
  if len(ks) > cap:
    keep = set(ks[:5] + ks[-5:] + [-25, -24, -23, -22, -1, 0, 1])
    keep |= set(rng.choice(ks, size=cap - 10, replace=False).tolist())
    ks = sorted(k for k in ks if k in keep)
  pos = []
  for k in ks:
    pos += ulps(math.sqrt(2.0) * 2.0 ** k)
    pos += ulps(2.0 ** k, ks=(-2, -1, 0, 1, 2))
  pos += ulps(1e-7) + [1e-45, 1e-39, 2.0 ** -126, 0.0, 1e9, 3e38, 2.0 ** 24 * 2.0 ** mx * 0.99, 2.0 ** 24 * 2.0 ** mx * 1.5]
  if c["mv"] is not None:
    pos += ulps(c["mv"], ks=(-1, 0, 1))
  pos += list(np.exp(rng.uniform(-20, 12, size=30)))
  xs = [np.float32(v) for v in pos]
  xs = xs + [np.float32(-v) for v in xs]
  shape = [(len(xs),), (2, len(xs) // 2)][int(rng.integers(0, 2))]
  arr = np.asarray(xs[: (len(xs) // 2) * 2], dtype=np.float32).reshape(shape if shape[0] == 2 else (-1,))
  return arr


def coq_cfg(c):
  mv = "None" if c["mv"] is None else f"(Some {vlib.ratlit(Fraction(c['mv']))})"
  mode = "LRnd" if c["mode"] == "rnd" else "LFloor"
  if c["fam"] == "po2":
    return f"chk_po2 (P2 {c['bits']} {mv} {mode})"
  s = "None" if c["slope"] is None else f"(Some {c['slope']})"
  return f"chk_rpo2 (RP2 {c['bits']} {mv} {mode} {s})"


def main():
  rep = vlib.Report(PROP, "proof")
  from translate import po2gen
  gen = po2gen.emit(vlib.GEN)
  from translate import reportgen
  rgen = reportgen.emit(vlib.GEN)
  from translate import po2callgen
  cgen = po2callgen.emit(vlib.GEN)
  info = vlib.build_obligations(PROP, gen_files=[gen, rgen, cgen], extra_files=[os.path.join(vlib.COQ, "theories", "Link", "Po2Link.v"),
                                                                               os.path.join(vlib.COQ, "theories", "Link", "ReportLink.v"),
                                                                               os.path.join(vlib.COQ, "theories", "Link", "Po2CallLink.v")])
  errs = rep.obligations(info, "python3 tools/translate/po2gen.py coq/gen && coqc coq/gen/Po2Gen.v && coqc coq/theories/Link/Po2Link.v && coqc coq/theories/Properties/C03.v")
  for e in errs:
    rep.violation("obligation-" + os.path.basename(e["file"]), "proof obligation no longer checks: " + e["error"][-400:],
                  {"file": e["file"]}, no_input=True)
  rng = np.random.default_rng(vlib.SEED)
  # ---- translator validation: the exponent interval the constructors really set vs the regenerated functions in Coq
  if not errs:
    import qkeras.quantizers as QZ
    tv_texts, tv_items = [], []
    for bits in range(2, 9):
      for mv in (None, 0.25, 0.5, 1.0, 2.0, 3.0, 4.0, 16.0):
        for quad in (False, True):
          mvl = "None" if mv is None else f"(Some {vlib.ratlit(Fraction(mv))})"
          for cls, gname in ((QZ.quantized_po2, "gen_po2_exponents"), (QZ.quantized_relu_po2, "gen_rpo2_exponents")):
            qq = cls(bits, max_value=mv, quadratic_approximation=quad)
            tv_items.append((cls.__name__, bits, mv, quad, [int(qq._min_exp), int(qq._max_exp)]))
            tv_texts.append(f"let p := {gname} {bits} {mvl} {vlib.blit(quad)} in [fst p; snd p]")
    tv_out = vlib.coq_eval(PROP + "_interval", "From Coq Require Import ZArith List Bool.\nFrom QV Require Import Base.ZQ Base.FL.\nFrom QVGen Require Import Po2Gen.\n"
                           "Import ListNotations.\nOpen Scope Z_scope.\n" + "".join(f"Eval vm_compute in {t}.\n" for t in tv_texts))
    bad = [(it, got) for it, got in zip(tv_items, tv_out) if it[4] != got]
    for it, got in bad[:8]:
      rep.violation(f"translator-mismatch-{it[0]}-{it[1]}-{it[2]}-{it[3]}", f"{it[0]}(bits={it[1]}, max_value={it[2]}, quadratic_approximation={it[3]}) sets "
                    f"(_min_exp, _max_exp) = {it[4]} but the translation of its constructor gives {got}", {"config": list(it[:4])})
    rep.note(translator_validation=dict(constructors=len(tv_items), equal=len(tv_items) - len(bad)))
  cfgs = configs(rep.tier, rng)
  ftz = env.calibrate_ftz()
  if not ftz:
    rep.violation("ftz-calibration", "TF no longer flushes denormals; the model's DAZ assumption is wrong", no_input=True)
  rep.cov["rule"] = ("configs: bits 2..8 x max_value in {None, 2^k} x rnd/floor x (signed | relu with slope 0, 2^-1..2^-3); inputs per config: "
                     "for every admissible exponent k (sampled when > 24) the float32 neighbours (+-1,2,8 ulp) of sqrt(2)*2^k and of 2^k, the "
                     "max_value clamp edges, 0, +-eps(1e-7) +- ulps, denormals, huge values, random log-uniform magnitudes, both signs. "
                     "distinct = distinct (config, input bits); non-trivial = finite")
  results = []
  shards, cur, cur_items, cur_n = [], [], [], 0
  for ci, c in enumerate(cfgs):
    q = build(c)
    x = inputs_for(c, rng, rep.tier)
    y = q(tf.constant(x, dtype=tf.float32)).numpy()
    xb, yb = env.f2b(x), env.f2b(y)
    results.append(dict(cfg=c, q=q, x=xb, y=yb, desc=describe(c)))
    pairs = "; ".join(f"({a},{b})" for a, b in zip(xb, yb))
    cur.append(f"Eval vm_compute in map (fun p => {coq_cfg(c)} (fst p) (snd p)) [{pairs}].\n")
    cur_items.append(ci)
    cur_n += len(xb)
    if cur_n >= 2500:
      shards.append((f"{PROP}_k_{len(shards):03d}", HEADER + "".join(cur), cur_items))
      cur, cur_items, cur_n = [], [], 0
  if cur:
    shards.append((f"{PROP}_k_{len(shards):03d}", HEADER + "".join(cur), cur_items))
  outs = vlib.coq_eval_many([(n, t) for n, t, _ in shards])
  n_ok = n_abs = 0
  for name, _, items in shards:
    for ci, codes in zip(items, outs[name]):
      r = results[ci]
      r["codes"] = codes
      for xb_, code in zip(r["x"], codes):
        rep.count((r["desc"], xb_))
      n_ok += sum(1 for k in codes if k == 0)
      bad = [i for i, k in enumerate(codes) if k == 1]
      absorbed = [i for i, k in enumerate(codes) if k == 4]
      n_abs += len(absorbed)
      if bad:
        i = bad[0]
        rep.violation(f"model-mismatch-{r['desc']}", f"{r['desc']}: output is not the model's sign*2^e (exponent outside the tolerance band)",
                      {"config": r["cfg"], "x_bits": r["x"][i], "x": float(env.b2f([r["x"][i]])[0]), "y_bits": r["y"][i],
                       "y": float(env.b2f([r["y"][i]])[0]), "n_bad": len(bad)})
      under = [i for i, k in enumerate(codes) if k == 5]
      if under:
        i = under[0]
        rep.finding("C03-smallest-code-underflows-float32",
                    f"{r['desc']}({float(env.b2f([r['x'][i]])[0])}) = {float(env.b2f([r['y'][i]])[0])}: 2^min_exp is below float32's normal range",
                    {"config": r["cfg"], "x_bits": r["x"][i], "y_bits": r["y"][i]})
      if absorbed:
        i = absorbed[0]
        rep.finding("C03-ste-sum-absorbs-code-for-huge-inputs",
                    f"{r['desc']}({float(env.b2f([r['x'][i]])[0])}) = {float(env.b2f([r['y'][i]])[0])}: not a power of two",
                    {"config": r["cfg"], "x_bits": r["x"][i], "y_bits": r["y"][i]})
  rep.note(model_vs_impl=dict(configs=len(cfgs), agree_and_power_of_two=n_ok, agree_but_absorbed=n_abs))
  # ---- the rounding step exactly: the float32 log is an oracle, but WHAT the code does with the value the kernel returned is not.
  # The harness asks the same TensorFlow kernels for l = log(x') / log 2 on the filtered magnitude x' (epsilon floor, max_value clamp)
  # and Coq decides whether the implementation's exponent is clip(round-half-even(l)) resp. clip(floor(l)) -- inside the tolerance
  # band of the relational checker too, where an exact tie of l decides between two exponents.
  otexts, oitems = [], []
  eps_f = np.float32(1e-7)
  for r in results:
    c = r["cfg"]
    codes = np.asarray(r.get("codes", []))
    if codes.size == 0:
      continue
    x = env.b2f(r["x"]).astype(np.float32)
    y = env.b2f(r["y"]).astype(np.float32)
    mag = np.abs(x) if c["fam"] == "po2" else x
    sel = np.where((codes == 0) & np.isfinite(x) & (mag >= eps_f) & (mag >= np.float32(2.0 ** -126)))[0]
    if sel.size == 0:
      continue
    xf = mag[sel]
    if c["mv"] is not None:
      xf = np.where(xf >= np.float32(c["mv"]), np.float32(c["mv"]), xf)
    lg = (tf.keras.backend.log(tf.constant(xf, dtype=tf.float32)) / np.log(2.0)).numpy()
    m_, ex_ = np.frexp(np.abs(y[sel]).astype(np.float64))
    mn, mx = exps(c)
    mode = "LRnd" if c["mode"] == "rnd" else "LFloor"
    for j, i in enumerate(sel):
      if m_[j] != 0.5:
        continue
      otexts.append(f"chk_exp_from_log {mode} ({mn}) {mx} {int(env.f2b([lg[j]])[0])} ({int(ex_[j]) - 1})")
      oitems.append((r["desc"], r["x"][i], float(x[i]), float(lg[j]), int(ex_[j]) - 1))
  n_or = 0
  if otexts:
    SHO = 3000
    oshards = [(f"{PROP}_o_{k // SHO:03d}", HEADER + "Eval vm_compute in [" + "; ".join(otexts[k:k + SHO]) + "].\n") for k in range(0, len(otexts), SHO)]
    oouts = vlib.coq_eval_many(oshards)
    flat = []
    for k in range(0, len(otexts), SHO):
      flat += oouts[f"{PROP}_o_{k // SHO:03d}"][0]
    n_tie = 0
    for (desc, xb_, xv, lv, e_), code in zip(oitems, flat):
      if abs(lv - np.floor(lv) - 0.5) == 0.0:
        n_tie += 1
      if code != 0:
        rep.violation(f"exponent-not-rounding-of-returned-log-{desc}", f"{desc}({xv}): the float32 kernels return log2 = {lv!r} for the filtered magnitude, the output's exponent is {e_}, "
                      f"which is not clip({'round-half-even' if 'rnd' in desc else 'floor'}(log2)) of that value", {"config": desc, "x_bits": xb_, "log2": lv, "exponent": e_})
      else:
        n_or += 1
    rep.note(rounding_step_vs_returned_log=dict(cases=len(oitems), agree=n_or, exact_ties_of_the_returned_log=n_tie))
  rep.sample({"config": results[0]["desc"], "x_bits": results[0]["x"][:4], "y_bits": results[0]["y"][:4]})
  # direct property evaluation on the implementation's outputs
  n_mono = n_idem = 0
  for r in results:
    c, q = r["cfg"], r["q"]
    codes = np.asarray(r.get("codes", []))
    if codes.size == 0:
      continue
    x = env.b2f(r["x"]).astype(np.float64)
    y = env.b2f(r["y"]).astype(np.float64)
    good = codes == 0
    mn, mx = exps(c)
    # min()/max() enclose
    try:
      qmax, qmin = float(q.max()), float(q.min())
    except Exception as e:  # pylint: disable=broad-except
      rep.violation(f"minmax-raises-{r['desc']}", f"{r['desc']}.max()/min() raised {type(e).__name__}: {e}", {"config": c})
      continue
    out = good & ((y > qmax) | (y < qmin))
    if out.any():
      i = int(np.where(out)[0][0])
      fid = ("C03-relu-po2-min-ignores-exponent-range-with-slope" if (c["fam"] == "rpo2" and c["slope"] is not None and y[i] < qmin)
             else f"minmax-enclose-{r['desc']}")
      rep.finding(fid, f"{r['desc']}: output {y[i]} for x={x[i]} outside [min(),max()] = [{qmin},{qmax}]",
                  {"config": c, "x_bits": r["x"][i], "y": float(y[i]), "min": qmin, "max": qmax})
    # power-of-two max_value is never exceeded
    if c["mv"] is not None and mn <= math.log2(c["mv"]):
      over = good & (np.abs(y) > c["mv"]) & ~((c["fam"] == "rpo2") & (y < 0))
      if over.any():
        i = int(np.where(over)[0][0])
        rep.violation(f"exceeds-max-value-{r['desc']}", f"{r['desc']}: |{y[i]}| > max_value", {"config": c, "x_bits": r["x"][i]})
    # monotone on each sign (inputs treated as zero by DAZ excluded)
    for sgn in (1, -1):
      sel = np.where(good & (np.sign(x) == sgn) & (np.abs(x) >= 2.0 ** -126))[0]
      order = sel[np.argsort(x[sel], kind="stable")]
      ys = y[order]
      dec = np.where(ys[1:] < ys[:-1])[0]
      n_mono += len(order)
      if dec.size:
        i = int(dec[0])
        # float32 log may disagree with itself only inside the tolerance band: require a real inversion
        x1, x2 = x[order][i], x[order][i + 1]
        if abs(x2 / x1 - 1.0) > 2.0 ** -17:
          rep.violation(f"not-monotone-{r['desc']}", f"{r['desc']}: q({x1})={ys[i]} > q({x2})={ys[i + 1]}",
                        {"config": c, "x_bits": [r["x"][order[i]], r["x"][order[i + 1]]]})
    # idempotent when no leaky slope
    if c["fam"] == "po2" or c["slope"] is None:
      yin = env.b2f(r["y"])[good]
      if yin.size:
        y2 = q(tf.constant(yin, dtype=tf.float32)).numpy()
        n_idem += int(yin.size)
        neq = np.where(y2 != yin)[0]
        if neq.size:
          i = int(neq[0])
          if c["mode"] == "floor" and abs(yin[i]) == np.float32(2.0 ** -24):
            rep.finding("C03-floor-mode-code-below-epsilon-floor",
                        f"{r['desc']}: q({yin[i]}) = {y2[i]}: the reachable code 2^-24 is below the epsilon floor",
                        {"config": c, "y_bits": int(env.f2b([yin[i]])[0])})
            neq = [j for j in neq if abs(yin[j]) != np.float32(2.0 ** -24)]
            if not neq:
              continue
            i = int(neq[0])
          if c["mode"] == "floor" and y2[i] == yin[i] / 2:
            rep.finding("C03-floor-mode-float32-log-below-exact-power-of-two",
                        f"{r['desc']}: q({yin[i]}) = {y2[i]} (floor of an inexact float32 log2 at an exact power of two)",
                        {"config": c, "y_bits": int(env.f2b([yin[i]])[0])})
          else:
            rep.violation(f"not-idempotent-{r['desc']}", f"{r['desc']}: q({yin[i]}) = {y2[i]}", {"config": c, "y_bits": int(env.f2b([yin[i]])[0])})
  rep.note(monotone_checked=n_mono, idempotence_checked=n_idem)
  rep.assumptions += [
      "float32 log is an oracle: the implementation's exponent must lie between the exact exponents of x*(1-2^-18) and x*(1+2^-18); a breakpoint moved by less than that is invisible",
      "tf.pow(2.0, integer exponent) is exact (checked implicitly: any inexact power would disagree with the model)",
      "denormal inputs are zeros to TensorFlow (DAZ, calibrated per run)",
  ]
  return rep.finish(vlib.TRUSTED_COMMON + ["translators tools/translate/{po2gen,po2callgen,reportgen}.py regenerate coq/gen/{Po2Gen,Po2CallGen,ReportGen}.v; in Po2CallGen the float logarithm is an oracle parameter: the link to the model instantiates it with the exact round/floor base-2 logarithm, float32 log accuracy is checked by the banded correspondence only",
                                          "model Quant/Po2.v is hand-written; tie = comparison with the implementation on every generated case"])


if __name__ == "__main__":
  sys.exit(main())
